(** Facts about the PFN region machinery: the regions built from a bitmap
    answer "where is the element of page frame [p]" with
    [fileoff + elemsz * (number of set bits below p)] exactly for the set bits
    of the window, and the binary search finds what a linear scan finds. *)
From Coq Require Import NArith List Bool Lia Arith Sorted.
From KdV Require Import Fmt.Codec Fmt.CodecProofs Fmt.PfnModel.
Import ListNotations.
Local Open Scope N_scope.

(** * linear lookup *)

(** the first region that ends above [p] *)
Fixpoint find_lin (rs : list pfn_region) (p : N) : option pfn_region :=
  match rs with
  | [] => None
  | r :: t => if p <? rg_pfn r + rg_cnt r then Some r else find_lin t p
  end.

Definition pos_of (elemsz : N) (o : option pfn_region) (p : N) : option N :=
  match o with
  | Some r => if rg_pfn r <=? p then Some (rg_pos r + (p - rg_pfn r) * elemsz) else None
  | None => None
  end.

Ltac pos_eq := f_equal; first [ lia | (f_equal; f_equal; lia) | nia ].

(** * what [runs] produces *)

Section Runs.
  Variables elemsz start_pfn end_pfn : N.

  Definition live (b : bool) (pfn : N) : bool :=
    b && (start_pfn <=? pfn) && (pfn <? end_pfn).

  (** is bit [k] of [bs] (which starts at page frame [pfn]) a live bit *)
  Fixpoint live_at (bs : list bool) (pfn : N) (k : nat) : bool :=
    match bs, k with
    | [], _ => false
    | b :: _, O => live b pfn
    | _ :: t, S k' => live_at t (pfn + 1) k'
    end.

  (** number of live bits among the first [k] *)
  Fixpoint rank_in (bs : list bool) (pfn : N) (k : nat) : N :=
    match bs, k with
    | b :: t, S k' => (if live b pfn then 1 else 0) + rank_in t (pfn + 1) k'
    | _, _ => 0
    end.

  Notation runs' := (runs elemsz start_pfn end_pfn).

  Definition lower (pfn : N) (cur : option N) : N :=
    match cur with Some st => st | None => pfn end.

  (** every region starts at or above the current position / run start *)
  Lemma runs_lower bs : forall pfn pos cur r,
    lower pfn cur <= pfn ->
    In r (runs' bs pfn pos cur) -> lower pfn cur <= rg_pfn r.
  Proof.
    induction bs as [| b t IH]; intros pfn pos cur r Hl Hin.
    - destruct cur; cbn in Hin; [| contradiction].
      destruct Hin as [<- | []]. cbn. lia.
    - cbn [runs] in Hin. fold (live b pfn) in Hin.
      destruct cur as [st |]; cbn [lower] in *.
      + destruct (live b pfn).
        * specialize (IH (pfn + 1) pos (Some st) r). cbn [lower] in IH. apply IH; [lia | assumption].
        * destruct Hin as [<- | Hin]; [cbn; lia |].
          specialize (IH (pfn + 1) (pos + (pfn - st) * elemsz) None r). cbn [lower] in IH.
          specialize (IH ltac:(lia) Hin). lia.
      + destruct (live b pfn).
        * specialize (IH (pfn + 1) pos (Some pfn) r). cbn [lower] in IH. apply IH; [lia | assumption].
        * specialize (IH (pfn + 1) pos None r). cbn [lower] in IH.
          specialize (IH ltac:(lia) Hin). lia.
  Qed.

  Lemma find_lin_below rs p :
    (forall r, In r rs -> p < rg_pfn r) -> pos_of elemsz (find_lin rs p) p = None.
  Proof.
    induction rs as [| r t IH]; intro H; [reflexivity |].
    cbn [find_lin]. destruct (N.ltb_spec p (rg_pfn r + rg_cnt r)).
    - cbn [pos_of]. specialize (H r (or_introl eq_refl)).
      destruct (N.leb_spec (rg_pfn r) p); [lia | reflexivity].
    - apply IH. intros q Hq. apply H. now right.
  Qed.

  (** the lookup in the produced regions, relative to the position of the walk *)
  Lemma runs_lookup bs : forall pfn pos cur,
    lower pfn cur <= pfn ->
    (forall p, lower pfn cur <= p < pfn ->
       pos_of elemsz (find_lin (runs' bs pfn pos cur) p) p = Some (pos + (p - lower pfn cur) * elemsz))
    /\
    (forall k, pos_of elemsz (find_lin (runs' bs pfn pos cur) (pfn + N.of_nat k)) (pfn + N.of_nat k) =
       if live_at bs pfn k
       then Some (pos + ((pfn - lower pfn cur) + rank_in bs pfn k) * elemsz)
       else None).
  Proof.
    induction bs as [| b t IH]; intros pfn pos cur Hl.
    - (* end of the bitmap *)
      destruct cur as [st |]; cbn [lower runs] in *.
      + split.
        * intros p Hp. cbn [find_lin rg_pfn rg_cnt]. replace (st + (pfn - st)) with pfn by lia.
          destruct (N.ltb_spec p pfn); [| lia]. cbn [pos_of rg_pfn rg_pos].
          destruct (N.leb_spec st p); [reflexivity | lia].
        * intro k. cbn [find_lin rg_pfn rg_cnt]. replace (st + (pfn - st)) with pfn by lia.
          destruct (N.ltb_spec (pfn + N.of_nat k) pfn); [lia |]. destruct k; reflexivity.
      + split; [intros p Hp; lia | intro k; destruct k; reflexivity].
    - cbn [runs]. fold (live b pfn).
      destruct cur as [st |]; cbn [lower] in *.
      + destruct (live b pfn) eqn:Hb.
        * (* the run continues *)
          destruct (IH (pfn + 1) pos (Some st) ltac:(cbn; lia)) as [IH1 IH2]. cbn [lower] in *.
          split.
          -- intros p Hp. apply IH1. lia.
          -- intro k. destruct k as [| k].
             ++ cbn [live_at rank_in N.of_nat]. rewrite Hb, N.add_0_r.
                rewrite IH1 by lia. pos_eq.
             ++ cbn [live_at rank_in]. rewrite Hb.
                replace (pfn + N.of_nat (S k)) with (pfn + 1 + N.of_nat k) by lia.
                rewrite IH2. destruct (live_at t (pfn + 1) k); [pos_eq | reflexivity].
        * (* the run ends at [pfn] *)
          destruct (IH (pfn + 1) (pos + (pfn - st) * elemsz) None ltac:(cbn; lia)) as [IH1 IH2].
          cbn [lower] in *.
          assert (Hend : forall p, find_lin ({| rg_pfn := st; rg_cnt := pfn - st; rg_pos := pos |}
                                    :: runs' t (pfn + 1) (pos + (pfn - st) * elemsz) None) p =
                          if p <? pfn then Some {| rg_pfn := st; rg_cnt := pfn - st; rg_pos := pos |}
                          else find_lin (runs' t (pfn + 1) (pos + (pfn - st) * elemsz) None) p).
          { intro p. cbn [find_lin rg_pfn rg_cnt]. now replace (st + (pfn - st)) with pfn by lia. }
          split.
          -- intros p Hp. rewrite Hend. destruct (N.ltb_spec p pfn); [| lia].
             cbn [pos_of rg_pfn rg_pos]. destruct (N.leb_spec st p); [reflexivity | lia].
          -- intro k. rewrite Hend. destruct (N.ltb_spec (pfn + N.of_nat k) pfn); [lia |].
             destruct k as [| k].
             ++ cbn [live_at N.of_nat]. rewrite Hb, N.add_0_r.
                apply find_lin_below. intros r Hr.
                pose proof (runs_lower t (pfn + 1) _ None r ltac:(cbn; lia) Hr) as Hlow.
                cbn [lower] in Hlow. lia.
             ++ cbn [live_at rank_in]. rewrite Hb.
                replace (pfn + N.of_nat (S k)) with (pfn + 1 + N.of_nat k) by lia.
                rewrite IH2. destruct (live_at t (pfn + 1) k); [pos_eq | reflexivity].
      + destruct (live b pfn) eqn:Hb.
        * (* a run starts at [pfn] *)
          destruct (IH (pfn + 1) pos (Some pfn) ltac:(cbn; lia)) as [IH1 IH2]. cbn [lower] in *.
          split; [intros p Hp; lia |].
          intro k. destruct k as [| k].
          -- cbn [live_at rank_in N.of_nat]. rewrite Hb, N.add_0_r.
             rewrite IH1 by lia. pos_eq.
          -- cbn [live_at rank_in]. rewrite Hb.
             replace (pfn + N.of_nat (S k)) with (pfn + 1 + N.of_nat k) by lia.
             rewrite IH2. destruct (live_at t (pfn + 1) k); [pos_eq | reflexivity].
        * destruct (IH (pfn + 1) pos None ltac:(cbn; lia)) as [IH1 IH2]. cbn [lower] in *.
          split; [intros p Hp; lia |].
          intro k. destruct k as [| k].
          -- cbn [live_at N.of_nat]. rewrite Hb, N.add_0_r.
             apply find_lin_below. intros r Hr.
             pose proof (runs_lower t (pfn + 1) _ None r ltac:(cbn; lia) Hr) as Hlow.
             cbn [lower] in Hlow. lia.
          -- cbn [live_at rank_in]. rewrite Hb.
             replace (pfn + N.of_nat (S k)) with (pfn + 1 + N.of_nat k) by lia.
             rewrite IH2. destruct (live_at t (pfn + 1) k); [pos_eq | reflexivity].
  Qed.

  (** the regions are sorted and disjoint *)
  Definition before (a b : pfn_region) : Prop := rg_pfn a + rg_cnt a <= rg_pfn b.

  Lemma runs_sorted bs : forall pfn pos cur,
    lower pfn cur <= pfn -> StronglySorted before (runs' bs pfn pos cur).
  Proof.
    induction bs as [| b t IH]; intros pfn pos cur Hl.
    - destruct cur; cbn [runs]; repeat constructor.
    - cbn [runs]. fold (live b pfn). destruct cur as [st |]; cbn [lower] in *.
      + destruct (live b pfn).
        * apply IH. cbn. lia.
        * constructor; [apply IH; cbn; lia |].
          apply Forall_forall. intros r Hr. unfold before. cbn [rg_pfn rg_cnt].
          pose proof (runs_lower t (pfn + 1) _ None r ltac:(cbn; lia) Hr) as Hlow.
          cbn [lower] in Hlow. lia.
      + destruct (live b pfn); apply IH; cbn; lia.
  Qed.
End Runs.

(** * binary search = linear search on sorted regions *)

Lemma find_lin_nth rs p : forall r, find_lin rs p = Some r ->
  exists i, nth_error rs i = Some r /\ p < rg_pfn r + rg_cnt r /\
            forall j q, (j < i)%nat -> nth_error rs j = Some q -> rg_pfn q + rg_cnt q <= p.
Proof.
  induction rs as [| a t IH]; intros r H; [discriminate |].
  cbn [find_lin] in H. destruct (N.ltb_spec p (rg_pfn a + rg_cnt a)).
  - injection H as <-. exists 0%nat. split; [reflexivity |]. split; [assumption |]. intros; lia.
  - destruct (IH r H) as [i [Hi [Hp Hbefore]]]. exists (S i). split; [exact Hi |]. split; [exact Hp |].
    intros j q Hj Hq. destruct j; [cbn in Hq; injection Hq as <-; assumption |].
    apply (Hbefore j q); [lia | exact Hq].
Qed.

Lemma find_lin_none rs p : find_lin rs p = None ->
  forall j q, nth_error rs j = Some q -> rg_pfn q + rg_cnt q <= p.
Proof.
  induction rs as [| a t IH]; intros H j q Hq; [destruct j; discriminate |].
  cbn [find_lin] in H. destruct (N.ltb_spec p (rg_pfn a + rg_cnt a)); [discriminate |].
  destruct j; [cbn in Hq; injection Hq as <-; assumption | apply (IH H j q Hq)].
Qed.

Lemma sorted_nth rs : StronglySorted before rs ->
  forall i j a b, (i < j)%nat -> nth_error rs i = Some a -> nth_error rs j = Some b -> before a b.
Proof.
  induction 1 as [| x t Hs IH Hall]; intros i j a b Hij Ha Hb; [destruct i; discriminate |].
  destruct j; [lia |]. destruct i.
  - cbn in Ha. injection Ha as <-. cbn in Hb.
    rewrite Forall_forall in Hall. apply Hall. eapply nth_error_In. exact Hb.
  - cbn in Ha, Hb. apply (IH i j); [lia | assumption | assumption].
Qed.

(** the index [k] of the linear answer: everything before ends at or below
    [p], the element at [k] (if any) ends above *)
Definition answer_at (rs : list pfn_region) (p : N) (k : nat) : Prop :=
  (forall j q, (j < k)%nat -> nth_error rs j = Some q -> rg_pfn q + rg_cnt q <= p) /\
  (forall q, nth_error rs k = Some q -> p < rg_pfn q + rg_cnt q) /\
  (k <= length rs)%nat.

Lemma answer_exists rs p : exists k, answer_at rs p k /\ find_lin rs p = nth_error rs k.
Proof.
  destruct (find_lin rs p) as [r |] eqn:E.
  - destruct (find_lin_nth rs p r E) as [i [Hi [Hp Hb]]]. exists i. split; [| now rewrite Hi].
    split; [exact Hb |]. split.
    + intros q Hq. rewrite Hi in Hq. now injection Hq as <-.
    + apply Nat.lt_le_incl. apply nth_error_Some. now rewrite Hi.
  - exists (length rs). split.
    + split; [intros j q _ Hq; eapply find_lin_none; eassumption |].
      split; [| lia]. intros q Hq.
      assert (nth_error rs (length rs) = None) by (apply nth_error_None; lia). congruence.
    + symmetry. apply nth_error_None. lia.
Qed.

Lemma find_region_loop_correct rs p : StronglySorted before rs ->
  forall k, answer_at rs p k ->
  forall fuel left right,
    (left <= k <= right)%nat -> (right <= length rs)%nat -> (right - left < fuel)%nat ->
    find_region_loop fuel rs p left right = nth_error rs k.
Proof.
  intros Hs k [Hbefore [Hat Hk]].
  induction fuel as [| fuel IH]; intros left right Hlr Hr Hf; [lia |].
  cbn [find_region_loop].
  destruct (Nat.eqb_spec left right) as [-> | Hne].
  - f_equal. lia.
  - pose proof (Nat.div2_spec (left + right)) as _.
    assert (Hmid : (left <= Nat.div2 (left + right) < right)%nat).
    { pose proof (Nat.div2_odd (left + right)) as Ho.
      destruct (Nat.odd (left + right)); cbn [Nat.b2n] in Ho; lia. }
    set (mid := Nat.div2 (left + right)) in *.
    destruct (nth_error rs mid) as [rgn |] eqn:Emid.
    2:{ apply nth_error_None in Emid. lia. }
    destruct (N.ltb_spec p (rg_pfn rgn)) as [Hlt | Hge].
    + (* the answer is at or before mid *)
      apply IH; [| lia | lia]. split; [lia |].
      destruct (Nat.le_gt_cases k mid); [assumption |].
      specialize (Hbefore mid rgn ltac:(lia) Emid). lia.
    + destruct (N.leb_spec (rg_pfn rgn + rg_cnt rgn) p) as [Hle | Hin].
      * (* the answer is after mid *)
        apply IH; [| lia | lia]. split; [| lia].
        destruct (Nat.le_gt_cases (S mid) k); [assumption |].
        assert (Hkm : (k <= mid)%nat) by lia.
        destruct (Nat.eq_dec k mid) as [-> | Hkne].
        -- specialize (Hat rgn Emid). lia.
        -- destruct (nth_error rs k) as [q |] eqn:Eq.
           ++ specialize (Hat q eq_refl).
              pose proof (sorted_nth rs Hs k mid q rgn ltac:(lia) Eq Emid) as Hb. unfold before in Hb. lia.
           ++ apply nth_error_None in Eq. lia.
      * (* mid contains p *)
        symmetry.
        assert (k = mid); [| now subst].
        destruct (Nat.lt_trichotomy k mid) as [Hlt | [Heq | Hgt]]; [| assumption |].
        -- destruct (nth_error rs k) as [q |] eqn:Eq.
           ++ specialize (Hat q eq_refl).
              pose proof (sorted_nth rs Hs k mid q rgn Hlt Eq Emid) as Hb. unfold before in Hb. lia.
           ++ apply nth_error_None in Eq. lia.
        -- specialize (Hbefore mid rgn Hgt Emid). lia.
Qed.

Theorem find_pfn_region_lin rs p :
  StronglySorted before rs -> find_pfn_region rs p = find_lin rs p.
Proof.
  intro Hs. destruct (answer_exists rs p) as [k [Hk E]]. rewrite E.
  unfold find_pfn_region. apply (find_region_loop_correct rs p Hs k Hk).
  - destruct Hk as [_ [_ Hk]]. lia.
  - lia.
  - lia.
Qed.

(** * bitmaps: packing and unpacking *)
From KdV Require Import Fmt.BitmapSpec.

Lemma unpack_pack8 msb0 b0 b1 b2 b3 b4 b5 b6 b7 :
  bits_of_byte msb0 (pack_byte msb0 [b0; b1; b2; b3; b4; b5; b6; b7]) = [b0; b1; b2; b3; b4; b5; b6; b7].
Proof.
  destruct msb0, b0, b1, b2, b3, b4, b5, b6, b7; reflexivity.
Qed.

Lemma nth_app_repeat {A} (l : list A) d k i : nth i (l ++ repeat d k) d = nth i l d.
Proof.
  destruct (Nat.lt_ge_cases i (length l)).
  - now apply app_nth1.
  - rewrite app_nth2 by lia. rewrite nth_repeat. symmetry. now apply nth_overflow.
Qed.

Lemma nth_firstn_ge {A} (l : list A) n i d : (n <= i)%nat -> nth i (firstn n l) d = d.
Proof. intro H. apply nth_overflow. rewrite firstn_length. lia. Qed.

(** the first [8 n] bits of [bits], padded with clear bits *)
Definition padded (n : nat) (bits : list bool) : list bool :=
  firstn (8 * n) (bits ++ repeat false (8 * n)).

Lemma padded_length n bits : length (padded n bits) = (8 * n)%nat.
Proof. unfold padded. rewrite firstn_length, app_length, repeat_length. lia. Qed.

Lemma nth_padded n bits i :
  nth i (padded n bits) false = if (i <? 8 * n)%nat then nth i bits false else false.
Proof.
  unfold padded. destruct (Nat.ltb_spec i (8 * n)).
  - rewrite nth_firstn_lt by assumption. apply nth_app_repeat.
  - now apply nth_firstn_ge.
Qed.

Lemma take8_padded l : take8 l = padded 1 l.
Proof.
  unfold take8, padded. change (8 * 1)%nat with 8%nat.
  rewrite firstn_app, firstn_length. f_equal.
  rewrite firstn_repeat by lia. f_equal. lia.
Qed.

Lemma take8_length l : length (take8 l) = 8%nat.
Proof. rewrite take8_padded. apply padded_length. Qed.

Lemma padded_idem n l : padded n (padded n l) = padded n l.
Proof.
  apply (nth_ext _ _ false false); [now rewrite !padded_length |].
  intros i Hi. rewrite padded_length in Hi. rewrite !nth_padded.
  destruct (Nat.ltb_spec i (8 * n)); [reflexivity | lia].
Qed.

Lemma pack_take8 msb0 l : pack_byte msb0 l = pack_byte msb0 (take8 l).
Proof.
  unfold pack_byte. rewrite (take8_padded (take8 l)), !(take8_padded l), padded_idem. reflexivity.
Qed.

Lemma unpack_pack msb0 l : bits_of_byte msb0 (pack_byte msb0 l) = take8 l.
Proof.
  rewrite pack_take8. pose proof (take8_length l) as H.
  destruct (take8 l) as [| b0 [| b1 [| b2 [| b3 [| b4 [| b5 [| b6 [| b7 [| ? ?]]]]]]]]]; try discriminate.
  apply unpack_pack8.
Qed.

Lemma padded_S n bits : padded (S n) bits = take8 bits ++ padded n (skipn 8 bits).
Proof.
  apply (nth_ext _ _ false false).
  - rewrite app_length, !padded_length, take8_length. lia.
  - intros i Hi. rewrite padded_length in Hi. rewrite nth_padded.
    destruct (Nat.ltb_spec i (8 * S n)); [| lia].
    destruct (Nat.lt_ge_cases i 8).
    + rewrite app_nth1 by (rewrite take8_length; lia).
      rewrite take8_padded, nth_padded. destruct (Nat.ltb_spec i (8 * 1)); [reflexivity | lia].
    + rewrite app_nth2 by (rewrite take8_length; lia). rewrite take8_length.
      rewrite nth_padded. destruct (Nat.ltb_spec (i - 8) (8 * n)); [| lia].
      rewrite nth_skipn_add. f_equal. lia.
Qed.

Lemma unpack_bits_to_bytes msb0 n : forall bits,
  bits_of_bytes msb0 (bits_to_bytes msb0 n bits) = padded n bits.
Proof.
  induction n as [| n IH]; intro bits; [reflexivity |].
  cbn [bits_to_bytes]. unfold bits_of_bytes in *. cbn [flat_map]. rewrite IH, unpack_pack.
  symmetry. apply padded_S.
Qed.

Lemma padded_short n bits : (length bits <= 8 * n)%nat ->
  padded n bits = bits ++ repeat false (8 * n - length bits).
Proof.
  intro H. unfold padded. rewrite firstn_app, firstn_all2 by lia. f_equal.
  apply firstn_repeat. lia.
Qed.

(** live bits and ranks of a bitmap that ends in clear bits *)
Section Window.
  Variables start_pfn end_pfn : N.
  Notation live' := (live start_pfn end_pfn).
  Notation live_at' := (live_at start_pfn end_pfn).
  Notation rank_in' := (rank_in start_pfn end_pfn).

  Lemma live_at_false m : forall pfn k, live_at' (repeat false m) pfn k = false.
  Proof.
    induction m; intros pfn k; [destruct k; reflexivity |].
    cbn [repeat]. destruct k; [reflexivity | apply IHm].
  Qed.

  Lemma rank_in_false m : forall pfn k, rank_in' (repeat false m) pfn k = 0.
  Proof.
    induction m; intros pfn k; [destruct k; reflexivity |].
    cbn [repeat]. destruct k; [reflexivity |]. cbn [rank_in]. rewrite IHm. reflexivity.
  Qed.

  Lemma live_at_app_false bits m : forall pfn k,
    live_at' (bits ++ repeat false m) pfn k = live' (nth k bits false) (pfn + N.of_nat k).
  Proof.
    induction bits as [| b t IH]; intros pfn k.
    - cbn [app]. rewrite live_at_false. destruct k; reflexivity.
    - cbn [app]. destruct k.
      + cbn [live_at nth N.of_nat]. now rewrite N.add_0_r.
      + cbn [live_at nth]. rewrite IH. f_equal. lia.
  Qed.

  Lemma rank_in_app_false bits m : forall pfn k,
    rank_in' (bits ++ repeat false m) pfn k = rank_in' bits pfn k.
  Proof.
    induction bits as [| b t IH]; intros pfn k.
    - cbn [app]. rewrite rank_in_false. destruct k; reflexivity.
    - cbn [app]. destruct k; [reflexivity |]. cbn [rank_in]. now rewrite IH.
  Qed.
End Window.

(** * lookup in the regions built from a packed bitmap *)
From KdV Require Import Fmt.ImageSpec.

Lemma rank_in_is_some {A} e (l : list (option A)) : forall pfn k,
  pfn + N.of_nat (length l) <= e ->
  rank_in 0 e (map (@is_some A) l) pfn k = count_some (firstn k l).
Proof.
  induction l as [| p t IH]; intros pfn k He; [destruct k; reflexivity |].
  destruct k; [reflexivity |]. cbn [map rank_in firstn length] in *.
  rewrite IH by lia. unfold live.
  destruct (N.leb_spec 0 pfn); [| lia]. destruct (N.ltb_spec pfn e); [| lia].
  destruct p; reflexivity.
Qed.

Lemma lookup_bitmap msb0 n bits fileoff elemsz p :
  (length bits <= 8 * n)%nat ->
  pos_of elemsz
    (find_pfn_region (regions_from_bitmap msb0 (bits_to_bytes msb0 n bits) 0 (N.of_nat (8 * n)) fileoff elemsz) p) p
  = if nth (N.to_nat p) bits false
    then Some (fileoff + rank_in 0 (N.of_nat (8 * n)) bits 0 (N.to_nat p) * elemsz)
    else None.
Proof.
  intro Hlen. unfold regions_from_bitmap.
  rewrite find_pfn_region_lin by (apply runs_sorted; cbn; lia).
  destruct (runs_lookup elemsz 0 (N.of_nat (8 * n)) (bits_of_bytes msb0 (bits_to_bytes msb0 n bits)) 0 fileoff None
              ltac:(cbn; lia)) as [_ H].
  specialize (H (N.to_nat p)). rewrite N2Nat.id, N.add_0_l in H. rewrite H. clear H.
  rewrite unpack_bits_to_bytes, (padded_short _ _ Hlen).
  rewrite live_at_app_false, rank_in_app_false. cbn [lower].
  rewrite N2Nat.id, N.add_0_l. unfold live.
  destruct (nth (N.to_nat p) bits false) eqn:Hb; cbn [andb]; [| reflexivity].
  assert (Hlt : (N.to_nat p < length bits)%nat).
  { destruct (Nat.lt_ge_cases (N.to_nat p) (length bits)); [assumption |].
    rewrite nth_overflow in Hb by lia. discriminate. }
  destruct (N.leb_spec 0 p); [| lia]. destruct (N.ltb_spec p (N.of_nat (8 * n))); [| lia].
  cbn [andb]. reflexivity.
Qed.
