(** C01 for s390 stand-alone dumps. *)
From Coq Require Import NArith List Bool Lia Arith.
From KdV Require Import Fmt.Codec Fmt.CodecProofs Fmt.S390Model Fmt.S390Spec.
Import ListNotations.
Local Open Scope N_scope.

Record s3_wf (l : s3_layout) (pages : list bytes) : Prop := {
  s3wf_pgsz : exists k, 12 <= k <= 18 /\ s3l_page_size l = 2^k;
  s3wf_hdr : 97 <= s3l_hdr_size l < 2^32;
  s3wf_pages : Forall (fun c => len c = s3l_page_size l) pages;
  s3wf_count : N.of_nat (length pages) < 2^32;
  s3wf_tod : s3l_tod l <= s3l_end_tod l < 2^64;
  s3wf_small : s3l_version l < 2^32 /\ s3l_cpu_id l < 2^64
}.

Lemma len_concat_pages pgsz pages :
  Forall (fun c => len c = pgsz) pages -> len (concat pages) = N.of_nat (length pages) * pgsz.
Proof.
  induction 1 as [| c t Hc Ht IH]; [reflexivity |].
  cbn [concat length]. rewrite len_app, IH, Hc. lia.
Qed.

Lemma read_concat_page pgsz pages rest : forall k c,
  Forall (fun c => len c = pgsz) pages -> nth_error pages k = Some c ->
  read_of (concat pages ++ rest) (N.of_nat k * pgsz) pgsz = c.
Proof.
  induction pages as [| p t IH]; intros k c Hall Hk; [destruct k; discriminate |].
  apply Forall_cons_iff in Hall as [Hp Ht]. cbn [concat]. rewrite <- app_assoc.
  destruct k.
  - cbn in Hk. injection Hk as <-. cbn [N.of_nat]. rewrite N.mul_0_l.
    apply read_of_exact'. now symmetry.
  - cbn [nth_error] in Hk. rewrite read_of_skip by (rewrite Hp; lia).
    rewrite Hp. replace (N.of_nat (S k) * pgsz - pgsz) with (N.of_nat k * pgsz) by lia.
    now apply IH.
Qed.

Section Roundtrip.
  Variable l : s3_layout.
  Variable pages : list bytes.
  Hypothesis Hwf : s3_wf l pages.

  Let F := encode_s390 l pages.
  Let rd := read_files [F].
  Let pgsz := s3l_page_size l.
  Let npages := N.of_nat (length pages).
  Let hdrsz := s3l_hdr_size l.

  Definition s3_expected : s3_state :=
    {| s3_dataoff := hdrsz; s3_max_pfn := npages; s3_page_size := pgsz;
       s3_ptr_size := if s3l_arch64 l then 8 else 4 |}.

  Lemma pgsz_pos : 4096 <= pgsz <= 262144.
  Proof.
    destruct (s3wf_pgsz _ _ Hwf) as [k [[H1 H2] E]]. unfold pgsz. rewrite E.
    change 4096 with (2^12). change 262144 with (2^18). split; apply N.pow_le_mono_r; lia.
  Qed.

  Lemma is_pow2_pgsz : is_pow2 pgsz = true.
  Proof.
    destruct (s3wf_pgsz _ _ Hwf) as [k [Hk E]]. unfold pgsz. rewrite E.
    assert (Hc : k = 12 \/ k = 13 \/ k = 14 \/ k = 15 \/ k = 16 \/ k = 17 \/ k = 18) by lia.
    destruct Hc as [-> | [-> | [-> | [-> | [-> | [-> | ->]]]]]]; vm_compute; reflexivity.
  Qed.

  Lemma hdr_len : flds_len (s3_header_flds l npages) = 97.
  Proof. reflexivity. Qed.

  Lemma F_hdr : exists rest, F = enc_flds true (s3_header_flds l npages) ++ rest.
  Proof.
    unfold F, encode_s390. rewrite fit_small.
    - rewrite <- app_assoc. eexists. reflexivity.
    - rewrite len_enc_flds. fold npages. rewrite hdr_len. apply (s3wf_hdr _ _ Hwf).
  Qed.

  Lemma rd_eq off n : rd 0 off n = read_of F off n.
  Proof. reflexivity. Qed.

  Lemma hdr32 off v :
    fld_at (s3_header_flds l npages) off = Some (F32 v) -> v < 2^32 -> off + 4 <= 4096 ->
    get32 true (rd 0 0 S390_HDR_STRUCT_SIZE) off = v.
  Proof.
    intros Hf Hv Ho. rewrite rd_eq, get32_read by (unfold S390_HDR_STRUCT_SIZE; lia).
    destruct F_hdr as [rest E]. rewrite E. now apply get32_fld.
  Qed.

  Lemma hdr64 off v :
    fld_at (s3_header_flds l npages) off = Some (F64 v) -> v < 2^64 -> off + 8 <= 4096 ->
    get64 true (rd 0 0 S390_HDR_STRUCT_SIZE) off = v.
  Proof.
    intros Hf Hv Ho. rewrite rd_eq, get64_read by (unfold S390_HDR_STRUCT_SIZE; lia).
    destruct F_hdr as [rest E]. rewrite E. now apply get64_fld.
  Qed.

  Lemma memsz_small : npages * pgsz < 2^64.
  Proof.
    pose proof pgsz_pos. pose proof (s3wf_count _ _ Hwf). fold npages in H0.
    assert (npages * pgsz < 2^32 * 2^18) by nia. change (2^32 * 2^18) with (2^50) in H1.
    assert (2^50 < 2^64) by reflexivity. lia.
  Qed.

  Lemma len_concat : len (concat pages) = npages * pgsz.
  Proof. apply len_concat_pages. apply (s3wf_pages _ _ Hwf). Qed.

  Theorem s3_open_spec : s3_open rd 1 = Ok s3_expected.
  Proof.
    unfold s3_open.
    pose proof pgsz_pos as Hp. pose proof (s3wf_hdr _ _ Hwf) as Hh. pose proof memsz_small as Hm.
    pose proof (s3wf_count _ _ Hwf) as Hc. fold npages in Hc. destruct (s3wf_small _ _ Hwf) as [Hv Hcpu].
    destruct (s3wf_tod _ _ Hwf) as [Ht1 Ht2].
    rewrite (hdr64 0 S390_MAGIC) by (try reflexivity; lia). rewrite N.eqb_refl. cbn [negb].
    cbn [Nat.ltb Nat.leb].
    rewrite (hdr32 12 hdrsz) by (try reflexivity; unfold hdrsz; lia).
    rewrite (hdr64 24 (npages * pgsz)) by (try reflexivity; lia).
    rewrite (hdr64 56 (s3l_tod l)) by (try reflexivity; lia).
    rewrite (hdr32 20 pgsz) by (try reflexivity; lia).
    rewrite (hdr32 72 (if s3l_arch64 l then 2 else 1)) by (try reflexivity; destruct (s3l_arch64 l); lia).
    rewrite (hdr32 48 npages) by (try reflexivity; lia).
    (* the end marker *)
    assert (Hmark : rd 0 (hdrsz + npages * pgsz) 16 = END_MARKER ++ put64 true (s3l_end_tod l)).
    { rewrite rd_eq. unfold F, encode_s390.
      rewrite read_of_skip by (rewrite len_fit; unfold hdrsz; lia). rewrite len_fit.
      rewrite read_of_skip by (rewrite len_concat; unfold hdrsz; lia). rewrite len_concat.
      replace (hdrsz + npages * pgsz - s3l_hdr_size l - npages * pgsz) with 0 by (unfold hdrsz; lia).
      rewrite <- (app_nil_r (_ ++ put64 true _)) at 1. apply read_of_exact'.
      rewrite len_app, len_put64. reflexivity. }
    rewrite Hmark.
    assert (Hs : sub (END_MARKER ++ put64 true (s3l_end_tod l)) 0 8 = END_MARKER).
    { rewrite sub_eq_read_of by (rewrite len_app, len_put64; cbn; lia).
      apply read_of_exact'. reflexivity. }
    rewrite Hs.
    assert (Hg : get64 true (END_MARKER ++ put64 true (s3l_end_tod l)) 8 = s3l_end_tod l).
    { unfold get64. rewrite sub_eq_read_of by (rewrite len_app, len_put64; cbn; lia).
      rewrite (read_of_last' END_MARKER (put64 true (s3l_end_tod l)) 8 8) by (try reflexivity; now rewrite len_put64).
      unfold put64. apply get_put. cbn. lia. }
    rewrite Hg.
    replace (bytes_eqb END_MARKER END_MARKER) with true by reflexivity. cbn [negb orb].
    destruct (N.ltb_spec (s3l_end_tod l) (s3l_tod l)); [lia |].
    rewrite is_pow2_pgsz. cbn [negb].
    unfold s3_expected. destruct (s3l_arch64 l); reflexivity.
  Qed.

  Theorem s3_page_spec pfn :
    fst (s3_get_page rd s3_expected (pfn * pgsz)) = spec_s390_page pages pfn.
  Proof.
    unfold s3_get_page, spec_s390_page. cbn [fst s3_max_pfn s3_page_size s3_dataoff s3_expected].
    pose proof pgsz_pos as Hp.
    rewrite N.div_mul by lia.
    destruct (N.leb_spec npages pfn) as [Hge | Hlt].
    - assert (Hn : nth_error pages (N.to_nat pfn) = None) by (apply nth_error_None; unfold npages in Hge; lia).
      now rewrite Hn.
    - destruct (nth_error pages (N.to_nat pfn)) as [c |] eqn:Hc.
      2:{ apply nth_error_None in Hc. unfold npages in Hlt. lia. }
      f_equal. rewrite rd_eq. unfold F, encode_s390.
      rewrite read_of_skip by (rewrite len_fit; unfold hdrsz; lia). rewrite len_fit.
      replace (pfn * pgsz + hdrsz - s3l_hdr_size l) with (N.of_nat (N.to_nat pfn) * pgsz)
        by (unfold hdrsz; lia).
      apply read_concat_page; [apply (s3wf_pages _ _ Hwf) | exact Hc].
  Qed.
End Roundtrip.

Theorem s390_roundtrip l pages :
  s3_wf l pages ->
  exists st, s3_open (read_files [encode_s390 l pages]) 1 = Ok st /\
    s3_page_size st = s3l_page_size l /\ s3_max_pfn st = N.of_nat (length pages) /\
    s3_ptr_size st = (if s3l_arch64 l then 8 else 4) /\
    forall pfn, fst (s3_get_page (read_files [encode_s390 l pages]) st (pfn * s3l_page_size l))
                = spec_s390_page pages pfn.
Proof.
  intro Hwf. exists (s3_expected l pages). split; [exact (s3_open_spec l pages Hwf) |].
  repeat split. intro pfn. exact (s3_page_spec l pages Hwf pfn).
Qed.
