(** Specification side of C01 for SADUMP: the writer, from the structure
    descriptions in makedumpfile's sadump_mod.h / crash's sadump.h:

      single partition:  part header (1 block) | dump header | sub header |
                         memory bitmap | dumpable bitmap | pages
      disk set, disk 1:  part header | disk set header | dump header | ... as above
      disk set, disk k:  part header | pages (continuing disk k-1)
      media backup:      media header (4096 bytes) | part header | dump header | ...

    Blocks are [sl_block_size] bytes; pages are 4096 bytes, stored in PFN order
    for the set bits of the dumpable bitmap (MSB 0 numbering).  Little endian. *)
From Coq Require Import NArith List Bool.
From KdV Require Import Fmt.Codec Fmt.BitmapSpec Fmt.ImageSpec.
Import ListNotations.
Local Open Scope N_scope.

Inductive sd_kind := SdSingle | SdDiskSet | SdMedia.

Record sd_layout := {
  sl_kind : sd_kind;
  sl_block_size : N;
  sl_version : N;              (* header_version: 0 or 1 *)
  sl_max_mapnr : N;
  sl_cpu_size : N;             (* bytes of SMRAM state per CPU, >= 1024 *)
  sl_lma : list bool;          (* one entry per CPU: was it in long mode *)
  sl_sub_blocks : N;           (* sub_hdr_size *)
  sl_bitmap_blocks : N;        (* memory bitmap *)
  sl_dumpable_blocks : N;      (* dumpable bitmap *)
  sl_mem_bits : list bool;     (* memory bitmap content *)
  sl_ids : bytes;              (* sadump_id ++ disk_set_id ++ time_stamp: 48 bytes *)
  sl_vol_ids : list bytes;     (* volume id of each disk, 16 bytes each *)
  sl_disk_pages : list N;      (* disk set: pages stored on each disk *)
  sl_set_hdr_blocks : N;       (* disk set header size in blocks *)
  sl_magic0 : N                (* first magic number *)
}.

Definition SD_PAGE : N := 4096.

(** the magic numbers that fill the partition header block *)
Fixpoint magic_seq (n : nat) (m : N) : bytes :=
  match n with
  | O => []
  | S k => put32 false m ++ magic_seq k ((11 * (m + 7)) mod 2^32)
  end.

Definition part_header (l : sd_layout) (disk : N) (vol_id : bytes) (used_device : N) : bytes :=
  enc_flds false
    [ F32 1969512819; F32 28781;                 (* 'sadu' 'mp\0\0' *)
      F32 1; F32 0; F32 0; F32 0;                (* enable, reboot, compress, recycle *)
      FB 64 [];                                  (* label *)
      FB 32 (sub (sl_ids l) 0 32);               (* sadump_id, disk_set_id *)
      FB 16 vol_id;
      FB 16 (sub (sl_ids l) 32 16);              (* time_stamp *)
      F32 disk; F32 0;                           (* set_disk_set, _pad *)
      F64 used_device ]
  ++ magic_seq (N.to_nat ((sl_block_size l - 168) / 4)) (sl_magic0 l).

Definition media_header (l : sd_layout) : bytes :=
  fit 4096 (enc_flds false [ FB 32 (sub (sl_ids l) 0 32); FB 16 (sub (sl_ids l) 32 16);
                             FB 1 [1]; FB 1 [0]; FB 1 [0]; FB 1 [1] ]).

Definition nr_cpus (l : sd_layout) : N := N.of_nat (length (sl_lma l)).

Definition dump_header (l : sd_layout) : bytes :=
  let m32 := N.min (sl_max_mapnr l) (2^32 - 1) in
  fit (sl_block_size l)
    (enc_flds false
      [ FB 8 [115; 97; 100; 117; 109; 112; 0; 0];            (* "sadump\0\0" *)
        F32 (sl_version l); F32 0;
        FB 16 (sub (sl_ids l) 32 16);                        (* timestamp *)
        F32 0; F32 0;                                        (* status, compress *)
        F32 (sl_block_size l);
        F32 0;                                               (* extra_hdr_size *)
        F32 (sl_sub_blocks l);
        F32 (sl_bitmap_blocks l);
        F32 (sl_dumpable_blocks l);
        F32 m32;
        F32 0; F32 0; F32 0; F32 0;                          (* ram/device/written blocks, current_cpu *)
        F32 (nr_cpus l); F32 0;
        F64 (if 1 <=? sl_version l then sl_max_mapnr l else 0);
        F64 0; F64 0; F64 0 ]).

Definition cpu_state (l : sd_layout) (lma : bool) : bytes :=
  enc_flds false [ FB 992 []; F64 (if lma then 1024 + 1 else 1); FB (sl_cpu_size l - 1000) [] ].

Definition sub_header (l : sd_layout) : bytes :=
  fit (sl_sub_blocks l * sl_block_size l)
    (put32 false (sl_cpu_size l * nr_cpus l)
     ++ zeros (16 * nr_cpus l)                               (* struct sadump_apic_state[] *)
     ++ flat_map (cpu_state l) (sl_lma l)).

Definition disk_set_header (l : sd_layout) : bytes :=
  fit (sl_set_hdr_blocks l * sl_block_size l)
    (enc_flds false [ F32 (sl_set_hdr_blocks l); F32 (N.of_nat (length (sl_vol_ids l))); F64 0 ]
     ++ flat_map (fun id => enc_flds false [ FB 16 id; F64 0; F32 0; F32 0 ]) (sl_vol_ids l)).

Fixpoint page_data (img : image) : bytes :=
  match img with
  | [] => []
  | None :: t => page_data t
  | Some c :: t => c ++ page_data t
  end.

(** everything of disk 1 (or the only file) after the partition header block *)
Definition body (l : sd_layout) (img : image) : bytes :=
  let bs := sl_block_size l in
  dump_header l
  ++ sub_header l
  ++ bits_to_bytes true (N.to_nat (sl_bitmap_blocks l * bs)) (sl_mem_bits l)
  ++ bits_to_bytes true (N.to_nat (sl_dumpable_blocks l * bs)) (map is_some img).

Definition body_len (l : sd_layout) : N :=
  sl_block_size l * (1 + sl_sub_blocks l + sl_bitmap_blocks l + sl_dumpable_blocks l).

(** split the page data over the disks of a set *)
Fixpoint split_data (data : bytes) (counts : list N) : list bytes :=
  match counts with
  | [] => []
  | c :: t => sub data 0 (c * SD_PAGE) :: split_data (skipn (N.to_nat (c * SD_PAGE)) data) t
  end.

Definition encode_sadump (l : sd_layout) (img : image) : list bytes :=
  let bs := sl_block_size l in
  let data := page_data img in
  match sl_kind l with
  | SdSingle =>
      [ part_header l 0 (nth 0 (sl_vol_ids l) []) (bs + body_len l + len data)
        ++ body l img ++ data ]
  | SdMedia =>
      [ media_header l
        ++ part_header l 0 (nth 0 (sl_vol_ids l) []) (4096 + bs + body_len l + len data)
        ++ body l img ++ data ]
  | SdDiskSet =>
      let parts := split_data data (sl_disk_pages l) in
      let sethdr := disk_set_header l in
      match parts, sl_vol_ids l with
      | d1 :: rest, v1 :: vrest =>
          (part_header l 1 v1 (bs + len sethdr + body_len l + len d1) ++ sethdr ++ body l img ++ d1)
          :: map (fun kdv => let '(k, (d, v)) := kdv in part_header l k v (bs + len d) ++ d)
                 (combine (map N.of_nat (seq 2 (length rest))) (combine rest vrest))
      | _, _ => []
      end
  end.
