(** Reader model of src/kdumpfile/sadump.c (Fujitsu stand-alone dump), as
    repaired by fix 04 (the in-region page offset).

    Follows [sadump_probe], [probe_file] (single partition / disk set / media
    backup), [open_common], [verify_magic_number], [check_media_part],
    [process_vol_id]/[check_vol_id], [init_disk_set], [setup_arch], the
    dumpable-bitmap [read_bitmap] (MSB 0 numbering) and [sadump_read_page]
    (region -> offset in the concatenated disk extents -> file).

    SADUMP is little endian only.  The page size is not in the file: it is
    the default of the architecture that [setup_arch] detects (x86_64 or ia32:
    4096), so it is a constant here.  The memory bitmap (memory.pagemap) is
    not modelled. *)
From Coq Require Import NArith List Bool.
From KdV Require Import Fmt.Codec Fmt.PfnModel.
Import ListNotations.
Local Open Scope N_scope.

Definition SADUMP_PAGE_SIZE : N := 4096.
Definition SPH_SIZE : N := 168.          (* sizeof(struct sadump_part_header) *)
Definition SH_SIZE : N := 120.           (* sizeof(struct sadump_header) *)
Definition SMH_SIZE : N := 52.           (* sizeof(struct sadump_media_header) *)
Definition CPU_STATE_SIZE : N := 1024.   (* sizeof(struct sadump_smram_cpu_state) *)
Definition CPU_STATE_EFER : N := 992.
Definition DEFAULT_BLOCK_SIZE : N := 4096.
Definition SIG0 : N := 1969512819.       (* 'sadu' *)
Definition SIG1 : N := 28781.            (* 'mp\0\0' *)

Record extent := { ex_pos : N; ex_len : N; ex_fidx : N }.

Record sd_state := {
  sd_block_size : N;
  sd_ptr_size : N;           (* 8: x86_64, 4: ia32 *)
  sd_max_pfn : N;
  sd_regions : list pfn_region;
  sd_ext : list extent;      (* indexed by disk number - 1 *)
  sd_nfiles : N
}.

(** what [open_common] accumulates over the files *)
Record probe_acc := {
  pa_block_size : N;
  pa_ids : bytes;                    (* sadump_id ++ disk_set_id ++ time_stamp of file 0 *)
  pa_vol : list (option bytes);      (* dmap[].vol_id (None = still zero-filled) *)
  pa_seen : list bool;               (* dmap[].seen *)
  pa_ext : list extent;
  pa_ptr : option N;                 (* arch set? *)
  pa_max_pfn : N;
  pa_bmp_pos : N
}.

Fixpoint set_nth {A} (l : list A) (n : nat) (x : A) : list A :=
  match l, n with
  | [], _ => []
  | _ :: t, O => x :: t
  | h :: t, S k => h :: set_nth t k x
  end.

Section Reader.
  Variable rd : N -> N -> N -> bytes.

  Definition bytes_eqb (a b : bytes) : bool :=
    Nat.eqb (length a) (length b) && forallb (fun p => fst p =? snd p) (combine a b).

  Definition KDUMP_NOPROBE : N := 100.

  (** [verify_magic_number]: the words after the partition header follow
      [m' = 11 * (m + 7)]; the block ends where the sequence breaks.
      Returns the position where it breaks. *)
  Fixpoint magic_loop (fuel : nat) (fidx magicpos prev : N) : option N :=
    match fuel with
    | O => None
    | S k =>
        let magicpos := magicpos + 4 in
        let magic := get32 false (rd fidx magicpos 4) 0 in
        if negb (magic =? (11 * (prev + 7)) mod 2^32) then Some magicpos
        else magic_loop k fidx magicpos magic
    end.

  Definition is_pow2 (x : N) : bool := negb (x =? 0) && (N.land x (x - 1) =? 0).

  Definition verify_magic_number (fidx pos : N) : res N :=
    let magicpos := pos + SPH_SIZE in
    match magic_loop (N.to_nat 262144) fidx magicpos (get32 false (rd fidx magicpos 4) 0) with
    | None => Err ERR_UNMODELLED
    | Some p => if is_pow2 (p - pos) then Ok p else Err ERR_CORRUPT
    end.

  (** [setup_arch]: x86_64 if some CPU was in long mode, else ia32 *)
  Fixpoint cpu_loop (n : nat) (fidx pos sz : N) : N :=
    match n with
    | O => 4
    | S k =>
        let efer := get64 false (rd fidx pos CPU_STATE_SIZE) CPU_STATE_EFER in
        if N.testbit efer 10 then 8 else cpu_loop k fidx (pos + sz) sz
    end.

  Definition setup_arch (fidx pos cpus : N) : res N :=
    if cpus =? 0 then Err ERR_CORRUPT              (* "Invalid number of CPUs" *)
    else
      let sz := get32 false (rd fidx pos 4) 0 / cpus in
      if sz <? CPU_STATE_SIZE then Err ERR_NOTIMPL
      else Ok (cpu_loop (N.to_nat cpus) fidx (pos + 4 + cpus * 16) sz).

  (** [init_disk_set]: returns the new header position and the volume ids *)
  Fixpoint vol_loop (n : nat) (i : nat) (hdr : bytes) (vol : list (option bytes)) (seen : list bool)
    : res (list (option bytes)) :=
    match n with
    | O => Ok vol
    | S k =>
        let id := sub hdr (16 + 32 * N.of_nat i) 16 in
        if nth i seen false then
          (* check_vol_id(ctx, sdsh_id, dmap, i + 1) *)
          match nth i vol None with
          | Some v => if bytes_eqb id v then vol_loop k (S i) hdr vol seen else Err ERR_CORRUPT
          | None => if bytes_eqb id (zeros 16) then vol_loop k (S i) hdr vol seen else Err ERR_CORRUPT
          end
        else vol_loop k (S i) hdr (set_nth vol i (Some id)) seen
    end.

  Definition init_disk_set (fidx hdr_pos block_size nfiles : N) (a : probe_acc)
    : res (N * list (option bytes)) :=
    let hdr_blocks := get32 false (rd fidx hdr_pos 4) 0 in
    let act_size := hdr_blocks * block_size in
    if act_size <? 16 then Err ERR_CORRUPT else                    (* sizeof *sdsh *)
    let hdr := rd fidx hdr_pos act_size in
    let disk_num := get32 false hdr 4 in
    if negb (disk_num =? nfiles) then Err ERR_INVALID
    else if act_size <? 16 + disk_num * 32 then Err ERR_CORRUPT
    else
      match vol_loop (N.to_nat disk_num) 0 hdr (pa_vol a) (pa_seen a) with
      | Err e => Err e
      | Ok vol => Ok (hdr_pos + act_size, vol)
      end.

  (** the part of [open_common] after the disk-set bookkeeping: dump header,
      architecture, geometry, where the bitmaps and the page data are *)
  Definition oc_finish (fidx bs used_device : N) (a : probe_acc) (hdr_pos : N) : res probe_acc :=
    let sh := rd fidx hdr_pos SH_SIZE in
    if negb (get32 false sh 40 =? bs) then Err ERR_CORRUPT else
    let arch :=
      match pa_ptr a with
      | Some p => Ok p                       (* isset_arch_name: x86_64 or ia32 *)
      | None => setup_arch fidx (hdr_pos + bs) (get32 false sh 80)
      end in
    match arch with
    | Err e => Err e
    | Ok ptr =>
        let max_pfn := if get32 false sh 8 <? 1 then get32 false sh 60 else get64 false sh 88 in
        let mem_off := hdr_pos + bs * (1 + get32 false sh 48) in
        let bmp_pos := mem_off + bs * get32 false sh 52 in
        let data_pos := bmp_pos + bs * get32 false sh 56 in
        Ok {| pa_block_size := pa_block_size a; pa_ids := pa_ids a; pa_vol := pa_vol a;
              pa_seen := pa_seen a;
              pa_ext := set_nth (pa_ext a) 0
                          {| ex_pos := data_pos; ex_len := (used_device + 2^64 - data_pos) mod 2^64;
                             ex_fidx := fidx |};
              pa_ptr := Some ptr; pa_max_pfn := max_pfn; pa_bmp_pos := bmp_pos |}
    end.

  (** [process_vol_id] for the disk whose table index is [k] *)
  Definition process_vol_id (a : probe_acc) (k : nat) (vol_id : bytes) : res (list (option bytes)) :=
    if nth 0 (pa_seen a) false then
      match nth k (pa_vol a) None with
      | Some v => if bytes_eqb vol_id v then Ok (pa_vol a) else Err ERR_CORRUPT
      | None => if bytes_eqb vol_id (zeros 16) then Ok (pa_vol a) else Err ERR_CORRUPT
      end
    else Ok (set_nth (pa_vol a) k (Some vol_id)).

  (** [open_common] for file [fidx]; [smh] is the media header if any *)
  Definition open_common (nfiles fidx : N) (a : probe_acc) (smh : option bytes) (sph : bytes) (pos : N)
    : res probe_acc :=
    let ids := sub sph 88 32 ++ sub sph 136 16 in
    let media_ok :=
      match smh with
      | Some m => bytes_eqb (sub m 0 48) ids
      | None => true
      end in
    if negb media_ok then Err ERR_CORRUPT else
    let used_device := get64 false sph 160 in
    match verify_magic_number fidx pos with
    | Err e => Err e
    | Ok hdr_pos =>
        let bs := hdr_pos - pos in
        if negb (fidx =? 0) && negb (pa_block_size a =? bs) then Err ERR_INVALID
        else if negb (fidx =? 0) && negb (bytes_eqb (pa_ids a) ids) then Err ERR_INVALID
        else
        let a := if fidx =? 0
                 then {| pa_block_size := bs; pa_ids := ids; pa_vol := pa_vol a; pa_seen := pa_seen a;
                         pa_ext := pa_ext a; pa_ptr := pa_ptr a; pa_max_pfn := pa_max_pfn a;
                         pa_bmp_pos := pa_bmp_pos a |}
                 else a in
        let set_disk_set := match smh with Some _ => 0 | None => get32 false sph 152 end in
        if set_disk_set =? 0 then
          if 1 <? nfiles then Err ERR_NOTIMPL else oc_finish fidx bs used_device a hdr_pos
        else if nfiles <? set_disk_set then Err ERR_INVALID
        else
          let k := N.to_nat (set_disk_set - 1) in
          if nth k (pa_seen a) false then Err ERR_INVALID else
          match process_vol_id a k (sub sph 120 16) with
          | Err e => Err e
          | Ok vol =>
              if 1 <? set_disk_set then
                Ok {| pa_block_size := pa_block_size a; pa_ids := pa_ids a; pa_vol := vol;
                      pa_seen := set_nth (pa_seen a) k true;
                      pa_ext := set_nth (pa_ext a) k
                                  {| ex_pos := pa_block_size a;
                                     ex_len := (used_device + 2^64 - pa_block_size a) mod 2^64;
                                     ex_fidx := fidx |};
                      pa_ptr := pa_ptr a; pa_max_pfn := pa_max_pfn a; pa_bmp_pos := pa_bmp_pos a |}
              else
                let a := {| pa_block_size := pa_block_size a; pa_ids := pa_ids a; pa_vol := vol;
                            pa_seen := pa_seen a; pa_ext := pa_ext a; pa_ptr := pa_ptr a;
                            pa_max_pfn := pa_max_pfn a; pa_bmp_pos := pa_bmp_pos a |} in
                match init_disk_set fidx hdr_pos (pa_block_size a) nfiles a with
                | Err e => Err e
                | Ok (hdr_pos, vol) =>
                    oc_finish fidx bs used_device
                           {| pa_block_size := pa_block_size a; pa_ids := pa_ids a; pa_vol := vol;
                              pa_seen := set_nth (pa_seen a) 0 true; pa_ext := pa_ext a;
                              pa_ptr := pa_ptr a; pa_max_pfn := pa_max_pfn a;
                              pa_bmp_pos := pa_bmp_pos a |} hdr_pos
                end
          end
    end.

  Definition has_sig (sph : bytes) : bool :=
    (get32 false sph 0 =? SIG0) && (get32 false sph 4 =? SIG1).

  (** [probe_file] *)
  Definition probe_file (nfiles fidx : N) (a : probe_acc) : res probe_acc :=
    let sph := rd fidx 0 SPH_SIZE in
    if has_sig sph then open_common nfiles fidx a None sph 0
    else
      let smh := rd fidx 0 SMH_SIZE in
      let sph := rd fidx DEFAULT_BLOCK_SIZE SPH_SIZE in
      if has_sig sph then open_common nfiles fidx a (Some smh) sph DEFAULT_BLOCK_SIZE
      else Err KDUMP_NOPROBE.

  Fixpoint probe_files (n : nat) (nfiles fidx : N) (a : probe_acc) : res probe_acc :=
    match n with
    | O => Ok a
    | S k =>
        match probe_file nfiles fidx a with
        | Err e => Err e
        | Ok a => probe_files k nfiles (fidx + 1) a
        end
    end.

  (** [sadump_probe] *)
  Definition sd_open (nfiles : nat) : res sd_state :=
    let nf := N.of_nat nfiles in
    let a0 := {| pa_block_size := 0; pa_ids := []; pa_vol := repeat None nfiles;
                 pa_seen := repeat false nfiles;
                 pa_ext := repeat {| ex_pos := 0; ex_len := 0; ex_fidx := 0 |} nfiles;
                 pa_ptr := None; pa_max_pfn := 0; pa_bmp_pos := 0 |} in
    match probe_files nfiles nf 0 a0 with
    | Err e => Err e
    | Ok a =>
        match pa_ext a with
        | [] => Err ERR_UNMODELLED
        | e0 :: _ =>
            (* read_bitmap *)
            let bmp_len := ex_pos e0 - pa_bmp_pos a in
            let max_bmp_pfn := bmp_len * 8 in
            let max_pfn := if max_bmp_pfn <? pa_max_pfn a then max_bmp_pfn else pa_max_pfn a in
            let bm := rd (ex_fidx e0) (pa_bmp_pos a) bmp_len in
            (* pfn_regions_from_bitmap, MSB 0 numbering: skip_clear_msb0 / skip_set_msb0 *)
            match regions_of true (pa_bmp_pos a mod 4) bm 0 max_bmp_pfn 0 SADUMP_PAGE_SIZE with
            | Err e => Err e
            | Ok rgns =>
                Ok {| sd_block_size := pa_block_size a;
                      sd_ptr_size := match pa_ptr a with Some p => p | None => 0 end;
                      sd_max_pfn := max_pfn;
                      sd_regions := rgns;
                      sd_ext := pa_ext a; sd_nfiles := nf |}
            end
        end
    end.

  (** the walk over the disk extents in [sadump_read_page] *)
  Fixpoint ext_loop (exts : list extent) (pos : N) : option (N * N) :=
    match exts with
    | [] => None
    | e :: t => if ex_len e <=? pos then ext_loop t (pos - ex_len e)
                else Some (ex_fidx e, pos + ex_pos e)
    end.

  (** [sadump_read_page] for page frame [pfn] *)
  Definition sd_read_page (st : sd_state) (zero_excluded : bool) (pfn : N) : res bytes :=
    if sd_max_pfn st <=? pfn then Err ERR_NODATA else
    let hit :=
      match find_pfn_region (sd_regions st) pfn with
      | Some rgn => if rg_pfn rgn <=? pfn then Some rgn else None
      | None => None
      end in
    match hit with
    | None => if zero_excluded then Ok (zeros SADUMP_PAGE_SIZE) else Err ERR_NODATA
    | Some rgn =>
        let pos := rg_pos rgn + (pfn - rg_pfn rgn) * SADUMP_PAGE_SIZE in
        match ext_loop (sd_ext st) pos with
        | None => Err ERR_NODATA                  (* "Out-of-bounds PFN" *)
        | Some (fidx, off) => Ok (rd fidx off SADUMP_PAGE_SIZE)
        end
    end.

  Definition sd_get_page (zero_excluded : bool) (st : sd_state) (addr : N) : res bytes * sd_state :=
    (sd_read_page st zero_excluded (addr / SADUMP_PAGE_SIZE), st).

  Definition sd_read (st : sd_state) (zero_excluded : bool) (addr n : N) : N * bytes :=
    fst (read_range (sd_get_page zero_excluded) SADUMP_PAGE_SIZE st addr n).
End Reader.
