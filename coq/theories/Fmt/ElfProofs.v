(** C01 for ELF cores, page path: on LOAD segments whose memory ranges are
    disjoint, the lookups ([find_closest_*] with the [last_load]/[last_vload]
    shortcut) and the gap-filling loop of [elf_read_page] return, for every
    page, the file-backed bytes where a segment has them and zeroes elsewhere
    - whatever was looked up before. *)
From Coq Require Import NArith List Bool Lia Arith Sorted.
From KdV Require Import Base.Wrap64 Fmt.Codec Fmt.CodecProofs Fmt.ElfModel.
Import ListNotations.
Local Open Scope N_scope.

Lemma W_is : W = 2^64.
Proof. rewrite W_val. reflexivity. Qed.

Lemma wadd_eq a b : a + b < 2^64 -> wadd a b = a + b.
Proof. intro H. apply wadd_small. now rewrite W_is. Qed.

Lemma wsub_eq a b : b <= a -> a < 2^64 -> wsub a b = a - b.
Proof. intros H1 H2. apply wsub_le; [assumption | now rewrite W_is]. Qed.

Section Lookup.
  Variable virt : bool.
  Notation base := (seg_addr virt).

  (** no wrap-around, file part inside the memory range *)
  Definition seg_ok (s : load_segment) : Prop :=
    ls_filesz s <= ls_memsz s /\ base s + ls_memsz s < 2^64 /\ ls_off s + ls_filesz s < 2^64.

  Definition before (a b : load_segment) : Prop := base a + ls_memsz a <= base b.

  Definition arr_ok (arr : list load_segment) : Prop :=
    StronglySorted before arr /\ Forall seg_ok arr.

  Lemma size_le file s : seg_ok s -> seg_size file s <= ls_memsz s.
  Proof. intros [H _]. destruct file; cbn [seg_size]; lia. Qed.

  Lemma sorted_nth arr : StronglySorted before arr ->
    forall i j a b, (i < j)%nat -> nth_error arr i = Some a -> nth_error arr j = Some b -> before a b.
  Proof.
    induction 1 as [| x t Hs IH Hall]; intros i j a b Hij Ha Hb; [destruct i; discriminate |].
    destruct j; [lia |]. destruct i.
    - cbn in Ha. injection Ha as <-. cbn in Hb.
      rewrite Forall_forall in Hall. apply Hall. eapply nth_error_In. exact Hb.
    - cbn in Ha, Hb. apply (IH i j); [lia | assumption | assumption].
  Qed.

  (** what the scan returns *)
  Lemma closest_loop_spec file addr dist : forall arr i,
    arr_ok arr -> addr + dist <= 2^64 -> 0 < dist ->
    match closest_loop file virt arr i addr dist with
    | Some (k, s) =>
        (i <= k)%nat /\ nth_error arr (k - i) = Some s /\ seg_size file s <> 0 /\
        addr < base s + seg_size file s /\ base s < addr + dist /\
        forall j t, (j < k - i)%nat -> nth_error arr j = Some t ->
                    seg_size file t = 0 \/ base t + seg_size file t <= addr
    | None =>
        forall t, In t arr ->
          seg_size file t = 0 \/ base t + seg_size file t <= addr \/ addr + dist <= base t
    end.
  Proof.
    induction arr as [| s t IH]; intros i [Hs Hall] Hr Hd; [intros x []|].
    cbn [closest_loop].
    inversion Hs as [| ? ? Hst Hbef]; subst. inversion Hall as [| ? ? Hok Hallt]; subst.
    pose proof (size_le file s Hok) as Hsz. destruct Hok as [Hfm [Hnw Hoff]].
    destruct (N.eqb_spec (seg_size file s) 0) as [Ez | Enz]; cbn [negb andb].
    - (* empty: skipped *)
      specialize (IH (S i) (conj Hst Hallt) Hr Hd).
      destruct (closest_loop file virt t (S i) addr dist) as [[k u] |].
      + destruct IH as [Hle [Hn [Hnz [Hlt [Hb Hprev]]]]].
        split; [lia |]. replace (k - i)%nat with (S (k - S i)) by lia.
        split; [exact Hn |]. repeat split; try assumption.
        intros j q Hj Hq. destruct j; [cbn in Hq; injection Hq as <-; now left |].
        apply (Hprev j q); [lia | exact Hq].
      + intros x [<- | Hx]; [now left | now apply IH].
    - rewrite wadd_eq by lia. rewrite wsub_eq by lia.
      destruct (N.leb_spec addr (base s + seg_size file s - 1)) as [Hin | Hout].
      + (* the first segment that ends above addr *)
        destruct (N.ltb_spec addr (base s)) as [Hbelow | Habove]; cbn [andb].
        * rewrite wsub_eq by lia.
          destruct (N.leb_spec dist (base s - addr)) as [Hfar | Hnear].
          -- (* too far: nothing later can be closer *)
             intros x [<- | Hx]; [right; right; lia |].
             rewrite Forall_forall in Hbef. specialize (Hbef x Hx). unfold before in Hbef.
             right; right. lia.
          -- split; [lia |]. rewrite Nat.sub_diag. repeat split; try assumption; try lia.
        * split; [lia |]. rewrite Nat.sub_diag. repeat split; try assumption; try lia.
      + specialize (IH (S i) (conj Hst Hallt) Hr Hd).
        destruct (closest_loop file virt t (S i) addr dist) as [[k u] |].
        * destruct IH as [Hle [Hn [Hnz [Hlt [Hb Hprev]]]]].
          split; [lia |]. replace (k - i)%nat with (S (k - S i)) by lia.
          split; [exact Hn |]. repeat split; try assumption.
          intros j q Hj Hq. destruct j; [cbn in Hq; injection Hq as <-; right; lia |].
          apply (Hprev j q); [lia | exact Hq].
        * intros x [<- | Hx]; [right; left; lia | now apply IH].
  Qed.

  (** the lookup as a function of the array alone *)
  Definition lookup (file : bool) (arr : list load_segment) (addr dist : N) : option load_segment :=
    match closest_loop file virt arr 0 addr dist with
    | Some (_, s) => Some s
    | None => None
    end.

  Definition arrays (st : elf_state) : list load_segment :=
    if virt then es_vsorted st else es_sorted st.

  Definition same_arrays (st' st : elf_state) : Prop :=
    es_sorted st' = es_sorted st /\ es_vsorted st' = es_vsorted st.

  Lemma same_arrays_refl st : same_arrays st st.
  Proof. split; reflexivity. Qed.

  Lemma same_arrays_set_last st i : same_arrays (set_last st virt i) st.
  Proof. split; reflexivity. Qed.

  Lemma arrays_same st' st : same_arrays st' st -> arrays st' = arrays st.
  Proof. intros [H1 H2]. unfold arrays. now rewrite H1, H2. Qed.

  (** the last-hit shortcut never changes the answer *)
  Theorem find_closest_pure file st addr dist :
    arr_ok (arrays st) -> addr + dist <= 2^64 -> 0 < dist ->
    fst (find_closest file virt st addr dist) = lookup file (arrays st) addr dist /\
    same_arrays (snd (find_closest file virt st addr dist)) st.
  Proof.
    intros Hok Hr Hd. unfold find_closest, lookup. fold (arrays st).
    pose proof (closest_loop_spec file addr dist (arrays st) 0 Hok Hr Hd) as Hspec.
    set (last := if virt then es_last_vload st else es_last_load st).
    assert (Hscan : forall r : option load_segment * elf_state,
              r = match closest_loop file virt (arrays st) 0 addr dist with
                  | Some (i, s) => (Some s, set_last st virt i)
                  | None => (None, st)
                  end ->
              fst r = match closest_loop file virt (arrays st) 0 addr dist with
                      | Some (_, s) => Some s | None => None end /\
              same_arrays (snd r) st).
    { intros r ->. destruct (closest_loop file virt (arrays st) 0 addr dist) as [[i s] |]; cbn [fst snd].
      - split; [reflexivity | apply same_arrays_set_last].
      - split; [reflexivity | apply same_arrays_refl]. }
    destruct last as [i |]; [| now apply Hscan].
    destruct (nth_error (arrays st) i) as [s' |] eqn:Hi; [| now apply Hscan].
    destruct (N.leb_spec (base s') addr) as [Hb | Hb]; cbn [andb]; [| now apply Hscan].
    destruct Hok as [Hsorted Hall].
    assert (Hs'ok : seg_ok s') by (rewrite Forall_forall in Hall; apply Hall; eapply nth_error_In; exact Hi).
    pose proof (size_le file s' Hs'ok) as Hszle. destruct Hs'ok as [_ [Hnw _]].
    rewrite wsub_eq by lia.
    destruct (N.ltb_spec (addr - base s') (seg_size file s')) as [Hin | Hout]; [| now apply Hscan].
    (* the hit is what the scan would find *)
    cbn [fst snd]. split; [| apply same_arrays_refl].
    destruct (closest_loop file virt (arrays st) 0 addr dist) as [[k s] |].
    - destruct Hspec as [_ [Hk [Hnz [Hlt [Hbs Hprev]]]]]. rewrite Nat.sub_0_r in Hk, Hprev.
      f_equal.
      destruct (Nat.lt_trichotomy k i) as [Hki | [Heq | Hik]].
      + (* s lies before s': it ends at or below base s' <= addr *)
        pose proof (sorted_nth _ Hsorted k i s s' Hki Hk Hi) as Hbef. unfold before in Hbef.
        assert (Hsok : seg_ok s) by (rewrite Forall_forall in Hall; apply Hall; eapply nth_error_In; exact Hk).
        pose proof (size_le file s Hsok). lia.
      + subst k. congruence.
      + destruct (Hprev i s' Hik Hi); lia.
    - exfalso. destruct (Hspec s' (nth_error_In _ _ Hi)) as [H | [H | H]]; lia.
  Qed.
End Lookup.

(** * what a page must contain *)
Section Page.
  Variable virt : bool.
  Variable rd : N -> N -> N -> bytes.
  Notation base := (seg_addr virt).
  (** file reads are slices of one byte string per file *)
  Hypothesis Hrd : forall o k n sz, k + n <= sz -> rd 0 (o + k) n = sub (rd 0 o sz) k n.
  Hypothesis Hrdlen : forall o n, len (rd 0 o n) = n.

  Definition contains (s : load_segment) (a : N) : bool :=
    (base s <=? a) && (a <? base s + ls_memsz s).

  (** the segment that owns address [a] *)
  Definition owner (arr : list load_segment) (a : N) : option load_segment :=
    find (fun s => contains s a) arr.

  Definition byte_at (arr : list load_segment) (a : N) : N :=
    match owner arr a with
    | Some s => if a - base s <? ls_filesz s
                then nth (N.to_nat (a - base s)) (rd 0 (ls_off s) (ls_filesz s)) 0 else 0
    | None => 0
    end.

  Definition bytes_from (arr : list load_segment) (a : N) (m : nat) : bytes :=
    map (fun i => byte_at arr (a + N.of_nat i)) (seq 0 m).

  Lemma bytes_from_length arr a m : length (bytes_from arr a m) = m.
  Proof. unfold bytes_from. now rewrite map_length, seq_length. Qed.

  Lemma nth_bytes_from arr a m i : (i < m)%nat ->
    nth i (bytes_from arr a m) 0 = byte_at arr (a + N.of_nat i).
  Proof.
    intro H.
    rewrite (nth_indep (bytes_from arr a m) 0 (byte_at arr (a + N.of_nat 0)))
      by (rewrite bytes_from_length; lia).
    unfold bytes_from.
    rewrite (map_nth (fun i => byte_at arr (a + N.of_nat i)) (seq 0 m) 0%nat i).
    now rewrite seq_nth by lia.
  Qed.

  Lemma map_seq_shift {A} (f : nat -> A) m : forall k s,
    map f (seq (m + s) k) = map (fun i => f (m + i)%nat) (seq s k).
  Proof.
    induction k as [| k IH]; intro s; [reflexivity |].
    cbn [seq map]. f_equal. rewrite <- Nat.add_succ_r. apply IH.
  Qed.

  Lemma bytes_from_app arr a m k :
    bytes_from arr a (m + k) = bytes_from arr a m ++ bytes_from arr (a + N.of_nat m) k.
  Proof.
    unfold bytes_from. rewrite seq_app, map_app. f_equal.
    replace (0 + m)%nat with (m + 0)%nat by lia. rewrite map_seq_shift.
    apply map_ext. intro i. f_equal. lia.
  Qed.

  Lemma zeros_are_bytes arr a n :
    (forall x, a <= x < a + n -> byte_at arr x = 0) -> zeros n = bytes_from arr a (N.to_nat n).
  Proof.
    intro H. apply (nth_ext _ _ 0 0).
    - now rewrite length_zeros, bytes_from_length.
    - intros i Hi. rewrite length_zeros in Hi. rewrite nth_zeros, nth_bytes_from by assumption.
      symmetry. apply H. lia.
  Qed.

  (** ownership on a sorted, disjoint array *)
  Lemma owner_in arr s a :
    StronglySorted (before virt) arr -> In s arr -> contains s a = true -> owner arr a = Some s.
  Proof.
    induction 1 as [| x t Hs IH Hall]; intros Hin Hc; [destruct Hin |].
    unfold owner. cbn [find]. destruct (contains x a) eqn:Hx.
    - destruct Hin as [-> | Hin]; [reflexivity |].
      (* x lies before s, so it ends at or below base s <= a *)
      exfalso. rewrite Forall_forall in Hall. specialize (Hall s Hin). unfold before in Hall.
      unfold contains in Hx, Hc. apply andb_prop in Hx as [_ Hx]. apply andb_prop in Hc as [Hc _].
      apply N.ltb_lt in Hx. apply N.leb_le in Hc. lia.
    - destruct Hin as [-> | Hin]; [congruence |]. now apply IH.
  Qed.

  Lemma owner_none arr a :
    (forall t, In t arr -> contains t a = false) -> owner arr a = None.
  Proof.
    intro H. unfold owner. induction arr as [| x t IH]; [reflexivity |].
    cbn [find]. rewrite (H x (or_introl eq_refl)). apply IH. intros u Hu. apply H. now right.
  Qed.

  Lemma byte_at_none arr a :
    (forall t, In t arr -> contains t a = false) -> byte_at arr a = 0.
  Proof. intro H. unfold byte_at. now rewrite owner_none. Qed.

  (** a slice of a segment's file data *)
  Lemma data_is_bytes arr s cur size :
    StronglySorted (before virt) arr -> In s arr -> seg_ok virt s ->
    base s <= cur -> cur + size <= base s + ls_filesz s ->
    rd 0 (ls_off s + (cur - base s)) size = bytes_from arr cur (N.to_nat size).
  Proof.
    intros Hs Hin [Hfm [Hnw Hoff]] Hb He.
    rewrite (Hrd (ls_off s) (cur - base s) size (ls_filesz s)) by lia.
    apply (nth_ext _ _ 0 0).
    - rewrite sub_length by (rewrite Hrdlen; lia). now rewrite bytes_from_length.
    - intros i Hi. rewrite sub_length in Hi by (rewrite Hrdlen; lia).
      rewrite sub_nth, nth_bytes_from by assumption. unfold byte_at.
      assert (Hc : contains s (cur + N.of_nat i) = true).
      { unfold contains. apply andb_true_intro. split; [apply N.leb_le | apply N.ltb_lt]; lia. }
      rewrite (owner_in arr s _ Hs Hin Hc).
      destruct (N.ltb_spec (cur + N.of_nat i - base s) (ls_filesz s)); [| lia].
      f_equal. lia.
  Qed.

  (** excluded bytes of a segment (memory range beyond the file data) *)
  Lemma excluded_is_zero arr s x :
    StronglySorted (before virt) arr -> In s arr ->
    base s + ls_filesz s <= x -> x < base s + ls_memsz s -> byte_at arr x = 0.
  Proof.
    intros Hs Hin H1 H2. unfold byte_at.
    assert (Hc : contains s x = true).
    { unfold contains. apply andb_true_intro. split; [apply N.leb_le | apply N.ltb_lt]; lia. }
    rewrite (owner_in arr s _ Hs Hin Hc).
    destruct (N.ltb_spec (x - base s) (ls_filesz s)); [lia | reflexivity].
  Qed.

  (** addresses that no segment contains *)
  Lemma contains_false_of t x :
    ls_memsz t = 0 \/ base t + ls_memsz t <= x \/ x < base t -> contains t x = false.
  Proof.
    intro H. unfold contains.
    destruct (N.leb_spec (base t) x); destruct (N.ltb_spec x (base t + ls_memsz t)); cbn [andb]; try reflexivity.
    lia.
  Qed.

  Lemma gap_free arr k pls cur :
    StronglySorted (before virt) arr -> nth_error arr k = Some pls ->
    (forall j t, (j < k)%nat -> nth_error arr j = Some t ->
                 seg_size false t = 0 \/ base t + seg_size false t <= cur) ->
    forall x, cur <= x < base pls -> forall t, In t arr -> contains t x = false.
  Proof.
    intros Hs Hk Hprev x Hx t Hin. apply In_nth_error in Hin as [j Hj].
    apply contains_false_of.
    destruct (Nat.lt_ge_cases j k) as [Hlt | Hge].
    - destruct (Hprev j t Hlt Hj) as [H | H]; cbn [seg_size] in H; [now left | right; left; lia].
    - right; right. destruct (Nat.eq_dec j k) as [-> | Hne].
      + rewrite Hk in Hj. injection Hj as <-. lia.
      + pose proof (sorted_nth virt arr Hs k j pls t ltac:(lia) Hk Hj) as Hb. unfold before in Hb. lia.
  Qed.

  (** the segments that still end above an address *)
  Definition rem (arr : list load_segment) (a : N) : nat :=
    length (filter (fun s => a <? base s + ls_memsz s) arr).

  Lemma rem_decreases arr s a a' :
    In s arr -> a < base s + ls_memsz s -> base s + ls_memsz s <= a' -> a <= a' ->
    (rem arr a' < rem arr a)%nat.
  Proof.
    unfold rem. induction arr as [| x t IH]; intros Hin H1 H2 H3; [destruct Hin |].
    cbn [filter].
    assert (Hmono : forall l : list load_segment,
              (length (filter (fun u : load_segment => (a' <? base u + ls_memsz u)%N) l)
               <= length (filter (fun u : load_segment => (a <? base u + ls_memsz u)%N) l))%nat).
    { induction l as [| y l' IHl]; [cbn; lia |]. cbn [filter].
      destruct (N.ltb_spec a' (base y + ls_memsz y)); destruct (N.ltb_spec a (base y + ls_memsz y));
        cbn [length]; lia. }
    destruct Hin as [-> | Hin].
    - destruct (N.ltb_spec a' (base s + ls_memsz s)); [lia |].
      destruct (N.ltb_spec a (base s + ls_memsz s)); [| lia].
      cbn [length]. specialize (Hmono t). lia.
    - specialize (IH Hin H1 H2 H3).
      destruct (N.ltb_spec a' (base x + ls_memsz x)); destruct (N.ltb_spec a (base x + ls_memsz x));
        cbn [length]; lia.
  Qed.

  Lemma rem_le_length arr a : (rem arr a <= length arr)%nat.
  Proof.
    unfold rem. induction arr as [| x t IH]; [cbn; lia |]. cbn [filter].
    destruct (a <? base x + ls_memsz x); cbn [length]; lia.
  Qed.

  (** modular position arithmetic of [elf_read_page] *)
  Lemma pos_arith o cur b :
    o < 2^64 -> cur < 2^64 -> b <= cur -> o + (cur - b) < 2^64 ->
    wsub (wadd o cur) b = o + (cur - b).
  Proof.
    intros Ho Hc Hb Hs. unfold wsub, wadd, w. rewrite W_is.
    rewrite (N.mod_small b) by lia.
    destruct (N.lt_ge_cases (o + cur) (2^64)) as [Hlt | Hge].
    - rewrite (N.mod_small (o + cur)) by lia.
      replace (o + cur + 2^64 - b) with (o + (cur - b) + 1 * 2^64) by lia.
      rewrite N.mod_add by discriminate. apply N.mod_small. lia.
    - assert (E : (o + cur) mod 2^64 = o + cur - 2^64).
      { symmetry. apply (N.mod_unique _ _ 1); lia. }
      rewrite E. replace (o + cur - 2^64 + 2^64 - b) with (o + (cur - b)) by lia.
      apply N.mod_small. lia.
  Qed.
End Page.

(** * the gap-filling loop and [elf_get_page] *)
Section Loop.
  Variable virt : bool.
  Variable rd : N -> N -> N -> bytes.
  Notation base := (seg_addr virt).
  Hypothesis Hrd : forall o k n sz, k + n <= sz -> rd 0 (o + k) n = sub (rd 0 o sz) k n.
  Hypothesis Hrdlen : forall o n, len (rd 0 o n) = n.
  Variable pgsz : N.
  Hypothesis Hpg : 0 < pgsz.
  Notation bytes_from := (bytes_from virt rd).
  Notation byte_at := (byte_at virt rd).
  Notation rem := (rem virt).

  Variable arr : list load_segment.
  Hypothesis Hok : arr_ok virt arr.
  Variable addr0 : N.
  Hypothesis Hr : addr0 + pgsz < 2^64.

  Definition inv3 (t : bytes * N * N) : Prop :=
    let '(acc, done, cur) := t in
    done <= pgsz /\ cur = addr0 + done /\ acc = bytes_from arr addr0 (N.to_nat done).

  Lemma inv3_extend acc done cur piece n :
    inv3 (acc, done, cur) -> done + n <= pgsz -> piece = bytes_from arr cur (N.to_nat n) ->
    inv3 (acc ++ piece, done + n, cur + n).
  Proof.
    intros [Hd [Hc Ha]] Hn Hp. cbn [inv3]. split; [assumption |]. split; [lia |].
    rewrite Ha, Hp. replace (N.to_nat (done + n)) with (N.to_nat done + N.to_nat n)%nat by lia.
    rewrite bytes_from_app. f_equal. f_equal. lia.
  Qed.

  Section Stage.
  (** the segment the lookup returned *)
  Variable pls : load_segment.
  Variable k : nat.
  Hypothesis Hk : nth_error arr k = Some pls.
  Let b := base pls.

  Lemma pls_ok : seg_ok virt pls.
  Proof. destruct Hok as [_ Hall]. rewrite Forall_forall in Hall. apply Hall. eapply nth_error_In. exact Hk. Qed.

  Lemma pls_in : In pls arr.
  Proof. eapply nth_error_In. exact Hk. Qed.

  Lemma stage_gap_spec acc done cur :
    inv3 (acc, done, cur) -> ls_memsz pls <> 0 -> done < pgsz ->
    cur < b + ls_memsz pls -> b < cur + (pgsz - done) ->
    (forall j t, (j < k)%nat -> nth_error arr j = Some t ->
                 seg_size false t = 0 \/ base t + seg_size false t <= cur) ->
    match stage_gap b (acc, done, cur) with
    | (acc1, done1, cur1) =>
        inv3 (acc1, done1, cur1) /\ (b <= cur1 /\ cur1 < b + ls_memsz pls /\ cur <= cur1 /\ done1 < pgsz)
    end.
  Proof.
    intros Hinv Hnz Hdn Hend Hnear Hprev. pose proof Hinv as [Hd [Hc Ha]].
    destruct pls_ok as [_ [Hnw _]]. fold b in Hnw.
    unfold stage_gap. destruct (N.ltb_spec cur b) as [Hlt | Hge].
    - rewrite wsub_eq by lia.
      assert (Hi : inv3 (acc ++ zeros (b - cur), done + (b - cur), cur + (b - cur))).
      { apply inv3_extend; [assumption | lia |].
        apply zeros_are_bytes. intros x Hx. apply byte_at_none.
        destruct Hok as [Hsorted _].
        apply (gap_free virt arr k pls cur Hsorted Hk Hprev). fold b. lia. }
      replace (cur + (b - cur)) with b in Hi by lia.
      split; [exact Hi | lia].
    - split; [exact Hinv | lia].
  Qed.

  Lemma stage_file_spec acc done cur :
    inv3 (acc, done, cur) -> b <= cur -> cur < b + ls_memsz pls -> done < pgsz ->
    match stage_file rd pgsz pls b (acc, done, cur) with
    | (acc2, done2, cur2) =>
        inv3 (acc2, done2, cur2) /\ (cur <= cur2 /\ cur2 <= b + ls_memsz pls /\
        (done2 = pgsz \/ b + ls_filesz pls <= cur2))
    end.
  Proof.
    intros Hinv Hb Hend Hdone. pose proof Hinv as [Hd [Hc Ha]].
    destruct pls_ok as [Hfm [Hnw Hoff]]. fold b in Hnw.
    unfold stage_file. rewrite (wadd_eq b (ls_filesz pls)) by lia.
    destruct (N.ltb_spec cur (b + ls_filesz pls)) as [Hin | Hout].
    - rewrite (wsub_eq (b + ls_filesz pls) cur) by lia.
      set (size := N.min (pgsz - done) (b + ls_filesz pls - cur)).
      rewrite pos_arith by lia. rewrite (wadd_eq cur size) by (unfold size; lia).
      split; [| unfold size; lia].
      apply inv3_extend; [assumption | unfold size; lia |].
      destruct Hok as [Hsorted _]. replace (ls_off pls + (cur - b)) with (ls_off pls + (cur - base pls)) by reflexivity.
      apply (data_is_bytes virt rd Hrd Hrdlen arr pls cur size Hsorted pls_in pls_ok); fold b; unfold size; lia.
    - split; [exact Hinv | lia].
  Qed.

  Lemma stage_mem_spec acc done cur :
    inv3 (acc, done, cur) -> b <= cur -> cur <= b + ls_memsz pls ->
    (done = pgsz \/ b + ls_filesz pls <= cur) ->
    match stage_mem pgsz pls b (acc, done, cur) with
    | (acc3, done3, cur3) =>
        inv3 (acc3, done3, cur3) /\ (cur <= cur3 /\ (done3 = pgsz \/ cur3 = b + ls_memsz pls))
    end.
  Proof.
    intros Hinv Hb Hend Hcase. pose proof Hinv as [Hd [Hc Ha]].
    destruct pls_ok as [Hfm [Hnw Hoff]]. fold b in Hnw.
    unfold stage_mem. destruct (N.ltb_spec done pgsz) as [Hmore | Hfull].
    - rewrite (wadd_eq b (ls_memsz pls)) by lia. rewrite (wsub_eq (b + ls_memsz pls) cur) by lia.
      set (size := N.min (pgsz - done) (b + ls_memsz pls - cur)).
      rewrite (wadd_eq cur size) by (unfold size; lia).
      split; [| unfold size; lia].
      apply inv3_extend; [assumption | unfold size; lia |].
      apply zeros_are_bytes. intros x Hx. destruct Hok as [Hsorted _].
      apply (excluded_is_zero virt rd arr pls x Hsorted pls_in); fold b; unfold size in Hx; lia.
    - split; [exact Hinv | split; [lia | left; lia]].
  Qed.
  End Stage.

  Lemma loop_spec : forall fuel st done acc,
      arrays virt st = arr -> inv3 (acc, done, addr0 + done) ->
      (rem arr (addr0 + done) + 1 < fuel)%nat ->
      fst (read_page_loop rd fuel virt st pgsz (addr0 + done) done acc)
        = Ok (bytes_from arr addr0 (N.to_nat pgsz)) /\
      same_arrays (snd (read_page_loop rd fuel virt st pgsz (addr0 + done) done acc)) st.
  Proof.
    pose proof Hok as [Hsorted Hall].
    induction fuel as [| fuel IH]; intros st done acc Harr Hinv Hfuel; [inversion Hfuel |].
    pose proof Hinv as [Hdone [_ Hacc]].
    cbn [read_page_loop].
    destruct (N.leb_spec pgsz done) as [Hfull | Hmore].
    - cbn [fst snd]. split; [| apply same_arrays_refl]. subst acc. f_equal. f_equal. lia.
    - set (cur := addr0 + done) in *. set (remain := pgsz - done).
      destruct (find_closest_pure virt false st cur remain ltac:(now rewrite Harr) ltac:(unfold cur, remain; lia)
                  ltac:(unfold remain; lia)) as [Hfst Hsame].
      destruct (find_closest false virt st cur remain) as [r st1]. cbn [fst snd] in Hfst, Hsame. subst r.
      rewrite Harr. unfold lookup.
      pose proof (closest_loop_spec virt false cur remain arr 0 Hok ltac:(unfold cur, remain; lia)
                    ltac:(unfold remain; lia)) as Hspec.
      destruct (closest_loop false virt arr 0 cur remain) as [[k pls] |].
      + destruct Hspec as [_ [Hk [Hnz [Hlt [Hnear Hprev]]]]]. rewrite Nat.sub_0_r in Hk, Hprev.
        cbn [seg_size] in Hnz, Hlt.
        pose proof (stage_gap_spec pls k Hk acc done cur Hinv Hnz Hmore Hlt ltac:(fold remain; lia) Hprev) as H1.
        destruct (stage_gap (base pls) (acc, done, cur)) as [[acc1 done1] cur1].
        destruct H1 as [Hi1 [Hb1 [He1 [Hc1 Hd1]]]].
        pose proof (stage_file_spec pls k Hk acc1 done1 cur1 Hi1 Hb1 He1 Hd1) as H2.
        destruct (stage_file rd pgsz pls (base pls) (acc1, done1, cur1)) as [[acc2 done2] cur2].
        destruct H2 as [Hi2 [Hc2 [He2 Hcase2]]].
        pose proof (stage_mem_spec pls k Hk acc2 done2 cur2 Hi2 ltac:(lia) He2 Hcase2) as H3.
        destruct (stage_mem pgsz pls (base pls) (acc2, done2, cur2)) as [[acc3 done3] cur3].
        destruct H3 as [Hi3 [Hc3 Hcase3]].
        pose proof Hi3 as [Hd3 [Hcur3 Hacc3]]. subst cur3.
        assert (Harr1 : arrays virt st1 = arr) by (rewrite (arrays_same virt _ _ Hsame); exact Harr).
        assert (Hsame_tr : forall st2, same_arrays st2 st1 -> same_arrays st2 st).
        { intros st2 [E1 E2]. destruct Hsame as [E3 E4]. split; congruence. }
        destruct Hcase3 as [Hfull3 | Hend3].
        * (* the page is complete *)
          destruct fuel as [| fuel']; [lia |]. cbn [read_page_loop].
          destruct (N.leb_spec pgsz done3); [| lia]. cbn [fst snd].
          split; [| apply Hsame_tr, same_arrays_refl]. rewrite Hacc3. f_equal. f_equal. lia.
        * (* past the end of this segment: fewer segments remain *)
          assert (Hrem : (rem arr (addr0 + done3) < rem arr cur)%nat).
          { apply (rem_decreases virt arr pls); [eapply nth_error_In; exact Hk | exact Hlt | lia | lia]. }
          destruct (IH st1 done3 acc3 Harr1 Hi3 ltac:(lia)) as [Hres Hsame3].
          split; [exact Hres | apply Hsame_tr, Hsame3].
      + (* nothing up to the end of the page *)
        cbn [fst snd]. split; [| exact Hsame].
        assert (Hz : zeros remain = bytes_from arr cur (N.to_nat remain)).
        { apply zeros_are_bytes. intros x Hx. apply byte_at_none. intros t Ht.
          apply contains_false_of. destruct (Hspec t Ht) as [H | [H | H]]; cbn [seg_size] in H; lia. }
        rewrite Hacc, Hz. replace (N.to_nat pgsz) with (N.to_nat done + N.to_nat remain)%nat by (unfold remain; lia).
        rewrite bytes_from_app. unfold cur. do 3 f_equal. lia.
  Qed.
End Loop.

Section GetPage.
  Variable virt : bool.
  Variable rd : N -> N -> N -> bytes.
  Hypothesis Hrd : forall o k n sz, k + n <= sz -> rd 0 (o + k) n = sub (rd 0 o sz) k n.
  Hypothesis Hrdlen : forall o n, len (rd 0 o n) = n.
  Variable pgsz : N.
  Hypothesis Hpg : 0 < pgsz.
  Notation base := (seg_addr virt).

  (** what [elf_get_page] answers, as a function of the segment array alone *)
  Definition page_answer (zero_excluded : bool) (arr : list load_segment) (addr : N) : res bytes :=
    match lookup virt (negb zero_excluded) arr addr pgsz with
    | Some _ => Ok (bytes_from virt rd arr addr (N.to_nat pgsz))
    | None => Err (if virt then ERR_XLAT else ERR_NODATA)
    end.

  Theorem elf_get_page_spec z st arr addr :
    arr_ok virt arr -> arrays virt st = arr -> addr + pgsz < 2^64 ->
    fst (elf_get_page rd pgsz z virt st addr) = page_answer z arr addr /\
    same_arrays (snd (elf_get_page rd pgsz z virt st addr)) st.
  Proof.
    intros Hok Harr Hr. unfold elf_get_page, page_answer.
    destruct (find_closest_pure virt (negb z) st addr pgsz ltac:(now rewrite Harr) ltac:(lia) Hpg) as [Hfst Hsame].
    destruct (find_closest (negb z) virt st addr pgsz) as [r st1]. cbn [fst snd] in Hfst, Hsame. subst r.
    rewrite Harr. unfold lookup.
    pose proof (closest_loop_spec virt (negb z) addr pgsz arr 0 Hok ltac:(lia) Hpg) as Hspec.
    destruct (closest_loop (negb z) virt arr 0 addr pgsz) as [[k pls] |]; [| split; [reflexivity | exact Hsame]].
    destruct Hspec as [_ [Hk [Hnz [Hlt [Hnear _]]]]]. rewrite Nat.sub_0_r in Hk.
    pose proof Hok as [Hsorted Hall].
    assert (Hin : In pls arr) by (eapply nth_error_In; exact Hk).
    assert (Hpok : seg_ok virt pls) by (rewrite Forall_forall in Hall; now apply Hall).
    pose proof Hpok as [Hfm [Hnw Hoff]].
    assert (Harr1 : arrays virt st1 = arr) by (rewrite (arrays_same virt _ _ Hsame); exact Harr).
    destruct (N.leb_spec (base pls) addr) as [Hb | Hb]; cbn [andb].
    - rewrite (wsub_eq addr (base pls)) by lia. rewrite (wadd_eq (addr - base pls) pgsz) by lia.
      destruct (N.leb_spec (addr - base pls + pgsz) (ls_filesz pls)) as [Hfit | Hnofit].
      + (* the page lies inside the file data of one segment *)
        cbn [fst snd]. split; [| exact Hsame]. f_equal.
        rewrite pos_arith by lia.
        apply (data_is_bytes virt rd Hrd Hrdlen arr pls addr pgsz Hsorted Hin Hpok); lia.
      + replace addr with (addr + 0) at 1 3 by lia.
        destruct (loop_spec virt rd Hrd Hrdlen pgsz Hpg arr Hok addr Hr
                    (S (S (length (if virt then es_vsorted st1 else es_sorted st1)))) st1 0 [] Harr1)
          as [Hres Hs1].
        * cbn [inv3]. split; [lia |]. split; reflexivity.
        * fold (arrays virt st1). rewrite Harr1. pose proof (rem_le_length virt arr (addr + 0)). lia.
        * split; [exact Hres |]. destruct Hs1 as [E1 E2]. destruct Hsame as [E3 E4]. split; congruence.
    - replace addr with (addr + 0) at 1 3 by lia.
      destruct (loop_spec virt rd Hrd Hrdlen pgsz Hpg arr Hok addr Hr
                  (S (S (length (if virt then es_vsorted st1 else es_sorted st1)))) st1 0 [] Harr1)
        as [Hres Hs1].
      + cbn [inv3]. split; [lia |]. split; reflexivity.
      + fold (arrays virt st1). rewrite Harr1. pose proof (rem_le_length virt arr (addr + 0)). lia.
      + split; [exact Hres |]. destruct Hs1 as [E1 E2]. destruct Hsame as [E3 E4]. split; congruence.
  Qed.
End GetPage.
