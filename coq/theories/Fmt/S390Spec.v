(** Specification side of C01 for s390 stand-alone dumps (zgetdump format):
    a 4096-byte big-endian header, the whole memory, an end marker. *)
From Coq Require Import NArith List Bool.
From KdV Require Import Fmt.Codec.
Import ListNotations.
Local Open Scope N_scope.

Record s3_layout := {
  s3l_page_size : N;
  s3l_arch64 : bool;        (* arch: 2 = s390x, 1 = s390 *)
  s3l_hdr_size : N;         (* >= 4096 *)
  s3l_tod : N;              (* creation time stamp *)
  s3l_end_tod : N;          (* time stamp of the end marker: >= s3l_tod *)
  s3l_version : N;
  s3l_cpu_id : N
}.

Definition s3_header_flds (l : s3_layout) (npages : N) : list fld :=
  let memsz := npages * s3l_page_size l in
  [ F64 12112714267859297277;             (* magic *)
    F32 (s3l_version l);
    F32 (s3l_hdr_size l);
    F32 4;                                 (* dump_level *)
    F32 (s3l_page_size l);
    F64 memsz; F64 0; F64 memsz;           (* mem_size, mem_start, mem_end *)
    F32 npages; FB 4 [];
    F64 (s3l_tod l);
    F64 (s3l_cpu_id l);
    F32 (if s3l_arch64 l then 2 else 1);
    F32 0; F32 (if s3l_arch64 l then 2 else 1);   (* volnr, build_arch *)
    F64 memsz;                             (* mem_size_real *)
    FB 1 [0]; F16 1; F16 1 ].              (* mvdump, cpu_cnt, real_cpu_cnt *)

(** [pages]: the memory, page by page *)
Definition encode_s390 (l : s3_layout) (pages : list bytes) : bytes :=
  fit (s3l_hdr_size l) (enc_flds true (s3_header_flds l (N.of_nat (length pages))))
  ++ concat pages
  ++ [68; 85; 77; 80; 95; 69; 78; 68] ++ put64 true (s3l_end_tod l).

Definition spec_s390_page (pages : list bytes) (pfn : N) : res bytes :=
  match nth_error pages (N.to_nat pfn) with
  | Some c => Ok c
  | None => Err ERR_NODATA
  end.
