(** C01, ELF geometry, closed statement: opening an encoded ELF core dump
    whose NOTE segments hold notes yields the pointer size of the machine and
    the page size the dump announces. *)
From Coq Require Import NArith List Bool Lia Arith.
From KdV Require Import Fmt.Codec Fmt.CodecProofs Fmt.ElfModel Fmt.ElfSpec Fmt.ElfOpenProofs
     Fmt.ElfGeomModel Fmt.ElfGeomSpec Fmt.ElfGeomProofs.
Import ListNotations.
Local Open Scope N_scope.

Definition is_note_seg (s : elf_seg) : bool := sg_type s =? 4.

(** the NOTE segments of the reader's state are the spec's, with their data *)
Lemma notes_data l segs (Hwf : elf_wf l segs) : forall suffix pre,
  segs = pre ++ suffix ->
  map (fun a => read_files [encode_elf l segs] 0 (ls_off a) (ls_filesz a))
      (snd (split_segs suffix (data_start l segs + datalen pre))) =
  map sg_data (filter is_note_seg suffix).
Proof.
  induction suffix as [| s t IH]; intros pre E; [reflexivity |].
  cbn [split_segs filter].
  assert (E' : segs = (pre ++ [s]) ++ t) by (rewrite <- app_assoc; exact E).
  specialize (IH (pre ++ [s]) E'). rewrite datalen_app in IH. cbn [datalen] in IH.
  replace (data_start l segs + (datalen pre + (sg_gap s + sg_filesz s + 0)))
    with (data_start l segs + datalen pre + sg_gap s + sg_filesz s) in IH by lia.
  destruct (split_segs t (data_start l segs + datalen pre + sg_gap s + sg_filesz s)) as [lo no].
  cbn [snd] in IH. unfold is_note_seg at 1.
  destruct (N.eqb_spec (sg_type s) 1) as [E1 | N1].
  - rewrite E1. cbn [N.eqb Pos.eqb snd]. exact IH.
  - destruct (N.eqb_spec (sg_type s) 4) as [E4 | N4]; cbn [snd map]; [| exact IH].
    f_equal; [| exact IH]. cbn [to_ls ls_off ls_filesz].
    exact (rd_segdata l segs Hwf pre s t E).
Qed.

Lemma announced_app a b page : announced (a ++ b) page = announced b (announced a page).
Proof. unfold announced. apply fold_left_app. Qed.

(** what the NOTE segments of a dump hold: notes, in the gABI layout *)
Definition note_segs_hold (l : elf_layout) (segs : list elf_seg) (nss : list (list snote)) : Prop :=
  Forall2 (fun s ns => sg_data s = enc_notes (el_be l) (map to_vnote ns) /\ Forall snote_ok ns)
          (filter is_note_seg segs) nss.

Lemma walk_notes_ok rd be : forall (nsegs : list load_segment) (datas : list bytes) (nss : list (list snote)) page,
  map (fun a => rd 0 (ls_off a) (ls_filesz a)) nsegs = datas ->
  Forall2 (fun d ns => d = enc_notes be (map to_vnote ns) /\ Forall snote_ok ns) datas nss ->
  walk_notes rd be nsegs page = Ok (announced (concat nss) page).
Proof.
  induction nsegs as [| a t IH]; intros datas nss page Hd H2.
  - cbn [map] in Hd. subst datas. inversion H2; subst. reflexivity.
  - cbn [map] in Hd. subst datas. inversion H2 as [| d ns dt nst [Hdata Hok] Hrest]; subst.
    cbn [walk_notes concat]. rewrite Hdata.
    rewrite do_notes_ok by (apply Forall_forall; intros v Hv; apply in_map_iff in Hv as [s [<- Hs]];
                            rewrite Forall_forall in Hok; exact (proj1 (Hok s Hs))).
    rewrite (notes_page_size_ok ns page Hok). rewrite announced_app.
    apply (IH (map (fun a => rd 0 (ls_off a) (ls_filesz a)) t) nst); [reflexivity | exact Hrest].
Qed.

Theorem elf_geometry_spec l segs nss :
  elf_wf l segs -> note_segs_hold l segs nss ->
  elf_geometry (read_files [encode_elf l segs]) (expected l segs) =
  Ok {| eg_ptr_size := spec_ptr_size (el_machine l) (el_64 l);
        eg_page_size := spec_page_size (el_machine l) (concat nss) |}.
Proof.
  intros Hwf Hn. unfold elf_geometry. cbn [expected es_be es_notes es_machine es_64].
  pose proof (notes_data l segs Hwf segs [] eq_refl) as Hd. cbn [datalen] in Hd. rewrite N.add_0_r in Hd.
  fold (notes l segs) in Hd.
  rewrite (walk_notes_ok _ (el_be l) (notes l segs) _ nss None Hd).
  2:{ unfold note_segs_hold in Hn. clear Hd. induction Hn as [| s ns ts nst [H1 H2] Hr IH]; constructor; auto. }
  pose proof (ptr_size_table (el_machine l) (el_64 l)) as Hp.
  pose proof (page_size_table (el_machine l) (el_64 l)) as Hg.
  unfold spec_page_size.
  destruct (mach2arch (el_machine l) (el_64 l)) as [a |]; cbn [option_map] in Hp.
  - rewrite <- Hp. destruct (announced (concat nss) None); [reflexivity |]. now rewrite Hg.
  - rewrite <- Hp. destruct (announced (concat nss) None); [reflexivity |]. now rewrite <- Hg.
Qed.

(** end to end: the file opens, and its geometry is the announced one *)
Theorem elf_open_geometry l segs nss :
  elf_wf l segs -> note_segs_hold l segs nss ->
  exists st, elf_open (read_files [encode_elf l segs]) 1 = Ok st /\
    es_be st = el_be l /\
    elf_geometry (read_files [encode_elf l segs]) st =
    Ok {| eg_ptr_size := spec_ptr_size (el_machine l) (el_64 l);
          eg_page_size := spec_page_size (el_machine l) (concat nss) |}.
Proof.
  intros Hwf Hn. exists (expected l segs). split; [exact (elf_open_spec l segs Hwf) |].
  split; [reflexivity | exact (elf_geometry_spec l segs nss Hwf Hn)].
Qed.
