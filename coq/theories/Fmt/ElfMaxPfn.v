(** max_pfn of an ELF core is the maximum, over *all* LOAD segments with a
    usable physical address, of the page frame behind the segment's end - not
    the end of the segment that starts highest.  No assumption on the segments:
    they may be nested or overlap (a kernel-text LOAD inside the direct-mapping
    LOAD). *)
From Coq Require Import NArith List Bool Lia.
From KdV Require Import Base.Wrap64 Fmt.Codec Fmt.ElfModel.
Import ListNotations.
Local Open Scope N_scope.

(** (seg->phys + seg->memsz + page_size - 1) >> page_shift, in C's 64-bit arithmetic *)
Definition seg_end_pfn (shift : N) (s : load_segment) : N :=
  N.shiftr (wsub (wadd (wadd (ls_phys s) (ls_memsz s)) (N.shiftl 1 shift)) 1) shift.

Definition fmax (f : load_segment -> N) (l : list load_segment) (m : N) : N :=
  fold_left (fun m s => N.max m (f s)) l m.

Lemma fold_max_spec (f : load_segment -> N) : forall l m,
  m <= fmax f l m /\ (forall s, In s l -> f s <= fmax f l m) /\
  (fmax f l m = m \/ exists s, In s l /\ fmax f l m = f s).
Proof.
  unfold fmax. induction l as [| x t IH]; intro m; cbn [fold_left].
  - split; [lia |]. split; [intros s [] | now left].
  - destruct (IH (N.max m (f x))) as [H1 [H2 H3]].
    split; [lia |]. split.
    + intros s [<- | Hs]; [lia | now apply H2].
    + destruct H3 as [E | [s [Hs E]]].
      * destruct (N.max_spec m (f x)) as [[_ Em] | [_ Em]].
        -- right. exists x. split; [now left | now rewrite E].
        -- left. now rewrite E.
      * right. exists s. split; [now right | exact E].
Qed.

Theorem elf_max_pfn_is_max_end st shift :
  (forall s, In s (es_sorted st) -> seg_end_pfn shift s <= elf_max_pfn st shift) /\
  (es_sorted st = [] -> elf_max_pfn st shift = 0) /\
  (elf_max_pfn st shift <> 0 ->
   exists s, In s (es_sorted st) /\ elf_max_pfn st shift = seg_end_pfn shift s).
Proof.
  unfold elf_max_pfn. fold (seg_end_pfn shift).
  change (fun m s => N.max m (N.shiftr (wsub (wadd (wadd (ls_phys s) (ls_memsz s)) (N.shiftl 1 shift)) 1) shift))
    with (fun m s => N.max m (seg_end_pfn shift s)).
  fold (fmax (seg_end_pfn shift) (es_sorted st) 0).
  destruct (fold_max_spec (seg_end_pfn shift) (es_sorted st) 0) as [_ [H2 H3]].
  split; [exact H2 |]. split.
  - intros ->. reflexivity.
  - intro Hnz. destruct H3 as [E | H]; [contradiction | exact H].
Qed.

(** without wrap-around the C expression is the rounded-up quotient *)
Lemma seg_end_pfn_plain shift s :
  ls_phys s + ls_memsz s + 2^shift <= 2^64 ->
  seg_end_pfn shift s = (ls_phys s + ls_memsz s + 2^shift - 1) / 2^shift.
Proof.
  intro H. unfold seg_end_pfn, wadd, wsub, w. rewrite N.shiftl_1_l, N.shiftr_div_pow2.
  assert (Hp : 0 < 2^shift) by (apply N.neq_0_lt_0, N.pow_nonzero; discriminate).
  change W with (2^64) in *.
  rewrite (N.mod_small (ls_phys s + ls_memsz s)) by lia.
  destruct (N.eq_dec (ls_phys s + ls_memsz s + 2^shift) (2^64)) as [E | Hne].
  - rewrite E, N.mod_same by discriminate. rewrite (N.mod_small 1) by reflexivity.
    rewrite N.add_0_l. rewrite N.mod_small by lia. reflexivity.
  - rewrite (N.mod_small (ls_phys s + ls_memsz s + 2^shift)) by lia.
    rewrite (N.mod_small 1) by reflexivity.
    replace (ls_phys s + ls_memsz s + 2^shift + 2^64 - 1) with (ls_phys s + ls_memsz s + 2^shift - 1 + 1 * 2^64) by lia.
    rewrite N.mod_add by discriminate. rewrite N.mod_small by lia. reflexivity.
Qed.
