(** Reader model of src/kdumpfile/diskdump.c (diskdump / makedumpfile KDUMP)
    with the parts of pfn.c it uses.

    Follows the C code's open path ([diskdump_probe], [open_common],
    [try_header_32/64], [do_header_32/64], [try_header], [read_sub_hdr_32/64],
    [parse_sub_hdr_32pack/pad], [read_bitmap], [pfn_regions_from_bitmap],
    [sort_pfn_file_maps]) and page path ([diskdump_read_page],
    [find_pfn_file_map], [pfn_to_pdpos], [find_pfn_region]).

    File access is the parameter [rd fidx off len] (zero-filled past EOF, as
    [fcache_get_read] does).  zlib / snappy / zstd are the parameter
    [decompress flag payload] returning the whole decompressed stream; the
    exact-size checks of the C code are modelled on its result.

    Not modelled (see design.d/C01.md): VMCOREINFO / notes / eraseinfo blobs
    (read by the C code, no influence on geometry or page lookup for the dumps
    in scope), utsname -> arch, attribute plumbing, the page cache (C04/C06),
    flattened files (C11), LZO (not compiled into this build: NOTIMPL). *)
From Coq Require Import NArith List Bool.
From KdV Require Import Fmt.Codec Fmt.PfnModel.
Import ListNotations.
Local Open Scope N_scope.

(** * diskdump.c *)

Definition MIN_PAGE_SIZE : N := 4096.
Definition MAX_PAGE_SIZE : N := 262144.
Definition KDUMP_PFN_MAX : N := 2^64 - 1.
Definition PAGE_DESC_SIZE : N := 24.

Definition DH_ZLIB : N := 1.
Definition DH_LZO : N := 2.
Definition DH_SNAPPY : N := 4.
Definition DH_ZSTD : N := 32.
Definition DH_COMPRESSED : N := 39.

(** sizes and field offsets of the packed C structures *)
Definition DH32_SIZE : N := 452.
Definition DH64_SIZE : N := 464.
Definition DH_VERSION : N := 8.
Definition dh_block_size (is64 : bool) : N := if is64 then 428 else 416.
Definition dh_sub_hdr_size (is64 : bool) : N := if is64 then 432 else 420.
Definition dh_bitmap_blocks (is64 : bool) : N := if is64 then 436 else 424.
Definition dh_max_mapnr (is64 : bool) : N := if is64 then 440 else 428.

Inductive subhdr_kind := SH32pack | SH32pad | SH64.

Definition sh_size (k : subhdr_kind) : N :=
  match k with SH32pack => 80 | SH32pad => 96 | SH64 => 104 end.
Definition sh_split (k : subhdr_kind) : N :=
  match k with SH64 => 12 | _ => 8 end.
Definition sh_start_pfn (k : subhdr_kind) : N :=
  match k with SH64 => 16 | _ => 12 end.
Definition sh_end_pfn (k : subhdr_kind) : N :=
  match k with SH64 => 24 | _ => 16 end.
Definition sh_offset_vmcoreinfo (k : subhdr_kind) : N :=
  match k with SH32pack => 20 | SH32pad => 24 | SH64 => 32 end.
Definition sh_size_vmcoreinfo (k : subhdr_kind) : N :=
  match k with SH32pack => 28 | SH32pad => 32 | SH64 => 40 end.
Definition sh_start_pfn_64 (k : subhdr_kind) : N :=
  match k with SH32pack => 56 | SH32pad => 72 | SH64 => 80 end.
Definition sh_end_pfn_64 (k : subhdr_kind) : N :=
  match k with SH32pack => 64 | SH32pad => 80 | SH64 => 88 end.
Definition sh_max_mapnr_64 (k : subhdr_kind) : N :=
  match k with SH32pack => 72 | SH32pad => 88 | SH64 => 96 end.

(** what [open] leaves behind for the page path *)
Record dd_state := {
  dd_be : bool;              (* arch.byte_order == KDUMP_BIG_ENDIAN *)
  dd_ptr_size : N;           (* arch.ptr_size *)
  dd_page_size : N;          (* arch.page_size *)
  dd_max_pfn : N;            (* max_pfn *)
  dd_maps : list pfn_file_map  (* ddp->pdmap[], sorted by end_pfn *)
}.

Section Reader.
  Variable rd : N -> N -> N -> bytes.
  Variable decompress : N -> bytes -> option bytes.

  Definition is_pow2 (x : N) : bool :=
    negb (x =? 0) && (N.land x (x - 1) =? 0).

  (** [try_header]: sanity checks, then [set_page_size] (power of two or
      CORRUPT) and [set_max_pfn] *)
  Definition try_header (block_size bitmap_blocks max_mapnr : N) : res (N * N) :=
    if (block_size <? MIN_PAGE_SIZE) || (MAX_PAGE_SIZE <? block_size) then Err ERR_CORRUPT
    else if 8 * bitmap_blocks * block_size <? max_mapnr then Err ERR_CORRUPT
    else if negb (is_pow2 block_size) then Err ERR_CORRUPT
    else Ok (block_size, max_mapnr).

  (** the sub-header fields that reach the page path:
      (start_pfn, end_pfn, max_pfn) *)
  Definition parse_sub_hdr (be : bool) (k : subhdr_kind) (version : N) (sh : bytes)
             (max_pfn : N) : N * N * N :=
    let w := match k with SH64 => get64 be sh | _ => get32 be sh end in
    let split := negb (get32 false sh (sh_split k) =? 0) in
    let '(s, e) :=
      if (2 <=? version) && split then (w (sh_start_pfn k), w (sh_end_pfn k))
      else (0, KDUMP_PFN_MAX) in
    if 6 <=? version then
      let '(s, e) :=
        if split then (get64 be sh (sh_start_pfn_64 k), get64 be sh (sh_end_pfn_64 k))
        else (s, e) in
      (s, e, get64 be sh (sh_max_mapnr_64 k))
    else (s, e, max_pfn).

  (** [read_sub_hdr_32]: choose between the packed and the padded layout *)
  Definition sub_hdr_kind_32 (be : bool) (version pgsz sub_hdr_blocks : N) (sh : bytes)
    : subhdr_kind :=
    if version <? 3 then SH32pack else
    let off_payload := pgsz * (1 + sub_hdr_blocks) in
    let off_vmci := get64 be sh (sh_offset_vmcoreinfo SH32pack) in
    let sz_vmci := get32 be sh (sh_size_vmcoreinfo SH32pack) in
    if ((off_vmci =? 0) && (sz_vmci =? 0)) ||
       ((pgsz <? off_vmci) && (off_vmci + sz_vmci <=? off_payload))
    then SH32pack else SH32pad.

  Definition read_sub_hdr (be is64 : bool) (version pgsz sub_hdr_blocks fidx max_pfn : N)
    : N * N * N :=
    if version <? 1 then (0, KDUMP_PFN_MAX, max_pfn)   (* the defaults set by do_header (fix 36) *)
    else
      let sh := rd fidx pgsz (if is64 then 104 else 96) in
      let k := if is64 then SH64 else sub_hdr_kind_32 be version pgsz sub_hdr_blocks sh in
      parse_sub_hdr be k version sh max_pfn.

  (** [read_bitmap]: returns the new max_pfn and the regions *)
  Definition read_bitmap (pgsz sub_hdr_size bitmap_blocks fidx start_pfn end_pfn max_pfn : N)
    : res (N * list pfn_region) :=
    let off := (1 + sub_hdr_size) * pgsz in
    let descoff := off + bitmap_blocks * pgsz in
    let bitmapsize := bitmap_blocks * pgsz in
    let max_bitmap_pfn := bitmapsize * 8 in
    let '(off, bitmapsize, max_bitmap_pfn) :=
      if max_pfn <=? max_bitmap_pfn / 2 then
        let bs := (bitmap_blocks / 2) * pgsz in (off + bs, bs, bs * 8)
      else (off, bitmapsize, max_bitmap_pfn) in
    let max_pfn := if max_bitmap_pfn <? max_pfn then max_bitmap_pfn else max_pfn in
    let bm := rd fidx off bitmapsize in
    let lim := if end_pfn <? max_bitmap_pfn then end_pfn else max_bitmap_pfn in
    (* pfn_regions_from_bitmap on the chunk: the word-level scanners of pfn.c *)
    match regions_of false (off mod 4) bm start_pfn lim descoff PAGE_DESC_SIZE with
    | Err e => Err e
    | Ok rgns => Ok (max_pfn, rgns)
    end.

  (** the per-file loop of [do_header_32/64] *)
  Fixpoint do_files (be is64 : bool) (version : N) (nfiles : nat) (fidx : N)
           (acc : list pfn_file_map) (pgsz max_pfn : N)
    : res (N * N * list pfn_file_map) :=
    match nfiles with
    | O => Ok (pgsz, max_pfn, rev acc)
    | S k =>
        let dh := rd fidx 0 (if is64 then DH64_SIZE else DH32_SIZE) in
        let bitmap_blocks := get32 be dh (dh_bitmap_blocks is64) in
        match try_header (get32 be dh (dh_block_size is64)) bitmap_blocks
                         (get32 be dh (dh_max_mapnr is64)) with
        | Err e => Err e
        | Ok (pgsz, max_pfn) =>
            let sub_hdr_blocks := get32 be dh (dh_sub_hdr_size is64) in
            (* (int32_t) sub_hdr_size < 0: "Invalid sub-header size" *)
            if 2^31 <=? sub_hdr_blocks then Err ERR_CORRUPT else
            (* bitmap_blocks travels on as int32_t; the model covers the non-negative range *)
            if 2^31 <=? bitmap_blocks then Err ERR_UNMODELLED
            else
            let '(s, e, max_pfn) :=
              read_sub_hdr be is64 version pgsz sub_hdr_blocks fidx max_pfn in
            match read_bitmap pgsz sub_hdr_blocks bitmap_blocks fidx s e max_pfn with
            | Err err => Err err
            | Ok (max_pfn, rgns) =>
                do_files be is64 version k (fidx + 1)
                         ({| pm_fidx := fidx; pm_start := s; pm_end := e; pm_regions := rgns |} :: acc)
                         pgsz max_pfn
            end
        end
    end.

  (** [try_header_32] / [try_header_64]: little endian first, then big endian;
      a CORRUPT result of the first attempt (of [try_header] itself) leads to
      the second, a CORRUPT result of [do_header] is returned as is *)
  Definition try_header_w (is64 : bool) (hdr : bytes) (nfiles : nat)
    : res (bool * N * N * list pfn_file_map) :=
    let go (be : bool) :=
      match do_files be is64 (get32 be hdr DH_VERSION) nfiles 0 [] 0 0 with
      | Ok (pgsz, max_pfn, maps) => Ok (be, pgsz, max_pfn, maps)
      | Err e => Err e
      end in
    let t (be : bool) :=
      try_header (get32 be hdr (dh_block_size is64)) (get32 be hdr (dh_bitmap_blocks is64))
                 (get32 be hdr (dh_max_mapnr is64)) in
    match t false with
    | Ok _ => go false
    | Err e =>
        if negb (e =? ERR_CORRUPT) then Err e else
        match t true with
        | Ok _ => go true
        | Err e => Err e
        end
    end.

  Definition magic_diskdump : bytes := [68; 73; 83; 75; 68; 85; 77; 80].
  Definition magic_kdump : bytes := [75; 68; 85; 77; 80; 32; 32; 32].

  Definition bytes_eqb (a b : bytes) : bool :=
    Nat.eqb (length a) (length b) && forallb (fun p => fst p =? snd p) (combine a b).

  Definition KDUMP_NOPROBE : N := 100.     (* -1 in C: not a diskdump file *)

  (** [diskdump_probe] + [open_common] *)
  Definition dd_open (nfiles : nat) : res dd_state :=
    let hdr := rd 0 0 DH64_SIZE in
    let sig := sub hdr 0 8 in
    if negb (bytes_eqb sig magic_diskdump || bytes_eqb sig magic_kdump) then Err KDUMP_NOPROBE
    else
    let fin (is64 : bool) (r : bool * N * N * list pfn_file_map) :=
      let '(be, pgsz, max_pfn, maps) := r in
      Ok {| dd_be := be; dd_ptr_size := if is64 then 8 else 4; dd_page_size := pgsz;
            dd_max_pfn := max_pfn; dd_maps := sort_maps maps |} in
    match try_header_w false hdr nfiles with
    | Ok r => fin false r
    | Err e =>
        if negb (e =? ERR_CORRUPT) then Err e else
        match try_header_w true hdr nfiles with
        | Ok r => fin true r
        | Err e => if e =? ERR_CORRUPT then Err ERR_NOTIMPL else Err e
        end
    end.

  (** [pfn_to_pdpos] *)
  Definition pfn_to_pdpos (m : pfn_file_map) (pfn : N) : option N :=
    match find_pfn_region (pm_regions m) pfn with
    | Some rgn =>
        if rg_pfn rgn <=? pfn then Some (rg_pos rgn + (pfn - rg_pfn rgn) * PAGE_DESC_SIZE)
        else None
    | None => None
    end.

  Definition has (flags bit : N) : bool := negb (N.land flags bit =? 0).

  (** [diskdump_read_page] for the page frame [pfn] *)
  Definition dd_read_page (st : dd_state) (zero_excluded : bool) (pfn : N) : res bytes :=
    let pgsz := dd_page_size st in
    if dd_max_pfn st <=? pfn then Err ERR_NODATA else
    let hit :=
      match find_pfn_file_map (dd_maps st) pfn with
      | Some m => if pm_start m <=? pfn
                  then match pfn_to_pdpos m pfn with Some p => Some (m, p) | None => None end
                  else None
      | None => None
      end in
    match hit with
    | None => if zero_excluded then Ok (zeros pgsz) else Err ERR_NODATA
    | Some (m, pd_pos) =>
        let be := dd_be st in
        let pd := rd (pm_fidx m) pd_pos PAGE_DESC_SIZE in
        let offset := get64 be pd 0 in
        let size := get32 be pd 8 in
        let flags := get32 be pd 12 in
        if has flags DH_COMPRESSED then
          let chunk := rd (pm_fidx m) offset size in
          let via (bit : N) :=
            match decompress bit chunk with
            | Some out => if len out =? pgsz then Ok out else Err ERR_CORRUPT
            | None => Err ERR_CORRUPT
            end in
          if has flags DH_ZLIB then via DH_ZLIB
          else if has flags DH_LZO then Err ERR_NOTIMPL      (* !USE_LZO *)
          else if has flags DH_SNAPPY then via DH_SNAPPY
          else via DH_ZSTD
        else if negb (size =? pgsz) then Err ERR_CORRUPT
        else Ok (rd (pm_fidx m) offset size)
    end.

  (** [diskdump_get_page] on a page-aligned machine physical address *)
  Definition dd_get_page (zero_excluded : bool) (st : dd_state) (addr : N)
    : res bytes * dd_state :=
    (dd_read_page st zero_excluded (addr / dd_page_size st), st).

  Definition dd_read (st : dd_state) (zero_excluded : bool) (addr n : N) : N * bytes :=
    fst (read_range (dd_get_page zero_excluded) (dd_page_size st) st addr n).
End Reader.
