(** The block-level PFN index of lkcd.c stores the association that
    [LkcdModel] abstracts it to: every step of the page stream scan, whichever
    block it picks (looked up, or carried over from the previous record),
    adds exactly the record's (PFN, offset) pair and reports a duplicate
    exactly when the PFN is already there. *)
From Coq Require Import NArith List Bool Lia Arith.
From KdV Require Import Fmt.Codec Fmt.CodecProofs Fmt.Rle Fmt.LkcdModel Fmt.LkcdIndexModel.
Import ListNotations.
Local Open Scope N_scope.

(** * block lists *)

Definition b_ok (b : block) : Prop := b_idx3 b + blen b < PFN_IDX3_SIZE.

Definition gap_ok (b : block) (t : list block) : Prop :=
  match t with nb :: _ => b_idx3 b + blen b < b_idx3 nb | [] => True end.

(** sorted by idx3, and no block reaches the start of its successor *)
Fixpoint chain_ok (c : list block) : Prop :=
  match c with
  | [] => True
  | b :: t => b_ok b /\ gap_ok b t /\ chain_ok t
  end.

(** what a block says about a level-3 index in its range *)
Definition entry (b : block) (idx : N) : option N :=
  if idx =? b_idx3 b then Some (b_filepos b)
  else
    let o := nth (N.to_nat (idx - b_idx3 b - 1)) (b_offs b) 0 in
    if o =? 0 then None else Some (b_filepos b + o).

(** what a block list says: the block whose range holds the index decides *)
Fixpoint cfind (c : list block) (idx : N) : option N :=
  match c with
  | [] => None
  | b :: t =>
      if idx <? b_idx3 b then None
      else if idx <=? b_idx3 b + blen b then entry b idx
      else cfind t idx
  end.

Lemma gap_next_le b t idx : gap_ok b t -> idx <= b_idx3 b + blen b -> next_le t idx = false.
Proof.
  destruct t as [| nb t]; [reflexivity |]. cbn [gap_ok next_le]. intros H1 H2.
  apply N.leb_gt. lia.
Qed.

(** [lookup_pfn_block(pfn, 0)] + [idx_is_gap] + the offset computation of
    [get_page_desc] read the list as [cfind] does *)
Lemma chain_find_spec c idx : chain_ok c -> chain_find c idx = cfind c idx.
Proof.
  unfold chain_find. induction c as [| b t IH]; intro Hok; [reflexivity |].
  destruct Hok as [Hb [Hg Ht]]. cbn [chain_lookup cfind]. rewrite N.add_0_r.
  destruct (N.ltb_spec idx (b_idx3 b)) as [Hlt | Hge]; [reflexivity |].
  destruct (N.leb_spec idx (b_idx3 b + blen b)) as [Hin | Hout].
  - rewrite (gap_next_le b t idx Hg Hin). cbn [andb negb nth_error].
    unfold is_gap, block_off, entry.
    destruct (N.eqb_spec idx (b_idx3 b)) as [-> | Hne].
    + rewrite N.leb_refl, N.ltb_irrefl. reflexivity.
    + destruct (N.leb_spec idx (b_idx3 b)); [lia |]. destruct (N.ltb_spec (b_idx3 b) idx); [| lia].
      destruct (nth _ _ 0 =? 0); reflexivity.
  - cbn [andb]. specialize (IH Ht).
    destruct (chain_lookup t idx 0) as [p |]; cbn [option_map nth_error]; exact IH.
Qed.

(** ** list helpers *)
Lemma nth_set_nth {A} (l : list A) d v : forall i j,
  (i < length l)%nat -> nth j (set_nth i v l) d = if Nat.eqb j i then v else nth j l d.
Proof.
  induction l as [| h t IH]; intros i j Hi; [cbn in Hi; lia |].
  destruct i; destruct j; cbn [set_nth nth Nat.eqb]; try reflexivity.
  apply IH. cbn in Hi. lia.
Qed.

Lemma length_set_nth {A} (l : list A) v : forall i, length (set_nth i v l) = length l.
Proof. induction l as [| h t IH]; intro i; [reflexivity |]. destruct i; cbn [set_nth length]; auto. Qed.

Lemma nth_error_set_nth {A} (l : list A) v : forall i j,
  nth_error (set_nth i v l) j =
  if Nat.eqb j i then (match nth_error l j with Some _ => Some v | None => None end) else nth_error l j.
Proof.
  induction l as [| h t IH]; intros i j.
  { cbn [set_nth]. destruct j; cbn [nth_error]; destruct (Nat.eqb _ i); reflexivity. }
  destruct i; destruct j; cbn [set_nth nth_error Nat.eqb]; try reflexivity. apply IH.
Qed.

Lemma nth_app_zeros (l : list N) n j : nth j (l ++ zeros n) 0 = nth j l 0.
Proof.
  destruct (Nat.lt_ge_cases j (length l)).
  - now apply app_nth1.
  - rewrite app_nth2 by assumption. rewrite nth_zeros. symmetry. now apply nth_overflow.
Qed.

(** ** recording a page in the block chosen for it *)
Lemma update_block_spec b idx off :
  b_ok b -> b_idx3 b <= idx -> b_filepos b < off ->
  match update_block b idx off with
  | USplit => PFN_IDX_LIMIT <= off - b_filepos b
  | UDup => idx <= b_idx3 b + blen b /\ entry b idx <> None
  | UDone b' =>
      b_idx3 b' = b_idx3 b /\ b_filepos b' = b_filepos b /\ b_idx3 b < idx /\
      blen b' = N.max (blen b) (idx - b_idx3 b) /\
      (idx <= b_idx3 b + blen b -> entry b idx = None) /\
      (forall j, b_idx3 b <= j ->
         entry b' j = if j =? idx then Some off
                      else if j <=? b_idx3 b + blen b then entry b j
                      else if j <=? b_idx3 b + blen b' then None else entry b' j)
  end.
Proof.
  intros Hb Hge Hfp. unfold update_block.
  destruct (N.leb_spec PFN_IDX_LIMIT (off - b_filepos b)) as [Hs | Hns]; [exact Hs |].
  destruct (N.eqb_spec (idx - b_idx3 b) 0) as [Hd0 | Hd].
  - assert (idx = b_idx3 b) by lia. subst idx. split; [lia |]. unfold entry. rewrite N.eqb_refl. discriminate.
  - set (i := idx - b_idx3 b - 1).
    set (offs := if blen b <=? i then b_offs b ++ zeros (i + 1 - blen b) else b_offs b).
    assert (Hlen : len offs = N.max (blen b) (idx - b_idx3 b)).
    { unfold offs. destruct (N.leb_spec (blen b) i).
      - rewrite len_app, len_zeros. unfold blen in *. unfold i in *. lia.
      - unfold blen in *. unfold i in *. lia. }
    assert (Hi : (N.to_nat i < length offs)%nat).
    { unfold len in Hlen. unfold i in *. lia. }
    assert (Hnth : forall j, nth j offs 0 = nth j (b_offs b) 0).
    { intro j. unfold offs. destruct (blen b <=? i); [apply nth_app_zeros | reflexivity]. }
    destruct (N.eqb_spec (nth (N.to_nat i) offs 0) 0) as [Hz | Hnz].
    + (* a free entry *)
      cbn [b_idx3 b_filepos]. repeat split; try lia.
      * unfold blen. cbn [b_offs]. unfold len. rewrite length_set_nth. exact Hlen.
      * intros Hin. unfold entry. destruct (N.eqb_spec idx (b_idx3 b)); [lia |].
        fold i. rewrite <- Hnth, Hz. reflexivity.
      * intros j Hj. unfold entry at 1. cbn [b_idx3 b_filepos b_offs].
        destruct (N.eqb_spec j idx) as [-> | Hji].
        -- destruct (N.eqb_spec idx (b_idx3 b)); [lia |]. fold i.
           rewrite nth_set_nth by assumption. rewrite Nat.eqb_refl.
           destruct (N.eqb_spec (off - b_filepos b) 0); [lia |]. f_equal. lia.
        -- destruct (N.leb_spec j (b_idx3 b + blen b)) as [Hjin | Hjout].
           ++ unfold entry. destruct (N.eqb_spec j (b_idx3 b)); [reflexivity |].
              rewrite nth_set_nth by assumption.
              destruct (Nat.eqb_spec (N.to_nat (j - b_idx3 b - 1)) (N.to_nat i)); [unfold i in *; lia |].
              rewrite Hnth. reflexivity.
           ++ destruct (N.eqb_spec j (b_idx3 b)); [lia |].
              match goal with |- context [j <=? ?x] => destruct (N.leb_spec j x) as [Hjn | Hjn] end.
              ** rewrite nth_set_nth by assumption.
                 destruct (Nat.eqb_spec (N.to_nat (j - b_idx3 b - 1)) (N.to_nat i)); [unfold i in *; lia |].
                 rewrite Hnth. rewrite nth_overflow; [reflexivity |]. unfold blen, len in Hjout. lia.
              ** unfold entry. cbn [b_idx3 b_filepos b_offs].
                 destruct (N.eqb_spec j (b_idx3 b)); [lia |]. reflexivity.
    + (* taken *)
      assert (Hin : i < blen b).
      { destruct (N.lt_ge_cases i (blen b)); [assumption |]. exfalso. apply Hnz.
        rewrite Hnth. apply nth_overflow. unfold blen, len in *. lia. }
      split; [unfold i in *; lia |]. unfold entry.
      destruct (N.eqb_spec idx (b_idx3 b)); [discriminate |]. fold i. rewrite <- Hnth.
      apply N.eqb_neq in Hnz. rewrite Hnz. discriminate.
Qed.

(** ** lookup and update in one walk *)
Inductive lu_result := LNone | LDup | LSplit | LDone (c : list block).

Fixpoint lu (c : list block) (idx off : N) : lu_result :=
  match c with
  | [] => LNone
  | b :: t =>
      if idx <? b_idx3 b then LNone
      else if (idx <=? b_idx3 b + blen b + MAX_PFN_GAP) && negb (next_le t idx) then
        match update_block b idx off with
        | UDup => LDup | USplit => LSplit | UDone b' => LDone (b' :: t)
        end
      else match lu t idx off with LDone t' => LDone (b :: t') | r => r end
  end.

Lemma lu_lookup c idx off :
  lu c idx off =
  match chain_lookup c idx MAX_PFN_GAP with
  | None => LNone
  | Some pos =>
      match nth_error c pos with
      | Some b => match update_block b idx off with
                  | UDup => LDup | USplit => LSplit | UDone b' => LDone (set_nth pos b' c)
                  end
      | None => LNone
      end
  end.
Proof.
  induction c as [| b t IH]; [reflexivity |]. cbn [lu chain_lookup].
  destruct (idx <? b_idx3 b); [reflexivity |].
  destruct ((idx <=? b_idx3 b + blen b + MAX_PFN_GAP) && negb (next_le t idx)).
  - cbn [nth_error set_nth]. reflexivity.
  - rewrite IH. destruct (chain_lookup t idx MAX_PFN_GAP) as [p |]; cbn [option_map nth_error]; [| reflexivity].
    destruct (nth_error t p) as [b0 |]; [| reflexivity].
    destruct (update_block b0 idx off); reflexivity.
Qed.

Lemma gap_ok_same b t t' :
  hd_error (map b_idx3 t') = hd_error (map b_idx3 t) -> gap_ok b t -> gap_ok b t'.
Proof.
  destruct t as [| x t]; destruct t' as [| y t']; cbn [map hd_error gap_ok]; try discriminate; auto.
  intros E. injection E as ->. auto.
Qed.

Lemma next_le_true b t idx : chain_ok (b :: t) -> next_le t idx = true -> b_idx3 b + blen b < idx.
Proof.
  destruct t as [| nb t]; [discriminate |]. cbn [next_le chain_ok gap_ok]. intros [_ [Hg _]] H.
  apply N.leb_le in H. lia.
Qed.

(** a page whose block exists *)
Theorem lu_sound : forall c idx off,
  chain_ok c -> idx < PFN_IDX3_SIZE -> Forall (fun b => b_filepos b < off) c ->
  match lu c idx off with
  | LNone => True
  | LSplit => exists b, In b c /\ PFN_IDX_LIMIT <= off - b_filepos b
  | LDup => cfind c idx <> None
  | LDone c' =>
      cfind c idx = None /\ chain_ok c' /\ map b_idx3 c' = map b_idx3 c /\
      map b_filepos c' = map b_filepos c /\
      forall j, cfind c' j = if j =? idx then Some off else cfind c j
  end.
Proof.
  induction c as [| b t IH]; intros idx off Hok Hidx Hfp; [exact I |].
  destruct Hok as [Hb [Hg Ht]]. inversion Hfp as [| ? ? Hfb Hft]; subst.
  cbn [lu]. destruct (N.ltb_spec idx (b_idx3 b)) as [Hlt | Hge]; [exact I |].
  destruct ((idx <=? b_idx3 b + blen b + MAX_PFN_GAP) && negb (next_le t idx)) eqn:Hc.
  - apply andb_prop in Hc as [Hc1 Hc2]. apply N.leb_le in Hc1. apply negb_true_iff in Hc2.
    pose proof (update_block_spec b idx off Hb Hge Hfb) as Hu.
    destruct (update_block b idx off) as [| | b'].
    + (* duplicate *)
      destruct Hu as [Hin He]. cbn [cfind]. destruct (N.ltb_spec idx (b_idx3 b)); [lia |].
      destruct (N.leb_spec idx (b_idx3 b + blen b)); [exact He | lia].
    + exists b. split; [now left | exact Hu].
    + destruct Hu as [E3 [Ef [Hgt [Hlen [Hnone Hent]]]]].
      assert (Hnext : forall j, j <= idx -> next_le t j = false).
      { intros j Hj. destruct t as [| nb t']; [reflexivity |]. cbn [next_le] in *.
        apply N.leb_gt in Hc2. apply N.leb_gt. lia. }
      assert (Hcft : forall j, j <= idx -> cfind t j = None).
      { intros j Hj. specialize (Hnext j Hj). destruct t as [| nb t']; [reflexivity |].
        cbn [next_le] in Hnext. apply N.leb_gt in Hnext. cbn [cfind].
        destruct (N.ltb_spec j (b_idx3 nb)); [reflexivity | lia]. }
      split; [| split; [| split; [| split]]].
      * cbn [cfind]. destruct (N.ltb_spec idx (b_idx3 b)); [lia |].
        destruct (N.leb_spec idx (b_idx3 b + blen b)); [now apply Hnone | now apply Hcft].
      * cbn [chain_ok]. split; [| split; [| exact Ht]].
        -- unfold b_ok. rewrite E3, Hlen. unfold b_ok in Hb. lia.
        -- destruct t as [| nb t']; [exact I |]. cbn [gap_ok] in *. rewrite E3, Hlen.
           cbn [next_le] in Hc2. apply N.leb_gt in Hc2. lia.
      * cbn [map]. now rewrite E3.
      * cbn [map]. now rewrite Ef.
      * intro j. cbn [cfind]. rewrite E3.
        destruct (N.ltb_spec j (b_idx3 b)) as [Hjl | Hjg].
        { destruct (N.eqb_spec j idx); [lia | reflexivity]. }
        specialize (Hent j Hjg). rewrite Hlen in *.
        destruct (N.leb_spec j (b_idx3 b + N.max (blen b) (idx - b_idx3 b))) as [Hj1 | Hj1].
        -- rewrite Hent. destruct (N.eqb_spec j idx); [reflexivity |].
           destruct (N.leb_spec j (b_idx3 b + blen b)); [reflexivity |].
           symmetry. apply Hcft. lia.
        -- destruct (N.eqb_spec j idx); [lia |].
           destruct (N.leb_spec j (b_idx3 b + blen b)); [lia | reflexivity].
  - (* this block is passed over: the index lies beyond its range *)
    assert (Hbeyond : b_idx3 b + blen b < idx).
    { apply andb_false_iff in Hc as [Hc | Hc].
      - apply N.leb_gt in Hc. lia.
      - apply negb_false_iff in Hc. apply (next_le_true b t idx); [cbn [chain_ok]; auto | exact Hc]. }
    specialize (IH idx off Ht Hidx Hft).
    destruct (lu t idx off) as [| | | t'].
    + exact I.
    + cbn [cfind]. destruct (N.ltb_spec idx (b_idx3 b)); [lia |].
      destruct (N.leb_spec idx (b_idx3 b + blen b)); [lia | exact IH].
    + destruct IH as [b0 [Hin Hs]]. exists b0. split; [now right | exact Hs].
    + destruct IH as [Hn [Hok' [E3 [Ef Hfind]]]].
      split; [| split; [| split; [| split]]].
      * cbn [cfind]. destruct (N.ltb_spec idx (b_idx3 b)); [lia |].
        destruct (N.leb_spec idx (b_idx3 b + blen b)); [lia | exact Hn].
      * cbn [chain_ok]. split; [exact Hb | split; [| exact Hok']].
        apply (gap_ok_same b t t'); [now rewrite E3 | exact Hg].
      * cbn [map]. now rewrite E3.
      * cbn [map]. now rewrite Ef.
      * intro j. cbn [cfind]. destruct (N.ltb_spec j (b_idx3 b)).
        { destruct (N.eqb_spec j idx); [lia | reflexivity]. }
        destruct (N.leb_spec j (b_idx3 b + blen b)).
        { destruct (N.eqb_spec j idx); [lia | reflexivity]. }
        apply Hfind.
Qed.

(** a page without a block: [alloc_pfn_block] *)
Theorem insert_sound : forall c idx off,
  chain_ok c -> idx < PFN_IDX3_SIZE -> lu c idx off = LNone ->
  let nb := {| b_idx3 := idx; b_filepos := off; b_offs := [] |} in
  cfind c idx = None /\
  chain_ok (fst (insert_block nb c)) /\
  (forall b0, gap_ok b0 c -> b_idx3 b0 + blen b0 < idx -> gap_ok b0 (fst (insert_block nb c))) /\
  (forall j, cfind (fst (insert_block nb c)) j = if j =? idx then Some off else cfind c j) /\
  nth_error (fst (insert_block nb c)) (snd (insert_block nb c)) = Some nb /\
  (forall b, In b (fst (insert_block nb c)) -> b = nb \/ In b c).
Proof.
  assert (Hnb : forall idx off j,
    (if j <? idx then None
     else if j <=? idx + blen {| b_idx3 := idx; b_filepos := off; b_offs := [] |}
          then entry {| b_idx3 := idx; b_filepos := off; b_offs := [] |} j else None) =
    (if j =? idx then Some off else None)).
  { intros idx off j. unfold blen. cbn [b_offs]. rewrite len_nil, N.add_0_r.
    destruct (N.ltb_spec j idx); destruct (N.eqb_spec j idx); try lia; try reflexivity.
    - subst j. rewrite N.leb_refl. unfold entry. cbn [b_idx3 b_filepos]. now rewrite N.eqb_refl.
    - destruct (N.leb_spec j idx); [lia | reflexivity]. }
  assert (Hnbok : forall idx off, idx < PFN_IDX3_SIZE ->
            b_ok {| b_idx3 := idx; b_filepos := off; b_offs := [] |}).
  { intros idx off H. unfold b_ok, blen. cbn [b_idx3 b_offs]. rewrite len_nil. lia. }
  induction c as [| b t IH]; intros idx off Hok Hidx Hlu nb; subst nb.
  - cbn [insert_block fst snd cfind chain_ok gap_ok nth_error].
    split; [reflexivity |]. split; [split; [now apply Hnbok | split; exact I] |].
    split; [intros b0 _ H; cbn [gap_ok b_idx3]; exact H |].
    split; [intro j; cbn [b_idx3]; apply Hnb |].
    split; [reflexivity |]. intros b [<- | []]. now left.
  - destruct Hok as [Hb [Hg Ht]]. cbn [lu] in Hlu. cbn [insert_block]. cbn [b_idx3].
    destruct (N.ltb_spec idx (b_idx3 b)) as [Hlt | Hge].
    + (* before the first block *)
      destruct (N.leb_spec idx (b_idx3 b)); [| lia]. cbn [fst snd nth_error].
      split; [cbn [cfind]; destruct (N.ltb_spec idx (b_idx3 b)); [reflexivity | lia] |].
      split.
      { cbn [chain_ok]. split; [now apply Hnbok |]. split; [| auto].
        cbn [gap_ok]. unfold blen. cbn [b_idx3 b_offs]. rewrite len_nil. lia. }
      split; [intros b0 _ Hb0; cbn [gap_ok b_idx3]; exact Hb0 |].
      split.
      { intro j. cbn [cfind b_idx3]. destruct (N.eqb_spec j idx) as [-> | Hne].
        - rewrite N.ltb_irrefl. unfold blen at 1. cbn [b_offs]. rewrite len_nil, N.add_0_r, N.leb_refl.
          unfold entry. cbn [b_idx3 b_filepos]. now rewrite N.eqb_refl.
        - destruct (N.ltb_spec j idx).
          + destruct (N.ltb_spec j (b_idx3 b)); [reflexivity | lia].
          + unfold blen at 1. cbn [b_offs]. rewrite len_nil, N.add_0_r.
            destruct (N.leb_spec j idx); [lia | reflexivity]. }
      split; [reflexivity |]. intros b1 [<- | Hb1]; [now left | now right].
    + destruct ((idx <=? b_idx3 b + blen b + MAX_PFN_GAP) && negb (next_le t idx)) eqn:Hc.
      { destruct (update_block b idx off); discriminate. }
      assert (Hbeyond : b_idx3 b + blen b < idx).
      { apply andb_false_iff in Hc as [Hc | Hc].
        - apply N.leb_gt in Hc. lia.
        - apply negb_false_iff in Hc. apply (next_le_true b t idx); [cbn [chain_ok]; auto | exact Hc]. }
      assert (Hlu' : lu t idx off = LNone) by (destruct (lu t idx off); congruence).
      destruct (N.leb_spec idx (b_idx3 b)); [lia |].
      specialize (IH idx off Ht Hidx Hlu'). cbn zeta in IH.
      destruct (insert_block {| b_idx3 := idx; b_filepos := off; b_offs := [] |} t) as [t' p] eqn:Hins.
      cbn [fst snd] in *.
      destruct IH as [Hn [Hok' [Hgap [Hfind [Hnth Hinb]]]]].
      split.
      { cbn [cfind]. destruct (N.ltb_spec idx (b_idx3 b)); [lia |].
        destruct (N.leb_spec idx (b_idx3 b + blen b)); [lia | exact Hn]. }
      split; [cbn [chain_ok]; split; [exact Hb | split; [now apply Hgap | exact Hok']] |].
      split; [intros b0 H0 _; exact H0 |].
      split.
      { intro j. cbn [cfind]. destruct (N.ltb_spec j (b_idx3 b)).
        { destruct (N.eqb_spec j idx); [lia | reflexivity]. }
        destruct (N.leb_spec j (b_idx3 b + blen b)).
        { destruct (N.eqb_spec j idx); [lia | reflexivity]. }
        apply Hfind. }
      split; [exact Hnth |].
      intros b1 [<- | Hb1]; [right; now left |]. destruct (Hinb _ Hb1); [now left | right; now right].
Qed.

(** ** the carried block is a shortcut: when it fits, a lookup finds it *)
Lemma chain_ok_le c : forall p b, chain_ok c -> nth_error c p = Some b ->
  match c with h :: _ => b_idx3 h <= b_idx3 b | [] => True end.
Proof.
  induction c as [| h t IH]; intros p b Hok Hp; [exact I |].
  destruct p; [cbn in Hp; injection Hp as ->; lia |].
  destruct Hok as [_ [Hg Ht]]. cbn [nth_error] in Hp. specialize (IH p b Ht Hp).
  destruct t as [| h2 t2]; [destruct p; discriminate |]. cbn [gap_ok] in Hg. lia.
Qed.

Lemma fits_lookup : forall c pos b idx,
  chain_ok c -> nth_error c pos = Some b -> fits idx b (skipn (S pos) c) = true ->
  chain_lookup c idx MAX_PFN_GAP = Some pos.
Proof.
  induction c as [| h t IH]; intros pos b idx Hok Hp Hf; [destruct pos; discriminate |].
  destruct pos.
  - cbn [nth_error] in Hp. injection Hp as ->. cbn [skipn] in Hf. cbn [chain_lookup].
    unfold fits in Hf. destruct Hok as [_ [Hg _]].
    destruct (idx <? b_idx3 b); [discriminate |].
    destruct (N.leb_spec idx (b_idx3 b + blen b)) as [Hin | Hout].
    + rewrite (gap_next_le b t idx Hg Hin).
      destruct (N.leb_spec idx (b_idx3 b + blen b + MAX_PFN_GAP)); [reflexivity | lia].
    + destruct (N.ltb_spec (b_idx3 b + blen b + MAX_PFN_GAP) idx); [discriminate |].
      destruct (_ <? idx); [discriminate |].
      destruct (N.leb_spec idx (b_idx3 b + blen b + MAX_PFN_GAP)); [| lia].
      now rewrite Hf.
  - cbn [nth_error skipn] in Hp, Hf. destruct Hok as [Hh [Hg Ht]].
    pose proof (chain_ok_le t pos b Ht Hp) as Hle.
    assert (Hidx : b_idx3 b <= idx).
    { unfold fits in Hf. destruct (N.ltb_spec idx (b_idx3 b)); [discriminate | assumption]. }
    cbn [chain_lookup].
    destruct t as [| h2 t2]; [destruct pos; discriminate |]. cbn [gap_ok] in Hg.
    destruct (N.ltb_spec idx (b_idx3 h)); [lia |].
    assert (Hn : next_le (h2 :: t2) idx = true) by (cbn [next_le]; apply N.leb_le; lia).
    rewrite Hn. cbn [negb]. rewrite andb_false_r.
    rewrite (IH pos b idx Ht Hp Hf). reflexivity.
Qed.

(** one record of the stream, for the block list of its slot *)
Theorem chain_record_sound c carried idx off :
  chain_ok c -> idx < PFN_IDX3_SIZE -> Forall (fun b => b_filepos b < off) c ->
  match chain_record c carried idx off with
  | RSplit => exists b, In b c /\ PFN_IDX_LIMIT <= off - b_filepos b
  | RDup => cfind c idx <> None
  | RDone c' pos =>
      cfind c idx = None /\ chain_ok c' /\
      (forall j, cfind c' j = if j =? idx then Some off else cfind c j) /\
      (pos < length c')%nat /\
      Forall (fun b => b_filepos b <= off) c'
  end.
Proof.
  intros Hok Hidx Hfp. unfold chain_record.
  set (looked := chain_lookup c idx MAX_PFN_GAP).
  assert (Hchosen :
    match carried with
    | Some pos => match nth_error c pos with
                  | Some b => if fits idx b (skipn (S pos) c) then Some pos else looked
                  | None => looked end
    | None => looked end = looked).
  { destruct carried as [pos |]; [| reflexivity].
    destruct (nth_error c pos) as [b |] eqn:Hp; [| reflexivity].
    destruct (fits idx b (skipn (S pos) c)) eqn:Hf; [| reflexivity].
    unfold looked. symmetry. now apply (fits_lookup c pos b idx). }
  rewrite Hchosen. unfold looked.
  pose proof (lu_lookup c idx off) as Hl. pose proof (lu_sound c idx off Hok Hidx Hfp) as Hs.
  destruct (chain_lookup c idx MAX_PFN_GAP) as [pos |] eqn:Hlk.
  - destruct (nth_error c pos) as [b |] eqn:Hp.
    + destruct (update_block b idx off) as [| | b'] eqn:Hu; rewrite Hl in Hs; try exact Hs.
      destruct Hs as [Hn [Hok' [E3 [Ef Hfind]]]].
      split; [exact Hn | split; [exact Hok' | split; [exact Hfind | split]]].
      * rewrite length_set_nth. apply nth_error_Some. now rewrite Hp.
      * assert (Hall : Forall (fun x => x < off) (map b_filepos (set_nth pos b' c))).
        { rewrite Ef. rewrite Forall_map. exact Hfp. }
        rewrite Forall_map in Hall. eapply Forall_impl; [| exact Hall]. cbn. intros; lia.
    + (* positions come from the list *)
      exfalso. clear - Hlk Hp. revert pos Hlk Hp. induction c as [| b t IH]; intros pos Hlk Hp; [discriminate |].
      cbn [chain_lookup] in Hlk. destruct (idx <? b_idx3 b); [discriminate |].
      destruct (_ && _); [injection Hlk as <-; discriminate |].
      destruct (chain_lookup t idx MAX_PFN_GAP) as [p |]; [| discriminate].
      injection Hlk as <-. cbn [nth_error] in Hp. now apply (IH p).
  - rewrite Hl in Hs.
    pose proof (insert_sound c idx off Hok Hidx) as Hi. rewrite Hl in Hi. specialize (Hi eq_refl).
    cbn zeta in Hi.
    destruct (insert_block {| b_idx3 := idx; b_filepos := off; b_offs := [] |} c) as [c' pos] eqn:Hins.
    cbn [fst snd] in Hi. destruct Hi as [Hn [Hok' [_ [Hfind [Hnth Hinb]]]]].
    split; [exact Hn | split; [exact Hok' | split; [exact Hfind | split]]].
    + apply nth_error_Some. now rewrite Hnth.
    + apply Forall_forall. intros b Hb. destruct (Hinb b Hb) as [-> | Hc]; [cbn; lia |].
      rewrite Forall_forall in Hfp. specialize (Hfp b Hc). cbn in Hfp. lia.
Qed.

(** * the table *)

Definition tbl_ok (tbl : list (N * list block)) : Prop :=
  Forall (fun kc => chain_ok (snd kc)) tbl.

Lemma get_set_same slot c tbl : get_chain slot (set_chain slot c tbl) = Some c.
Proof.
  induction tbl as [| [k c0] t IH]; cbn [set_chain get_chain]; [now rewrite N.eqb_refl |].
  destruct (N.eqb_spec k slot) as [-> | Hne]; cbn [get_chain].
  - now rewrite N.eqb_refl.
  - apply N.eqb_neq in Hne. now rewrite Hne.
Qed.

Lemma get_set_other slot s' c tbl : s' <> slot -> get_chain s' (set_chain slot c tbl) = get_chain s' tbl.
Proof.
  intro Hd. induction tbl as [| [k c0] t IH]; cbn [set_chain get_chain].
  - destruct (N.eqb_spec slot s'); [congruence | reflexivity].
  - destruct (N.eqb_spec k slot) as [-> | Hne]; cbn [get_chain].
    + destruct (N.eqb_spec slot s'); [congruence | reflexivity].
    + destruct (k =? s'); [reflexivity | exact IH].
Qed.

Lemma get_chain_in slot tbl c : get_chain slot tbl = Some c -> In (slot, c) tbl.
Proof.
  induction tbl as [| [k c0] t IH]; cbn [get_chain]; [discriminate |].
  destruct (N.eqb_spec k slot) as [-> | _]; [intro E; injection E as ->; now left | intro E; right; auto].
Qed.

Lemma set_chain_forall (P : N * list block -> Prop) slot c tbl :
  Forall P tbl -> P (slot, c) -> (forall k c0, P (k, c0) -> k = slot -> P (k, c)) ->
  Forall P (set_chain slot c tbl).
Proof.
  intros Hall Hp Hk. induction Hall as [| [k c0] t Hh Ht IH]; cbn [set_chain]; [repeat constructor; exact Hp |].
  destruct (N.eqb_spec k slot) as [E | _]; constructor; auto. exact (Hk k c0 Hh E).
Qed.

Definition the_chain (slot : N) (tbl : list (N * list block)) : list block :=
  match get_chain slot tbl with Some c => c | None => [] end.

Lemma the_chain_ok slot tbl : tbl_ok tbl -> chain_ok (the_chain slot tbl).
Proof.
  intro H. unfold the_chain. destruct (get_chain slot tbl) as [c |] eqn:E; [| exact I].
  unfold tbl_ok in H. rewrite Forall_forall in H. exact (H _ (get_chain_in _ _ _ E)).
Qed.

Lemma tbl_find_spec tbl pfn :
  tbl_ok tbl ->
  tbl_find tbl pfn =
  if PFN_IDX_LIMIT <=? pfn then None else cfind (the_chain (slot_of pfn) tbl) (idx3_of pfn).
Proof.
  intro H. unfold tbl_find. destruct (PFN_IDX_LIMIT <=? pfn); [reflexivity |].
  pose proof (the_chain_ok (slot_of pfn) tbl H) as Hc. unfold the_chain in *.
  destruct (get_chain (slot_of pfn) tbl) as [c |]; [now apply chain_find_spec | reflexivity].
Qed.

Lemma pfn_split pfn : pfn = slot_of pfn * PFN_IDX3_SIZE + idx3_of pfn.
Proof. unfold slot_of, idx3_of, PFN_IDX3_SIZE. rewrite N.mul_comm. apply N.div_mod. discriminate. Qed.

Lemma idx3_lt pfn : idx3_of pfn < PFN_IDX3_SIZE.
Proof. unfold idx3_of, PFN_IDX3_SIZE. apply N.mod_lt. discriminate. Qed.

(** * the scan on the block-level index simulates the scan on the association *)

Record rel (b : kb_state) (a : lk_state) : Prop := {
  r_be : kb_be b = lk_be a;
  r_version : kb_version b = lk_version a;
  r_pgsz : kb_page_size b = lk_page_size a;
  r_comp : kb_compression b = lk_compression a;
  r_last : kb_last b = lk_last a;
  r_end : kb_end b = lk_end a;
  r_max : kb_max_pfn b = lk_max_pfn a;
  r_endle : lk_end a <= lk_last a;
  r_ok : tbl_ok (kb_tbl b);
  (* the index holds the association, for every page frame number *)
  r_idx : forall pfn, tbl_find (kb_tbl b) pfn = assoc pfn (lk_index a);
  r_fp : Forall (fun kc => Forall (fun bl => b_filepos bl < kb_last b) (snd kc)) (kb_tbl b)
}.

Ltac rel_fields :=
  cbn [with_scan kb_be kb_version kb_page_size kb_compression kb_tbl kb_last kb_end kb_max_pfn
       lk_be lk_version lk_page_size lk_compression lk_index lk_last lk_end lk_max_pfn].

Section Sim.
  Variable rd : N -> N -> N -> bytes.
  Variable gunzip : bytes -> option bytes.

  Lemma search_mono : forall fuel st pfn,
    lk_last st <= lk_last (snd (fst (search rd fuel st pfn))).
  Proof.
    induction fuel as [| k IH]; intros st pfn; [cbn; lia |].
    cbn [search]. destruct (lk_last st =? lk_end st); [cbn; lia |].
    destruct (negb _); [cbn; lia |].
    destruct (2^32 <=? _); [cbn; lia |].
    destruct (assoc _ _); [cbn; lia |].
    match goal with |- context [if ?c then _ else _] => destruct c end; [cbn; lia |].
    eapply N.le_trans; [| apply IH]. cbn [lk_last]. lia.
  Qed.

  Lemma loop_sim : forall fuel b a pfn cur,
    rel b a -> lk_end a < lk_last a ->
    lk_last (snd (fst (search rd fuel a pfn))) < PFN_IDX_LIMIT ->
    fst (fst (bsearch_loop rd fuel b pfn cur)) = fst (fst (search rd fuel a pfn)) /\
    snd (bsearch_loop rd fuel b pfn cur) = snd (search rd fuel a pfn) /\
    rel (snd (fst (bsearch_loop rd fuel b pfn cur))) (snd (fst (search rd fuel a pfn))).
  Proof.
    induction fuel as [| k IH]; intros b a pfn cur R Hend Hbound.
    { cbn [bsearch_loop search fst snd]. split; [reflexivity | split; [reflexivity | exact R]]. }
    pose proof R as R0.
    assert (Hlast : lk_last a < PFN_IDX_LIMIT)
      by (eapply N.le_lt_trans; [apply (search_mono (S k) a pfn) | exact Hbound]).
    destruct R as [Rbe Rver Rpg Rcomp Rlast Rend Rmax Rle Rok Ridx Rfp].
    cbn [bsearch_loop search] in *. rewrite Rbe, Rlast, Rpg in *.
    destruct (N.eqb_spec (lk_last a) (lk_end a)) as [E | _]; [lia |].
    set (dp := rd 0 (lk_last a) 16) in *.
    destruct (negb (N.land (get32 (lk_be a) dp 12) DUMP_END =? 0)).
    { (* the END marker *)
      cbn [fst snd]. split; [reflexivity | split; [reflexivity |]].
      constructor; rel_fields; auto; lia. }
    set (curpfn := N.shiftr (get64 (lk_be a) dp 0) (shift_of (lk_page_size a))) in *.
    change (2^32) with PFN_IDX_LIMIT in *.
    destruct (N.leb_spec PFN_IDX_LIMIT curpfn) as [Hbig | Hsmall].
    { cbn [fst snd]. split; [reflexivity | split; [reflexivity | exact R0]]. }
    set (slot := slot_of curpfn). set (idx := idx3_of curpfn).
    fold (the_chain slot (kb_tbl b)).
    set (c := the_chain slot (kb_tbl b)).
    set (carried := match cur with Some (s, pos) => if s =? slot then Some pos else None | None => None end).
    assert (Hcok : chain_ok c) by (now apply the_chain_ok).
    assert (Hcfp : Forall (fun bl => b_filepos bl < lk_last a) c).
    { unfold c, the_chain. destruct (get_chain slot (kb_tbl b)) as [c0 |] eqn:Eg; [| constructor].
      rewrite Forall_forall in Rfp. specialize (Rfp _ (get_chain_in _ _ _ Eg)). cbn in Rfp.
      exact Rfp. }
    pose proof (chain_record_sound c carried idx (lk_last a) Hcok (idx3_lt curpfn) Hcfp) as Hrec.
    assert (Hfind : tbl_find (kb_tbl b) curpfn = cfind c idx).
    { rewrite (tbl_find_spec _ _ Rok). destruct (N.leb_spec PFN_IDX_LIMIT curpfn); [lia | reflexivity]. }
    assert (Hassoc : assoc curpfn (lk_index a) = cfind c idx) by (now rewrite <- Ridx).
    rewrite Hassoc in *.
    destruct (chain_record c carried idx (lk_last a)) as [| | c' pos].
    - (* duplicate: the association has the page frame *)
      destruct (cfind c idx); [| contradiction]. cbn [fst snd].
      split; [reflexivity | split; [reflexivity | exact R0]].
    - (* a block more than 4 GiB long *)
      exfalso. destruct Hrec as [b0 [_ Hs]]. lia.
    - destruct Hrec as [Hn [Hok' [Hupd [Hpos Hfp']]]]. rewrite Hn in *.
      set (b' := with_scan b (set_chain slot c' (kb_tbl b)) (lk_last a + 16 + get32 (lk_be a) dp 8)
                           (kb_end b) (N.max (kb_max_pfn b) (curpfn + 1))).
      set (a' := {| lk_be := lk_be a; lk_version := lk_version a; lk_page_size := lk_page_size a;
                    lk_compression := lk_compression a;
                    lk_index := (curpfn, lk_last a) :: lk_index a;
                    lk_last := lk_last a + 16 + get32 (lk_be a) dp 8; lk_end := lk_end a;
                    lk_max_pfn := N.max (lk_max_pfn a) (curpfn + 1) |}) in *.
      assert (R' : rel b' a').
      { constructor; unfold b', a'; rel_fields; auto; try lia.
        - apply set_chain_forall; [exact Rok | exact Hok' | intros; exact Hok'].
        - intro p. cbn [assoc].
          assert (Hok2 : tbl_ok (set_chain slot c' (kb_tbl b)))
            by (apply set_chain_forall; [exact Rok | exact Hok' | intros; exact Hok']).
          rewrite (tbl_find_spec _ _ Hok2). rewrite <- Ridx, (tbl_find_spec _ _ Rok).
          destruct (N.leb_spec PFN_IDX_LIMIT p) as [Hp | Hp].
          { destruct (N.eqb_spec curpfn p); [lia | reflexivity]. }
          destruct (N.eq_dec (slot_of p) slot) as [Es | Ns].
          + unfold the_chain at 1. rewrite Es, get_set_same, Hupd. fold c.
            destruct (N.eqb_spec (idx3_of p) idx) as [Ei | Ni].
            * assert (curpfn = p).
              { rewrite (pfn_split p), (pfn_split curpfn). fold slot idx. now rewrite Es, Ei. }
              apply N.eqb_eq in H. now rewrite H.
            * destruct (N.eqb_spec curpfn p) as [Ecp | _]; [subst p; contradiction | reflexivity].
          + unfold the_chain. rewrite (get_set_other slot (slot_of p)) by assumption.
            destruct (N.eqb_spec curpfn p) as [Ecp | _]; [subst p; contradiction | reflexivity].
        - apply set_chain_forall.
          + eapply Forall_impl; [| exact Rfp]. intros kc Hkc. cbn in *.
            eapply Forall_impl; [| exact Hkc]. cbn. intros. lia.
          + cbn. eapply Forall_impl; [| exact Hfp']. cbn. intros. lia.
          + intros. cbn. eapply Forall_impl; [| exact Hfp']. cbn. intros. lia. }
      destruct (curpfn =? pfn) eqn:Ep.
      + cbn [fst snd]. split; [reflexivity | split; [reflexivity | exact R']].
      + apply IH; [exact R' | cbn [a' lk_end lk_last]; lia | exact Hbound].
  Qed.

  (** [search_page_desc] *)
  Lemma bsearch_sim fuel b a pfn :
    rel b a -> fuel <> O ->
    lk_last (snd (fst (search rd fuel a pfn))) < PFN_IDX_LIMIT ->
    fst (fst (bsearch rd fuel b pfn)) = fst (fst (search rd fuel a pfn)) /\
    snd (bsearch rd fuel b pfn) = snd (search rd fuel a pfn) /\
    rel (snd (fst (bsearch rd fuel b pfn))) (snd (fst (search rd fuel a pfn))).
  Proof.
    intros R Hfuel Hbound. unfold bsearch.
    pose proof (r_last _ _ R) as Rl. pose proof (r_end _ _ R) as Re. pose proof (r_endle _ _ R) as Rle.
    rewrite Rl, Re.
    destruct (N.eqb_spec (lk_last a) (lk_end a)) as [E | Ne].
    - destruct fuel; [contradiction |]. cbn [search]. apply N.eqb_eq in E. rewrite E.
      cbn [fst snd]. auto.
    - apply loop_sim; [exact R | lia | exact Hbound].
  Qed.

  (** [get_page_desc] *)
  Lemma get_page_desc_sim fuel b a pfn :
    rel b a -> fuel <> O ->
    lk_last (snd (fst (get_page_desc rd fuel a pfn))) < PFN_IDX_LIMIT ->
    fst (fst (kb_get_page_desc rd fuel b pfn)) = fst (fst (get_page_desc rd fuel a pfn)) /\
    snd (kb_get_page_desc rd fuel b pfn) = snd (get_page_desc rd fuel a pfn) /\
    rel (snd (fst (kb_get_page_desc rd fuel b pfn))) (snd (fst (get_page_desc rd fuel a pfn))).
  Proof.
    intros R Hfuel. unfold kb_get_page_desc, get_page_desc. rewrite (r_idx _ _ R).
    destruct (assoc pfn (lk_index a)); [cbn [fst snd]; auto |].
    intro Hbound. now apply bsearch_sim.
  Qed.

  (** [lkcd_read_page] *)
  Theorem read_page_sim fuel b a pfn :
    rel b a -> fuel <> O ->
    lk_last (snd (lk_read_page rd gunzip fuel a pfn)) < PFN_IDX_LIMIT ->
    fst (kb_read_page rd gunzip fuel b pfn) = fst (lk_read_page rd gunzip fuel a pfn) /\
    rel (snd (kb_read_page rd gunzip fuel b pfn)) (snd (lk_read_page rd gunzip fuel a pfn)).
  Proof.
    intros R Hfuel Hbound. unfold kb_read_page, lk_read_page in *.
    assert (Hb : lk_last (snd (fst (get_page_desc rd fuel a pfn))) < PFN_IDX_LIMIT).
    { destruct (get_page_desc rd fuel a pfn) as [[s a'] o]. cbn [fst snd].
      destruct (negb (s =? KDUMP_OK)); [exact Hbound |].
      repeat match type of Hbound with context [if ?c then _ else _] => destruct c end;
        repeat match type of Hbound with context [match ?c with Some _ => _ | None => _ end] => destruct c end;
        repeat match type of Hbound with context [if ?c then _ else _] => destruct c end;
        exact Hbound. }
    destruct (get_page_desc_sim fuel b a pfn R Hfuel Hb) as [Hs [Ho R']].
    destruct (kb_get_page_desc rd fuel b pfn) as [[sb b'] ob].
    destruct (get_page_desc rd fuel a pfn) as [[sa a'] oa]. cbn [fst snd] in *. subst sb ob.
    destruct (negb (sa =? KDUMP_OK)); [cbn [fst snd]; auto |].
    rewrite (r_be _ _ R'), (r_pgsz _ _ R'), (r_comp _ _ R').
    repeat match goal with
           | |- context [if ?c then _ else _] => destruct c
           | |- context [match ?c with Some _ => _ | None => _ end] => destruct c
           end; cbn [fst snd]; auto.
  Qed.

  (** [lkcd_max_pfn_revalidate] *)
  Theorem scan_max_pfn_sim fuel b a :
    rel b a -> fuel <> O ->
    lk_last (snd (lk_scan_max_pfn rd fuel a)) < PFN_IDX_LIMIT ->
    fst (kb_scan_max_pfn rd fuel b) = fst (lk_scan_max_pfn rd fuel a) /\
    rel (snd (kb_scan_max_pfn rd fuel b)) (snd (lk_scan_max_pfn rd fuel a)).
  Proof.
    intros R Hfuel Hbound. unfold kb_scan_max_pfn, lk_scan_max_pfn in *.
    rewrite (r_last _ _ R), (r_end _ _ R).
    destruct (lk_last a =? lk_end a); [cbn [fst snd]; rewrite (r_max _ _ R); auto |].
    assert (Hb : lk_last (snd (fst (search rd fuel a (2^64 - 1)))) < PFN_IDX_LIMIT).
    { destruct (search rd fuel a (2^64 - 1)) as [[s a'] o]. cbn [fst snd] in *.
      destruct (s =? ERR_NODATA); exact Hbound. }
    destruct (bsearch_sim fuel b a (2^64 - 1) R Hfuel Hb) as [Hs [_ R']].
    destruct (bsearch rd fuel b (2^64 - 1)) as [[sb b'] ob].
    destruct (search rd fuel a (2^64 - 1)) as [[sa a'] oa]. cbn [fst snd] in *. subst sb.
    destruct (sa =? ERR_NODATA); cbn [fst snd]; rewrite ?(r_max _ _ R'); auto.
  Qed.

  Lemma rel_open st :
    lk_index st = [] -> lk_end st <= lk_last st -> rel (kb_of_lk st) st.
  Proof.
    intros Hi He. constructor; cbn [kb_of_lk kb_be kb_version kb_page_size kb_compression kb_tbl kb_last
                                     kb_end kb_max_pfn]; auto.
    - constructor.
    - intro pfn. rewrite Hi. unfold tbl_find. destruct (_ <=? pfn); reflexivity.
  Qed.
End Sim.

(** * on the files the spec encoder writes *)
From KdV Require Import Fmt.LkcdSpec Fmt.LkcdProofs.

(** the block-level state after any sequence of requests: some prefix of the
    page stream has been scanned and the blocks hold exactly its association *)
Definition binv (l : lk_layout) (stream : list lk_page) (b : kb_state) : Prop :=
  exists a, inv l stream a /\ rel b a.

Section OnEncoded.
  Variable gunzip : bytes -> option bytes.
  Variable l : lk_layout.
  Variable stream : list lk_page.
  Variable img : list (N * bytes).
  Hypothesis Hwf : lk_wf l stream.
  Hypothesis Hst : Forall2 (rec_stores gunzip (ll_compression l) (ll_page_size l)) stream img.
  (* offsets inside a block are 32 bits wide; longer files take the block
     splitting path, which is C04's (Hist/) *)
  Hypothesis Hsmall : len (encode_lkcd l stream) < 2^32.

  Let rd := read_files [encode_lkcd l stream].

  Lemma inv_bound a : inv l stream a -> lk_last a < PFN_IDX_LIMIT.
  Proof.
    intro H. destruct (inv_facts l stream a H) as [n [_ [_ [_ [_ Hle]]]]].
    unfold PFN_IDX_LIMIT. lia.
  Qed.

  Theorem index_open :
    exists b, kb_open rd 1 = Ok b /\ binv l stream b /\
              kb_be b = ll_be l /\ kb_page_size b = ll_page_size l.
  Proof.
    destruct (lkcd_open gunzip l stream img Hwf Hst) as [a [Ho [Hi [Hbe Hpg]]]].
    exists (kb_of_lk a). unfold kb_open. fold rd in Ho. rewrite Ho. split; [reflexivity |].
    split; [| split; assumption].
    exists a. split; [exact Hi |].
    destruct (inv_facts l stream a Hi) as [n [Hn [Hidx [Hlast [Hle _]]]]].
    apply rel_open; [| exact Hle].
    (* a freshly opened dump has scanned nothing *)
    pose proof (open_spec l stream Hwf) as Hos. fold rd in Hos. rewrite Hos in Ho. injection Ho as <-.
    reflexivity.
  Qed.

  Theorem index_read_page fuel b pfn :
    binv l stream b -> (length stream + 1 < fuel)%nat ->
    fst (kb_read_page rd gunzip fuel b pfn) = spec_lkcd_page img pfn /\
    binv l stream (snd (kb_read_page rd gunzip fuel b pfn)).
  Proof.
    intros [a [Hi R]] Hfuel.
    destruct (lkcd_read_page gunzip l stream img Hwf Hst fuel a pfn Hi Hfuel) as [Hres Hi'].
    fold rd in Hres, Hi'.
    destruct (read_page_sim rd gunzip fuel b a pfn R ltac:(lia) (inv_bound _ Hi')) as [Hs R'].
    split; [now rewrite Hs |]. eexists. split; eassumption.
  Qed.

  Theorem index_max_pfn fuel b :
    binv l stream b -> (length stream + 1 < fuel)%nat ->
    fst (kb_scan_max_pfn rd fuel b) = Ok (spec_lkcd_max_pfn img) /\
    binv l stream (snd (kb_scan_max_pfn rd fuel b)).
  Proof.
    intros [a [Hi R]] Hfuel.
    destruct (lkcd_max_pfn gunzip l stream img Hwf Hst fuel a Hi Hfuel) as [Hres Hi'].
    fold rd in Hres, Hi'.
    destruct (scan_max_pfn_sim rd fuel b a R ltac:(lia) (inv_bound _ Hi')) as [Hs R'].
    split; [now rewrite Hs |]. eexists. split; eassumption.
  Qed.

  (** what the blocks hold: exactly the records of the scanned prefix, each at
      the offset of its descriptor *)
  Theorem index_sound b :
    binv l stream b ->
    exists n, (n <= length stream)%nat /\
      kb_last b = off l stream n /\
      forall pfn,
        tbl_find (kb_tbl b) pfn =
        match find_rec (firstn n stream) pfn 0 with
        | Some (i, _) => Some (off l stream i)
        | None => None
        end.
  Proof.
    intros [a [Hi R]].
    destruct (inv_facts l stream a Hi) as [n [Hn [Hidx [Hlast _]]]].
    exists n. split; [exact Hn |]. split; [now rewrite (r_last _ _ R) |].
    intro pfn. rewrite (r_idx _ _ R), Hidx. now apply assoc_index.
  Qed.

  (** any history of requests: every answer is the image's, whatever was
      asked before *)
  Definition spec_answer (r : request) : answer :=
    match r with
    | ReqPage pfn => AnsPage (spec_lkcd_page img pfn)
    | ReqMaxPfn => AnsMaxPfn (Ok (spec_lkcd_max_pfn img))
    end.

  Theorem index_any_history fuel : forall reqs b,
    binv l stream b -> (length stream + 1 < fuel)%nat ->
    fst (kb_run rd gunzip fuel b reqs) = map spec_answer reqs /\
    binv l stream (snd (kb_run rd gunzip fuel b reqs)).
  Proof.
    induction reqs as [| [pfn |] t IH]; intros b Hb Hfuel; cbn [kb_run map].
    - split; [reflexivity | exact Hb].
    - destruct (index_read_page fuel b pfn Hb Hfuel) as [Hr Hb'].
      destruct (kb_read_page rd gunzip fuel b pfn) as [r b']. cbn [fst snd] in *.
      destruct (IH b' Hb' Hfuel) as [Hrs Hb''].
      destruct (kb_run rd gunzip fuel b' t) as [rs b'']. cbn [fst snd spec_answer] in *.
      split; [now rewrite Hr, Hrs | exact Hb''].
    - destruct (index_max_pfn fuel b Hb Hfuel) as [Hr Hb'].
      destruct (kb_scan_max_pfn rd fuel b) as [r b']. cbn [fst snd] in *.
      destruct (IH b' Hb' Hfuel) as [Hrs Hb''].
      destruct (kb_run rd gunzip fuel b' t) as [rs b'']. cbn [fst snd spec_answer] in *.
      split; [now rewrite Hr, Hrs | exact Hb''].
  Qed.
End OnEncoded.
