(** How elfdump.c arrives at the pointer size and the page size of an ELF
    core dump ([open_common]):

    1. [walk_elf_notes(process_noarch_notes)]: every PT_NOTE segment is parsed
       ([do_notes] in notes.c); a note named "VMCOREINFO" becomes
       linux.vmcoreinfo.raw, whose post hook splits the text into KEY=VALUE
       lines (vmcoreinfo.c); the line PAGESIZE=<decimal> calls
       [set_page_size] ([lines_post_hook]; a value that [strtoul] does not
       consume completely is ignored, a number that is not a power of two is an
       error);
    2. if no architecture is known yet, [mach2arch(e_machine, EI_CLASS)] names
       it; [arch_name_post_hook] (util.c) sets the pointer size from
       [arch_ptr_size] and, if no page size is set, the architecture's
       [default_page_shift] - some architectures have none.

    [strtoul] and the power-of-two test are the models of the attribute
    agent (Attr/AttrBase.v, Attr/Hooks.v); the bounds of the note walk are
    C03's (Parse/NotesModel.v); the attribute tree that the other VMCOREINFO
    lines build is C13/C14's (Attr/Vmcoreinfo.v) and has no influence on the
    geometry for the texts in scope.  Not modelled: "VMCOREINFO_XEN",
    "ERASEINFO" and the architecture-specific notes (no influence on the two
    sizes), the [check_file_extent] test (the model has no end of file). *)
From Coq Require Import NArith List Bool.
From KdV Require Attr.AttrBase Attr.Hooks.
From KdV Require Import Fmt.Codec Fmt.ElfModel.
Import ListNotations.
Local Open Scope N_scope.

(** * util.c / elfdump.c: the architecture tables *)
Inductive arch :=
| AAarch64 | AAlpha | AArm | AIa64 | AMips | APpc | APpc64 | ARiscv32 | ARiscv64
| AS390 | AS390x | AIa32 | AX86_64.

Definition EM_386 : N := 3.
Definition EM_MIPS : N := 8.
Definition EM_PPC : N := 20.
Definition EM_PPC64 : N := 21.
Definition EM_S390 : N := 22.
Definition EM_ARM : N := 40.
Definition EM_FAKE_ALPHA : N := 41.
Definition EM_IA_64 : N := 50.
Definition EM_X86_64 : N := 62.
Definition EM_AARCH64 : N := 183.
Definition EM_RISCV : N := 243.
Definition EM_ALPHA : N := 36902.        (* 0x9026 *)

Definition mach2arch (mach : N) (is64 : bool) : option arch :=
  if mach =? EM_AARCH64 then Some AAarch64
  else if mach =? EM_ARM then Some AArm
  else if (mach =? EM_ALPHA) || (mach =? EM_FAKE_ALPHA) then Some AAlpha
  else if mach =? EM_IA_64 then Some AIa64
  else if mach =? EM_MIPS then Some AMips
  else if mach =? EM_PPC then Some APpc
  else if mach =? EM_PPC64 then Some APpc64
  else if mach =? EM_RISCV then Some (if is64 then ARiscv64 else ARiscv32)
  else if mach =? EM_S390 then Some (if is64 then AS390x else AS390)
  else if mach =? EM_386 then Some AIa32
  else if mach =? EM_X86_64 then Some AX86_64
  else None.

Definition arch_ptr_size (a : arch) : N :=
  match a with
  | AAarch64 | AAlpha | AIa64 | APpc64 | ARiscv64 | AS390x | AX86_64 => 8
  | AArm | AIa32 | AMips | APpc | ARiscv32 | AS390 => 4
  end.

Definition default_page_shift (a : arch) : N :=
  match a with
  | AAarch64 | AIa64 | APpc | APpc64 => 0
  | AAlpha => 13
  | AArm | AMips | ARiscv32 | ARiscv64 | AS390 | AS390x | AIa32 | AX86_64 => 12
  end.

(** * notes.c: [do_notes] *)
Record note := { nt_name : bytes; nt_type : N; nt_desc : bytes }.

Definition roundup4 (x : N) : N := ((x + 3) / 4) * 4.

Fixpoint notes_loop (fuel : nat) (be : bool) (data : bytes) (o size : N) : list note :=
  match fuel with
  | O => []
  | S k =>
      if size <? 12 then [] else
      let namesz := get32 be data o in
      let descsz := get32 be data (o + 4) in
      let type := get32 be data (o + 8) in
      let descoff := 12 + roundup4 namesz in
      if size <? descoff + descsz then [] else
      let size1 := size - descoff in
      let size2 := if roundup4 descsz <=? size1 then size1 - roundup4 descsz else 0 in
      {| nt_name := sub data (o + 12) namesz; nt_type := type; nt_desc := sub data (o + descoff) descsz |}
      :: notes_loop k be data (o + descoff + roundup4 descsz) size2
  end.

Definition do_notes (be : bool) (data : bytes) : list note :=
  notes_loop (S (N.to_nat (len data / 12))) be data 0 (len data).

(** [note_equal(lit, name, namesz)]: the name is the literal, with or without
    its terminating NUL *)
Definition bytes_eqb (a b : bytes) : bool :=
  Nat.eqb (length a) (length b) && forallb (fun p => fst p =? snd p) (combine a b).

Definition note_equal (lit name : bytes) : bool :=
  bytes_eqb name lit || bytes_eqb name (lit ++ [0]).

Definition s_VMCOREINFO : bytes := [86; 77; 67; 79; 82; 69; 73; 78; 70; 79].
Definition s_PAGESIZE : bytes := [80; 65; 71; 69; 83; 73; 90; 69].
Definition NL : N := 10.
Definition EQ : N := 61.

(** * vmcoreinfo.c: the lines of a VMCOREINFO text *)
Fixpoint lines_of (s : bytes) (cur : bytes) : list bytes :=
  match s with
  | [] => match cur with [] => [] | _ => [rev cur] end
  | c :: t => if c =? NL then rev cur :: lines_of t [] else lines_of t (c :: cur)
  end.

Fixpoint split_eq (l : bytes) : bytes * bytes :=
  match l with
  | [] => ([], [])
  | c :: t => if c =? EQ then ([], t) else let '(k, v) := split_eq t in (c :: k, v)
  end.

(** the effect of one line on the page size: [lines_post_hook] *)
Definition line_page_size (line : bytes) (page : option N) : res (option N) :=
  let '(key, value) := split_eq line in
  if bytes_eqb key s_PAGESIZE then
    let '(n, rest) := AttrBase.strtoull 10 value in
    match rest with
    | [] => if Hooks.size_test n then Ok (Some n) else Err ERR_CORRUPT    (* "Invalid page size" *)
    | _ => Ok page                                                       (* invalid format -> ignore *)
    end
  else Ok page.

Fixpoint lines_page_size (lines : list bytes) (page : option N) : res (option N) :=
  match lines with
  | [] => Ok page
  | l :: t =>
      match line_page_size l page with
      | Err e => Err e
      | Ok page' => lines_page_size t page'
      end
  end.

Fixpoint notes_page_size (notes : list note) (page : option N) : res (option N) :=
  match notes with
  | [] => Ok page
  | n :: t =>
      let r := if note_equal s_VMCOREINFO (nt_name n)
               then lines_page_size (lines_of (nt_desc n) []) page
               else Ok page in
      match r with
      | Err e => Err e
      | Ok page' => notes_page_size t page'
      end
  end.

Record elf_geom := { eg_ptr_size : option N; eg_page_size : option N }.

Section Reader.
  Variable rd : N -> N -> N -> bytes.

  (** [walk_elf_notes(ctx, process_noarch_notes)] *)
  Fixpoint walk_notes (be : bool) (segs : list load_segment) (page : option N) : res (option N) :=
    match segs with
    | [] => Ok page
    | s :: t =>
        match notes_page_size (do_notes be (rd 0 (ls_off s) (ls_filesz s))) page with
        | Err e => Err e
        | Ok page' => walk_notes be t page'
        end
    end.

  (** the part of [open_common] that fixes pointer size and page size *)
  Definition elf_geometry (st : elf_state) : res elf_geom :=
    match walk_notes (es_be st) (es_notes st) None with
    | Err e => Err e
    | Ok page =>
        match mach2arch (es_machine st) (es_64 st) with
        | None => Ok {| eg_ptr_size := None; eg_page_size := page |}
        | Some a =>
            Ok {| eg_ptr_size := Some (arch_ptr_size a);
                  eg_page_size :=
                    match page with
                    | Some p => Some p
                    | None => if default_page_shift a =? 0 then None
                              else Some (2 ^ default_page_shift a)
                    end |}
        end
    end.
End Reader.
