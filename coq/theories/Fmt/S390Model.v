(** Reader model of src/kdumpfile/s390dump.c: [s390_probe]/[do_probe] (magic,
    end marker, geometry) and [s390_get_page] (memory is stored flat behind
    the header). *)
From Coq Require Import NArith List Bool.
From KdV Require Import Fmt.Codec.
Import ListNotations.
Local Open Scope N_scope.

Definition S390_HDR_STRUCT_SIZE : N := 4096.   (* sizeof(struct dump_header) *)
Definition S390_MAGIC : N := 12112714267859297277.   (* 0xa8190173618f23fd *)
Definition END_MARKER : bytes := [68; 85; 77; 80; 95; 69; 78; 68].   (* "DUMP_END" *)

Record s3_state := {
  s3_dataoff : N;
  s3_max_pfn : N;
  s3_page_size : N;
  s3_ptr_size : N
}.

Section Reader.
  Variable rd : N -> N -> N -> bytes.

  Definition bytes_eqb (a b : bytes) : bool :=
    Nat.eqb (length a) (length b) && forallb (fun p => fst p =? snd p) (combine a b).
  Definition is_pow2 (x : N) : bool := negb (x =? 0) && (N.land x (x - 1) =? 0).
  Definition KDUMP_NOPROBE : N := 100.

  Definition s3_open (nfiles : nat) : res s3_state :=
    let dh := rd 0 0 S390_HDR_STRUCT_SIZE in
    if negb (get64 true dh 0 =? S390_MAGIC) then Err KDUMP_NOPROBE else
    if Nat.ltb 1 nfiles then Err ERR_NOTIMPL else
    let hdr_size := get32 true dh 12 in
    let pos := hdr_size + get64 true dh 24 in
    let marker := rd 0 pos 16 in
    if negb (bytes_eqb (sub marker 0 8) END_MARKER) || (get64 true marker 8 <? get64 true dh 56)
    then Err ERR_CORRUPT else
    let pgsz := get32 true dh 20 in
    if negb (is_pow2 pgsz) then Err ERR_CORRUPT else
    let arch := get32 true dh 72 in
    if negb ((arch =? 1) || (arch =? 2)) then Err ERR_NOTIMPL else
    Ok {| s3_dataoff := hdr_size; s3_max_pfn := get32 true dh 48; s3_page_size := pgsz;
          s3_ptr_size := if arch =? 1 then 4 else 8 |}.

  (** [s390_get_page] on a page-aligned address *)
  Definition s3_get_page (st : s3_state) (addr : N) : res bytes * s3_state :=
    (if s3_max_pfn st <=? addr / s3_page_size st then Err ERR_NODATA
     else Ok (rd 0 (addr + s3_dataoff st) (s3_page_size st)), st).

  Definition s3_read (st : s3_state) (addr n : N) : N * bytes :=
    fst (read_range s3_get_page (s3_page_size st) st addr n).
End Reader.
