(** C06: the step theorem, its lifting to all legal histories, and the
    corollaries that carry the text of the property. *)
From Coq Require Import NArith List Bool Arith PeanoNat Lia Permutation.
From KdV Require Import Cache.CacheList Cache.CacheSpec Cache.CacheLemmas Cache.CacheInv
  Cache.CacheProofs Cache.CacheGet.
Import ListNotations.

Lemma get_all s k : InvC s -> get_post s k.
Proof.
  intros H.
  destruct (scan s k (prec s) None 0) as [[[e|] zp] nzp] eqn:Hs0;
    [eapply get_hit_prec; eassumption|].
  destruct (scan s k (probe s) None 0) as [[[e|] zq] nzq] eqn:Hs1;
    [eapply get_hit_probe; eassumption|].
  destruct (find_key s k (infl s)) as [e|] eqn:Hfi;
    [eapply get_inflight; eassumption|].
  destruct (le_dec (cap s) ((length (prec s) - nzp) + (length (probe s) - nzq) + length (infl s)))
    as [Hb|Hb]; [eapply get_busy; eassumption|].
  pose proof (scans_intro s k zp nzp zq nzq H Hs0 Hs1 Hfi Hb) as Hsc.
  destruct (find_key s k (gprec s)) as [e|] eqn:Hg0;
    [eapply ghost_hit_prec; eassumption|].
  destruct (find_key s k (gprobe s)) as [e|] eqn:Hg1;
    [eapply ghost_hit_probe; eassumption|].
  eapply get_missed; eassumption.
Qed.

(** One operation: no fault, invariant kept, specification met. *)
Theorem step_sound s o : Inv s -> legal s o ->
  exists s' r ev, step true s o = Ok (s', r, ev) /\ Inv s' /\ step_ok s o r ev s'.
Proof.
  intros H Hl. apply Inv_InvC in H.
  destruct o as [k|e|e|e|]; cbn [step legal] in *.
  - destruct (get_all s k H) as (s' & r & ev & He & Hi & Hs).
    exists s', r, ev. rewrite <- Inv_InvC in Hi. auto.
  - destruct (insert_ok s e H Hl) as (s' & He & Hi & Hs).
    exists s', RDone, []. rewrite <- Inv_InvC in Hi. auto.
  - destruct (discard_ok s e H Hl) as (s' & He & Hi & Hs).
    exists s', RDone, []. rewrite <- Inv_InvC in Hi. auto.
  - destruct (put_ok s e H Hl) as (s' & He & Hi & Hs).
    exists s', RDone, []. rewrite <- Inv_InvC in Hi. auto.
  - destruct (flush_ok s H Hl) as (s' & ev & He & Hi & Hs).
    exists s', RDone, ev. rewrite <- Inv_InvC in Hi. auto.
Qed.

Lemma init_Inv c : 0 < c -> Inv (init c).
Proof. intros Hc. apply Inv_InvC. apply init_inv. exact Hc. Qed.

(** All histories: a trace of (operation, result, evicted, state after) *)
Fixpoint trace (fixed : bool) (s : st) (ops : list op)
  : list (st * op * res (st * ret * list (nat * nat))) :=
  match ops with
  | [] => []
  | o :: t => (s, o, step fixed s o) ::
              match step fixed s o with
              | Ok (s1, _, _) => trace fixed s1 t
              | Fault _ => []
              end
  end.

Theorem history_sound : forall ops s, Inv s -> legal_hist true s ops ->
  (exists s', run true s ops = Ok s' /\ Inv s') /\
  Forall (fun x => match x with
                   | (s0, o, Ok (s1, r, ev)) => Inv s0 /\ legal s0 o /\ Inv s1 /\ step_ok s0 o r ev s1
                   | (_, _, Fault _) => False
                   end) (trace true s ops).
Proof.
  induction ops as [|o ops IH]; intros s H Hl; cbn [run trace legal_hist] in *.
  - split; [exists s; auto|constructor].
  - destruct Hl as [Hlo Hrest].
    destruct (step_sound s o H Hlo) as (s' & r & ev & He & Hi & Hs).
    rewrite He in *. destruct (IH s' Hi Hrest) as [Hrun Htr].
    split; [exact Hrun|]. constructor; [|exact Htr]. auto.
Qed.

(** * Corollaries *)

(** exactly [cap] buffers, pairwise distinct, each owned by exactly one entry;
    the owners are the cached entries, the in-flight entries and the last
    [cap - (nprec+nprobe+ninflight)] unused entries *)
Theorem buffers_conserved s : Inv s ->
  exists em fu, unused s = em ++ fu /\
    let owners := cached s ++ fu in
    NoDup owners /\ length owners = cap s /\
    (forall e, In e owners <-> data s e <> None) /\
    (forall t, t < cap s -> exists e, In e owners /\ data s e = Some t /\
                                      forall e', data s e' = Some t -> e' = e) /\
    (forall e t, data s e = Some t -> t < cap s).
Proof.
  intros H. pose proof (proj1 (Inv_InvC s) H) as HC.
  destruct (I_unused _ H) as (em & fu & Hu & Hl & Hf & He).
  exists em, fu. split; [exact Hu|]. cbn zeta.
  assert (Hown : forall e, In e (cached s ++ fu) <-> data s e <> None).
  { intros e. split.
    - intros Hin. apply in_app_or in Hin. destruct Hin as [Hin|Hin].
      + apply (I_data_cached _ H). exact Hin.
      + apply Hf. exact Hin.
    - intros Hd. apply in_or_app.
      destruct (owner_zone s em fu e HC Hu) as [Hc|Hc].
      + intros y Hy. apply He. apply cnt_in. exact Hy.
      + exact Hd.
      + left. apply cached_in. exact Hc.
      + right. apply cnt_in. exact Hc. }
  split; [|split; [|split; [exact Hown|split]]].
  - (* NoDup: a sub-multiset of all_entries *)
    apply (NoDup_count_occ Nat.eq_dec). intros x.
    fold (cnt (cached s ++ fu) x). rewrite cnt_app, cnt_cached.
    pose proof (C_one _ HC x) as Hone. unfold c6, cC in *. rewrite Hu, cnt_app in Hone. lia.
  - unfold cached. rewrite !app_length. lia.
  - intros t Ht. destruct (I_tok_all _ H t Ht) as [e Hd]. exists e.
    split; [apply Hown; congruence|]. split; [exact Hd|].
    intros e' Hd'. eapply (I_tok_inj _ H); eassumption.
  - exact (I_tok_lt _ H).
Qed.

(** the partition counters add up and the lists are duplicate-free and
    disjoint (the list-level content of "the circular list stays well-formed") *)
Theorem counters_add_up s : Inv s ->
  length (prec s) + length (gprec s) + length (unused s) + length (gprobe s) +
    length (probe s) = length (ring s) /\
  length (ring s) + length (infl s) = 2 * cap s /\
  length (prec s) + length (probe s) + length (infl s) <= cap s /\
  NoDup (ring s ++ infl s) /\
  (forall e, In e (ring s ++ infl s) <-> e < 2 * cap s).
Proof.
  intros H. pose proof (proj1 (Inv_InvC s) H) as HC.
  pose proof (total_length s HC) as Ht.
  destruct (I_unused _ H) as (em & fu & Hu & Hl & _).
  assert (Hcnt : forall x, cnt (ring s ++ infl s) x = c6 s x).
  { intros x. unfold ring, c6. rewrite !cnt_app, !cnt_rev. lia. }
  split; [unfold ring; rewrite !app_length, !rev_length; lia|].
  split; [unfold ring; rewrite !app_length, !rev_length; lia|].
  split; [lia|]. split.
  - apply (NoDup_count_occ Nat.eq_dec). intros x. fold (cnt (ring s ++ infl s) x).
    rewrite Hcnt. destruct (C_one _ HC x); lia.
  - intros e. rewrite cnt_in, Hcnt. destruct (C_one _ HC e); lia.
Qed.

(** a lookup is refused exactly when every buffer is referenced (for a key
    that is neither cached nor in flight); a cached or in-flight key is never
    refused *)
Theorem busy_iff s k : Inv s -> (forall e, In e (cached s) -> key s e <> k) ->
  (do_get true s k = Ok (s, RBusy, []) <-> all_buffers_busy s) /\
  (forall s' ev, do_get true s k = Ok (s', RBusy, ev) -> all_buffers_busy s).
Proof.
  intros H Hnk. pose proof (proj1 (Inv_InvC s) H) as HC.
  assert (Hfwd : forall s' ev, do_get true s k = Ok (s', RBusy, ev) -> all_buffers_busy s).
  { intros s' ev Hg. destruct (get_all s k HC) as (s1 & r & ev1 & He & _ & Hs).
    rewrite Hg in He. inversion He; subst. destruct Hs as (_ & _ & _ & Hgo). cbn in Hgo. tauto. }
  split; [|exact Hfwd]. split; [apply Hfwd|].
  intros Hbusy.
  destruct (I_unused _ H) as (em & fu & Hu & Hl & Hf & He).
  assert (Href : forall x, data s x <> None -> 0 < ref s x).
  { intros x Hd. destruct (data s x) as [t|] eqn:Hdt; [|congruence].
    destruct (Hbusy t (I_tok_lt _ H _ _ Hdt)) as (y & Hy & Hr).
    assert (x = y) by (eapply (I_tok_inj _ H); eassumption). subst. exact Hr. }
  assert (Hfu : fu = []).
  { destruct fu as [|x fu']; [reflexivity|]. exfalso.
    assert (Hr : 0 < ref s x) by (apply Href, Hf; left; reflexivity).
    apply (I_ref_cached _ H) in Hr. apply cached_in in Hr.
    pose proof (C_one _ HC x) as Hone. unfold c6, cC in *.
    rewrite Hu, cnt_app, cnt_cons_eq in Hone. lia. }
  unfold do_get, get_noref.
  destruct (scan s k (prec s) None 0) as [[r0 zp] nzp] eqn:Hs0.
  pose proof (scan_spec _ _ _ _ _ _ _ _ Hs0) as Hsp0.
  destruct r0 as [e|].
  { exfalso. destruct Hsp0 as [Hc Hk]. apply (Hnk e); [|exact Hk].
    apply cached_in. unfold cC. lia. }
  destruct Hsp0 as (_ & _ & Hn0 & Hz0).
  destruct (scan s k (probe s) None 0) as [[r1 zq] nzq] eqn:Hs1.
  pose proof (scan_spec _ _ _ _ _ _ _ _ Hs1) as Hsp1.
  destruct r1 as [e|].
  { exfalso. destruct Hsp1 as [Hc Hk]. apply (Hnk e); [|exact Hk].
    apply cached_in. unfold cC. lia. }
  destruct Hsp1 as (_ & _ & Hn1 & Hz1).
  pose proof (find_key_spec s k (infl s)) as Hfk.
  destruct (find_key s k (infl s)) as [e|].
  { exfalso. destruct Hfk as [Hc Hk]. apply (Hnk e); [|exact Hk].
    apply cached_in. unfold cC. lia. }
  assert (nzp = 0).
  { destruct Hz0 as [(-> & _)|(_ & v & _ & Hv & Hr)]; [reflexivity|]. exfalso.
    assert (0 < ref s v); [|lia]. apply Href, (C_data_cached _ HC). unfold cC. lia. }
  assert (nzq = 0).
  { destruct Hz1 as [(-> & _)|(_ & v & _ & Hv & Hr)]; [reflexivity|]. exfalso.
    assert (0 < ref s v); [|lia]. apply Href, (C_data_cached _ HC). unfold cC. lia. }
  subst. cbn [length] in Hl.
  destruct (Nat.leb_spec (cap s) (length (prec s) - 0 + (length (probe s) - 0) + length (infl s)));
    [reflexivity|lia].
Qed.

(** the ghost [content] changes only when a caller commits a filled buffer
    (to the key of the entry) or is handed a buffer for filling (to "unknown") *)
Definition same_client (s s1 : st) : Prop :=
  content s1 = content s /\ pend s1 = pend s /\ plain s1 = plain s.

Lemma evict_client s cs b s1 v : evict_entry s cs b = Ok (s1, v) -> same_client s s1.
Proof.
  unfold evict_entry. destruct (_ && _).
  - destruct (zprobe cs); [|discriminate]. intros E; inversion E; subst. repeat split.
  - destruct (zprec cs); [|discriminate]. intros E; inversion E; subst. repeat split.
Qed.

Lemma reclaim_client f s cs s1 d ev : reclaim f s cs = Ok (s1, d, ev) -> same_client s s1.
Proof.
  unfold reclaim. destruct (_ <? cap s).
  - destruct (_ && _); [discriminate|]. destruct (nth_error _ _); [|discriminate].
    intros E; inversion E; subst. repeat split.
  - destruct (evict_entry s cs 0) as [[s2 v]|] eqn:Ev; [|discriminate].
    apply evict_client in Ev. intros E; inversion E; subst. exact Ev.
Qed.

Lemma missed_client s k cs s1 e ev : missed s k cs = Ok (s1, e, ev) -> same_client s s1.
Proof.
  unfold missed, take_missed.
  assert (Hgen : forall s0, same_client s s0 ->
    match match data s0 e with
          | Some _ => Ok (s0, [])
          | None => match evict_entry s0 cs 1 with
                    | Ok (s2, v) =>
                        Ok (set_data (upd (upd (data s2) e (data s2 v)) v None) s2,
                            [(v, ref s2 v)])
                    | Fault f => Fault f
                    end
          end with
    | Ok (s3, ev0) =>
        Ok (set_est (upd (est s3) e SProbe)
              (set_key (upd (key s3) e k) (set_infl (infl s3 ++ [e]) s3)), e, ev0)
    | Fault f => Fault f
    end = Ok (s1, e, ev) -> same_client s s1).
  { intros s0 Hs0. destruct (data s0 e).
    - intros E; inversion E; subst. exact Hs0.
    - destruct (evict_entry s0 cs 1) as [[s2 v]|] eqn:Ev; [|discriminate].
      apply evict_client in Ev. intros E; inversion E; subst.
      destruct Hs0 as (A & B & C), Ev as (A' & B' & C'). repeat split; cbn; congruence. }
  destruct (unsnoc (unused s)) as [[r x]|].
  - intros E. assert (x = e).
    { destruct (match data (set_unused r s) x with Some _ => _ | None => _ end) as [[? ?]|];
        inversion E; reflexivity. }
    subst x. eapply Hgen; [|exact E]. repeat split.
  - destruct (unsnoc (gprobe s)) as [[r x]|].
    + intros E. assert (x = e).
      { destruct (match data (set_gprobe r s) x with Some _ => _ | None => _ end) as [[? ?]|];
          inversion E; reflexivity. }
      subst x. eapply Hgen; [|exact E]. repeat split.
    + destruct (unsnoc (gprec s)) as [[r x]|]; [|discriminate].
      intros E. assert (x = e).
      { destruct (match data (set_gprec r s) x with Some _ => _ | None => _ end) as [[? ?]|];
          inversion E; reflexivity. }
      subst x. eapply Hgen; [|exact E]. repeat split.
Qed.

Lemma gom_client f s k cs s1 e ev : ghost_or_missed f s k cs = Ok (s1, e, ev) -> same_client s s1.
Proof.
  unfold ghost_or_missed. destruct (find_key s k (gprec s)).
  - destruct (reclaim f _ cs) as [[[s2 d] ev2]|] eqn:Er; [|discriminate].
    apply reclaim_client in Er. intros E; inversion E; subst.
    destruct Er as (A & B & C). repeat split; cbn; assumption.
  - destruct (find_key s k (gprobe s)).
    + destruct (reclaim f _ cs) as [[[s2 d] ev2]|] eqn:Er; [|discriminate].
      apply reclaim_client in Er. intros E; inversion E; subst.
      destruct Er as (A & B & C). repeat split; cbn; assumption.
    + apply missed_client.
Qed.

Lemma get_noref_client f s k s1 r ev : get_noref f s k = Ok (s1, r, ev) -> same_client s s1.
Proof.
  unfold get_noref.
  destruct (scan s k (prec s) None 0) as [[[e|] zp] nzp].
  { intros E; inversion E; subst. repeat split. }
  destruct (scan s k (probe s) None 0) as [[[e|] zq] nzq].
  { intros E; inversion E; subst. repeat split. }
  destruct (find_key s k (infl s)).
  { intros E; inversion E; subst. repeat split. }
  destruct (_ <=? _).
  { intros E; inversion E; subst. repeat split. }
  destruct (ghost_or_missed f s k _) as [[[s2 e] ev2]|] eqn:Eg; [|discriminate].
  apply gom_client in Eg. intros E; inversion E; subst.
  destruct Eg as (A & B & C). repeat split; cbn; assumption.
Qed.

(** the ghost [content] changes only when a caller commits a filled buffer
    (it then records the key of the entry) or is handed a buffer for filling
    (it then records "unknown") -- for both variants of the model *)
Theorem content_changes f s o s' r ev : step f s o = Ok (s', r, ev) ->
  forall t, content s' t = content s t \/
    (exists e, o = Insert e /\ data s e = Some t /\ content s' t = Some (key s e)) \/
    (exists k e, o = Get k /\ r = REntry e false /\ data s' e = Some t /\ content s' t = None).
Proof.
  destruct o as [k|e|e|e|]; cbn [step]; intros Hs t.
  - unfold do_get in Hs.
    destruct (get_noref f s k) as [[[s1 [e|]] ev1]|] eqn:Eg; try discriminate.
    + apply get_noref_client in Eg. destruct Eg as (A & _ & _).
      destruct (estate_valid _).
      * inversion Hs; subst. left. cbn. rewrite A. reflexivity.
      * simp_st. destruct (data s1 e) as [t1|] eqn:Hd1; [|discriminate].
        inversion Hs; subst. simp_st. rewrite A.
        destruct (Nat.eq_dec t t1) as [->|Hne].
        -- right. right. exists k, e. repeat split; [exact Hd1|apply upd_eq].
        -- left. apply upd_neq. exact Hne.
    + apply get_noref_client in Eg. destruct Eg as (A & _ & _).
      inversion Hs; subst. left. rewrite A. reflexivity.
  - unfold do_insert in Hs. simp_st.
    assert (Hc : content s' t = match data s e with
                                | Some t1 => upd (content s) t1 (Some (key s e)) t
                                | None => content s t
                                end).
    { destruct (data s e) as [t1|]; simp_st;
        (destruct (est s e) eqn:He; cbn [estate_valid] in Hs;
         [inversion Hs; subst; reflexivity| |]);
        (destruct (existsb _ _); [|discriminate]); inversion Hs; subst; reflexivity. }
    destruct (data s e) as [t1|] eqn:Hd; [|left; exact Hc].
    destruct (Nat.eq_dec t t1) as [->|Hne].
    + right. left. exists e. split; [reflexivity|]. split; [exact Hd|]. rewrite Hc. apply upd_eq.
    + left. rewrite Hc. apply upd_neq. exact Hne.
  - left. unfold do_discard in Hs. simp_st. destruct (ref s e); [discriminate|].
    destruct (negb _); [inversion Hs; subst; reflexivity|].
    destruct (estate_valid _); [inversion Hs; subst; reflexivity|].
    destruct (existsb _ _); [inversion Hs; subst; reflexivity|discriminate].
  - left. unfold do_put in Hs. simp_st. destruct (ref s e); [discriminate|].
    inversion Hs; subst; reflexivity.
  - left. unfold do_flush in Hs. inversion Hs; subst. reflexivity.
Qed.

(** * The pinned (unrepaired) reclaim_data *)

(* get 0, get 1, insert 1, put 1, get 2, discard 2, discard 0, get 1 (ghost
   hit: takes the buffer of the last unused entry and leaves it in place),
   get 0 (miss: the last unused entry has no buffer, nothing is evictable) *)
Definition pinned_hist_undef : list op :=
  [Get 0; Get 1; Insert 1; Put 1; Get 2; Discard 2; Discard 0; Get 1; Get 0]%N.

(* ... a ghost hit is handed an entry whose data pointer is NULL *)
Definition pinned_hist_null : list op :=
  [Get 0; Get 1; Insert 1; Put 1; Get 2; Insert 2; Put 2; Get 3; Discard 3; Discard 0;
   Get 1; Get 2]%N.

Lemma pinned_undef :
  legal_hist false (init 2) pinned_hist_undef /\
  run false (init 2) pinned_hist_undef = Fault UnsetZprec.
Proof. split; [vm_compute; tauto|vm_compute; reflexivity]. Qed.

Lemma pinned_null :
  legal_hist false (init 2) pinned_hist_null /\
  run false (init 2) pinned_hist_null = Fault NullBuffer.
Proof. split; [vm_compute; tauto|vm_compute; reflexivity]. Qed.

(* the same histories are harmless for the repaired code *)
Definition runs_ok (r : res st) : Prop := match r with Ok _ => True | Fault _ => False end.

Lemma repaired_on_witnesses :
  runs_ok (run true (init 2) pinned_hist_undef) /\
  runs_ok (run true (init 2) pinned_hist_null).
Proof. split; vm_compute; exact I. Qed.

(** * Derived statements used by Properties_C06 *)

Theorem no_fault c ops : 0 < c -> legal_hist true (init c) ops ->
  forall f, run true (init c) ops <> Fault f.
Proof.
  intros Hc Hl f Hr. destruct (history_sound ops (init c) (init_Inv c Hc) Hl) as [(s' & Hrun & _) _].
  congruence.
Qed.

Theorem no_evict_while_referenced s o s' r ev :
  Inv s -> legal s o -> step true s o = Ok (s', r, ev) ->
  keeps_referenced s s' /\ (forall v n, In (v, n) ev -> n = 0 /\ ref s v = 0).
Proof.
  intros H Hl Hs. destruct (step_sound s o H Hl) as (s1 & r1 & ev1 & He & _ & Hk & Hev & _).
  rewrite Hs in He. inversion He; subst. split; assumption.
Qed.

Theorem hit_returns_inserted s k s' e ev :
  Inv s -> step true s (Get k) = Ok (s', REntry e true, ev) ->
  In e (prec s ++ probe s) /\ key s e = k /\ key s' e = k /\ data s' e = data s e /\
  exists t, data s' e = Some t /\ content s' t = Some k /\ content s t = Some k.
Proof.
  intros H Hs. destruct (step_sound s (Get k) H I) as (s1 & r1 & ev1 & He & _ & _ & _ & _ & Hg).
  rewrite Hs in He. inversion He; subst. exact Hg.
Qed.

Theorem miss_buffer_exclusive s k s' e ev :
  Inv s -> step true s (Get k) = Ok (s', REntry e false, ev) ->
  In e (infl s') /\ key s' e = k /\
  exists t, data s' e = Some t /\ forall x, data s x = Some t -> x = e \/ ref s x = 0.
Proof.
  intros H Hs. destruct (step_sound s (Get k) H I) as (s1 & r1 & ev1 & He & _ & _ & _ & _ & Hg).
  rewrite Hs in He. inversion He; subst. exact Hg.
Qed.

Theorem busy_only_when_full s k s' ev :
  Inv s -> step true s (Get k) = Ok (s', RBusy, ev) ->
  same_cache s s' /\ all_buffers_busy s /\ forall e, In e (cached s) -> key s e <> k.
Proof.
  intros H Hs. destruct (step_sound s (Get k) H I) as (s1 & r1 & ev1 & He & _ & _ & _ & _ & Hg).
  rewrite Hs in He. inversion He; subst. exact Hg.
Qed.
