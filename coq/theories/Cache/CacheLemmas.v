(** Infrastructure for the C06 proofs: occurrence counting on the partition
    lists (every structural fact about the five partitions is turned into
    linear arithmetic over [cnt]), function update, and the specifications of
    the search loops of [CacheList]. *)
From Coq Require Import NArith List Bool Arith PeanoNat Lia Permutation.
From KdV Require Import Cache.CacheList.
Import ListNotations.

Definition cnt (l : list nat) (x : nat) : nat := count_occ Nat.eq_dec l x.

Lemma cnt_nil x : cnt [] x = 0.
Proof. reflexivity. Qed.

Lemma cnt_app l l' x : cnt (l ++ l') x = cnt l x + cnt l' x.
Proof. apply count_occ_app. Qed.

Lemma cnt_cons_eq l x : cnt (x :: l) x = S (cnt l x).
Proof. apply count_occ_cons_eq; reflexivity. Qed.

Lemma cnt_cons_neq l a x : a <> x -> cnt (a :: l) x = cnt l x.
Proof. apply count_occ_cons_neq. Qed.

Lemma cnt_cons l a x : cnt (a :: l) x = (if Nat.eq_dec a x then 1 else 0) + cnt l x.
Proof. unfold cnt; cbn. destruct (Nat.eq_dec a x); reflexivity. Qed.

Lemma cnt_snoc_eq l x : cnt (l ++ [x]) x = S (cnt l x).
Proof. rewrite cnt_app, cnt_cons_eq, cnt_nil. lia. Qed.

Lemma cnt_snoc_neq l a x : a <> x -> cnt (l ++ [a]) x = cnt l x.
Proof. intros. rewrite cnt_app, cnt_cons_neq, cnt_nil by assumption. lia. Qed.

Lemma cnt_rev l x : cnt (rev l) x = cnt l x.
Proof. apply count_occ_rev. Qed.

Lemma cnt_rm_eq l e : cnt (rm e l) e = 0.
Proof.
  unfold cnt, rm. apply count_occ_not_In. apply remove_In.
Qed.

Lemma cnt_rm_neq l e x : x <> e -> cnt (rm e l) x = cnt l x.
Proof.
  intros Hne. unfold cnt, rm. induction l as [|a l IH]; [reflexivity|].
  cbn. destruct (Nat.eq_dec e a) as [->|Hea].
  - destruct (Nat.eq_dec a x); [congruence|exact IH].
  - cbn. destruct (Nat.eq_dec a x); rewrite IH; reflexivity.
Qed.

Lemma cnt_in l x : In x l <-> 0 < cnt l x.
Proof. unfold cnt. rewrite (count_occ_In Nat.eq_dec). lia. Qed.

Lemma cnt_notin l x : ~ In x l <-> cnt l x = 0.
Proof. apply count_occ_not_In. Qed.

Lemma length_rm l e : length (rm e l) + cnt l e = length l.
Proof.
  unfold cnt, rm. induction l as [|a l IH]; [reflexivity|].
  cbn. destruct (Nat.eq_dec e a) as [->|Hea].
  - destruct (Nat.eq_dec a a); [|congruence]. lia.
  - destruct (Nat.eq_dec a e); [congruence|]. cbn. lia.
Qed.

Lemma cnt_le_length l x : cnt l x <= length l.
Proof. apply count_occ_bound. Qed.

Lemma cnt_rm1_eq l e : cnt (rm1 e l) e = cnt l e - 1.
Proof.
  induction l as [|a l IH]; [reflexivity|].
  cbn [rm1]. destruct (Nat.eqb_spec a e) as [->|Hne].
  - rewrite cnt_cons_eq. lia.
  - rewrite !cnt_cons_neq by assumption. exact IH.
Qed.

Lemma cnt_rm1_neq l e x : x <> e -> cnt (rm1 e l) x = cnt l x.
Proof.
  intros Hne. induction l as [|a l IH]; [reflexivity|].
  cbn [rm1]. destruct (Nat.eqb_spec a e) as [->|Hae].
  - rewrite cnt_cons_neq by congruence. reflexivity.
  - rewrite !cnt_cons, IH. reflexivity.
Qed.

Lemma cnt_seq a n x : cnt (seq a n) x = if (a <=? x) && (x <? a + n) then 1 else 0.
Proof.
  revert a. induction n as [|n IH]; intros a; cbn [seq].
  - rewrite cnt_nil. destruct (Nat.leb_spec a x), (Nat.ltb_spec x (a + 0)); cbn; try reflexivity; lia.
  - rewrite cnt_cons, IH.
    destruct (Nat.eq_dec a x), (Nat.leb_spec (S a) x), (Nat.ltb_spec x (S a + n)),
      (Nat.leb_spec a x), (Nat.ltb_spec x (a + S n)); cbn; try reflexivity; lia.
Qed.

Lemma memb_in e l : existsb (Nat.eqb e) l = true <-> In e l.
Proof.
  rewrite existsb_exists. split.
  - intros [x [Hin Heq]]. apply Nat.eqb_eq in Heq. subst. exact Hin.
  - intros Hin. exists e. split; [exact Hin|apply Nat.eqb_refl].
Qed.

(** function update *)
Lemma upd_eq {A} (f : nat -> A) e v : upd f e v e = v.
Proof. unfold upd. rewrite Nat.eqb_refl. reflexivity. Qed.

Lemma upd_neq {A} (f : nat -> A) e v x : x <> e -> upd f e v x = f x.
Proof. intros H. unfold upd. destruct (Nat.eqb_spec x e); [contradiction|reflexivity]. Qed.

(** [unsnoc] *)
Lemma unsnoc_some l r e : unsnoc l = Some (r, e) -> l = r ++ [e].
Proof.
  revert r e. induction l as [|a l IH]; intros r e H; cbn in H; [discriminate|].
  destruct (unsnoc l) as [[r' y]|] eqn:Hu.
  - inversion H; subst. rewrite (IH r' e eq_refl). reflexivity.
  - inversion H; subst. destruct l as [|b l]; [reflexivity|].
    cbn in Hu. destruct (unsnoc l) as [[? ?]|]; discriminate.
Qed.

Lemma unsnoc_none l : unsnoc l = None -> l = [].
Proof.
  destruct l as [|a l]; [reflexivity|]. cbn. destruct (unsnoc l) as [[? ?]|]; discriminate.
Qed.

Lemma unsnoc_snoc l e : unsnoc (l ++ [e]) = Some (l, e).
Proof.
  induction l as [|a l IH]; [reflexivity|]. cbn. rewrite IH. reflexivity.
Qed.

Lemma app_snoc_split (em fu r : list nat) e :
  em ++ fu = r ++ [e] ->
  (fu = [] /\ em = r ++ [e]) \/ (exists fu0, fu = fu0 ++ [e] /\ r = em ++ fu0).
Proof.
  intros H. destruct (unsnoc fu) as [[fu0 y]|] eqn:Hu.
  - apply unsnoc_some in Hu. subst fu. right. exists fu0.
    rewrite app_assoc in H. apply app_inj_tail in H. destruct H; subst. split; reflexivity.
  - apply unsnoc_none in Hu. subst fu. left. rewrite app_nil_r in H. split; [reflexivity|exact H].
Qed.

Lemma nth_error_app_head (em fu : list nat) :
  nth_error (em ++ fu) (length em) = hd_error fu.
Proof.
  induction em as [|a em IH]; cbn; [destruct fu; reflexivity|exact IH].
Qed.

(** the scanning loops *)
Lemma scan_spec s k l : forall z0 n0 r z n,
  scan s k l z0 n0 = (r, z, n) ->
  match r with
  | Some e => 0 < cnt l e /\ key s e = k
  | None =>
      (forall x, 0 < cnt l x -> key s x <> k) /\
      n0 <= n /\ n - n0 <= length l /\
      ((n = n0 /\ z = z0 /\ forall x, 0 < cnt l x -> ref s x <> 0) \/
       (n0 < n /\ exists v, z = Some v /\ 0 < cnt l v /\ ref s v = 0))
  end.
Proof.
  induction l as [|a l IH]; intros z0 n0 r z n H; cbn [scan] in H.
  - inversion H; subst. repeat split; try lia.
    + intros x Hx. rewrite cnt_nil in Hx. lia.
    + left. repeat split; try lia. intros x Hx. rewrite cnt_nil in Hx. lia.
  - destruct (N.eqb_spec (key s a) k) as [Hk|Hk].
    + inversion H; subst. split; [rewrite cnt_cons_eq; lia|reflexivity].
    + assert (Hkeys : forall x, (forall y, 0 < cnt l y -> key s y <> k) ->
                                0 < cnt (a :: l) x -> key s x <> k).
      { intros x Hl Hx. rewrite cnt_cons in Hx.
        destruct (Nat.eq_dec a x); [subst; exact Hk|]. apply Hl. lia. }
      destruct (Nat.eqb_spec (ref s a) 0) as [Hr|Hr];
        specialize (IH _ _ _ _ _ H); destruct r as [e|].
      * destruct IH as [Hc Hke]. split; [rewrite cnt_cons; lia|exact Hke].
      * destruct IH as (Hl & Hle & Hlen & Hz). cbn [length].
        split; [intros x; apply Hkeys; exact Hl|]. split; [lia|]. split; [lia|].
        right. split; [lia|].
        destruct Hz as [(-> & -> & _)|(_ & v & Hzv & Hcv & Hrv)].
        -- exists a. split; [reflexivity|]. split; [rewrite cnt_cons_eq; lia|exact Hr].
        -- exists v. split; [exact Hzv|]. split; [rewrite cnt_cons; lia|exact Hrv].
      * destruct IH as [Hc Hke]. split; [rewrite cnt_cons; lia|exact Hke].
      * destruct IH as (Hl & Hle & Hlen & Hz). cbn [length].
        split; [intros x; apply Hkeys; exact Hl|]. split; [lia|]. split; [lia|].
        destruct Hz as [(-> & -> & Hall)|(Hlt & v & Hzv & Hcv & Hrv)].
        -- left. split; [reflexivity|]. split; [reflexivity|].
           intros x Hx. rewrite cnt_cons in Hx. destruct (Nat.eq_dec a x); [subst; exact Hr|].
           apply Hall. lia.
        -- right. split; [exact Hlt|]. exists v. split; [exact Hzv|].
           split; [rewrite cnt_cons; lia|exact Hrv].
Qed.

Lemma find_key_spec s k l :
  match find_key s k l with
  | Some e => 0 < cnt l e /\ key s e = k
  | None => forall x, 0 < cnt l x -> key s x <> k
  end.
Proof.
  unfold find_key. destruct (find _ l) as [e|] eqn:Hf.
  - apply find_some in Hf. destruct Hf as [Hin Hk]. apply N.eqb_eq in Hk.
    split; [apply cnt_in; exact Hin|exact Hk].
  - intros x Hx. apply cnt_in in Hx. apply (find_none _ _ Hf) in Hx. cbn in Hx.
    apply N.eqb_neq in Hx. exact Hx.
Qed.

Lemma rm_snoc r e : cnt r e = 0 -> rm e (r ++ [e]) = r.
Proof.
  intros Hc. unfold rm. rewrite remove_app. cbn [remove].
  destruct (Nat.eq_dec e e); [|congruence]. rewrite app_nil_r.
  apply notin_remove. apply cnt_notin. exact Hc.
Qed.
