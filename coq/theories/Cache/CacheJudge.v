(** The executable judge of [CacheSpec] cannot raise a false alarm: a state
    that satisfies [Inv] passes every clause of [invb_clauses], and a step
    that satisfies [step_ok] (between states whose entries are in range)
    passes every clause of [step_okb_clauses]. *)
From Coq Require Import NArith List Bool Arith PeanoNat Lia Permutation.
From KdV Require Import Cache.CacheList Cache.CacheSpec Cache.CacheLemmas Cache.CacheInv.
Import ListNotations.

Lemma memb_true e l : memb e l = true <-> In e l.
Proof. apply memb_in. Qed.

Lemma nodupb_true l : NoDup l -> nodupb l = true.
Proof.
  induction 1 as [|x l Hn Hd IH]; [reflexivity|]. cbn [nodupb].
  apply andb_true_intro. split; [|exact IH].
  apply negb_true_iff. destruct (memb x l) eqn:Hm; [|reflexivity].
  apply memb_true in Hm. contradiction.
Qed.

Lemma opt_nat_eqb_true a b : opt_nat_eqb a b = true <-> a = b.
Proof.
  destruct a, b; cbn; try (split; congruence).
  rewrite Nat.eqb_eq. split; congruence.
Qed.

Lemma opt_N_eqb_true a b : opt_N_eqb a b = true <-> a = b.
Proof.
  destruct a, b; cbn; try (split; congruence).
  rewrite N.eqb_eq. split; congruence.
Qed.

Lemma estate_eqb_true a b : estate_eqb a b = true <-> a = b.
Proof. destruct a, b; cbn; split; congruence. Qed.

Lemma is_some_true {A} (a : option A) : is_some a = true <-> a <> None.
Proof. destruct a; cbn; split; congruence. Qed.

Lemma is_none_true {A} (a : option A) : is_none a = true <-> a = None.
Proof. destruct a; cbn; split; congruence. Qed.

Lemma in_eids s e : In e (eids s) <-> e < 2 * cap s.
Proof. unfold eids. rewrite in_seq. lia. Qed.

Lemma list_eqb_refl l : list_eqb l l = true.
Proof.
  unfold list_eqb. rewrite Nat.eqb_refl. cbn [andb].
  induction l as [|a l IH]; [reflexivity|]. cbn. rewrite Nat.eqb_refl. exact IH.
Qed.

Lemma firstn_skipn_app (em fu : list nat) :
  firstn (length em) (em ++ fu) = em /\ skipn (length em) (em ++ fu) = fu.
Proof.
  split.
  - rewrite firstn_app, Nat.sub_diag, firstn_all. cbn. apply app_nil_r.
  - rewrite skipn_app, Nat.sub_diag, skipn_all. reflexivity.
Qed.

Theorem invb_sound s : Inv s -> invb s = true.
Proof.
  intros H. pose proof (proj1 (Inv_InvC s) H) as HC.
  destruct (I_unused _ H) as (em & fu & Hu & Hl & Hf & He).
  assert (Hrange : forall e, In e (all_entries s) -> e < 2 * cap s).
  { intros e Hin. apply (Permutation_in _ (I_perm _ H)) in Hin. apply in_seq in Hin. lia. }
  assert (Hcr : forall e, In e (cached s) -> e < 2 * cap s).
  { intros e Hin. apply Hrange. unfold cached, all_entries in *. rewrite !in_app_iff in *. tauto. }
  unfold invb, invb_clauses. cbn [forallb snd].
  repeat (apply andb_true_intro; split); try reflexivity.
  - apply Nat.ltb_lt. exact (I_cap _ H).
  - apply Nat.eqb_eq. rewrite (Permutation_length (I_perm _ H)), seq_length. reflexivity.
  - apply nodupb_true. apply (Permutation_NoDup (Permutation_sym (I_perm _ H))). apply seq_NoDup.
  - apply forallb_forall. intros e Hin. apply Nat.ltb_lt. apply Hrange. exact Hin.
  - apply Nat.leb_le. lia.
  - apply Nat.leb_le. rewrite Hu, app_length. lia.
  - replace (length (unused s) - (cap s - (length (prec s) + length (probe s) + length (infl s))))
      with (length em) by (rewrite Hu, app_length; lia).
    rewrite Hu. rewrite (proj2 (firstn_skipn_app em fu)).
    apply forallb_forall. intros e Hin. apply is_some_true. apply Hf. exact Hin.
  - replace (length (unused s) - (cap s - (length (prec s) + length (probe s) + length (infl s))))
      with (length em) by (rewrite Hu, app_length; lia).
    rewrite Hu. rewrite (proj1 (firstn_skipn_app em fu)).
    apply forallb_forall. intros e Hin. apply is_none_true. apply He. exact Hin.
  - apply forallb_forall. intros e _. destruct (data s e) as [t|] eqn:Hd; [|reflexivity].
    apply Nat.ltb_lt. eapply (I_tok_lt _ H). exact Hd.
  - apply forallb_forall. intros e _. apply forallb_forall. intros e' _.
    destruct (data s e) as [t|] eqn:Hd; [|reflexivity]. cbn [is_none orb].
    destruct (opt_nat_eqb (Some t) (data s e')) eqn:Hq; [|reflexivity]. cbn [negb orb].
    apply opt_nat_eqb_true in Hq. apply Nat.eqb_eq. eapply (I_tok_inj _ H); [exact Hd|congruence].
  - apply forallb_forall. intros t Hin. apply in_seq in Hin.
    destruct (I_tok_all _ H t) as [e Hd]; [lia|].
    apply existsb_exists. exists e. split; [|apply opt_nat_eqb_true; exact Hd].
    apply in_eids. destruct (Nat.lt_ge_cases e (2 * cap s)) as [Hlt|Hge]; [exact Hlt|].
    rewrite (I_data_out _ H e Hge) in Hd. discriminate.
  - apply forallb_forall. intros e Hin. apply is_some_true. apply (I_data_cached _ H). exact Hin.
  - apply forallb_forall. intros e Hin. apply is_none_true. apply (I_data_ghost _ H). exact Hin.
  - apply forallb_forall. intros e Hin. apply forallb_forall. intros e' Hin'.
    destruct (N.eqb_spec (key s e) (key s e')) as [Hk|Hk]; [|reflexivity]. cbn [negb orb].
    apply Nat.eqb_eq. apply (I_keys _ H); assumption.
  - apply forallb_forall. intros e _. apply Nat.eqb_eq. apply (I_ref _ H).
  - apply forallb_forall. intros e Hin. apply Nat.ltb_lt. apply Hcr. apply (I_ref_cached _ H).
    rewrite (I_ref _ H). apply in_app_or in Hin.
    destruct Hin as [Hin|Hin]; apply (count_occ_In Nat.eq_dec) in Hin; lia.
  - apply forallb_forall. intros e _. destruct (Nat.eqb_spec (ref s e) 0) as [Hr|Hr]; [reflexivity|].
    cbn [orb]. apply memb_true. apply (I_ref_cached _ H). lia.
  - apply forallb_forall. intros e Hin. destruct (I_infl_ref _ H e Hin) as [Hp Hq].
    apply andb_true_intro. split; [apply memb_true; exact Hp|].
    apply negb_true_iff. destruct (memb e (plain s)) eqn:Hm; [|reflexivity].
    apply memb_true in Hm. contradiction.
  - apply forallb_forall. intros e Hin. apply estate_eqb_true. apply (I_est_valid _ H). exact Hin.
  - apply forallb_forall. intros e Hin. apply negb_true_iff.
    destruct (estate_eqb (est s e) Valid) eqn:Hq; [|reflexivity].
    apply estate_eqb_true in Hq. exfalso. apply (I_est_infl _ H e Hin Hq).
  - apply Nat.leb_le. exact (I_dprobe _ H).
  - apply forallb_forall. intros e Hin. destruct (data s e) as [t|] eqn:Hd; [|reflexivity].
    apply opt_N_eqb_true. apply (I_content _ H); assumption.
Qed.

(** every property-level clause is among those the judge uses *)
Lemma spec_inv_clauses_sound s : Inv s -> forallb snd (spec_inv_clauses s) = true.
Proof.
  intros H. pose proof (invb_sound s H) as Hb. unfold invb in Hb. unfold spec_inv_clauses.
  apply forallb_forall. intros p Hin. apply filter_In in Hin. destruct Hin as [Hin _].
  exact (proj1 (forallb_forall _ _) Hb p Hin).
Qed.

Lemma same_cacheb_sound s s' : same_cache s s' -> same_cacheb s s' = true.
Proof.
  intros (A & B & C & D & E & F & G & Hfun). unfold same_cacheb.
  rewrite A, B, C, D, E, F, G, !list_eqb_refl, Nat.eqb_refl. cbn [andb].
  apply forallb_forall. intros e _. destruct (Hfun e) as (K & R & Da & Es).
  rewrite K, R, Da, Es, N.eqb_refl, Nat.eqb_refl. cbn [andb].
  apply andb_true_intro. split; [apply opt_nat_eqb_true|apply estate_eqb_true]; reflexivity.
Qed.

Lemma all_buffers_busyb_sound s : Inv s -> all_buffers_busy s -> all_buffers_busyb s = true.
Proof.
  intros H Hbusy. unfold all_buffers_busyb. apply forallb_forall. intros t Hin. apply in_seq in Hin.
  destruct (Hbusy t) as (e & Hd & Hr); [lia|].
  apply existsb_exists. exists e. split.
  - apply in_eids. destruct (Nat.lt_ge_cases e (2 * cap s)) as [Hlt|Hge]; [exact Hlt|].
    rewrite (I_data_out _ H e Hge) in Hd. discriminate.
  - apply andb_true_intro. split; [apply opt_nat_eqb_true; exact Hd|].
    apply negb_true_iff. apply Nat.eqb_neq. lia.
Qed.

Theorem step_okb_sound s o r ev s' : Inv s -> step_ok s o r ev s' -> step_okb s o r ev s' = true.
Proof.
  intros H (Hkeep & Hev & Hcap & Hop).
  unfold step_okb, step_okb_clauses. rewrite forallb_app. apply andb_true_intro. split.
  - cbn [forallb snd]. repeat (apply andb_true_intro; split); try reflexivity.
    + apply forallb_forall. intros e _.
      destruct (Nat.eqb_spec (ref s e) 0) as [Hr|Hr]; [reflexivity|].
      destruct (Nat.eqb_spec (ref s' e) 0) as [Hr'|Hr']; [reflexivity|]. cbn [orb].
      destruct (Hkeep e) as (Hk & Hd & Hc & Hv); [lia|lia|].
      repeat (apply andb_true_intro; split).
      * apply N.eqb_eq. exact Hk.
      * apply opt_nat_eqb_true. exact Hd.
      * apply memb_true. exact Hc.
      * destruct (estate_eqb (est s e) Valid) eqn:Hq; [|reflexivity]. cbn [negb orb].
        apply estate_eqb_true in Hq. destruct (Hv Hq) as [Hv' Hct].
        apply andb_true_intro. split; [apply estate_eqb_true; exact Hv'|].
        destruct (data s e) as [t|]; [|reflexivity]. apply opt_N_eqb_true. apply Hct. reflexivity.
    + apply forallb_forall. intros [v n] Hin. destruct (Hev v n Hin) as [Hn Hr]. cbn [fst snd].
      apply andb_true_intro. split; apply Nat.eqb_eq; assumption.
    + apply Nat.eqb_eq. exact Hcap.
  - destruct o as [k|e|e|e|]; try (subst r; reflexivity).
    unfold get_ok in Hop. unfold get_okb_clauses. destruct r as [|e [|]|]; cbn [forallb snd].
    + destruct Hop as (Hsame & Hbusy & Hnk).
      rewrite (same_cacheb_sound _ _ Hsame), (all_buffers_busyb_sound _ H Hbusy). cbn [andb].
      rewrite andb_true_r.
      apply forallb_forall. intros e Hin. apply negb_true_iff. apply N.eqb_neq. apply Hnk. exact Hin.
    + destruct Hop as (Hin & Hk & Hk' & Hd & t & Hdt & Hc' & Hc).
      repeat (apply andb_true_intro; split); try reflexivity.
      * apply memb_true. exact Hin.
      * apply N.eqb_eq. exact Hk.
      * apply N.eqb_eq. exact Hk'.
      * apply opt_nat_eqb_true. exact Hd.
      * rewrite Hdt. apply andb_true_intro. split; apply opt_N_eqb_true; assumption.
    + destruct Hop as (Hin & Hk & t & Hdt & Hown).
      repeat (apply andb_true_intro; split); try reflexivity.
      * apply memb_true. exact Hin.
      * apply N.eqb_eq. exact Hk.
      * rewrite Hdt. apply forallb_forall. intros x _.
        destruct (opt_nat_eqb (data s x) (Some t)) eqn:Hq; [|reflexivity]. cbn [negb orb].
        apply opt_nat_eqb_true in Hq. destruct (Hown x Hq) as [->|Hr].
        -- rewrite Nat.eqb_refl. reflexivity.
        -- rewrite Hr. cbn. apply orb_true_r.
    + contradiction.
Qed.

(** Conversely, the judge misses nothing: on a state whose per-entry fields
    are trivial outside the entry array (as every dump is), passing all the
    clauses implies the invariant. *)
Definition scoped (s : st) : Prop :=
  forall e, 2 * cap s <= e -> data s e = None /\ ref s e = 0.

Lemma nodupb_NoDup l : nodupb l = true -> NoDup l.
Proof.
  induction l as [|x l IH]; cbn [nodupb]; intros H; [constructor|].
  apply andb_prop in H. destruct H as [Hm Hn]. constructor; [|apply IH; exact Hn].
  intros Hin. apply memb_true in Hin. rewrite Hin in Hm. discriminate.
Qed.

Theorem invb_complete s : scoped s -> invb s = true -> Inv s.
Proof.
  intros Hsc Hb. unfold invb, invb_clauses in Hb. cbn [forallb snd] in Hb.
  repeat match type of Hb with
         | (_ && _) = true => apply andb_prop in Hb; destruct Hb as [? Hb]
         end.
  repeat match goal with
         | H : (_ && _) = true |- _ => apply andb_prop in H; destruct H
         end.
  clear Hb.
  repeat match goal with
         | H : (_ <? _) = true |- _ => apply Nat.ltb_lt in H
         | H : (_ <=? _) = true |- _ => apply Nat.leb_le in H
         | H : (_ =? _) = true |- _ => apply Nat.eqb_eq in H
         | H : nodupb _ = true |- _ => apply nodupb_NoDup in H
         | H : forallb _ _ = true |- _ => rewrite forallb_forall in H
         end.
  set (busy := length (prec s) + length (probe s) + length (infl s)) in *.
  set (k := length (unused s) - (cap s - busy)) in *.
  assert (Hrange : forall e, In e (all_entries s) -> e < 2 * cap s).
  { intros e Hin. apply Nat.ltb_lt. auto. }
  assert (Hcr : forall e, In e (cached s) -> e < 2 * cap s).
  { intros e Hin. apply Hrange. unfold cached, all_entries in *. rewrite !in_app_iff in *. tauto. }
  constructor.
  - assumption.
  - apply NoDup_Permutation_bis; [assumption|rewrite seq_length; lia|].
    intros e Hin. apply in_seq. specialize (Hrange e Hin). lia.
  - exists (firstn k (unused s)), (skipn k (unused s)).
    split; [symmetry; apply firstn_skipn|]. split; [rewrite skipn_length; subst k; lia|]. split.
    + intros e Hin. apply is_some_true. auto.
    + intros e Hin. apply is_none_true. auto.
  - intros e t Hd. destruct (Nat.lt_ge_cases e (2 * cap s)) as [Hlt|Hge].
    + match goal with
      | H : forall x, In x (eids s) -> match data s x with _ => _ end = true |- _ =>
          specialize (H e (proj2 (in_eids s e) Hlt)); rewrite Hd in H; apply Nat.ltb_lt in H; exact H
      end.
    + rewrite (proj1 (Hsc e Hge)) in Hd. discriminate.
  - intros e e' t Hd Hd'.
    destruct (Nat.lt_ge_cases e (2 * cap s)) as [Hlt|Hge];
      [|rewrite (proj1 (Hsc e Hge)) in Hd; discriminate].
    destruct (Nat.lt_ge_cases e' (2 * cap s)) as [Hlt'|Hge'];
      [|rewrite (proj1 (Hsc e' Hge')) in Hd'; discriminate].
    match goal with
    | H : forall x, In x (eids s) -> forallb _ (eids s) = true |- _ =>
        specialize (H e (proj2 (in_eids s e) Hlt)); rewrite forallb_forall in H;
        specialize (H e' (proj2 (in_eids s e') Hlt'))
    end.
    rewrite Hd, Hd' in *. cbn [is_none orb opt_nat_eqb] in *. rewrite Nat.eqb_refl in *.
    cbn [negb orb] in *. apply Nat.eqb_eq. assumption.
  - intros t Ht.
    match goal with
    | H : forall x, In x (seq 0 (cap s)) -> existsb _ _ = true |- _ =>
        specialize (H t); rewrite in_seq in H; specialize (H (conj (Nat.le_0_l t) Ht));
        apply existsb_exists in H; destruct H as [e [_ He]]
    end.
    exists e. apply opt_nat_eqb_true. exact He.
  - intros e Hin. apply is_some_true. auto.
  - intros e Hin. apply is_none_true. auto.
  - intros e Hge. apply Hsc. exact Hge.
  - intros e e' Hin Hin' Hk.
    match goal with
    | H : forall x, In x (cached s) -> forallb _ (cached s) = true |- _ =>
        specialize (H e Hin); rewrite forallb_forall in H; specialize (H e' Hin')
    end.
    rewrite Hk, N.eqb_refl in *. cbn [negb orb] in *. apply Nat.eqb_eq. assumption.
  - intros e. destruct (Nat.lt_ge_cases e (2 * cap s)) as [Hlt|Hge].
    + apply Nat.eqb_eq. auto using (proj2 (in_eids s e)).
    + rewrite (proj2 (Hsc e Hge)).
      assert (Hni : ~ In e (pend s ++ plain s)).
      { intros Hin.
        match goal with
        | H : forall x, In x (pend s ++ plain s) -> (x <? 2 * cap s) = true |- _ =>
            specialize (H e Hin); apply Nat.ltb_lt in H; lia
        end. }
      assert (count_occ Nat.eq_dec (pend s) e = 0) by (apply count_occ_not_In; intros Hin; apply Hni, in_or_app; tauto).
      assert (count_occ Nat.eq_dec (plain s) e = 0) by (apply count_occ_not_In; intros Hin; apply Hni, in_or_app; tauto).
      lia.
  - intros e Hr. destruct (Nat.lt_ge_cases e (2 * cap s)) as [Hlt|Hge].
    + match goal with
      | H : forall x, In x (eids s) -> (ref s x =? 0) || memb x (cached s) = true |- _ =>
          specialize (H e (proj2 (in_eids s e) Hlt))
      end.
      destruct (Nat.eqb_spec (ref s e) 0); [lia|]. cbn [orb] in *. apply memb_true. assumption.
    + rewrite (proj2 (Hsc e Hge)) in Hr. lia.
  - intros e Hin.
    match goal with
    | H : forall x, In x (infl s) -> memb x (pend s) && negb (memb x (plain s)) = true |- _ =>
        specialize (H e Hin); apply andb_prop in H; destruct H as [Hp Hq]
    end.
    split; [apply memb_true; exact Hp|].
    intros Hin'. apply memb_true in Hin'. rewrite Hin' in Hq. discriminate.
  - intros e Hin. apply estate_eqb_true. auto.
  - intros e Hin Hv.
    match goal with
    | H : forall x, In x (infl s) -> negb (estate_eqb (est s x) Valid) = true |- _ =>
        specialize (H e Hin)
    end.
    rewrite (proj2 (estate_eqb_true _ _) Hv) in *. discriminate.
  - assumption.
  - intros e t Hin Hd.
    match goal with
    | H : forall x, In x (prec s ++ probe s) -> match data s x with _ => _ end = true |- _ =>
        specialize (H e Hin); rewrite Hd in H; apply opt_N_eqb_true in H; exact H
    end.
Qed.

(** ... and the step judge misses nothing either, for states that are trivial
    outside the entry array and a step that leaves the outside alone *)
Definition frame_outside (s s' : st) : Prop :=
  forall e, 2 * cap s <= e ->
    key s' e = key s e /\ ref s' e = ref s e /\ data s' e = data s e /\ est s' e = est s e.

Lemma list_eqb_true a b : list_eqb a b = true -> a = b.
Proof.
  unfold list_eqb. intros H. apply andb_prop in H. destruct H as [Hl Hc]. apply Nat.eqb_eq in Hl.
  revert b Hl Hc. induction a as [|x a IH]; intros [|y b] Hl Hc; cbn in *; try discriminate; [reflexivity|].
  apply andb_prop in Hc. destruct Hc as [Hxy Hc]. apply Nat.eqb_eq in Hxy. subst.
  f_equal. apply IH; [lia|exact Hc].
Qed.

Theorem step_okb_complete s o r ev s' :
  scoped s -> frame_outside s s' -> step_okb s o r ev s' = true -> step_ok s o r ev s'.
Proof.
  intros Hsc Hfr Hb. unfold step_okb, step_okb_clauses in Hb. rewrite forallb_app in Hb.
  apply andb_prop in Hb. destruct Hb as [Hcommon Hop]. cbn [forallb snd] in Hcommon.
  apply andb_prop in Hcommon. destruct Hcommon as [Hkeep Hcommon].
  apply andb_prop in Hcommon. destruct Hcommon as [Hev Hcommon].
  apply andb_prop in Hcommon. destruct Hcommon as [Hcap _].
  apply Nat.eqb_eq in Hcap.
  unfold keeps_referencedb in Hkeep. rewrite forallb_forall in Hkeep. rewrite forallb_forall in Hev.
  split; [|split; [|split; [exact Hcap|]]].
  - intros e Hr Hr'. destruct (Nat.lt_ge_cases e (2 * cap s)) as [Hlt|Hge];
      [|rewrite (proj2 (Hsc e Hge)) in Hr; lia].
    specialize (Hkeep e (proj2 (in_eids s e) Hlt)).
    destruct (Nat.eqb_spec (ref s e) 0); [lia|]. destruct (Nat.eqb_spec (ref s' e) 0); [lia|].
    cbn [orb] in Hkeep.
    apply andb_prop in Hkeep. destruct Hkeep as [Hkeep Hv].
    apply andb_prop in Hkeep. destruct Hkeep as [Hkeep Hc].
    apply andb_prop in Hkeep. destruct Hkeep as [Hk Hd].
    apply N.eqb_eq in Hk. apply opt_nat_eqb_true in Hd. apply memb_true in Hc.
    split; [exact Hk|]. split; [exact Hd|]. split; [exact Hc|].
    intros Hval. rewrite (proj2 (estate_eqb_true _ _) Hval) in Hv. cbn [negb orb] in Hv.
    apply andb_prop in Hv. destruct Hv as [Hv' Hct]. apply estate_eqb_true in Hv'.
    split; [exact Hv'|]. intros t Hdt. rewrite Hdt in Hct. apply opt_N_eqb_true in Hct. exact Hct.
  - intros v n Hin. specialize (Hev (v, n) Hin). cbn [fst snd] in Hev.
    apply andb_prop in Hev. destruct Hev as [A B]. apply Nat.eqb_eq in A. apply Nat.eqb_eq in B.
    split; assumption.
  - destruct o as [k|e|e|e|];
      try (cbn [forallb snd] in Hop; destruct r; try discriminate; reflexivity).
    unfold get_okb_clauses in Hop. unfold get_ok. destruct r as [|e [|]|]; cbn [forallb snd] in Hop.
    + apply andb_prop in Hop. destruct Hop as [Hsame Hop].
      apply andb_prop in Hop. destruct Hop as [Hbusy Hop].
      apply andb_prop in Hop. destruct Hop as [Hnk _].
      split; [|split].
      * unfold same_cacheb in Hsame.
        repeat match type of Hsame with
               | (_ && _) = true => apply andb_prop in Hsame; destruct Hsame as [Hsame ?]
               end.
        repeat match goal with
               | H : list_eqb _ _ = true |- _ => apply list_eqb_true in H
               | H : (_ =? _) = true |- _ => apply Nat.eqb_eq in H
               end.
        unfold same_cache. repeat (split; [assumption|]).
        intros e. destruct (Nat.lt_ge_cases e (2 * cap s)) as [Hlt|Hge]; [|apply Hfr; exact Hge].
        match goal with
        | H : forallb _ (eids s) = true |- _ =>
            rewrite forallb_forall in H; specialize (H e (proj2 (in_eids s e) Hlt));
            apply andb_prop in H; destruct H as [H He4];
            apply andb_prop in H; destruct H as [H He3];
            apply andb_prop in H; destruct H as [He1 He2]
        end.
        apply N.eqb_eq in He1. apply Nat.eqb_eq in He2. apply opt_nat_eqb_true in He3.
        apply estate_eqb_true in He4. repeat split; assumption.
      * unfold all_buffers_busyb in Hbusy. rewrite forallb_forall in Hbusy.
        intros t Ht. specialize (Hbusy t). rewrite in_seq in Hbusy.
        specialize (Hbusy (conj (Nat.le_0_l t) Ht)). apply existsb_exists in Hbusy.
        destruct Hbusy as [e [_ He]]. apply andb_prop in He. destruct He as [Hd Hr].
        apply opt_nat_eqb_true in Hd. apply negb_true_iff, Nat.eqb_neq in Hr.
        exists e. split; [exact Hd|lia].
      * rewrite forallb_forall in Hnk. intros e Hin. specialize (Hnk e Hin).
        apply negb_true_iff, N.eqb_neq in Hnk. exact Hnk.
    + apply andb_prop in Hop. destruct Hop as [Hin Hop].
      apply andb_prop in Hop. destruct Hop as [Hk Hop].
      apply andb_prop in Hop. destruct Hop as [Hd Hop].
      apply andb_prop in Hop. destruct Hop as [Hc _].
      apply memb_true in Hin. apply andb_prop in Hk. destruct Hk as [Hk Hk'].
      apply N.eqb_eq in Hk. apply N.eqb_eq in Hk'. apply opt_nat_eqb_true in Hd.
      split; [exact Hin|]. split; [exact Hk|]. split; [exact Hk'|]. split; [exact Hd|].
      destruct (data s' e) as [t|]; [|discriminate]. exists t. split; [reflexivity|].
      apply andb_prop in Hc. destruct Hc as [C1 C2].
      apply opt_N_eqb_true in C1. apply opt_N_eqb_true in C2. split; assumption.
    + apply andb_prop in Hop. destruct Hop as [Hin Hop].
      apply andb_prop in Hop. destruct Hop as [Hk Hop].
      apply andb_prop in Hop. destruct Hop as [Hd _].
      apply memb_true in Hin. apply N.eqb_eq in Hk.
      split; [exact Hin|]. split; [exact Hk|].
      destruct (data s' e) as [t|]; [|discriminate]. exists t. split; [reflexivity|].
      rewrite forallb_forall in Hd. intros x Hdx.
      destruct (Nat.lt_ge_cases x (2 * cap s)) as [Hlt|Hge];
        [|rewrite (proj1 (Hsc x Hge)) in Hdx; discriminate].
      specialize (Hd x (proj2 (in_eids s x) Hlt)).
      rewrite (proj2 (opt_nat_eqb_true _ _) Hdx) in Hd. cbn [negb orb] in Hd.
      apply orb_prop in Hd. destruct Hd as [Hd|Hd]; apply Nat.eqb_eq in Hd; [left|right]; exact Hd.
    + discriminate.
Qed.
