(** C04 over C06: the list-level model of cache.c (CacheList.v, repaired
    reclaim_data), driven by the read path of read.c [cache_get_page]
    (get; on a miss fill and insert, or discard when the fill fails; use;
    put), is an instance of the abstract page-cache interface of
    Hist/PageCacheAbs.v (relational form), including the single-threaded
    reference discipline.  Hence every read of key [k] returns [fill k] —
    never BUSY — whatever was read before, for every capacity >= 1; and by
    the ring refinement the same holds for the pointer-level model.

    The instance state pairs the cache state with the contents of the data
    buffers ([mem : buffer index -> option D]); the cache never looks at
    them, the caller writes a buffer before cache_insert and reads it on a hit. *)
From Coq Require Import NArith List Bool Arith PeanoNat Lia.
From KdV Require Import Hist.PageCacheAbs Cache.CacheList Cache.CacheSpec Cache.CacheLemmas
  Cache.CacheInv Cache.CacheProofs Cache.CacheMain Cache.CacheRing Cache.RingRefines.
Import ListNotations.

(** * What the operations do to the client side of the model *)
Lemma get_handles f s k s' r ev : step f s (Get k) = Ok (s', r, ev) ->
  match r with
  | REntry e true => plain s' = plain s ++ [e] /\ pend s' = pend s
  | REntry e false => pend s' = pend s ++ [e] /\ plain s' = plain s
  | RBusy => pend s' = pend s /\ plain s' = plain s
  | RDone => False
  end.
Proof.
  cbn [step]. unfold do_get.
  destruct (get_noref f s k) as [[[s1 [e|]] ev1]|] eqn:Eg; try discriminate.
  - apply get_noref_client in Eg. destruct Eg as (_ & B & C).
    destruct (estate_valid _).
    + intros E; inversion E; subst. simp_st. rewrite B, C. split; reflexivity.
    + simp_st. destruct (data s1 e); [|discriminate].
      intros E; inversion E; subst. simp_st. rewrite B, C. split; reflexivity.
  - apply get_noref_client in Eg. destruct Eg as (_ & B & C).
    intros E; inversion E; subst. split; assumption.
Qed.

Lemma insert_effect f s e s' r ev : step f s (Insert e) = Ok (s', r, ev) ->
  pend s' = rm1 e (pend s) /\ plain s' = plain s ++ [e] /\
  forall t, content s' t = match data s e with
                           | Some t1 => upd (content s) t1 (Some (key s e)) t
                           | None => content s t
                           end.
Proof.
  cbn [step]. unfold do_insert. simp_st. intros Hs.
  destruct (data s e) as [t1|]; simp_st;
    (destruct (est s e) eqn:He; cbn [estate_valid] in Hs;
     [inversion Hs; subst; repeat split; reflexivity| |]);
    (destruct (existsb _ _); [|discriminate]); inversion Hs; subst; repeat split; reflexivity.
Qed.

Lemma discard_effect f s e s' r ev : step f s (Discard e) = Ok (s', r, ev) ->
  pend s' = rm1 e (pend s) /\ plain s' = plain s /\ content s' = content s.
Proof.
  cbn [step]. unfold do_discard. simp_st. destruct (ref s e); [discriminate|].
  destruct (negb _); [intros E; inversion E; subst; repeat split; reflexivity|].
  destruct (estate_valid _); [intros E; inversion E; subst; repeat split; reflexivity|].
  destruct (existsb _ _); [intros E; inversion E; subst; repeat split; reflexivity|discriminate].
Qed.

Lemma put_effect f s e s' r ev : step f s (Put e) = Ok (s', r, ev) ->
  pend s' = pend s /\ plain s' = rm1 e (plain s) /\ content s' = content s.
Proof.
  cbn [step]. unfold do_put. simp_st. destruct (ref s e); [discriminate|].
  intros E; inversion E; subst; repeat split; reflexivity.
Qed.

(** * The instance *)
Section C06Instance.

Variable D : Type.

Definition pc : Type := st * (nat -> option D).

Definition pc_get (c : pc) (k : N) : pc * got nat D :=
  match step true (fst c) (Get k) with
  | Ok (s', REntry e true, _) =>
      match data s' e with
      | Some t => match snd c t with
                  | Some d => ((s', snd c), Hit e d)
                  | None => ((s', snd c), Busy)
                  end
      | None => ((s', snd c), Busy)
      end
  | Ok (s', REntry e false, _) => ((s', snd c), Miss e)
  | Ok (s', _, _) => ((s', snd c), Busy)
  | Fault _ => (c, Busy)
  end.

(* the caller writes the buffer, then cache_insert *)
Definition pc_insert (c : pc) (e : nat) (d : D) : pc :=
  match data (fst c) e, step true (fst c) (Insert e) with
  | Some t, Ok (s', _, _) => (s', upd (snd c) t (Some d))
  | _, _ => c
  end.

Definition pc_discard (c : pc) (e : nat) : pc :=
  match step true (fst c) (Discard e) with Ok (s', _, _) => (s', snd c) | Fault _ => c end.

Definition pc_put (c : pc) (e : nat) : pc :=
  match step true (fst c) (Put e) with Ok (s', _, _) => (s', snd c) | Fault _ => c end.

Definition pc_init (cap : nat) : pc := (init cap, fun _ => None).

(* ghosts *)
Definition pc_inv (c : pc) : Prop :=
  Inv (fst c) /\ forall t k, content (fst c) t = Some k -> exists d, snd c t = Some d.
Definition pc_holds (c : pc) (k : N) (d : D) : Prop :=
  exists t, content (fst c) t = Some k /\ snd c t = Some d.
Definition pc_pending (c : pc) (e : nat) (k : N) : Prop :=
  In e (pend (fst c)) /\ key (fst c) e = k /\ data (fst c) e <> None.
Definition pc_held (c : pc) (e : nat) : Prop := In e (plain (fst c)).
Definition pc_idle (c : pc) : Prop := pend (fst c) = [] /\ plain (fst c) = [].
Definition pc_sole (c : pc) (e : nat) : Prop :=
  (pend (fst c) = [e] /\ plain (fst c) = []) \/ (pend (fst c) = [] /\ plain (fst c) = [e]).

Lemma pc_get_ok c k c' g : pc_inv c -> pc_get c k = (c', g) ->
  pc_inv c' /\ forgets pc N D pc_holds c c' /\
  match g with
  | Hit h d => pc_holds c k d /\ pc_held c' h
  | Miss h => pc_pending c' h k
  | Busy => True
  end.
Proof.
  destruct c as [s m]. intros [Hi Hm]. cbn [fst snd] in *. unfold pc_get. cbn [fst snd].
  destruct (step_sound s (Get k) Hi I) as (s' & r & ev & Hs & Hi' & Hok).
  rewrite Hs. pose proof (content_changes _ _ _ _ _ _ Hs) as Hcc.
  pose proof (get_handles _ _ _ _ _ _ Hs) as Hh.
  assert (Hkeep : forall t k', content s' t = Some k' -> content s t = Some k').
  { intros t k' Hc. destruct (Hcc t) as [E|[(e & E & _)|(k0 & e & _ & _ & _ & E)]];
      [rewrite <- E; exact Hc|discriminate|rewrite E in Hc; discriminate]. }
  assert (Hinv' : forall m', m' = m -> pc_inv (s', m')).
  { intros m' ->. split; [exact Hi'|]. cbn [fst snd]. intros t k' Hc. apply (Hm t k'). apply Hkeep. exact Hc. }
  assert (Hforg : forgets pc N D pc_holds (s, m) (s', m)).
  { intros k' d (t & Hc & Hd). exists t. cbn [fst snd] in *. split; [apply Hkeep; exact Hc|exact Hd]. }
  destruct r as [|e [|]|].
  - intros E; inversion E; subst. split; [apply Hinv'; reflexivity|]. split; [exact Hforg|exact I].
  - destruct (hit_returns_inserted s k s' e ev Hi Hs) as (_ & _ & _ & _ & t & Hd & _ & Hc).
    rewrite Hd. destruct (Hm t k Hc) as [d Hmt]. rewrite Hmt.
    intros E; inversion E; subst. split; [apply Hinv'; reflexivity|]. split; [exact Hforg|].
    split; [exists t; split; assumption|]. unfold pc_held. cbn [fst]. rewrite (proj1 Hh).
    apply in_or_app. right. left. reflexivity.
  - destruct (miss_buffer_exclusive s k s' e ev Hi Hs) as (_ & Hk & t & Hd & _).
    intros E; inversion E; subst. split; [apply Hinv'; reflexivity|]. split; [exact Hforg|].
    unfold pc_pending. cbn [fst]. rewrite (proj1 Hh). split; [apply in_or_app; right; left; reflexivity|].
    split; [reflexivity|congruence].
  - intros E; inversion E; subst. split; [apply Hinv'; reflexivity|]. split; [exact Hforg|exact I].
Qed.

Lemma pc_insert_ok c h k d : pc_inv c -> pc_pending c h k ->
  pc_inv (pc_insert c h d) /\ pc_held (pc_insert c h d) h /\
  forall k' d', pc_holds (pc_insert c h d) k' d' -> (k' = k /\ d' = d) \/ pc_holds c k' d'.
Proof.
  destruct c as [s m]. intros [Hi Hm] (Hin & Hk & Hd). cbn [fst snd] in *.
  unfold pc_insert. cbn [fst snd].
  destruct (data s h) as [t|] eqn:Hdt; [|congruence].
  destruct (step_sound s (Insert h) Hi Hin) as (s' & r & ev & Hs & Hi' & _).
  rewrite Hs. destruct (insert_effect _ _ _ _ _ _ Hs) as (Hp & Hpl & Hc). rewrite Hdt in Hc.
  split; [|split].
  - split; [exact Hi'|]. cbn [fst snd]. intros t' k' Hct. rewrite Hc in Hct.
    destruct (Nat.eq_dec t' t) as [->|Hne].
    + rewrite upd_eq. eexists; reflexivity.
    + rewrite upd_neq in Hct by assumption. rewrite upd_neq by assumption. apply (Hm t' k'). exact Hct.
  - unfold pc_held. cbn [fst]. rewrite Hpl. apply in_or_app. right. left. reflexivity.
  - intros k' d' (t' & Hct & Hmt). cbn [fst snd] in *. rewrite Hc in Hct.
    destruct (Nat.eq_dec t' t) as [->|Hne].
    + rewrite upd_eq in Hct. rewrite upd_eq in Hmt. left. split; congruence.
    + rewrite upd_neq in Hct by assumption. rewrite upd_neq in Hmt by assumption. right. exists t'. split; assumption.
Qed.

Lemma pc_discard_ok c h k : pc_inv c -> pc_pending c h k ->
  pc_inv (pc_discard c h) /\ forgets pc N D pc_holds c (pc_discard c h).
Proof.
  destruct c as [s m]. intros [Hi Hm] (Hin & _). cbn [fst snd] in *. unfold pc_discard. cbn [fst snd].
  destruct (step_sound s (Discard h) Hi Hin) as (s' & r & ev & Hs & Hi' & _).
  rewrite Hs. destruct (discard_effect _ _ _ _ _ _ Hs) as (_ & _ & Hc).
  split.
  - split; [exact Hi'|]. cbn [fst snd]. rewrite Hc. exact Hm.
  - intros k' d (t & Hct & Hmt). cbn [fst snd] in *. rewrite Hc in Hct. exists t. split; assumption.
Qed.

Lemma pc_put_ok c h : pc_inv c -> pc_held c h ->
  pc_inv (pc_put c h) /\ forgets pc N D pc_holds c (pc_put c h).
Proof.
  destruct c as [s m]. intros [Hi Hm] Hin. unfold pc_held in Hin. cbn [fst snd] in *.
  unfold pc_put. cbn [fst snd].
  destruct (step_sound s (Put h) Hi Hin) as (s' & r & ev & Hs & Hi' & _).
  rewrite Hs. destruct (put_effect _ _ _ _ _ _ Hs) as (_ & _ & Hc).
  split.
  - split; [exact Hi'|]. cbn [fst snd]. rewrite Hc. exact Hm.
  - intros k' d (t & Hct & Hmt). cbn [fst snd] in *. rewrite Hc in Hct. exists t. split; assumption.
Qed.

(* no reference outstanding: a lookup cannot be refused *)
Lemma pc_get_idle c k c' g : pc_inv c -> pc_idle c -> pc_get c k = (c', g) ->
  match g with
  | Hit h _ => pc_sole c' h
  | Miss h => pc_sole c' h
  | Busy => False
  end.
Proof.
  destruct c as [s m]. intros [Hi Hm] [Hp Hq]. cbn [fst snd] in *. unfold pc_get. cbn [fst snd].
  destruct (step_sound s (Get k) Hi I) as (s' & r & ev & Hs & Hi' & Hok).
  rewrite Hs. pose proof (get_handles _ _ _ _ _ _ Hs) as Hh. rewrite Hp, Hq in Hh.
  destruct r as [|e [|]|].
  - (* refused: impossible, nothing is referenced *)
    exfalso. destruct (busy_only_when_full s k s' ev Hi Hs) as (_ & Hbusy & _).
    destruct (Hbusy 0 (I_cap _ Hi)) as (x & _ & Hr).
    rewrite (I_ref _ Hi), Hp, Hq in Hr. cbn in Hr. lia.
  - destruct (hit_returns_inserted s k s' e ev Hi Hs) as (_ & _ & _ & _ & t & Hd & _ & Hc).
    rewrite Hd. destruct (Hm t k Hc) as [d Hmt]. rewrite Hmt.
    intros E; inversion E; subst. right. cbn [fst]. destruct Hh as [A B]. split; [exact B|exact A].
  - intros E; inversion E; subst. left. cbn [fst]. exact Hh.
  - contradiction.
Qed.

Lemma pc_insert_sole c h k d : pc_inv c -> pc_pending c h k -> pc_sole c h ->
  pc_sole (pc_insert c h d) h.
Proof.
  destruct c as [s m]. intros [Hi Hm] (Hin & _ & Hd) Hso. cbn [fst snd] in *.
  unfold pc_insert. cbn [fst snd].
  destruct (data s h) as [t|] eqn:Hdt; [|congruence].
  destruct (step_sound s (Insert h) Hi Hin) as (s' & r & ev & Hs & _ & _).
  rewrite Hs. destruct (insert_effect _ _ _ _ _ _ Hs) as (Hp & Hpl & _).
  destruct Hso as [[A B]|[A B]]; cbn [fst] in *; [|rewrite A in Hin; contradiction].
  right. cbn [fst]. rewrite Hp, Hpl, A, B. cbn [rm1]. rewrite Nat.eqb_refl. split; reflexivity.
Qed.

Lemma pc_discard_idle c h k : pc_inv c -> pc_pending c h k -> pc_sole c h -> pc_idle (pc_discard c h).
Proof.
  destruct c as [s m]. intros [Hi Hm] (Hin & _) Hso. cbn [fst snd] in *.
  unfold pc_discard. cbn [fst snd].
  destruct (step_sound s (Discard h) Hi Hin) as (s' & r & ev & Hs & _ & _).
  rewrite Hs. destruct (discard_effect _ _ _ _ _ _ Hs) as (Hp & Hpl & _).
  destruct Hso as [[A B]|[A B]]; cbn [fst] in *; [|rewrite A in Hin; contradiction].
  split; cbn [fst]; rewrite ?Hp, ?Hpl, ?A, ?B; [cbn [rm1]; rewrite Nat.eqb_refl|]; reflexivity.
Qed.

Lemma pc_put_idle c h : pc_inv c -> pc_held c h -> pc_sole c h -> pc_idle (pc_put c h).
Proof.
  destruct c as [s m]. intros [Hi Hm] Hin Hso. unfold pc_held in Hin. cbn [fst snd] in *.
  unfold pc_put. cbn [fst snd].
  destruct (step_sound s (Put h) Hi Hin) as (s' & r & ev & Hs & _ & _).
  rewrite Hs. destruct (put_effect _ _ _ _ _ _ Hs) as (Hp & Hpl & _).
  destruct Hso as [[A B]|[A B]]; cbn [fst] in *; [rewrite B in Hin; contradiction|].
  split; cbn [fst]; rewrite ?Hp, ?Hpl, ?A, ?B; [|cbn [rm1]; rewrite Nat.eqb_refl]; reflexivity.
Qed.

Variable fill : N -> option D.

(** the list-level model of cache.c is invisible to a single-threaded reader *)
Theorem pagecache_transparent_C06 : forall cap ks, 0 < cap ->
  Forall2 (fun k r => r = pure_answer N D fill k) ks
    (fst (PageCacheAbs.run pc nat N D pc_get pc_insert pc_discard pc_put fill (pc_init cap) ks)).
Proof.
  intros cap ks Hc.
  assert (H1 : pc_inv (pc_init cap)).
  { split; [apply init_Inv; exact Hc|]. cbn. intros t k E. discriminate. }
  assert (H2 : forall k d, ~ pc_holds (pc_init cap) k d).
  { intros k d (t & E & _). cbn in E. discriminate. }
  assert (H3 : pc_idle (pc_init cap)) by (split; reflexivity).
  exact (pagecache_never_busy pc nat N D (pc_init cap) pc_get pc_insert pc_discard pc_put
           pc_inv pc_holds pc_pending pc_held H1 H2 pc_get_ok pc_insert_ok pc_discard_ok pc_put_ok
           fill pc_idle pc_sole H3 pc_get_idle pc_insert_sole pc_discard_idle pc_put_idle ks).
Qed.

End C06Instance.

(** * The pointer-level model under the same reader *)
Section RingInstance.

Variable D : Type.

Definition rpc : Type := rst * (nat -> option D).

Definition rpc_get (c : rpc) (k : N) : rpc * got nat D :=
  match rstep (fst c) (Get k) with
  | ROk (r', REntry e true, _) =>
      match rdata r' e with
      | Some t => match snd c t with
                  | Some d => ((r', snd c), Hit e d)
                  | None => ((r', snd c), Busy)
                  end
      | None => ((r', snd c), Busy)
      end
  | ROk (r', REntry e false, _) => ((r', snd c), Miss e)
  | ROk (r', _, _) => ((r', snd c), Busy)
  | RFault _ => (c, Busy)
  end.

Definition rpc_insert (c : rpc) (e : nat) (d : D) : rpc :=
  match rdata (fst c) e, rstep (fst c) (Insert e) with
  | Some t, ROk (r', _, _) => (r', upd (snd c) t (Some d))
  | _, _ => c
  end.

Definition rpc_discard (c : rpc) (e : nat) : rpc :=
  match rstep (fst c) (Discard e) with ROk (r', _, _) => (r', snd c) | RFault _ => c end.

Definition rpc_put (c : rpc) (e : nat) : rpc :=
  match rstep (fst c) (Put e) with ROk (r', _, _) => (r', snd c) | RFault _ => c end.

Definition rpc_init (cap : nat) : rpc := (rinit cap, fun _ => None).

(* the ring state represents the list state, same buffer contents *)
Definition Rp (rc : rpc) (c : pc D) : Prop := R (fst rc) (fst c) /\ snd rc = snd c.

Lemma R_data r s : R r s -> rdata r = data s.
Proof. intros [_ Ha]. unfold raux, saux in Ha. injection Ha as _ _ _ _ A _ _ _ _ _ _. exact A. Qed.

Lemma sim_pc_get rc c k : Rp rc c -> Inv (fst c) ->
  exists c' rc' g, pc_get D c k = (c', g) /\ rpc_get rc k = (rc', g) /\ Rp rc' c' /\ Inv (fst c').
Proof.
  destruct rc as [r m'], c as [s m]. intros [HR Hm] Hi. cbn [fst snd] in *. subst m'.
  destruct (ring_refines r s (Get k) HR Hi I) as (s' & r' & x & ev & Hs & Hr & HR' & Hi').
  unfold pc_get, rpc_get. cbn [fst snd]. rewrite Hs, Hr, (R_data _ _ HR').
  destruct x as [|e [|]|].
  - do 3 eexists. split; [reflexivity|]. split; [reflexivity|]. split; [split; [exact HR'|reflexivity]|exact Hi'].
  - destruct (data s' e) as [t|]; [destruct (m t)|];
      (do 3 eexists; split; [reflexivity|]; split; [reflexivity|]; split; [split; [exact HR'|reflexivity]|exact Hi']).
  - do 3 eexists. split; [reflexivity|]. split; [reflexivity|]. split; [split; [exact HR'|reflexivity]|exact Hi'].
  - do 3 eexists. split; [reflexivity|]. split; [reflexivity|]. split; [split; [exact HR'|reflexivity]|exact Hi'].
Qed.

Lemma sim_pc_insert rc c e d : Rp rc c -> Inv (fst c) -> In e (pend (fst c)) ->
  Rp (rpc_insert rc e d) (pc_insert D c e d) /\ Inv (fst (pc_insert D c e d)).
Proof.
  destruct rc as [r m'], c as [s m]. intros [HR Hm] Hi Hin. cbn [fst snd] in *. subst m'.
  destruct (ring_refines r s (Insert e) HR Hi Hin) as (s' & r' & x & ev & Hs & Hr & HR' & Hi').
  unfold pc_insert, rpc_insert. cbn [fst snd]. rewrite Hs, Hr, (R_data _ _ HR).
  destruct (data s e); cbn [fst]; (split; [split; cbn [fst snd]; [assumption|reflexivity]|assumption]).
Qed.

Lemma sim_pc_discard rc c e : Rp rc c -> Inv (fst c) -> In e (pend (fst c)) ->
  Rp (rpc_discard rc e) (pc_discard D c e) /\ Inv (fst (pc_discard D c e)).
Proof.
  destruct rc as [r m'], c as [s m]. intros [HR Hm] Hi Hin. cbn [fst snd] in *. subst m'.
  destruct (ring_refines r s (Discard e) HR Hi Hin) as (s' & r' & x & ev & Hs & Hr & HR' & Hi').
  unfold pc_discard, rpc_discard. cbn [fst snd]. rewrite Hs, Hr. cbn [fst].
  split; [split; cbn [fst snd]; [assumption|reflexivity]|assumption].
Qed.

Lemma sim_pc_put rc c e : Rp rc c -> Inv (fst c) -> In e (plain (fst c)) ->
  Rp (rpc_put rc e) (pc_put D c e) /\ Inv (fst (pc_put D c e)).
Proof.
  destruct rc as [r m'], c as [s m]. intros [HR Hm] Hi Hin. cbn [fst snd] in *. subst m'.
  destruct (ring_refines r s (Put e) HR Hi Hin) as (s' & r' & x & ev & Hs & Hr & HR' & Hi').
  unfold pc_put, rpc_put. cbn [fst snd]. rewrite Hs, Hr. cbn [fst].
  split; [split; cbn [fst snd]; [assumption|reflexivity]|assumption].
Qed.

Variable fill : N -> option D.

Lemma sim_pc_read rc c k : Rp rc c -> pc_inv D c ->
  exists c' rc' res,
    read (pc D) nat N D (pc_get D) (pc_insert D) (pc_discard D) (pc_put D) fill c k = (c', res) /\
    read rpc nat N D rpc_get rpc_insert rpc_discard rpc_put fill rc k = (rc', res) /\
    Rp rc' c' /\ pc_inv D c'.
Proof.
  intros HRp Hinv. unfold read.
  destruct (sim_pc_get rc c k HRp (proj1 Hinv)) as (c1 & rc1 & g & Eg & Erg & HRp1 & Hi1).
  rewrite Eg, Erg. destruct (pc_get_ok D c k c1 g Hinv Eg) as (Hinv1 & _ & Hg).
  destruct g as [h d|h|].
  - destruct Hg as [_ Hh]. destruct (sim_pc_put rc1 c1 h HRp1 Hi1 Hh) as [HRp2 _].
    do 3 eexists. split; [reflexivity|]. split; [reflexivity|]. split; [exact HRp2|].
    apply (pc_put_ok D c1 h Hinv1 Hh).
  - destruct (fill k) as [d|].
    + destruct (sim_pc_insert rc1 c1 h d HRp1 Hi1 (proj1 Hg)) as [HRp2 Hi2].
      destruct (pc_insert_ok D c1 h k d Hinv1 Hg) as (Hinv2 & Hh2 & _).
      destruct (sim_pc_put _ _ h HRp2 Hi2 Hh2) as [HRp3 _].
      do 3 eexists. split; [reflexivity|]. split; [reflexivity|]. split; [exact HRp3|].
      apply (pc_put_ok D _ h Hinv2 Hh2).
    + destruct (sim_pc_discard rc1 c1 h HRp1 Hi1 (proj1 Hg)) as [HRp2 _].
      do 3 eexists. split; [reflexivity|]. split; [reflexivity|]. split; [exact HRp2|].
      apply (pc_discard_ok D c1 h k Hinv1 Hg).
  - do 3 eexists. split; [reflexivity|]. split; [reflexivity|]. split; [exact HRp1|exact Hinv1].
Qed.

Lemma sim_pc_run : forall ks rc c, Rp rc c -> pc_inv D c ->
  fst (PageCacheAbs.run rpc nat N D rpc_get rpc_insert rpc_discard rpc_put fill rc ks) =
  fst (PageCacheAbs.run (pc D) nat N D (pc_get D) (pc_insert D) (pc_discard D) (pc_put D) fill c ks).
Proof.
  induction ks as [|k ks IH]; intros rc c HRp Hinv; [reflexivity|]. cbn [PageCacheAbs.run].
  destruct (sim_pc_read rc c k HRp Hinv) as (c' & rc' & res & E1 & E2 & HRp' & Hinv').
  rewrite E1, E2. specialize (IH rc' c' HRp' Hinv').
  destruct (PageCacheAbs.run rpc nat N D rpc_get rpc_insert rpc_discard rpc_put fill rc' ks).
  destruct (PageCacheAbs.run (pc D) nat N D (pc_get D) (pc_insert D) (pc_discard D) (pc_put D) fill c' ks).
  cbn [fst] in *. rewrite IH. reflexivity.
Qed.

(** ... and so is the pointer-level model *)
Theorem pagecache_transparent_C06_ring : forall cap ks, 0 < cap ->
  Forall2 (fun k r => r = pure_answer N D fill k) ks
    (fst (PageCacheAbs.run rpc nat N D rpc_get rpc_insert rpc_discard rpc_put fill (rpc_init cap) ks)).
Proof.
  intros cap ks Hc.
  rewrite (sim_pc_run ks (rpc_init cap) (pc_init D cap)).
  - apply pagecache_transparent_C06. exact Hc.
  - split; [apply R_init; exact Hc|reflexivity].
  - split; [apply init_Inv; exact Hc|]. cbn. intros t k E. discriminate.
Qed.

End RingInstance.
