(** The invariant of [CacheSpec.Inv] in counting form ([InvC]): every
    membership becomes [0 < cnt l x], so that disjointness of the partitions,
    absence of duplicates and all partition surgery is linear arithmetic.
    [Inv s <-> InvC s]. *)
From Coq Require Import NArith List Bool Arith PeanoNat Lia Permutation.
From KdV Require Import Cache.CacheList Cache.CacheSpec Cache.CacheLemmas.
Import ListNotations.

Definition c6 (s : st) (x : nat) : nat :=
  cnt (prec s) x + cnt (gprec s) x + cnt (unused s) x + cnt (gprobe s) x +
  cnt (probe s) x + cnt (infl s) x.
Definition cC (s : st) (x : nat) : nat := cnt (prec s) x + cnt (probe s) x + cnt (infl s) x.
Definition cV (s : st) (x : nat) : nat := cnt (prec s) x + cnt (probe s) x.
Definition cG (s : st) (x : nat) : nat := cnt (gprec s) x + cnt (gprobe s) x.

Record InvC (s : st) : Prop := mkInvC {
  C_cap : 0 < cap s;
  C_one : forall x, (x < 2 * cap s /\ c6 s x = 1) \/ (2 * cap s <= x /\ c6 s x = 0);
  C_unused : exists em fu, unused s = em ++ fu /\
     length (prec s) + length (probe s) + length (infl s) + length fu = cap s /\
     (forall x, 0 < cnt fu x -> data s x <> None) /\
     (forall x, 0 < cnt em x -> data s x = None);
  C_tok_lt : forall x t, data s x = Some t -> t < cap s;
  C_tok_inj : forall x y t, data s x = Some t -> data s y = Some t -> x = y;
  C_tok_all : forall t, t < cap s -> exists x, data s x = Some t;
  C_data_cached : forall x, 0 < cC s x -> data s x <> None;
  C_data_ghost : forall x, 0 < cG s x -> data s x = None;
  C_data_out : forall x, 2 * cap s <= x -> data s x = None;
  C_keys : forall x y, 0 < cC s x -> 0 < cC s y -> key s x = key s y -> x = y;
  C_ref : forall x, ref s x = cnt (pend s) x + cnt (plain s) x;
  C_ref_cached : forall x, 0 < ref s x -> 0 < cC s x;
  C_infl_ref : forall x, 0 < cnt (infl s) x -> 0 < cnt (pend s) x /\ cnt (plain s) x = 0;
  C_est_valid : forall x, 0 < cV s x -> est s x = Valid;
  C_est_infl : forall x, 0 < cnt (infl s) x -> est s x <> Valid;
  C_dprobe : dprobe s <= cap s;
  C_content : forall x t, 0 < cV s x -> data s x = Some t -> content s t = Some (key s x)
}.

Lemma cnt_all_entries s x : cnt (all_entries s) x = c6 s x.
Proof. unfold all_entries, c6. rewrite !cnt_app. lia. Qed.

Lemma cnt_cached s x : cnt (cached s) x = cC s x.
Proof. unfold cached, cC. rewrite !cnt_app. lia. Qed.

Lemma Inv_InvC s : Inv s <-> InvC s.
Proof.
  split; intros H.
  - destruct H. constructor; try assumption.
    + intros x. rewrite <- cnt_all_entries.
      unfold cnt. rewrite (proj1 (Permutation_count_occ Nat.eq_dec _ _) I_perm x).
      fold (cnt (seq 0 (2 * cap s)) x). rewrite cnt_seq. cbn [Nat.leb andb Nat.add].
      destruct (Nat.ltb_spec x (2 * cap s)); [left|right]; split; (lia || reflexivity).
    + destruct I_unused as (em & fu & Hu & Hl & Hf & He). exists em, fu.
      repeat split; try assumption.
      * intros x Hx. apply Hf. apply cnt_in. exact Hx.
      * intros x Hx. apply He. apply cnt_in. exact Hx.
    + intros x Hx. apply I_data_cached. apply cnt_in. rewrite cnt_cached. exact Hx.
    + intros x Hx. apply I_data_ghost. apply cnt_in. rewrite cnt_app. exact Hx.
    + intros x y Hx Hy. apply I_keys; apply cnt_in; rewrite cnt_cached; assumption.
    + intros x Hx. apply I_ref_cached in Hx. apply cnt_in in Hx. rewrite cnt_cached in Hx. exact Hx.
    + intros x Hx. apply cnt_in in Hx. apply I_infl_ref in Hx. destruct Hx as [Hp Hq].
      split; [apply cnt_in; exact Hp|apply cnt_notin; exact Hq].
    + intros x Hx. apply I_est_valid. apply cnt_in. rewrite cnt_app. exact Hx.
    + intros x Hx. apply I_est_infl. apply cnt_in. exact Hx.
    + intros x t Hx. apply I_content. apply cnt_in. rewrite cnt_app. exact Hx.
  - destruct H. constructor; try assumption.
    + apply (Permutation_count_occ Nat.eq_dec). intros x.
      fold (cnt (all_entries s) x). fold (cnt (seq 0 (2 * cap s)) x).
      rewrite cnt_all_entries, cnt_seq. cbn [Nat.leb andb Nat.add].
      destruct (Nat.ltb_spec x (2 * cap s)); destruct (C_one0 x); lia.
    + destruct C_unused0 as (em & fu & Hu & Hl & Hf & He). exists em, fu.
      repeat split; try assumption.
      * intros x Hx. apply Hf. apply cnt_in. exact Hx.
      * intros x Hx. apply He. apply cnt_in. exact Hx.
    + intros x Hx. apply C_data_cached0. rewrite <- cnt_cached. apply cnt_in. exact Hx.
    + intros x Hx. apply C_data_ghost0. unfold cG. rewrite <- cnt_app. apply cnt_in. exact Hx.
    + intros x y Hx Hy. apply C_keys0; rewrite <- cnt_cached; apply cnt_in; assumption.
    + intros x Hx. apply cnt_in. rewrite cnt_cached. apply C_ref_cached0. exact Hx.
    + intros x Hx. apply cnt_in in Hx. apply C_infl_ref0 in Hx. destruct Hx as [Hp Hq].
      split; [apply cnt_in; exact Hp|apply cnt_notin; exact Hq].
    + intros x Hx. apply C_est_valid0. unfold cV. rewrite <- cnt_app. apply cnt_in. exact Hx.
    + intros x Hx. apply C_est_infl0. apply cnt_in. exact Hx.
    + intros x t Hx. apply C_content0. unfold cV. rewrite <- cnt_app. apply cnt_in. exact Hx.
Qed.

Lemma total_length s : InvC s ->
  length (prec s) + length (gprec s) + length (unused s) + length (gprobe s) +
  length (probe s) + length (infl s) = 2 * cap s.
Proof.
  intros H. apply Inv_InvC in H. pose proof (Permutation_length (I_perm _ H)) as Hl.
  unfold all_entries in Hl. rewrite !app_length, seq_length in Hl. lia.
Qed.
