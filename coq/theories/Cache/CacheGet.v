(** C06: cache_get_entry on a state satisfying the invariant. *)
From Coq Require Import NArith List Bool Arith PeanoNat Lia Permutation.
From KdV Require Import Cache.CacheList Cache.CacheSpec Cache.CacheLemmas Cache.CacheInv
  Cache.CacheProofs.
Import ListNotations.

Definition get_post (s : st) (k : N) : Prop :=
  exists s' r ev, do_get true s k = Ok (s', r, ev) /\ InvC s' /\ step_ok s (Get k) r ev s'.

(* a hit: the entry moves to the MRU end of the precious partition *)
Lemma get_hit_prec s k e zp nzp :
  InvC s -> scan s k (prec s) None 0 = (Some e, zp, nzp) -> get_post s k.
Proof.
  intros H Hs. pose proof (scan_spec _ _ _ _ _ _ _ _ Hs) as [He Hk]. cbn beta iota in He.
  unfold get_post, do_get, get_noref. rewrite Hs. simp_st.
  assert (Hest : est s e = Valid) by (apply (C_est_valid _ H); unfold cV; lia).
  rewrite Hest. cbn [estate_valid].
  pose proof (length_rm (prec s) e) as Hlen.
  destruct (C_unused _ H) as (em & fu & Hu & Hl & Hf & Hem).
  inst H e.
  assert (Hc1 : cnt (prec s) e = 1) by lia.
  destruct (data s e) as [t|] eqn:Hd; [|exfalso; apply H1; [lia|reflexivity]].
  do 3 eexists. split; [reflexivity|]. split.
  - constructor; norm; try (old H).
    + intros x. inst H x. cs x e; crw; fin.
    + exists em, fu. cbn [length]. repeat split; try assumption. lia.
    + intros x Hx. inst H x. cs x e; crw; fin.
    + intros x y Hx Hy Hkk. apply (C_keys _ H); unfold cC; try assumption.
      * cs x e; crw; lia.
      * cs y e; crw; lia.
    + intros x. inst H x. cs x e; crw; fin.
    + intros x Hx. inst H x. cs x e; crw; fin.
    + intros x Hx. inst H x. cs x e; crw; fin.
    + intros x Hx. inst H x. cs x e; crw; fin.
    + intros x t' Hx Hdx. apply (C_content _ H); [|assumption]. unfold cV. cs x e; crw; lia.
  - split; [|split; [|split]]; simp_st; try reflexivity.
    + intros x Hx Hx'. simp_st. split; [reflexivity|]. split; [reflexivity|]. split.
      * apply cached_in. unfold cC. simp_st.
        pose proof (C_ref_cached _ H x Hx). unfold cC in *. cs x e; crw; lia.
      * intros Hv. split; [assumption|reflexivity].
    + intros v n [].
    + split; [apply valid_in; unfold cV; lia|].
      split; [assumption|]. split; [assumption|]. split; [reflexivity|].
      exists t. split; [assumption|].
      assert (content s t = Some k).
      { rewrite <- Hk. apply (C_content _ H); [unfold cV; lia|assumption]. }
      split; assumption.
Qed.

(* a hit in the probed partition: promotion to precious *)
Lemma get_hit_probe s k e zp nzp zq nzq :
  InvC s -> scan s k (prec s) None 0 = (None, zp, nzp) ->
  scan s k (probe s) None 0 = (Some e, zq, nzq) -> get_post s k.
Proof.
  intros H Hs0 Hs. pose proof (scan_spec _ _ _ _ _ _ _ _ Hs) as [He Hk]. cbn beta iota in He.
  unfold get_post, do_get, get_noref. rewrite Hs0, Hs. simp_st.
  assert (Hest : est s e = Valid) by (apply (C_est_valid _ H); unfold cV; lia).
  rewrite Hest. cbn [estate_valid].
  pose proof (length_rm (probe s) e) as Hlen.
  destruct (C_unused _ H) as (em & fu & Hu & Hl & Hf & Hem).
  inst H e.
  assert (Hc1 : cnt (probe s) e = 1) by lia.
  destruct (data s e) as [t|] eqn:Hd; [|exfalso; apply H1; [lia|reflexivity]].
  do 3 eexists. split; [reflexivity|]. split.
  - constructor; norm; try (old H).
    + intros x. inst H x. cs x e; crw; fin.
    + exists em, fu. cbn [length]. repeat split; try assumption. lia.
    + intros x Hx. inst H x. cs x e; crw; fin.
    + intros x y Hx Hy Hkk. apply (C_keys _ H); unfold cC; try assumption.
      * cs x e; crw; lia.
      * cs y e; crw; lia.
    + intros x. inst H x. cs x e; crw; fin.
    + intros x Hx. inst H x. cs x e; crw; fin.
    + intros x Hx. inst H x. cs x e; crw; fin.
    + intros x Hx. inst H x. cs x e; crw; fin.
    + intros x t' Hx Hdx. apply (C_content _ H); [|assumption]. unfold cV. cs x e; crw; lia.
  - split; [|split; [|split]]; simp_st; try reflexivity.
    + intros x Hx Hx'. simp_st. split; [reflexivity|]. split; [reflexivity|]. split.
      * apply cached_in. unfold cC. simp_st.
        pose proof (C_ref_cached _ H x Hx). unfold cC in *. cs x e; crw; lia.
      * intros Hv. split; [assumption|reflexivity].
    + intros v n [].
    + split; [apply valid_in; unfold cV; lia|].
      split; [assumption|]. split; [assumption|]. split; [reflexivity|].
      exists t. split; [assumption|].
      assert (content s t = Some k).
      { rewrite <- Hk. apply (C_content _ H); [unfold cV; lia|assumption]. }
      split; assumption.
Qed.

(* the key is being loaded by somebody else: share the in-flight entry *)
Lemma get_inflight s k e zp nzp zq nzq :
  InvC s -> scan s k (prec s) None 0 = (None, zp, nzp) ->
  scan s k (probe s) None 0 = (None, zq, nzq) ->
  find_key s k (infl s) = Some e -> get_post s k.
Proof.
  intros H Hs0 Hs1 Hf. pose proof (find_key_spec s k (infl s)) as Hfs. rewrite Hf in Hfs.
  destruct Hfs as [He Hk].
  unfold get_post, do_get, get_noref. rewrite Hs0, Hs1, Hf. simp_st. crw. cbn [estate_valid].
  inst H e.
  destruct (data s e) as [t|] eqn:Hd; [|exfalso; apply H1; [lia|reflexivity]].
  do 3 eexists. split; [reflexivity|]. split.
  - constructor; norm; try (old H).
    + intros x. inst H x. cs x e; crw; fin.
    + intros x. inst H x. cs x e; crw; fin.
    + intros x Hx. inst H x. cs x e; crw; fin.
    + intros x Hx. inst H x. cs x e; crw; fin.
    + intros x Hx. inst H x. cs x e; crw; fin.
    + intros x t' Hx Hdx. cs t' t; crw.
      * exfalso. assert (x = e) by (eapply (C_tok_inj _ H); eassumption). subst. lia.
      * apply (C_content _ H); assumption.
  - split; [|split; [|split]]; simp_st; try reflexivity.
    + intros x Hx Hx'. simp_st. split; [reflexivity|]. split; [reflexivity|]. split.
      * apply cached_in. unfold cC. simp_st. apply (C_ref_cached _ H x Hx).
      * intros Hv. split.
        -- cs x e; crw; [|assumption]. exfalso. apply (C_est_infl _ H e); assumption.
        -- intros t' Hdx. cs t' t; crw; [|reflexivity].
           exfalso. assert (x = e) by (eapply (C_tok_inj _ H); eassumption). subst.
           apply (C_est_infl _ H e); assumption.
    + intros v n [].
    + split; [apply cnt_in; assumption|]. split; [assumption|].
      exists t. split; [assumption|]. intros x Hdx. left. eapply (C_tok_inj _ H); eassumption.
Qed.

(* an entry that owns a buffer is cached, in flight, or one of the free
   unused entries *)
Lemma owner_zone s em fu x :
  InvC s -> unused s = em ++ fu -> (forall y, 0 < cnt em y -> data s y = None) ->
  data s x <> None -> 0 < cC s x \/ 0 < cnt fu x.
Proof.
  intros H Hu Hem Hd. inst H x. rewrite Hu, cnt_app in *.
  destruct (Nat.eq_dec (cnt em x) 0) as [Hz|Hz]; [|exfalso; apply Hd, Hem; lia].
  destruct (Nat.le_gt_cases (2 * cap s) x) as [Hge|Hlt];
    [exfalso; apply Hd, (C_data_out _ H); assumption|].
  destruct (Nat.eq_dec (cnt (gprec s) x + cnt (gprobe s) x) 0) as [Hg|Hg];
    [|exfalso; apply Hd, H2; lia].
  lia.
Qed.

(* every buffer referenced or being filled: the lookup is refused *)
Lemma get_busy s k zp nzp zq nzq :
  InvC s -> scan s k (prec s) None 0 = (None, zp, nzp) ->
  scan s k (probe s) None 0 = (None, zq, nzq) ->
  find_key s k (infl s) = None ->
  cap s <= (length (prec s) - nzp) + (length (probe s) - nzq) + length (infl s) ->
  get_post s k.
Proof.
  intros H Hs0 Hs1 Hf Hbusy.
  pose proof (scan_spec _ _ _ _ _ _ _ _ Hs0) as (Hk0 & _ & Hn0 & Hz0).
  pose proof (scan_spec _ _ _ _ _ _ _ _ Hs1) as (Hk1 & _ & Hn1 & Hz1).
  pose proof (find_key_spec s k (infl s)) as Hk2. rewrite Hf in Hk2.
  destruct (C_unused _ H) as (em & fu & Hu & Hl & Hfu & Hem).
  unfold get_post, do_get, get_noref. rewrite Hs0, Hs1, Hf. simp_st.
  destruct (Nat.leb_spec (cap s) (length (prec s) - nzp + (length (probe s) - nzq) + length (infl s)));
    [|lia].
  do 3 eexists. split; [reflexivity|]. split; [exact H|].
  assert (Hfu0 : fu = []) by (destruct fu; [reflexivity|cbn [length] in Hl; lia]).
  assert (Hr0 : forall x, 0 < cnt (prec s) x -> ref s x <> 0).
  { destruct Hz0 as [(_ & _ & Hall)|(Hlt & _)]; [exact Hall|lia]. }
  assert (Hr1 : forall x, 0 < cnt (probe s) x -> ref s x <> 0).
  { destruct Hz1 as [(_ & _ & Hall)|(Hlt & _)]; [exact Hall|lia]. }
  split; [|split; [|split]]; try reflexivity.
  - intros x Hx Hx'. split; [reflexivity|]. split; [reflexivity|]. split.
    + apply cached_in. apply (C_ref_cached _ H x Hx).
    + intros Hv. split; [assumption|reflexivity].
  - intros v n [].
  - split; [|split].
    + repeat split; reflexivity.
    + intros t Ht. destruct (C_tok_all _ H t Ht) as [x Hx]. exists x. split; [assumption|].
      destruct (owner_zone s em fu x H Hu Hem) as [Hc|Hc]; [congruence| |subst fu; rewrite cnt_nil in Hc; lia].
      unfold cC in Hc.
      destruct (Nat.eq_dec (cnt (prec s) x) 0) as [Hp|Hp]; [|specialize (Hr0 x); lia].
      destruct (Nat.eq_dec (cnt (probe s) x) 0) as [Hq|Hq]; [|specialize (Hr1 x); lia].
      pose proof (C_infl_ref _ H x). pose proof (C_ref _ H x). lia.
    + intros x Hx. apply cached_in in Hx. unfold cC in Hx.
      destruct (Nat.eq_dec (cnt (prec s) x) 0) as [Hp|Hp]; [|apply Hk0; lia].
      destruct (Nat.eq_dec (cnt (probe s) x) 0) as [Hq|Hq]; [|apply Hk1; lia].
      apply Hk2. lia.
Qed.

(** * Misses and ghost hits *)

(* what the two scanning loops established when neither found the key *)
Record scans (s : st) (k : N) (zp : option nat) (nzp : nat) (zq : option nat) (nzq : nat) : Prop := {
  S_nokey : forall x, 0 < cC s x -> key s x <> k;
  S_zp : 0 < nzp -> exists v, zp = Some v /\ 0 < cnt (prec s) v /\ ref s v = 0;
  S_zq : 0 < nzq -> exists v, zq = Some v /\ 0 < cnt (probe s) v /\ ref s v = 0;
  S_room : length (prec s) + length (probe s) + length (infl s) < cap s \/ 0 < nzp + nzq
}.

Lemma scans_intro s k zp nzp zq nzq :
  InvC s -> scan s k (prec s) None 0 = (None, zp, nzp) ->
  scan s k (probe s) None 0 = (None, zq, nzq) ->
  find_key s k (infl s) = None ->
  ~ cap s <= (length (prec s) - nzp) + (length (probe s) - nzq) + length (infl s) ->
  scans s k zp nzp zq nzq.
Proof.
  intros H Hs0 Hs1 Hf Hroom.
  pose proof (scan_spec _ _ _ _ _ _ _ _ Hs0) as (Hk0 & _ & Hn0 & Hz0).
  pose proof (scan_spec _ _ _ _ _ _ _ _ Hs1) as (Hk1 & _ & Hn1 & Hz1).
  pose proof (find_key_spec s k (infl s)) as Hk2. rewrite Hf in Hk2.
  destruct (C_unused _ H) as (em & fu & Hu & Hl & Hfu & Hem).
  constructor.
  - intros x Hx. unfold cC in Hx.
    destruct (Nat.eq_dec (cnt (prec s) x) 0) as [Hp|Hp]; [|apply Hk0; lia].
    destruct (Nat.eq_dec (cnt (probe s) x) 0) as [Hq|Hq]; [|apply Hk1; lia].
    apply Hk2. lia.
  - intros Hlt. destruct Hz0 as [(-> & _)|(_ & Hv)]; [lia|exact Hv].
  - intros Hlt. destruct Hz1 as [(-> & _)|(_ & Hv)]; [lia|exact Hv].
  - lia.
Qed.

(* evict_entry succeeds when some cached entry is unreferenced *)
Lemma evict_spec s0 s k zp nzp zq nzq bias :
  scans s0 k zp nzp zq nzq -> prec s = prec s0 -> probe s = probe s0 -> 0 < nzp + nzq ->
  exists v, ref s0 v = 0 /\
    ((0 < cnt (probe s0) v /\
      evict_entry s (mksearch zp nzp zq nzq) bias =
        Ok (set_gprobe (v :: gprobe s) (set_probe (rm v (probe s)) s), v)) \/
     (0 < cnt (prec s0) v /\
      evict_entry s (mksearch zp nzp zq nzq) bias =
        Ok (set_gprec (v :: gprec s) (set_prec (rm v (prec s)) s), v))).
Proof.
  intros [_ Hzp Hzq _] Hp Hq Hnz. unfold evict_entry. cbn [zprec nzprec zprobe nzprobe].
  destruct (negb (nzq =? 0) && ((nzp =? 0) || (dprobe s <? length (probe s) + bias))) eqn:Hc.
  - apply andb_prop in Hc. destruct Hc as [Hc _]. apply negb_true_iff, Nat.eqb_neq in Hc.
    destruct Hzq as (v & -> & Hv & Hr); [lia|]. exists v. split; [exact Hr|]. left.
    split; [exact Hv|reflexivity].
  - assert (0 < nzp).
    { destruct (Nat.eqb_spec nzq 0); [lia|]. cbn [negb andb] in Hc.
      apply orb_false_elim in Hc. destruct Hc as [Hc _]. apply Nat.eqb_neq in Hc. lia. }
    destruct Hzp as (v & -> & Hv & Hr); [lia|]. exists v. split; [exact Hr|]. right.
    split; [exact Hv|reflexivity].
Qed.

(* reclaim_data (repaired): the buffer comes from the first data-bearing
   unused entry, or from an evicted unreferenced entry when none is free *)
Lemma reclaim_spec s k zp nzp zq nzq d em fu :
  InvC s -> scans s k zp nzp zq nzq -> unused s = em ++ fu ->
  length (prec s) + length (probe s) + length (infl s) + length fu = cap s ->
  let s1 := set_dprobe d s in
  let cs := mksearch zp nzp zq nzq in
  (exists x fu', fu = x :: fu' /\
     reclaim true s1 cs = Ok (set_data (upd (data s) x None) s1, data s x, [])) \/
  (fu = [] /\ exists v, ref s v = 0 /\ 0 < cnt (probe s) v /\
     reclaim true s1 cs =
       Ok (set_data (upd (data s) v None)
             (set_gprobe (v :: gprobe s) (set_probe (rm v (probe s)) s1)), data s v,
           [(v, ref s v)])) \/
  (fu = [] /\ exists v, ref s v = 0 /\ 0 < cnt (prec s) v /\
     reclaim true s1 cs =
       Ok (set_data (upd (data s) v None)
             (set_gprec (v :: gprec s) (set_prec (rm v (prec s)) s1)), data s v,
           [(v, ref s v)])).
Proof.
  intros H Hsc Hu Hl s1 cs. unfold reclaim. subst s1. simp_st.
  destruct (Nat.ltb_spec (length (prec s) + length (probe s) + length (infl s)) (cap s)) as [Hlt|Hge].
  - left. destruct fu as [|x fu']; [cbn [length] in Hl; lia|]. exists x, fu'.
    split; [reflexivity|].
    replace (cap s - (length (prec s) + length (probe s) + length (infl s)))
      with (length (x :: fu')) by lia.
    rewrite Hu, app_length.
    destruct (Nat.ltb_spec (length em + length (x :: fu')) (length (x :: fu'))); [lia|].
    cbn [andb]. replace (length em + length (x :: fu') - length (x :: fu')) with (length em) by lia.
    rewrite nth_error_app_head. reflexivity.
  - assert (Hfu : fu = []) by (destruct fu; [reflexivity|cbn [length] in Hl; lia]).
    assert (Hnz : 0 < nzp + nzq) by (destruct (S_room _ _ _ _ _ _ Hsc); lia).
    destruct (evict_spec s (set_dprobe d s) k zp nzp zq nzq 0 Hsc eq_refl eq_refl Hnz)
      as (v & Hr & [[Hv He]|[Hv He]]).
    + right. left. split; [exact Hfu|]. exists v. split; [exact Hr|]. split; [exact Hv|].
      subst cs. rewrite He. reflexivity.
    + right. right. split; [exact Hfu|]. exists v. split; [exact Hr|]. split; [exact Hv|].
      subst cs. rewrite He. reflexivity.
Qed.

(** the per-clause scripts for a state obtained by recycling entry [e] with
    the buffer of entry [v] ([Hnk]: no cached entry has key [k]) *)
Ltac cs2 x e v := cs x e; [|cs x v].

Ltac inv_some :=
  repeat match goal with
         | Hq : Some _ = Some _ |- _ => inversion Hq; subst; clear Hq
         end.

(* two entries own the same buffer in the old state although they differ *)
Ltac inj_contra H :=
  exfalso;
  match goal with
  | Ha : data _ ?a = Some ?tt, Hb : data _ ?b = Some ?tt, Hn : ?a <> ?b |- _ =>
      apply Hn; eapply (C_tok_inj _ H); eassumption
  | Ha : data _ ?a = Some ?tt, Hb : data _ ?b = Some ?tt, Hn : ?b <> ?a |- _ =>
      apply Hn; eapply (C_tok_inj _ H); eassumption
  end.

Ltac t_point H e v :=
  intros x0; intros;
  pose proof (C_one _ H x0); pose proof (C_ref _ H x0); pose proof (C_ref_cached _ H x0);
  pose proof (C_infl_ref _ H x0); unfold c6, cC in *;
  cs2 x0 e v; crw;
  first [ lia | congruence
        | solve [apply (C_data_cached _ H); unfold cC; lia]
        | solve [apply (C_data_ghost _ H); unfold cG; lia]
        | solve [apply (C_data_out _ H); lia]
        | solve [apply (C_est_valid _ H); unfold cV; lia]
        | solve [apply (C_est_infl _ H); lia] ].

Ltac t_keys H e v Hnk :=
  intros x0 y0 Hx0 Hy0 Hk0; cs2 x0 e v; cs2 y0 e v; crw;
  first [ reflexivity | lia
        | solve [exfalso; apply (Hnk y0); [lia|congruence]]
        | solve [exfalso; apply (Hnk x0); [lia|congruence]]
        | solve [apply (C_keys _ H); unfold cC; (lia || assumption)] ].

Ltac t_inj H e v :=
  intros x0 y0 t0 Hx0 Hy0; cs2 x0 e v; cs2 y0 e v; crw; inv_some;
  first [ reflexivity | discriminate | congruence
        | solve [eapply (C_tok_inj _ H); eassumption]
        | solve [inj_contra H] ].

Ltac t_lt H e v :=
  intros x0 t0 Hq0; cs2 x0 e v; crw; inv_some;
  first [ discriminate | solve [eapply (C_tok_lt _ H); eassumption] ].

Ltac t_all H e v :=
  intros t0 Ht0; destruct (C_tok_all _ H t0 Ht0) as [y0 Hy0];
  cs y0 v; [exists e; crw; congruence|];
  cs y0 e; [first [congruence | (exists e; crw; congruence)]|];
  exists y0; crw; assumption.

Ltac t_content H e v :=
  intros x0 t0 Hx0 Hq0; pose proof (C_one _ H x0); unfold c6 in *;
  cs2 x0 e v; crw; try lia;
  match goal with
  | |- upd _ ?tt0 _ t0 = _ =>
      cs t0 tt0; crw;
      [ first [congruence | inj_contra H]
      | apply (C_content _ H); [unfold cV; lia|assumption] ]
  end.

(* dispatch on the shape of the clause; [tu] proves the unused-partition clause *)
Ltac leaf H e v Hnk tu :=
  match goal with
  | |- exists pa1 pa2, _ => tu
  | |- forall pa1 pa2 pa3, _ = Some pa3 -> _ = Some pa3 -> pa1 = pa2 => t_inj H e v
  | |- forall pa3, pa3 < _ -> exists pa1, _ => t_all H e v
  | |- forall pa1 pa2, _ -> _ -> _ = _ -> pa1 = pa2 => t_keys H e v Hnk
  | |- forall pa1 pa3, _ = Some pa3 -> pa3 < _ => t_lt H e v
  | |- forall pa1 pa3, _ -> _ = Some pa3 -> _ = Some _ => t_content H e v
  | |- _ <= _ => lia
  | |- _ => t_point H e v
  end.

(* the per-operation specification for a lookup that hands out the in-flight
   entry [e] with buffer [t] taken from the unreferenced entry [v] *)
Ltac t_step H e v t :=
  split; [|split; [|split]]; simp_st;
  [ intros x0 Hx0 Hx0'; pose proof (C_ref_cached _ H x0 Hx0) as Hc0; unfold cC in Hc0;
    cs2 x0 e v; [lia|lia|];
    simp_st; crw; split; [reflexivity|]; split; [reflexivity|]; split;
    [ apply cached_in; unfold cC; simp_st; crw; lia
    | intros Hv0; split; [assumption|]; intros t0 Hd0; cs t0 t; crw;
      [inj_contra H|reflexivity] ]
  | first [ solve [intros v0 n0 []]
          | intros v0 n0 [Heq0|[]]; inversion Heq0; subst; split; assumption ]
  | reflexivity
  | split; [apply cnt_in; simp_st; crw; lia|]; split; [simp_st; crw; first [assumption|reflexivity]|];
    exists t; split; [simp_st; crw; first [reflexivity|assumption]|];
    intros x0 Hd0; cs x0 e; [left; reflexivity|right; cs x0 v; [assumption|inj_contra H]] ].

(* an entry known to be in some partition: exact position in the count equation *)
Ltac in_range H s e :=
  let Hr := fresh "Hrange" in
  assert (Hr : e < 2 * cap s /\ c6 s e = 1) by (destruct (C_one _ H e); unfold c6 in *; lia);
  unfold c6 in Hr.

Lemma ghost_hit_prec s k zp nzp zq nzq e :
  InvC s -> scans s k zp nzp zq nzq ->
  scan s k (prec s) None 0 = (None, zp, nzp) ->
  scan s k (probe s) None 0 = (None, zq, nzq) ->
  find_key s k (infl s) = None ->
  ~ cap s <= (length (prec s) - nzp) + (length (probe s) - nzq) + length (infl s) ->
  find_key s k (gprec s) = Some e -> get_post s k.
Proof.
  intros H Hsc Hs0 Hs1 Hfi Hroom Hfg.
  pose proof (find_key_spec s k (gprec s)) as Hfs. rewrite Hfg in Hfs. destruct Hfs as [He Hke].
  destruct (C_unused _ H) as (em & fu & Hu & Hl & Hf & Hem).
  unfold get_post, do_get, get_noref. rewrite Hs0, Hs1, Hfi.
  destruct (Nat.leb_spec (cap s) (length (prec s) - nzp + (length (probe s) - nzq) + length (infl s)));
    [contradiction|].
  unfold ghost_or_missed. rewrite Hfg.
  set (d := if (if length (gprec s) <? length (gprobe s)
                then length (gprobe s) / length (gprec s) else 1) <? dprobe s
            then dprobe s - (if length (gprec s) <? length (gprobe s)
                             then length (gprobe s) / length (gprec s) else 1) else 0).
  assert (Hd : d <= cap s).
  { pose proof (C_dprobe _ H). subst d.
    destruct (_ <? dprobe s); lia. }
  clearbody d.
  pose proof (S_nokey _ _ _ _ _ _ Hsc) as Hnk. unfold cC in Hnk.
  in_range H s e.
  assert (Hre : ref s e = 0).
  { destruct (Nat.eq_dec (ref s e) 0); [assumption|].
    pose proof (C_ref_cached _ H e). unfold cC in *. lia. }
  assert (Hpe : cnt (pend s) e = 0 /\ cnt (plain s) e = 0) by (pose proof (C_ref _ H e); lia).
  assert (Hde : data s e = None) by (apply (C_data_ghost _ H); unfold cG; lia).
  destruct (reclaim_spec s k zp nzp zq nzq d em fu H Hsc Hu Hl)
    as [(x & fu' & Hfu & Hrec)|[(Hfu & v & Hr & Hv & Hrec)|(Hfu & v & Hr & Hv & Hrec)]];
    rewrite Hrec; clear Hrec; clear Hs0 Hs1 Hfi Hfg Hroom.
  - (* a free buffer *)
    assert (Hxu : 0 < cnt (unused s) x) by (rewrite Hu, Hfu, cnt_app, cnt_cons_eq; lia).
    assert (Hdx : data s x <> None) by (apply Hf; rewrite Hfu, cnt_cons_eq; lia).
    destruct (data s x) as [t|] eqn:Hdt; [clear Hdx|congruence].
    in_range H s x.
    assert (Hrx : ref s x = 0).
    { destruct (Nat.eq_dec (ref s x) 0); [assumption|].
      pose proof (C_ref_cached _ H x). unfold cC in *. lia. }
    assert (Hne : e <> x) by (intros ->; lia).
    simp_st. crw. cbn [estate_valid].
    do 3 eexists. split; [reflexivity|]. split.
    + constructor; norm; try (old H).
      all: try ((leaf H e x Hnk idtac)).
      exists (em ++ [x]), fu'. split; [rewrite Hu, Hfu, <- app_assoc; reflexivity|].
      split; [rewrite app_length; subst fu; cbn [length] in *; lia|].
      assert (Hcx : cnt em x = 0 /\ cnt fu' x = 0 /\ cnt em e = 0 /\ cnt fu' e = 0).
      { rewrite Hu, Hfu, !cnt_app, !cnt_cons in *. destruct (Nat.eq_dec x x); [|congruence].
        destruct (Nat.eq_dec x e); [congruence|]. lia. }
      split; intros y0 Hy0; cs2 y0 e x; crw; try lia; try reflexivity.
      * apply Hf. subst fu. rewrite cnt_cons_neq by congruence. exact Hy0.
      * apply Hem. lia.
      + t_step H e x t.
        - (* nothing free: an unreferenced probe entry is evicted *)
    in_range H s v.
    assert (Hdv : data s v <> None) by (apply (C_data_cached _ H); unfold cC; lia).
    destruct (data s v) as [t|] eqn:Hdt; [clear Hdv|congruence].
    assert (Hne : e <> v) by (intros ->; lia).
    pose proof (length_rm (probe s) v) as Hlen.
    simp_st. crw. cbn [estate_valid].
    do 3 eexists. split; [reflexivity|]. split.
    + constructor; norm; try (old H).
      all: try ((leaf H e v Hnk idtac)).
      exists em, (@nil nat). split; [rewrite Hu, Hfu; reflexivity|].
      split; [rewrite app_length; subst fu; cbn [length] in *; lia|].
      assert (Hcx : cnt em v = 0 /\ cnt em e = 0).
      { rewrite Hu, Hfu, !cnt_app, !cnt_nil in *. lia. }
      split; intros y0 Hy0; [rewrite cnt_nil in Hy0; lia|].
      cs2 y0 e v; crw; try lia; try reflexivity. apply Hem. lia.
    + t_step H e v t.
  - (* nothing free: an unreferenced prec entry is evicted *)
    in_range H s v.
    assert (Hdv : data s v <> None) by (apply (C_data_cached _ H); unfold cC; lia).
    destruct (data s v) as [t|] eqn:Hdt; [clear Hdv|congruence].
    assert (Hne : e <> v) by (intros ->; lia).
    pose proof (length_rm (prec s) v) as Hlen.
    simp_st. crw. cbn [estate_valid].
    do 3 eexists. split; [reflexivity|]. split.
    + constructor; norm; try (old H).
      all: try ((leaf H e v Hnk idtac)).
      exists em, (@nil nat). split; [rewrite Hu, Hfu; reflexivity|].
      split; [rewrite app_length; subst fu; cbn [length] in *; lia|].
      assert (Hcx : cnt em v = 0 /\ cnt em e = 0).
      { rewrite Hu, Hfu, !cnt_app, !cnt_nil in *. lia. }
      split; intros y0 Hy0; [rewrite cnt_nil in Hy0; lia|].
      cs2 y0 e v; crw; try lia; try reflexivity. apply Hem. lia.
    + t_step H e v t.
Qed.

Lemma ghost_hit_probe s k zp nzp zq nzq e :
  InvC s -> scans s k zp nzp zq nzq ->
  scan s k (prec s) None 0 = (None, zp, nzp) ->
  scan s k (probe s) None 0 = (None, zq, nzq) ->
  find_key s k (infl s) = None ->
  ~ cap s <= (length (prec s) - nzp) + (length (probe s) - nzq) + length (infl s) ->
  find_key s k (gprec s) = None ->
  find_key s k (gprobe s) = Some e -> get_post s k.
Proof.
  intros H Hsc Hs0 Hs1 Hfi Hroom Hfg0 Hfg.
  pose proof (find_key_spec s k (gprobe s)) as Hfs. rewrite Hfg in Hfs. destruct Hfs as [He Hke].
  destruct (C_unused _ H) as (em & fu & Hu & Hl & Hf & Hem).
  unfold get_post, do_get, get_noref. rewrite Hs0, Hs1, Hfi.
  destruct (Nat.leb_spec (cap s) (length (prec s) - nzp + (length (probe s) - nzq) + length (infl s)));
    [contradiction|].
  unfold ghost_or_missed. rewrite Hfg0, Hfg.
  set (d := if dprobe s + (if length (gprobe s) <? length (gprec s)
                           then length (gprec s) / length (gprobe s) else 1) <? cap s
            then dprobe s + (if length (gprobe s) <? length (gprec s)
                             then length (gprec s) / length (gprobe s) else 1) else cap s).
  assert (Hd : d <= cap s).
  { subst d. match goal with |- (if ?c <? ?b then _ else _) <= _ => destruct (Nat.ltb_spec c b) end; lia. }
  clearbody d.
  pose proof (S_nokey _ _ _ _ _ _ Hsc) as Hnk. unfold cC in Hnk.
  in_range H s e.
  assert (Hre : ref s e = 0).
  { destruct (Nat.eq_dec (ref s e) 0); [assumption|].
    pose proof (C_ref_cached _ H e). unfold cC in *. lia. }
  assert (Hpe : cnt (pend s) e = 0 /\ cnt (plain s) e = 0) by (pose proof (C_ref _ H e); lia).
  assert (Hde : data s e = None) by (apply (C_data_ghost _ H); unfold cG; lia).
  destruct (reclaim_spec s k zp nzp zq nzq d em fu H Hsc Hu Hl)
    as [(x & fu' & Hfu & Hrec)|[(Hfu & v & Hr & Hv & Hrec)|(Hfu & v & Hr & Hv & Hrec)]];
    rewrite Hrec; clear Hrec; clear Hs0 Hs1 Hfi Hfg Hfg0 Hroom.
  - (* a free buffer *)
    assert (Hxu : 0 < cnt (unused s) x) by (rewrite Hu, Hfu, cnt_app, cnt_cons_eq; lia).
    assert (Hdx : data s x <> None) by (apply Hf; rewrite Hfu, cnt_cons_eq; lia).
    destruct (data s x) as [t|] eqn:Hdt; [clear Hdx|congruence].
    in_range H s x.
    assert (Hrx : ref s x = 0).
    { destruct (Nat.eq_dec (ref s x) 0); [assumption|].
      pose proof (C_ref_cached _ H x). unfold cC in *. lia. }
    assert (Hne : e <> x) by (intros ->; lia).
    simp_st. crw. cbn [estate_valid].
    do 3 eexists. split; [reflexivity|]. split.
    + constructor; norm; try (old H).
      all: try ((leaf H e x Hnk idtac)).
      exists (em ++ [x]), fu'. split; [rewrite Hu, Hfu, <- app_assoc; reflexivity|].
      split; [rewrite app_length; subst fu; cbn [length] in *; lia|].
      assert (Hcx : cnt em x = 0 /\ cnt fu' x = 0 /\ cnt em e = 0 /\ cnt fu' e = 0).
      { rewrite Hu, Hfu, !cnt_app, !cnt_cons in *. destruct (Nat.eq_dec x x); [|congruence].
        destruct (Nat.eq_dec x e); [congruence|]. lia. }
      split; intros y0 Hy0; cs2 y0 e x; crw; try lia; try reflexivity.
      * apply Hf. subst fu. rewrite cnt_cons_neq by congruence. exact Hy0.
      * apply Hem. lia.
      + t_step H e x t.
        - (* nothing free: an unreferenced probe entry is evicted *)
    in_range H s v.
    assert (Hdv : data s v <> None) by (apply (C_data_cached _ H); unfold cC; lia).
    destruct (data s v) as [t|] eqn:Hdt; [clear Hdv|congruence].
    assert (Hne : e <> v) by (intros ->; lia).
    pose proof (length_rm (probe s) v) as Hlen.
    simp_st. crw. cbn [estate_valid].
    do 3 eexists. split; [reflexivity|]. split.
    + constructor; norm; try (old H).
      all: try ((leaf H e v Hnk idtac)).
      exists em, (@nil nat). split; [rewrite Hu, Hfu; reflexivity|].
      split; [rewrite app_length; subst fu; cbn [length] in *; lia|].
      assert (Hcx : cnt em v = 0 /\ cnt em e = 0).
      { rewrite Hu, Hfu, !cnt_app, !cnt_nil in *. lia. }
      split; intros y0 Hy0; [rewrite cnt_nil in Hy0; lia|].
      cs2 y0 e v; crw; try lia; try reflexivity. apply Hem. lia.
    + t_step H e v t.
  - (* nothing free: an unreferenced prec entry is evicted *)
    in_range H s v.
    assert (Hdv : data s v <> None) by (apply (C_data_cached _ H); unfold cC; lia).
    destruct (data s v) as [t|] eqn:Hdt; [clear Hdv|congruence].
    assert (Hne : e <> v) by (intros ->; lia).
    pose proof (length_rm (prec s) v) as Hlen.
    simp_st. crw. cbn [estate_valid].
    do 3 eexists. split; [reflexivity|]. split.
    + constructor; norm; try (old H).
      all: try ((leaf H e v Hnk idtac)).
      exists em, (@nil nat). split; [rewrite Hu, Hfu; reflexivity|].
      split; [rewrite app_length; subst fu; cbn [length] in *; lia|].
      assert (Hcx : cnt em v = 0 /\ cnt em e = 0).
      { rewrite Hu, Hfu, !cnt_app, !cnt_nil in *. lia. }
      split; intros y0 Hy0; [rewrite cnt_nil in Hy0; lia|].
      cs2 y0 e v; crw; try lia; try reflexivity. apply Hem. lia.
    + t_step H e v t.
Qed.

(** a real miss: an unused entry, else the oldest ghost, is recycled *)
Lemma get_missed s k zp nzp zq nzq :
  InvC s -> scans s k zp nzp zq nzq ->
  scan s k (prec s) None 0 = (None, zp, nzp) ->
  scan s k (probe s) None 0 = (None, zq, nzq) ->
  find_key s k (infl s) = None ->
  ~ cap s <= (length (prec s) - nzp) + (length (probe s) - nzq) + length (infl s) ->
  find_key s k (gprec s) = None ->
  find_key s k (gprobe s) = None -> get_post s k.
Proof.
  intros H Hsc Hs0 Hs1 Hfi Hroom Hfg0 Hfg1.
  destruct (C_unused _ H) as (em & fu & Hu & Hl & Hf & Hem).
  unfold get_post, do_get, get_noref. rewrite Hs0, Hs1, Hfi.
  destruct (Nat.leb_spec (cap s) (length (prec s) - nzp + (length (probe s) - nzq) + length (infl s)));
    [contradiction|].
  unfold ghost_or_missed. rewrite Hfg0, Hfg1. unfold missed, take_missed.
  pose proof (S_nokey _ _ _ _ _ _ Hsc) as Hnk. unfold cC in Hnk.
  assert (Hnz : length fu = 0 -> 0 < nzp + nzq) by (destruct (S_room _ _ _ _ _ _ Hsc); lia).
  clear Hs0 Hs1 Hfi Hfg0 Hfg1 Hroom.
  destruct (unsnoc (unused s)) as [[r e]|] eqn:Hun.
  - (* an unused entry *)
    apply unsnoc_some in Hun.
    assert (Heu : 0 < cnt (unused s) e) by (rewrite Hun, cnt_snoc_eq; lia).
    in_range H s e.
    assert (Hre0 : cnt r e = 0) by (rewrite Hun, cnt_snoc_eq in Hrange; lia).
    assert (Hr : r = rm e (unused s)) by (rewrite Hun, rm_snoc; [reflexivity|assumption]).
    assert (Hre : ref s e = 0).
    { destruct (Nat.eq_dec (ref s e) 0); [assumption|].
      pose proof (C_ref_cached _ H e). unfold cC in *. lia. }
    assert (Hpe : cnt (pend s) e = 0 /\ cnt (plain s) e = 0) by (pose proof (C_ref _ H e); lia).
    destruct (app_snoc_split em fu r e (eq_trans (eq_sym Hu) Hun)) as [[Hfu Hem']|(fu0 & Hfu & Hr')].
    + (* it has no buffer: evict *)
      assert (Hde : data s e = None) by (apply Hem; rewrite Hem', cnt_snoc_eq; lia).
      simp_st. rewrite Hde.
      destruct (evict_spec s (set_unused r s) k zp nzp zq nzq 1 Hsc eq_refl eq_refl)
        as (v & Hrv & [[Hv Hev]|[Hv Hev]]); [apply Hnz; subst fu; reflexivity| |];
        rewrite Hev; clear Hev; subst r.
      * in_range H s v.
        assert (Hdv : data s v <> None) by (apply (C_data_cached _ H); unfold cC; lia).
        destruct (data s v) as [t|] eqn:Hdt; [clear Hdv|congruence].
        assert (Hne : e <> v) by (intros ->; lia).
        pose proof (length_rm (probe s) v) as Hlen.
        simp_st. crw. rewrite ?Hdt. crw. cbn [estate_valid].
        do 3 eexists. split; [reflexivity|]. split.
        -- constructor; norm; try (old H).
           all: try ((leaf H e v Hnk idtac)).
           exists (rm e (unused s)), (@nil nat). split; [rewrite app_nil_r; reflexivity|].
           split; [rewrite app_length; subst fu; cbn [length] in *; lia|].
           split; intros y0 Hy0; [rewrite cnt_nil in Hy0; lia|].
           cs2 y0 e v; crw; try lia; try reflexivity.
           apply Hem. rewrite Hem'. crw. lia.
        -- t_step H e v t.
      * in_range H s v.
        assert (Hdv : data s v <> None) by (apply (C_data_cached _ H); unfold cC; lia).
        destruct (data s v) as [t|] eqn:Hdt; [clear Hdv|congruence].
        assert (Hne : e <> v) by (intros ->; lia).
        pose proof (length_rm (prec s) v) as Hlen.
        simp_st. crw. rewrite ?Hdt. crw. cbn [estate_valid].
        do 3 eexists. split; [reflexivity|]. split.
        -- constructor; norm; try (old H).
           all: try ((leaf H e v Hnk idtac)).
           exists (rm e (unused s)), (@nil nat). split; [rewrite app_nil_r; reflexivity|].
           split; [rewrite app_length; subst fu; cbn [length] in *; lia|].
           split; intros y0 Hy0; [rewrite cnt_nil in Hy0; lia|].
           cs2 y0 e v; crw; try lia; try reflexivity.
           apply Hem. rewrite Hem'. crw. lia.
        -- t_step H e v t.
    + (* it has a buffer *)
      assert (Hdv : data s e <> None) by (apply Hf; rewrite Hfu, cnt_snoc_eq; lia).
      destruct (data s e) as [t|] eqn:Hdt; [clear Hdv|congruence].
      subst r.
      simp_st. rewrite Hdt. simp_st. crw. rewrite ?Hdt. crw. cbn [estate_valid].
      do 3 eexists. split; [reflexivity|]. split.
      * constructor; norm; try (old H).
        all: try ((leaf H e e Hnk idtac)).
        exists em, fu0. split; [exact Hr'|].
        split; [rewrite app_length; subst fu; rewrite app_length in Hl; cbn [length] in *; lia|].
        assert (Hc0 : cnt em e = 0 /\ cnt fu0 e = 0)
          by (pose proof (cnt_rm_eq (unused s) e) as Hz; rewrite Hr', cnt_app in Hz; lia).
        split; intros y0 Hy0; (cs y0 e; [lia|]).
        -- apply Hf. rewrite Hfu, cnt_app. lia.
        -- apply Hem. exact Hy0.
      * t_step H e e t.
  - (* no unused entry: the oldest ghost *)
    apply unsnoc_none in Hun.
    assert (Hef : em = [] /\ fu = []) by (rewrite Hun in Hu; symmetry in Hu; apply app_eq_nil in Hu; exact Hu).
    destruct Hef as [Hem0 Hfu].
    destruct (unsnoc (gprobe s)) as [[r e]|] eqn:Hug.
    + apply unsnoc_some in Hug.
      assert (Heu : 0 < cnt (gprobe s) e) by (rewrite Hug, cnt_snoc_eq; lia).
      in_range H s e.
      assert (Hre0 : cnt r e = 0) by (rewrite Hug, cnt_snoc_eq in Hrange; lia).
      assert (Hr : r = rm e (gprobe s)) by (rewrite Hug, rm_snoc; [reflexivity|assumption]).
      assert (Hre : ref s e = 0).
      { destruct (Nat.eq_dec (ref s e) 0); [assumption|].
        pose proof (C_ref_cached _ H e). unfold cC in *. lia. }
      assert (Hpe : cnt (pend s) e = 0 /\ cnt (plain s) e = 0) by (pose proof (C_ref _ H e); lia).
      assert (Hde : data s e = None) by (apply (C_data_ghost _ H); unfold cG; lia).
      simp_st. rewrite Hde.
      destruct (evict_spec s (set_gprobe r s) k zp nzp zq nzq 1 Hsc eq_refl eq_refl)
        as (v & Hrv & [[Hv Hev]|[Hv Hev]]); [apply Hnz; subst fu; reflexivity| |];
        rewrite Hev; clear Hev; subst r.
      * in_range H s v.
        assert (Hdv : data s v <> None) by (apply (C_data_cached _ H); unfold cC; lia).
        destruct (data s v) as [t|] eqn:Hdt; [clear Hdv|congruence].
        assert (Hne : e <> v) by (intros ->; lia).
        pose proof (length_rm (probe s) v) as Hlen.
        simp_st. crw. rewrite ?Hdt. crw. cbn [estate_valid].
        do 3 eexists. split; [reflexivity|]. split.
        -- constructor; norm; try (old H).
           all: try ((leaf H e v Hnk idtac)).
           exists (@nil nat), (@nil nat). split; [exact Hun|].
           split; [rewrite app_length; subst fu; cbn [length] in *; lia|].
           split; intros y0 Hy0; rewrite cnt_nil in Hy0; lia.
        -- t_step H e v t.
      * in_range H s v.
        assert (Hdv : data s v <> None) by (apply (C_data_cached _ H); unfold cC; lia).
        destruct (data s v) as [t|] eqn:Hdt; [clear Hdv|congruence].
        assert (Hne : e <> v) by (intros ->; lia).
        pose proof (length_rm (prec s) v) as Hlen.
        simp_st. crw. rewrite ?Hdt. crw. cbn [estate_valid].
        do 3 eexists. split; [reflexivity|]. split.
        -- constructor; norm; try (old H).
           all: try ((leaf H e v Hnk idtac)).
           exists (@nil nat), (@nil nat). split; [exact Hun|].
           split; [rewrite app_length; subst fu; cbn [length] in *; lia|].
           split; intros y0 Hy0; rewrite cnt_nil in Hy0; lia.
        -- t_step H e v t.
    + apply unsnoc_none in Hug. rename Hug into Hug0.
      destruct (unsnoc (gprec s)) as [[r e]|] eqn:Hug.
      * apply unsnoc_some in Hug.
        assert (Heu : 0 < cnt (gprec s) e) by (rewrite Hug, cnt_snoc_eq; lia).
        in_range H s e.
        assert (Hre0 : cnt r e = 0) by (rewrite Hug, cnt_snoc_eq in Hrange; lia).
        assert (Hr : r = rm e (gprec s)) by (rewrite Hug, rm_snoc; [reflexivity|assumption]).
        assert (Hre : ref s e = 0).
        { destruct (Nat.eq_dec (ref s e) 0); [assumption|].
          pose proof (C_ref_cached _ H e). unfold cC in *. lia. }
        assert (Hpe : cnt (pend s) e = 0 /\ cnt (plain s) e = 0) by (pose proof (C_ref _ H e); lia).
        assert (Hde : data s e = None) by (apply (C_data_ghost _ H); unfold cG; lia).
        simp_st. rewrite Hde.
        destruct (evict_spec s (set_gprec r s) k zp nzp zq nzq 1 Hsc eq_refl eq_refl)
          as (v & Hrv & [[Hv Hev]|[Hv Hev]]); [apply Hnz; subst fu; reflexivity| |];
          rewrite Hev; clear Hev; subst r.
        -- in_range H s v.
          assert (Hdv : data s v <> None) by (apply (C_data_cached _ H); unfold cC; lia).
          destruct (data s v) as [t|] eqn:Hdt; [clear Hdv|congruence].
          assert (Hne : e <> v) by (intros ->; lia).
          pose proof (length_rm (probe s) v) as Hlen.
          simp_st. crw. rewrite ?Hdt. crw. cbn [estate_valid].
          do 3 eexists. split; [reflexivity|]. split.
          ++ constructor; norm; try (old H).
             all: try ((leaf H e v Hnk idtac)).
             exists (@nil nat), (@nil nat). split; [exact Hun|].
             split; [rewrite app_length; subst fu; cbn [length] in *; lia|].
             split; intros y0 Hy0; rewrite cnt_nil in Hy0; lia.
          ++ t_step H e v t.
        -- in_range H s v.
          assert (Hdv : data s v <> None) by (apply (C_data_cached _ H); unfold cC; lia).
          destruct (data s v) as [t|] eqn:Hdt; [clear Hdv|congruence].
          assert (Hne : e <> v) by (intros ->; lia).
          pose proof (length_rm (prec s) v) as Hlen.
          simp_st. crw. rewrite ?Hdt. crw. cbn [estate_valid].
          do 3 eexists. split; [reflexivity|]. split.
          ++ constructor; norm; try (old H).
             all: try ((leaf H e v Hnk idtac)).
             exists (@nil nat), (@nil nat). split; [exact Hun|].
             split; [rewrite app_length; subst fu; cbn [length] in *; lia|].
             split; intros y0 Hy0; rewrite cnt_nil in Hy0; lia.
          ++ t_step H e v t.
      * (* no entry at all: impossible, the ring holds at least cap entries *)
        exfalso. apply unsnoc_none in Hug. pose proof (total_length s H) as Ht.
        rewrite Hun, Hug0, Hug in Ht. cbn [length] in Ht. pose proof (C_cap _ H). lia.
Qed.
