(** Pointer-level model of src/kdumpfile/cache.c.

    [struct cache] as it is: the [next]/[prev] members of the [2*cap] entries
    as index functions [nx]/[pv], [split], the four partition counters,
    [dprobe], the in-flight head and count, the per-entry fields and the hit
    counters; every helper transcribed statement by statement over them
    ([add_entry_after/before], [remove_entry], [add_inflight],
    [reuse_cached_entry], [evict_probe], [evict_prec], [evict_entry],
    [reclaim_data] with the repaired walk, [get_missed_entry],
    [reuse_ghost_entry], [get_ghost_or_missed_entry], [get_inflight_entry],
    [cache_get_entry_noref], [cache_get_entry], [cache_insert],
    [cache_put_entry], [cache_discard], [cache_flush], [cache_alloc]).
    Loops [while (n--) idx = ce[idx].next] are recursion on [n].

    [struct cache_search]: [zprec]/[zprobe] are [option]s (used unset =
    [Fault]); the positional members are plain indices: every path assigns
    them before it reads them.  Decrementing a counter that is 0 (C: wraps to
    UINT_MAX) is [Fault CounterUnderflow], decrementing a zero reference
    count [Fault RefUnderflow].

    The client (handles [rpend]/[rplain], ghost [rcontent]) is the one of
    [CacheList].  [rwalk]/[iwalk] read the two circular lists the way the
    correspondence driver does (follow [next] from [ce[split].next] /
    from [inflight]); [RingRefines.v] proves that this model refines the
    list-level model under these readings.  No proofs in this file. *)
From Coq Require Import NArith List Bool Arith PeanoNat.
From KdV Require Import Cache.CacheList.
Import ListNotations.

(* static void remove_entry(cache, entry):
     next = &ce[entry->next]; next->prev = entry->prev;
     prev = &ce[entry->prev]; prev->next = entry->next; *)
Definition remove_entry (nx pv : nat -> nat) (e : nat) : (nat -> nat) * (nat -> nat) :=
  (upd nx (pv e) (nx e), upd pv (nx e) (pv e)).

(* static void add_entry_after(cache, entry, idx, insidx):
     prev = &ce[insidx]; next = &ce[prev->next];
     entry->next = prev->next; prev->next = idx;
     entry->prev = next->prev; next->prev = idx; *)
Definition add_entry_after (nx pv : nat -> nat) (e ins : nat) : (nat -> nat) * (nat -> nat) :=
  let n := nx ins in
  (upd (upd nx e n) ins e, upd (upd pv e (pv n)) n e).

(* static void add_entry_before(cache, entry, idx, insidx):
     next = &ce[insidx]; prev = &ce[next->prev];
     entry->next = prev->next; prev->next = idx;
     entry->prev = next->prev; next->prev = idx; *)
Definition add_entry_before (nx pv : nat -> nat) (e ins : nat) : (nat -> nat) * (nat -> nat) :=
  let p := pv ins in
  (upd (upd nx e (nx p)) p e, upd (upd pv e p) ins e).

Record rst := mkrst {
  nx : nat -> nat;
  pv : nat -> nat;
  split : nat;
  nprec : nat;
  ngprec : nat;
  nprobe : nat;
  ngprobe : nat;
  rdprobe : nat;
  rcap : nat;
  inflight : nat;
  ninflight : nat;
  rkey : nat -> N;
  rref : nat -> nat;
  rdata : nat -> option nat;
  rest : nat -> estate;
  rhits : N;
  rmisses : N;
  rpend : list nat;
  rplain : list nat;
  rcontent : nat -> option N }.

Definition rset_nx (v : nat -> nat) (r : rst) : rst :=
  mkrst v (pv r) (split r) (nprec r) (ngprec r) (nprobe r) (ngprobe r) (rdprobe r) (rcap r) (inflight r) (ninflight r) (rkey r) (rref r) (rdata r) (rest r) (rhits r) (rmisses r) (rpend r) (rplain r) (rcontent r).
Definition rset_pv (v : nat -> nat) (r : rst) : rst :=
  mkrst (nx r) v (split r) (nprec r) (ngprec r) (nprobe r) (ngprobe r) (rdprobe r) (rcap r) (inflight r) (ninflight r) (rkey r) (rref r) (rdata r) (rest r) (rhits r) (rmisses r) (rpend r) (rplain r) (rcontent r).
Definition rset_split (v : nat) (r : rst) : rst :=
  mkrst (nx r) (pv r) v (nprec r) (ngprec r) (nprobe r) (ngprobe r) (rdprobe r) (rcap r) (inflight r) (ninflight r) (rkey r) (rref r) (rdata r) (rest r) (rhits r) (rmisses r) (rpend r) (rplain r) (rcontent r).
Definition rset_nprec (v : nat) (r : rst) : rst :=
  mkrst (nx r) (pv r) (split r) v (ngprec r) (nprobe r) (ngprobe r) (rdprobe r) (rcap r) (inflight r) (ninflight r) (rkey r) (rref r) (rdata r) (rest r) (rhits r) (rmisses r) (rpend r) (rplain r) (rcontent r).
Definition rset_ngprec (v : nat) (r : rst) : rst :=
  mkrst (nx r) (pv r) (split r) (nprec r) v (nprobe r) (ngprobe r) (rdprobe r) (rcap r) (inflight r) (ninflight r) (rkey r) (rref r) (rdata r) (rest r) (rhits r) (rmisses r) (rpend r) (rplain r) (rcontent r).
Definition rset_nprobe (v : nat) (r : rst) : rst :=
  mkrst (nx r) (pv r) (split r) (nprec r) (ngprec r) v (ngprobe r) (rdprobe r) (rcap r) (inflight r) (ninflight r) (rkey r) (rref r) (rdata r) (rest r) (rhits r) (rmisses r) (rpend r) (rplain r) (rcontent r).
Definition rset_ngprobe (v : nat) (r : rst) : rst :=
  mkrst (nx r) (pv r) (split r) (nprec r) (ngprec r) (nprobe r) v (rdprobe r) (rcap r) (inflight r) (ninflight r) (rkey r) (rref r) (rdata r) (rest r) (rhits r) (rmisses r) (rpend r) (rplain r) (rcontent r).
Definition rset_dprobe (v : nat) (r : rst) : rst :=
  mkrst (nx r) (pv r) (split r) (nprec r) (ngprec r) (nprobe r) (ngprobe r) v (rcap r) (inflight r) (ninflight r) (rkey r) (rref r) (rdata r) (rest r) (rhits r) (rmisses r) (rpend r) (rplain r) (rcontent r).
Definition rset_inflight (v : nat) (r : rst) : rst :=
  mkrst (nx r) (pv r) (split r) (nprec r) (ngprec r) (nprobe r) (ngprobe r) (rdprobe r) (rcap r) v (ninflight r) (rkey r) (rref r) (rdata r) (rest r) (rhits r) (rmisses r) (rpend r) (rplain r) (rcontent r).
Definition rset_ninflight (v : nat) (r : rst) : rst :=
  mkrst (nx r) (pv r) (split r) (nprec r) (ngprec r) (nprobe r) (ngprobe r) (rdprobe r) (rcap r) (inflight r) v (rkey r) (rref r) (rdata r) (rest r) (rhits r) (rmisses r) (rpend r) (rplain r) (rcontent r).
Definition rset_key (v : nat -> N) (r : rst) : rst :=
  mkrst (nx r) (pv r) (split r) (nprec r) (ngprec r) (nprobe r) (ngprobe r) (rdprobe r) (rcap r) (inflight r) (ninflight r) v (rref r) (rdata r) (rest r) (rhits r) (rmisses r) (rpend r) (rplain r) (rcontent r).
Definition rset_ref (v : nat -> nat) (r : rst) : rst :=
  mkrst (nx r) (pv r) (split r) (nprec r) (ngprec r) (nprobe r) (ngprobe r) (rdprobe r) (rcap r) (inflight r) (ninflight r) (rkey r) v (rdata r) (rest r) (rhits r) (rmisses r) (rpend r) (rplain r) (rcontent r).
Definition rset_data (v : nat -> option nat) (r : rst) : rst :=
  mkrst (nx r) (pv r) (split r) (nprec r) (ngprec r) (nprobe r) (ngprobe r) (rdprobe r) (rcap r) (inflight r) (ninflight r) (rkey r) (rref r) v (rest r) (rhits r) (rmisses r) (rpend r) (rplain r) (rcontent r).
Definition rset_est (v : nat -> estate) (r : rst) : rst :=
  mkrst (nx r) (pv r) (split r) (nprec r) (ngprec r) (nprobe r) (ngprobe r) (rdprobe r) (rcap r) (inflight r) (ninflight r) (rkey r) (rref r) (rdata r) v (rhits r) (rmisses r) (rpend r) (rplain r) (rcontent r).
Definition rset_hits (v : N) (r : rst) : rst :=
  mkrst (nx r) (pv r) (split r) (nprec r) (ngprec r) (nprobe r) (ngprobe r) (rdprobe r) (rcap r) (inflight r) (ninflight r) (rkey r) (rref r) (rdata r) (rest r) v (rmisses r) (rpend r) (rplain r) (rcontent r).
Definition rset_misses (v : N) (r : rst) : rst :=
  mkrst (nx r) (pv r) (split r) (nprec r) (ngprec r) (nprobe r) (ngprobe r) (rdprobe r) (rcap r) (inflight r) (ninflight r) (rkey r) (rref r) (rdata r) (rest r) (rhits r) v (rpend r) (rplain r) (rcontent r).
Definition rset_pend (v : list nat) (r : rst) : rst :=
  mkrst (nx r) (pv r) (split r) (nprec r) (ngprec r) (nprobe r) (ngprobe r) (rdprobe r) (rcap r) (inflight r) (ninflight r) (rkey r) (rref r) (rdata r) (rest r) (rhits r) (rmisses r) v (rplain r) (rcontent r).
Definition rset_plain (v : list nat) (r : rst) : rst :=
  mkrst (nx r) (pv r) (split r) (nprec r) (ngprec r) (nprobe r) (ngprobe r) (rdprobe r) (rcap r) (inflight r) (ninflight r) (rkey r) (rref r) (rdata r) (rest r) (rhits r) (rmisses r) (rpend r) v (rcontent r).
Definition rset_content (v : nat -> option N) (r : rst) : rst :=
  mkrst (nx r) (pv r) (split r) (nprec r) (ngprec r) (nprobe r) (ngprobe r) (rdprobe r) (rcap r) (inflight r) (ninflight r) (rkey r) (rref r) (rdata r) (rest r) (rhits r) (rmisses r) (rpend r) (rplain r) v.

Definition r_remove (r : rst) (e : nat) : rst :=
  rset_pv (snd (remove_entry (nx r) (pv r) e)) (rset_nx (fst (remove_entry (nx r) (pv r) e)) r).

Definition r_add_after (r : rst) (e ins : nat) : rst :=
  rset_pv (snd (add_entry_after (nx r) (pv r) e ins))
          (rset_nx (fst (add_entry_after (nx r) (pv r) e ins)) r).

Definition r_add_before (r : rst) (e ins : nat) : rst :=
  rset_pv (snd (add_entry_before (nx r) (pv r) e ins))
          (rset_nx (fst (add_entry_before (nx r) (pv r) e ins)) r).

(* while (n--) idx = f(idx) *)
Fixpoint chase (f : nat -> nat) (n : nat) (idx : nat) : nat :=
  match n with
  | 0 => idx
  | S n' => chase f n' (f idx)
  end.

(* the entries visited by such a loop *)
Fixpoint walk (f : nat -> nat) (n : nat) (idx : nat) : list nat :=
  match n with
  | 0 => []
  | S n' => idx :: walk f n' (f idx)
  end.

(* the main ring in next order from ce[split].next, the in-flight ring from
   cache->inflight: what the driver prints, and the abstraction function *)
Definition rwalk (r : rst) : list nat :=
  walk (nx r) (2 * rcap r - ninflight r) (nx r (split r)).
Definition iwalk (r : rst) : list nat := walk (nx r) (ninflight r) (inflight r).

(* add_inflight:
     if (cache->ninflight++) add_entry_before(cache, entry, idx, cache->inflight);
     else cache->inflight = entry->next = entry->prev = idx; *)
Definition r_add_inflight (r : rst) (e : nat) : rst :=
  if ninflight r =? 0
  then rset_inflight e (rset_pv (upd (pv r) e e) (rset_nx (upd (nx r) e e) (rset_ninflight 1 r)))
  else r_add_before (rset_ninflight (S (ninflight r)) r) e (inflight r).

(* reuse_cached_entry:
     if (cache->split != idx && cache->split != entry->prev) {
       remove_entry(cache, entry); add_entry_after(cache, entry, idx, cache->split); }
     cache->split = entry->prev;  ++cache->hits.number; *)
Definition r_reuse_cached (r : rst) (e : nat) : rst :=
  let r1 := if negb (split r =? e) && negb (split r =? pv r e)
            then r_add_after (r_remove r e) e (split r) else r in
  rset_hits (rhits r1 + 1)%N (rset_split (pv r1 e) r1).

(** struct cache_search *)
Record rsearch := mkrsearch {
  c_gprec : nat; c_eprec : nat; c_zprec : option nat; c_nzprec : nat;
  c_gprobe : nat; c_eprobe : nat; c_zprobe : option nat; c_nzprobe : nat }.

Definition cs_set_eprec (v : nat) (c : rsearch) : rsearch :=
  mkrsearch (c_gprec c) v (c_zprec c) (c_nzprec c) (c_gprobe c) (c_eprobe c) (c_zprobe c) (c_nzprobe c).
Definition cs_set_eprobe (v : nat) (c : rsearch) : rsearch :=
  mkrsearch (c_gprec c) (c_eprec c) (c_zprec c) (c_nzprec c) (c_gprobe c) v (c_zprobe c) (c_nzprobe c).

Inductive rfault := RF (f : fault) | CounterUnderflow.
Inductive rres (A : Type) := ROk (a : A) | RFault (f : rfault).
Arguments ROk {A}. Arguments RFault {A}.

(* evict_probe:
     entry = &ce[cs->zprobe];
     if (entry->prev != cs->gprobe) {
       if (cs->zprobe == cache->split) cache->split = entry->prev;
       remove_entry(cache, entry); add_entry_after(cache, entry, cs->zprobe, cs->gprobe); }
     --cache->nprobe; ++cache->ngprobe; *)
Definition r_evict_probe (r : rst) (cs : rsearch) : rres (rst * nat) :=
  match c_zprobe cs with
  | None => RFault (RF UnsetZprobe)
  | Some e =>
      let r1 := if negb (pv r e =? c_gprobe cs)
                then let r0 := if e =? split r then rset_split (pv r e) r else r in
                     r_add_after (r_remove r0 e) e (c_gprobe cs)
                else r in
      match nprobe r1 with
      | 0 => RFault CounterUnderflow
      | S n => ROk (rset_ngprobe (S (ngprobe r1)) (rset_nprobe n r1), e)
      end
  end.

(* evict_prec:
     entry = &ce[cs->zprec];
     if (entry->next != cs->gprec) {
       remove_entry(cache, entry); add_entry_before(cache, entry, cs->zprec, cs->gprec); }
     --cache->nprec; ++cache->ngprec; *)
Definition r_evict_prec (r : rst) (cs : rsearch) : rres (rst * nat) :=
  match c_zprec cs with
  | None => RFault (RF UnsetZprec)
  | Some e =>
      let r1 := if negb (nx r e =? c_gprec cs)
                then r_add_before (r_remove r e) e (c_gprec cs)
                else r in
      match nprec r1 with
      | 0 => RFault CounterUnderflow
      | S n => ROk (rset_ngprec (S (ngprec r1)) (rset_nprec n r1), e)
      end
  end.

(* evict_entry (the cleanup callback is recorded by the callers) *)
Definition r_evict_entry (r : rst) (cs : rsearch) (bias : nat) : rres (rst * nat) :=
  if negb (c_nzprobe cs =? 0) &&
     ((c_nzprec cs =? 0) || (rdprobe r <? nprobe r + bias))
  then r_evict_probe r cs
  else r_evict_prec r cs.

(* reclaim_data, as repaired:
     if (nprec + nprobe + ninflight < cap) {
       eprobe = cs->gprobe;
       n = ngprobe + cap - 1 - (nprec + nprobe + ninflight);
       while (n--) eprobe = ce[eprobe].prev;
       entry = &ce[eprobe];
     } else entry = evict_entry(cache, cs, 0);
     data = entry->data; entry->data = NULL; return data; *)
Definition r_reclaim (r : rst) (cs : rsearch) : rres (rst * option nat * list (nat * nat)) :=
  let busy := nprec r + nprobe r + ninflight r in
  if busy <? rcap r then
    let e := chase (pv r) (ngprobe r + rcap r - 1 - busy) (c_gprobe cs) in
    ROk (rset_data (upd (rdata r) e None) r, rdata r e, [])
  else
    match r_evict_entry r cs 0 with
    | RFault f => RFault f
    | ROk (r1, e) => ROk (rset_data (upd (rdata r1) e None) r1, rdata r1 e, [(e, rref r1 e)])
    end.

(* reuse_ghost_entry:
     if (cache->split == idx) cache->split = entry->prev;
     remove_entry(cache, entry); add_inflight(cache, entry, idx);
     entry->state = cs_precious; *)
Definition r_reuse_ghost (r : rst) (e : nat) : rst :=
  let r0 := if split r =? e then rset_split (pv r e) r else r in
  let r1 := r_add_inflight (r_remove r0 e) e in
  rset_est (upd (rest r1) e SPrec) r1.

(* get_missed_entry *)
Definition r_get_missed (r : rst) (k : N) (cs : rsearch)
  : rres (rst * nat * list (nat * nat)) :=
  let idx0 := c_eprobe cs in
  let '(r1, idx) :=
    if nx r idx0 =? c_eprec cs then
      if negb (ngprobe r =? 0) then (rset_ngprobe (ngprobe r - 1) r, nx r idx0)
      else if negb (ngprec r =? 0) then (rset_ngprec (ngprec r - 1) r, idx0)
      else (r, idx0)
    else (r, idx0) in
  let fill :=
    match rdata r1 idx with
    | Some _ => ROk (r1, [])
    | None =>
        match r_evict_entry r1 cs 1 with
        | RFault f => RFault f
        | ROk (r2, v) =>
            ROk (rset_data (upd (upd (rdata r2) idx (rdata r2 v)) v None) r2, [(v, rref r2 v)])
        end
    end in
  match fill with
  | RFault f => RFault f
  | ROk (r3, ev) =>
      let r4 := if split r3 =? idx then rset_split (pv r3 idx) r3 else r3 in
      let r5 := r_add_inflight (r_remove r4 idx) idx in
      ROk (rset_est (upd (rest r5) idx SProbe) (rset_key (upd (rkey r5) idx k) r5), idx, ev)
  end.

(* the ghost search loops: first entry with the key among n entries from idx
   following f; returns it, or the index the loop ends on *)
Fixpoint rfind (r : rst) (k : N) (f : nat -> nat) (n : nat) (idx : nat) : option nat * nat :=
  match n with
  | 0 => (None, idx)
  | S n' => if N.eqb (rkey r idx) k then (Some idx, idx) else rfind r k f n' (f idx)
  end.

(* get_ghost_or_missed_entry *)
Definition r_ghost_or_missed (r : rst) (k : N) (cs : rsearch)
  : rres (rst * nat * list (nat * nat)) :=
  match rfind r k (nx r) (ngprec r) (c_gprec cs) with
  | (Some e, _) =>
      let delta := if ngprec r <? ngprobe r then ngprobe r / ngprec r else 1 in
      let r1 := rset_dprobe (if delta <? rdprobe r then rdprobe r - delta else 0) r in
      match r_reclaim r1 cs with
      | RFault f => RFault f
      | ROk (r2, d, ev) =>
          match ngprec r2 with
          | 0 => RFault CounterUnderflow
          | S n => ROk (r_reuse_ghost (rset_ngprec n (rset_data (upd (rdata r2) e d) r2)) e, e, ev)
          end
      end
  | (None, eprec) =>
      let cs1 := cs_set_eprec eprec cs in
      match rfind r k (pv r) (ngprobe r) (c_gprobe cs1) with
      | (Some e, _) =>
          let delta := if ngprobe r <? ngprec r then ngprec r / ngprobe r else 1 in
          let r1 := rset_dprobe (if rdprobe r + delta <? rcap r then rdprobe r + delta
                                 else rcap r) r in
          match r_reclaim r1 cs1 with
          | RFault f => RFault f
          | ROk (r2, d, ev) =>
              match ngprobe r2 with
              | 0 => RFault CounterUnderflow
              | S n => ROk (r_reuse_ghost (rset_ngprobe n (rset_data (upd (rdata r2) e d) r2)) e, e, ev)
              end
          end
      | (None, eprobe) => r_get_missed r k (cs_set_eprobe eprobe cs1)
      end
  end.

(* the scanning loops of cache_get_entry_noref over n entries from idx
   following f: the entry with the key, else the index the loop ends on, the
   last unreferenced entry seen and their number *)
Fixpoint rscan (r : rst) (k : N) (f : nat -> nat) (n : nat) (idx : nat)
         (z : option nat) (nz : nat) : option nat * nat * option nat * nat :=
  match n with
  | 0 => (None, idx, z, nz)
  | S n' =>
      if N.eqb (rkey r idx) k then (Some idx, idx, z, nz)
      else if rref r idx =? 0 then rscan r k f n' (f idx) (Some idx) (S nz)
      else rscan r k f n' (f idx) z nz
  end.

(* cache_get_entry_noref *)
Definition r_get_noref (r : rst) (k : N) : rres (rst * option nat * list (nat * nat)) :=
  match rscan r k (nx r) (nprec r) (nx r (split r)) None 0 with
  | (Some e, _, _, _) => ROk (r_reuse_cached r e, Some e, [])
  | (None, gprec, zp, nzp) =>
      match rscan r k (pv r) (nprobe r) (split r) None 0 with
      | (Some e, _, _, _) =>
          (* --cache->nprobe; ++cache->nprec; (the loop found it, so nprobe > 0) *)
          ROk (r_reuse_cached (rset_nprec (S (nprec r)) (rset_nprobe (nprobe r - 1) r)) e, Some e, [])
      | (None, gprobe, zq, nzq) =>
          match rfind r k (nx r) (ninflight r) (inflight r) with
          | (Some e, _) =>
              ROk (rset_misses (rmisses r + 1)%N (rset_est (upd (rest r) e SPrec) r), Some e, [])
          | (None, _) =>
              let inuse := (nprec r - nzp) + (nprobe r - nzq) + ninflight r in
              if rcap r <=? inuse then ROk (r, None, [])
              else
                match r_ghost_or_missed r k (mkrsearch gprec 0 zp nzp gprobe 0 zq nzq) with
                | RFault f => RFault f
                | ROk (r1, e, ev) => ROk (rset_misses (rmisses r1 + 1)%N r1, Some e, ev)
                end
          end
      end
  end.

(* cache_get_entry + the caller *)
Definition r_do_get (r : rst) (k : N) : rres (rst * ret * list (nat * nat)) :=
  match r_get_noref r k with
  | RFault f => RFault f
  | ROk (r1, None, ev) => ROk (r1, RBusy, ev)
  | ROk (r1, Some e, ev) =>
      let r2 := rset_ref (upd (rref r1) e (S (rref r1 e))) r1 in
      if estate_valid (rest r2 e) then
        ROk (rset_plain (rplain r2 ++ [e]) r2, REntry e true, ev)
      else
        match rdata r2 e with
        | None => RFault (RF NullBuffer)
        | Some t =>
            ROk (rset_content (upd (rcontent r2) t None) (rset_pend (rpend r2 ++ [e]) r2),
                 REntry e false, ev)
        end
  end.

(* cache_insert:
     if (cache_entry_valid(entry)) return;
     if (cache->ninflight--) { if (cache->inflight == idx) cache->inflight = entry->next;
                               remove_entry(cache, entry); }
     add_entry_after(cache, entry, idx, cache->split);
     switch (entry->state) { case cs_probe: ++nprobe; split = idx; case cs_precious: ++nprec; }
     entry->state = cs_valid; *)
Definition r_do_insert (r : rst) (e : nat) : rres (rst * ret * list (nat * nat)) :=
  let r0 := rset_plain (rplain r ++ [e]) (rset_pend (rm1 e (rpend r)) r) in
  let r1 := match rdata r0 e with
            | Some t => rset_content (upd (rcontent r0) t (Some (rkey r0 e))) r0
            | None => r0
            end in
  if estate_valid (rest r1 e) then ROk (r1, RDone, [])
  else
    match ninflight r1 with
    | 0 => RFault CounterUnderflow
    | S n =>
        let r2 := rset_ninflight n r1 in
        let r3 := if inflight r2 =? e then rset_inflight (nx r2 e) r2 else r2 in
        let r4 := r_add_after (r_remove r3 e) e (split r3) in
        let r5 := match rest r4 e with
                  | SProbe => rset_split e (rset_nprobe (S (nprobe r4)) r4)
                  | _ => rset_nprec (S (nprec r4)) r4
                  end in
        ROk (rset_est (upd (rest r5) e Valid) r5, RDone, [])
    end.

(* cache_discard:
     if (--entry->refcnt) return;  if (cache_entry_valid(entry)) return;
     --cache->ninflight;
     if (cache->inflight == idx) cache->inflight = entry->next;
     remove_entry(cache, entry);
     eprobe = cache->split; n = nprobe + ngprobe;
     if (!n) cache->split = idx; else while (n--) eprobe = ce[eprobe].prev;
     add_entry_after(cache, entry, idx, eprobe); *)
Definition r_do_discard (r : rst) (e : nat) : rres (rst * ret * list (nat * nat)) :=
  let r0 := rset_pend (rm1 e (rpend r)) r in
  match rref r0 e with
  | 0 => RFault (RF RefUnderflow)
  | S c =>
      let r1 := rset_ref (upd (rref r0) e c) r0 in
      if negb (c =? 0) then ROk (r1, RDone, [])
      else if estate_valid (rest r1 e) then ROk (r1, RDone, [])
      else
        match ninflight r1 with
        | 0 => RFault CounterUnderflow
        | S n =>
            let r2 := rset_ninflight n r1 in
            let r3 := if inflight r2 =? e then rset_inflight (nx r2 e) r2 else r2 in
            let r4 := r_remove r3 e in
            let cnt := nprobe r4 + ngprobe r4 in
            let eprobe := chase (pv r4) cnt (split r4) in
            let r5 := if cnt =? 0 then rset_split e r4 else r4 in
            ROk (r_add_after r5 e eprobe, RDone, [])
        end
  end.

(* cache_put_entry *)
Definition r_do_put (r : rst) (e : nat) : rres (rst * ret * list (nat * nat)) :=
  let r0 := rset_plain (rm1 e (rplain r)) r in
  match rref r0 e with
  | 0 => RFault (RF RefUnderflow)
  | S c => ROk (rset_ref (upd (rref r0) e c) r0, RDone, [])
  end.

(* cleanup_entries: precious entries from ce[split].next following next, then
   probed entries from split following prev *)
Definition r_cleanup_list (r : rst) : list nat :=
  walk (nx r) (nprec r) (nx r (split r)) ++ walk (pv r) (nprobe r) (split r).

(* cache_flush:
     for (i = 0; i < 2*cap; ++i) { next = i > 0 ? i-1 : n-1; prev = i < n-1 ? i+1 : 0;
                                   refcnt = 0; data = i < cap ? buffer i : NULL; }
     split = 0; counters = 0; *)
Definition flush_nx (cap : nat) : nat -> nat := fun i => if i =? 0 then 2 * cap - 1 else i - 1.
Definition flush_pv (cap : nat) : nat -> nat := fun i => if i <? 2 * cap - 1 then i + 1 else 0.

Definition r_do_flush (r : rst) : rres (rst * ret * list (nat * nat)) :=
  let ev := map (fun e => (e, rref r e)) (r_cleanup_list r) in
  ROk (rset_nx (flush_nx (rcap r)) (rset_pv (flush_pv (rcap r)) (rset_split 0
       (rset_nprec 0 (rset_ngprec 0 (rset_nprobe 0 (rset_ngprobe 0 (rset_dprobe 0
       (rset_ninflight 0 (rset_ref (fun _ => 0) (rset_data (init_data (rcap r)) r)))))))))),
       RDone, ev).

(* cache_alloc: everything but next/prev/refcnt/data/counters is indeterminate
   in C; the values are those of [CacheList.init] (the driver presets key and
   state, and [inflight] is preset to 0) *)
Definition rinit (cap : nat) : rst :=
  mkrst (flush_nx cap) (flush_pv cap) 0 0 0 0 0 0 cap 0 0
        (fun e => (3735879680 + N.of_nat e)%N) (fun _ => 0) (init_data cap)
        (fun _ => Valid) 0%N 0%N [] [] (fun _ => None).

Definition rstep (r : rst) (o : op) : rres (rst * ret * list (nat * nat)) :=
  match o with
  | Get k => r_do_get r k
  | Insert e => r_do_insert r e
  | Discard e => r_do_discard r e
  | Put e => r_do_put r e
  | Flush => r_do_flush r
  end.

(* the same slot addressing as [CacheList.resolve] *)
Definition rresolve (r : rst) (o : sop) : option op :=
  match o with
  | SGet k => Some (Get k)
  | SIns j => option_map Insert (pick (rpend r) j)
  | SDis j => option_map Discard (pick (rpend r) j)
  | SPut j => option_map Put (pick (rplain r) j)
  | SFlush => match rpend r, rplain r with [], [] => Some Flush | _, _ => None end
  | SRealloc _ => None
  end.

(* def_realloc_caches: a fresh cache; the old one is freed after its cached
   entries went through the cleanup callback *)
Definition r_do_realloc (r : rst) (c : nat) : rst * list (nat * nat) :=
  (rinit c, map (fun e => (e, rref r e)) (r_cleanup_list r)).

Inductive rout :=
| ROSkip
| ROStep (o : op) (x : ret) (ev : list (nat * nat)) (r : rst)
| ROFault (o : op) (f : rfault)
| RORealloc (c : nat) (ev : list (nat * nat)) (r : rst)
| RODead.

Fixpoint rrun_slots (r : rst) (ops : list sop) : list rout :=
  match ops with
  | [] => []
  | SRealloc c :: t =>
      if (match rpend r, rplain r with [], [] => true | _, _ => false end) && (0 <? c)
      then RORealloc c (snd (r_do_realloc r c)) (fst (r_do_realloc r c))
             :: rrun_slots (fst (r_do_realloc r c)) t
      else ROSkip :: rrun_slots r t
  | o :: t =>
      match rresolve r o with
      | None => ROSkip :: rrun_slots r t
      | Some o' =>
          match rstep r o' with
          | RFault f => ROFault o' f :: map (fun _ => RODead) t
          | ROk (r1, x, ev) => ROStep o' x ev r1 :: rrun_slots r1 t
          end
      end
  end.

(** Histories *)
Fixpoint rrun (r : rst) (ops : list op) : rres rst :=
  match ops with
  | [] => ROk r
  | o :: t => match rstep r o with
              | RFault f => RFault f
              | ROk (r1, _, _) => rrun r1 t
              end
  end.
