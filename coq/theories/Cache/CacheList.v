(** List-level model of src/kdumpfile/cache.c (property C06), with the client
    protocol (reference handles) and a ghost record of what each data buffer
    contains.

    Representation.  The C structure is a circular doubly linked list of
    [2*cap] entries cut into five partitions by [split] and four counters,
    plus a second circular list of in-flight entries.  Here each partition is
    a list of entry indices:

      [prec]   cached precious entries, most recently used first
      [gprec]  ghost precious entries, most recently evicted first
      [unused] unused entries in ring order (its last element is the one next
               to the ghost-probe partition, C name [eprobe])
      [gprobe] ghost probed entries, most recently evicted first
      [probe]  cached probed entries, most recently used first ([split] is its head)
      [infl]   in-flight entries, oldest first

    The C ring, read in [next] order from [ce[split].next], is
      [prec ++ gprec ++ unused ++ rev gprobe ++ rev probe]       (see [ring])
    [split] is its last element and the C counters are the list lengths; the
    correspondence driver (harness/cache_drv.c) prints the real ring by
    following the [next] pointers, this model prints [ring].  The positional
    members of [struct cache_search] ([gprec], [gprobe], [eprec], [eprobe]) are
    assigned on every path before they are used and are implicit in the list
    form; [zprec]/[zprobe] are [option]s: [evict_prec]/[evict_probe] using one
    that was never assigned is the outcome [Fault UnsetZprec/UnsetZprobe]
    (in C: an indeterminate index, i.e. an arbitrary entry loses its buffer).
    Places where the list abstraction would stop describing the C code
    (no unused entry where [reclaim_data] expects one, no entry at all for a
    miss, [cache_insert] of a non-valid entry that is not in flight, a
    reference count going below zero, a NULL data pointer handed to a caller
    for filling) are explicit [Fault]s as well, never a convenient default.

    Per-entry fields are functions of the entry index.  [data] is the index
    of the buffer the entry's [data] pointer designates ([None] = NULL).

    Client protocol.  Every successful [cache_get_entry] creates a handle; a
    handle on an entry that was not valid when returned is *pending* (the
    caller fills the buffer and must then [cache_insert] — keeping the
    reference, the handle becomes plain — or [cache_discard], which drops
    it); other handles are *plain* and can only be released with
    [cache_put_entry].  This is how read.c and fcache.c use the cache.
    [cache_flush] (only called from [cache_alloc] in the library) is legal when
    no handle is outstanding.  [content] is a ghost: [content t = Some k] when
    buffer [t] holds the data inserted for key [k], [None] while it is being
    (re)written; the driver keeps the same information inside the real
    buffers.

    [fixed = true] models [reclaim_data] as repaired by
    fixes/01-cache-reclaim-keeps-buffers-contiguous.patch (take the buffer of
    the data-bearing unused entry *farthest* from the ghost-probe partition);
    [fixed = false] is the pinned code (always the unused entry next to the
    ghost-probe partition).  No proofs in this file. *)
From Coq Require Import NArith List Bool Arith PeanoNat.
Import ListNotations.

Inductive estate := Valid | SProbe | SPrec.

Inductive fault :=
| UnsetZprec | UnsetZprobe | NoUnused | NoEntryForMiss | NotInflight
| RefUnderflow | NullBuffer.

Inductive res (A : Type) := Ok (a : A) | Fault (f : fault).
Arguments Ok {A}. Arguments Fault {A}.

Definition upd {A : Type} (f : nat -> A) (e : nat) (v : A) : nat -> A :=
  fun x => if Nat.eqb x e then v else f x.

(* unlink an entry from a partition *)
Definition rm (e : nat) (l : list nat) : list nat := remove Nat.eq_dec e l.

(* drop one handle *)
Fixpoint rm1 (e : nat) (l : list nat) : list nat :=
  match l with
  | [] => []
  | x :: t => if Nat.eqb x e then t else x :: rm1 e t
  end.

(* split off the last element *)
Fixpoint unsnoc (l : list nat) : option (list nat * nat) :=
  match l with
  | [] => None
  | x :: t => match unsnoc t with
              | None => Some ([], x)
              | Some (r, y) => Some (x :: r, y)
              end
  end.

Record st := mkst {
  prec : list nat;
  gprec : list nat;
  unused : list nat;
  gprobe : list nat;
  probe : list nat;
  infl : list nat;
  dprobe : nat;
  cap : nat;
  key : nat -> N;
  ref : nat -> nat;
  data : nat -> option nat;
  est : nat -> estate;
  hits : N;
  misses : N;
  pend : list nat;
  plain : list nat;
  content : nat -> option N }.

Definition set_prec (v : list nat) (s : st) : st :=
  mkst v (gprec s) (unused s) (gprobe s) (probe s) (infl s) (dprobe s) (cap s) (key s) (ref s) (data s) (est s) (hits s) (misses s) (pend s) (plain s) (content s).
Definition set_gprec (v : list nat) (s : st) : st :=
  mkst (prec s) v (unused s) (gprobe s) (probe s) (infl s) (dprobe s) (cap s) (key s) (ref s) (data s) (est s) (hits s) (misses s) (pend s) (plain s) (content s).
Definition set_unused (v : list nat) (s : st) : st :=
  mkst (prec s) (gprec s) v (gprobe s) (probe s) (infl s) (dprobe s) (cap s) (key s) (ref s) (data s) (est s) (hits s) (misses s) (pend s) (plain s) (content s).
Definition set_gprobe (v : list nat) (s : st) : st :=
  mkst (prec s) (gprec s) (unused s) v (probe s) (infl s) (dprobe s) (cap s) (key s) (ref s) (data s) (est s) (hits s) (misses s) (pend s) (plain s) (content s).
Definition set_probe (v : list nat) (s : st) : st :=
  mkst (prec s) (gprec s) (unused s) (gprobe s) v (infl s) (dprobe s) (cap s) (key s) (ref s) (data s) (est s) (hits s) (misses s) (pend s) (plain s) (content s).
Definition set_infl (v : list nat) (s : st) : st :=
  mkst (prec s) (gprec s) (unused s) (gprobe s) (probe s) v (dprobe s) (cap s) (key s) (ref s) (data s) (est s) (hits s) (misses s) (pend s) (plain s) (content s).
Definition set_dprobe (v : nat) (s : st) : st :=
  mkst (prec s) (gprec s) (unused s) (gprobe s) (probe s) (infl s) v (cap s) (key s) (ref s) (data s) (est s) (hits s) (misses s) (pend s) (plain s) (content s).
Definition set_key (v : nat -> N) (s : st) : st :=
  mkst (prec s) (gprec s) (unused s) (gprobe s) (probe s) (infl s) (dprobe s) (cap s) v (ref s) (data s) (est s) (hits s) (misses s) (pend s) (plain s) (content s).
Definition set_ref (v : nat -> nat) (s : st) : st :=
  mkst (prec s) (gprec s) (unused s) (gprobe s) (probe s) (infl s) (dprobe s) (cap s) (key s) v (data s) (est s) (hits s) (misses s) (pend s) (plain s) (content s).
Definition set_data (v : nat -> option nat) (s : st) : st :=
  mkst (prec s) (gprec s) (unused s) (gprobe s) (probe s) (infl s) (dprobe s) (cap s) (key s) (ref s) v (est s) (hits s) (misses s) (pend s) (plain s) (content s).
Definition set_est (v : nat -> estate) (s : st) : st :=
  mkst (prec s) (gprec s) (unused s) (gprobe s) (probe s) (infl s) (dprobe s) (cap s) (key s) (ref s) (data s) v (hits s) (misses s) (pend s) (plain s) (content s).
Definition set_hits (v : N) (s : st) : st :=
  mkst (prec s) (gprec s) (unused s) (gprobe s) (probe s) (infl s) (dprobe s) (cap s) (key s) (ref s) (data s) (est s) v (misses s) (pend s) (plain s) (content s).
Definition set_misses (v : N) (s : st) : st :=
  mkst (prec s) (gprec s) (unused s) (gprobe s) (probe s) (infl s) (dprobe s) (cap s) (key s) (ref s) (data s) (est s) (hits s) v (pend s) (plain s) (content s).
Definition set_pend (v : list nat) (s : st) : st :=
  mkst (prec s) (gprec s) (unused s) (gprobe s) (probe s) (infl s) (dprobe s) (cap s) (key s) (ref s) (data s) (est s) (hits s) (misses s) v (plain s) (content s).
Definition set_plain (v : list nat) (s : st) : st :=
  mkst (prec s) (gprec s) (unused s) (gprobe s) (probe s) (infl s) (dprobe s) (cap s) (key s) (ref s) (data s) (est s) (hits s) (misses s) (pend s) v (content s).
Definition set_content (v : nat -> option N) (s : st) : st :=
  mkst (prec s) (gprec s) (unused s) (gprobe s) (probe s) (infl s) (dprobe s) (cap s) (key s) (ref s) (data s) (est s) (hits s) (misses s) (pend s) (plain s) v.

Definition ring (s : st) : list nat :=
  prec s ++ gprec s ++ unused s ++ rev (gprobe s) ++ rev (probe s).

(* the entries that hold valid data or are being filled *)
Definition cached (s : st) : list nat := prec s ++ probe s ++ infl s.

Definition init_data (cap : nat) : nat -> option nat :=
  fun e => if e <? cap then Some e else None.

(* cache_alloc: keys and states of a fresh cache are indeterminate in C and
   never read before being assigned; the driver presets them to the same
   values *)
Definition init (cap : nat) : st :=
  mkst [] [] (rev (seq 0 (2 * cap))) [] [] [] 0 cap
       (fun e => (3735879680 + N.of_nat e)%N) (fun _ => 0) (init_data cap)
       (fun _ => Valid) 0%N 0%N [] [] (fun _ => None).

(** struct cache_search: the members that may be used unset *)
Record search := mksearch {
  zprec : option nat; nzprec : nat; zprobe : option nat; nzprobe : nat }.

(* the two scanning loops of cache_get_entry_noref: MRU to LRU, stop at the
   key, remember the last entry with refcnt == 0 and count them *)
Fixpoint scan (s : st) (k : N) (l : list nat) (z : option nat) (nz : nat)
  : option nat * option nat * nat :=
  match l with
  | [] => (None, z, nz)
  | e :: t =>
      if N.eqb (key s e) k then (Some e, z, nz)
      else if ref s e =? 0 then scan s k t (Some e) (S nz)
      else scan s k t z nz
  end.

Definition find_key (s : st) (k : N) (l : list nat) : option nat :=
  find (fun e => N.eqb (key s e) k) l.

(* evict_entry / evict_probe / evict_prec: the evicted entry becomes the most
   recent ghost of its kind *)
Definition evict_entry (s : st) (cs : search) (bias : nat) : res (st * nat) :=
  if negb (nzprobe cs =? 0) &&
     ((nzprec cs =? 0) || (dprobe s <? length (probe s) + bias))
  then match zprobe cs with
       | None => Fault UnsetZprobe
       | Some e => Ok (set_gprobe (e :: gprobe s) (set_probe (rm e (probe s)) s), e)
       end
  else match zprec cs with
       | None => Fault UnsetZprec
       | Some e => Ok (set_gprec (e :: gprec s) (set_prec (rm e (prec s)) s), e)
       end.

(* reclaim_data: returns the data pointer taken (possibly NULL) and the entry
   passed to the cleanup callback, with its reference count *)
Definition reclaim (fixed : bool) (s : st) (cs : search)
  : res (st * option nat * list (nat * nat)) :=
  let busy := length (prec s) + length (probe s) + length (infl s) in
  if busy <? cap s then
    let nfree := cap s - busy in
    if fixed && (length (unused s) <? nfree) then Fault NoUnused else
    let pos := if fixed then length (unused s) - nfree else length (unused s) - 1 in
    match nth_error (unused s) pos with
    | None => Fault NoUnused
    | Some e => Ok (set_data (upd (data s) e None) s, data s e, [])
    end
  else
    match evict_entry s cs 0 with
    | Fault f => Fault f
    | Ok (s1, e) => Ok (set_data (upd (data s1) e None) s1, data s1 e, [(e, ref s1 e)])
    end.

(* reuse_ghost_entry, after entry->data = reclaim_data(...) *)
Definition reuse_ghost (s : st) (e : nat) (d : option nat) : st :=
  set_est (upd (est s) e SPrec) (set_infl (infl s ++ [e]) (set_data (upd (data s) e d) s)).

(* get_missed_entry: which entry is recycled *)
Definition take_missed (s : st) : res (st * nat) :=
  match unsnoc (unused s) with
  | Some (r, e) => Ok (set_unused r s, e)
  | None =>
      match unsnoc (gprobe s) with
      | Some (r, e) => Ok (set_gprobe r s, e)
      | None =>
          match unsnoc (gprec s) with
          | Some (r, e) => Ok (set_gprec r s, e)
          | None => Fault NoEntryForMiss
          end
      end
  end.

Definition missed (s : st) (k : N) (cs : search)
  : res (st * nat * list (nat * nat)) :=
  match take_missed s with
  | Fault f => Fault f
  | Ok (s1, e) =>
      let fill :=
        match data s1 e with
        | Some _ => Ok (s1, [])
        | None =>
            match evict_entry s1 cs 1 with
            | Fault f => Fault f
            | Ok (s2, v) =>
                Ok (set_data (upd (upd (data s2) e (data s2 v)) v None) s2, [(v, ref s2 v)])
            end
        end in
      match fill with
      | Fault f => Fault f
      | Ok (s3, ev) =>
          Ok (set_est (upd (est s3) e SProbe)
                (set_key (upd (key s3) e k) (set_infl (infl s3 ++ [e]) s3)), e, ev)
      end
  end.

(* get_ghost_or_missed_entry *)
Definition ghost_or_missed (fixed : bool) (s : st) (k : N) (cs : search)
  : res (st * nat * list (nat * nat)) :=
  let ngprec := length (gprec s) in
  let ngprobe := length (gprobe s) in
  match find_key s k (gprec s) with
  | Some e =>
      let delta := if ngprec <? ngprobe then ngprobe / ngprec else 1 in
      let s1 := set_dprobe (if delta <? dprobe s then dprobe s - delta else 0) s in
      match reclaim fixed s1 cs with
      | Fault f => Fault f
      | Ok (s2, d, ev) => Ok (reuse_ghost (set_gprec (rm e (gprec s2)) s2) e d, e, ev)
      end
  | None =>
      match find_key s k (gprobe s) with
      | Some e =>
          let delta := if ngprobe <? ngprec then ngprec / ngprobe else 1 in
          let s1 := set_dprobe (if dprobe s + delta <? cap s then dprobe s + delta
                                else cap s) s in
          match reclaim fixed s1 cs with
          | Fault f => Fault f
          | Ok (s2, d, ev) => Ok (reuse_ghost (set_gprobe (rm e (gprobe s2)) s2) e d, e, ev)
          end
      | None => missed s k cs
      end
  end.

(* cache_get_entry_noref: new state, returned entry (None = NULL, cache
   fully utilised), entries handed to the cleanup callback *)
Definition get_noref (fixed : bool) (s : st) (k : N)
  : res (st * option nat * list (nat * nat)) :=
  match scan s k (prec s) None 0 with
  | (Some e, _, _) =>
      (* reuse_cached_entry: to the MRU position of the precious partition *)
      Ok (set_hits (hits s + 1)%N (set_prec (e :: rm e (prec s)) s), Some e, [])
  | (None, zp, nzp) =>
      match scan s k (probe s) None 0 with
      | (Some e, _, _) =>
          Ok (set_hits (hits s + 1)%N
                (set_prec (e :: prec s) (set_probe (rm e (probe s)) s)), Some e, [])
      | (None, zq, nzq) =>
          match find_key s k (infl s) with
          | Some e =>
              Ok (set_misses (misses s + 1)%N (set_est (upd (est s) e SPrec) s), Some e, [])
          | None =>
              let inuse := (length (prec s) - nzp) + (length (probe s) - nzq)
                           + length (infl s) in
              if cap s <=? inuse then Ok (s, None, [])
              else
                match ghost_or_missed fixed s k (mksearch zp nzp zq nzq) with
                | Fault f => Fault f
                | Ok (s1, e, ev) => Ok (set_misses (misses s1 + 1)%N s1, Some e, ev)
                end
          end
      end
  end.

(** Operations of the client, by entry *)
Inductive op := Get (k : N) | Insert (e : nat) | Discard (e : nat) | Put (e : nat) | Flush.

Inductive ret :=
| RBusy                          (* cache_get_entry returned NULL *)
| REntry (e : nat) (valid : bool) (* returned entry, cache_entry_valid() *)
| RDone.

Definition legal (s : st) (o : op) : Prop :=
  match o with
  | Get _ => True
  | Insert e | Discard e => In e (pend s)
  | Put e => In e (plain s)
  | Flush => pend s = [] /\ plain s = []
  end.

Definition legalb (s : st) (o : op) : bool :=
  match o with
  | Get _ => true
  | Insert e | Discard e => existsb (Nat.eqb e) (pend s)
  | Put e => existsb (Nat.eqb e) (plain s)
  | Flush => match pend s, plain s with [], [] => true | _, _ => false end
  end.

Definition estate_valid (x : estate) : bool :=
  match x with Valid => true | _ => false end.

(* cache_get_entry followed by what every caller does with the result *)
Definition do_get (fixed : bool) (s : st) (k : N) : res (st * ret * list (nat * nat)) :=
  match get_noref fixed s k with
  | Fault f => Fault f
  | Ok (s1, None, ev) => Ok (s1, RBusy, ev)
  | Ok (s1, Some e, ev) =>
      let s2 := set_ref (upd (ref s1) e (S (ref s1 e))) s1 in
      if estate_valid (est s2 e) then
        Ok (set_plain (plain s2 ++ [e]) s2, REntry e true, ev)
      else
        match data s2 e with
        | None => Fault NullBuffer
        | Some t =>
            Ok (set_content (upd (content s2) t None) (set_pend (pend s2 ++ [e]) s2),
                REntry e false, ev)
        end
  end.

(* the caller has filled the buffer; cache_insert *)
Definition do_insert (s : st) (e : nat) : res (st * ret * list (nat * nat)) :=
  let s0 := set_plain (plain s ++ [e]) (set_pend (rm1 e (pend s)) s) in
  let s1 := match data s0 e with
            | Some t => set_content (upd (content s0) t (Some (key s0 e))) s0
            | None => s0
            end in
  if estate_valid (est s1 e) then Ok (s1, RDone, [])
  else if existsb (Nat.eqb e) (infl s1) then
    let s2 := set_infl (rm e (infl s1)) s1 in
    let s3 := match est s2 e with
              | SProbe => set_probe (e :: probe s2) s2
              | _ => set_prec (e :: prec s2) s2
              end in
    Ok (set_est (upd (est s3) e Valid) s3, RDone, [])
  else Fault NotInflight.

(* cache_discard *)
Definition do_discard (s : st) (e : nat) : res (st * ret * list (nat * nat)) :=
  let s0 := set_pend (rm1 e (pend s)) s in
  match ref s0 e with
  | 0 => Fault RefUnderflow
  | S n =>
      let s1 := set_ref (upd (ref s0) e n) s0 in
      if negb (n =? 0) then Ok (s1, RDone, [])
      else if estate_valid (est s1 e) then Ok (s1, RDone, [])
      else if existsb (Nat.eqb e) (infl s1) then
        Ok (set_unused (unused s1 ++ [e]) (set_infl (rm e (infl s1)) s1), RDone, [])
      else Fault NotInflight
  end.

(* cache_put_entry *)
Definition do_put (s : st) (e : nat) : res (st * ret * list (nat * nat)) :=
  let s0 := set_plain (rm1 e (plain s)) s in
  match ref s0 e with
  | 0 => Fault RefUnderflow
  | S n => Ok (set_ref (upd (ref s0) e n) s0, RDone, [])
  end.

(* cache_flush: cleanup_entries (precious, then probed, each MRU first),
   then the ring is rebuilt; keys and states are left as they are *)
Definition do_flush (s : st) : res (st * ret * list (nat * nat)) :=
  let ev := map (fun e => (e, ref s e)) (prec s ++ probe s) in
  Ok (set_prec [] (set_gprec [] (set_unused (rev (seq 0 (2 * cap s)))
       (set_gprobe [] (set_probe [] (set_infl [] (set_dprobe 0
       (set_ref (fun _ => 0) (set_data (init_data (cap s)) s)))))))), RDone, ev).

Definition step (fixed : bool) (s : st) (o : op) : res (st * ret * list (nat * nat)) :=
  match o with
  | Get k => do_get fixed s k
  | Insert e => do_insert s e
  | Discard e => do_discard s e
  | Put e => do_put s e
  | Flush => do_flush s
  end.

(** Histories *)
Fixpoint run (fixed : bool) (s : st) (ops : list op) : res st :=
  match ops with
  | [] => Ok s
  | o :: t => match step fixed s o with
              | Fault f => Fault f
              | Ok (s1, _, _) => run fixed s1 t
              end
  end.

Fixpoint legal_hist (fixed : bool) (s : st) (ops : list op) : Prop :=
  match ops with
  | [] => True
  | o :: t => legal s o /\
              match step fixed s o with
              | Fault _ => True
              | Ok (s1, _, _) => legal_hist fixed s1 t
              end
  end.

(** The correspondence driver addresses handles by position (it cannot know
    entry numbers in advance): [SIns j] is "the j-th pending handle, counting
    modulo their number"; an operation that has no handle to act on is
    skipped on both sides.  Every operation that is executed is legal. *)
Inductive sop := SGet (k : N) | SIns (j : nat) | SDis (j : nat) | SPut (j : nat) | SFlush
                 | SRealloc (c : nat).

(* def_realloc_caches (the cache.size / page-size hooks): cache_alloc of a new
   cache, then cache_free of the old one, whose cleanup_entries hands every
   cached entry to the cleanup callback.  The attribute hooks run under the
   write lock of the shared data, every reader takes its references and drops
   them under the read lock, so no handle is outstanding at this point: the
   operation is legal exactly when cache_flush is.  (cache_flush itself is
   only ever called from cache_alloc, on the fresh cache.) *)
Definition do_realloc (s : st) (c : nat) : st * list (nat * nat) :=
  (init c, map (fun e => (e, ref s e)) (prec s ++ probe s)).

Definition pick (l : list nat) (j : nat) : option nat :=
  match l with
  | [] => None
  | _ => nth_error l (j mod length l)
  end.

Definition resolve (s : st) (o : sop) : option op :=
  match o with
  | SGet k => Some (Get k)
  | SIns j => option_map Insert (pick (pend s) j)
  | SDis j => option_map Discard (pick (pend s) j)
  | SPut j => option_map Put (pick (plain s) j)
  | SFlush => if legalb s Flush then Some Flush else None
  | SRealloc _ => None
  end.

Inductive out :=
| OSkip
| OStep (o : op) (r : ret) (ev : list (nat * nat)) (s : st)
| OFault (o : op) (f : fault)
| ORealloc (c : nat) (ev : list (nat * nat)) (s : st)
| ODead.                         (* after a fault nothing is defined *)

Fixpoint run_slots (fixed : bool) (s : st) (ops : list sop) : list out :=
  match ops with
  | [] => []
  | SRealloc c :: t =>
      if legalb s Flush && (0 <? c)
      then ORealloc c (snd (do_realloc s c)) (fst (do_realloc s c))
             :: run_slots fixed (fst (do_realloc s c)) t
      else OSkip :: run_slots fixed s t
  | o :: t =>
      match resolve s o with
      | None => OSkip :: run_slots fixed s t
      | Some o' =>
          match step fixed s o' with
          | Fault f => OFault o' f :: map (fun _ => ODead) t
          | Ok (s1, r, ev) => OStep o' r ev s1 :: run_slots fixed s1 t
          end
      end
  end.
