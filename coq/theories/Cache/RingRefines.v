(** C06, pointer level: the model of cache.c over [next]/[prev]/[split]
    ([CacheRing]) refines the list-level model ([CacheList]).

    Abstraction: a ring state [r] represents the list state [s] ([R r s])
    when the main ring, read in [next] order so that [split] comes last, is
    [prec s ++ gprec s ++ unused s ++ rev (gprobe s) ++ rev (probe s)], the
    four counters are the partition lengths, the in-flight ring read from
    [inflight] is [infl s], the two rings are well-formed circular doubly
    linked lists over disjoint entries, and all other members agree. *)
From Coq Require Import NArith List Bool Arith PeanoNat Lia Permutation.
From KdV Require Import Cache.CacheList Cache.CacheSpec Cache.CacheLemmas Cache.CacheInv
  Cache.CacheProofs Cache.CacheGet Cache.CacheMain Cache.CacheRing Cache.RingLinked.
Import ListNotations.

Definition ring5 (P GP U GQ Q : list nat) : list nat := P ++ GP ++ U ++ rev GQ ++ rev Q.

Record Rl (r : rst) (P GP U GQ Q F : list nat) : Prop := mkRl {
  L_ring : linked (nx r) (pv r) (ring5 P GP U GQ Q);
  L_ne : ring5 P GP U GQ Q <> [];
  L_split : last (ring5 P GP U GQ Q) 0 = split r;
  L_nd : NoDup (ring5 P GP U GQ Q ++ F);
  L_np : nprec r = length P;
  L_ngp : ngprec r = length GP;
  L_nq : nprobe r = length Q;
  L_ngq : ngprobe r = length GQ;
  L_infl : F <> [] -> linked (nx r) (pv r) F /\ hd 0 F = inflight r;
  L_nin : ninflight r = length F
}.

Definition raux (r : rst) :=
  (rdprobe r, rcap r, rkey r, rref r, rdata r, rest r, rhits r, rmisses r, rpend r, rplain r,
   rcontent r).
Definition saux (s : st) :=
  (dprobe s, cap s, key s, ref s, data s, est s, hits s, misses s, pend s, plain s, content s).

Definition R (r : rst) (s : st) : Prop :=
  Rl r (prec s) (gprec s) (unused s) (gprobe s) (probe s) (infl s) /\ raux r = saux s.

Lemma ring5_ring s : ring5 (prec s) (gprec s) (unused s) (gprobe s) (probe s) = ring s.
Proof. reflexivity. Qed.

Ltac rsimp :=
  cbn [nx pv split nprec ngprec nprobe ngprobe rdprobe rcap inflight ninflight rkey rref rdata
       rest rhits rmisses rpend rplain rcontent
       rset_nx rset_pv rset_split rset_nprec rset_ngprec rset_nprobe rset_ngprobe rset_dprobe
       rset_inflight rset_ninflight rset_key rset_ref rset_data rset_est rset_hits rset_misses
       rset_pend rset_plain rset_content r_remove r_add_after r_add_before
       c_gprec c_eprec c_zprec c_nzprec c_gprobe c_eprobe c_zprobe c_nzprobe
       cs_set_eprec cs_set_eprobe] in *.

(** * What the pointer expressions of cache.c evaluate to *)
Section Pointers.
  Variables (r : rst) (P GP U GQ Q F : list nat).
  Hypothesis HR : Rl r P GP U GQ Q F.

  Let L := ring5 P GP U GQ Q.

  Lemma rot_linked l1 l2 : l1 ++ l2 = L -> linked (nx r) (pv r) (l2 ++ l1).
  Proof. intros E. apply linked_rot_app. rewrite E. exact (L_ring _ _ _ _ _ _ _ HR). Qed.

  Lemma rot_ne l1 l2 : l1 ++ l2 = L -> l2 ++ l1 <> [].
  Proof.
    intros E Hn. apply app_eq_nil in Hn. destruct Hn; subst. cbn in E.
    apply (L_ne _ _ _ _ _ _ _ HR). symmetry. exact E.
  Qed.

  (* ce[split].next *)
  Lemma ptr_first : nx r (split r) = hd 0 L.
  Proof.
    rewrite <- (L_split _ _ _ _ _ _ _ HR).
    apply (linked_wrap _ _ _ 0 (L_ring _ _ _ _ _ _ _ HR) (L_ne _ _ _ _ _ _ _ HR)).
  Qed.

  (* the precious scan visits [P] and ends on cs.gprec *)
  Definition gprecP : nat := hd 0 ((GP ++ U ++ rev GQ ++ rev Q) ++ P).

  Lemma ptr_prec :
    walk (nx r) (nprec r) (nx r (split r)) = P /\
    chase (nx r) (nprec r) (nx r (split r)) = gprecP.
  Proof.
    rewrite ptr_first, (L_np _ _ _ _ _ _ _ HR).
    apply (walk_chase_fwd (nx r) (pv r) P (GP ++ U ++ rev GQ ++ rev Q) 0).
    - exact (L_ring _ _ _ _ _ _ _ HR).
    - exact (L_ne _ _ _ _ _ _ _ HR).
  Qed.

  (* the probed scan visits [Q] and ends on cs.gprobe *)
  Definition gprobeP : nat := last (rev Q ++ (P ++ GP ++ U ++ rev GQ)) 0.

  Lemma ptr_probe :
    walk (pv r) (nprobe r) (split r) = Q /\
    chase (pv r) (nprobe r) (split r) = gprobeP.
  Proof.
    assert (E : L = (P ++ GP ++ U ++ rev GQ) ++ rev Q) by (unfold L, ring5; rewrite <- !app_assoc; reflexivity).
    rewrite <- (L_split _ _ _ _ _ _ _ HR), (L_nq _ _ _ _ _ _ _ HR). fold L. rewrite E.
    rewrite <- (rev_length Q).
    destruct (walk_chase_bwd (nx r) (pv r) (rev Q) (P ++ GP ++ U ++ rev GQ) 0) as [Hw Hc].
    - rewrite <- E. exact (L_ring _ _ _ _ _ _ _ HR).
    - rewrite <- E. exact (L_ne _ _ _ _ _ _ _ HR).
    - rewrite rev_involutive in Hw. split; assumption.
  Qed.

  (* the in-flight loop visits [F] *)
  Lemma ptr_infl : walk (nx r) (ninflight r) (inflight r) = F.
  Proof.
    rewrite (L_nin _ _ _ _ _ _ _ HR). destruct F as [|a F'] eqn:E; [reflexivity|].
    destruct (L_infl _ _ _ _ _ _ _ HR) as [Hl Hh]; [discriminate|]. rewrite <- Hh.
    destruct (walk_chase_fwd (nx r) (pv r) (a :: F') [] 0) as [Hw _].
    - rewrite app_nil_r. exact Hl.
    - discriminate.
    - rewrite app_nil_r in Hw. exact Hw.
  Qed.

  (* the ghost-precious loop from cs.gprec visits [GP] and ends on cs.eprec *)
  Definition eprecP : nat := hd 0 ((U ++ rev GQ ++ rev Q ++ P) ++ GP).

  Lemma ptr_gprec :
    walk (nx r) (ngprec r) gprecP = GP /\ chase (nx r) (ngprec r) gprecP = eprecP.
  Proof.
    rewrite (L_ngp _ _ _ _ _ _ _ HR).
    assert (E : (GP ++ U ++ rev GQ ++ rev Q) ++ P = GP ++ (U ++ rev GQ ++ rev Q ++ P))
      by (rewrite <- !app_assoc; reflexivity).
    unfold gprecP. rewrite E.
    apply (walk_chase_fwd (nx r) (pv r) GP (U ++ rev GQ ++ rev Q ++ P) 0).
    - rewrite <- E. apply rot_linked. reflexivity.
    - rewrite <- E. apply rot_ne. reflexivity.
  Qed.

  (* the ghost-probe loop from cs.gprobe visits [GQ] and ends on cs.eprobe *)
  Definition eprobeP : nat := last (rev GQ ++ rev Q ++ P ++ GP ++ U) 0.

  Lemma ptr_gprobe :
    walk (pv r) (ngprobe r) gprobeP = GQ /\ chase (pv r) (ngprobe r) gprobeP = eprobeP.
  Proof.
    rewrite (L_ngq _ _ _ _ _ _ _ HR).
    assert (E : rev Q ++ (P ++ GP ++ U ++ rev GQ) = (rev Q ++ P ++ GP ++ U) ++ rev GQ)
      by (rewrite <- !app_assoc; reflexivity).
    unfold gprobeP. rewrite E. rewrite <- (rev_length GQ).
    destruct (walk_chase_bwd (nx r) (pv r) (rev GQ) (rev Q ++ P ++ GP ++ U) 0) as [Hw Hc].
    - rewrite <- E. apply rot_linked. unfold L, ring5. rewrite <- !app_assoc. reflexivity.
    - rewrite <- E. apply rot_ne. unfold L, ring5. rewrite <- !app_assoc. reflexivity.
    - rewrite rev_involutive in Hw. split; [exact Hw|]. rewrite Hc. reflexivity.
  Qed.
End Pointers.

(** * The search loops agree with the list-level ones *)
Lemma rscan_scan r s k f : rkey r = key s -> rref r = ref s -> forall n idx z nz,
  rscan r k f n idx z nz =
  (let '(fo, z', nz') := scan s k (walk f n idx) z nz in
   (fo, match fo with Some e => e | None => chase f n idx end, z', nz')).
Proof.
  intros Hk Hr. induction n as [|n IH]; intros idx z nz; cbn [rscan walk scan chase]; [reflexivity|].
  rewrite Hk, Hr. destruct (N.eqb (key s idx) k); [reflexivity|].
  destruct (ref s idx =? 0); apply IH.
Qed.

Lemma rfind_find r s k f : rkey r = key s -> forall n idx,
  rfind r k f n idx =
  match find_key s k (walk f n idx) with
  | Some e => (Some e, e)
  | None => (None, chase f n idx)
  end.
Proof.
  intros Hk. unfold find_key. induction n as [|n IH]; intros idx; cbn [rfind walk find chase]; [reflexivity|].
  rewrite Hk. destruct (N.eqb (key s idx) k); [reflexivity|]. apply IH.
Qed.

(** * List algebra on the five partitions *)
Lemma rm_app e l1 l2 : rm e (l1 ++ l2) = rm e l1 ++ rm e l2.
Proof. apply remove_app. Qed.

Lemma rm_notin e l : ~ In e l -> rm e l = l.
Proof. apply notin_remove. Qed.

Lemma rm_rev e l : rm e (rev l) = rev (rm e l).
Proof.
  induction l as [|a l IH]; [reflexivity|]. cbn [rev]. rewrite rm_app, IH.
  unfold rm. cbn [remove]. destruct (Nat.eq_dec e a); [rewrite app_nil_r|]; reflexivity.
Qed.

Lemma rm_split e l1 l2 : NoDup (l1 ++ e :: l2) -> rm e (l1 ++ e :: l2) = l1 ++ l2.
Proof.
  intros Hnd. pose proof (NoDup_remove_2 _ _ _ Hnd) as Hni.
  rewrite rm_app. unfold rm at 2. cbn [remove]. destruct (Nat.eq_dec e e); [|congruence].
  fold (rm e l2). rewrite !rm_notin; [reflexivity| |];
    intros Hin; apply Hni; apply in_or_app; tauto.
Qed.

Lemma ring5_rm e P GP U GQ Q :
  rm e (ring5 P GP U GQ Q) = ring5 (rm e P) (rm e GP) (rm e U) (rm e GQ) (rm e Q).
Proof. unfold ring5. rewrite !rm_app, !rm_rev. reflexivity. Qed.

Lemma cnt_ring5 P GP U GQ Q x :
  cnt (ring5 P GP U GQ Q) x = cnt P x + cnt GP x + cnt U x + cnt GQ x + cnt Q x.
Proof. unfold ring5. rewrite !cnt_app, !cnt_rev. lia. Qed.

Lemma nodup_cnt l x : NoDup l -> cnt l x <= 1.
Proof. intros H. apply (proj1 (NoDup_count_occ Nat.eq_dec l) H). Qed.

Lemma length_rm_in l e : NoDup l -> In e l -> length l = S (length (rm e l)).
Proof.
  intros Hnd Hin. pose proof (length_rm l e). pose proof (nodup_cnt l e Hnd).
  apply cnt_in in Hin. lia.
Qed.

(* NoDup of a rearrangement, by counting *)
Lemma nodup_perm l l' : NoDup l -> (forall x, cnt l' x = cnt l x) -> NoDup l'.
Proof.
  intros Hnd Hc. apply (NoDup_count_occ Nat.eq_dec). intros x.
  fold (cnt l' x). rewrite Hc. apply nodup_cnt. exact Hnd.
Qed.

Lemma nodup_app_l (L F : list nat) : NoDup (L ++ F) -> NoDup L.
Proof.
  intros H. apply (NoDup_count_occ Nat.eq_dec). intros x. fold (cnt L x).
  pose proof (nodup_cnt _ x H) as Hc. rewrite cnt_app in Hc. lia.
Qed.

Lemma disjoint_ring_infl (L F : list nat) x : NoDup (L ++ F) -> In x F -> ~ In x L.
Proof.
  intros Hnd HF HL. pose proof (nodup_cnt _ x Hnd) as Hc. rewrite cnt_app in Hc.
  apply cnt_in in HF. apply cnt_in in HL. lia.
Qed.

(** * reuse_cached_entry *)
Lemma rl_move_front r r0 P GP U GQ Q F e P' GP' U' GQ' Q' :
  Rl r P GP U GQ Q F -> In e (ring5 P GP U GQ Q) ->
  ring5 P' GP' U' GQ' Q' = e :: rm e (ring5 P GP U GQ Q) ->
  nx r0 = nx r -> pv r0 = pv r -> split r0 = split r ->
  inflight r0 = inflight r -> ninflight r0 = ninflight r ->
  nprec r0 = length P' -> ngprec r0 = length GP' -> nprobe r0 = length Q' ->
  ngprobe r0 = length GQ' ->
  Rl (r_reuse_cached r0 e) P' GP' U' GQ' Q' F.
Proof.
  intros HR Hin HL' Hnx Hpv Hsp Hif Hnif Hn1 Hn2 Hn3 Hn4.
  destruct HR as [Hring Hne Hsplit Hnd Hnp Hngp Hnq Hngq Hinfl Hnin].
  set (L := ring5 P GP U GQ Q) in *.
  destruct (in_split _ _ Hin) as (l1 & l2 & EL).
  assert (HndL : NoDup L) by (apply nodup_app_l in Hnd; exact Hnd).
  assert (Hrm : rm e L = l1 ++ l2) by (rewrite EL; apply rm_split; rewrite <- EL; exact HndL).
  rewrite EL in Hring, Hsplit.
  destruct (ring_move_front (nx r) (pv r) (split r) l1 e l2 Hring Hsplit) as (Hl & Hs & Hfr).
  unfold r_reuse_cached. rewrite Hsp, Hpv.
  assert (Hshape :
    let r1 := if negb (split r =? e) && negb (split r =? pv r e)
              then r_add_after (r_remove r0 e) e (split r) else r0 in
    nx r1 = (if negb (split r =? e) && negb (split r =? pv r e)
             then fst (add_entry_after (fst (remove_entry (nx r) (pv r) e)) (snd (remove_entry (nx r) (pv r) e)) e (split r)) else nx r) /\
    pv r1 = (if negb (split r =? e) && negb (split r =? pv r e)
             then snd (add_entry_after (fst (remove_entry (nx r) (pv r) e)) (snd (remove_entry (nx r) (pv r) e)) e (split r)) else pv r) /\
    inflight r1 = inflight r /\ ninflight r1 = ninflight r /\
    nprec r1 = nprec r0 /\ ngprec r1 = ngprec r0 /\ nprobe r1 = nprobe r0 /\ ngprobe r1 = ngprobe r0).
  { cbn zeta. destruct (negb (split r =? e) && negb (split r =? pv r e)); rsimp;
      rewrite ?Hnx, ?Hpv; repeat split; assumption || reflexivity. }
  cbn zeta in Hshape.
  set (r1 := if negb (split r =? e) && negb (split r =? pv r e)
             then r_add_after (r_remove r0 e) e (split r) else r0) in *.
  destruct Hshape as (E1 & E2 & E3 & E4 & E5 & E6 & E7 & E8).
  constructor; rsimp; rewrite ?E1, ?E2, ?E3, ?E4, ?E5, ?E6, ?E7, ?E8; try assumption.
  - rewrite HL', Hrm. exact Hl.
  - rewrite HL'. discriminate.
  - rewrite HL', Hrm. symmetry. exact Hs.
  - apply (nodup_perm (L ++ F)); [exact Hnd|]. intros x. rewrite HL', !cnt_app.
    pose proof (nodup_cnt L x HndL). apply cnt_in in Hin.
    cs x e; crw; lia.
  - intros HF. destruct (Hinfl HF) as [HlF HhF]. split; [|exact HhF].
    apply (linked_ext (nx r) (pv r)); [exact HlF| |];
      intros x Hx; apply Hfr; rewrite <- EL; eapply disjoint_ring_infl; eassumption.
Qed.

(** * evict_probe / evict_prec / evict_entry *)
Lemma rl_evict_probe r P GP U GQ Q F cs e :
  Rl r P GP U GQ Q F -> In e Q -> P ++ GP ++ U ++ rev GQ <> [] ->
  c_zprobe cs = Some e -> c_gprobe cs = gprobeP P GP U GQ Q ->
  exists r', r_evict_probe r cs = ROk (r', e) /\
             Rl r' P GP U (e :: GQ) (rm e Q) F /\ raux r' = raux r.
Proof.
  intros HR Hin HA Hz Hg.
  destruct HR as [Hring Hne Hsplit Hnd Hnp Hngp Hnq Hngq Hinfl Hnin].
  set (A := P ++ GP ++ U ++ rev GQ) in *.
  assert (HndL : NoDup (ring5 P GP U GQ Q)) by (apply nodup_app_l in Hnd; exact Hnd).
  assert (HndQ : NoDup Q).
  { apply (NoDup_count_occ Nat.eq_dec). intros x. fold (cnt Q x).
    pose proof (nodup_cnt _ x HndL) as Hc. rewrite cnt_ring5 in Hc. lia. }
  destruct (in_split _ _ Hin) as (q1 & q2 & EQ).
  assert (Hrm : rm e Q = q1 ++ q2) by (rewrite EQ; apply rm_split; rewrite <- EQ; exact HndQ).
  assert (EL : ring5 P GP U GQ Q = A ++ rev q2 ++ e :: rev q1).
  { unfold ring5, A. rewrite EQ, rev_app_distr. cbn [rev]. rewrite <- !app_assoc. reflexivity. }
  assert (EL' : ring5 P GP U (e :: GQ) (rm e Q) = A ++ e :: rev q2 ++ rev q1).
  { unfold ring5, A. rewrite Hrm, rev_app_distr. cbn [rev]. rewrite <- !app_assoc. reflexivity. }
  assert (Hgp : c_gprobe cs = last A 0).
  { rewrite Hg. unfold gprobeP. fold A. apply last_app_ne. exact HA. }
  rewrite EL in Hring, Hsplit.
  destruct (ring_evict_probe (nx r) (pv r) (split r) A (rev q2) e (rev q1) Hring Hsplit HA)
    as (Hl & Hs & Hfr).
  cbn zeta in Hl, Hs, Hfr.
  unfold r_evict_probe. rewrite Hz, Hgp.
  assert (Hlen : length Q = S (length (rm e Q))) by (apply length_rm_in; assumption).
  destruct (negb (pv r e =? last A 0)) eqn:Emv; [destruct (e =? split r) eqn:Ees|];
    rsimp; rewrite Hnq, Hlen;
    (eexists; split; [reflexivity|]; split; [|reflexivity]);
    (constructor; rsimp; try assumption; try reflexivity).
  all: try match goal with
       | |- linked _ _ (ring5 _ _ _ _ _) => rewrite EL'; exact Hl
       | |- ring5 _ _ _ _ _ <> [] => rewrite EL'; destruct A; [congruence|discriminate]
       | |- last _ 0 = _ => rewrite EL'; symmetry; exact Hs
       | |- NoDup _ =>
           apply (nodup_perm (ring5 P GP U GQ Q ++ F)); [exact Hnd|];
           intros x; rewrite !cnt_app, !cnt_ring5; pose proof (nodup_cnt Q x HndQ);
           apply cnt_in in Hin; cs x e; crw; lia
       | |- _ = length (_ :: _) => cbn [length]; lia
       | |- _ <> [] -> _ =>
           intros HF; destruct (Hinfl HF) as [HlF HhF]; split; [|exact HhF];
           apply (linked_ext (nx r) (pv r)); [exact HlF| |];
           intros x Hx; apply Hfr; rewrite <- EL; eapply disjoint_ring_infl; eassumption
       end.
Qed.

Lemma rl_evict_prec r P GP U GQ Q F cs e :
  Rl r P GP U GQ Q F -> In e P -> GP ++ U ++ rev GQ ++ rev Q <> [] ->
  c_zprec cs = Some e -> c_gprec cs = gprecP P GP U GQ Q ->
  exists r', r_evict_prec r cs = ROk (r', e) /\
             Rl r' (rm e P) (e :: GP) U GQ Q F /\ raux r' = raux r.
Proof.
  intros HR Hin HB Hz Hg.
  destruct HR as [Hring Hne Hsplit Hnd Hnp Hngp Hnq Hngq Hinfl Hnin].
  set (B := GP ++ U ++ rev GQ ++ rev Q) in *.
  assert (HndL : NoDup (ring5 P GP U GQ Q)) by (apply nodup_app_l in Hnd; exact Hnd).
  assert (HndP : NoDup P).
  { apply (NoDup_count_occ Nat.eq_dec). intros x. fold (cnt P x).
    pose proof (nodup_cnt _ x HndL) as Hc. rewrite cnt_ring5 in Hc. lia. }
  destruct (in_split _ _ Hin) as (p1 & p2 & EP).
  assert (Hrm : rm e P = p1 ++ p2) by (rewrite EP; apply rm_split; rewrite <- EP; exact HndP).
  assert (EL : ring5 P GP U GQ Q = p1 ++ e :: p2 ++ B).
  { unfold ring5, B. rewrite EP. rewrite <- !app_assoc. reflexivity. }
  assert (EL' : ring5 (rm e P) (e :: GP) U GQ Q = p1 ++ p2 ++ e :: B).
  { unfold ring5, B. rewrite Hrm. rewrite <- !app_assoc. reflexivity. }
  assert (Hgp : c_gprec cs = hd 0 B).
  { rewrite Hg. unfold gprecP. fold B. apply hd_app_ne. exact HB. }
  rewrite EL in Hring, Hsplit.
  destruct (ring_evict_prec (nx r) (pv r) p1 e p2 B Hring HB) as (Hl & Hs & Hfr).
  cbn zeta in Hl, Hs, Hfr.
  unfold r_evict_prec. rewrite Hz, Hgp.
  assert (Hlen : length P = S (length (rm e P))) by (apply length_rm_in; assumption).
  destruct (negb (nx r e =? hd 0 B)) eqn:Emv;
    rsimp; rewrite Hnp, Hlen;
    (eexists; split; [reflexivity|]; split; [|reflexivity]);
    (constructor; rsimp; try assumption; try reflexivity).
  all: try match goal with
       | |- linked _ _ (ring5 _ _ _ _ _) => rewrite EL'; exact Hl
       | |- ring5 _ _ _ _ _ <> [] => rewrite EL'; destruct p1; [destruct p2|]; discriminate
       | |- last _ 0 = _ => rewrite EL', Hs; exact Hsplit
       | |- NoDup _ =>
           apply (nodup_perm (ring5 P GP U GQ Q ++ F)); [exact Hnd|];
           intros x; rewrite !cnt_app, !cnt_ring5; pose proof (nodup_cnt P x HndP);
           apply cnt_in in Hin; cs x e; crw; lia
       | |- _ = length (_ :: _) => cbn [length]; lia
       | |- _ <> [] -> _ =>
           intros HF; destruct (Hinfl HF) as [HlF HhF]; split; [|exact HhF];
           apply (linked_ext (nx r) (pv r)); [exact HlF| |];
           intros x Hx; apply Hfr; rewrite <- EL; eapply disjoint_ring_infl; eassumption
       end.
Qed.

(* evict_entry makes the same choice on both levels *)
Lemma rl_evict_entry r s cs zp nzp zq nzq bias e s1 :
  Rl r (prec s) (gprec s) (unused s) (gprobe s) (probe s) (infl s) ->
  rdprobe r = dprobe s ->
  evict_entry s (mksearch zp nzp zq nzq) bias = Ok (s1, e) ->
  (forall v, zp = Some v -> In v (prec s)) -> (forall v, zq = Some v -> In v (probe s)) ->
  length (prec s) + length (probe s) < length (ring s) ->
  c_zprec cs = zp -> c_nzprec cs = nzp -> c_zprobe cs = zq -> c_nzprobe cs = nzq ->
  c_gprec cs = gprecP (prec s) (gprec s) (unused s) (gprobe s) (probe s) ->
  c_gprobe cs = gprobeP (prec s) (gprec s) (unused s) (gprobe s) (probe s) ->
  exists r', r_evict_entry r cs bias = ROk (r', e) /\
             Rl r' (prec s1) (gprec s1) (unused s1) (gprobe s1) (probe s1) (infl s1) /\
             raux r' = raux r.
Proof.
  intros HR Hdp Hev Hzp Hzq Hroom Ez Enz Ezq Enzq Egp Egq.
  unfold evict_entry in Hev. cbn [zprec nzprec zprobe nzprobe] in Hev.
  unfold r_evict_entry. rewrite Enz, Enzq, Hdp, (L_nq _ _ _ _ _ _ _ HR).
  assert (Hlen : length (ring s) = length (prec s) + length (gprec s) + length (unused s) +
                                   length (gprobe s) + length (probe s)).
  { unfold ring. rewrite !app_length, !rev_length. lia. }
  destruct (negb (nzq =? 0) && ((nzp =? 0) || (dprobe s <? length (probe s) + bias))).
  - destruct zq as [v|]; [|discriminate]. inversion Hev; subst. simp_st.
    apply rl_evict_probe; try assumption.
    + apply Hzq. reflexivity.
    + intros Hn. apply (f_equal (@length nat)) in Hn. rewrite !app_length, rev_length in Hn.
      cbn [length] in Hn. lia.
  - destruct zp as [v|]; [|discriminate]. inversion Hev; subst. simp_st.
    apply rl_evict_prec; try assumption.
    + apply Hzp. reflexivity.
    + intros Hn. apply (f_equal (@length nat)) in Hn. rewrite !app_length, !rev_length in Hn.
      cbn [length] in Hn. lia.
Qed.

(** * Pointer members only *)
Definition rptr (r : rst) :=
  (nx r, pv r, split r, nprec r, ngprec r, nprobe r, ngprobe r, inflight r, ninflight r).

Lemma Rl_ptr r r' P GP U GQ Q F : rptr r' = rptr r -> Rl r P GP U GQ Q F -> Rl r' P GP U GQ Q F.
Proof.
  unfold rptr. intros E [H1 H2 H3 H4 H5 H6 H7 H8 H9 H10]. inversion E as [[E1 E2 E3 E4 E5 E6 E7 E8 E9]].
  constructor; rewrite ?E1, ?E2, ?E3, ?E4, ?E5, ?E6, ?E7, ?E8, ?E9; assumption.
Qed.

(** * Taking an entry out of the main ring into the in-flight ring
      (reuse_ghost_entry, the tail of get_missed_entry) *)
Lemma rl_detach r r0 P GP U GQ Q F e P' GP' U' GQ' Q' :
  Rl r P GP U GQ Q F -> In e (ring5 P GP U GQ Q) ->
  ring5 P' GP' U' GQ' Q' = rm e (ring5 P GP U GQ Q) -> rm e (ring5 P GP U GQ Q) <> [] ->
  nx r0 = nx r -> pv r0 = pv r -> split r0 = split r ->
  inflight r0 = inflight r -> ninflight r0 = ninflight r ->
  nprec r0 = length P' -> ngprec r0 = length GP' -> nprobe r0 = length Q' ->
  ngprobe r0 = length GQ' ->
  Rl (r_add_inflight (r_remove (if split r0 =? e then rset_split (pv r0 e) r0 else r0) e) e)
     P' GP' U' GQ' Q' (F ++ [e]).
Proof.
  intros HR Hin HL' Hne' Hnx Hpv Hsp Hif Hnif Hn1 Hn2 Hn3 Hn4.
  destruct HR as [Hring Hne Hsplit Hnd Hnp Hngp Hnq Hngq Hinfl Hnin].
  set (L := ring5 P GP U GQ Q) in *.
  destruct (in_split _ _ Hin) as (l1 & l2 & EL).
  assert (HndL : NoDup L) by (apply nodup_app_l in Hnd; exact Hnd).
  assert (Hrm : rm e L = l1 ++ l2) by (rewrite EL; apply rm_split; rewrite <- EL; exact HndL).
  rewrite Hrm in *. rewrite EL in Hring, Hsplit.
  destruct (ring_remove_fix (nx r) (pv r) (split r) l1 e l2 Hring Hsplit Hne') as [Hl Hs].
  set (nxr := fst (remove_entry (nx r) (pv r) e)) in *.
  set (pvr := snd (remove_entry (nx r) (pv r) e)) in *.
  assert (HeL : ~ In e (l1 ++ l2)) by (rewrite EL in HndL; exact (NoDup_remove_2 _ _ _ HndL)).
  assert (HFL : forall x, In x F -> ~ In x L) by (intros x Hx; eapply disjoint_ring_infl; eassumption).
  assert (HeF : ~ In e F).
  { intros HF. apply (HFL e HF). exact Hin. }
  (* the removal does not touch the in-flight ring *)
  assert (HfrF : forall x, In x F -> nxr x = nx r x /\ pvr x = pv r x).
  { intros x Hx. destruct (remove_frame (nx r) (pv r) e x) as [G1 G2].
    destruct (linked_closed _ _ _ e Hring) as [Hn Hp]; [apply in_or_app; right; left; reflexivity|].
    rewrite <- EL in Hn, Hp.
    split; [apply G1|apply G2]; intros ->; apply (HFL _ Hx); assumption. }
  assert (Hperm : forall x, cnt ((l1 ++ l2) ++ F ++ [e]) x = cnt (L ++ F) x).
  { intros x. rewrite EL, !cnt_app, cnt_cons. rewrite (cnt_cons l2).
    destruct (Nat.eq_dec e x); cbn [cnt count_occ]; lia. }
  assert (Hsplit' : split (if split r0 =? e then rset_split (pv r0 e) r0 else r0) =
                    (if split r =? e then pv r e else split r)).
  { rewrite Hsp, Hpv. destruct (split r =? e); rsimp; [reflexivity|exact Hsp]. }
  assert (Hsame : forall (f : rst -> nat), (forall v, f (rset_split v r0) = f r0) ->
                  f (if split r0 =? e then rset_split (pv r0 e) r0 else r0) = f r0).
  { intros f Hf. destruct (split r0 =? e); [apply Hf|reflexivity]. }
  assert (Hsamef : forall (f : rst -> nat -> nat), (forall v, f (rset_split v r0) = f r0) ->
                  f (if split r0 =? e then rset_split (pv r0 e) r0 else r0) = f r0).
  { intros f Hf. destruct (split r0 =? e); [apply Hf|reflexivity]. }
  set (r0' := if split r0 =? e then rset_split (pv r0 e) r0 else r0) in *.
  assert (Ea : nx r0' = nx r) by (rewrite (Hsamef nx); [exact Hnx|reflexivity]).
  assert (Eb : pv r0' = pv r) by (rewrite (Hsamef pv); [exact Hpv|reflexivity]).
  assert (Ec : inflight r0' = inflight r) by (rewrite (Hsame inflight); [exact Hif|reflexivity]).
  assert (Ed : ninflight r0' = ninflight r) by (rewrite (Hsame ninflight); [exact Hnif|reflexivity]).
  assert (Ee : nprec r0' = nprec r0) by (apply (Hsame nprec); reflexivity).
  assert (Ef : ngprec r0' = ngprec r0) by (apply (Hsame ngprec); reflexivity).
  assert (Eg : nprobe r0' = nprobe r0) by (apply (Hsame nprobe); reflexivity).
  assert (Eh : ngprobe r0' = ngprobe r0) by (apply (Hsame ngprobe); reflexivity).
  clearbody r0'.
  unfold r_add_inflight. rsimp. rewrite Ed, Hnin.
  destruct F as [|h f'].
  - (* first in-flight entry *)
    cbn [length Nat.eqb]. constructor; rsimp; rewrite ?Ea, ?Eb, ?Ee, ?Ef, ?Eg, ?Eh; try assumption.
    + rewrite HL'. apply (linked_ext nxr pvr); [exact Hl| |];
        intros x Hx; apply upd_neq; intros ->; contradiction.
    + rewrite HL'. exact Hne'.
    + rewrite HL', Hsplit'. symmetry. exact Hs.
    + rewrite HL'. apply (nodup_perm (L ++ [])); [exact Hnd|exact Hperm].
    + intros _. split; [apply add_inflight_first|reflexivity].
    + reflexivity.
  - change (length (h :: f') =? 0) with false. cbn iota.
    destruct Hinfl as [HlF HhF]; [discriminate|]. cbn [hd] in HhF.
    assert (HlF' : linked nxr pvr (h :: f')).
    { apply (linked_ext (nx r) (pv r)); [exact HlF| |]; intros x Hx; apply HfrF; exact Hx. }
    pose proof (add_inflight_append nxr pvr h f' e HlF' HeF) as Happ.
    constructor; rsimp; rewrite ?Ea, ?Eb, ?Ec, ?Ee, ?Ef, ?Eg, ?Eh, <- ?HhF; fold nxr pvr; try assumption.
    + rewrite HL'. apply (linked_ext nxr pvr); [exact Hl| |]; intros x Hx.
      * destruct (add_before_frame nxr pvr e h x) as [G1 _]. apply G1.
        -- intros ->; contradiction.
        -- destruct (linked_closed _ _ _ h HlF') as [_ Hp]; [left; reflexivity|].
           intros ->. apply (HFL _ Hp). rewrite EL. apply in_app_or in Hx. apply in_or_app.
           destruct Hx; [left; assumption|right; right; assumption].
      * destruct (add_before_frame nxr pvr e h x) as [_ G2]. apply G2.
        -- intros ->; contradiction.
        -- intros ->. apply (HFL h); [left; reflexivity|]. rewrite EL.
           apply in_app_or in Hx. apply in_or_app.
           destruct Hx; [left; assumption|right; right; assumption].
    + rewrite HL'. exact Hne'.
    + rewrite HL', Hsplit'. symmetry. exact Hs.
    + rewrite HL'. apply (nodup_perm (L ++ h :: f')); [exact Hnd|exact Hperm].
    + intros _. split; [exact Happ|reflexivity].
    + rewrite app_length. cbn [length]. lia.
Qed.

(** * Taking an entry out of the in-flight ring (cache_insert, cache_discard) *)
Lemma rl_infl_remove r P GP U GQ Q F e n :
  Rl r P GP U GQ Q F -> In e F -> ninflight r = S n ->
  let r2 := rset_ninflight n r in
  let r3 := if inflight r2 =? e then rset_inflight (nx r2 e) r2 else r2 in
  Rl (r_remove r3 e) P GP U GQ Q (rm e F) /\ ~ In e (ring5 P GP U GQ Q ++ rm e F).
Proof.
  intros HR Hin Hn. cbn zeta.
  destruct HR as [Hring Hne Hsplit Hnd Hnp Hngp Hnq Hngq Hinfl Hnin].
  set (L := ring5 P GP U GQ Q) in *.
  assert (HndF : NoDup F).
  { apply (NoDup_count_occ Nat.eq_dec). intros x. fold (cnt F x).
    pose proof (nodup_cnt _ x Hnd) as Hc. rewrite cnt_app in Hc. lia. }
  destruct (in_split _ _ Hin) as (f1 & f2 & EF).
  assert (Hrm : rm e F = f1 ++ f2) by (rewrite EF; apply rm_split; rewrite <- EF; exact HndF).
  assert (HeL : ~ In e L) by (eapply disjoint_ring_infl; eassumption).
  assert (HFL : forall x, In x F -> ~ In x L) by (intros x Hx; eapply disjoint_ring_infl; eassumption).
  assert (Hni : ~ In e (L ++ rm e F)).
  { intros Hi. apply in_app_or in Hi. destruct Hi as [Hi|Hi]; [contradiction|].
    rewrite Hrm in Hi. rewrite EF in HndF. exact (NoDup_remove_2 _ _ _ HndF Hi). }
  split; [|exact Hni].
  destruct Hinfl as [HlF HhF]; [intros E; rewrite E in Hin; contradiction|].
  assert (Hcl : In (nx r e) F /\ In (pv r e) F) by (apply (linked_closed _ _ _ e HlF Hin)).
  (* pointer members of the state after the removal *)
  set (r3 := if inflight (rset_ninflight n r) =? e
             then rset_inflight (nx (rset_ninflight n r) e) (rset_ninflight n r)
             else rset_ninflight n r).
  assert (E3 : nx r3 = nx r /\ pv r3 = pv r /\ split r3 = split r /\ nprec r3 = nprec r /\
               ngprec r3 = ngprec r /\ nprobe r3 = nprobe r /\ ngprobe r3 = ngprobe r /\
               ninflight r3 = n /\ inflight r3 = (if inflight r =? e then nx r e else inflight r)).
  { unfold r3. rsimp. destruct (inflight r =? e); rsimp; repeat split; reflexivity. }
  destruct E3 as (E1 & E2 & E3 & E4 & E5 & E6 & E7 & E8 & E9). clearbody r3.
  assert (Hfr : forall x, In x L ->
            fst (remove_entry (nx r) (pv r) e) x = nx r x /\
            snd (remove_entry (nx r) (pv r) e) x = pv r x).
  { intros x Hx. destruct (remove_frame (nx r) (pv r) e x) as [G1 G2].
    split; [apply G1|apply G2]; intros ->; [apply (HFL (pv r e))|apply (HFL (nx r e))]; tauto. }
  constructor; rsimp; rewrite ?E1, ?E2, ?E3, ?E4, ?E5, ?E6, ?E7, ?E8; try assumption.
  - apply (linked_ext (nx r) (pv r)); [exact Hring| |]; intros x Hx; apply Hfr; exact Hx.
  - apply (NoDup_count_occ Nat.eq_dec). intros x. fold L. fold (cnt (L ++ rm e F) x).
    pose proof (nodup_cnt _ x Hnd) as Hc. rewrite cnt_app in *.
    cs x e; crw; lia.
  - intros HF'. rewrite Hrm in *. rewrite EF in HlF.
    split; [apply remove_entry_linked; assumption|].
    rewrite E9. rewrite <- HhF, EF.
    destruct f1 as [|a f1]; cbn [app hd].
    + rewrite Nat.eqb_refl. rewrite (linked_succ _ _ [] e f2 HlF). rewrite app_nil_r.
      destruct f2; [contradiction|reflexivity].
    + destruct (Nat.eqb_spec a e) as [->|Hae]; [|reflexivity].
      exfalso. rewrite EF in HndF. apply NoDup_remove_2 in HndF. apply HndF. left. reflexivity.
  - rewrite Hrm. rewrite Hnin, EF, app_length in Hn. cbn [length] in Hn. rewrite app_length. lia.
Qed.

(* add_entry_after leaves everything outside the ring and the new entry alone *)
Lemma add_after_outside nx pv L e ins x :
  linked nx pv L -> In ins L -> ~ In x L -> x <> e ->
  fst (add_entry_after nx pv e ins) x = nx x /\ snd (add_entry_after nx pv e ins) x = pv x.
Proof.
  intros Hl Hi Hx Hxe. destruct (add_after_frame nx pv e ins x) as [G1 G2].
  destruct (linked_closed _ _ _ ins Hl Hi) as [Hn _].
  split; [apply G1|apply G2]; try assumption; intros ->; contradiction.
Qed.

(** * Putting an entry (in no ring) into the main ring *)
Section Attach.
  Variables (r : rst) (P GP U GQ Q F : list nat) (e : nat).
  Hypothesis HR : Rl r P GP U GQ Q F.
  Hypothesis He : ~ In e (ring5 P GP U GQ Q ++ F).

  Let L := ring5 P GP U GQ Q.

  Lemma attach_frame ins x : In ins L -> In x F ->
    fst (add_entry_after (nx r) (pv r) e ins) x = nx r x /\
    snd (add_entry_after (nx r) (pv r) e ins) x = pv r x.
  Proof.
    intros Hi Hx. apply (add_after_outside _ _ L); try assumption.
    - exact (L_ring _ _ _ _ _ _ _ HR).
    - eapply disjoint_ring_infl; [exact (L_nd _ _ _ _ _ _ _ HR)|exact Hx].
    - intros ->. apply He. apply in_or_app. right. exact Hx.
  Qed.

  Lemma attach_infl ins : In ins L -> F <> [] ->
    linked (fst (add_entry_after (nx r) (pv r) e ins)) (snd (add_entry_after (nx r) (pv r) e ins)) F /\
    hd 0 F = inflight r.
  Proof.
    intros Hi HF. destruct (L_infl _ _ _ _ _ _ _ HR HF) as [Hl Hh]. split; [|exact Hh].
    apply (linked_ext (nx r) (pv r)); [exact Hl| |]; intros x Hx; apply attach_frame; assumption.
  Qed.

  Lemma attach_nodup L' : (forall x, cnt L' x = cnt L x + cnt [e] x) -> NoDup (L' ++ F).
  Proof.
    intros Hc. apply (NoDup_count_occ Nat.eq_dec). intros x. fold (cnt (L' ++ F) x).
    pose proof (nodup_cnt _ x (L_nd _ _ _ _ _ _ _ HR)) as H1. fold L in H1.
    rewrite cnt_app in *. rewrite Hc.
    assert (cnt L e + cnt F e = 0).
    { apply cnt_notin in He. fold L in He. rewrite cnt_app in He. exact He. }
    cs x e; crw; lia.
  Qed.

  Lemma split_in : In (split r) L.
  Proof. rewrite <- (L_split _ _ _ _ _ _ _ HR). apply last_in_ne. exact (L_ne _ _ _ _ _ _ _ HR). Qed.

  (* after the split element: the new entry is the last one in next order
     from ce[split].next, i.e. the first one when split does not move *)
  Lemma attach_after_split :
    linked (fst (add_entry_after (nx r) (pv r) e (split r)))
           (snd (add_entry_after (nx r) (pv r) e (split r))) (L ++ [e]).
  Proof.
    destruct (exists_last (L_ne _ _ _ _ _ _ _ HR)) as (m & sp & E). fold L in E.
    assert (Hsp : sp = split r).
    { rewrite <- (L_split _ _ _ _ _ _ _ HR). fold L. rewrite E, last_last. reflexivity. }
    subst sp. rewrite E. rewrite <- app_assoc. cbn [app].
    apply add_entry_after_linked.
    - rewrite <- E. exact (L_ring _ _ _ _ _ _ _ HR).
    - rewrite <- E. intros Hi. apply He. apply in_or_app. left. exact Hi.
  Qed.

  (* cache_insert, target precious *)
  Lemma rl_insert_prec :
    let r' := r_add_after r e (split r) in
    Rl (rset_nprec (S (nprec r')) r') (e :: P) GP U GQ Q F.
  Proof.
    cbn zeta. pose proof attach_after_split as Hl. apply linked_rot in Hl.
    constructor; rsimp; try (apply HR).
    - exact Hl.
    - discriminate.
    - change (ring5 (e :: P) GP U GQ Q) with (e :: L). rewrite last_cons.
      rewrite <- (L_split _ _ _ _ _ _ _ HR). fold L. apply last_default. exact (L_ne _ _ _ _ _ _ _ HR).
    - apply (attach_nodup (e :: L)). intros x. rewrite !cnt_cons, cnt_nil. lia.
    - cbn [length]. rewrite (L_np _ _ _ _ _ _ _ HR). reflexivity.
    - apply attach_infl. exact split_in.
  Qed.

  (* cache_insert, target probe: the new entry becomes split *)
  Lemma rl_insert_probe :
    let r' := r_add_after r e (split r) in
    Rl (rset_split e (rset_nprobe (S (nprobe r')) r')) P GP U GQ (e :: Q) F.
  Proof.
    cbn zeta. pose proof attach_after_split as Hl.
    assert (E : ring5 P GP U GQ (e :: Q) = L ++ [e]).
    { unfold L, ring5. cbn [rev]. rewrite <- !app_assoc. reflexivity. }
    constructor; rsimp; try (apply HR).
    - rewrite E. exact Hl.
    - rewrite E. destruct L; discriminate.
    - rewrite E. apply last_last.
    - apply (attach_nodup (ring5 P GP U GQ (e :: Q))). intros x. rewrite E, cnt_app. reflexivity.
    - cbn [length]. rewrite (L_nq _ _ _ _ _ _ _ HR). reflexivity.
    - apply attach_infl. exact split_in.
  Qed.
End Attach.

Section Discard.
  Variables (r : rst) (P GP U GQ Q F : list nat) (e : nat).
  Hypothesis HR : Rl r P GP U GQ Q F.
  Hypothesis He : ~ In e (ring5 P GP U GQ Q ++ F).

  Let L := ring5 P GP U GQ Q.
  Let D := P ++ GP ++ U.
  Let w := rev GQ ++ rev Q.

  (* cache_discard: back into the unused partition, next to the ghost-probe side *)
  Lemma rl_discard_tail :
    let cnt := nprobe r + ngprobe r in
    let eprobe := chase (pv r) cnt (split r) in
    let r5 := if cnt =? 0 then rset_split e r else r in
    Rl (r_add_after r5 e eprobe) P GP (U ++ [e]) GQ Q F.
  Proof.
    cbn zeta.
    assert (EL : L = D ++ w) by (unfold L, D, w, ring5; rewrite <- !app_assoc; reflexivity).
    assert (Hcnt : nprobe r + ngprobe r = length w).
    { unfold w. rewrite app_length, !rev_length, (L_nq _ _ _ _ _ _ _ HR), (L_ngq _ _ _ _ _ _ _ HR). lia. }
    assert (Hch : chase (pv r) (length w) (split r) = last (w ++ D) 0).
    { rewrite <- (L_split _ _ _ _ _ _ _ HR). fold L. rewrite EL.
      apply (walk_chase_bwd (nx r) (pv r) w D 0).
      - rewrite <- EL. exact (L_ring _ _ _ _ _ _ _ HR).
      - rewrite <- EL. exact (L_ne _ _ _ _ _ _ _ HR). }
    assert (EL' : ring5 P GP (U ++ [e]) GQ Q = D ++ e :: w).
    { unfold D, w, ring5. rewrite <- !app_assoc. reflexivity. }
    assert (Hnd' : NoDup (ring5 P GP (U ++ [e]) GQ Q ++ F)).
    { apply (attach_nodup r P GP U GQ Q F e HR He). intros x.
      rewrite !cnt_ring5, !cnt_app. lia. }
    rewrite Hcnt, Hch.
    destruct w as [|a w'] eqn:Ew.
    - (* no probed and no ghost-probe entries: the entry becomes split *)
      cbn [length Nat.eqb app]. rewrite app_nil_r in EL.
      pose proof (attach_after_split r P GP U GQ Q F e HR He) as Hl. fold L in Hl.
      assert (Hsp : last D 0 = split r) by (rewrite <- EL; exact (L_split _ _ _ _ _ _ _ HR)).
      rewrite Hsp.
      constructor; rsimp; try (apply HR); try assumption.
      + rewrite EL', <- EL. exact Hl.
      + rewrite EL'. destruct D; discriminate.
      + rewrite EL'. apply last_last.
      + apply (attach_infl r P GP U GQ Q F e HR He). apply (split_in r P GP U GQ Q F HR).
    - change (length (a :: w') =? 0) with false. cbn iota.
      destruct D as [|d0 D0] eqn:ED.
      + (* everything is probed or ghost-probe: after split, i.e. in front *)
        rewrite app_nil_r. cbn [app] in EL.
        assert (Hsp : last (a :: w') 0 = split r) by (rewrite <- EL; exact (L_split _ _ _ _ _ _ _ HR)).
        rewrite Hsp.
        pose proof (attach_after_split r P GP U GQ Q F e HR He) as Hl. fold L in Hl.
        apply linked_rot in Hl.
        constructor; rsimp; try (apply HR); try assumption.
        * rewrite EL'. cbn [app]. rewrite <- EL. exact Hl.
        * rewrite EL'. discriminate.
        * rewrite EL'. cbn [app]. rewrite last_cons, <- Hsp. apply last_default. discriminate.
        * apply (attach_infl r P GP U GQ Q F e HR He). apply (split_in r P GP U GQ Q F HR).
      + (* after the last entry of the precious/ghost-precious/unused side *)
        assert (HD : d0 :: D0 <> []) by discriminate.
        rewrite (last_app_ne _ (d0 :: D0) 0 HD).
        destruct (exists_last HD) as (D' & d & ED'). rewrite ED', last_last.
        assert (Hl : linked (fst (add_entry_after (nx r) (pv r) e d))
                            (snd (add_entry_after (nx r) (pv r) e d)) (D' ++ d :: e :: a :: w')).
        { apply add_entry_after_linked.
          - replace (D' ++ d :: a :: w') with L; [exact (L_ring _ _ _ _ _ _ _ HR)|].
            rewrite EL, ED', <- app_assoc. reflexivity.
          - intros Hi. apply He. apply in_or_app. left. fold L.
            rewrite EL, ED', <- app_assoc. exact Hi. }
        assert (Hd : In d L).
        { rewrite EL, ED'. apply in_or_app. left. apply in_or_app. right. left. reflexivity. }
        constructor; rsimp; try (apply HR); try assumption.
        * rewrite EL', ED', <- app_assoc. exact Hl.
        * rewrite EL'. discriminate.
        * rewrite EL'. rewrite <- (L_split _ _ _ _ _ _ _ HR). fold L. rewrite EL.
          change ((d0 :: D0) ++ e :: a :: w') with ((d0 :: D0) ++ [e] ++ (a :: w')).
          rewrite app_assoc, !(last_app_ne _ (a :: w')) by discriminate. reflexivity.
        * apply (attach_infl r P GP U GQ Q F e HR He). exact Hd.
  Qed.
End Discard.

(** * reclaim_data: the repaired walk ends on the first data-bearing unused entry *)
Lemma ptr_reclaim r P GP U GQ Q F em x fu' :
  Rl r P GP U GQ Q F -> U = em ++ x :: fu' ->
  chase (pv r) (length GQ + length fu') (gprobeP P GP U GQ Q) = x.
Proof.
  intros HR EU.
  assert (E : rev Q ++ (P ++ GP ++ U ++ rev GQ) = (rev Q ++ P ++ GP ++ em ++ [x]) ++ (fu' ++ rev GQ)).
  { rewrite EU. rewrite <- !app_assoc. reflexivity. }
  unfold gprobeP. rewrite E.
  replace (length GQ + length fu') with (length (fu' ++ rev GQ)) by (rewrite app_length, rev_length; lia).
  destruct (walk_chase_bwd (nx r) (pv r) (fu' ++ rev GQ) (rev Q ++ P ++ GP ++ em ++ [x]) 0) as [_ Hc].
  - rewrite <- E. apply (rot_linked r P GP U GQ Q F HR). unfold ring5. rewrite <- !app_assoc. reflexivity.
  - rewrite <- E. apply (rot_ne r P GP U GQ Q F HR). unfold ring5. rewrite <- !app_assoc. reflexivity.
  - rewrite Hc. rewrite !app_assoc. apply last_last.
Qed.

(** * get_missed_entry: which entry is recycled *)
Lemma nodup_hd_neq (l1 l2 : list nat) a u :
  NoDup ((a :: l1) ++ u :: l2) -> a <> u.
Proof.
  intros Hnd ->. pose proof (nodup_cnt _ u Hnd) as Hc.
  rewrite cnt_app, !cnt_cons_eq in Hc. lia.
Qed.

Lemma missed_select r P GP U GQ Q F :
  Rl r P GP U GQ Q F ->
  let eprobe := eprobeP P GP U GQ Q in
  let eprec := eprecP P GP U GQ Q in
  let sel := if nx r eprobe =? eprec then
               if negb (ngprobe r =? 0) then (rset_ngprobe (ngprobe r - 1) r, nx r eprobe)
               else if negb (ngprec r =? 0) then (rset_ngprec (ngprec r - 1) r, eprobe)
               else (r, eprobe)
             else (r, eprobe) in
  (forall u' e, U = u' ++ [e] -> sel = (r, e)) /\
  (forall g' e, U = [] -> GQ = g' ++ [e] ->
     sel = (rset_ngprobe (length g') r, e) /\ Rl (rset_ngprobe (length g') r) P GP [e] g' Q F) /\
  (forall g' e, U = [] -> GQ = [] -> GP = g' ++ [e] ->
     sel = (rset_ngprec (length g') r, e) /\ Rl (rset_ngprec (length g') r) P g' [e] [] Q F).
Proof.
  intros HR. cbn zeta.
  set (M := rev GQ ++ rev Q ++ P ++ GP ++ U).
  assert (EM0 : M = (rev GQ ++ rev Q) ++ P ++ GP ++ U) by (unfold M; rewrite <- app_assoc; reflexivity).
  assert (HM : linked (nx r) (pv r) M).
  { rewrite EM0. apply (rot_linked r P GP U GQ Q F HR (P ++ GP ++ U) (rev GQ ++ rev Q)).
    unfold ring5. rewrite <- !app_assoc. reflexivity. }
  assert (HMne : M <> []).
  { rewrite EM0. apply (rot_ne r P GP U GQ Q F HR (P ++ GP ++ U) (rev GQ ++ rev Q)).
    unfold ring5. rewrite <- !app_assoc. reflexivity. }
  clear EM0.
  assert (Hnxe : nx r (eprobeP P GP U GQ Q) = hd 0 M).
  { unfold eprobeP. fold M. apply (linked_wrap _ _ _ 0 HM HMne). }
  assert (HndM : NoDup M) by (apply (linked_NoDup _ _ _ HM)).
  split; [|split].
  - (* an unused entry exists: it is the last one, whatever the test says *)
    intros u' e EU.
    assert (Hep : eprobeP P GP U GQ Q = e).
    { unfold eprobeP. rewrite EU, !app_assoc. apply last_last. }
    rewrite Hep in *. rewrite Hnxe.
    destruct (Nat.eqb_spec (hd 0 M) (eprecP P GP U GQ Q)) as [Heq|]; [|reflexivity].
    (* then the ring consists of unused entries only *)
    assert (Hall : rev GQ ++ rev Q ++ P ++ GP = []).
    { destruct (rev GQ ++ rev Q ++ P ++ GP) as [|a m] eqn:E; [reflexivity|]. exfalso.
      unfold eprecP in Heq. rewrite EU in Heq.
      assert (EM : M = (a :: m) ++ u' ++ [e]) by (unfold M; rewrite EU, <- E, <- !app_assoc; reflexivity).
      rewrite EM in Heq, HndM. cbn [app hd] in Heq.
      destruct u' as [|u u'']; cbn [app hd] in Heq.
      - apply (nodup_hd_neq m [] a e); [exact HndM|exact Heq].
      - apply (nodup_hd_neq m (u'' ++ [e]) a u); [exact HndM|exact Heq]. }
    apply app_eq_nil in Hall. destruct Hall as [E1 Hall].
    apply app_eq_nil in Hall. destruct Hall as [_ Hall].
    apply app_eq_nil in Hall. destruct Hall as [_ E4].
    assert (GQ = []) by (destruct GQ; [reflexivity|cbn in E1; destruct (rev GQ); discriminate]).
    subst GQ GP. rewrite (L_ngq _ _ _ _ _ _ _ HR), (L_ngp _ _ _ _ _ _ _ HR). reflexivity.
  - intros g' e EU EGQ. subst U GQ.
    assert (Heq : hd 0 M = eprecP P GP [] (g' ++ [e]) Q).
    { unfold eprecP, M. rewrite !app_nil_r. cbn [app]. rewrite <- !app_assoc. reflexivity. }
    rewrite Hnxe, Heq, Nat.eqb_refl.
    rewrite (L_ngq _ _ _ _ _ _ _ HR), app_length. cbn [length].
    replace (length g' + 1 =? 0) with false by (symmetry; apply Nat.eqb_neq; lia). cbn [negb].
    replace (length g' + 1 - 1) with (length g') by lia.
    assert (Hhd : hd 0 M = e).
    { unfold M. rewrite rev_app_distr. reflexivity. }
    rewrite <- Heq, Hhd. split; [reflexivity|].
    destruct HR as [H1 H2 H3 H4 H5 H6 H7 H8 H9 H10].
    assert (E5 : ring5 P GP [e] g' Q = ring5 P GP [] (g' ++ [e]) Q).
    { unfold ring5. rewrite rev_app_distr. cbn [rev app]. rewrite <- ?app_assoc. reflexivity. }
    constructor; rsimp; rewrite ?E5; try assumption. reflexivity.
  - intros g' e EU EGQ EGP. subst U GQ GP.
    assert (Heq : hd 0 M = eprecP P (g' ++ [e]) [] [] Q).
    { unfold eprecP, M. cbn [rev app]. rewrite !app_nil_r. rewrite <- !app_assoc. reflexivity. }
    rewrite Hnxe, Heq, Nat.eqb_refl.
    rewrite (L_ngq _ _ _ _ _ _ _ HR), (L_ngp _ _ _ _ _ _ _ HR), app_length. cbn [length Nat.eqb negb].
    replace (length g' + 1 =? 0) with false by (symmetry; apply Nat.eqb_neq; lia). cbn [negb].
    replace (length g' + 1 - 1) with (length g') by lia.
    assert (Hep : eprobeP P (g' ++ [e]) [] [] Q = e).
    { unfold eprobeP. cbn [rev app]. rewrite app_nil_r, !app_assoc. apply last_last. }
    rewrite Hep. split; [reflexivity|].
    destruct HR as [H1 H2 H3 H4 H5 H6 H7 H8 H9 H10].
    assert (E5 : ring5 P g' [e] [] Q = ring5 P (g' ++ [e]) [] [] Q).
    { unfold ring5. cbn [rev app]. rewrite <- ?app_assoc. reflexivity. }
    constructor; rsimp; rewrite ?E5; try assumption. reflexivity.
Qed.

(** * cache_flush / cache_alloc *)
Lemma rl_fresh r c : 0 < c ->
  nx r = flush_nx c -> pv r = flush_pv c -> split r = 0 ->
  nprec r = 0 -> ngprec r = 0 -> nprobe r = 0 -> ngprobe r = 0 -> ninflight r = 0 ->
  Rl r [] [] (rev (seq 0 (2 * c))) [] [] [].
Proof.
  intros Hc E1 E2 E3 E4 E5 E6 E7 E8.
  assert (E : ring5 [] [] (rev (seq 0 (2 * c))) [] [] = rev (seq 0 (2 * c))).
  { unfold ring5. cbn [rev app]. apply app_nil_r. }
  constructor; rewrite ?E, ?E1, ?E2, ?E3, ?E4, ?E5, ?E6, ?E7, ?E8; try reflexivity.
  - apply flush_linked. exact Hc.
  - replace (2 * c) with (S (2 * c - 1)) by lia. rewrite seq_S, rev_app_distr. discriminate.
  - replace (2 * c) with (S (2 * c - 1)) by lia. cbn [seq rev]. apply last_last.
  - rewrite app_nil_r. apply NoDup_rev, seq_NoDup.
  - intros H; congruence.
Qed.

Lemma R_init c : 0 < c -> R (rinit c) (init c).
Proof.
  intros Hc. split; [|reflexivity]. cbn [init prec gprec unused gprobe probe infl].
  apply (rl_fresh _ c); try reflexivity. exact Hc.
Qed.

(** * The operations *)
Definition sim_post (r : rst) (s : st) (o : op) : Prop :=
  exists s' r' x ev, step true s o = Ok (s', x, ev) /\ rstep r o = ROk (r', x, ev) /\ R r' s'.

Ltac aux_inv H :=
  unfold raux, saux in H;
  let A1 := fresh "Adp" in let A2 := fresh "Acap" in let A3 := fresh "Akey" in
  let A4 := fresh "Aref" in let A5 := fresh "Adata" in let A6 := fresh "Aest" in
  let A7 := fresh "Ahits" in let A8 := fresh "Amiss" in let A9 := fresh "Apend" in
  let A10 := fresh "Aplain" in let A11 := fresh "Acont" in
  injection H as A1 A2 A3 A4 A5 A6 A7 A8 A9 A10 A11.

Ltac aux_done :=
  unfold raux, saux; rsimp; simp_st;
  repeat match goal with H : _ = _ |- _ => rewrite H end; reflexivity.

Lemma sim_put r s e : R r s -> InvC s -> In e (plain s) -> sim_post r s (Put e).
Proof.
  intros [HRl Haux] H Hin. aux_inv Haux.
  destruct (put_ok s e H Hin) as (s' & Hs & _).
  unfold sim_post. cbn [step rstep]. rewrite Hs.
  unfold do_put in Hs. unfold r_do_put. rsimp. simp_st. rewrite Aref, Aplain.
  destruct (ref s e) as [|n]; [discriminate|]. inversion Hs; subst s'.
  do 4 eexists. split; [reflexivity|]. split; [reflexivity|]. split.
  - simp_st. apply (Rl_ptr r); [reflexivity|exact HRl].
  - unfold raux, saux. rsimp. simp_st. congruence.
Qed.

Lemma sim_discard r s e : R r s -> InvC s -> In e (pend s) -> sim_post r s (Discard e).
Proof.
  intros [HRl Haux] H Hin. aux_inv Haux.
  destruct (discard_ok s e H Hin) as (s' & Hs & _).
  unfold sim_post. cbn [step rstep]. rewrite Hs.
  unfold do_discard in Hs. unfold r_do_discard. rsimp. simp_st. rewrite Aref, Apend, Aest.
  destruct (ref s e) as [|c]; [discriminate|].
  destruct (negb (c =? 0)).
  { inversion Hs; subst s'. do 4 eexists. split; [reflexivity|]. split; [reflexivity|]. split.
    - simp_st. apply (Rl_ptr r); [reflexivity|exact HRl].
    - unfold raux, saux. rsimp. simp_st. congruence. }
  destruct (estate_valid (est s e)).
  { inversion Hs; subst s'. do 4 eexists. split; [reflexivity|]. split; [reflexivity|]. split.
    - simp_st. apply (Rl_ptr r); [reflexivity|exact HRl].
    - unfold raux, saux. rsimp. simp_st. congruence. }
  destruct (existsb (Nat.eqb e) (infl s)) eqn:Hmem; [|discriminate].
  apply memb_in in Hmem. inversion Hs; subst s'. clear Hs.
  assert (Hn : ninflight r = S (length (infl s) - 1)).
  { rewrite (L_nin _ _ _ _ _ _ _ HRl). destruct (infl s); [contradiction|cbn [length]; lia]. }
  rewrite Hn.
  set (r1 := rset_ref (upd (ref s) e c) (rset_pend (rm1 e (pend s)) r)).
  assert (HRl1 : Rl r1 (prec s) (gprec s) (unused s) (gprobe s) (probe s) (infl s))
    by (apply (Rl_ptr r); [reflexivity|exact HRl]).
  destruct (rl_infl_remove r1 _ _ _ _ _ _ e (length (infl s) - 1) HRl1 Hmem Hn) as [HRl4 Hni].
  cbn zeta in HRl4.
  pose proof (rl_discard_tail _ _ _ _ _ _ _ e HRl4 Hni) as HRl5. cbn zeta in HRl5.
  do 4 eexists. split; [reflexivity|]. split; [reflexivity|]. split.
  - simp_st. exact HRl5.
  - unfold raux, saux. subst r1. rsimp. simp_st.
    destruct (inflight r =? e); rsimp; destruct (_ =? 0); rsimp; congruence.
Qed.

Lemma sim_insert r s e : R r s -> InvC s -> In e (pend s) -> sim_post r s (Insert e).
Proof.
  intros [HRl Haux] H Hin. aux_inv Haux.
  destruct (insert_ok s e H Hin) as (s' & Hs & _).
  unfold sim_post. cbn [step rstep]. rewrite Hs.
  unfold do_insert in Hs. unfold r_do_insert. rsimp. simp_st.
  rewrite Adata, Apend, Aplain, Akey, Acont.
  set (r1 := match data s e with
             | Some t => rset_content (upd (content s) t (Some (key s e)))
                           (rset_plain (plain s ++ [e]) (rset_pend (rm1 e (pend s)) r))
             | None => rset_plain (plain s ++ [e]) (rset_pend (rm1 e (pend s)) r)
             end).
  set (s1 := match data s e with
             | Some t => set_content (upd (content s) t (Some (key s e)))
                           (set_plain (plain s ++ [e]) (set_pend (rm1 e (pend s)) s))
             | None => set_plain (plain s ++ [e]) (set_pend (rm1 e (pend s)) s)
             end) in *.
  assert (Hp1 : rptr r1 = rptr r) by (unfold r1; destruct (data s e); reflexivity).
  assert (Ha1 : raux r1 = saux s1).
  { unfold r1, s1, raux, saux. destruct (data s e); rsimp; simp_st; congruence. }
  assert (Hl1 : prec s1 = prec s /\ gprec s1 = gprec s /\ unused s1 = unused s /\
                gprobe s1 = gprobe s /\ probe s1 = probe s /\ infl s1 = infl s /\ est s1 = est s).
  { unfold s1. destruct (data s e); repeat split; reflexivity. }
  destruct Hl1 as (L1 & L2 & L3 & L4 & L5 & L6 & L7).
  assert (HRl1 : Rl r1 (prec s) (gprec s) (unused s) (gprobe s) (probe s) (infl s))
    by (apply (Rl_ptr r); assumption).
  assert (He1 : rest r1 = est s).
  { unfold raux, saux in Ha1. injection Ha1 as _ _ _ _ _ Ha _ _ _ _ _. rewrite Ha. exact L7. }
  clearbody r1 s1.
  rewrite He1. rewrite L7 in Hs.
  destruct (estate_valid (est s e)) eqn:Hv.
  { inversion Hs; subst s'. do 4 eexists. split; [reflexivity|]. split; [reflexivity|]. split.
    - rewrite L1, L2, L3, L4, L5, L6. exact HRl1.
    - exact Ha1. }
  rewrite L6 in Hs.
  destruct (existsb (Nat.eqb e) (infl s)) eqn:Hmem; [|discriminate].
  apply memb_in in Hmem. inversion Hs; subst s'. clear Hs.
  assert (Hn : ninflight r1 = S (length (infl s) - 1)).
  { rewrite (L_nin _ _ _ _ _ _ _ HRl1). destruct (infl s); [contradiction|cbn [length]; lia]. }
  rewrite Hn.
  destruct (rl_infl_remove r1 _ _ _ _ _ _ e (length (infl s) - 1) HRl1 Hmem Hn) as [HRl4 Hni].
  cbn zeta in HRl4.
  unfold raux, saux in Ha1. injection Ha1 as B1 B2 B3 B4 B5 B6 B7 B8 B9 B10 B11.
  rsimp.
  set (r3 := if inflight r1 =? e
             then rset_inflight (nx r1 e) (rset_ninflight (length (infl s) - 1) r1)
             else rset_ninflight (length (infl s) - 1) r1) in *.
  assert (Hr3 : raux r3 = raux r1) by (unfold r3; destruct (inflight r1 =? e); reflexivity).
  unfold raux in Hr3. injection Hr3 as C1 C2 C3 C4 C5 C6 C7 C8 C9 C10 C11.
  rewrite C6, He1.
  destruct (est s e) eqn:Hest; [discriminate| |];
    (do 4 eexists; split; [reflexivity|]; split; [reflexivity|]; split;
     [ simp_st; rewrite ?L1, ?L2, ?L3, ?L4, ?L5
     | unfold raux, saux; rsimp; simp_st; congruence ]).
  - eapply Rl_ptr; [|exact (rl_insert_probe _ _ _ _ _ _ _ e HRl4 Hni)]. reflexivity.
  - eapply Rl_ptr; [|exact (rl_insert_prec _ _ _ _ _ _ _ e HRl4 Hni)]. reflexivity.
Qed.

Lemma sim_flush r s : R r s -> InvC s -> pend s = [] /\ plain s = [] -> sim_post r s Flush.
Proof.
  intros [HRl Haux] H Hl. aux_inv Haux.
  unfold sim_post. cbn [step rstep]. unfold do_flush, r_do_flush, r_cleanup_list.
  rewrite (proj1 (ptr_prec _ _ _ _ _ _ _ HRl)), (proj1 (ptr_probe _ _ _ _ _ _ _ HRl)).
  rewrite Aref, Acap.
  do 4 eexists. split; [reflexivity|]. split; [reflexivity|]. split.
  - simp_st. apply (rl_fresh _ (cap s)); try reflexivity. exact (C_cap _ H).
  - unfold raux, saux. rsimp. simp_st. congruence.
Qed.

(** * Removing an entry from one of the five partitions *)
Section RmPartition.
  Variables (P GP U GQ Q : list nat) (e : nat).
  Hypothesis Hnd : NoDup (ring5 P GP U GQ Q).

  Let Hc := nodup_cnt _ e Hnd.

  Ltac others :=
    rewrite ring5_rm;
    repeat match goal with
           | |- context [rm e ?X] =>
               rewrite (rm_notin e X) by (apply cnt_notin; lia)
           end; reflexivity.

  Lemma ring5_rm_P : In e P -> rm e (ring5 P GP U GQ Q) = ring5 (rm e P) GP U GQ Q.
  Proof. intros Hi. apply cnt_in in Hi. pose proof Hc as H. rewrite cnt_ring5 in H. others. Qed.
  Lemma ring5_rm_GP : In e GP -> rm e (ring5 P GP U GQ Q) = ring5 P (rm e GP) U GQ Q.
  Proof. intros Hi. apply cnt_in in Hi. pose proof Hc as H. rewrite cnt_ring5 in H. others. Qed.
  Lemma ring5_rm_U : In e U -> rm e (ring5 P GP U GQ Q) = ring5 P GP (rm e U) GQ Q.
  Proof. intros Hi. apply cnt_in in Hi. pose proof Hc as H. rewrite cnt_ring5 in H. others. Qed.
  Lemma ring5_rm_GQ : In e GQ -> rm e (ring5 P GP U GQ Q) = ring5 P GP U (rm e GQ) Q.
  Proof. intros Hi. apply cnt_in in Hi. pose proof Hc as H. rewrite cnt_ring5 in H. others. Qed.
  Lemma ring5_rm_Q : In e Q -> rm e (ring5 P GP U GQ Q) = ring5 P GP U GQ (rm e Q).
  Proof. intros Hi. apply cnt_in in Hi. pose proof Hc as H. rewrite cnt_ring5 in H. others. Qed.
End RmPartition.

Lemma rm_ne_witness e y (l : list nat) : In y l -> y <> e -> rm e l <> [].
Proof.
  intros Hy Hne E. assert (Hi : In y (rm e l)) by (apply in_in_remove; assumption).
  rewrite E in Hi. exact Hi.
Qed.

(** * evict_entry / reclaim on the list level: what changes *)
Lemma evict_shape s cs b s' v : evict_entry s cs b = Ok (s', v) ->
  saux s' = saux s /\ unused s' = unused s /\ infl s' = infl s /\
  ((zprobe cs = Some v /\ prec s' = prec s /\ gprec s' = gprec s /\
    gprobe s' = v :: gprobe s /\ probe s' = rm v (probe s)) \/
   (zprec cs = Some v /\ prec s' = rm v (prec s) /\ gprec s' = v :: gprec s /\
    gprobe s' = gprobe s /\ probe s' = probe s)).
Proof.
  unfold evict_entry. destruct (_ && _).
  - destruct (zprobe cs) as [w|]; [|discriminate]. intros E; inversion E; subst.
    repeat split. left. repeat split.
  - destruct (zprec cs) as [w|]; [|discriminate]. intros E; inversion E; subst.
    repeat split. right. repeat split.
Qed.

Lemma nth_error_split_len (l : list nat) i x : nth_error l i = Some x ->
  exists l1 l2, l = l1 ++ x :: l2 /\ length l1 = i /\ length l2 = length l - i - 1.
Proof.
  intros H. destruct (nth_error_split l i H) as (l1 & l2 & E & Hl). exists l1, l2.
  split; [exact E|]. split; [exact Hl|]. rewrite E, app_length. cbn [length]. lia.
Qed.

(* the search info of both levels describes the same entries *)
Record cs_match (s : st) (cs : search) (rcs : rsearch) : Prop := {
  M_zp : c_zprec rcs = zprec cs;  M_nzp : c_nzprec rcs = nzprec cs;
  M_zq : c_zprobe rcs = zprobe cs; M_nzq : c_nzprobe rcs = nzprobe cs;
  M_gp : c_gprec rcs = gprecP (prec s) (gprec s) (unused s) (gprobe s) (probe s);
  M_gq : c_gprobe rcs = gprobeP (prec s) (gprec s) (unused s) (gprobe s) (probe s);
  M_inp : forall v, zprec cs = Some v -> In v (prec s);
  M_inq : forall v, zprobe cs = Some v -> In v (probe s)
}.

Lemma sim_evict r s cs rcs bias s' v :
  Rl r (prec s) (gprec s) (unused s) (gprobe s) (probe s) (infl s) -> raux r = saux s ->
  cs_match s cs rcs -> length (prec s) + length (probe s) < length (ring s) ->
  evict_entry s cs bias = Ok (s', v) ->
  exists r', r_evict_entry r rcs bias = ROk (r', v) /\
             Rl r' (prec s') (gprec s') (unused s') (gprobe s') (probe s') (infl s') /\
             raux r' = saux s'.
Proof.
  intros HRl Haux [M1 M2 M3 M4 M5 M6 M7 M8] Hroom Hev.
  destruct (evict_shape _ _ _ _ _ Hev) as (Hsa & _).
  destruct cs as [zp nzp zq nzq]. cbn [zprec nzprec zprobe nzprobe] in *.
  destruct (rl_evict_entry r s rcs zp nzp zq nzq bias v s' HRl) as (r' & E & HRl' & Ha'); try assumption.
  - unfold raux, saux in Haux. injection Haux as A _ _ _ _ _ _ _ _ _ _. exact A.
  - exists r'. split; [exact E|]. split; [exact HRl'|]. rewrite Ha', Haux. symmetry. exact Hsa.
Qed.

Lemma sim_reclaim r s cs rcs s' d ev :
  Rl r (prec s) (gprec s) (unused s) (gprobe s) (probe s) (infl s) -> raux r = saux s ->
  cs_match s cs rcs -> length (prec s) + length (probe s) < length (ring s) ->
  reclaim true s cs = Ok (s', d, ev) ->
  exists r', r_reclaim r rcs = ROk (r', d, ev) /\
             Rl r' (prec s') (gprec s') (unused s') (gprobe s') (probe s') (infl s') /\
             raux r' = saux s'.
Proof.
  intros HRl Haux HM Hroom Hrec.
  pose proof Haux as Haux0. aux_inv Haux.
  unfold reclaim in Hrec. unfold r_reclaim.
  rewrite (L_np _ _ _ _ _ _ _ HRl), (L_nq _ _ _ _ _ _ _ HRl), (L_nin _ _ _ _ _ _ _ HRl),
    (L_ngq _ _ _ _ _ _ _ HRl), Acap, Adata.
  set (busy := length (prec s) + length (probe s) + length (infl s)) in *.
  destruct (Nat.ltb_spec busy (cap s)) as [Hlt|Hge].
  - cbn [andb] in Hrec.
    destruct (Nat.ltb_spec (length (unused s)) (cap s - busy)) as [|Hfree]; [discriminate|].
    destruct (nth_error (unused s) (length (unused s) - (cap s - busy))) as [x|] eqn:Hn; [|discriminate].
    inversion Hrec; subst s' d ev. clear Hrec.
    destruct (nth_error_split_len _ _ _ Hn) as (l1 & l2 & EU & Hl1 & Hl2).
    rewrite (M_gq _ _ _ HM).
    replace (length (gprobe s) + cap s - 1 - busy) with (length (gprobe s) + length l2) by lia.
    rewrite (ptr_reclaim r _ _ _ _ _ _ l1 x l2 HRl EU).
    eexists. split; [reflexivity|]. split.
    + simp_st. apply (Rl_ptr r); [reflexivity|exact HRl].
    + unfold raux, saux. rsimp. simp_st. congruence.
  - destruct (evict_entry s cs 0) as [[s1 v]|] eqn:Hev; [|discriminate].
    inversion Hrec; subst s' d ev. clear Hrec.
    destruct (sim_evict r s cs rcs 0 s1 v HRl Haux0 HM Hroom Hev) as (r1 & E & HRl1 & Ha1).
    rewrite E. pose proof Ha1 as Ha1'. unfold raux, saux in Ha1'.
    injection Ha1' as B1 B2 B3 B4 B5 B6 B7 B8 B9 B10 B11.
    rewrite B4, B5.
    eexists. split; [reflexivity|]. split.
    + simp_st. apply (Rl_ptr r1); [reflexivity|exact HRl1].
    + unfold raux, saux. rsimp. simp_st. congruence.
Qed.

Lemma raux_detach r0 e :
  raux (r_add_inflight (r_remove (if split r0 =? e then rset_split (pv r0 e) r0 else r0) e) e)
  = raux r0.
Proof.
  unfold r_add_inflight. destruct (split r0 =? e); rsimp;
    match goal with |- context [if ?c then _ else _] => destruct c end; reflexivity.
Qed.

Lemma nodup_part_GP P GP U GQ Q : NoDup (ring5 P GP U GQ Q) -> NoDup GP.
Proof.
  intros H. apply (NoDup_count_occ Nat.eq_dec). intros x. fold (cnt GP x).
  pose proof (nodup_cnt _ x H) as Hc. rewrite cnt_ring5 in Hc. lia.
Qed.
Lemma nodup_part_GQ P GP U GQ Q : NoDup (ring5 P GP U GQ Q) -> NoDup GQ.
Proof.
  intros H. apply (NoDup_count_occ Nat.eq_dec). intros x. fold (cnt GQ x).
  pose proof (nodup_cnt _ x H) as Hc. rewrite cnt_ring5 in Hc. lia.
Qed.
Lemma nodup_part_U P GP U GQ Q : NoDup (ring5 P GP U GQ Q) -> NoDup U.
Proof.
  intros H. apply (NoDup_count_occ Nat.eq_dec). intros x. fold (cnt U x).
  pose proof (nodup_cnt _ x H) as Hc. rewrite cnt_ring5 in Hc. lia.
Qed.

Lemma sim_reuse_ghost_prec r s e d n :
  Rl r (prec s) (gprec s) (unused s) (gprobe s) (probe s) (infl s) -> raux r = saux s ->
  In e (gprec s) -> ngprec r = S n -> (exists y, In y (ring s) /\ y <> e) ->
  let s' := reuse_ghost (set_gprec (rm e (gprec s)) s) e d in
  let r' := r_reuse_ghost (rset_ngprec n (rset_data (upd (rdata r) e d) r)) e in
  Rl r' (prec s') (gprec s') (unused s') (gprobe s') (probe s') (infl s') /\ raux r' = saux s'.
Proof.
  intros HRl Haux Hin Hcnt (y & Hy & Hye). cbn zeta.
  assert (HndL : NoDup (ring5 (prec s) (gprec s) (unused s) (gprobe s) (probe s)))
    by (apply (nodup_app_l _ _ (L_nd _ _ _ _ _ _ _ HRl))).
  set (r0 := rset_ngprec n (rset_data (upd (rdata r) e d) r)).
  pose proof (raux_detach r0 e) as Hd. unfold r_reuse_ghost, reuse_ghost. simp_st.
  set (r1 := r_add_inflight (r_remove (if split r0 =? e then rset_split (pv r0 e) r0 else r0) e) e) in *.
  split.
  - apply (Rl_ptr r1); [reflexivity|]. unfold r1.
    apply (rl_detach r r0 (prec s) (gprec s) (unused s) (gprobe s) (probe s) (infl s) e);
      try reflexivity; try (apply HRl); try exact HRl.
    + unfold ring5. apply in_or_app. right. apply in_or_app. left. exact Hin.
    + symmetry. apply ring5_rm_GP; assumption.
    + apply (rm_ne_witness e y); assumption.
    + unfold r0. rsimp. pose proof (length_rm_in _ _ (nodup_part_GP _ _ _ _ _ HndL) Hin).
      rewrite (L_ngp _ _ _ _ _ _ _ HRl) in Hcnt. lia.
  - unfold raux in Hd. injection Hd as D1 D2 D3 D4 D5 D6 D7 D8 D9 D10 D11.
    aux_inv Haux. unfold raux, saux. rsimp. simp_st.
    rewrite D1, D2, D3, D4, D5, D6, D7, D8, D9, D10, D11. unfold r0. rsimp. congruence.
Qed.

Lemma sim_reuse_ghost_probe r s e d n :
  Rl r (prec s) (gprec s) (unused s) (gprobe s) (probe s) (infl s) -> raux r = saux s ->
  In e (gprobe s) -> ngprobe r = S n -> (exists y, In y (ring s) /\ y <> e) ->
  let s' := reuse_ghost (set_gprobe (rm e (gprobe s)) s) e d in
  let r' := r_reuse_ghost (rset_ngprobe n (rset_data (upd (rdata r) e d) r)) e in
  Rl r' (prec s') (gprec s') (unused s') (gprobe s') (probe s') (infl s') /\ raux r' = saux s'.
Proof.
  intros HRl Haux Hin Hcnt (y & Hy & Hye). cbn zeta.
  assert (HndL : NoDup (ring5 (prec s) (gprec s) (unused s) (gprobe s) (probe s)))
    by (apply (nodup_app_l _ _ (L_nd _ _ _ _ _ _ _ HRl))).
  set (r0 := rset_ngprobe n (rset_data (upd (rdata r) e d) r)).
  pose proof (raux_detach r0 e) as Hd. unfold r_reuse_ghost, reuse_ghost. simp_st.
  set (r1 := r_add_inflight (r_remove (if split r0 =? e then rset_split (pv r0 e) r0 else r0) e) e) in *.
  split.
  - apply (Rl_ptr r1); [reflexivity|]. unfold r1.
    apply (rl_detach r r0 (prec s) (gprec s) (unused s) (gprobe s) (probe s) (infl s) e);
      try reflexivity; try (apply HRl); try exact HRl.
    + unfold ring5. rewrite !in_app_iff, <- !in_rev. tauto.
    + symmetry. apply ring5_rm_GQ; assumption.
    + apply (rm_ne_witness e y); assumption.
    + unfold r0. rsimp. pose proof (length_rm_in _ _ (nodup_part_GQ _ _ _ _ _ HndL) Hin).
      rewrite (L_ngq _ _ _ _ _ _ _ HRl) in Hcnt. lia.
  - unfold raux in Hd. injection Hd as D1 D2 D3 D4 D5 D6 D7 D8 D9 D10 D11.
    aux_inv Haux. unfold raux, saux. rsimp. simp_st.
    rewrite D1, D2, D3, D4, D5, D6, D7, D8, D9, D10, D11. unfold r0. rsimp. congruence.
Qed.

(** * get_missed_entry *)
Lemma evict_unused_indep s cs b u :
  evict_entry (set_unused u s) cs b =
  match evict_entry s cs b with
  | Ok (s', v) => Ok (set_unused u s', v)
  | Fault f => Fault f
  end.
Proof.
  unfold evict_entry. simp_st. destruct (_ && _).
  - destruct (zprobe cs); reflexivity.
  - destruct (zprec cs); reflexivity.
Qed.

Lemma rl_missed_tail r P GP u' e GQ Q F :
  Rl r P GP (u' ++ [e]) GQ Q F -> (exists y, In y (ring5 P GP (u' ++ [e]) GQ Q) /\ y <> e) ->
  Rl (r_add_inflight (r_remove (if split r =? e then rset_split (pv r e) r else r) e) e)
     P GP u' GQ Q (F ++ [e]).
Proof.
  intros HRl (y & Hy & Hye).
  assert (HndL : NoDup (ring5 P GP (u' ++ [e]) GQ Q)) by (apply (nodup_app_l _ _ (L_nd _ _ _ _ _ _ _ HRl))).
  assert (Hu : rm e (u' ++ [e]) = u').
  { apply rm_snoc. pose proof (nodup_cnt _ e (nodup_part_U _ _ _ _ _ HndL)) as Hc.
    rewrite cnt_snoc_eq in Hc. lia. }
  apply (rl_detach r r P GP (u' ++ [e]) GQ Q F e); try reflexivity; try (apply HRl); try exact HRl.
  - unfold ring5. rewrite !in_app_iff. right. right. left. right. left. reflexivity.
  - rewrite (ring5_rm_U _ _ _ _ _ e HndL), Hu; [reflexivity|].
    apply in_or_app. right. left. reflexivity.
  - apply (rm_ne_witness e y); assumption.
Qed.

(* what get_missed_entry does once the entry to recycle is chosen *)
Definition missed_tail (s1 : st) (k : N) (cs : search) (e : nat) : res (st * nat * list (nat * nat)) :=
  let fill :=
    match data s1 e with
    | Some _ => Ok (s1, [])
    | None =>
        match evict_entry s1 cs 1 with
        | Fault f => Fault f
        | Ok (s2, v) =>
            Ok (set_data (upd (upd (data s2) e (data s2 v)) v None) s2, [(v, ref s2 v)])
        end
    end in
  match fill with
  | Fault f => Fault f
  | Ok (s3, ev) =>
      Ok (set_est (upd (est s3) e SProbe)
            (set_key (upd (key s3) e k) (set_infl (infl s3 ++ [e]) s3)), e, ev)
  end.

Definition r_missed_tail (r1 : rst) (k : N) (cs : rsearch) (idx : nat)
  : rres (rst * nat * list (nat * nat)) :=
  let fill :=
    match rdata r1 idx with
    | Some _ => ROk (r1, [])
    | None =>
        match r_evict_entry r1 cs 1 with
        | RFault f => RFault f
        | ROk (r2, v) =>
            ROk (rset_data (upd (upd (rdata r2) idx (rdata r2 v)) v None) r2, [(v, rref r2 v)])
        end
    end in
  match fill with
  | RFault f => RFault f
  | ROk (r3, ev) =>
      let r4 := if split r3 =? idx then rset_split (pv r3 idx) r3 else r3 in
      let r5 := r_add_inflight (r_remove r4 idx) idx in
      ROk (rset_est (upd (rest r5) idx SProbe) (rset_key (upd (rkey r5) idx k) r5), idx, ev)
  end.

Lemma sim_missed_core r1 s1 k cs rcs e0 u' s' ev :
  unused s1 = u' ->
  let sp := set_unused (u' ++ [e0]) s1 in
  Rl r1 (prec sp) (gprec sp) (unused sp) (gprobe sp) (probe sp) (infl sp) -> raux r1 = saux s1 ->
  cs_match sp cs rcs -> length (prec s1) + length (probe s1) < length (ring sp) ->
  2 <= length (ring sp) ->
  missed_tail s1 k cs e0 = Ok (s', e0, ev) ->
  exists r', r_missed_tail r1 k rcs e0 = ROk (r', e0, ev) /\
             Rl r' (prec s') (gprec s') (unused s') (gprobe s') (probe s') (infl s') /\
             raux r' = saux s'.
Proof.
  intros Hu sp HRl Haux HM Hroom H2 Hm.
  assert (Hauxp : raux r1 = saux sp) by (rewrite Haux; reflexivity).
  pose proof Haux as Haux0. aux_inv Haux.
  unfold missed_tail in Hm. unfold r_missed_tail. rewrite Adata.
  assert (Hwit : forall P GP GQ Q, 2 <= length (ring5 P GP (u' ++ [e0]) GQ Q) ->
                 NoDup (ring5 P GP (u' ++ [e0]) GQ Q) ->
                 exists y, In y (ring5 P GP (u' ++ [e0]) GQ Q) /\ y <> e0).
  { intros P GP GQ Q Hlen Hnd.
    assert (Hin : In e0 (ring5 P GP (u' ++ [e0]) GQ Q)).
    { unfold ring5. rewrite !in_app_iff. right. right. left. right. left. reflexivity. }
    pose proof (length_rm_in _ _ Hnd Hin) as Hl.
    destruct (rm e0 (ring5 P GP (u' ++ [e0]) GQ Q)) as [|y m] eqn:E; [cbn [length] in Hl; lia|].
    exists y. assert (Hy : In y (rm e0 (ring5 P GP (u' ++ [e0]) GQ Q))) by (rewrite E; left; reflexivity).
    apply in_remove in Hy. exact Hy. }
  destruct (data s1 e0) as [t|] eqn:Hd.
  - (* the recycled entry brings its own buffer *)
    inversion Hm; subst s' ev. clear Hm.
    eexists. split; [reflexivity|]. split.
    + simp_st. rewrite Hu.
      eapply Rl_ptr; [|apply (rl_missed_tail r1 _ _ u' e0 _ _ _ HRl)]; [reflexivity|].
      apply Hwit; [exact H2|]. apply (nodup_app_l _ _ (L_nd _ _ _ _ _ _ _ HRl)).
    + pose proof (raux_detach r1 e0) as Hd1.
      set (r5 := r_add_inflight (r_remove (if split r1 =? e0 then rset_split (pv r1 e0) r1 else r1) e0) e0) in *.
      unfold raux in Hd1. injection Hd1 as D1 D2 D3 D4 D5 D6 D7 D8 D9 D10 D11.
      unfold raux, saux. rsimp. simp_st. rewrite D1, D2, D3, D4, D5, D6, D7, D8, D9, D10, D11.
      congruence.
  - (* a cached entry is evicted for its buffer *)
    destruct (evict_entry s1 cs 1) as [[s2 v]|] eqn:Hev; [|discriminate].
    inversion Hm; subst s' ev. clear Hm.
    assert (Hevp : evict_entry sp cs 1 = Ok (set_unused (u' ++ [e0]) s2, v)).
    { unfold sp. rewrite evict_unused_indep, Hev. reflexivity. }
    destruct (sim_evict r1 sp cs rcs 1 _ v HRl Hauxp HM Hroom Hevp) as (r2 & E & HRl2 & Ha2).
    rewrite E. pose proof Ha2 as Ha2'. unfold raux, saux in Ha2'. simp_st.
    injection Ha2' as B1 B2 B3 B4 B5 B6 B7 B8 B9 B10 B11.
    rewrite B4, B5.
    destruct (evict_shape _ _ _ _ _ Hev) as (_ & Hu2 & _).
    set (r3 := rset_data (upd (upd (data s2) e0 (data s2 v)) v None) r2).
    assert (HRl3 : Rl r3 (prec s2) (gprec s2) (u' ++ [e0]) (gprobe s2) (probe s2) (infl s2))
      by (apply (Rl_ptr r2); [reflexivity|exact HRl2]).
    eexists. split; [reflexivity|]. split.
    + simp_st. rewrite Hu2, Hu.
      eapply Rl_ptr; [|apply (rl_missed_tail r3 _ _ u' e0 _ _ _ HRl3)]; [reflexivity|].
      apply Hwit; [|apply (nodup_app_l _ _ (L_nd _ _ _ _ _ _ _ HRl3))].
      (* the ring has the same length as before the eviction *)
      destruct (evict_shape _ _ _ _ _ Hev) as (_ & _ & _ & Hsh).
      assert (Hlen : length (ring5 (prec s2) (gprec s2) (u' ++ [e0]) (gprobe s2) (probe s2)) =
                     length (ring sp)).
      { pose proof (nodup_app_l _ _ (L_nd _ _ _ _ _ _ _ HRl)) as Hnd0. unfold sp in *. simp_st.
        unfold ring, ring5. simp_st. rewrite !app_length, !rev_length.
        destruct Hsh as [(Hz & E1 & E2 & E3 & E4)|(Hz & E1 & E2 & E3 & E4)];
          rewrite E1, E2, E3, E4; cbn [length].
        - pose proof (M_inq _ _ _ HM v Hz) as Hvin. simp_st.
          assert (NoDup (probe s1)).
          { apply (NoDup_count_occ Nat.eq_dec). intros x. fold (cnt (probe s1) x).
            pose proof (nodup_cnt _ x Hnd0) as Hc. rewrite cnt_ring5 in Hc. lia. }
          pose proof (length_rm_in _ _ H Hvin). lia.
        - pose proof (M_inp _ _ _ HM v Hz) as Hvin. simp_st.
          assert (NoDup (prec s1)).
          { apply (NoDup_count_occ Nat.eq_dec). intros x. fold (cnt (prec s1) x).
            pose proof (nodup_cnt _ x Hnd0) as Hc. rewrite cnt_ring5 in Hc. lia. }
          pose proof (length_rm_in _ _ H Hvin). lia. }
      rewrite Hlen. exact H2.
    + pose proof (raux_detach r3 e0) as Hd1.
      set (r5 := r_add_inflight (r_remove (if split r3 =? e0 then rset_split (pv r3 e0) r3 else r3) e0) e0) in *.
      unfold raux in Hd1. injection Hd1 as D1 D2 D3 D4 D5 D6 D7 D8 D9 D10 D11.
      unfold raux, saux. rsimp. simp_st. rewrite D1, D2, D3, D4, D5, D6, D7, D8, D9, D10, D11.
      unfold r3. rsimp. congruence.
Qed.

Lemma ring_len_set_unused s u :
  length (ring (set_unused u s)) =
  length (prec s) + length (gprec s) + length u + length (gprobe s) + length (probe s).
Proof. unfold ring. simp_st. rewrite !app_length, !rev_length. lia. Qed.

Lemma ring_len s :
  length (ring s) =
  length (prec s) + length (gprec s) + length (unused s) + length (gprobe s) + length (probe s).
Proof. unfold ring. rewrite !app_length, !rev_length. lia. Qed.

Lemma sim_missed r s k cs rcs s' e ev :
  Rl r (prec s) (gprec s) (unused s) (gprobe s) (probe s) (infl s) -> raux r = saux s ->
  cs_match s cs rcs ->
  c_eprec rcs = eprecP (prec s) (gprec s) (unused s) (gprobe s) (probe s) ->
  c_eprobe rcs = eprobeP (prec s) (gprec s) (unused s) (gprobe s) (probe s) ->
  length (prec s) + length (probe s) < length (ring s) -> 2 <= length (ring s) ->
  missed s k cs = Ok (s', e, ev) ->
  exists r', r_get_missed r k rcs = ROk (r', e, ev) /\
             Rl r' (prec s') (gprec s') (unused s') (gprobe s') (probe s') (infl s') /\
             raux r' = saux s'.
Proof.
  intros HRl Haux HM Eep Eeq Hroom H2 Hm.
  destruct (missed_select r _ _ _ _ _ _ HRl) as (SelA & SelB & SelC). cbn zeta in SelA, SelB, SelC.
  unfold missed, take_missed in Hm.
  assert (Hget : forall r1 idx,
            (if nx r (c_eprobe rcs) =? c_eprec rcs
             then if negb (ngprobe r =? 0) then (rset_ngprobe (ngprobe r - 1) r, nx r (c_eprobe rcs))
                  else if negb (ngprec r =? 0) then (rset_ngprec (ngprec r - 1) r, c_eprobe rcs)
                  else (r, c_eprobe rcs)
             else (r, c_eprobe rcs)) = (r1, idx) ->
            r_get_missed r k rcs = r_missed_tail r1 k rcs idx).
  { intros r1 idx E. unfold r_get_missed. rewrite E. reflexivity. }
  rewrite Eep, Eeq in Hget.
  destruct (unsnoc (unused s)) as [[u' e0]|] eqn:Hun.
  - apply unsnoc_some in Hun.
    change (missed_tail (set_unused u' s) k cs e0 = Ok (s', e, ev)) in Hm.
    assert (e = e0).
    { unfold missed_tail in Hm. destruct (match data (set_unused u' s) e0 with Some _ => _ | None => _ end) as [[? ?]|];
        inversion Hm; reflexivity. }
    subst e0. rewrite (Hget r e (SelA u' e Hun)).
    apply (sim_missed_core r (set_unused u' s) k cs rcs e u'); try assumption; try reflexivity; simp_st.
    + rewrite <- Hun. exact HRl.
    + destruct HM as [M1 M2 M3 M4 M5 M6 M7 M8]. constructor; simp_st; rewrite <- ?Hun; assumption.
    + rewrite ring_len_set_unused. simp_st. rewrite <- Hun. rewrite ring_len in Hroom. exact Hroom.
    + rewrite ring_len_set_unused. simp_st. rewrite <- Hun. rewrite ring_len in H2. exact H2.
  - apply unsnoc_none in Hun.
    destruct (unsnoc (gprobe s)) as [[g' e0]|] eqn:Hug.
    + apply unsnoc_some in Hug.
      change (missed_tail (set_gprobe g' s) k cs e0 = Ok (s', e, ev)) in Hm.
      assert (e = e0).
      { unfold missed_tail in Hm. destruct (match data (set_gprobe g' s) e0 with Some _ => _ | None => _ end) as [[? ?]|];
          inversion Hm; reflexivity. }
      subst e0. destruct (SelB g' e Hun Hug) as [Esel HRl1]. rewrite (Hget _ _ Esel).
      apply (sim_missed_core _ (set_gprobe g' s) k cs rcs e []); try assumption; try reflexivity; simp_st;
        match goal with
        | |- Rl _ _ _ _ _ _ _ => exact HRl1
        | |- cs_match _ _ _ =>
            destruct HM as [M1 M2 M3 M4 M5 M6 M7 M8]; constructor; simp_st; try assumption;
            [ rewrite M5, Hun, Hug; unfold gprecP; rewrite rev_app_distr; reflexivity
            | rewrite M6, Hun, Hug; unfold gprobeP; rewrite rev_app_distr; reflexivity ]
        | |- _ < _ =>
            rewrite ring_len_set_unused; simp_st; rewrite ring_len, Hun, Hug, app_length in Hroom;
            cbn [length app] in *; lia
        | |- _ <= _ =>
            rewrite ring_len_set_unused; simp_st; rewrite ring_len, Hun, Hug, app_length in H2;
            cbn [length app] in *; lia
        end.
    + apply unsnoc_none in Hug.
      destruct (unsnoc (gprec s)) as [[g' e0]|] eqn:Hup; [|discriminate].
      apply unsnoc_some in Hup.
      change (missed_tail (set_gprec g' s) k cs e0 = Ok (s', e, ev)) in Hm.
      assert (e = e0).
      { unfold missed_tail in Hm. destruct (match data (set_gprec g' s) e0 with Some _ => _ | None => _ end) as [[? ?]|];
          inversion Hm; reflexivity. }
      subst e0. destruct (SelC g' e Hun Hug Hup) as [Esel HRl1]. rewrite (Hget _ _ Esel).
      apply (sim_missed_core _ (set_gprec g' s) k cs rcs e []); try assumption; try reflexivity; simp_st;
        match goal with
        | |- Rl _ _ _ _ _ _ _ => rewrite Hug; exact HRl1
        | |- cs_match _ _ _ =>
            destruct HM as [M1 M2 M3 M4 M5 M6 M7 M8]; constructor; simp_st; try assumption;
            [ rewrite M5, Hun, Hup; unfold gprecP; rewrite <- !app_assoc; reflexivity
            | rewrite M6, Hun, Hup; unfold gprobeP; rewrite <- !app_assoc; reflexivity ]
        | |- _ < _ =>
            rewrite ring_len_set_unused; simp_st; rewrite ring_len, Hun, Hup, app_length in Hroom;
            cbn [length app] in *; lia
        | |- _ <= _ =>
            rewrite ring_len_set_unused; simp_st; rewrite ring_len, Hun, Hup, app_length in H2;
            cbn [length app] in *; lia
        end.
Qed.

(** * get_ghost_or_missed_entry *)
Lemma reclaim_keeps_ghosts f s cs s' d ev : reclaim f s cs = Ok (s', d, ev) ->
  (forall x, In x (gprec s) -> In x (gprec s')) /\ (forall x, In x (gprobe s) -> In x (gprobe s')).
Proof.
  unfold reclaim. destruct (_ <? cap s).
  - destruct (_ && _); [discriminate|]. destruct (nth_error _ _); [|discriminate].
    intros E; inversion E; subst. simp_st. split; auto.
  - destruct (evict_entry s cs 0) as [[s1 v]|] eqn:Ev; [|discriminate].
    intros E; inversion E; subst. simp_st.
    destruct (evict_shape _ _ _ _ _ Ev) as (_ & _ & _ & [(_ & _ & E2 & E3 & _)|(_ & _ & E2 & E3 & _)]);
      rewrite E2, E3; split; intros x Hx; auto; right; exact Hx.
Qed.

Lemma two_witness (l : list nat) e : NoDup l -> In e l -> 2 <= length l ->
  exists y, In y l /\ y <> e.
Proof.
  intros Hnd Hin Hlen. pose proof (length_rm_in _ _ Hnd Hin) as Hl.
  destruct (rm e l) as [|y m] eqn:E; [cbn [length] in Hl; lia|].
  exists y. assert (Hy : In y (rm e l)) by (rewrite E; left; reflexivity).
  apply in_remove in Hy. exact Hy.
Qed.

Lemma evict_ring_len s cs b s' v : evict_entry s cs b = Ok (s', v) ->
  NoDup (ring s) -> (forall w, zprec cs = Some w -> In w (prec s)) ->
  (forall w, zprobe cs = Some w -> In w (probe s)) -> length (ring s') = length (ring s).
Proof.
  intros Hev Hnd Hp Hq. rewrite !ring_len.
  destruct (evict_shape _ _ _ _ _ Hev) as (_ & E0 & _ & [(Hz & E1 & E2 & E3 & E4)|(Hz & E1 & E2 & E3 & E4)]);
    rewrite E0, E1, E2, E3, E4; cbn [length].
  - assert (NoDup (probe s)).
    { apply (NoDup_count_occ Nat.eq_dec). intros x. fold (cnt (probe s) x).
      pose proof (nodup_cnt _ x Hnd) as Hc. unfold ring in Hc. rewrite !cnt_app, !cnt_rev in Hc. lia. }
    pose proof (length_rm_in _ _ H (Hq v Hz)). lia.
  - assert (NoDup (prec s)).
    { apply (NoDup_count_occ Nat.eq_dec). intros x. fold (cnt (prec s) x).
      pose proof (nodup_cnt _ x Hnd) as Hc. unfold ring in Hc. rewrite !cnt_app, !cnt_rev in Hc. lia. }
    pose proof (length_rm_in _ _ H (Hp v Hz)). lia.
Qed.

Lemma reclaim_ring_len f s cs s' d ev : reclaim f s cs = Ok (s', d, ev) ->
  NoDup (ring s) -> (forall w, zprec cs = Some w -> In w (prec s)) ->
  (forall w, zprobe cs = Some w -> In w (probe s)) -> length (ring s') = length (ring s).
Proof.
  unfold reclaim. destruct (_ <? cap s).
  - destruct (_ && _); [discriminate|]. destruct (nth_error _ _); [|discriminate].
    intros E; inversion E; subst. reflexivity.
  - destruct (evict_entry s cs 0) as [[s1 v]|] eqn:Ev; [|discriminate].
    intros E Hnd Hp Hq; inversion E; subst.
    rewrite <- (evict_ring_len _ _ _ _ _ Ev Hnd Hp Hq). rewrite !ring_len. reflexivity.
Qed.

Lemma sim_gom r s k cs rcs s' e ev :
  Rl r (prec s) (gprec s) (unused s) (gprobe s) (probe s) (infl s) -> raux r = saux s ->
  cs_match s cs rcs -> length (prec s) + length (probe s) < length (ring s) ->
  2 <= length (ring s) ->
  ghost_or_missed true s k cs = Ok (s', e, ev) ->
  exists r', r_ghost_or_missed r k rcs = ROk (r', e, ev) /\
             Rl r' (prec s') (gprec s') (unused s') (gprobe s') (probe s') (infl s') /\
             raux r' = saux s'.
Proof.
  intros HRl Haux HM Hroom H2 Hg.
  pose proof Haux as Haux0. aux_inv Haux.
  assert (HndL : NoDup (ring s)) by (apply (nodup_app_l _ _ (L_nd _ _ _ _ _ _ _ HRl))).
  unfold ghost_or_missed in Hg. unfold r_ghost_or_missed.
  rewrite (rfind_find r s k _ Akey), (M_gp _ _ _ HM).
  destruct (ptr_gprec _ _ _ _ _ _ _ HRl) as [Hw1 Hc1]. rewrite Hw1, Hc1.
  rewrite (L_ngp _ _ _ _ _ _ _ HRl), (L_ngq _ _ _ _ _ _ _ HRl), Adp, Acap.
  pose proof (find_key_spec s k (gprec s)) as Hf1.
  destruct (find_key s k (gprec s)) as [g|].
  { (* ghost precious hit *)
    destruct Hf1 as [Hgin _]. apply cnt_in in Hgin.
    set (dp := if (if length (gprec s) <? length (gprobe s) then length (gprobe s) / length (gprec s) else 1) <? dprobe s
               then dprobe s - (if length (gprec s) <? length (gprobe s) then length (gprobe s) / length (gprec s) else 1)
               else 0) in *.
    destruct (reclaim true (set_dprobe dp s) cs) as [[[s2 d] ev2]|] eqn:Hrec; [|discriminate].
    inversion Hg; subst s' e ev. clear Hg.
    assert (HRl1 : Rl (rset_dprobe dp r) (prec s) (gprec s) (unused s) (gprobe s) (probe s) (infl s))
      by (apply (Rl_ptr r); [reflexivity|exact HRl]).
    assert (Ha1 : raux (rset_dprobe dp r) = saux (set_dprobe dp s))
      by (unfold raux, saux; rsimp; simp_st; congruence).
    destruct (sim_reclaim (rset_dprobe dp r) (set_dprobe dp s) cs rcs s2 d ev2) as (r2 & E2 & HRl2 & Ha2);
      try assumption.
    { destruct HM as [M1 M2 M3 M4 M5 M6 M7 M8]. constructor; simp_st; assumption. }
    rewrite E2.
    destruct (reclaim_keeps_ghosts _ _ _ _ _ _ Hrec) as [Hkg _]. simp_st.
    pose proof (Hkg g Hgin) as Hgin2.
    assert (Hlen2 : length (ring s2) = length (ring s)).
    { rewrite (reclaim_ring_len _ _ _ _ _ _ Hrec); [reflexivity|exact HndL| |];
        [apply (M_inp _ _ _ HM)|apply (M_inq _ _ _ HM)]. }
    assert (Hnd2 : NoDup (ring s2)) by (apply (nodup_app_l _ _ (L_nd _ _ _ _ _ _ _ HRl2))).
    destruct (ngprec r2) as [|n] eqn:Hn2.
    { exfalso. rewrite (L_ngp _ _ _ _ _ _ _ HRl2) in Hn2. destruct (gprec s2); [contradiction|discriminate]. }
    assert (Hd2 : rdata r2 = data s2).
    { unfold raux, saux in Ha2. injection Ha2 as _ _ _ _ B5 _ _ _ _ _ _. exact B5. }
    destruct (sim_reuse_ghost_prec r2 s2 g d n HRl2 Ha2 Hgin2 Hn2) as [HRl3 Ha3].
    { apply two_witness; [exact Hnd2| |lia].
      unfold ring. apply in_or_app. right. apply in_or_app. left. exact Hgin2. }
    cbn zeta in HRl3, Ha3. rewrite Hd2 in HRl3, Ha3.
    eexists. split; [rewrite Hd2; reflexivity|]. split; assumption. }
  rewrite (rfind_find r s k _ Akey). rsimp. rewrite (M_gq _ _ _ HM).
  destruct (ptr_gprobe _ _ _ _ _ _ _ HRl) as [Hw2 Hc2]. rewrite (L_ngq _ _ _ _ _ _ _ HRl) in Hw2, Hc2.
  rewrite Hw2, Hc2.
  pose proof (find_key_spec s k (gprobe s)) as Hf2.
  destruct (find_key s k (gprobe s)) as [g|].
  { (* ghost probe hit *)
    destruct Hf2 as [Hgin _]. apply cnt_in in Hgin.
    set (dp := if dprobe s + (if length (gprobe s) <? length (gprec s) then length (gprec s) / length (gprobe s) else 1) <? cap s
               then dprobe s + (if length (gprobe s) <? length (gprec s) then length (gprec s) / length (gprobe s) else 1)
               else cap s) in *.
    destruct (reclaim true (set_dprobe dp s) cs) as [[[s2 d] ev2]|] eqn:Hrec; [|discriminate].
    inversion Hg; subst s' e ev. clear Hg.
    assert (HRl1 : Rl (rset_dprobe dp r) (prec s) (gprec s) (unused s) (gprobe s) (probe s) (infl s))
      by (apply (Rl_ptr r); [reflexivity|exact HRl]).
    assert (Ha1 : raux (rset_dprobe dp r) = saux (set_dprobe dp s))
      by (unfold raux, saux; rsimp; simp_st; congruence).
    destruct (sim_reclaim (rset_dprobe dp r) (set_dprobe dp s) cs
                (cs_set_eprec (eprecP (prec s) (gprec s) (unused s) (gprobe s) (probe s)) rcs) s2 d ev2)
      as (r2 & E2 & HRl2 & Ha2); try assumption.
    { destruct HM as [M1 M2 M3 M4 M5 M6 M7 M8]. constructor; simp_st; rsimp; assumption. }
    rewrite E2.
    destruct (reclaim_keeps_ghosts _ _ _ _ _ _ Hrec) as [_ Hkg]. simp_st.
    pose proof (Hkg g Hgin) as Hgin2.
    assert (Hlen2 : length (ring s2) = length (ring s)).
    { rewrite (reclaim_ring_len _ _ _ _ _ _ Hrec); [reflexivity|exact HndL| |];
        [apply (M_inp _ _ _ HM)|apply (M_inq _ _ _ HM)]. }
    assert (Hnd2 : NoDup (ring s2)) by (apply (nodup_app_l _ _ (L_nd _ _ _ _ _ _ _ HRl2))).
    destruct (ngprobe r2) as [|n] eqn:Hn2.
    { exfalso. rewrite (L_ngq _ _ _ _ _ _ _ HRl2) in Hn2. destruct (gprobe s2); [contradiction|discriminate]. }
    assert (Hd2 : rdata r2 = data s2).
    { unfold raux, saux in Ha2. injection Ha2 as _ _ _ _ B5 _ _ _ _ _ _. exact B5. }
    destruct (sim_reuse_ghost_probe r2 s2 g d n HRl2 Ha2 Hgin2 Hn2) as [HRl3 Ha3].
    { apply two_witness; [exact Hnd2| |lia].
      unfold ring. rewrite !in_app_iff, <- !in_rev. tauto. }
    cbn zeta in HRl3, Ha3. rewrite Hd2 in HRl3, Ha3.
    eexists. split; [rewrite Hd2; reflexivity|]. split; assumption. }
  (* a real miss *)
  apply (sim_missed r s k cs); try assumption; try reflexivity.
  destruct HM as [M1 M2 M3 M4 M5 M6 M7 M8]. constructor; rsimp; assumption.
Qed.

(** * cache_get_entry_noref / cache_get_entry *)
Lemma sim_get_noref r s k s1 oe ev :
  R r s -> InvC s -> get_noref true s k = Ok (s1, oe, ev) ->
  exists r1, r_get_noref r k = ROk (r1, oe, ev) /\ R r1 s1.
Proof.
  intros [HRl Haux] H Hg. pose proof Haux as Haux0. aux_inv Haux.
  assert (HndL : NoDup (ring s)) by (apply (nodup_app_l _ _ (L_nd _ _ _ _ _ _ _ HRl))).
  unfold get_noref in Hg. unfold r_get_noref.
  rewrite (rscan_scan r s k (nx r) Akey Aref).
  destruct (ptr_prec _ _ _ _ _ _ _ HRl) as [Hw0 Hc0]. rewrite Hw0, Hc0.
  destruct (scan s k (prec s) None 0) as [[fo zp] nzp] eqn:Hs0.
  pose proof (scan_spec _ _ _ _ _ _ _ _ Hs0) as Hsp0.
  destruct fo as [e|].
  { (* hit, precious *)
    destruct Hsp0 as [He _]. apply cnt_in in He.
    inversion Hg; subst s1 oe ev. clear Hg.
    eexists. split; [reflexivity|]. split.
    - simp_st. apply (rl_move_front r r (prec s) (gprec s) (unused s) (gprobe s) (probe s) (infl s) e); try reflexivity; try assumption; try (apply HRl).
      + unfold ring5. apply in_or_app. left. exact He.
      + rewrite (ring5_rm_P _ _ _ _ _ e HndL He). reflexivity.
      + cbn [length]. rewrite (L_np _ _ _ _ _ _ _ HRl).
        assert (NoDup (prec s)).
        { apply (NoDup_count_occ Nat.eq_dec). intros x. fold (cnt (prec s) x).
          pose proof (nodup_cnt _ x HndL) as Hc. unfold ring in Hc. rewrite !cnt_app in Hc. lia. }
        apply length_rm_in; assumption.
    - unfold r_reuse_cached, raux, saux.
      match goal with |- context [if ?c then _ else _] => destruct c end; rsimp; simp_st; congruence. }
  destruct Hsp0 as (_ & _ & _ & Hz0).
  rewrite (rscan_scan r s k (pv r) Akey Aref).
  destruct (ptr_probe _ _ _ _ _ _ _ HRl) as [Hw1 Hc1]. rewrite Hw1, Hc1.
  destruct (scan s k (probe s) None 0) as [[fo zq] nzq] eqn:Hs1.
  pose proof (scan_spec _ _ _ _ _ _ _ _ Hs1) as Hsp1.
  destruct fo as [e|].
  { (* hit, probed: promotion *)
    destruct Hsp1 as [He _]. apply cnt_in in He.
    inversion Hg; subst s1 oe ev. clear Hg.
    assert (HndQ : NoDup (probe s)).
    { apply (NoDup_count_occ Nat.eq_dec). intros x. fold (cnt (probe s) x).
      pose proof (nodup_cnt _ x HndL) as Hc. unfold ring in Hc. rewrite !cnt_app, !cnt_rev in Hc. lia. }
    eexists. split; [reflexivity|]. split.
    - simp_st.
      apply (rl_move_front r (rset_nprec (S (nprec r)) (rset_nprobe (nprobe r - 1) r)) (prec s) (gprec s) (unused s) (gprobe s) (probe s) (infl s) e);
        try reflexivity; try assumption; try (apply HRl).
      + unfold ring5. rewrite !in_app_iff, <- !in_rev. tauto.
      + rewrite (ring5_rm_Q _ _ _ _ _ e HndL He). reflexivity.
      + rsimp. cbn [length]. rewrite (L_np _ _ _ _ _ _ _ HRl). reflexivity.
      + rsimp. rewrite (L_nq _ _ _ _ _ _ _ HRl). pose proof (length_rm_in _ _ HndQ He). lia.
    - unfold r_reuse_cached, raux, saux.
      match goal with |- context [if ?c then _ else _] => destruct c end; rsimp; simp_st; congruence. }
  destruct Hsp1 as (_ & _ & _ & Hz1).
  rewrite (rfind_find r s k _ Akey), (ptr_infl _ _ _ _ _ _ _ HRl).
  destruct (find_key s k (infl s)) as [e|].
  { (* somebody else's miss in progress *)
    inversion Hg; subst s1 oe ev. clear Hg.
    eexists. split; [rewrite Aest, Amiss; reflexivity|]. split.
    - simp_st. apply (Rl_ptr r); [reflexivity|exact HRl].
    - unfold raux, saux. rsimp. simp_st. congruence. }
  rewrite (L_np _ _ _ _ _ _ _ HRl), (L_nq _ _ _ _ _ _ _ HRl), (L_nin _ _ _ _ _ _ _ HRl), Acap.
  destruct (Nat.leb_spec (cap s) (length (prec s) - nzp + (length (probe s) - nzq) + length (infl s)))
    as [Hbusy|Hroom].
  { inversion Hg; subst s1 oe ev. eexists. split; [reflexivity|]. split; assumption. }
  (* miss or ghost hit *)
  destruct (ghost_or_missed true s k (mksearch zp nzp zq nzq)) as [[[s2 e] ev2]|] eqn:Hgom; [|discriminate].
  inversion Hg; subst s1 oe ev. clear Hg.
  pose proof (total_length s H) as Htot.
  destruct (C_unused _ H) as (em & fu & Hu & Hl & _).
  assert (Hlr : length (ring s) + length (infl s) = 2 * cap s) by (rewrite ring_len; lia).
  pose proof (C_cap _ H) as Hcap.
  destruct (sim_gom r s k (mksearch zp nzp zq nzq)
              (mkrsearch (gprecP (prec s) (gprec s) (unused s) (gprobe s) (probe s)) 0 zp nzp
                         (gprobeP (prec s) (gprec s) (unused s) (gprobe s) (probe s)) 0 zq nzq)
              s2 e ev2 HRl Haux0) as (r2 & E2 & HRl2 & Ha2); try assumption; try lia.
  - constructor; rsimp; cbn [zprec nzprec zprobe nzprobe]; try reflexivity.
    + intros v ->. destruct Hz0 as [(_ & Hz & _)|(_ & w & Hw & Hin & _)]; [discriminate|].
      inversion Hw; subst. apply cnt_in. exact Hin.
    + intros v ->. destruct Hz1 as [(_ & Hz & _)|(_ & w & Hw & Hin & _)]; [discriminate|].
      inversion Hw; subst. apply cnt_in. exact Hin.
  - rewrite E2. eexists. split; [reflexivity|]. split.
    + simp_st. apply (Rl_ptr r2); [reflexivity|exact HRl2].
    + unfold raux, saux in *. rsimp. simp_st. congruence.
Qed.

Lemma sim_get r s k : R r s -> InvC s -> sim_post r s (Get k).
Proof.
  intros HR H. destruct (get_all s k H) as (s' & x & ev & Hs & _).
  unfold sim_post. cbn [step rstep]. rewrite Hs. unfold do_get in Hs. unfold r_do_get.
  destruct (get_noref true s k) as [[[s1 oe] ev1]|] eqn:Hg; [|discriminate].
  destruct (sim_get_noref r s k s1 oe ev1 HR H Hg) as (r1 & E1 & [HRl1 Ha1]).
  rewrite E1. pose proof Ha1 as Ha1'. aux_inv Ha1'.
  destruct oe as [e|].
  - rsimp. simp_st. rewrite Aref, Aest, Adata.
    destruct (estate_valid (est s1 e)).
    + inversion Hs; subst s' x ev.
      do 4 eexists. split; [reflexivity|]. split; [rewrite Aplain; reflexivity|]. split.
      * simp_st. apply (Rl_ptr r1); [reflexivity|exact HRl1].
      * unfold raux, saux. rsimp. simp_st. congruence.
    + destruct (data s1 e) as [t|]; [|discriminate].
      inversion Hs; subst s' x ev.
      do 4 eexists. split; [reflexivity|]. split; [rewrite Apend, Acont; reflexivity|]. split.
      * simp_st. apply (Rl_ptr r1); [reflexivity|exact HRl1].
      * unfold raux, saux. rsimp. simp_st. congruence.
  - inversion Hs; subst s' x ev.
    do 4 eexists. split; [reflexivity|]. split; [reflexivity|]. split; assumption.
Qed.

(** * The simulation theorem *)
Theorem ring_refines r s o : R r s -> Inv s -> legal s o ->
  exists s' r' x ev, step true s o = Ok (s', x, ev) /\ rstep r o = ROk (r', x, ev) /\
                     R r' s' /\ Inv s'.
Proof.
  intros HR H Hl. pose proof (proj1 (Inv_InvC s) H) as HC.
  assert (Hsim : sim_post r s o).
  { destruct o as [k|e|e|e|]; cbn [legal] in Hl.
    - apply sim_get; assumption.
    - apply sim_insert; assumption.
    - apply sim_discard; assumption.
    - apply sim_put; assumption.
    - apply sim_flush; assumption. }
  destruct Hsim as (s' & r' & x & ev & Hs & Hr & HR').
  exists s', r', x, ev. split; [exact Hs|]. split; [exact Hr|]. split; [exact HR'|].
  destruct (CacheMain.step_sound s o H Hl) as (s2 & x2 & ev2 & Hs2 & Hi & _).
  rewrite Hs in Hs2. inversion Hs2; subst. exact Hi.
Qed.

Theorem ring_refines_history : forall ops r s, R r s -> Inv s -> legal_hist true s ops ->
  exists r' s', rrun r ops = ROk r' /\ run true s ops = Ok s' /\ R r' s' /\ Inv s'.
Proof.
  induction ops as [|o ops IH]; intros r s HR H Hl; cbn [rrun run legal_hist] in *.
  - exists r, s. split; [reflexivity|]. split; [reflexivity|]. split; assumption.
  - destruct Hl as [Hlo Hrest].
    destruct (ring_refines r s o HR H Hlo) as (s1 & r1 & x & ev & Hs & Hr & HR1 & H1).
    rewrite Hs in *. rewrite Hr. apply IH; assumption.
Qed.

(** * Well-formedness of the circular lists, and the abstraction as a function *)

(* what [linked] means pointwise: next and prev are inverse bijections on the
   elements of the list ... *)
Lemma linked_inverse nx pv l x : linked nx pv l -> In x l ->
  pv (nx x) = x /\ nx (pv x) = x /\ In (nx x) l /\ In (pv x) l.
Proof.
  intros Hl Hin. destruct (linked_closed _ _ _ x Hl Hin) as [Hn Hp].
  split; [|split; [|split; assumption]].
  - destruct (in_split _ _ Hin) as (l1 & l2 & E). subst l.
    apply linked_rot_app in Hl. cbn [app] in Hl. destruct Hl as [_ Hl]. rewrite succs_chain in Hl.
    destruct (l2 ++ l1) as [|b m].
    + destruct (Hl x x) as [A B]; [left; reflexivity|]. rewrite A. exact B.
    + destruct (Hl x b) as [A B]; [left; reflexivity|]. rewrite A. exact B.
  - destruct (in_split _ _ Hin) as (l1 & l2 & E). subst l.
    apply linked_rot_app in Hl. cbn [app] in Hl. destruct Hl as [_ Hl]. rewrite succs_chain in Hl.
    destruct (Hl (last (l2 ++ l1) x) x) as [A B]; [apply in_or_app; right; left; reflexivity|].
    rewrite B. exact A.
Qed.

(* ... and following next from any element visits every element exactly once
   and comes back: one cycle *)
Lemma linked_one_cycle nx pv l x : linked nx pv l -> In x l ->
  exists l1 l2, l = l1 ++ x :: l2 /\
    walk nx (length l) x = x :: l2 ++ l1 /\ chase nx (length l) x = x.
Proof.
  intros Hl Hin. destruct (in_split _ _ Hin) as (l1 & l2 & E). exists l1, l2. split; [exact E|].
  subst l. apply linked_rot_app in Hl. cbn [app] in Hl.
  destruct (walk_chase_fwd nx pv (x :: l2 ++ l1) [] x) as [Hw Hc].
  - rewrite app_nil_r. exact Hl.
  - discriminate.
  - rewrite app_nil_r in Hw. cbn [app hd] in Hw, Hc.
    replace (length (l1 ++ x :: l2)) with (length (x :: l2 ++ l1))
      by (cbn [length]; rewrite !app_length; cbn [length]; lia).
    split; assumption.
Qed.

(* both circular lists as the driver reads them *)
Record ring_wf (r : rst) : Prop := {
  W_main : linked (nx r) (pv r) (rwalk r);
  W_ne : rwalk r <> [];
  W_split : last (rwalk r) 0 = split r;
  W_infl : iwalk r <> [] -> linked (nx r) (pv r) (iwalk r);
  W_disj : NoDup (rwalk r ++ iwalk r);
  W_all : forall e, In e (rwalk r ++ iwalk r) <-> e < 2 * rcap r;
  W_len : length (rwalk r) + ninflight r = 2 * rcap r;
  W_ilen : length (iwalk r) = ninflight r;
  W_counters : nprec r + ngprec r + nprobe r + ngprobe r <= length (rwalk r);
  W_busy : nprec r + nprobe r + ninflight r <= rcap r
}.

Lemma R_walks r s : R r s -> Inv s -> rwalk r = ring s /\ iwalk r = infl s.
Proof.
  intros [HRl Haux] H. pose proof (proj1 (Inv_InvC s) H) as HC.
  aux_inv Haux. pose proof (total_length s HC) as Ht.
  split.
  - unfold rwalk. rewrite (ptr_first _ _ _ _ _ _ _ HRl), Acap, (L_nin _ _ _ _ _ _ _ HRl).
    replace (2 * cap s - length (infl s)) with (length (ring s)) by (rewrite ring_len; lia).
    destruct (walk_chase_fwd (nx r) (pv r) (ring s) [] 0) as [Hw _].
    + rewrite app_nil_r. exact (L_ring _ _ _ _ _ _ _ HRl).
    + rewrite app_nil_r. exact (L_ne _ _ _ _ _ _ _ HRl).
    + rewrite app_nil_r in Hw. exact Hw.
  - exact (ptr_infl _ _ _ _ _ _ _ HRl).
Qed.

Theorem R_wf r s : R r s -> Inv s -> ring_wf r.
Proof.
  intros HR H. destruct (R_walks r s HR H) as [Ew Ei]. destruct HR as [HRl Haux].
  pose proof (proj1 (Inv_InvC s) H) as HC. aux_inv Haux.
  pose proof (total_length s HC) as Ht. pose proof (ring_len s) as Hrl.
  destruct (counters_add_up s H) as (_ & _ & Hb & _ & Hall).
  constructor; rewrite ?Ew, ?Ei, ?Acap,
    ?(L_np _ _ _ _ _ _ _ HRl), ?(L_ngp _ _ _ _ _ _ _ HRl), ?(L_nq _ _ _ _ _ _ _ HRl),
    ?(L_ngq _ _ _ _ _ _ _ HRl), ?(L_nin _ _ _ _ _ _ _ HRl); try lia.
  - exact (L_ring _ _ _ _ _ _ _ HRl).
  - exact (L_ne _ _ _ _ _ _ _ HRl).
  - exact (L_split _ _ _ _ _ _ _ HRl).
  - intros HF. apply (L_infl _ _ _ _ _ _ _ HRl HF).
  - exact (L_nd _ _ _ _ _ _ _ HRl).
  - exact Hall.
Qed.

(* the abstraction function: cut the walk at the counters *)
Definition abs_lists (r : rst) : list nat * list nat * list nat * list nat * list nat * list nat :=
  let L := rwalk r in
  let nun := length L - (nprec r + ngprec r + nprobe r + ngprobe r) in
  let r1 := skipn (nprec r) L in
  let r2 := skipn (ngprec r) r1 in
  let r3 := skipn nun r2 in
  (firstn (nprec r) L, firstn (ngprec r) r1, firstn nun r2,
   rev (firstn (ngprobe r) r3), rev (skipn (ngprobe r) r3), iwalk r).

Lemma firstn_app_exact (a b : list nat) : firstn (length a) (a ++ b) = a.
Proof. rewrite firstn_app, Nat.sub_diag, firstn_all. cbn. apply app_nil_r. Qed.

Lemma skipn_app_exact (a b : list nat) : skipn (length a) (a ++ b) = b.
Proof. rewrite skipn_app, Nat.sub_diag, skipn_all. reflexivity. Qed.

Theorem R_abs r s : R r s -> Inv s ->
  abs_lists r = (prec s, gprec s, unused s, gprobe s, probe s, infl s).
Proof.
  intros HR H. destruct (R_walks r s HR H) as [Ew Ei]. destruct HR as [HRl _].
  unfold abs_lists. rewrite Ew, Ei,
    (L_np _ _ _ _ _ _ _ HRl), (L_ngp _ _ _ _ _ _ _ HRl), (L_nq _ _ _ _ _ _ _ HRl),
    (L_ngq _ _ _ _ _ _ _ HRl).
  replace (length (ring s) - (length (prec s) + length (gprec s) + length (probe s) + length (gprobe s)))
    with (length (unused s)) by (rewrite ring_len; lia).
  unfold ring. rewrite firstn_app_exact, skipn_app_exact, firstn_app_exact, skipn_app_exact,
    firstn_app_exact, skipn_app_exact.
  rewrite <- (rev_length (gprobe s)), firstn_app_exact, skipn_app_exact, !rev_involutive.
  reflexivity.
Qed.

(** * Every legal history *)
Theorem ring_wellformed_history c ops : 0 < c -> legal_hist true (init c) ops ->
  exists r' s', rrun (rinit c) ops = ROk r' /\ run true (init c) ops = Ok s' /\
                R r' s' /\ Inv s' /\ ring_wf r' /\
                abs_lists r' = (prec s', gprec s', unused s', gprobe s', probe s', infl s').
Proof.
  intros Hc Hl.
  destruct (ring_refines_history ops (rinit c) (init c) (R_init c Hc) (init_Inv c Hc) Hl)
    as (r' & s' & Hr & Hs & HR & Hi).
  exists r', s'. split; [exact Hr|]. split; [exact Hs|]. split; [exact HR|]. split; [exact Hi|].
  split; [apply (R_wf r' s'); assumption|apply R_abs; assumption].
Qed.

(** * def_realloc_caches (cache.size / page size changed): a fresh cache *)
Theorem realloc_refines r s c : R r s -> Inv s -> 0 < c ->
  snd (r_do_realloc r c) = snd (do_realloc s c) /\
  R (fst (r_do_realloc r c)) (fst (do_realloc s c)) /\ Inv (fst (do_realloc s c)) /\
  (forall v n, pend s = [] -> plain s = [] -> In (v, n) (snd (do_realloc s c)) -> n = 0).
Proof.
  intros [HRl Haux] H Hc. aux_inv Haux. unfold r_do_realloc, do_realloc, r_cleanup_list. cbn [fst snd].
  rewrite (proj1 (ptr_prec _ _ _ _ _ _ _ HRl)), (proj1 (ptr_probe _ _ _ _ _ _ _ HRl)), Aref.
  split; [reflexivity|]. split; [apply R_init; exact Hc|]. split; [apply init_Inv; exact Hc|].
  intros v n Hp Hq Hin. apply in_map_iff in Hin. destruct Hin as [x [Heq _]].
  inversion Heq; subst. rewrite (I_ref _ H), Hp, Hq. reflexivity.
Qed.
