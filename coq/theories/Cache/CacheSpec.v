(** What property C06 demands of a cache state and of one cache operation,
    written from the property text, not from cache.c:

    - [Inv]: "keeps exactly [capacity] data buffers, hands each buffer to at
      most one key at a time", "partition counters always add up", "circular
      list stays well-formed" (at list level: every entry is in exactly one
      partition or in flight), reference counts are the handles outstanding.
    - [step_ok]: "never evicts or rewrites an entry while a caller still
      holds a reference to it", "returns on a hit the data that was inserted
      for that key", "refuses a lookup (busy) only when every buffer is
      referenced or being filled".

    [invb] / [step_okb] are executable versions (extracted; they judge the
    *implementation's* own state dumps in the correspondence check).
    [CacheJudge.v] proves [Inv s -> invb s = true] and
    [step_ok ... -> step_okb ... = true]: the judge cannot raise a false alarm
    on a state / step that satisfies the spec. *)
From Coq Require Import NArith List Bool Arith PeanoNat Permutation.
From KdV Require Import Cache.CacheList.
Import ListNotations.

(** * State invariant *)

Definition all_entries (s : st) : list nat :=
  prec s ++ gprec s ++ unused s ++ gprobe s ++ probe s ++ infl s.

Record Inv (s : st) : Prop := mkInv {
  (* capacity is positive *)
  I_cap : 0 < cap s;
  (* I1: the 2*cap entries are spread over the five partitions and the
     in-flight list, each in exactly one place (so the C counters, which are
     the list lengths, add up to the ring length, and ring + in-flight = 2*cap) *)
  I_perm : Permutation (all_entries s) (seq 0 (2 * cap s));
  (* I3: the unused partition is (entries without buffer) ++ (entries with
     buffer), and cached + in-flight + data-bearing unused entries are
     exactly cap many (hence I2: nprec + nprobe + ninflight <= cap) *)
  I_unused : exists em fu, unused s = em ++ fu /\
     length (prec s) + length (probe s) + length (infl s) + length fu = cap s /\
     (forall e, In e fu -> data s e <> None) /\
     (forall e, In e em -> data s e = None);
  (* buffers: tokens are < cap, no token is owned twice, every token is owned *)
  I_tok_lt : forall e t, data s e = Some t -> t < cap s;
  I_tok_inj : forall e e' t, data s e = Some t -> data s e' = Some t -> e = e';
  I_tok_all : forall t, t < cap s -> exists e, data s e = Some t;
  (* cached and in-flight entries own a buffer; ghosts own none (I4) *)
  I_data_cached : forall e, In e (cached s) -> data s e <> None;
  I_data_ghost : forall e, In e (gprec s ++ gprobe s) -> data s e = None;
  I_data_out : forall e, 2 * cap s <= e -> data s e = None;
  (* I5: one entry per key among cached and in-flight entries *)
  I_keys : forall e e', In e (cached s) -> In e' (cached s) ->
     key s e = key s e' -> e = e';
  (* I6: reference counts are exactly the outstanding handles; only cached
     and in-flight entries are referenced; in-flight entries are referenced
     by pending handles only *)
  I_ref : forall e, ref s e = count_occ Nat.eq_dec (pend s) e + count_occ Nat.eq_dec (plain s) e;
  I_ref_cached : forall e, 0 < ref s e -> In e (cached s);
  I_infl_ref : forall e, In e (infl s) -> In e (pend s) /\ ~ In e (plain s);
  (* I7 *)
  I_est_valid : forall e, In e (prec s ++ probe s) -> est s e = Valid;
  I_est_infl : forall e, In e (infl s) -> est s e <> Valid;
  I_dprobe : dprobe s <= cap s;
  (* a committed entry's buffer holds the data inserted for its key *)
  I_content : forall e t, In e (prec s ++ probe s) -> data s e = Some t ->
     content s t = Some (key s e)
}.

(** * One operation *)

Definition keeps_referenced (s s' : st) : Prop :=
  forall e, 0 < ref s e -> 0 < ref s' e ->
    key s' e = key s e /\ data s' e = data s e /\ In e (cached s') /\
    (est s e = Valid -> est s' e = Valid /\
       forall t, data s e = Some t -> content s' t = content s t).

Definition all_buffers_busy (s : st) : Prop :=
  forall t, t < cap s -> exists e, data s e = Some t /\ 0 < ref s e.

Definition same_cache (s s' : st) : Prop :=
  prec s' = prec s /\ gprec s' = gprec s /\ unused s' = unused s /\
  gprobe s' = gprobe s /\ probe s' = probe s /\ infl s' = infl s /\
  dprobe s' = dprobe s /\
  (forall e, key s' e = key s e /\ ref s' e = ref s e /\ data s' e = data s e /\
             est s' e = est s e).

Definition get_ok (s : st) (k : N) (r : ret) (s' : st) : Prop :=
  match r with
  | REntry e true =>
      (* hit: the entry was committed for this key and still has the buffer
         it was committed with, holding the data inserted for the key *)
      In e (prec s ++ probe s) /\ key s e = k /\ key s' e = k /\ data s' e = data s e /\
      exists t, data s' e = Some t /\ content s' t = Some k /\ content s t = Some k
  | REntry e false =>
      (* miss (or ghost hit, or somebody else's miss in progress): the caller
         gets an in-flight entry for this key with a buffer that no other
         entry owns and that no referenced entry owned before *)
      In e (infl s') /\ key s' e = k /\
      exists t, data s' e = Some t /\
        forall x, data s x = Some t -> x = e \/ ref s x = 0
  | RBusy =>
      same_cache s s' /\ all_buffers_busy s /\
      forall e, In e (cached s) -> key s e <> k
  | RDone => False
  end.

Definition step_ok (s : st) (o : op) (r : ret) (ev : list (nat * nat)) (s' : st) : Prop :=
  keeps_referenced s s' /\
  (* entries passed to the cleanup callback (evicted) were unreferenced *)
  (forall v n, In (v, n) ev -> n = 0 /\ ref s v = 0) /\
  cap s' = cap s /\
  match o with
  | Get k => get_ok s k r s'
  | _ => r = RDone
  end.

(** * Executable versions *)

Definition eids (s : st) : list nat := seq 0 (2 * cap s).

Definition opt_nat_eqb (a b : option nat) : bool :=
  match a, b with
  | Some x, Some y => Nat.eqb x y
  | None, None => true
  | _, _ => false
  end.

Definition opt_N_eqb (a b : option N) : bool :=
  match a, b with
  | Some x, Some y => N.eqb x y
  | None, None => true
  | _, _ => false
  end.

Definition is_none {A} (a : option A) : bool := match a with None => true | _ => false end.
Definition is_some {A} (a : option A) : bool := match a with None => false | _ => true end.

Definition memb (e : nat) (l : list nat) : bool := existsb (Nat.eqb e) l.

Fixpoint nodupb (l : list nat) : bool :=
  match l with
  | [] => true
  | x :: t => negb (memb x t) && nodupb t
  end.

Definition estate_eqb (a b : estate) : bool :=
  match a, b with
  | Valid, Valid | SProbe, SProbe | SPrec, SPrec => true
  | _, _ => false
  end.

(* each clause separately, so that a failure can be named *)
Definition invb_clauses (s : st) : list (nat * bool) :=
  let E := eids s in
  let busy := length (prec s) + length (probe s) + length (infl s) in
  let nfree := cap s - busy in
  let em := firstn (length (unused s) - nfree) (unused s) in
  let fu := skipn (length (unused s) - nfree) (unused s) in
  [ (0, 0 <? cap s);
    (1, (length (all_entries s) =? 2 * cap s) && nodupb (all_entries s) &&
        forallb (fun e => e <? 2 * cap s) (all_entries s));
    (2, busy <=? cap s);
    (3, (nfree <=? length (unused s)) &&
        forallb (fun e => is_some (data s e)) fu && forallb (fun e => is_none (data s e)) em);
    (4, forallb (fun e => match data s e with Some t => t <? cap s | None => true end) E);
    (5, forallb (fun e => forallb (fun e' =>
          is_none (data s e) || negb (opt_nat_eqb (data s e) (data s e')) || (e =? e')) E) E);
    (6, forallb (fun t => existsb (fun e => opt_nat_eqb (data s e) (Some t)) E) (seq 0 (cap s)));
    (7, forallb (fun e => is_some (data s e)) (cached s));
    (8, forallb (fun e => is_none (data s e)) (gprec s ++ gprobe s));
    (9, forallb (fun e => forallb (fun e' =>
          negb (N.eqb (key s e) (key s e')) || (e =? e')) (cached s)) (cached s));
    (10, forallb (fun e => ref s e =? count_occ Nat.eq_dec (pend s) e + count_occ Nat.eq_dec (plain s) e) E
         && forallb (fun e => e <? 2 * cap s) (pend s ++ plain s));
    (11, forallb (fun e => (ref s e =? 0) || memb e (cached s)) E);
    (12, forallb (fun e => memb e (pend s) && negb (memb e (plain s))) (infl s));
    (13, forallb (fun e => estate_eqb (est s e) Valid) (prec s ++ probe s));
    (14, forallb (fun e => negb (estate_eqb (est s e) Valid)) (infl s));
    (15, dprobe s <=? cap s);
    (16, forallb (fun e => match data s e with
                           | Some t => opt_N_eqb (content s t) (Some (key s e))
                           | None => true end) (prec s ++ probe s)) ].

Definition failed (cl : list (nat * bool)) : list nat :=
  map fst (filter (fun p => negb (snd p)) cl).

Definition invb (s : st) : bool := forallb snd (invb_clauses s).

(* Clauses 3 (where the free buffers sit inside the unused partition), 8
   (ghosts own no buffer) and 15 (range of the adaptation target) are what
   the *proof* needs; the property text does not demand them, so the judge of
   the implementation leaves them out. *)
Definition internal_clauses : list nat := [3; 8; 15].
Definition spec_inv_clauses (s : st) : list (nat * bool) :=
  filter (fun p => negb (memb (fst p) internal_clauses)) (invb_clauses s).

Definition keeps_referencedb (s s' : st) : bool :=
  forallb (fun e =>
    (ref s e =? 0) || (ref s' e =? 0) ||
    (N.eqb (key s' e) (key s e) && opt_nat_eqb (data s' e) (data s e) && memb e (cached s') &&
     (negb (estate_eqb (est s e) Valid) ||
      (estate_eqb (est s' e) Valid &&
       match data s e with
       | Some t => opt_N_eqb (content s' t) (content s t)
       | None => true
       end)))) (eids s).

Definition all_buffers_busyb (s : st) : bool :=
  forallb (fun t => existsb (fun e => opt_nat_eqb (data s e) (Some t) && negb (ref s e =? 0))
                            (eids s)) (seq 0 (cap s)).

Definition list_eqb (a b : list nat) : bool :=
  (length a =? length b) && forallb (fun p => fst p =? snd p) (combine a b).

Definition same_cacheb (s s' : st) : bool :=
  list_eqb (prec s') (prec s) && list_eqb (gprec s') (gprec s) &&
  list_eqb (unused s') (unused s) && list_eqb (gprobe s') (gprobe s) &&
  list_eqb (probe s') (probe s) && list_eqb (infl s') (infl s) &&
  (dprobe s' =? dprobe s) &&
  forallb (fun e => N.eqb (key s' e) (key s e) && (ref s' e =? ref s e) &&
                    opt_nat_eqb (data s' e) (data s e) &&
                    estate_eqb (est s' e) (est s e)) (eids s).

(* numbered clauses of [get_ok], for naming a failure *)
Definition get_okb_clauses (s : st) (k : N) (r : ret) (s' : st) : list (nat * bool) :=
  match r with
  | REntry e true =>
      [ (20, memb e (prec s ++ probe s));
        (21, N.eqb (key s e) k && N.eqb (key s' e) k);
        (22, opt_nat_eqb (data s' e) (data s e));
        (23, match data s' e with
             | Some t => opt_N_eqb (content s' t) (Some k) && opt_N_eqb (content s t) (Some k)
             | None => false
             end) ]
  | REntry e false =>
      [ (24, memb e (infl s'));
        (25, N.eqb (key s' e) k);
        (26, match data s' e with
             | Some t => forallb (fun x => negb (opt_nat_eqb (data s x) (Some t)) ||
                                            (x =? e) || (ref s x =? 0)) (eids s)
             | None => false
             end) ]
  | RBusy =>
      [ (27, same_cacheb s s');
        (28, all_buffers_busyb s);
        (29, forallb (fun e => negb (N.eqb (key s e) k)) (cached s)) ]
  | RDone => [ (30, false) ]
  end.

Definition step_okb_clauses (s : st) (o : op) (r : ret) (ev : list (nat * nat)) (s' : st)
  : list (nat * bool) :=
  [ (17, keeps_referencedb s s');
    (18, forallb (fun p => (snd p =? 0) && (ref s (fst p) =? 0)) ev);
    (19, cap s' =? cap s) ] ++
  match o with
  | Get k => get_okb_clauses s k r s'
  | _ => [ (31, match r with RDone => true | _ => false end) ]
  end.

Definition step_okb (s : st) (o : op) (r : ret) (ev : list (nat * nat)) (s' : st) : bool :=
  forallb snd (step_okb_clauses s o r ev s').

(** * Reading a state dump (of the implementation) back into a state *)

Record dump := mkdump {
  d_cap : nat; d_nprec : nat; d_ngprec : nat; d_nprobe : nat; d_ngprobe : nat;
  d_dprobe : nat;
  d_ring : list nat;                      (* next order from ce[split].next *)
  d_infl : list nat;
  (* per entry, in index order: key, state, refcnt, buffer index, content *)
  d_ents : list (N * estate * nat * option nat * option N);
  d_hits : N; d_misses : N; d_pend : list nat; d_plain : list nat }.

Definition ent_default : N * estate * nat * option nat * option N :=
  (0%N, Valid, 0, None, None).

Definition of_dump (d : dump) : option st :=
  let n := length (d_ring d) in
  if n <? d_nprec d + d_ngprec d + d_nprobe d + d_ngprobe d then None else
  let nun := n - (d_nprec d + d_ngprec d + d_nprobe d + d_ngprobe d) in
  let r1 := skipn (d_nprec d) (d_ring d) in
  let r2 := skipn (d_ngprec d) r1 in
  let r3 := skipn nun r2 in
  let r4 := skipn (d_ngprobe d) r3 in
  let ent e := nth e (d_ents d) ent_default in
  Some (mkst (firstn (d_nprec d) (d_ring d)) (firstn (d_ngprec d) r1) (firstn nun r2)
             (rev (firstn (d_ngprobe d) r3)) (rev r4) (d_infl d)
             (d_dprobe d) (d_cap d)
             (fun e => match ent e with (k, _, _, _, _) => k end)
             (fun e => match ent e with (_, _, r, _, _) => r end)
             (fun e => if e <? length (d_ents d)
                       then match ent e with (_, _, _, b, _) => b end else None)
             (fun e => match ent e with (_, x, _, _, _) => x end)
             (d_hits d) (d_misses d) (d_pend d) (d_plain d)
             (fun t => match find (fun p => match p with (_, _, _, b, _) => opt_nat_eqb b (Some t) end)
                                  (d_ents d) with
                       | Some (_, _, _, _, c) => c
                       | None => None
                       end)).
