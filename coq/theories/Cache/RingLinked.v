(** Well-formed circular doubly linked lists over [next]/[prev] index
    functions ([linked]); the three pointer primitives of cache.c
    ([CacheRing.remove_entry], [add_entry_after], [add_entry_before]) perform
    exactly the list edits (remove an element / insert next to an element);
    following the pointers ([walk]/[chase]) over a segment; the composite
    edits of cache.c with their [split] bookkeeping ([ring_remove_fix],
    [ring_move_front], [ring_evict_probe], [ring_evict_prec]); the ring built
    by cache_flush. *)
From Coq Require Import List Bool Arith PeanoNat Lia Permutation.
From KdV Require Import Cache.CacheList Cache.CacheLemmas Cache.CacheRing.
Import ListNotations.

(** A circular list [l] (in [next] order, any rotation) is represented by
    [nx]/[pv] when [l] has no repetition and every element points to its
    cyclic successor / predecessor. *)
Definition succs (l : list nat) : list (nat * nat) := combine l (tl l ++ firstn 1 l).

Definition linked (nx pv : nat -> nat) (l : list nat) : Prop :=
  NoDup l /\ forall x y, In (x, y) (succs l) -> nx x = y /\ pv y = x.

(** successor pairs of a list written with its first element exposed *)
Lemma succs_cons a m : succs (a :: m) = combine (a :: m) (m ++ [a]).
Proof. reflexivity. Qed.

Lemma combine_snoc (l : list nat) : forall (l' : list nat) x y, length l = length l' ->
  combine (l ++ [x]) (l' ++ [y]) = combine l l' ++ [(x, y)].
Proof.
  induction l as [|a l IH]; intros [|b l'] x y Hlen; cbn in *; try discriminate; [reflexivity|].
  rewrite IH by lia. reflexivity.
Qed.

(* the pairs of [a :: m]: the consecutive pairs inside, then the closing pair *)
Fixpoint chain (a : nat) (m : list nat) : list (nat * nat) :=
  match m with
  | [] => []
  | b :: m' => (a, b) :: chain b m'
  end.

Lemma last_cons (m : list nat) : forall b a, last (b :: m) a = last m b.
Proof.
  induction m as [|c m IH]; intros b a; [reflexivity|].
  change (last (b :: c :: m) a) with (last (c :: m) a). rewrite !IH. reflexivity.
Qed.

Lemma combine_chain m : forall a c,
  combine (a :: m) (m ++ [c]) = chain a m ++ [(last m a, c)].
Proof.
  induction m as [|b m IH]; intros a c; [reflexivity|].
  change (combine (a :: b :: m) ((b :: m) ++ [c])) with ((a, b) :: combine (b :: m) (m ++ [c])).
  rewrite IH. cbn [chain app]. rewrite last_cons. reflexivity.
Qed.

Lemma succs_chain a m : succs (a :: m) = chain a m ++ [(last m a, a)].
Proof. rewrite succs_cons. apply combine_chain. Qed.

Lemma chain_in a m x y : In (x, y) (chain a m) -> In y m /\ (x = a \/ In x m).
Proof.
  revert a. induction m as [|b m IH]; intros a Hin; cbn in Hin; [contradiction|].
  destruct Hin as [Heq|Hin].
  - inversion Heq; subst. split; [left; reflexivity|left; reflexivity].
  - apply IH in Hin. destruct Hin as [Hy Hx]. split; [right; exact Hy|].
    right. destruct Hx as [->|Hx]; [left; reflexivity|right; exact Hx].
Qed.

Lemma chain_app a m1 b m2 : chain a (m1 ++ b :: m2) = chain a m1 ++ (last m1 a, b) :: chain b m2.
Proof.
  revert a. induction m1 as [|c m1 IH]; intros a; [reflexivity|].
  cbn [app chain]. rewrite IH. rewrite last_cons. reflexivity.
Qed.

(** rotation does not matter *)
Lemma succs_rot a m : Permutation (succs (a :: m)) (succs (m ++ [a])).
Proof.
  destruct m as [|b m]; [reflexivity|].
  rewrite succs_chain. change ((b :: m) ++ [a]) with (b :: (m ++ [a])). rewrite succs_chain.
  rewrite chain_app, last_last, last_cons. cbn [chain app].
  apply Permutation_cons_append.
Qed.

Lemma linked_rot nx pv a m : linked nx pv (a :: m) <-> linked nx pv (m ++ [a]).
Proof.
  unfold linked. split; intros [Hnd Hl]; split.
  - apply (Permutation_NoDup (l := a :: m)); [|exact Hnd].
    change (a :: m) with ([a] ++ m). apply Permutation_app_comm.
  - intros x y Hin. apply Hl. apply (Permutation_in _ (Permutation_sym (succs_rot a m))). exact Hin.
  - apply (Permutation_NoDup (l := m ++ [a])); [|exact Hnd].
    change (a :: m) with ([a] ++ m). apply Permutation_app_comm.
  - intros x y Hin. apply Hl. apply (Permutation_in _ (succs_rot a m)). exact Hin.
Qed.

Lemma linked_rot_app nx pv l1 l2 : linked nx pv (l1 ++ l2) <-> linked nx pv (l2 ++ l1).
Proof.
  revert l2. induction l1 as [|a l1 IH]; intros l2.
  - rewrite app_nil_r. reflexivity.
  - cbn [app]. rewrite linked_rot. rewrite <- app_assoc. rewrite IH.
    rewrite <- app_assoc. reflexivity.
Qed.

(** what a well-formed ring says about the neighbours of its first element *)
Lemma linked_head nx pv e b m : linked nx pv (e :: b :: m) ->
  nx e = b /\ pv e = last m b /\ pv b = e /\ nx (last m b) = e.
Proof.
  intros [_ Hl]. rewrite succs_chain in Hl.
  destruct (Hl e b) as [H1 H2]; [apply in_or_app; left; left; reflexivity|].
  destruct (Hl (last (b :: m) e) e) as [H3 H4]; [apply in_or_app; right; left; reflexivity|].
  replace (last (b :: m) e) with (last m b) in * by (symmetry; apply last_cons).
  auto.
Qed.

Lemma last_in (m : list nat) b : In (last m b) (b :: m).
Proof.
  revert b. induction m as [|c m IH]; intros b; [left; reflexivity|].
  right. replace (last (c :: m) b) with (last m c) by (symmetry; apply last_cons). apply IH.
Qed.

Lemma chain_fst_not_last a m x y : NoDup (a :: m) -> In (x, y) (chain a m) -> x <> last m a.
Proof.
  revert a. induction m as [|b m IH]; intros a Hnd Hin; cbn in Hin; [contradiction|].
  replace (last (b :: m) a) with (last m b) by (symmetry; apply last_cons).
  pose proof (proj1 (NoDup_cons_iff _ _) Hnd) as [Hnotin Hnd'].
  destruct Hin as [Heq|Hin].
  - inversion Heq; subst. intros Heq'. apply Hnotin. rewrite Heq'. apply last_in.
  - apply IH; assumption.
Qed.

(** [remove_entry] unlinks the element: the ring [l1 ++ e :: l2] becomes
    [l1 ++ l2] (at least one other element remains; the callers of cache.c
    never empty the main ring, and [cache_insert]/[cache_discard] handle the
    in-flight ring through [cache->inflight] and [ninflight]) *)
Theorem remove_entry_linked nx pv l1 e l2 :
  linked nx pv (l1 ++ e :: l2) -> l1 ++ l2 <> [] ->
  linked (fst (remove_entry nx pv e)) (snd (remove_entry nx pv e)) (l1 ++ l2).
Proof.
  intros Hl Hne. unfold remove_entry. cbn [fst snd].
  apply linked_rot_app in Hl. cbn [app] in Hl.
  apply linked_rot_app. set (m := l2 ++ l1) in *.
  assert (Hm : m <> []).
  { subst m. intros Heq. apply app_eq_nil in Heq. destruct Heq; subst. apply Hne. reflexivity. }
  destruct m as [|b m']; [congruence|]. clear Hne Hm.
  destruct (linked_head _ _ _ _ _ Hl) as (Hn & Hp & _ & _).
  rewrite Hn, Hp. destruct Hl as [Hnd Hl]. pose proof (proj1 (NoDup_cons_iff _ _) Hnd) as [Hnotin Hnd'].
  split; [exact Hnd'|].
  intros x y Hin. rewrite succs_chain in Hin. rewrite succs_chain in Hl.
  apply in_app_or in Hin. destruct Hin as [Hin|[Heq|[]]].
  - destruct (Hl x y) as [H1 H2].
    { apply in_or_app. left. cbn [chain]. right. exact Hin. }
    pose proof (chain_fst_not_last _ _ _ _ Hnd' Hin) as Hxl.
    apply chain_in in Hin. destruct Hin as [Hy _].
    assert (Hyb : y <> b).
    { pose proof (proj1 (NoDup_cons_iff _ _) Hnd') as [Hb _]. intros ->. contradiction. }
    rewrite !upd_neq by assumption. split; assumption.
  - inversion Heq; subst. split; apply upd_eq.
Qed.

(** [add_entry_after] links [e] right after [x] *)
Theorem add_entry_after_linked nx pv l1 x l2 e :
  linked nx pv (l1 ++ x :: l2) -> ~ In e (l1 ++ x :: l2) ->
  linked (fst (add_entry_after nx pv e x)) (snd (add_entry_after nx pv e x))
         (l1 ++ x :: e :: l2).
Proof.
  intros Hl Hni. unfold add_entry_after. cbn [fst snd].
  apply linked_rot_app in Hl. cbn [app] in Hl.
  apply linked_rot_app. cbn [app].
  assert (Hni' : ~ In e (x :: l2 ++ l1)).
  { intros Hin. apply Hni. apply in_or_app. cbn in Hin. cbn.
    destruct Hin as [->|Hin]; [right; left; reflexivity|].
    apply in_app_or in Hin. tauto. }
  set (m := l2 ++ l1) in *. clearbody m. clear Hni l1 l2.
  assert (Hex : e <> x) by (intros ->; apply Hni'; left; reflexivity).
  destruct m as [|b m'].
  - (* the ring was the single element x *)
    destruct Hl as [Hnd Hl]. destruct (Hl x x) as [Hnx Hpx]; [left; reflexivity|].
    rewrite Hnx. split.
    + constructor; [intros [Heq|[]]; congruence|constructor; [intros []|constructor]].
    + intros u v Hin. cbn in Hin. destruct Hin as [Heq|[Heq|[]]]; injection Heq as <- <-.
      * split; [apply upd_eq|]. rewrite upd_neq by assumption. rewrite upd_eq. exact Hpx.
      * split; [|apply upd_eq]. rewrite upd_neq by assumption. apply upd_eq.
  - destruct (linked_head _ _ _ _ _ Hl) as (Hn & Hp & Hpb & Hnl).
    rewrite Hn. destruct Hl as [Hnd Hl].
    assert (Heb : e <> b) by (intros ->; apply Hni'; right; left; reflexivity).
    pose proof (proj1 (NoDup_cons_iff _ _) Hnd) as [Hxnotin Hnd'].
    split.
    + constructor; [|constructor; [|exact Hnd']].
      * intros [Heq|Hin]; [congruence|contradiction].
      * intros Hin. apply Hni'. right. exact Hin.
    + intros u v Hin. rewrite succs_chain in Hin. rewrite succs_chain in Hl.
      rewrite !last_cons in Hin. cbn [chain] in Hin.
      apply in_app_or in Hin. destruct Hin as [[Heq|[Heq|Hin]]|[Heq|[]]].
      * injection Heq as <- <-. split; [apply upd_eq|].
        rewrite upd_neq by assumption. rewrite upd_eq. exact Hpb.
      * injection Heq as <- <-. split.
        -- rewrite upd_neq by assumption. apply upd_eq.
        -- apply upd_eq.
      * destruct (Hl u v) as [H1 H2].
        { apply in_or_app. left. cbn [chain]. right. exact Hin. }
        apply chain_in in Hin. destruct Hin as [Hv Hu].
        assert (Hux : u <> x) by (intros ->; apply Hxnotin; destruct Hu as [->|Hu]; [left; reflexivity|right; exact Hu]).
        assert (Hue : u <> e) by (intros ->; apply Hni'; right; destruct Hu as [->|Hu]; [left; reflexivity|right; exact Hu]).
        assert (Hvb : v <> b) by (pose proof (proj1 (NoDup_cons_iff _ _) Hnd') as [Hb _]; intros ->; contradiction).
        assert (Hve : v <> e) by (intros ->; apply Hni'; right; right; exact Hv).
        rewrite !upd_neq by assumption. split; assumption.
      * injection Heq as <- <-.
        pose proof (last_in m' b) as Hlin.
        assert (Hlx : last m' b <> x) by (intros Heq'; apply Hxnotin; rewrite <- Heq'; exact Hlin).
        assert (Hle : last m' b <> e) by (intros Heq'; apply Hni'; right; rewrite <- Heq'; exact Hlin).
        assert (Hvb : x <> b) by (intros ->; apply Hxnotin; left; reflexivity).
        rewrite !upd_neq by (assumption || congruence). split; [exact Hnl|exact Hp].
Qed.

(** [add_entry_before] links [e] right before [x] *)
Theorem add_entry_before_linked nx pv l1 x l2 e :
  linked nx pv (l1 ++ x :: l2) -> ~ In e (l1 ++ x :: l2) ->
  linked (fst (add_entry_before nx pv e x)) (snd (add_entry_before nx pv e x))
         (l1 ++ e :: x :: l2).
Proof.
  intros Hl Hni. unfold add_entry_before. cbn [fst snd].
  apply linked_rot_app in Hl. cbn [app] in Hl.
  (* target: l1 ++ e :: x :: l2  ~  x :: l2 ++ l1 ++ [e] *)
  replace (l1 ++ e :: x :: l2) with ((l1 ++ [e]) ++ x :: l2) by (rewrite <- app_assoc; reflexivity).
  apply linked_rot_app. cbn [app]. rewrite app_assoc.
  assert (Hni' : ~ In e (x :: l2 ++ l1)).
  { intros Hin. apply Hni. apply in_or_app. cbn in Hin. cbn.
    destruct Hin as [->|Hin]; [right; left; reflexivity|].
    apply in_app_or in Hin. tauto. }
  set (m := l2 ++ l1) in *. clearbody m. clear Hni l1 l2.
  assert (Hex : e <> x) by (intros ->; apply Hni'; left; reflexivity).
  destruct m as [|b m'].
  - destruct Hl as [Hnd Hl]. destruct (Hl x x) as [Hnx Hpx]; [left; reflexivity|].
    rewrite Hpx, Hnx. split.
    + constructor; [intros [Heq|[]]; congruence|constructor; [intros []|constructor]].
    + intros u v Hin. cbn in Hin. destruct Hin as [Heq|[Heq|[]]]; injection Heq as <- <-.
      * split; [apply upd_eq|]. rewrite upd_neq by assumption. apply upd_eq.
      * split; [|apply upd_eq]. rewrite upd_neq by assumption. apply upd_eq.
  - destruct (linked_head _ _ _ _ _ Hl) as (Hn & Hp & Hpb & Hnl).
    rewrite Hp, Hnl. destruct Hl as [Hnd Hl].
    pose proof (proj1 (NoDup_cons_iff _ _) Hnd) as [Hxnotin Hnd'].
    pose proof (last_in m' b) as Hlin.
    assert (Hlx : last m' b <> x) by (intros Heq'; apply Hxnotin; rewrite <- Heq'; exact Hlin).
    assert (Hle : last m' b <> e) by (intros Heq'; apply Hni'; right; rewrite <- Heq'; exact Hlin).
    split.
    + constructor.
      * intros Hin. apply in_app_or in Hin. destruct Hin as [Hin|[Heq|[]]]; [contradiction|congruence].
      * apply (Permutation_NoDup (l := e :: b :: m')); [apply Permutation_cons_append|].
        constructor; [|exact Hnd']. intros Hin. apply Hni'. right. exact Hin.
    + intros u v Hin. rewrite succs_chain in Hin. rewrite succs_chain in Hl.
      change ((b :: m') ++ [e]) with (b :: (m' ++ [e])) in Hin.
      cbn [chain] in Hin.
      assert (Hch : chain b (m' ++ [e]) = chain b m' ++ [(last m' b, e)]).
      { rewrite chain_app. reflexivity. }
      rewrite Hch in Hin.
      replace (last (b :: m' ++ [e]) x) with e in Hin
        by (change (b :: m' ++ [e]) with ((b :: m') ++ [e]); rewrite last_last; reflexivity).
      apply in_app_or in Hin. destruct Hin as [[Heq|Hin]|[Heq|[]]].
      * (* (x, b) *)
        injection Heq as <- <-.
        assert (Hbx : b <> x) by (intros ->; apply Hxnotin; left; reflexivity).
        assert (Hbe : b <> e) by (intros ->; apply Hni'; right; left; reflexivity).
        rewrite !upd_neq by (assumption || congruence). split; [exact Hn|exact Hpb].
      * apply in_app_or in Hin. destruct Hin as [Hin|[Heq|[]]].
        -- destruct (Hl u v) as [H1 H2].
           { apply in_or_app. left. cbn [chain]. right. exact Hin. }
           pose proof (chain_fst_not_last _ _ _ _ Hnd' Hin) as Hul.
           apply chain_in in Hin. destruct Hin as [Hv Hu].
           assert (Hue : u <> e) by (intros ->; apply Hni'; right; destruct Hu as [->|Hu]; [left; reflexivity|right; exact Hu]).
           assert (Hvx : v <> x) by (intros ->; apply Hxnotin; right; exact Hv).
           assert (Hve : v <> e) by (intros ->; apply Hni'; right; right; exact Hv).
           rewrite !upd_neq by assumption. split; assumption.
        -- injection Heq as <- <-. split; [apply upd_eq|].
           rewrite upd_neq by assumption. apply upd_eq.
      * (* (e, x) *)
        injection Heq as <- <-. split; [|apply upd_eq].
        rewrite upd_neq by congruence. apply upd_eq.
Qed.

(** [add_inflight]: the first in-flight entry points to itself; later ones
    are linked before the head, i.e. appended in [next] order *)
Lemma add_inflight_first nx pv e : linked (upd nx e e) (upd pv e e) [e].
Proof.
  split; [constructor; [intros []|constructor]|].
  intros x y [Heq|[]]. injection Heq as <- <-. split; apply upd_eq.
Qed.

Theorem add_inflight_append nx pv h l e :
  linked nx pv (h :: l) -> ~ In e (h :: l) ->
  linked (fst (add_entry_before nx pv e h)) (snd (add_entry_before nx pv e h)) (h :: l ++ [e]).
Proof.
  intros Hl Hni.
  pose proof (add_entry_before_linked nx pv [] h l e Hl Hni) as H. cbn [app] in H.
  apply linked_rot in H. exact H.
Qed.

(** * Following the pointers *)

Lemma linked_nil nx pv : linked nx pv [].
Proof. split; [constructor|intros x y []]. Qed.

Lemma linked_NoDup nx pv l : linked nx pv l -> NoDup l.
Proof. intros [H _]; exact H. Qed.

(* the successor of the first element *)
Lemma linked_hd_nx nx pv a m : linked nx pv (a :: m) -> nx a = hd a m.
Proof.
  intros [_ Hl]. rewrite succs_chain in Hl. destruct m as [|b m].
  - destruct (Hl a a) as [H _]; [left; reflexivity|exact H].
  - destruct (Hl a b) as [H _]; [left; reflexivity|exact H].
Qed.

(* the predecessor of the last element *)
Lemma linked_last_pv nx pv m a : linked nx pv (m ++ [a]) -> pv a = last m a.
Proof.
  intros Hl. apply linked_rot in Hl. destruct Hl as [_ Hl]. rewrite succs_chain in Hl.
  destruct (Hl (last m a) a) as [_ H]; [apply in_or_app; right; left; reflexivity|exact H].
Qed.

(* the ring closes *)
Lemma linked_wrap nx pv l d : linked nx pv l -> l <> [] ->
  nx (last l d) = hd d l /\ pv (hd d l) = last l d.
Proof.
  intros Hl Hne. destruct l as [|a m]; [congruence|]. cbn [hd].
  destruct Hl as [_ Hl]. rewrite succs_chain in Hl.
  destruct (Hl (last m a) a) as [H1 H2]; [apply in_or_app; right; left; reflexivity|].
  rewrite last_cons. split; assumption.
Qed.

Lemma hd_app_ne (l1 l2 : list nat) d : l1 <> [] -> hd d (l1 ++ l2) = hd d l1.
Proof. destruct l1; [congruence|reflexivity]. Qed.

Lemma last_app_ne (l1 l2 : list nat) d : l2 <> [] -> last (l1 ++ l2) d = last l2 d.
Proof.
  intros Hne. destruct (exists_last Hne) as (m & a & ->).
  rewrite app_assoc, !last_last. reflexivity.
Qed.

Lemma last_default (m : list nat) d d' : m <> [] -> last m d = last m d'.
Proof.
  intros Hne. destruct (exists_last Hne) as (l & a & ->). rewrite !last_last. reflexivity.
Qed.

Lemma last_app_ne' (l m : list nat) d d' : m <> [] -> last (l ++ m) d = last m d'.
Proof. intros Hne. rewrite last_app_ne by assumption. apply last_default. assumption. Qed.

(* walking forward over a segment [w] of the ring: the loop visits exactly
   [w] and ends on the element that follows it cyclically *)
Lemma walk_chase_fwd nx pv : forall w t d, linked nx pv (w ++ t) -> w ++ t <> [] ->
  walk nx (length w) (hd d (w ++ t)) = w /\
  chase nx (length w) (hd d (w ++ t)) = hd d (t ++ w).
Proof.
  induction w as [|a w IH]; intros t d Hl Hne.
  - rewrite app_nil_r. split; reflexivity.
  - cbn [app hd length walk chase].
    assert (Hrot : linked nx pv (w ++ t ++ [a])).
    { cbn [app] in Hl. apply linked_rot in Hl. rewrite <- app_assoc in Hl. exact Hl. }
    assert (Hnx : nx a = hd d (w ++ t ++ [a])).
    { cbn [app] in Hl. rewrite (linked_hd_nx _ _ _ _ Hl).
      destruct (w ++ t) as [|b m] eqn:E.
      - apply app_eq_nil in E. destruct E; subst. reflexivity.
      - rewrite app_assoc, E. reflexivity. }
    rewrite Hnx.
    destruct (IH (t ++ [a]) d Hrot) as [Hw Hc].
    { intros E. apply app_eq_nil in E. destruct E as [_ E].
      apply app_eq_nil in E. destruct E; discriminate. }
    split; [rewrite Hw; reflexivity|].
    rewrite Hc. rewrite <- app_assoc. cbn [app].
    destruct t as [|b t]; reflexivity.
Qed.

(* walking backward *)
Lemma walk_chase_bwd nx pv : forall w t d, linked nx pv (t ++ w) -> t ++ w <> [] ->
  walk pv (length w) (last (t ++ w) d) = rev w /\
  chase pv (length w) (last (t ++ w) d) = last (w ++ t) d.
Proof.
  intros w. induction w as [|a w IH] using rev_ind; intros t d Hl Hne.
  - rewrite app_nil_r. split; reflexivity.
  - rewrite app_length, Nat.add_comm. cbn [length Nat.add walk chase].
    rewrite app_assoc, last_last.
    assert (Hrot : linked nx pv ((a :: t) ++ w)).
    { rewrite app_assoc in Hl. apply linked_rot. cbn [app]. exact Hl. }
    assert (Hpv : pv a = last ((a :: t) ++ w) d).
    { rewrite app_assoc in Hl. rewrite (linked_last_pv _ _ _ _ Hl).
      destruct (exists_last (l := a :: t ++ w)) as (m & b & E); [discriminate|].
      cbn [app]. rewrite E, last_last.
      destruct (t ++ w) as [|c m'] eqn:E'.
      - inversion E as [E1]. destruct m; [inversion E1; reflexivity|].
        destruct m; discriminate.
      - assert (c :: m' = (tl (m ++ [b]))) by (rewrite <- E; reflexivity).
        destruct m as [|x m]; [cbn in H; discriminate|].
        cbn [app tl] in H. rewrite H, last_last. reflexivity. }
    rewrite Hpv.
    destruct (IH (a :: t) d Hrot) as [Hw Hc]; [discriminate|].
    split; [rewrite Hw, rev_app_distr; reflexivity|].
    rewrite Hc. rewrite <- app_assoc. cbn [app].
    destruct (exists_last (l := a :: t)) as (m & b & E); [discriminate|].
    rewrite E, !app_assoc, !last_last. reflexivity.
Qed.

(* changing pointers outside a ring does not affect it *)
Lemma succs_in (l : list nat) x y : In (x, y) (succs l) -> In x l /\ In y l.
Proof.
  destruct l as [|a m]; [intros []|]. rewrite succs_chain. intros Hin.
  apply in_app_or in Hin. destruct Hin as [Hin|[Heq|[]]].
  - apply chain_in in Hin. destruct Hin as [Hy Hx].
    split; [destruct Hx as [->|Hx]; [left; reflexivity|right; exact Hx]|right; exact Hy].
  - injection Heq as <- <-. split; [apply last_in|left; reflexivity].
Qed.

Lemma linked_ext nx pv nx' pv' l : linked nx pv l ->
  (forall x, In x l -> nx' x = nx x) -> (forall x, In x l -> pv' x = pv x) ->
  linked nx' pv' l.
Proof.
  intros [Hnd Hl] Hn Hp. split; [exact Hnd|].
  intros x y Hin. destruct (succs_in _ _ _ Hin) as [Hx Hy].
  rewrite (Hn x Hx), (Hp y Hy). apply Hl. exact Hin.
Qed.

(** * Neighbours, closure, frames *)

Lemma linked_succ nx pv l1 x l2 : linked nx pv (l1 ++ x :: l2) -> nx x = hd x (l2 ++ l1).
Proof.
  intros Hl. apply linked_rot_app in Hl. cbn [app] in Hl.
  apply linked_hd_nx in Hl. exact Hl.
Qed.

Lemma linked_pred nx pv l1 x l2 : linked nx pv (l1 ++ x :: l2) -> pv x = last (l2 ++ l1) x.
Proof.
  intros Hl. replace (l1 ++ x :: l2) with ((l1 ++ [x]) ++ l2) in Hl by (rewrite <- app_assoc; reflexivity).
  apply linked_rot_app in Hl. rewrite app_assoc in Hl.
  apply linked_last_pv in Hl. exact Hl.
Qed.

Lemma hd_in (l : list nat) d : l <> [] -> In (hd d l) l.
Proof. destruct l; [congruence|left; reflexivity]. Qed.

Lemma last_in_ne (l : list nat) d : l <> [] -> In (last l d) l.
Proof.
  intros Hne. destruct (exists_last Hne) as (m & a & ->). rewrite last_last.
  apply in_or_app. right. left. reflexivity.
Qed.

Lemma linked_closed nx pv l x : linked nx pv l -> In x l -> In (nx x) l /\ In (pv x) l.
Proof.
  intros Hl Hin. apply in_split in Hin. destruct Hin as (l1 & l2 & ->).
  rewrite (linked_succ _ _ _ _ _ Hl), (linked_pred _ _ _ _ _ Hl).
  destruct (l2 ++ l1) as [|a m] eqn:E.
  - cbn. split; apply in_or_app; right; left; reflexivity.
  - assert (Hsub : forall y, In y (a :: m) -> In y (l1 ++ x :: l2)).
    { intros y Hy. rewrite <- E in Hy. apply in_app_or in Hy. apply in_or_app.
      destruct Hy; [right; right; assumption|left; assumption]. }
    split; apply Hsub; [apply hd_in; discriminate|apply last_in_ne; discriminate].
Qed.

Lemma remove_frame nx pv e x :
  (x <> pv e -> fst (remove_entry nx pv e) x = nx x) /\
  (x <> nx e -> snd (remove_entry nx pv e) x = pv x).
Proof. unfold remove_entry. cbn [fst snd]. split; intros H; apply upd_neq; exact H. Qed.

Lemma add_after_frame nx pv e ins x :
  (x <> e -> x <> ins -> fst (add_entry_after nx pv e ins) x = nx x) /\
  (x <> e -> x <> nx ins -> snd (add_entry_after nx pv e ins) x = pv x).
Proof.
  unfold add_entry_after. cbn [fst snd]. split; intros H1 H2; rewrite !upd_neq by assumption; reflexivity.
Qed.

Lemma add_before_frame nx pv e ins x :
  (x <> e -> x <> pv ins -> fst (add_entry_before nx pv e ins) x = nx x) /\
  (x <> e -> x <> ins -> snd (add_entry_before nx pv e ins) x = pv x).
Proof.
  unfold add_entry_before. cbn [fst snd]. split; intros H1 H2; rewrite !upd_neq by assumption; reflexivity.
Qed.

(** * Composite edits with the [split] bookkeeping *)

(* "if (cache->split == idx) cache->split = entry->prev; remove_entry(...)":
   [split] stays the last element *)
Lemma ring_remove_fix nx pv sp l1 e l2 :
  linked nx pv (l1 ++ e :: l2) -> last (l1 ++ e :: l2) 0 = sp -> l1 ++ l2 <> [] ->
  linked (fst (remove_entry nx pv e)) (snd (remove_entry nx pv e)) (l1 ++ l2) /\
  (if sp =? e then pv e else sp) = last (l1 ++ l2) 0.
Proof.
  intros Hl Hsp Hne. split; [apply remove_entry_linked; assumption|].
  pose proof (linked_NoDup _ _ _ Hl) as Hnd.
  destruct l2 as [|b l2].
  - rewrite last_last in Hsp. subst sp. rewrite Nat.eqb_refl.
    rewrite (linked_pred _ _ _ _ _ Hl). cbn [app]. rewrite app_nil_r in *.
    destruct l1 as [|a l1]; [congruence|].
    destruct (exists_last (l := a :: l1)) as (m & c & E); [discriminate|].
    rewrite E, !last_last. reflexivity.
  - assert (Hlast : last (l1 ++ e :: b :: l2) 0 = last (b :: l2) 0).
    { change (l1 ++ e :: b :: l2) with (l1 ++ [e] ++ (b :: l2)).
      rewrite app_assoc. apply last_app_ne. discriminate. }
    rewrite Hlast in Hsp.
    assert (Hse : sp <> e).
    { intros ->. apply NoDup_remove_2 in Hnd. apply Hnd. apply in_or_app. right.
      rewrite <- Hsp. apply last_in_ne. discriminate. }
    destruct (Nat.eqb_spec sp e); [contradiction|].
    rewrite last_app_ne by discriminate. symmetry. exact Hsp.
Qed.

(* reuse_cached_entry: the entry moves to the front (just after [split]) *)
Lemma ring_move_front nx pv sp l1 e l2 :
  linked nx pv (l1 ++ e :: l2) -> last (l1 ++ e :: l2) 0 = sp ->
  let moved := negb (sp =? e) && negb (sp =? pv e) in
  let nx1 := if moved then fst (add_entry_after (fst (remove_entry nx pv e)) (snd (remove_entry nx pv e)) e sp) else nx in
  let pv1 := if moved then snd (add_entry_after (fst (remove_entry nx pv e)) (snd (remove_entry nx pv e)) e sp) else pv in
  linked nx1 pv1 (e :: l1 ++ l2) /\ pv1 e = last (e :: l1 ++ l2) 0 /\
  (forall x, ~ In x (l1 ++ e :: l2) -> nx1 x = nx x /\ pv1 x = pv x).
Proof.
  intros Hl Hsp. cbn zeta.
  pose proof (linked_NoDup _ _ _ Hl) as Hnd.
  pose proof (linked_pred _ _ _ _ _ Hl) as Hpe.
  destruct l2 as [|b l2].
  - (* e is the split element itself *)
    rewrite last_last in Hsp. subst sp. rewrite Nat.eqb_refl. cbn [negb andb].
    rewrite app_nil_r in *. split; [apply linked_rot; exact Hl|]. split; [|intros; split; reflexivity].
    rewrite Hpe. cbn [app]. destruct l1 as [|a l1]; [reflexivity|].
    rewrite !last_cons. reflexivity.
  - assert (Hlast : last (l1 ++ e :: b :: l2) 0 = last (b :: l2) 0).
    { change (l1 ++ e :: b :: l2) with (l1 ++ [e] ++ (b :: l2)).
      rewrite app_assoc. apply last_app_ne. discriminate. }
    rewrite Hlast in Hsp.
    assert (Hsin : In sp (b :: l2)) by (rewrite <- Hsp; apply last_in_ne; discriminate).
    assert (Hse : sp <> e).
    { intros ->. apply NoDup_remove_2 in Hnd. apply Hnd. apply in_or_app. right. exact Hsin. }
    destruct (Nat.eqb_spec sp e); [contradiction|]. cbn [negb andb].
    destruct l1 as [|a l1].
    + (* e is already first *)
      cbn [app] in *. rewrite app_nil_r in Hpe.
      replace (last (b :: l2) e) with sp in Hpe
        by (rewrite <- Hsp; destruct (exists_last (l := b :: l2)) as (m & c & E); [discriminate|]; rewrite E, !last_last; reflexivity).
      rewrite Hpe, Nat.eqb_refl. cbn [negb]. split; [exact Hl|]. split; [|intros; split; reflexivity].
      rewrite Hpe. rewrite last_cons.
      destruct (exists_last (l := b :: l2)) as (m & c & E); [discriminate|].
      rewrite <- Hsp, E, !last_last. reflexivity.
    + (* really moved *)
      assert (Hpe' : pv e = last (a :: l1) 0).
      { rewrite Hpe. apply last_app_ne'. discriminate. }
      assert (Hsp' : sp <> pv e).
      { rewrite Hpe'. intros Heq.
        assert (Hin1 : In sp (a :: l1)) by (rewrite Heq; apply last_in_ne; discriminate).
        pose proof (linked_NoDup _ _ _ Hl) as Hnd'.
        apply (proj1 (NoDup_count_occ Nat.eq_dec _)) with (x := sp) in Hnd'.
        fold (cnt ((a :: l1) ++ e :: b :: l2) sp) in Hnd'.
        rewrite cnt_app, (cnt_cons (b :: l2)) in Hnd'.
        apply cnt_in in Hin1. apply cnt_in in Hsin. lia. }
      destruct (Nat.eqb_spec sp (pv e)); [contradiction|]. cbn [negb].
      pose proof (remove_entry_linked nx pv (a :: l1) e (b :: l2) Hl) as Hrm.
      specialize (Hrm ltac:(discriminate)).
      destruct (exists_last (l := b :: l2)) as (m & c & E); [discriminate|].
      assert (Hc : c = sp) by (rewrite <- Hsp, E, last_last; reflexivity). subst c.
      assert (Hni : ~ In e ((a :: l1) ++ m ++ [sp])).
      { rewrite <- E. apply NoDup_remove_2 in Hnd. exact Hnd. }
      rewrite E in Hrm. rewrite app_assoc in Hrm.
      pose proof (add_entry_after_linked _ _ ((a :: l1) ++ m) sp [] e Hrm) as Hadd.
      rewrite <- app_assoc in Hadd. specialize (Hadd Hni).
      set (nx2 := fst (add_entry_after _ _ e sp)) in *.
      set (pv2 := snd (add_entry_after _ _ e sp)) in *.
      assert (Hfin : linked nx2 pv2 (e :: (a :: l1) ++ b :: l2)).
      { apply linked_rot. rewrite E. rewrite <- app_assoc in Hadd. rewrite <- !app_assoc.
        cbn [app] in *. exact Hadd. }
      split; [exact Hfin|]. split.
      * replace (e :: (a :: l1) ++ b :: l2) with ([] ++ e :: ((a :: l1) ++ b :: l2)) in Hfin by reflexivity.
        rewrite (linked_pred _ _ _ _ _ Hfin). rewrite app_nil_r.
        rewrite last_cons.
        destruct (exists_last (l := (a :: l1) ++ b :: l2)) as (m' & c' & E'); [destruct l1; discriminate|].
        rewrite E', !last_last. reflexivity.
      * intros x Hx. subst nx2 pv2.
        assert (Hxe : x <> e) by (intros ->; apply Hx; apply in_or_app; right; left; reflexivity).
        assert (Hxin : forall y, In y ((a :: l1) ++ e :: b :: l2) -> x <> y) by (intros y Hy ->; contradiction).
        assert (Hxs : x <> sp).
        { apply Hxin. apply in_or_app. right. right. exact Hsin. }
        destruct (linked_closed _ _ _ e Hl) as [Hne' Hpe'']; [apply in_or_app; right; left; reflexivity|].
        destruct (linked_closed _ _ _ sp Hl) as [Hns _]; [apply in_or_app; right; right; exact Hsin|].
        destruct (add_after_frame (fst (remove_entry nx pv e)) (snd (remove_entry nx pv e)) e sp x) as [F1 F2].
        destruct (remove_frame nx pv e x) as [G1 G2].
        rewrite F1 by assumption. rewrite G1 by (apply Hxin; exact Hpe'').
        split; [reflexivity|].
        rewrite F2; [apply G2; apply Hxin; exact Hne'|assumption|].
        (* x <> nx' sp where nx' is after removal: nx' sp is in the ring *)
        destruct (linked_closed _ _ _ sp Hrm) as [Hns' _].
        { apply in_or_app. right. left. reflexivity. }
        intros Heq. apply Hx. rewrite Heq.
        rewrite <- app_assoc in Hns'. rewrite <- E in Hns'.
        apply in_app_or in Hns'. apply in_or_app. destruct Hns'; [left; assumption|right; right; assumption].
Qed.

(* pointers outside the ring are not touched by "remove e; insert e next to g" *)
Lemma remove_add_after_frame nx pv l e g x :
  linked nx pv l -> In e l -> In g l -> ~ In x l ->
  fst (add_entry_after (fst (remove_entry nx pv e)) (snd (remove_entry nx pv e)) e g) x = nx x /\
  snd (add_entry_after (fst (remove_entry nx pv e)) (snd (remove_entry nx pv e)) e g) x = pv x.
Proof.
  intros Hl He Hg Hx.
  assert (Hne : forall y, In y l -> x <> y) by (intros y Hy ->; contradiction).
  destruct (linked_closed _ _ _ e Hl He) as [Hne1 Hpe1].
  destruct (linked_closed _ _ _ g Hl Hg) as [Hng1 _].
  destruct (add_after_frame (fst (remove_entry nx pv e)) (snd (remove_entry nx pv e)) e g x) as [F1 F2].
  destruct (remove_frame nx pv e x) as [G1 G2].
  rewrite F1 by (apply Hne; assumption). rewrite G1 by (apply Hne; assumption).
  split; [reflexivity|].
  rewrite F2; [apply G2; apply Hne; assumption|apply Hne; assumption|].
  unfold remove_entry. cbn [fst]. unfold upd.
  destruct (g =? pv e); apply Hne; assumption.
Qed.

Lemma remove_add_before_frame nx pv l e g x :
  linked nx pv l -> In e l -> In g l -> ~ In x l ->
  fst (add_entry_before (fst (remove_entry nx pv e)) (snd (remove_entry nx pv e)) e g) x = nx x /\
  snd (add_entry_before (fst (remove_entry nx pv e)) (snd (remove_entry nx pv e)) e g) x = pv x.
Proof.
  intros Hl He Hg Hx.
  assert (Hne : forall y, In y l -> x <> y) by (intros y Hy ->; contradiction).
  destruct (linked_closed _ _ _ e Hl He) as [Hne1 Hpe1].
  destruct (linked_closed _ _ _ g Hl Hg) as [_ Hpg1].
  destruct (add_before_frame (fst (remove_entry nx pv e)) (snd (remove_entry nx pv e)) e g x) as [F1 F2].
  destruct (remove_frame nx pv e x) as [G1 G2].
  rewrite F2 by (apply Hne; assumption). rewrite G2 by (apply Hne; assumption).
  split; [|reflexivity].
  rewrite F1; [apply G1; apply Hne; assumption|apply Hne; assumption|].
  unfold remove_entry. cbn [snd]. unfold upd.
  destruct (g =? nx e); apply Hne; assumption.
Qed.

(* evict_probe: the entry moves to just after [g], the element in front of
   the probed partition *)
Lemma ring_evict_probe nx pv sp A m e z :
  linked nx pv (A ++ m ++ e :: z) -> last (A ++ m ++ e :: z) 0 = sp -> A <> [] ->
  let g := last A 0 in
  let moved := negb (pv e =? g) in
  let nx1 := if moved then fst (add_entry_after (fst (remove_entry nx pv e)) (snd (remove_entry nx pv e)) e g) else nx in
  let pv1 := if moved then snd (add_entry_after (fst (remove_entry nx pv e)) (snd (remove_entry nx pv e)) e g) else pv in
  let sp1 := if moved then (if e =? sp then pv e else sp) else sp in
  linked nx1 pv1 (A ++ e :: m ++ z) /\ sp1 = last (A ++ e :: m ++ z) 0 /\
  (forall x, ~ In x (A ++ m ++ e :: z) -> nx1 x = nx x /\ pv1 x = pv x).
Proof.
  intros Hl Hsp HA. cbn zeta.
  pose proof (linked_NoDup _ _ _ Hl) as Hnd.
  assert (Hl' : linked nx pv ((A ++ m) ++ e :: z)) by (rewrite <- app_assoc; exact Hl).
  pose proof (linked_pred _ _ _ _ _ Hl') as Hpe.
  destruct m as [|b m].
  - (* e is already next to g *)
    cbn [app] in *. rewrite app_nil_r in Hpe.
    replace (last (z ++ A) e) with (last A 0) in Hpe by (symmetry; apply last_app_ne'; assumption).
    rewrite Hpe, Nat.eqb_refl. cbn [negb].
    split; [exact Hl|]. split; [symmetry; exact Hsp|]. intros; split; reflexivity.
  - assert (Hpe' : pv e = last (b :: m) 0).
    { rewrite Hpe. rewrite app_assoc. apply last_app_ne'. discriminate. }
    assert (Hg : In (last A 0) A) by (apply last_in_ne; assumption).
    assert (Hpg : pv e <> last A 0).
    { rewrite Hpe'. intros Heq.
      assert (Hin : In (last A 0) (b :: m)) by (rewrite <- Heq; apply last_in_ne; discriminate).
      apply (proj1 (NoDup_count_occ Nat.eq_dec _)) with (x := last A 0) in Hnd.
      fold (cnt (A ++ (b :: m) ++ e :: z) (last A 0)) in Hnd.
      rewrite !cnt_app in Hnd. apply cnt_in in Hg. apply cnt_in in Hin. lia. }
    destruct (Nat.eqb_spec (pv e) (last A 0)); [contradiction|]. cbn [negb].
    destruct (ring_remove_fix nx pv sp (A ++ b :: m) e z Hl') as [Hrm Hsp1].
    { rewrite <- app_assoc. exact Hsp. }
    { destruct A; [congruence|discriminate]. }
    rewrite (Nat.eqb_sym e sp).
    destruct (exists_last HA) as (A' & g & EA). rewrite EA in *. rewrite last_last in *.
    assert (Hni : ~ In e ((A' ++ [g]) ++ (b :: m) ++ z)).
    { rewrite app_assoc. exact (NoDup_remove_2 _ _ _ (linked_NoDup _ _ _ Hl')). }
    rewrite <- !app_assoc in Hrm. cbn [app] in Hrm.
    pose proof (add_entry_after_linked _ _ A' g ((b :: m) ++ z) e Hrm) as Hadd.
    rewrite <- !app_assoc in Hni. cbn [app] in Hni. specialize (Hadd Hni).
    split; [rewrite <- !app_assoc; cbn [app]; exact Hadd|]. split.
    + rewrite Hsp1. rewrite <- !app_assoc. cbn [app].
      change (A' ++ g :: b :: m ++ z) with (A' ++ [g] ++ (b :: m ++ z)).
      change (A' ++ g :: e :: b :: m ++ z) with (A' ++ [g; e] ++ (b :: m ++ z)).
      rewrite !app_assoc. rewrite !(last_app_ne _ (b :: m ++ z)) by discriminate. reflexivity.
    + intros x Hx. apply (remove_add_after_frame nx pv _ e g x Hl).
      * apply in_or_app. right. apply in_or_app. right. left. reflexivity.
      * apply in_or_app. left. apply in_or_app. right. left. reflexivity.
      * exact Hx.
Qed.

(* evict_prec: the entry moves to just before [g], the element after the
   precious partition; [split] is not concerned *)
Lemma ring_evict_prec nx pv p1 e p2 B :
  linked nx pv (p1 ++ e :: p2 ++ B) -> B <> [] ->
  let g := hd 0 B in
  let moved := negb (nx e =? g) in
  let nx1 := if moved then fst (add_entry_before (fst (remove_entry nx pv e)) (snd (remove_entry nx pv e)) e g) else nx in
  let pv1 := if moved then snd (add_entry_before (fst (remove_entry nx pv e)) (snd (remove_entry nx pv e)) e g) else pv in
  linked nx1 pv1 (p1 ++ p2 ++ e :: B) /\
  last (p1 ++ p2 ++ e :: B) 0 = last (p1 ++ e :: p2 ++ B) 0 /\
  (forall x, ~ In x (p1 ++ e :: p2 ++ B) -> nx1 x = nx x /\ pv1 x = pv x).
Proof.
  intros Hl HB. cbn zeta.
  pose proof (linked_NoDup _ _ _ Hl) as Hnd.
  pose proof (linked_succ _ _ _ _ _ Hl) as Hne.
  assert (Hlast : last (p1 ++ p2 ++ e :: B) 0 = last (p1 ++ e :: p2 ++ B) 0).
  { change (p1 ++ p2 ++ e :: B) with (p1 ++ p2 ++ [e] ++ B).
    change (p1 ++ e :: p2 ++ B) with (p1 ++ [e] ++ p2 ++ B).
    rewrite !app_assoc. rewrite !(last_app_ne _ B) by assumption. reflexivity. }
  destruct p2 as [|b p2].
  - cbn [app] in *.
    replace (hd e (B ++ p1)) with (hd 0 B) in Hne by (destruct B; [congruence|reflexivity]).
    rewrite Hne, Nat.eqb_refl. cbn [negb].
    split; [exact Hl|]. split; [reflexivity|]. intros; split; reflexivity.
  - assert (Hne' : nx e = b) by (rewrite Hne; reflexivity).
    destruct B as [|g B']; [congruence|]. cbn [hd].
    assert (Hbg : nx e <> g).
    { rewrite Hne'. intros ->.
      apply (proj1 (NoDup_count_occ Nat.eq_dec _)) with (x := g) in Hnd.
      fold (cnt (p1 ++ e :: (g :: p2) ++ g :: B') g) in Hnd.
      rewrite cnt_app, (cnt_cons _ e), cnt_app, !cnt_cons_eq in Hnd. lia. }
    destruct (Nat.eqb_spec (nx e) g); [contradiction|]. cbn [negb].
    pose proof (remove_entry_linked nx pv p1 e ((b :: p2) ++ g :: B') Hl) as Hrm.
    specialize (Hrm ltac:(destruct p1; discriminate)).
    assert (Hni : ~ In e (p1 ++ (b :: p2) ++ g :: B')) by (apply NoDup_remove_2 in Hnd; exact Hnd).
    rewrite app_assoc in Hrm, Hni.
    pose proof (add_entry_before_linked _ _ (p1 ++ b :: p2) g B' e Hrm Hni) as Hadd.
    rewrite <- app_assoc in Hadd.
    split; [exact Hadd|]. split; [exact Hlast|].
    intros x Hx. apply (remove_add_before_frame nx pv _ e g x Hl).
    + apply in_or_app. right. left. reflexivity.
    + apply in_or_app. right. right. apply in_or_app. right. left. reflexivity.
    + exact Hx.
Qed.

(** * cache_flush builds a well-formed ring *)
Lemma chain_rev_seq k x y : In (x, y) (chain k (rev (seq 0 k))) -> x = S y /\ y < k.
Proof.
  induction k as [|k IH]; [intros []|].
  rewrite seq_S, rev_app_distr. cbn [rev app chain Nat.add].
  intros [Heq|Hin]; [injection Heq as <- <-; split; [reflexivity|lia]|].
  apply IH in Hin. destruct Hin; split; [assumption|lia].
Qed.

Lemma flush_linked c : 0 < c -> linked (flush_nx c) (flush_pv c) (rev (seq 0 (2 * c))).
Proof.
  intros Hc. set (n := 2 * c). assert (Hn : n = S (n - 1)) by lia.
  split; [apply NoDup_rev, seq_NoDup|].
  intros x y Hin. rewrite Hn, seq_S, rev_app_distr in Hin. cbn [rev app Nat.add] in Hin.
  rewrite succs_chain in Hin. apply in_app_or in Hin. destruct Hin as [Hin|[Heq|[]]].
  - apply chain_rev_seq in Hin. destruct Hin as [-> Hy]. unfold flush_nx, flush_pv. fold n.
    cbn [Nat.eqb]. destruct (Nat.ltb_spec y (n - 1)); [|lia]. split; lia.
  - injection Heq as <- <-.
    assert (Hlast : last (rev (seq 0 (n - 1))) (n - 1) = 0).
    { destruct (n - 1) as [|k] eqn:E; [reflexivity|].
      cbn [seq rev]. rewrite last_last. reflexivity. }
    rewrite Hlast. unfold flush_nx, flush_pv. fold n. cbn [Nat.eqb].
    destruct (Nat.ltb_spec (n - 1) (n - 1)); [lia|]. split; reflexivity.
Qed.
