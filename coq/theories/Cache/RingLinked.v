(** Well-formed circular doubly linked lists over [next]/[prev] index
    functions, and the proof that the three pointer primitives of cache.c
    ([CacheRing.remove_entry], [add_entry_after], [add_entry_before]) perform
    exactly the list edits (remove an element / insert next to an element). *)
From Coq Require Import List Arith PeanoNat Lia Permutation.
From KdV Require Import Cache.CacheList Cache.CacheLemmas Cache.CacheRing.
Import ListNotations.

(** A circular list [l] (in [next] order, any rotation) is represented by
    [nx]/[pv] when [l] has no repetition and every element points to its
    cyclic successor / predecessor. *)
Definition succs (l : list nat) : list (nat * nat) := combine l (tl l ++ firstn 1 l).

Definition linked (nx pv : nat -> nat) (l : list nat) : Prop :=
  NoDup l /\ forall x y, In (x, y) (succs l) -> nx x = y /\ pv y = x.

(** successor pairs of a list written with its first element exposed *)
Lemma succs_cons a m : succs (a :: m) = combine (a :: m) (m ++ [a]).
Proof. reflexivity. Qed.

Lemma combine_snoc (l : list nat) : forall (l' : list nat) x y, length l = length l' ->
  combine (l ++ [x]) (l' ++ [y]) = combine l l' ++ [(x, y)].
Proof.
  induction l as [|a l IH]; intros [|b l'] x y Hlen; cbn in *; try discriminate; [reflexivity|].
  rewrite IH by lia. reflexivity.
Qed.

(* the pairs of [a :: m]: the consecutive pairs inside, then the closing pair *)
Fixpoint chain (a : nat) (m : list nat) : list (nat * nat) :=
  match m with
  | [] => []
  | b :: m' => (a, b) :: chain b m'
  end.

Lemma last_cons (m : list nat) : forall b a, last (b :: m) a = last m b.
Proof.
  induction m as [|c m IH]; intros b a; [reflexivity|].
  change (last (b :: c :: m) a) with (last (c :: m) a). rewrite !IH. reflexivity.
Qed.

Lemma combine_chain m : forall a c,
  combine (a :: m) (m ++ [c]) = chain a m ++ [(last m a, c)].
Proof.
  induction m as [|b m IH]; intros a c; [reflexivity|].
  change (combine (a :: b :: m) ((b :: m) ++ [c])) with ((a, b) :: combine (b :: m) (m ++ [c])).
  rewrite IH. cbn [chain app]. rewrite last_cons. reflexivity.
Qed.

Lemma succs_chain a m : succs (a :: m) = chain a m ++ [(last m a, a)].
Proof. rewrite succs_cons. apply combine_chain. Qed.

Lemma chain_in a m x y : In (x, y) (chain a m) -> In y m /\ (x = a \/ In x m).
Proof.
  revert a. induction m as [|b m IH]; intros a Hin; cbn in Hin; [contradiction|].
  destruct Hin as [Heq|Hin].
  - inversion Heq; subst. split; [left; reflexivity|left; reflexivity].
  - apply IH in Hin. destruct Hin as [Hy Hx]. split; [right; exact Hy|].
    right. destruct Hx as [->|Hx]; [left; reflexivity|right; exact Hx].
Qed.

Lemma chain_app a m1 b m2 : chain a (m1 ++ b :: m2) = chain a m1 ++ (last m1 a, b) :: chain b m2.
Proof.
  revert a. induction m1 as [|c m1 IH]; intros a; [reflexivity|].
  cbn [app chain]. rewrite IH. rewrite last_cons. reflexivity.
Qed.

(** rotation does not matter *)
Lemma succs_rot a m : Permutation (succs (a :: m)) (succs (m ++ [a])).
Proof.
  destruct m as [|b m]; [reflexivity|].
  rewrite succs_chain. change ((b :: m) ++ [a]) with (b :: (m ++ [a])). rewrite succs_chain.
  rewrite chain_app, last_last, last_cons. cbn [chain app].
  apply Permutation_cons_append.
Qed.

Lemma linked_rot nx pv a m : linked nx pv (a :: m) <-> linked nx pv (m ++ [a]).
Proof.
  unfold linked. split; intros [Hnd Hl]; split.
  - apply (Permutation_NoDup (l := a :: m)); [|exact Hnd].
    change (a :: m) with ([a] ++ m). apply Permutation_app_comm.
  - intros x y Hin. apply Hl. apply (Permutation_in _ (Permutation_sym (succs_rot a m))). exact Hin.
  - apply (Permutation_NoDup (l := m ++ [a])); [|exact Hnd].
    change (a :: m) with ([a] ++ m). apply Permutation_app_comm.
  - intros x y Hin. apply Hl. apply (Permutation_in _ (succs_rot a m)). exact Hin.
Qed.

Lemma linked_rot_app nx pv l1 l2 : linked nx pv (l1 ++ l2) <-> linked nx pv (l2 ++ l1).
Proof.
  revert l2. induction l1 as [|a l1 IH]; intros l2.
  - rewrite app_nil_r. reflexivity.
  - cbn [app]. rewrite linked_rot. rewrite <- app_assoc. rewrite IH.
    rewrite <- app_assoc. reflexivity.
Qed.

(** what a well-formed ring says about the neighbours of its first element *)
Lemma linked_head nx pv e b m : linked nx pv (e :: b :: m) ->
  nx e = b /\ pv e = last m b /\ pv b = e /\ nx (last m b) = e.
Proof.
  intros [_ Hl]. rewrite succs_chain in Hl.
  destruct (Hl e b) as [H1 H2]; [apply in_or_app; left; left; reflexivity|].
  destruct (Hl (last (b :: m) e) e) as [H3 H4]; [apply in_or_app; right; left; reflexivity|].
  replace (last (b :: m) e) with (last m b) in * by (symmetry; apply last_cons).
  auto.
Qed.

Lemma last_in (m : list nat) b : In (last m b) (b :: m).
Proof.
  revert b. induction m as [|c m IH]; intros b; [left; reflexivity|].
  right. replace (last (c :: m) b) with (last m c) by (symmetry; apply last_cons). apply IH.
Qed.

Lemma chain_fst_not_last a m x y : NoDup (a :: m) -> In (x, y) (chain a m) -> x <> last m a.
Proof.
  revert a. induction m as [|b m IH]; intros a Hnd Hin; cbn in Hin; [contradiction|].
  replace (last (b :: m) a) with (last m b) by (symmetry; apply last_cons).
  pose proof (proj1 (NoDup_cons_iff _ _) Hnd) as [Hnotin Hnd'].
  destruct Hin as [Heq|Hin].
  - inversion Heq; subst. intros Heq'. apply Hnotin. rewrite Heq'. apply last_in.
  - apply IH; assumption.
Qed.

(** [remove_entry] unlinks the element: the ring [l1 ++ e :: l2] becomes
    [l1 ++ l2] (at least one other element remains; the callers of cache.c
    never empty the main ring, and [cache_insert]/[cache_discard] handle the
    in-flight ring through [cache->inflight] and [ninflight]) *)
Theorem remove_entry_linked nx pv l1 e l2 :
  linked nx pv (l1 ++ e :: l2) -> l1 ++ l2 <> [] ->
  linked (fst (remove_entry nx pv e)) (snd (remove_entry nx pv e)) (l1 ++ l2).
Proof.
  intros Hl Hne. unfold remove_entry. cbn [fst snd].
  apply linked_rot_app in Hl. cbn [app] in Hl.
  apply linked_rot_app. set (m := l2 ++ l1) in *.
  assert (Hm : m <> []).
  { subst m. intros Heq. apply app_eq_nil in Heq. destruct Heq; subst. apply Hne. reflexivity. }
  destruct m as [|b m']; [congruence|]. clear Hne Hm.
  destruct (linked_head _ _ _ _ _ Hl) as (Hn & Hp & _ & _).
  rewrite Hn, Hp. destruct Hl as [Hnd Hl]. pose proof (proj1 (NoDup_cons_iff _ _) Hnd) as [Hnotin Hnd'].
  split; [exact Hnd'|].
  intros x y Hin. rewrite succs_chain in Hin. rewrite succs_chain in Hl.
  apply in_app_or in Hin. destruct Hin as [Hin|[Heq|[]]].
  - destruct (Hl x y) as [H1 H2].
    { apply in_or_app. left. cbn [chain]. right. exact Hin. }
    pose proof (chain_fst_not_last _ _ _ _ Hnd' Hin) as Hxl.
    apply chain_in in Hin. destruct Hin as [Hy _].
    assert (Hyb : y <> b).
    { pose proof (proj1 (NoDup_cons_iff _ _) Hnd') as [Hb _]. intros ->. contradiction. }
    rewrite !upd_neq by assumption. split; assumption.
  - inversion Heq; subst. split; apply upd_eq.
Qed.

(** [add_entry_after] links [e] right after [x] *)
Theorem add_entry_after_linked nx pv l1 x l2 e :
  linked nx pv (l1 ++ x :: l2) -> ~ In e (l1 ++ x :: l2) ->
  linked (fst (add_entry_after nx pv e x)) (snd (add_entry_after nx pv e x))
         (l1 ++ x :: e :: l2).
Proof.
  intros Hl Hni. unfold add_entry_after. cbn [fst snd].
  apply linked_rot_app in Hl. cbn [app] in Hl.
  apply linked_rot_app. cbn [app].
  assert (Hni' : ~ In e (x :: l2 ++ l1)).
  { intros Hin. apply Hni. apply in_or_app. cbn in Hin. cbn.
    destruct Hin as [->|Hin]; [right; left; reflexivity|].
    apply in_app_or in Hin. tauto. }
  set (m := l2 ++ l1) in *. clearbody m. clear Hni l1 l2.
  assert (Hex : e <> x) by (intros ->; apply Hni'; left; reflexivity).
  destruct m as [|b m'].
  - (* the ring was the single element x *)
    destruct Hl as [Hnd Hl]. destruct (Hl x x) as [Hnx Hpx]; [left; reflexivity|].
    rewrite Hnx. split.
    + constructor; [intros [Heq|[]]; congruence|constructor; [intros []|constructor]].
    + intros u v Hin. cbn in Hin. destruct Hin as [Heq|[Heq|[]]]; injection Heq as <- <-.
      * split; [apply upd_eq|]. rewrite upd_neq by assumption. rewrite upd_eq. exact Hpx.
      * split; [|apply upd_eq]. rewrite upd_neq by assumption. apply upd_eq.
  - destruct (linked_head _ _ _ _ _ Hl) as (Hn & Hp & Hpb & Hnl).
    rewrite Hn. destruct Hl as [Hnd Hl].
    assert (Heb : e <> b) by (intros ->; apply Hni'; right; left; reflexivity).
    pose proof (proj1 (NoDup_cons_iff _ _) Hnd) as [Hxnotin Hnd'].
    split.
    + constructor; [|constructor; [|exact Hnd']].
      * intros [Heq|Hin]; [congruence|contradiction].
      * intros Hin. apply Hni'. right. exact Hin.
    + intros u v Hin. rewrite succs_chain in Hin. rewrite succs_chain in Hl.
      rewrite !last_cons in Hin. cbn [chain] in Hin.
      apply in_app_or in Hin. destruct Hin as [[Heq|[Heq|Hin]]|[Heq|[]]].
      * injection Heq as <- <-. split; [apply upd_eq|].
        rewrite upd_neq by assumption. rewrite upd_eq. exact Hpb.
      * injection Heq as <- <-. split.
        -- rewrite upd_neq by assumption. apply upd_eq.
        -- apply upd_eq.
      * destruct (Hl u v) as [H1 H2].
        { apply in_or_app. left. cbn [chain]. right. exact Hin. }
        apply chain_in in Hin. destruct Hin as [Hv Hu].
        assert (Hux : u <> x) by (intros ->; apply Hxnotin; destruct Hu as [->|Hu]; [left; reflexivity|right; exact Hu]).
        assert (Hue : u <> e) by (intros ->; apply Hni'; right; destruct Hu as [->|Hu]; [left; reflexivity|right; exact Hu]).
        assert (Hvb : v <> b) by (pose proof (proj1 (NoDup_cons_iff _ _) Hnd') as [Hb _]; intros ->; contradiction).
        assert (Hve : v <> e) by (intros ->; apply Hni'; right; right; exact Hv).
        rewrite !upd_neq by assumption. split; assumption.
      * injection Heq as <- <-.
        pose proof (last_in m' b) as Hlin.
        assert (Hlx : last m' b <> x) by (intros Heq'; apply Hxnotin; rewrite <- Heq'; exact Hlin).
        assert (Hle : last m' b <> e) by (intros Heq'; apply Hni'; right; rewrite <- Heq'; exact Hlin).
        assert (Hvb : x <> b) by (intros ->; apply Hxnotin; left; reflexivity).
        rewrite !upd_neq by (assumption || congruence). split; [exact Hnl|exact Hp].
Qed.

(** [add_entry_before] links [e] right before [x] *)
Theorem add_entry_before_linked nx pv l1 x l2 e :
  linked nx pv (l1 ++ x :: l2) -> ~ In e (l1 ++ x :: l2) ->
  linked (fst (add_entry_before nx pv e x)) (snd (add_entry_before nx pv e x))
         (l1 ++ e :: x :: l2).
Proof.
  intros Hl Hni. unfold add_entry_before. cbn [fst snd].
  apply linked_rot_app in Hl. cbn [app] in Hl.
  (* target: l1 ++ e :: x :: l2  ~  x :: l2 ++ l1 ++ [e] *)
  replace (l1 ++ e :: x :: l2) with ((l1 ++ [e]) ++ x :: l2) by (rewrite <- app_assoc; reflexivity).
  apply linked_rot_app. cbn [app]. rewrite app_assoc.
  assert (Hni' : ~ In e (x :: l2 ++ l1)).
  { intros Hin. apply Hni. apply in_or_app. cbn in Hin. cbn.
    destruct Hin as [->|Hin]; [right; left; reflexivity|].
    apply in_app_or in Hin. tauto. }
  set (m := l2 ++ l1) in *. clearbody m. clear Hni l1 l2.
  assert (Hex : e <> x) by (intros ->; apply Hni'; left; reflexivity).
  destruct m as [|b m'].
  - destruct Hl as [Hnd Hl]. destruct (Hl x x) as [Hnx Hpx]; [left; reflexivity|].
    rewrite Hpx, Hnx. split.
    + constructor; [intros [Heq|[]]; congruence|constructor; [intros []|constructor]].
    + intros u v Hin. cbn in Hin. destruct Hin as [Heq|[Heq|[]]]; injection Heq as <- <-.
      * split; [apply upd_eq|]. rewrite upd_neq by assumption. apply upd_eq.
      * split; [|apply upd_eq]. rewrite upd_neq by assumption. apply upd_eq.
  - destruct (linked_head _ _ _ _ _ Hl) as (Hn & Hp & Hpb & Hnl).
    rewrite Hp, Hnl. destruct Hl as [Hnd Hl].
    pose proof (proj1 (NoDup_cons_iff _ _) Hnd) as [Hxnotin Hnd'].
    pose proof (last_in m' b) as Hlin.
    assert (Hlx : last m' b <> x) by (intros Heq'; apply Hxnotin; rewrite <- Heq'; exact Hlin).
    assert (Hle : last m' b <> e) by (intros Heq'; apply Hni'; right; rewrite <- Heq'; exact Hlin).
    split.
    + constructor.
      * intros Hin. apply in_app_or in Hin. destruct Hin as [Hin|[Heq|[]]]; [contradiction|congruence].
      * apply (Permutation_NoDup (l := e :: b :: m')); [apply Permutation_cons_append|].
        constructor; [|exact Hnd']. intros Hin. apply Hni'. right. exact Hin.
    + intros u v Hin. rewrite succs_chain in Hin. rewrite succs_chain in Hl.
      change ((b :: m') ++ [e]) with (b :: (m' ++ [e])) in Hin.
      cbn [chain] in Hin.
      assert (Hch : chain b (m' ++ [e]) = chain b m' ++ [(last m' b, e)]).
      { rewrite chain_app. reflexivity. }
      rewrite Hch in Hin.
      replace (last (b :: m' ++ [e]) x) with e in Hin
        by (change (b :: m' ++ [e]) with ((b :: m') ++ [e]); rewrite last_last; reflexivity).
      apply in_app_or in Hin. destruct Hin as [[Heq|Hin]|[Heq|[]]].
      * (* (x, b) *)
        injection Heq as <- <-.
        assert (Hbx : b <> x) by (intros ->; apply Hxnotin; left; reflexivity).
        assert (Hbe : b <> e) by (intros ->; apply Hni'; right; left; reflexivity).
        rewrite !upd_neq by (assumption || congruence). split; [exact Hn|exact Hpb].
      * apply in_app_or in Hin. destruct Hin as [Hin|[Heq|[]]].
        -- destruct (Hl u v) as [H1 H2].
           { apply in_or_app. left. cbn [chain]. right. exact Hin. }
           pose proof (chain_fst_not_last _ _ _ _ Hnd' Hin) as Hul.
           apply chain_in in Hin. destruct Hin as [Hv Hu].
           assert (Hue : u <> e) by (intros ->; apply Hni'; right; destruct Hu as [->|Hu]; [left; reflexivity|right; exact Hu]).
           assert (Hvx : v <> x) by (intros ->; apply Hxnotin; right; exact Hv).
           assert (Hve : v <> e) by (intros ->; apply Hni'; right; right; exact Hv).
           rewrite !upd_neq by assumption. split; assumption.
        -- injection Heq as <- <-. split; [apply upd_eq|].
           rewrite upd_neq by assumption. apply upd_eq.
      * (* (e, x) *)
        injection Heq as <- <-. split; [|apply upd_eq].
        rewrite upd_neq by congruence. apply upd_eq.
Qed.

(** [add_inflight]: the first in-flight entry points to itself; later ones
    are linked before the head, i.e. appended in [next] order *)
Lemma add_inflight_first nx pv e : linked (upd nx e e) (upd pv e e) [e].
Proof.
  split; [constructor; [intros []|constructor]|].
  intros x y [Heq|[]]. injection Heq as <- <-. split; apply upd_eq.
Qed.

Theorem add_inflight_append nx pv h l e :
  linked nx pv (h :: l) -> ~ In e (h :: l) ->
  linked (fst (add_entry_before nx pv e h)) (snd (add_entry_before nx pv e h)) (h :: l ++ [e]).
Proof.
  intros Hl Hni.
  pose proof (add_entry_before_linked nx pv [] h l e Hl Hni) as H. cbn [app] in H.
  apply linked_rot in H. exact H.
Qed.
