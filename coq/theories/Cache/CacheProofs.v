(** C06: every operation of the (repaired) cache model, performed on a state
    that satisfies the invariant by a client that follows the protocol,
    succeeds (no [Fault]), re-establishes the invariant and meets the
    per-operation specification [step_ok]. *)
From Coq Require Import NArith List Bool Arith PeanoNat Lia Permutation.
From KdV Require Import Cache.CacheList Cache.CacheSpec Cache.CacheLemmas Cache.CacheInv.
Import ListNotations.

Ltac simp_st :=
  cbn [prec gprec unused gprobe probe infl dprobe cap key ref data est hits misses pend plain
       content set_prec set_gprec set_unused set_gprobe set_probe set_infl set_dprobe set_key
       set_ref set_data set_est set_hits set_misses set_pend set_plain set_content
       reuse_ghost] in *.

Ltac norm := simp_st; unfold c6, cC, cV, cG in *; simp_st.

Global Hint Rewrite cnt_nil cnt_snoc_eq cnt_app cnt_cons_eq cnt_rm_eq cnt_rev cnt_rm1_eq
  @upd_eq : cdb.
Global Hint Rewrite cnt_cons_neq cnt_snoc_neq cnt_rm_neq cnt_rm1_neq @upd_neq
  using congruence : cdb.

Ltac crw := autorewrite with cdb in *.

(* case split on equality of entries *)
Ltac cs x y := destruct (Nat.eq_dec x y); [subst|].

(* discharge arithmetic premises of instantiated invariant clauses *)
Ltac sat :=
  repeat match goal with
         | H : ?P -> _ |- _ =>
             let hp := fresh in
             assert (hp : P) by (clear H; lia); specialize (H hp); clear hp
         end.

(* all pointwise clauses of the invariant at an entry *)
Ltac inst H x :=
  pose proof (C_one _ H x);
  pose proof (C_data_cached _ H x);
  pose proof (C_data_ghost _ H x);
  pose proof (C_ref _ H x);
  pose proof (C_ref_cached _ H x);
  pose proof (C_infl_ref _ H x);
  pose proof (C_est_valid _ H x);
  pose proof (C_est_infl _ H x);
  unfold c6, cC, cV, cG in *.

(* a clause that is literally unchanged *)
Ltac old H :=
  first [ exact (C_cap _ H) | exact (C_one _ H) | exact (C_unused _ H) | exact (C_tok_lt _ H)
        | exact (C_tok_inj _ H) | exact (C_tok_all _ H) | exact (C_data_cached _ H)
        | exact (C_data_ghost _ H) | exact (C_data_out _ H) | exact (C_keys _ H)
        | exact (C_ref _ H) | exact (C_ref_cached _ H) | exact (C_infl_ref _ H)
        | exact (C_est_valid _ H) | exact (C_est_infl _ H) | exact (C_dprobe _ H)
        | exact (C_content _ H) ].

Ltac fin := solve [lia | congruence | (sat; solve [lia | congruence | (intuition (try lia; try congruence))])].

Lemma cached_in s x : In x (cached s) <-> 0 < cC s x.
Proof. rewrite cnt_in, cnt_cached. reflexivity. Qed.

Lemma valid_in s x : In x (prec s ++ probe s) <-> 0 < cV s x.
Proof. rewrite cnt_in, cnt_app. reflexivity. Qed.

Lemma lt_2cap s x : InvC s -> 0 < c6 s x -> x < 2 * cap s.
Proof.
  intros H Hx. destruct (C_one _ H x); lia.
Qed.

(** * cache_put_entry *)
Lemma put_ok s e : InvC s -> In e (plain s) ->
  exists s', do_put s e = Ok (s', RDone, []) /\ InvC s' /\ step_ok s (Put e) RDone [] s'.
Proof.
  intros H Hin. apply cnt_in in Hin. unfold do_put. simp_st.
  pose proof (C_ref _ H e) as Hre.
  destruct (ref s e) as [|n] eqn:Hr; [lia|].
  eexists. split; [reflexivity|]. split.
  - constructor; norm; try (old H).
    + intros x. cs x e; crw.
      * lia.
      * apply (C_ref _ H).
    + intros x. cs x e; crw; intros Hx.
      * apply (C_ref_cached _ H). lia.
      * apply (C_ref_cached _ H). exact Hx.
    + intros x Hx. cs x e; crw.
      * apply (C_infl_ref _ H) in Hx. lia.
      * apply (C_infl_ref _ H). exact Hx.
  - split; [|split; [|split]]; simp_st; try reflexivity.
    + intros x Hx Hx'. simp_st. repeat split; simp_st; try reflexivity; try assumption.
      apply cached_in. unfold cC. simp_st. apply (C_ref_cached _ H). exact Hx.
    + intros v n0 [].
Qed.

(** * cache_discard *)
Lemma discard_ok s e : InvC s -> In e (pend s) ->
  exists s', do_discard s e = Ok (s', RDone, []) /\ InvC s' /\ step_ok s (Discard e) RDone [] s'.
Proof.
  intros H Hin. apply cnt_in in Hin. unfold do_discard. simp_st.
  pose proof (C_ref _ H e) as Hre.
  destruct (ref s e) as [|n] eqn:Hr; [lia|].
  assert (HcC : 0 < cC s e) by (apply (C_ref_cached _ H); lia).
  destruct (Nat.eqb_spec n 0) as [->|Hn]; cbn [negb].
  2:{ eexists. split; [reflexivity|]. split.
      - constructor; norm; try (old H).
        + intros x. cs x e; crw; [lia|apply (C_ref _ H)].
        + intros x. cs x e; crw; intros Hx; apply (C_ref_cached _ H); lia.
        + intros x Hx. pose proof (C_infl_ref _ H x Hx). cs x e; crw; lia.
      - split; [|split; [|split]]; simp_st; try reflexivity.
        + intros x Hx Hx'. simp_st. repeat split; simp_st; try reflexivity; try assumption.
          apply cached_in. unfold cC. simp_st. apply (C_ref_cached _ H). exact Hx.
        + intros v n0 []. }
  destruct (est s e) eqn:Hest; cbn [estate_valid].
  { eexists. split; [reflexivity|]. split.
    - constructor; norm; try (old H).
      + intros x. cs x e; crw; [lia|apply (C_ref _ H)].
      + intros x. cs x e; crw; intros Hx; [lia|apply (C_ref_cached _ H); lia].
      + intros x Hx. pose proof (C_infl_ref _ H x Hx). pose proof (C_est_infl _ H x Hx).
        cs x e; crw; [congruence|lia].
    - split; [|split; [|split]]; simp_st; try reflexivity.
      + intros x Hx Hx'. simp_st. repeat split; simp_st; try reflexivity; try assumption.
        apply cached_in. unfold cC. simp_st. apply (C_ref_cached _ H). exact Hx.
      + intros v n0 []. }
  all: assert (Hinf : cnt (infl s) e = 1) by
    (pose proof (C_one _ H e); pose proof (C_est_valid _ H e); unfold c6, cC, cV in *;
     destruct (Nat.eq_dec (cnt (infl s) e) 0); [|lia];
     assert (est s e = Valid) by (apply H1; lia); congruence).
  all: assert (Hmem : existsb (Nat.eqb e) (infl s) = true) by (apply memb_in, cnt_in; lia).
  all: rewrite Hmem.
  all: eexists; (split; [reflexivity|]); split.
  all: try (split; [|split; [|split]]; simp_st; try reflexivity;
            [intros x Hx Hx'; simp_st; cs x e; crw; [lia|];
             repeat split; simp_st; crw; try reflexivity; try assumption;
             apply cached_in; unfold cC; simp_st; crw;
             pose proof (C_ref_cached _ H x Hx); unfold cC in *; lia
            |intros v n0 []]).
  all: destruct (C_unused _ H) as (em & fu & Hu & Hl & Hf & He).
  all: pose proof (length_rm (infl s) e) as Hlen.
  all: inst H e.
  all: constructor; norm; try (old H).
  all: try (intros x; intros; inst H x; cs x e; crw; fin).
  all: try (intros x y Hx Hy Hk; cs x e; cs y e; crw; try lia;
            apply (C_keys _ H); unfold cC; (lia || assumption)).
  all: exists em, (fu ++ [e]); split; [rewrite Hu, app_assoc; reflexivity|];
       split; [rewrite app_length; cbn [length]; lia|]; split; [|exact He];
       intros x Hx; cs x e; crw; [apply H1; lia|apply Hf; lia].
Qed.

(** * cache_insert *)
Lemma insert_ok s e : InvC s -> In e (pend s) ->
  exists s', do_insert s e = Ok (s', RDone, []) /\ InvC s' /\ step_ok s (Insert e) RDone [] s'.
Proof.
  intros H Hin. apply cnt_in in Hin. unfold do_insert. simp_st.
  pose proof (C_ref _ H e) as Hre.
  assert (Href : 0 < ref s e) by lia.
  assert (HcC : 0 < cC s e) by (apply (C_ref_cached _ H); lia).
  destruct (data s e) as [t|] eqn:Hd; [|exfalso; apply (C_data_cached _ H e HcC Hd)].
  simp_st.
  assert (Hcont : forall x t', 0 < cV s x -> data s x = Some t' -> x <> e ->
                    upd (content s) t (Some (key s e)) t' = Some (key s x)).
  { intros x t' Hx Hdx Hne. cs t' t.
    - exfalso. apply Hne. eapply (C_tok_inj _ H); eassumption.
    - crw. apply (C_content _ H); assumption. }
  destruct (est s e) eqn:Hest; cbn [estate_valid].
  - (* already committed by another handle *)
    assert (Hni : cnt (infl s) e = 0).
    { destruct (Nat.eq_dec (cnt (infl s) e) 0); [assumption|].
      exfalso. apply (C_est_infl _ H e); [lia|assumption]. }
    assert (HcV : 0 < cV s e) by (unfold cC, cV in *; lia).
    eexists. split; [reflexivity|]. split.
    + constructor; norm; try (old H).
      * intros x. inst H x. cs x e; crw; fin.
      * intros x Hx. inst H x. cs x e; crw; fin.
      * intros x t' Hx Hdx. cs x e.
        -- rewrite Hd in Hdx. inversion Hdx; subst. crw. reflexivity.
        -- apply Hcont; assumption.
    + split; [|split; [|split]]; simp_st; try reflexivity.
      * intros x Hx Hx'. simp_st. repeat split; simp_st; try reflexivity; try assumption.
        -- apply cached_in. unfold cC. simp_st. apply (C_ref_cached _ H). exact Hx.
        -- intros t' Hdx. cs x e.
           ++ rewrite Hd in Hdx. inversion Hdx; subst. crw.
              symmetry. apply (C_content _ H); assumption.
           ++ cs t' t; crw; [|reflexivity].
              exfalso. apply n. eapply (C_tok_inj _ H); eassumption.
      * intros v n0 [].
  - (* in flight, target probe list *)
    assert (Hinf : cnt (infl s) e = 1).
    { pose proof (C_one _ H e); pose proof (C_est_valid _ H e); unfold c6, cC, cV in *.
      destruct (Nat.eq_dec (cnt (infl s) e) 0); [|lia].
      assert (est s e = Valid) by (apply H1; lia). congruence. }
    assert (Hmem : existsb (Nat.eqb e) (infl s) = true) by (apply memb_in, cnt_in; lia).
    rewrite Hmem. simp_st.
    pose proof (length_rm (infl s) e) as Hlen.
    eexists. split; [reflexivity|]. split.
    + inst H e. constructor; norm; try (old H).
      * intros x. inst H x. cs x e; crw; fin.
      * destruct (C_unused _ H) as (em & fu & Hu & Hl & Hf & He). exists em, fu.
        cbn [length]. repeat split; try assumption. lia.
      * intros x Hx. inst H x. cs x e; crw; fin.
      * intros x y Hx Hy Hk. apply (C_keys _ H); unfold cC; try assumption.
        -- cs x e; crw; lia.
        -- cs y e; crw; lia.
      * intros x. inst H x. cs x e; crw; fin.
      * intros x Hx. inst H x. cs x e; crw; fin.
      * intros x Hx. inst H x. cs x e; crw; fin.
      * intros x Hx. inst H x. cs x e; crw; fin.
      * intros x Hx. inst H x. cs x e; crw; fin.
      * intros x t' Hx Hdx. cs x e.
        -- rewrite Hd in Hdx. inversion Hdx; subst. crw. reflexivity.
        -- crw. apply Hcont; try assumption; try (unfold cV; lia).
    + split; [|split; [|split]]; simp_st; try reflexivity.
      * intros x Hx Hx'. simp_st. split; [reflexivity|]. split; [reflexivity|]. split.
        -- apply cached_in. unfold cC. simp_st.
           pose proof (C_ref_cached _ H x Hx). unfold cC in *. cs x e; crw; lia.
        -- intros Hv. split.
           ++ cs x e; crw; first [reflexivity|congruence|assumption].
           ++ intros t' Hdx. cs x e; [congruence|].
              cs t' t; crw; [|reflexivity].
              exfalso. apply n. eapply (C_tok_inj _ H); eassumption.
      * intros v n0 [].
  - (* in flight, target precious list *)
    assert (Hinf : cnt (infl s) e = 1).
    { pose proof (C_one _ H e); pose proof (C_est_valid _ H e); unfold c6, cC, cV in *.
      destruct (Nat.eq_dec (cnt (infl s) e) 0); [|lia].
      assert (est s e = Valid) by (apply H1; lia). congruence. }
    assert (Hmem : existsb (Nat.eqb e) (infl s) = true) by (apply memb_in, cnt_in; lia).
    rewrite Hmem. simp_st.
    pose proof (length_rm (infl s) e) as Hlen.
    eexists. split; [reflexivity|]. split.
    + inst H e. constructor; norm; try (old H).
      * intros x. inst H x. cs x e; crw; fin.
      * destruct (C_unused _ H) as (em & fu & Hu & Hl & Hf & He). exists em, fu.
        cbn [length]. repeat split; try assumption. lia.
      * intros x Hx. inst H x. cs x e; crw; fin.
      * intros x y Hx Hy Hk. apply (C_keys _ H); unfold cC; try assumption.
        -- cs x e; crw; lia.
        -- cs y e; crw; lia.
      * intros x. inst H x. cs x e; crw; fin.
      * intros x Hx. inst H x. cs x e; crw; fin.
      * intros x Hx. inst H x. cs x e; crw; fin.
      * intros x Hx. inst H x. cs x e; crw; fin.
      * intros x Hx. inst H x. cs x e; crw; fin.
      * intros x t' Hx Hdx. cs x e.
        -- rewrite Hd in Hdx. inversion Hdx; subst. crw. reflexivity.
        -- crw. apply Hcont; try assumption; try (unfold cV; lia).
    + split; [|split; [|split]]; simp_st; try reflexivity.
      * intros x Hx Hx'. simp_st. split; [reflexivity|]. split; [reflexivity|]. split.
        -- apply cached_in. unfold cC. simp_st.
           pose proof (C_ref_cached _ H x Hx). unfold cC in *. cs x e; crw; lia.
        -- intros Hv. split.
           ++ cs x e; crw; first [reflexivity|congruence|assumption].
           ++ intros t' Hdx. cs x e; [congruence|].
              cs t' t; crw; [|reflexivity].
              exfalso. apply n. eapply (C_tok_inj _ H); eassumption.
      * intros v n0 [].
Qed.

(** * cache_flush / cache_alloc *)
Lemma fresh_inv s : 0 < cap s ->
  prec s = [] -> gprec s = [] -> unused s = rev (seq 0 (2 * cap s)) -> gprobe s = [] ->
  probe s = [] -> infl s = [] -> dprobe s = 0 -> (forall x, ref s x = 0) ->
  (forall x, data s x = init_data (cap s) x) -> pend s = [] -> plain s = [] ->
  InvC s.
Proof.
  intros Hc Hp Hgp Hu Hgq Hq Hi Hd Hr Hda Hpe Hpl. set (c := cap s) in *.
  constructor; unfold c6, cC, cV, cG; rewrite ?Hp, ?Hgp, ?Hu, ?Hgq, ?Hq, ?Hi, ?Hd, ?Hpe, ?Hpl;
    fold c; try lia; try (intros; crw; lia).
  - intros x. crw. rewrite cnt_seq. cbn [Nat.leb andb Nat.add].
    destruct (Nat.ltb_spec x (2 * c)); lia.
  - exists (rev (seq c c)), (rev (seq 0 c)). split; [|split; [|split]].
    + replace (2 * c) with (c + c) by lia. rewrite seq_app, rev_app_distr. reflexivity.
    + rewrite rev_length, seq_length. reflexivity.
    + intros x Hx. rewrite cnt_rev, cnt_seq in Hx. rewrite Hda. unfold init_data.
      destruct (Nat.ltb_spec x c); [discriminate|].
      destruct (Nat.leb_spec 0 x), (Nat.ltb_spec x (0 + c)); cbn in Hx; lia.
    + intros x Hx. rewrite cnt_rev, cnt_seq in Hx. rewrite Hda. unfold init_data.
      destruct (Nat.ltb_spec x c); [|reflexivity].
      destruct (Nat.leb_spec c x), (Nat.ltb_spec x (c + c)); cbn in Hx; lia.
  - intros x t. rewrite Hda. unfold init_data. destruct (Nat.ltb_spec x c); [|discriminate].
    intros Heq; inversion Heq; subst; assumption.
  - intros x y t. rewrite !Hda. unfold init_data.
    destruct (Nat.ltb_spec x c), (Nat.ltb_spec y c); try discriminate. congruence.
  - intros t Ht. exists t. rewrite Hda. unfold init_data.
    destruct (Nat.ltb_spec t c); [reflexivity|lia].
  - intros x Hx. rewrite Hda. unfold init_data. destruct (Nat.ltb_spec x c); [lia|reflexivity].
  - intros x. rewrite Hr. crw. reflexivity.
  - intros x. rewrite Hr. lia.
Qed.

Lemma init_inv c : 0 < c -> InvC (init c).
Proof. intros Hc. apply fresh_inv; try reflexivity. exact Hc. Qed.

Lemma flush_ok s : InvC s -> pend s = [] /\ plain s = [] ->
  exists s' ev, do_flush s = Ok (s', RDone, ev) /\ InvC s' /\ step_ok s Flush RDone ev s'.
Proof.
  intros H [Hp Hq]. unfold do_flush.
  assert (Hz : forall x, ref s x = 0).
  { intros x. rewrite (C_ref _ H), Hp, Hq. reflexivity. }
  eexists. eexists. split; [reflexivity|]. split.
  - apply fresh_inv; try reflexivity; try assumption. apply (C_cap _ H).
  - split; [|split; [|split]]; simp_st; try reflexivity.
    + intros x Hx. rewrite Hz in Hx. lia.
    + intros v n Hin. apply in_map_iff in Hin. destruct Hin as [x [Heq _]].
      inversion Heq; subst. split; apply Hz.
Qed.
