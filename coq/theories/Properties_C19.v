(** C19 — statements only (work in progress: theorems follow). *)
From Coq Require Import NArith ZArith List Bool.
From KdV Require Import Base.Wrap64 Xen.Pfn2IdxModel Xen.XcCoreModel Xen.XenSpec.
Import ListNotations.
Local Open Scope N_scope.

Example C19_nonvacuous :
  match build 7 (List.map (fun p => (p, true)) [5;6;7;10;9;8;32]) true with
  | Built m => List.map (search m) [5;6;7;8;9;10;32;4] = [0;1;2;5;4;3;6;MAXA]
  | Failed _ => False
  end.
Proof. vm_compute. reflexivity. Qed.
