(** C19 — Xen domain dumps: guest and machine frame views describe the same
    pages.  Statements only; every proof is [exact <lemma>].

    Models: Xen/Pfn2IdxModel.v (the run-length frame index of elfdump.c,
    [pfn2idx_map_*]) and Xen/XcCoreModel.v ([make_xen_pfn_map_*],
    [xc_get_page], [xc_p2m_first_step], [xc_m2p_first_step]); spec
    Xen/XenSpec.v (position of a frame in the page list).

    Hypotheses that appear below and why they are not restrictions of the
    property: frames are 64-bit numbers ([< W]); a column is duplicate-free
    (the property's domain); the list has fewer than 2^63 entries (it is read
    from a file whose offsets are 63-bit [off_t] values, 8 or 16 bytes per
    entry) — this is also what keeps the C field [int_fast64_t len] from
    overflowing ([C19_len_no_overflow]).  [junk] is the value of the field
    [pfn2idx_map_start] leaves uninitialised: every statement holds for all of
    them. *)
From Coq Require Import NArith ZArith List Bool Sorting.Sorted Sorting.Permutation.
From KdV Require Import Base.Wrap64 Xen.Pfn2IdxModel Xen.XcCoreModel Xen.XenSpec Xen.XenProofs.
Import ListNotations.
Local Open Scope N_scope.

(** for every duplicate-free list of 64-bit frames, in any order and any
    mixture of ascending runs, descending runs and isolated frames, the
    index is built (when memory suffices) and every search returns the
    position of the frame in the page list, "none" (~0) for unlisted frames *)
Theorem C19_search_is_position : forall junk l,
  NoDup l -> Forall (fun p => p < W) l -> N.of_nat (length l) < 2^63 ->
  exists m, build junk (List.map (fun p => (p, true)) l) true = Built m /\
            forall p, p < W -> search m p = enc (find_index p l).
Proof. exact search_is_position. Qed.
Print Assumptions C19_search_is_position.

(** the same under every allocation-failure schedule: the construction
    either fails (and then some allocation was refused) or yields an index
    with the property above *)
Theorem C19_search_is_position_any_schedule : forall junk l okend,
  NoDup (List.map fst l) -> Forall (fun e => fst e < W) l -> N.of_nat (length l) < 2^63 ->
  match build junk l okend with
  | Built m => forall p, p < W -> search m p = enc (find_index p (List.map fst l))
  | Failed _ => okend = false \/ Exists (fun e => snd e = false) l
  end.
Proof. exact build_search_is_position. Qed.
Print Assumptions C19_search_is_position_any_schedule.

(** nothing depends on how [qsort] orders the arrays: any sorted permutation
    of the two arrays answers alike (the model uses insertion sort) *)
Theorem C19_search_any_sorted_permutation : forall junk l okend m m',
  NoDup (List.map fst l) -> Forall (fun e => fst e < W) l -> N.of_nat (length l) < 2^63 ->
  build junk l okend = Built m ->
  Permutation (ranges m') (ranges m) -> Permutation (singles m') (singles m) ->
  StronglySorted (fun a b => r_pfn a <= r_pfn b) (ranges m') ->
  StronglySorted (fun a b => s_pfn a <= s_pfn b) (singles m') ->
  forall p, p < W -> search m' p = enc (find_index p (List.map fst l)).
Proof. exact search_any_sorted_permutation. Qed.
Print Assumptions C19_search_any_sorted_permutation.

(** the signed run length never exceeds the number of frames added *)
Theorem C19_len_no_overflow : forall l junk m cur fine,
  Forall (fun e => fst e < W) l -> N.of_nat (length l) < 2^63 ->
  add_all true (fst (map_start junk)) (snd (map_start junk)) l = (m, cur, fine) ->
  fine = true -> Z.abs_N (r_len cur) <= N.of_nat (length l).
Proof. exact len_bounded. Qed.
Print Assumptions C19_len_no_overflow.

(** non-auto-translated dumps: every listed page is found by its guest
    frame and equally by its machine frame — both views give the position of
    the (pfn, gmfn) pair, hence the same page of .xen_pages *)
Theorem C19_both_views_same_page : forall junkp junkm sh es,
  NoDup (List.map fst es) -> NoDup (List.map snd es) ->
  Forall (fun e => fst e < W /\ snd e < W) es -> N.of_nat (length es) < 2^63 ->
  exists x, make_nonauto junkp junkm sh
              (List.map (fun e => (fst e, snd e, true, true)) es) true true = XBuilt x /\
    forall k p g ap am,
      nth_error es k = Some (p, g) -> ap < W -> am < W ->
      N.shiftr ap sh = p -> N.shiftr am sh = g ->
      page_of x false ap = N.of_nat k /\ page_of x true am = N.of_nat k /\
      N.of_nat k <> IDX_NONE.
Proof. exact both_views_same_page. Qed.
Print Assumptions C19_both_views_same_page.

(** converting a listed guest-physical address to machine-physical and back
    returns the original address, page offset included ([g < 2^(64-sh)]: the
    machine frame has a 64-bit address at all) *)
Theorem C19_p2m_m2p_roundtrip : forall junkp junkm sh es,
  NoDup (List.map fst es) -> NoDup (List.map snd es) ->
  Forall (fun e => fst e < W /\ snd e < W) es -> N.of_nat (length es) < 2^63 ->
  sh <= 64 ->
  exists x, make_nonauto junkp junkm sh
              (List.map (fun e => (fst e, snd e, true, true)) es) true true = XBuilt x /\
    forall k p g a,
      nth_error es k = Some (p, g) -> a < W -> N.shiftr a sh = p -> g < 2 ^ (64 - sh) ->
      exists a', p2m_step x a = Xlat a' /\ a' = g * 2 ^ sh + a mod 2 ^ sh /\
                 m2p_step x a' = Xlat a.
Proof. exact p2m_m2p_roundtrip. Qed.
Print Assumptions C19_p2m_m2p_roundtrip.

(** frames the dump does not list are missing in both views *)
Theorem C19_unlisted_missing_both : forall junkp junkm sh es,
  NoDup (List.map fst es) -> NoDup (List.map snd es) ->
  Forall (fun e => fst e < W /\ snd e < W) es -> N.of_nat (length es) < 2^63 ->
  exists x, make_nonauto junkp junkm sh
              (List.map (fun e => (fst e, snd e, true, true)) es) true true = XBuilt x /\
    (forall a, a < W -> ~ In (N.shiftr a sh) (List.map fst es) ->
       page_of x false a = IDX_NONE /\ p2m_step x a = NoData) /\
    (forall a, a < W -> ~ In (N.shiftr a sh) (List.map snd es) ->
       page_of x true a = IDX_NONE /\ m2p_step x a = NoData).
Proof. exact unlisted_missing_both. Qed.
Print Assumptions C19_unlisted_missing_both.

(** pfn-only (auto-translated) layout: both address spaces select the page by
    the guest frame; listed frames give their position, others "none" *)
Theorem C19_auto_views : forall junk sh l,
  NoDup l -> Forall (fun p => p < W) l -> N.of_nat (length l) < 2^63 ->
  exists x, make_auto junk sh (List.map (fun p => (p, true)) l) true = XBuilt x /\
    forall mach a, a < W -> page_of x mach a = enc (find_index (N.shiftr a sh) l).
Proof. exact auto_views. Qed.
Print Assumptions C19_auto_views.

(** history independence: in the model a history of reads and conversions (either
    direction, any addresses, colliding frame numbers included) is answered operation by
    operation — the answer to an operation is the same whatever precedes or follows it.
    Trivial here because the modelled C functions keep no state between calls; the
    correspondence run replays such histories (p2m lists whose two columns are
    permutations of the same numbers, alternating directions on the same number) so that
    an implementation that remembers something across calls is caught (seeded/C19-c1). *)
Theorem C19_steps_history_independent : forall x pre op post,
  nth_error (run_history x (pre ++ op :: post)) (length pre) = Some (do_op x op) /\
  run_history x (pre ++ op :: post) = run_history x pre ++ do_op x op :: run_history x post.
Proof. exact steps_history_independent. Qed.
Print Assumptions C19_steps_history_independent.

(** the code of the pinned tree ([build_gen false]: "next frame" computed
    modulo 2^64) does NOT have the property: when frame 0 follows frame
    2^64-1 the wrapped run sorts first and ends every search, so even frame 5
    of an unrelated run is reported missing.  Replayed on the real library
    this is the finding repaired by fixes/36-pfn2idx-run-wraps.patch. *)
Theorem C19_unrepaired_refuted : exists junk l p,
  NoDup l /\ Forall (fun p => p < W) l /\ In p l /\
  match build_gen false junk (List.map (fun p => (p, true)) l) true with
  | Built m => search m p = IDX_NONE
  | Failed _ => False
  end.
Proof.
  exists 0, [5; 6; 7; 18446744073709551615; 0], 5.
  split; [repeat constructor; cbn; intuition discriminate|].
  split; [rewrite W_val; repeat constructor|].
  split; [now left|vm_compute; reflexivity].
Qed.
Print Assumptions C19_unrepaired_refuted.

(** non-vacuity: a concrete list with an ascending run, a descending run
    reached through the [len == 1 -> -2] switch, an isolated frame and the
    two ends of the frame-number space satisfies the hypotheses, and the
    index answers with the positions *)
Example C19_nonvacuous :
  let l := [5; 6; 7; 10; 9; 8; 32; 18446744073709551615; 0] in
  NoDup l /\ Forall (fun p => p < W) l /\
  match build 7 (List.map (fun p => (p, true)) l) true with
  | Built m => List.map (search m) [5;6;7;8;9;10;32;0;18446744073709551615;4]
               = [0;1;2;5;4;3;6;8;7;MAXA] /\ length (ranges m) = 2%nat
  | Failed _ => False
  end.
Proof.
  split; [repeat constructor; cbn; intuition discriminate|].
  split; [rewrite W_val; repeat constructor|vm_compute; split; reflexivity].
Qed.
