(** C16 — failures carry a documented status and a message that tells the
    story.  Statements only; every proof is [exact <lemma>].

    Model: Err/ErrModel.v ([err_vadd] of src/errmsg.h over explicit memory,
    with the repair of fixes/13-errmsg-lbuf-overread.patch: [lbuf_extra] >= 1),
    Err/StatusModel.v.  Spec: Err/ErrSpec.v.

    [vsnprintf] and the junk that [realloc] / the VLA start with are section
    variables: every theorem holds for every C99-conforming [vsnprintf]
    ([formats]), every junk and every allocation schedule (the [ok] bit of
    each add).  An op "matches" an abstract add [AAdd text ok] when its
    format produces [text] (or makes [vsnprintf] fail, in which case the text
    is "(bad format string)"). *)
From Coq Require Import NArith ZArith List Bool.
From KdV Require Import Err.ErrModel Err.ErrSpec Err.ErrProofs Err.StatusModel Err.StatusProofs Err.ApiProofs.
Import ListNotations.

Section C16.
Variable F : Type.
Variable vsnprintf : F -> nat -> list N * Z.
Variable failure : F.
Variable junk : nat -> N.
Variable lbuf_extra : nat.
Hypothesis lbuf_has_room_for_delim : 1 <= lbuf_extra.
Hypothesis failure_is_plain : formats F vsnprintf failure failure_text.

Notation run := (run F vsnprintf failure junk lbuf_extra).
Notation err_vadd := (err_vadd F vsnprintf failure junk lbuf_extra).
Notation matches := (matches F vsnprintf).

(** after any sequence of adds of arbitrary lengths and clears, under any
    allocation schedule, starting from any inline buffer of at least two
    bytes: no out-of-bounds write, no out-of-bounds read, no pointer below an
    object, no use of the block realloc released ([run] returns [Ok], never a
    [Fault]); [str] is NULL or points into a live buffer and a NUL follows
    inside that buffer *)
Theorem C16_nul_terminated_in_bounds : forall buf0 ops aops,
  2 <= length buf0 -> Forall2 matches ops aops ->
  exists s, run (err_init buf0) ops = Ok s /\ terminated s /\
            length (e_buf s) = length buf0.
Proof. exact (fun buf0 ops aops Hb Hm =>
  history_safe F vsnprintf failure junk lbuf_extra lbuf_has_room_for_delim failure_is_plain
               (err_init buf0) ops aops (wf_init buf0 Hb) Hm). Qed.

(** the same from every reachable state *)
Theorem C16_safe_from_any_state : forall s ops aops,
  wf s -> Forall2 matches ops aops ->
  exists s', run s ops = Ok s' /\ terminated s' /\ length (e_buf s') = length (e_buf s).
Proof. exact (history_safe F vsnprintf failure junk lbuf_extra lbuf_has_room_for_delim failure_is_plain). Qed.

(** when every allocation succeeds the string is the chain of the messages
    added since the last clear, newest first, separated by ": " *)
Theorem C16_chain_when_memory : forall s ops aops,
  wf s -> Forall2 matches ops aops -> Forall mem_ok aops ->
  exists s', run s ops = Ok s' /\ cur s' = chain (cur s) aops.
Proof. exact (history_chain F vsnprintf failure junk lbuf_extra lbuf_has_room_for_delim failure_is_plain). Qed.

(** ... in particular, for adds only from a fresh object: [render], which is
    [intercalate ": "] of the messages, newest first, when none is empty *)
Theorem C16_chain_is_render : forall buf0 ops texts,
  2 <= length buf0 ->
  Forall2 matches ops (map (fun t => AAdd t true) texts) ->
  exists s', run (err_init buf0) ops = Ok s' /\ cur s' = render (rev texts) /\
             (Forall (fun m => m <> []) texts -> cur s' = intercalate (rev texts)).
Proof. exact (history_render F vsnprintf failure junk lbuf_extra lbuf_has_room_for_delim failure_is_plain). Qed.

(** every add, under every allocation outcome, only prepends: the old text
    stays at the end, or (no room at all) the marker replaces its first byte *)
Theorem C16_prepend_only : forall s f text ok,
  wf s -> matches (OpAdd F f ok) (AAdd text ok) ->
  exists s', err_vadd s f ok = Ok s' /\
    ((exists prefix, cur s' = prefix ++ cur s) \/
     (cur s <> [] /\ cur s' = ch_lt :: tl (cur s))).
Proof. exact (add_prepend_only F vsnprintf failure junk lbuf_extra lbuf_has_room_for_delim failure_is_plain). Qed.

(** the new text is the full chain unless an allocation failed, and then it
    is marked: it starts with '<' (and satisfies the executable spec
    [add_spec], which the check also applies to the C implementation) *)
Theorem C16_truncation_marked : forall s f text ok,
  wf s -> matches (OpAdd F f ok) (AAdd text ok) ->
  exists s', err_vadd s f ok = Ok s' /\
    add_spec ok (cur s) text (cur s') = true /\
    (cur s' = chain_step (cur s) text \/ (ok = false /\ hd_error (cur s') = Some ch_lt)).
Proof. exact (add_truncation_marked F vsnprintf failure junk lbuf_extra lbuf_has_room_for_delim failure_is_plain). Qed.

(** exactly which bytes survive a truncation: [step_abs] (ErrProofs.v) —
    the marker followed by the tail of (message cut with '>' at bufsz-1) ++ ": " *)
Theorem C16_add_exact : forall s f text ok,
  wf s -> matches (OpAdd F f ok) (AAdd text ok) ->
  exists s', err_vadd s f ok = Ok s' /\ wf s' /\
    view s' = step_abs (length (e_buf s)) (view s) text ok.
Proof. exact (add_exact F vsnprintf failure junk lbuf_extra lbuf_has_room_for_delim failure_is_plain). Qed.

(** no truncation while the message fits in front of the text *)
Theorem C16_fits_no_truncation : forall s f text ok,
  wf s -> matches (OpAdd F f ok) (AAdd text ok) ->
  (cur s = [] /\ length text <= length (e_buf s) - 1 \/
   cur s <> [] /\ length text + 2 <= snd (fst (view s))) ->
  exists s', err_vadd s f ok = Ok s' /\ cur s' = chain_step (cur s) text.
Proof. exact (add_fits_exact F vsnprintf failure junk lbuf_extra lbuf_has_room_for_delim failure_is_plain). Qed.

(** clearing leaves no error string, and nothing stale can come back *)
Theorem C16_clear_then_empty : forall s,
  wf s -> err_str (err_clear s) = None /\ wf (err_clear s) /\ cur (err_clear s) = [].
Proof. exact clear_empty. Qed.

Theorem C16_clear_then_add : forall s f text ok,
  wf s -> matches (OpAdd F f ok) (AAdd text ok) ->
  (ok = true \/ length text <= length (e_buf s) - 1) ->
  exists s', err_vadd (err_clear s) f ok = Ok s' /\ cur s' = text.
Proof. exact (clear_then_add F vsnprintf failure junk lbuf_extra lbuf_has_room_for_delim failure_is_plain). Qed.

(** "when the status is not success the error string is non-empty", for the
    one mechanism every failure path uses: a [set_error] with a non-empty
    message leaves a non-empty string whatever the allocator does.
    _partial: that every failing path of the library calls [set_error] is
    not a theorem; it is monitored at run time on every API return of the
    drivers (status in the enumeration, message iff failure). *)
Theorem C16_nonempty_on_failure_partial : forall s f text ok,
  wf s -> matches (OpAdd F f ok) (AAdd text ok) ->
  text <> [] \/ cur s <> [] ->
  exists s', err_vadd s f ok = Ok s' /\ cur s' <> [].
Proof. exact (add_nonempty F vsnprintf failure junk lbuf_extra lbuf_has_room_for_delim failure_is_plain). Qed.

(** ** The entry-point wrapper: [clear_error] first, then only [set_error] writes

    [api_call s body] = what a public [kdump_*] function does to the error
    object: clear, then the [set_error] calls of the failing path (none on
    success). *)

(** a successful call leaves no stale error behind, whatever was there before *)
Theorem C16_success_leaves_no_error : forall s,
  wf s -> exists s', api_call F vsnprintf failure junk lbuf_extra s [] = Ok s' /\
                     err_str s' = None /\ msg_present s' = false.
Proof. exact (api_success_no_error F vsnprintf failure junk lbuf_extra). Qed.

(** a failing call (at least one set_error with a non-empty message) leaves a
    non-empty string, under every allocation schedule *)
Theorem C16_failure_leaves_message : forall s body aops,
  wf s -> Forall2 matches body aops -> Forall is_add_nonempty aops -> body <> [] ->
  exists s', api_call F vsnprintf failure junk lbuf_extra s body = Ok s' /\ msg_present s' = true.
Proof. exact (api_failure_message F vsnprintf failure junk lbuf_extra lbuf_has_room_for_delim failure_is_plain). Qed.

(** hence the contract that the end-to-end stage evaluates after every call of
    the real library ([status_msg_ok]: documented status, message iff failure)
    holds for every entry point that returns a failure status iff it called
    set_error.  That each of the library's paths follows this discipline is
    what the run-time oracle monitors (see C16_nonempty_on_failure_partial). *)
Theorem C16_entry_point_contract : forall s body aops status,
  wf s -> Forall2 matches body aops -> Forall is_add_nonempty aops ->
  kdump_doc status = true -> (status = KDUMP_OK <-> body = []) ->
  exists s', api_call F vsnprintf failure junk lbuf_extra s body = Ok s' /\
             status_msg_ok (status, msg_present s') = true.
Proof. exact (api_contract F vsnprintf failure junk lbuf_extra lbuf_has_room_for_delim failure_is_plain). Qed.

(** the same contract for libaddrxlat's own entry points (addrxlat_launch,
    _step, _walk, _sys_os_init, _op and, through it, _fulladdr_conv), judged
    after every call of the pure-libaddrxlat histories of the check *)
Theorem C16_addrxlat_entry_point_contract : forall s body aops status,
  wf s -> Forall2 matches body aops -> Forall is_add_nonempty aops ->
  addrxlat_doc status = true -> (status = ADDRXLAT_OK <-> body = []) ->
  exists s', api_call F vsnprintf failure junk lbuf_extra s body = Ok s' /\
             ax_status_msg_ok (status, msg_present s') = true.
Proof. exact (api_contract_ax F vsnprintf failure junk lbuf_extra lbuf_has_room_for_delim failure_is_plain). Qed.

(** an entry point that clears first forgets the old string entirely: what it
    leaves does not depend on the state before the call (nothing stale, and
    nothing new chained onto something old) *)
Theorem C16_cleared_entry_forgets_history : forall s1 s2 body aops,
  wf s1 -> wf s2 -> length (e_buf s1) = length (e_buf s2) -> Forall2 matches body aops ->
  exists s1' s2', api_call F vsnprintf failure junk lbuf_extra s1 body = Ok s1' /\
                  api_call F vsnprintf failure junk lbuf_extra s2 body = Ok s2' /\ cur s1' = cur s2'.
Proof. exact (api_call_forgets F vsnprintf failure junk lbuf_extra lbuf_has_room_for_delim failure_is_plain). Qed.

End C16.

Print Assumptions C16_nul_terminated_in_bounds.
Print Assumptions C16_safe_from_any_state.
Print Assumptions C16_chain_when_memory.
Print Assumptions C16_chain_is_render.
Print Assumptions C16_prepend_only.
Print Assumptions C16_truncation_marked.
Print Assumptions C16_add_exact.
Print Assumptions C16_fits_no_truncation.
Print Assumptions C16_clear_then_empty.
Print Assumptions C16_clear_then_add.
Print Assumptions C16_nonempty_on_failure_partial.
Print Assumptions C16_success_leaves_no_error.
Print Assumptions C16_failure_leaves_message.
Print Assumptions C16_entry_point_contract.
Print Assumptions C16_addrxlat_entry_point_contract.
Print Assumptions C16_cleared_entry_forgets_history.

(** defect 13 of the pinned tree (lbuf has no room for the delimiter,
    [lbuf_extra = 0]): the faithful model reads [lbuf[bufsz]] *)
Theorem C16_pinned_lbuf_overread_refuted :
  exists buf0 ops,
    last (run_inst 0 buf0 ops) (Ok (err_init buf0)) = Fault (OOB_read RLbuf 8).
Proof.
  exists (repeat 35%N 8),
         [OpAdd _ (Some [97%N]) true; OpAdd _ (Some [98;99;100;101;102;103;104]%N) false].
  vm_compute. reflexivity.
Qed.
Print Assumptions C16_pinned_lbuf_overread_refuted.

(** every public libaddrxlat entry point that returns a status on a context
    starts from a cleared error string (directly or through addrxlat_op),
    except addrxlat_ctx_err, which is the public set_error; the table
    [ax_clears] is compared with a scan of the sources on every check *)
Theorem C16_addrxlat_entries_clear_first :
  Forall (fun e => e = AxCtxErr \/ ax_starts_clear 2 e = true) ax_entries.
Proof. exact ax_entries_start_clear. Qed.
Print Assumptions C16_addrxlat_entries_clear_first.

(** ** Statuses *)
Local Open Scope Z_scope.

(** the two status translations map documented sets to documented sets *)
Theorem C16_status_closed_down : forall s, kdump_doc s = true ->
  addrxlat_doc (fst (kdump2addrxlat s)) = true /\
  snd (kdump2addrxlat s) = negb (fst (kdump2addrxlat s) =? ADDRXLAT_OK).
Proof. exact k2a_doc. Qed.
Print Assumptions C16_status_closed_down.

Theorem C16_status_closed_up : forall s, 0 <= s <= 6 \/ -9 <= s <= -1 ->
  status_msg_ok (addrxlat2kdump s) = true.
Proof. exact a2k_doc. Qed.
Print Assumptions C16_status_closed_up.

Theorem C16_status_roundtrip : forall s, kdump_doc s = true ->
  fst (addrxlat2kdump (fst (kdump2addrxlat s))) = s.
Proof. exact roundtrip. Qed.
Print Assumptions C16_status_roundtrip.

(** the internal no-probe marker never escapes from the probe loop, whatever
    the probes return; with well-behaved probes the result is a documented
    status with a message iff it is a failure *)
Theorem C16_probe_never_noprobe : forall probes, fst (probe_loop probes) <> KDUMP_NOPROBE.
Proof. exact probe_never_noprobe. Qed.
Print Assumptions C16_probe_never_noprobe.

Theorem C16_probe_status_closed : forall probes,
  Forall probe_wellbehaved probes -> status_msg_ok (probe_loop probes) = true.
Proof. exact probe_loop_ok. Qed.
Print Assumptions C16_probe_status_closed.

(** VMCOREINFO post-set hook (after fixes/11): always an assigned, documented
    status; the pinned code (defect 11) returns an unassigned variable *)
Theorem C16_vmcoreinfo_status_assigned : forall rows,
  Forall (fun r => kdump_doc r = true) rows ->
  exists z, raw_post_hook true rows = St z /\ kdump_doc z = true.
Proof. exact raw_post_hook_repaired. Qed.
Print Assumptions C16_vmcoreinfo_status_assigned.

Theorem C16_pinned_vmcoreinfo_status_refuted : raw_post_hook false [] = Undef.
Proof. exact raw_post_hook_pinned_undef. Qed.

(** per-CPU blob attribute (after fixes/23): documented status, message iff
    failure, and every failure on the path is reported; the pinned code
    (defect 23) reports a failed attribute allocation as success *)
Theorem C16_blob_attr_failure_reported : forall cpu_dir_st blob_ok attr_ok set_st,
  callee_ok cpu_dir_st -> callee_ok set_st ->
  let r := init_cpu_blob_attr true cpu_dir_st blob_ok attr_ok set_st in
  status_msg_ok r = true /\
  ((cpu_dir_st <> KDUMP_OK \/ blob_ok = false \/ attr_ok = false \/ set_st <> KDUMP_OK)
   -> fst r <> KDUMP_OK).
Proof. exact init_cpu_blob_attr_repaired. Qed.
Print Assumptions C16_blob_attr_failure_reported.

Theorem C16_pinned_blob_attr_silent_refuted :
  init_cpu_blob_attr false KDUMP_OK true false KDUMP_OK = (KDUMP_OK, false).
Proof. exact init_cpu_blob_attr_pinned_silent. Qed.

(** non-vacuity: the instance the check runs satisfies the section
    hypotheses ([vs_inst] is C99 for every text, "(bad format string)"
    included), and a concrete history reaches the dynamic buffer, a
    truncation and a clear *)
Example C16_nonvacuous :
  formats (option (list N)) vs_inst (Some failure_text) failure_text /\
  List.map (fun r => match r with Ok s => Some (view s) | Fault _ => None end)
    (run_inst 2 (repeat 35%N 8)
       [OpAdd _ (Some [97;98]%N) true; OpAdd _ (Some [99;100;101;102]%N) true;
        OpAdd _ (Some [103]%N) false; OpClear _; OpAdd _ None true])
  = [ Some ([97;98]%N, 5%nat, false);
      Some ([99;100;101;102;58;32;97;98]%N, 1%nat, true);
      Some ([60;99;100;101;102;58;32;97;98]%N, 0%nat, true);
      Some ([], 0%nat, false);
      Some (failure_text, 1%nat, true) ].
Proof.
  split; [split; [repeat constructor; discriminate|reflexivity]|vm_compute; reflexivity].
Qed.

(** the context's noerr.notpresent flag (which suppresses the message of
    "page not present") is restored by every table scan, whatever its launch
    and its table walk return, hence cleared again after every entry point
    that starts with it cleared; a later non-present page is then reported
    with a message *)
Theorem C16_noerr_flags_restored : forall l flag, scans false flag l = flag.
Proof. exact scans_restore. Qed.
Print Assumptions C16_noerr_flags_restored.

Theorem C16_not_present_has_message : forall l,
  ax_status_msg_ok (step_not_present (scans false false l)) = true.
Proof. exact not_present_has_message. Qed.

(** the variant that sets the flag before the launch (seeded as C16-c1) *)
Theorem C16_early_noerr_variant_refuted :
  scans true false [(ADDRXLAT_ERR_INVALID, ADDRXLAT_OK)] = true /\
  ax_status_msg_ok (step_not_present (scans true false [(ADDRXLAT_ERR_INVALID, ADDRXLAT_OK)])) = false.
Proof. exact early_set_variant_loses_message. Qed.

(** after fixes/74 the upward translation is closed over the whole addrxlat
    enumeration, foreign custom codes included (they become KDUMP_ERR_ADDRXLAT);
    the mapping of the tree before it let -100 out as status 100 *)
Theorem C16_status_closed_up_all : forall s, addrxlat_doc s = true ->
  status_msg_ok (addrxlat2kdump s) = true.
Proof. exact a2k_doc_all. Qed.
Print Assumptions C16_status_closed_up_all.

Theorem C16_foreign_custom_status_refuted :
  addrxlat_doc (-100) = true /\ kdump_doc (fst (addrxlat2kdump_gen false (-100))) = false.
Proof. exact a2k_unbounded_undocumented. Qed.
Print Assumptions C16_foreign_custom_status_refuted.

(** after fixes/108 an allocation failure inside the translation crosses the
    library boundary as the out-of-memory/system class, not as the status that
    callers tolerating an unusable translation ignore *)
Theorem C16_addrxlat_nomem_is_system :
  addrxlat2kdump ADDRXLAT_ERR_NOMEM = (KDUMP_ERR_SYSTEM, true) /\
  fst (addrxlat2kdump_gen true ADDRXLAT_ERR_NOMEM) <> KDUMP_ERR_ADDRXLAT.
Proof. exact a2k_nomem_is_system. Qed.
Print Assumptions C16_addrxlat_nomem_is_system.
