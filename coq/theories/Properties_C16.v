From Coq Require Import NArith List.
From KdV Require Import Err.ErrModel Err.ErrSpec.
Example C16_placeholder : render [] = [].
Proof. vm_compute. reflexivity. Qed.
