(** C18 - running out of memory is an error, not an accident.

    Statements only.  The models (Res/OomModel.v) are event programs
    transcribed from the C constructors / unwind paths; [run m sch] executes a
    model under the allocation schedule [sch] and yields (result, trace,
    "an allocator call was failed").  Every theorem below holds for EVERY
    schedule - any number of failures at any positions - and is stated for
    [fail_nth n] (exactly the n-th allocator call fails), every n, where the
    property text says so.

    PARTIAL BY NATURE: these theorems cover the modelled paths.  The several
    hundred other allocation sites of the library are reached only by the
    enumeration of the correspondence check (engine "oom"), which is a
    bounded, runtime observation. *)
From Coq Require Import NArith ZArith List Bool Arith.
From KdV Require Import Base.Wrap64 Map.MapModel Map.MapSpec Map.MapProofs.
From KdV Require Import Res.OomMap.
From KdV Require Import Res.Tokens Res.TokensProofs Res.OomModel Res.OomSpec Res.OomProofs.
From KdV Require Import Res.SysLayout Res.SysLayoutProofs.
From KdV Require Import Res.Reopen Res.ReopenProofs.
From Coq Require Import Permutation.
Import ListNotations.

(** kdump_new: for every failure index n the call returns NULL exactly when an
    allocation was failed, and then every block allocated so far has been
    freed exactly once, the lock taken by shared_decref has been released *)
Theorem C18_kdump_new_unwind : forall nr opts n r tr fl,
  run (kdump_new nr opts) (fail_nth n) = (r, tr, fl) ->
  (r = None <-> fl = true) /\
  (r = None -> balanced tr /\ no_lock_held tr /\ no_pin_held tr).
Proof. exact (fun nr opts => run_ok_strict_nth _ _ (kdump_new_run_ok nr opts)). Qed.
Print Assumptions C18_kdump_new_unwind.

(** ... and for every schedule whatsoever *)
Theorem C18_kdump_new_unwind_all_schedules : forall nr opts, run_ok_strict (kdump_new nr opts).
Proof. exact kdump_new_run_ok. Qed.
Print Assumptions C18_kdump_new_unwind_all_schedules.

(** kdump_clone, all flag combinations, any number of per-context slots, any
    shape of the cloned attribute subtrees: a failed clone leaves exactly the
    blocks, locks and reference counts that existed before *)
Theorem C18_kdump_clone_unwind : forall slots dictclone xlatclone specs n r tr fl,
  run (kdump_clone slots dictclone xlatclone specs) (fail_nth n) = (r, tr, fl) ->
  (fl = true -> r = None) /\
  (r = None -> balanced tr /\ no_lock_held tr /\ no_pin_held tr).
Proof. exact (fun a b c d => run_ok_nth _ _ (kdump_clone_run_ok a b c d)). Qed.
Print Assumptions C18_kdump_clone_unwind.

(** the same, in any pre-state (blocks L alive, locks K held, references P
    held): the state is restored exactly; a successful clone owns exactly
    what [clone_shape] lists *)
Theorem C18_kdump_clone_restores_state : forall slots dictclone xlatclone specs,
  unwinds_rel (kdump_clone slots dictclone xlatclone specs) clone_shape.
Proof. exact kdump_clone_unwinds. Qed.
Print Assumptions C18_kdump_clone_restores_state.

(** survivors can be freed: constructor followed by kdump_free leaves nothing,
    whatever the schedule *)
Theorem C18_new_then_free_clean : forall nr opts, roundtrip_clean (kdump_new nr opts) kdump_free.
Proof. exact kdump_new_roundtrip. Qed.
Print Assumptions C18_new_then_free_clean.

Theorem C18_clone_then_free_clean : forall slots dc xc specs,
  roundtrip_clean (kdump_clone slots dc xc specs) kdump_free.
Proof. exact kdump_clone_roundtrip. Qed.
Print Assumptions C18_clone_then_free_clean.

(** xlat_new / xlat_clone (vtop.c) *)
Theorem C18_xlat_new_unwind : unwinds_strict xlat_new own_xlat (fun _ => []).
Proof. exact xlat_new_strict. Qed.
Print Assumptions C18_xlat_new_unwind.

Theorem C18_xlat_clone_unwind : unwinds_strict xlat_clone own_xlat (fun _ => []).
Proof. exact xlat_clone_strict. Qed.
Print Assumptions C18_xlat_clone_unwind.

(** attr_dict_new (repaired), attr_dict_clone *)
Theorem C18_attr_dict_new_unwind : forall nr, unwinds_strict (attr_dict_new nr) own_dict (fun _ => []).
Proof. exact attr_dict_new_strict. Qed.
Print Assumptions C18_attr_dict_new_unwind.

Theorem C18_attr_dict_clone_unwind :
  unwinds_strict attr_dict_clone own_dict (fun _ => [O_shared; O_dict]).
Proof. exact attr_dict_clone_strict. Qed.
Print Assumptions C18_attr_dict_clone_unwind.

(** create_attr_path: failure exactly when an allocation failed; every block
    allocated and not freed is in the returned list, i.e. linked into the
    dictionary that owns it (the path components created before the failure
    stay as unset directories: nothing is leaked, but the tree is not
    literally unchanged - hence no "tree unchanged" claim) *)
Theorem C18_create_attr_path_owned : forall missing sch,
  let '(r, tr, fl) := run (create_attr_path missing []) sch in
  (fst r = false <-> fl = true) /\
  exists x, replay tr = Some x /\ live x = snd r /\ locks x = [] /\ pins x = [].
Proof. exact create_attr_path_run. Qed.
Print Assumptions C18_create_attr_path_owned.

(** clone_attr_path (repaired) into a dictionary where the attribute does not
    exist yet (kdump_clone's case): on failure everything the call created
    has been freed again, exactly once *)
Theorem C18_attr_clone_rollback : forall above t sch,
  let '(r, tr, fl) := run (clone_attr_path above true t) sch in
  (fl = true -> fst r = None) /\
  match fst r with
  | None => clean tr /\ snd r = []
  | Some new => exists x, replay tr = Some x /\ live x = new /\ locks x = [] /\ pins x = []
  end.
Proof. exact clone_attr_path_run. Qed.
Print Assumptions C18_attr_clone_rollback.

(** fcache_new, cache_alloc *)
Theorem C18_fcache_new_unwind : unwinds_strict fcache_new own_fcache (fun _ => []).
Proof. exact fcache_new_strict. Qed.
Print Assumptions C18_fcache_new_unwind.

Theorem C18_cache_alloc_unwind : forall d, unwinds_strict (cache_alloc d) own_cache (fun _ => []).
Proof. exact cache_alloc_strict. Qed.
Print Assumptions C18_cache_alloc_unwind.

(** growth of a PFN region array: along any history of additions under any
    schedule the map holds exactly the additions that succeeded, in order
    (a failed one changes nothing), owns exactly one block, and freeing it
    leaves nothing *)
Theorem C18_regions_paths : forall inc rgns sch,
  let '(m, tr, fl) := run (add_regions inc empty_map rgns) sch in
  pm_list m = successes inc 0 rgns sch /\
  pm_n m = length (pm_list m) /\
  exists x, replay tr = Some x /\ live x = own_pfnmap m /\ locks x = [] /\ pins x = [].
Proof. exact add_regions_run. Qed.
Print Assumptions C18_regions_paths.

Theorem C18_regions_then_free_clean : forall inc rgns sch,
  let '(_, tr, _) := run (m <- add_regions inc empty_map rgns ;; free_regions m) sch in clean tr.
Proof. exact add_regions_roundtrip. Qed.
Print Assumptions C18_regions_then_free_clean.

(** the one atomicity promise of the interface (= C10): when the allocation
    inside addrxlat_map_set fails, either NOMEM is reported and the map is
    exactly what it was, or the allocation was not needed and the update is
    complete *)
Theorem C18_map_set_atomic : forall m a e mm,
  tiles m -> (a + e < W)%N ->
  (snd (MapModel.step m (OpSet a e mm false)) = OutSet 4 /\
   fst (MapModel.step m (OpSet a e mm false)) = m) \/
  (snd (MapModel.step m (OpSet a e mm false)) = OutSet 0 /\
   forall y, denote (fst (MapModel.step m (OpSet a e mm false))) y = set_spec (denote m) a e mm y).
Proof. exact map_set_atomic. Qed.
Print Assumptions C18_map_set_atomic.

(** sys_set_layout (libaddrxlat, sys.c) with its nested SYS_ACT_DIRECT ->
    sys_set_layout on the reverse direct map: for every layout (any regions,
    any of them with a nested direct-map layout, any pattern of "this
    addrxlat_map_set must grow the array"), started on any system (the two maps
    existing or not), under every allocation schedule: no block is left
    without an owner - whatever the call allocated belongs to the map that is
    installed in the system (so sys_cleanup releases it), and the status is
    failure exactly when an allocation failed *)
Theorem C18_sys_set_layout_unwind : forall cur dir rs s T0 L K P F,
  PSt s (mtoks cur ++ mtoks dir ++ T0) L K P F ->
  wp (sys_set_layout Head cur dir rs) (layout_post T0 L K P F) s.
Proof. exact sys_set_layout_owned. Qed.
Print Assumptions C18_sys_set_layout_unwind.

Theorem C18_sys_layout_session_clean : forall rs sch,
  let '(ok, tr, fl) := run (layout_session Head rs) sch in
  clean tr /\ (ok = false <-> fl = true).
Proof. exact layout_session_clean. Qed.
Print Assumptions C18_sys_layout_session_clean.

(** a variant that installs a new map only after all regions are set, and
    drops it when internal_map_set fails, loses it when the nested direct-map
    set-up fails (third allocation of a layout with one SYS_ACT_DIRECT region) *)
Theorem C18_sys_layout_late_install_refuted :
  exists rs n, let '(ok, tr, _) := run (layout_session Late rs) (fail_nth n) in
               ok = false /\ ~ balanced tr.
Proof. exact layout_late_witness. Qed.
Print Assumptions C18_sys_layout_late_install_refuted.

(** The pinned (unrepaired) code does not have the property - witnesses that
    the correspondence check replays on the pinned library:
    kdump_clone returns NULL with shared->lock still read-locked when a
    per-context allocation fails (defect 21) ... *)
Theorem C18_kdump_clone_pinned_lock_refuted :
  exists slots n r tr fl,
    run (kdump_clone_pinned slots false false []) (fail_nth n) = (r, tr, fl) /\
    r = None /\ ~ no_lock_held tr.
Proof. exact clone_pinned_lock_witness. Qed.
Print Assumptions C18_kdump_clone_pinned_lock_refuted.

(** ... its error path leaks the addrxlat context (fixes/40) ... *)
Theorem C18_kdump_clone_pinned_leak_refuted :
  exists n r tr fl,
    run (kdump_clone_pinned 0 true false []) (fail_nth n) = (r, tr, fl) /\
    r = None /\ ~ balanced tr.
Proof. exact clone_pinned_leak_witness. Qed.
Print Assumptions C18_kdump_clone_pinned_leak_refuted.

(** ... and kdump_new leaks the partial dictionary (defect 24) *)
Theorem C18_kdump_new_pinned_leak_refuted :
  exists nr n r tr fl,
    run (kdump_new_pinned nr []) (fail_nth n) = (r, tr, fl) /\ r = None /\ ~ balanced tr.
Proof. exact new_pinned_leak_witness. Qed.
Print Assumptions C18_kdump_new_pinned_leak_refuted.

(** open_dump on a context that may already have a file open (fixes/100): under
    every allocation schedule, and whatever the probes answer, an allocator
    failure makes the open fail, and every block alive afterwards is owned by
    the context's state (format blocks, file cache, flattened map) - so that
    kdump_free, or the next open, gives it back; no lock or pin is held *)
Theorem C18_reopen_unwind : forall st0 nfc probes sch,
  stoks st0 = [] ->
  let '(r, tr, fl) := run (open_dump true st0 nfc probes) sch in
  (fl = true -> fst r = false) /\
  exists x, replay tr = Some x /\ Permutation (live x) (stoks (snd r)) /\ locks x = [] /\ pins x = [].
Proof. exact open_dump_run. Qed.
Print Assumptions C18_reopen_unwind.

(** the same from any state: what the previous open left (including the
    remains of a failed one) is released or taken over, never lost *)
Theorem C18_reopen_unwind_from : forall st0 nfc probes s T0 L K P F,
  PSt s (stoks st0 ++ T0) L K P F ->
  wp (open_dump true st0 nfc probes) (open_post T0 L K P F) s.
Proof. exact open_dump_releases_first. Qed.
Print Assumptions C18_reopen_unwind_from.

(** non-vacuity: a concrete run that fails in the middle of the attribute
    dictionary (n = 7 of 3 + 1 + 1 + 4 + ... allocations) returns NULL with a
    clean trace, and the run without failure returns a context *)
Example C18_nonvacuous :
  (let '(r, tr, fl) := run (kdump_new 4 [false; true]) (fail_nth 7) in
   r = None /\ fl = true /\ cleanb tr = true /\ 12 <= length tr) /\
  (let '(r, tr, fl) := run (kdump_new 4 [false; true]) (fail_nth 0) in
   r <> None /\ fl = false /\ length tr = 19) /\
  (let '(r, tr, fl) := run (kdump_clone 2 true true [(1, ANode KDir true [ANode KStr true []])]) (fail_nth 12) in
   r = None /\ fl = true /\ cleanb tr = true).
Proof. vm_compute. repeat split; try discriminate; auto. Qed.
