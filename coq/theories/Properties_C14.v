(** C14 — derived views of dump metadata stay coherent with their source.
    Statements only; every proof is [exact <lemma>].

    Models: Attr/Hooks.v (page_size/page_shift hooks, version code),
    Attr/Derived.v (register attributes over the PRSTATUS blob),
    Attr/Vmcoreinfo.v (VMCOREINFO parsing into the attribute tree);
    spec: Attr/DerivedSpec.v; statement vocabulary: Attr/DerivedClaims.v.
    The models follow the library with fixes/10,11,14,50..56 applied. *)
From Coq Require Import NArith ZArith List Bool.
From KdV Require Import Base.Wrap64 Attr.AttrBase Attr.Hooks Attr.Derived Attr.Vmcoreinfo
  Attr.DerivedSpec Attr.DerivedClaims Attr.HooksProofs Attr.DerivedProofs Attr.VmcoreinfoProofs.
Import ListNotations.
Local Open Scope N_scope.

(** ** page size = 2 ^ page shift *)

(** After any sequence of sets (by the application or by internal callers) and
    clears of the two attributes with arbitrary 64-bit values, starting from a
    new context: every step either stores a valid value (then that attribute
    reads back the value) or refuses an invalid one with KDUMP_ERR_CORRUPT and
    changes nothing; and whenever both attributes are set, size = 2^shift. *)
Theorem C14_pagesize_pow2 : forall ops,
  Forall op_in_range ops -> trace_ok pstate0 ops.
Proof. exact pagesize_pow2. Qed.
Print Assumptions C14_pagesize_pow2.

(** no operation reaches an undefined shift or exhausts the recursion bound of
    the hook model: the outcome is always a status *)
Theorem C14_pagesize_no_ub : forall o s,
  op_in_range o -> pinv s -> exists st, fst (pstep o s) = St st.
Proof. exact pstep_status. Qed.
Print Assumptions C14_pagesize_no_ub.

(** the library's power-of-two test (with the zero test of fix 10) accepts
    exactly the powers of two below 2^64 *)
Theorem C14_size_test_exact : forall v, v < W -> (size_test v = true <-> valid_size v).
Proof. exact size_test_spec. Qed.
Print Assumptions C14_size_test_exact.

(** ** registers and the PRSTATUS blob *)

(** lens laws of the view, for every blob, offset, width and both byte orders:
    a write is read back (modulo the register width), it keeps the blob's size
    and every byte outside the register's window, and registers with disjoint
    windows do not see it *)
Theorem C14_reg_blob_lens : forall be off len v blob b',
  reg_write be off len v blob = Some b' ->
  reg_view be off len b' = Some (v mod 256 ^ N.of_nat len) /\
  length b' = length blob /\
  (forall j, (j < off \/ off + len <= j)%nat -> nth_error b' j = nth_error blob j) /\
  (forall off2 len2, (off2 + len2 <= off \/ off + len <= off2)%nat ->
     reg_view be off2 len2 b' = reg_view be off2 len2 blob).
Proof. exact reg_blob_lens. Qed.
Print Assumptions C14_reg_blob_lens.

(** Along every history of register reads/writes/clears, writes into the blob,
    blob resizes, replacements and clears, and byte-order changes, starting
    from a freshly opened dump (any blob, any table of 1/2/4/8-byte registers):
    every register read returns [reg_view] of the blob as it is at that moment
    (or fails if the blob is missing or too short), every register write turns
    the blob into [reg_write] of itself (or fails and leaves the blob alone),
    and the blob reads back as itself. *)
Theorem C14_reg_coherent_history : forall defs blob be ops,
  defs_ok defs -> dtrace_ok defs (dinit defs blob be) ops.
Proof. exact reg_history. Qed.
Print Assumptions C14_reg_coherent_history.

(** a derived attribute read by key, through a reference or at an iterator
    position is the same read — the view of the blob as it is now, never a
    cached number — and a write through a reference is the write by key *)
Theorem C14_derived_any_access_path : forall a defs i d r s,
  defs_ok defs -> rinv defs s ->
  nth_error defs i = Some d -> nth_error (regs s) i = Some r ->
  reg_get_via a defs i s = reg_get_via ByKey defs i s /\
  (forall v, reg_set_via a defs i v s = reg_set_via ByKey defs i v s) /\
  let '(st, v, _) := reg_get_via a defs i s in
  if g_isset r
  then match spec_view d s with
       | Some x => st = KDUMP_OK /\ v = x
       | None => st <> KDUMP_OK
       end
  else st <> KDUMP_OK.
Proof. exact derived_any_access_path. Qed.
Print Assumptions C14_derived_any_access_path.

(** a write into the blob through a pinned pointer is visible through the register *)
Theorem C14_blob_write_visible : forall defs off bs i d r s,
  defs_ok defs -> rinv defs s ->
  nth_error defs i = Some d -> nth_error (regs s) i = Some r -> g_isset r = true ->
  b_isset s = true -> (off + length bs <= length (b_data s))%nat ->
  let s1 := snd (dstep defs (BWrite off bs) s) in
  let '(st, v, _) := reg_get defs i s1 in
  match reg_view (big_endian s) (N.to_nat (d_off d)) (N.to_nat (d_len d))
                 (splice off bs (b_data s)) with
  | Some x => st = KDUMP_OK /\ v = x
  | None => st <> KDUMP_OK
  end.
Proof. exact blob_write_visible. Qed.
Print Assumptions C14_blob_write_visible.

(** ** VMCOREINFO *)

(** the rows the parser processes are the lines of the raw text *)
Theorem C14_vmcoreinfo_lines_are_split : forall text, lines_of text [] = text_lines text.
Proof. exact lines_of_text. Qed.
Print Assumptions C14_vmcoreinfo_lines_are_split.

(** Setting a raw text into a directory in any state (Linux or Xen): the text is
    accepted iff it is representable (no key starts with a dot, no key is a
    dotted prefix of another, PAGESIZE numbers are valid page sizes).  When it
    is accepted, kdump_vmcoreinfo_line returns the value of the last line with
    that key (and "no data" for other keys), kdump_vmcoreinfo_symbol and the
    typed attributes return the number on the last parsable line of that
    TYPE(name), and kdump_vmcoreinfo_raw returns the text.  When it is not, the
    call fails with a status.  Repeated keys: last wins; a missing final
    newline and an empty text need no special case.
    _partial: the property asks for agreement on *all* texts; texts whose keys
    cannot coexist as attribute paths are refused (fixes 14 and 51) instead. *)
Theorem C14_vmcoreinfo_views_agree_partial : forall linux text v g,
  pinv (g_page g) ->
  let '(o, (v', g')) := set_raw linux text (v, g) in
  if representable linux text
  then o = St KDUMP_OK /\
       (forall key, leading_dot key = false ->
          get_line key v' = match last_value key (text_kvs text) with
                            | Some x => (KDUMP_OK, x)
                            | None => (ERR_NODATA, [])
                            end) /\
       (forall name, leading_dot name = false ->
          get_symbol name v' = match typed_value s_SYMBOL name text with
                               | Some n => (KDUMP_OK, n)
                               | None => (ERR_NODATA, 0)
                               end) /\
       (forall k name, get_typed k name v' = typed_value (kind_name k) name text) /\
       get_raw v' = (KDUMP_OK, text) /\ pinv (g_page g')
  else exists st, o = St st /\ st <> KDUMP_OK.
Proof. exact set_raw_views. Qed.
Print Assumptions C14_vmcoreinfo_views_agree_partial.

(** the status variable is never returned unassigned and no undefined shift is
    reached, whatever the text *)
Theorem C14_vmcoreinfo_status_defined : forall linux text v g,
  pinv (g_page g) -> exists st, fst (set_raw linux text (v, g)) = St st.
Proof. exact set_raw_status. Qed.
Print Assumptions C14_vmcoreinfo_status_defined.

(** an empty text is accepted ... *)
Theorem C14_vmcoreinfo_empty_ok : forall linux v g,
  fst (set_raw linux [] (v, g)) = St KDUMP_OK.
Proof. exact set_raw_empty. Qed.
Print Assumptions C14_vmcoreinfo_empty_ok.

(** ... whereas the pinned tree (status variable not initialised, DESIGN item
    11) returned an undefined value *)
Theorem C14_vmcoreinfo_empty_unrepaired_refuted : forall linux v g,
  fst (set_raw_from Undef linux [] (v, g)) = Undef.
Proof. exact set_raw_unrepaired_undef. Qed.
Print Assumptions C14_vmcoreinfo_empty_unrepaired_refuted.

(** ** version code *)

(** for every release string in which each of the three numbers starts with a
    digit: "a.b.c..." gives KERNEL_VERSION(a, b, c) (sublevel saturating at 255,
    numbers saturating at 2^64-1), anything else is refused as an invalid
    version *)
Theorem C14_version_code : forall rel x,
  release_verdict rel = Some x -> version_code rel = x.
Proof. exact version_code_spec. Qed.
Print Assumptions C14_version_code.

(** ** the hypotheses are satisfiable on non-trivial instances *)

Example C14_nonvacuous_page :
  let s := pfinal [PSet KSize 4096; PClear KSize; PSet KShift 13; PSet KSize 3; PSet KShift 64]
                  pstate0 in
  a_val (p_size s) = 8192 /\ a_val (p_shift s) = 13 /\ a_isset (p_size s) = true /\ pinv s.
Proof. vm_compute. repeat split; intros; try discriminate. exists 13. split; reflexivity. Qed.

Example C14_nonvacuous_reg :
  reg_write true 2 4 305419896 [0;1;2;3;4;5;6;7] = Some [0;1;18;52;86;120;6;7] /\
  reg_view false 2 4 [0;1;18;52;86;120;6;7] = Some 2018915346.
Proof. vm_compute. split; reflexivity. Qed.

(* "OSRELEASE=5.4.0\nSYMBOL(x)=ff\nA=1\nA=2" (no final newline, a repeated key) *)
Example C14_nonvacuous_vmcoreinfo :
  let text := [79;83;82;69;76;69;65;83;69;61;53;46;52;46;48;10;
               83;89;77;66;79;76;40;120;41;61;102;102;10;65;61;49;10;65;61;50] in
  representable true text = true /\
  last_value [65] (text_kvs text) = Some [50] /\
  typed_value s_SYMBOL [120] text = Some 255 /\
  release_verdict [53;46;52;46;48] = Some (Some 328704).
Proof. vm_compute. repeat split. Qed.

(* "A=1\nA.B=2": a key nested under another key is not representable *)
Example C14_nonvacuous_clash :
  representable true [65;61;49;10;65;46;66;61;50] = false.
Proof. vm_compute. reflexivity. Qed.
