(** C14 — derived views of dump metadata stay coherent with their source.
    (statements are added as the proofs are completed) *)
From Coq Require Import NArith ZArith List Bool.
From KdV Require Import Base.Wrap64 Attr.AttrBase Attr.Hooks Attr.Derived Attr.Vmcoreinfo Attr.DerivedSpec.
Import ListNotations.
Local Open Scope N_scope.

Example C14_nonvacuous_page :
  let s := pfinal [PSet KSize 4096; PClear KSize; PSet KShift 13] pstate0 in
  a_val (p_size s) = 8192 /\ a_val (p_shift s) = 13 /\ a_isset (p_size s) = true.
Proof. vm_compute. repeat split. Qed.
