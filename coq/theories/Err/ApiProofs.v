(** The contract of a public entry point (C16): every [kdump_*] function
    starts with [clear_error(ctx)]; from then on the error string is written
    only by [set_error] ([err_vadd]).  If the function follows the discipline
    "return a failure status iff set_error was called on the way (with a
    non-empty message)", the pair (status, error string) it leaves behind
    satisfies [StatusModel.status_msg_ok] — the predicate the end-to-end
    stage of the check evaluates after every call on the real library. *)
From Coq Require Import NArith ZArith List Bool Arith Lia.
From KdV Require Import Err.ErrModel Err.ErrSpec Err.ErrProofs Err.StatusModel.
Import ListNotations.

Section Api.
Variable F : Type.
Variable vsnprintf : F -> nat -> list N * Z.
Variable failure : F.
Variable junk : nat -> N.
Variable lbuf_extra : nat.
Hypothesis lbuf_extra_ge : 1 <= lbuf_extra.
Hypothesis failure_formats : formats F vsnprintf failure failure_text.

Notation run := (run F vsnprintf failure junk lbuf_extra).
Notation matches := (matches F vsnprintf).

(** clear_error(ctx); then the set_error calls of the body, in order *)
Definition api_call (s : est) (body : list (op F)) : res est := run s (OpClear F :: body).

Definition msg_present (s : est) : bool :=
  match cur s with [] => false | _ => true end.

Definition is_add_nonempty (a : aop) : Prop :=
  match a with AAdd text _ => text <> [] | AClear => False end.

Lemma step_abs_nonempty bufsz v text ok :
  text <> [] -> fst (fst (step_abs bufsz v text ok)) <> [].
Proof.
  intro Hne. destruct v as [[t room] dyn].
  destruct (step_abs_cases bufsz t room dyn text ok) as [H | (_ & [(px & H) | (_ & H)])];
    cbn zeta in H; rewrite H; try discriminate.
  unfold chain_step. destruct t; [assumption|]. destruct text; [contradiction|discriminate].
Qed.

Lemma fold_nonempty bufsz aops : forall v,
  Forall is_add_nonempty aops -> aops <> [] \/ fst (fst v) <> [] ->
  fst (fst (fold_left (astep bufsz) aops v)) <> [].
Proof.
  induction aops as [|a aops IH]; intros v Hall Hne.
  - destruct Hne as [H|H]; [contradiction|exact H].
  - inversion Hall as [|? ? Ha Hrest]; subst. cbn [fold_left]. apply IH; [assumption|].
    right. destruct a as [text ok|]; [|contradiction]. now apply step_abs_nonempty.
Qed.

(** a successful call leaves no error behind, whatever was there before *)
Lemma api_success_no_error s :
  wf s -> exists s', api_call s [] = Ok s' /\ err_str s' = None /\ msg_present s' = false.
Proof. intros _. exists (err_clear s). repeat split. Qed.

(** a failing call leaves a non-empty message, under every allocation schedule *)
Lemma api_failure_message s body aops :
  wf s -> Forall2 matches body aops -> Forall is_add_nonempty aops -> body <> [] ->
  exists s', api_call s body = Ok s' /\ msg_present s' = true.
Proof.
  intros Hw Hm Hall Hne.
  destruct (run_ok F vsnprintf failure junk lbuf_extra lbuf_extra_ge failure_formats
                   (OpClear F :: body) s (AClear :: aops) Hw) as (s' & Hr & _ & _ & Hv).
  { constructor; [exact I|exact Hm]. }
  exists s'. split; [exact Hr|]. unfold msg_present, cur. rewrite Hv. cbn [fold_left astep].
  assert (Hn : fst (fst (fold_left (astep (length (e_buf s))) aops (@nil N, 0, false))) <> []).
  { apply fold_nonempty; [assumption|]. left. intro E. subst aops. inversion Hm. subst. contradiction. }
  destruct (fst (fst (fold_left _ aops _))); [contradiction|reflexivity].
Qed.

(** the contract the end-to-end oracle checks *)
Lemma api_contract s body aops status :
  wf s -> Forall2 matches body aops -> Forall is_add_nonempty aops ->
  kdump_doc status = true -> (status = KDUMP_OK <-> body = []) ->
  exists s', api_call s body = Ok s' /\ status_msg_ok (status, msg_present s') = true.
Proof.
  intros Hw Hm Hall Hdoc Hdisc. destruct body as [|o body].
  - destruct (api_success_no_error s Hw) as (s' & Hr & _ & Hmsg). exists s'. split; [exact Hr|].
    rewrite (proj2 Hdisc eq_refl), Hmsg. reflexivity.
  - destruct (api_failure_message s (o :: body) aops Hw Hm Hall ltac:(discriminate)) as (s' & Hr & Hmsg).
    exists s'. split; [exact Hr|]. rewrite Hmsg. unfold status_msg_ok. cbn [fst snd]. rewrite Hdoc.
    destruct (Z.eqb_spec status KDUMP_OK) as [E|_]; [|reflexivity].
    apply Hdisc in E. discriminate.
Qed.

(** the same for libaddrxlat's enumeration *)
Lemma api_contract_ax s body aops status :
  wf s -> Forall2 matches body aops -> Forall is_add_nonempty aops ->
  addrxlat_doc status = true -> (status = ADDRXLAT_OK <-> body = []) ->
  exists s', api_call s body = Ok s' /\ ax_status_msg_ok (status, msg_present s') = true.
Proof.
  intros Hw Hm Hall Hdoc Hdisc. destruct body as [|o body].
  - destruct (api_success_no_error s Hw) as (s' & Hr & _ & Hmsg). exists s'. split; [exact Hr|].
    rewrite (proj2 Hdisc eq_refl), Hmsg. reflexivity.
  - destruct (api_failure_message s (o :: body) aops Hw Hm Hall ltac:(discriminate)) as (s' & Hr & Hmsg).
    exists s'. split; [exact Hr|]. rewrite Hmsg. unfold ax_status_msg_ok. cbn [fst snd]. rewrite Hdoc.
    destruct (Z.eqb_spec status ADDRXLAT_OK) as [E|_]; [|reflexivity].
    apply Hdisc in E. discriminate.
Qed.

(** what an entry point that clears first leaves behind does not depend on
    what was there before: two contexts with the same buffer size end with the
    same text (so nothing of an old message can survive or be chained) *)
Lemma api_call_forgets s1 s2 body aops :
  wf s1 -> wf s2 -> length (e_buf s1) = length (e_buf s2) -> Forall2 matches body aops ->
  exists s1' s2', api_call s1 body = Ok s1' /\ api_call s2 body = Ok s2' /\ cur s1' = cur s2'.
Proof.
  intros Hw1 Hw2 Hl Hm.
  destruct (run_ok F vsnprintf failure junk lbuf_extra lbuf_extra_ge failure_formats
                   (OpClear F :: body) s1 (AClear :: aops) Hw1) as (s1' & Hr1 & _ & _ & Hv1).
  { constructor; [exact I|exact Hm]. }
  destruct (run_ok F vsnprintf failure junk lbuf_extra lbuf_extra_ge failure_formats
                   (OpClear F :: body) s2 (AClear :: aops) Hw2) as (s2' & Hr2 & _ & _ & Hv2).
  { constructor; [exact I|exact Hm]. }
  exists s1', s2'. split; [exact Hr1|]. split; [exact Hr2|].
  unfold cur. rewrite Hv1, Hv2, Hl. reflexivity.
Qed.

End Api.

Lemma ax_entries_start_clear :
  Forall (fun e => e = AxCtxErr \/ ax_starts_clear 2 e = true) ax_entries.
Proof. repeat (constructor; [first [now right | now left]|]). constructor. Qed.
