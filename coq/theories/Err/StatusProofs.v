(** Proofs about the status plumbing (C16). *)
From Coq Require Import ZArith List Bool Lia.
From KdV Require Import Err.StatusModel.
Import ListNotations.
Local Open Scope Z_scope.

Lemma kdump_doc_iff s : kdump_doc s = true <-> 0 <= s <= 9.
Proof. unfold kdump_doc. rewrite andb_true_iff, !Z.leb_le. tauto. Qed.

Lemma small_cases s : 0 <= s <= 9 ->
  s = 0 \/ s = 1 \/ s = 2 \/ s = 3 \/ s = 4 \/ s = 5 \/ s = 6 \/ s = 7 \/ s = 8 \/ s = 9.
Proof. lia. Qed.

(** every documented kdump status maps to a documented addrxlat status
    (success, no-data, or a custom code), with a message iff it is a failure *)
Lemma k2a_doc s : kdump_doc s = true ->
  addrxlat_doc (fst (kdump2addrxlat s)) = true /\
  snd (kdump2addrxlat s) = negb (fst (kdump2addrxlat s) =? ADDRXLAT_OK).
Proof.
  intro H. apply kdump_doc_iff in H. apply small_cases in H.
  repeat (destruct H as [-> | H]; [vm_compute; auto|]). subst; vm_compute; auto.
Qed.

(** every library-defined addrxlat status, and every custom code that
    [kdump2addrxlat] can produce, maps to a documented kdump status *)
Lemma a2k_doc s : 0 <= s <= 6 \/ -9 <= s <= -1 ->
  status_msg_ok (addrxlat2kdump s) = true.
Proof.
  intro H.
  assert (Hc : s = -9 \/ s = -8 \/ s = -7 \/ s = -6 \/ s = -5 \/ s = -4 \/ s = -3 \/ s = -2 \/
               s = -1 \/ s = 0 \/ s = 1 \/ s = 2 \/ s = 3 \/ s = 4 \/ s = 5 \/ s = 6) by lia.
  clear H. repeat (destruct Hc as [-> | Hc]; [vm_compute; auto|]). subst; vm_compute; auto.
Qed.

(** translating a kdump status down and up again gives it back *)
Lemma roundtrip s : kdump_doc s = true ->
  fst (addrxlat2kdump (fst (kdump2addrxlat s))) = s.
Proof.
  intro H. apply kdump_doc_iff in H. apply small_cases in H.
  repeat (destruct H as [-> | H]; [vm_compute; auto|]). subst; vm_compute; auto.
Qed.

(** the probe loop never lets the internal marker out *)
Lemma probe_never_noprobe probes : fst (probe_loop probes) <> KDUMP_NOPROBE.
Proof.
  induction probes as [|[ret msg] rest IH]; simpl; [discriminate|].
  destruct (Z.eqb_spec ret KDUMP_OK) as [->|Hne]; [discriminate|].
  destruct (Z.eqb_spec ret KDUMP_NOPROBE) as [->|Hnp]; simpl; auto.
Qed.

Definition probe_wellbehaved (p : Z * bool) : Prop :=
  (kdump_doc (fst p) = true \/ fst p = KDUMP_NOPROBE) /\
  snd p = negb (fst p =? KDUMP_OK).

Lemma probe_loop_ok probes :
  Forall probe_wellbehaved probes -> status_msg_ok (probe_loop probes) = true.
Proof.
  induction 1 as [|[ret msg] rest [Hdoc Hmsg] _ IH]; simpl; [reflexivity|].
  simpl in Hdoc, Hmsg.
  destruct (Z.eqb_spec ret KDUMP_OK) as [->|Hne].
  - subst msg. reflexivity.
  - destruct (Z.eqb_spec ret KDUMP_NOPROBE) as [->|Hnp]; simpl; [exact IH|].
    destruct Hdoc as [Hdoc|]; [|contradiction].
    unfold status_msg_ok. simpl. rewrite Hdoc, Hmsg.
    destruct (Z.eqb_spec ret KDUMP_OK); [contradiction|reflexivity].
Qed.

(** the repaired hook always returns an assigned, documented status *)
Lemma raw_rows_st rows : forall z,
  kdump_doc z = true -> Forall (fun r => kdump_doc r = true) rows ->
  exists z', raw_rows (St z) rows = St z' /\ kdump_doc z' = true.
Proof.
  induction rows as [|r rows IH]; intros z Hz Hall; simpl.
  - exists z. auto.
  - inversion Hall; subst. destruct (r =? KDUMP_OK); [now apply IH|]. exists r. auto.
Qed.

Lemma raw_post_hook_repaired rows :
  Forall (fun r => kdump_doc r = true) rows ->
  exists z, raw_post_hook true rows = St z /\ kdump_doc z = true.
Proof. intro H. unfold raw_post_hook. now apply raw_rows_st. Qed.

(** an empty blob is success *)
Lemma raw_post_hook_empty : raw_post_hook true [] = St KDUMP_OK.
Proof. reflexivity. Qed.

(** defect 11: the pinned code returns a never-assigned variable for an empty blob *)
Lemma raw_post_hook_pinned_undef : raw_post_hook false [] = Undef.
Proof. reflexivity. Qed.

Definition callee_ok (st : Z) : Prop := kdump_doc st = true.

Lemma init_cpu_blob_attr_repaired cpu_dir_st blob_ok attr_ok set_st :
  callee_ok cpu_dir_st -> callee_ok set_st ->
  let r := init_cpu_blob_attr true cpu_dir_st blob_ok attr_ok set_st in
  status_msg_ok r = true /\
  ((cpu_dir_st <> KDUMP_OK \/ blob_ok = false \/ attr_ok = false \/ set_st <> KDUMP_OK)
   -> fst r <> KDUMP_OK).
Proof.
  unfold callee_ok, init_cpu_blob_attr, status_msg_ok. intros H1 H2. cbn zeta.
  destruct (Z.eqb_spec cpu_dir_st KDUMP_OK) as [->|Hn1]; simpl.
  - destruct blob_ok; simpl.
    + destruct attr_ok; simpl.
      * destruct (Z.eqb_spec set_st KDUMP_OK) as [->|Hn2]; simpl.
        -- split; [reflexivity|]. intros [H|[H|[H|H]]]; congruence.
        -- rewrite H2. destruct (Z.eqb_spec set_st KDUMP_OK); [contradiction|].
           split; [reflexivity|auto].
      * split; [reflexivity|]. intros _. discriminate.
    + split; [reflexivity|]. intros _. discriminate.
  - rewrite H1. destruct (Z.eqb_spec cpu_dir_st KDUMP_OK); [contradiction|].
    split; [reflexivity|auto].
Qed.

(** defect 23: the pinned code reports a failed attribute allocation as success *)
Lemma init_cpu_blob_attr_pinned_silent :
  init_cpu_blob_attr false KDUMP_OK true false KDUMP_OK = (KDUMP_OK, false).
Proof. reflexivity. Qed.

(** the noerr flag is restored by every scan, hence by every sequence of scans *)
Lemma scan_mapped_restores flag ls ts : snd (scan_mapped false flag ls ts) = flag.
Proof. unfold scan_mapped. cbn [negb]. destruct (negb (ls =? ADDRXLAT_OK)); reflexivity. Qed.

Lemma scans_restore l : forall flag, scans false flag l = flag.
Proof.
  induction l as [|[ls ts] l IH]; intro flag; [reflexivity|].
  cbn [scans]. rewrite scan_mapped_restores. apply IH.
Qed.

(** so a later non-present entry is reported with a message *)
Lemma not_present_has_message l :
  ax_status_msg_ok (step_not_present (scans false false l)) = true.
Proof. rewrite scans_restore. reflexivity. Qed.

(** the seeded variant: one scan whose launch fails leaves the flag set, and
    the next non-present entry has status NOTPRESENT without a message *)
Lemma early_set_variant_loses_message :
  scans true false [(ADDRXLAT_ERR_INVALID, ADDRXLAT_OK)] = true /\
  ax_status_msg_ok (step_not_present (scans true false [(ADDRXLAT_ERR_INVALID, ADDRXLAT_OK)])) = false.
Proof. split; reflexivity. Qed.

(** after fixes/74 every status of the addrxlat enumeration — library-defined
    or custom, whoever produced it — maps to a documented kdump status *)
Lemma a2k_doc_all s : addrxlat_doc s = true -> status_msg_ok (addrxlat2kdump s) = true.
Proof.
  unfold addrxlat_doc. rewrite orb_true_iff, !andb_true_iff, !Z.leb_le. intro H.
  unfold addrxlat2kdump, addrxlat2kdump_gen, status_msg_ok, kdump_doc.
  destruct (Z.eqb_spec s ADDRXLAT_OK) as [->|Hne]; [reflexivity|]. cbn [negb orb fst snd].
  destruct (Z.ltb_spec s 0) as [Hneg|Hpos]; cbn [andb].
  - destruct (Z.leb_spec (- KDUMP_ERR_ADDRXLAT) s) as [Hb|Hb].
    + assert (E : u32 (- s) = - s).
      { unfold u32. apply Z.mod_small. unfold KDUMP_ERR_ADDRXLAT in Hb. lia. }
      rewrite E. unfold KDUMP_ERR_ADDRXLAT in Hb.
      assert (Hd : (0 <=? - s) && (- s <=? 9) = true) by (rewrite andb_true_iff, !Z.leb_le; lia).
      rewrite Hd. destruct (Z.eqb_spec (- s) KDUMP_OK) as [E0|_]; [unfold KDUMP_OK in E0; lia|reflexivity].
    + destruct (Z.eqb_spec s ADDRXLAT_ERR_NODATA) as [->|_]; [reflexivity|].
      destruct (Z.eqb_spec s ADDRXLAT_ERR_NOMEM) as [->|_]; reflexivity.
  - destruct (Z.eqb_spec s ADDRXLAT_ERR_NODATA) as [->|_]; [reflexivity|].
    destruct (Z.eqb_spec s ADDRXLAT_ERR_NOMEM) as [->|_]; reflexivity.
Qed.

(** the unbounded mapping lets a foreign custom status out as an undocumented one *)
Lemma a2k_unbounded_undocumented :
  addrxlat_doc (-100) = true /\ kdump_doc (fst (addrxlat2kdump_gen false (-100))) = false.
Proof. split; reflexivity. Qed.

(** fixes/108: running out of memory inside the translation is a system error,
    not "the translation is unusable" (which some callers tolerate) *)
Lemma a2k_nomem_is_system :
  addrxlat2kdump ADDRXLAT_ERR_NOMEM = (KDUMP_ERR_SYSTEM, true) /\
  fst (addrxlat2kdump_gen true ADDRXLAT_ERR_NOMEM) <> KDUMP_ERR_ADDRXLAT.
Proof. split; [reflexivity | vm_compute; discriminate]. Qed.
