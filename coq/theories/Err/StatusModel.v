(** Model of the status plumbing (C16):
    - [addrxlat2kdump] / [kdump2addrxlat] (src/kdumpfile/util.c),
    - the probe loop of [open_dump] (src/kdumpfile/open.c) as a fold over the
      probe results,
    - [vmcoreinfo_raw_post_hook] (src/kdumpfile/vmcoreinfo.c) as a fold over the
      per-row results, with "returned without ever being assigned" explicit,
    - [init_cpu_blob_attr] (src/kdumpfile/util.c).

    Statuses are [Z].  [kdump_status] has no negative enumerator, so gcc
    gives it the type [unsigned int]; [addrxlat_status] has
    [ADDRXLAT_ERR_CUSTOM_BASE = -1] and is [int].  The conversions between
    the two are written out ([u32], [s32]).  A status travels with a flag
    "an error message was added on the way". *)
From Coq Require Import ZArith List Bool.
Import ListNotations.
Local Open Scope Z_scope.

Definition KDUMP_OK := 0.
Definition KDUMP_ERR_SYSTEM := 1.
Definition KDUMP_ERR_NOTIMPL := 2.
Definition KDUMP_ERR_NODATA := 3.
Definition KDUMP_ERR_CORRUPT := 4.
Definition KDUMP_ERR_INVALID := 5.
Definition KDUMP_ERR_NOKEY := 6.
Definition KDUMP_ERR_EOF := 7.
Definition KDUMP_ERR_BUSY := 8.
Definition KDUMP_ERR_ADDRXLAT := 9.
Definition KDUMP_NOPROBE := 4294967295.        (* (kdump_status)-1 *)

Definition ADDRXLAT_OK := 0.
Definition ADDRXLAT_ERR_NOTIMPL := 1.
Definition ADDRXLAT_ERR_NOTPRESENT := 2.
Definition ADDRXLAT_ERR_INVALID := 3.
Definition ADDRXLAT_ERR_NOMEM := 4.
Definition ADDRXLAT_ERR_NODATA := 5.
Definition ADDRXLAT_ERR_NOMETH := 6.
Definition ADDRXLAT_ERR_CUSTOM_BASE := -1.

Definition u32 (x : Z) : Z := x mod 4294967296.
Definition s32 (x : Z) : Z := let y := u32 x in if y <? 2147483648 then y else y - 4294967296.

(** documented members of the two enumerations *)
Definition kdump_doc (s : Z) : bool := (0 <=? s) && (s <=? 9).
Definition addrxlat_doc (s : Z) : bool :=
  ((0 <=? s) && (s <=? 6)) || ((-2147483648 <=? s) && (s <=? ADDRXLAT_ERR_CUSTOM_BASE)).

(** if (status == ADDRXLAT_OK) return KDUMP_OK;
    if (status < 0) ret = -status;
    else if (status == ADDRXLAT_ERR_NODATA) ret = KDUMP_ERR_NODATA;
    else if (status == ADDRXLAT_ERR_NOMEM) ret = KDUMP_ERR_SYSTEM;      (fixes/108)
    else ret = KDUMP_ERR_ADDRXLAT;
    set_error(ctx, ret, "%s", ...); return ret;          (status flag: message added) *)
Definition addrxlat2kdump_gen (bounded : bool) (status : Z) : Z * bool :=
  if status =? ADDRXLAT_OK then (KDUMP_OK, false)
  else
    let ret := if (status <? 0) && (negb bounded || (- KDUMP_ERR_ADDRXLAT <=? status))
               then u32 (- status)
               else if status =? ADDRXLAT_ERR_NODATA then KDUMP_ERR_NODATA
               else if status =? ADDRXLAT_ERR_NOMEM then KDUMP_ERR_SYSTEM
               else KDUMP_ERR_ADDRXLAT in
    (ret, true).

(** [bounded = true]: after fixes/74-addrxlat2kdump-foreign-custom-status.patch a
    negative (custom) status is mapped back to a kdump status only if it is
    one that kdump2addrxlat can have produced (-1 .. -KDUMP_ERR_ADDRXLAT); any
    other custom code of an application callback becomes KDUMP_ERR_ADDRXLAT.
    Before it ([bounded = false]) -100 became the undocumented status 100. *)
Definition addrxlat2kdump := addrxlat2kdump_gen true.

(** set_error()/kdump_err(): "if (status == KDUMP_ERR_SYSTEM && !err_str(&ctx->err))
    err_add(&ctx->err, "%s", strerror(errno));" — a system-class status arriving on an empty
    chain gets the text of errno as the innermost message before the new message is added.
    [errtxt] is strerror(errno); the result is the chain the new message is prepended to. *)
Definition sys_innermost {A : Type} (status : Z) (old errtxt : list A) : list A :=
  match old with
  | [] => if status =? KDUMP_ERR_SYSTEM then errtxt else []
  | _ :: _ => old
  end.

(** if (status == KDUMP_OK) return ADDRXLAT_OK;
    if (status == KDUMP_ERR_NODATA) ret = ADDRXLAT_ERR_NODATA; else ret = -status;
    addrxlat_ctx_err(ctx->xlatctx, ret, "%s", ...); return ret; *)
Definition kdump2addrxlat (status : Z) : Z * bool :=
  if status =? KDUMP_OK then (ADDRXLAT_OK, false)
  else
    let ret := if status =? KDUMP_ERR_NODATA then ADDRXLAT_ERR_NODATA
               else s32 (- status) in
    (ret, true).

(** for (i = 0; i < ARRAY_SIZE(formats); ++i) {
        ret = probe(ctx);
        if (ret == KDUMP_OK) return finish_open_dump(ctx);
        if (ret != KDUMP_NOPROBE) return ret;
        ...; clear_error(ctx);
    }
    return set_error(ctx, KDUMP_ERR_NOTIMPL, "Unknown file format");

    A probe result is (status, the probe left an error message). *)
Fixpoint probe_loop (probes : list (Z * bool)) : Z * bool :=
  match probes with
  | [] => (KDUMP_ERR_NOTIMPL, true)
  | (ret, msg) :: rest =>
      if ret =? KDUMP_OK then (KDUMP_OK, msg)
      else if negb (ret =? KDUMP_NOPROBE) then (ret, msg)
      else probe_loop rest
  end.

(** a status variable that may never have been assigned *)
Inductive sres := Undef | St (s : Z).

(** kdump_status res;            (pinned tree: no initialiser; repaired: = KDUMP_OK)
    while (p < endp) { ...; res = add_parsed_row(...); if (res != KDUMP_OK) break; ... }
    return res;
    [rows] = the result that [add_parsed_row] gives for each line of the blob *)
Fixpoint raw_rows (res : sres) (rows : list Z) : sres :=
  match rows with
  | [] => res
  | r :: rest => if r =? KDUMP_OK then raw_rows (St r) rest else St r
  end.

Definition raw_post_hook (repaired : bool) (rows : list Z) : sres :=
  raw_rows (if repaired then St KDUMP_OK else Undef) rows.

(** status = cpu_dir(...);          if (status != KDUMP_OK) return status;
    val.blob = internal_blob_new_dup(); if (!val.blob) return set_error(ctx, KDUMP_ERR_SYSTEM, ...);
    attr = new_attr(...);
    if (!attr) return set_error(ctx, status, ...);   (pinned: status == KDUMP_OK here;
                                                      repaired: KDUMP_ERR_SYSTEM)
    status = set_attr(...);         if (status != KDUMP_OK) return set_error(ctx, status, ...);
    return status;
    [cpu_dir_st], [set_st]: results of the two callees (each leaves a message iff it fails).
    In the pinned tree a failed [new_attr] is therefore reported as success, silently. *)
Definition init_cpu_blob_attr (repaired : bool) (cpu_dir_st : Z) (blob_ok attr_ok : bool)
           (set_st : Z) : Z * bool :=
  let status := cpu_dir_st in
  if negb (status =? KDUMP_OK) then (status, true)
  else if negb blob_ok then (KDUMP_ERR_SYSTEM, true)
  else if negb attr_ok then
    (* set_error() adds its message only when the status is not KDUMP_OK *)
    let st := if repaired then KDUMP_ERR_SYSTEM else status in (st, negb (st =? KDUMP_OK))
  else
    let status := set_st in
    if negb (status =? KDUMP_OK) then (status, true) else (status, false).

(** the observable contract of one API return: a documented status, and an
    error message iff the status is not success *)
Definition status_msg_ok (r : Z * bool) : bool :=
  kdump_doc (fst r) && Bool.eqb (negb (fst r =? KDUMP_OK)) (snd r).

(** the same contract for libaddrxlat's own entry points *)
Definition ax_status_msg_ok (r : Z * bool) : bool :=
  addrxlat_doc (fst r) && Bool.eqb (negb (fst r =? ADDRXLAT_OK)) (snd r).

(** the public libaddrxlat functions that return a status and work on a
    context, and how each of them clears the context's error string
    (transcribed from src/addrxlat/step.c and sys.c; the check scans the
    sources and compares):
      [ClearsFirst]: clear_error() before anything that can return;
      [ClearsVia e]: starts by handing over to entry point [e];
      [SetsOnly]:    addrxlat_ctx_err, the public set_error (never clears). *)
Inductive ax_entry :=
| AxLaunch | AxStep | AxWalk | AxSysOsInit | AxOp | AxFulladdrConv | AxCtxErr.

Inductive ax_clearing := ClearsFirst | ClearsVia (e : ax_entry) | SetsOnly.

Definition ax_clears (e : ax_entry) : ax_clearing :=
  match e with
  | AxLaunch => ClearsFirst        (* addrxlat_launch: clear_error(step->ctx); *)
  | AxStep => ClearsFirst          (* addrxlat_step:   clear_error(step->ctx); *)
  | AxWalk => ClearsFirst          (* addrxlat_walk:   clear_error(step->ctx); *)
  | AxSysOsInit => ClearsFirst     (* addrxlat_sys_os_init: clear_error(ctx); *)
  | AxOp => ClearsFirst            (* addrxlat_op:     clear_error(ctl->ctx); *)
  | AxFulladdrConv => ClearsVia AxOp   (* return internal_op(&opctl, faddr); *)
  | AxCtxErr => SetsOnly
  end.

Definition ax_entries : list ax_entry :=
  [AxLaunch; AxStep; AxWalk; AxSysOsInit; AxOp; AxFulladdrConv; AxCtxErr].

(** does a call of this entry point start from a cleared error string? *)
Fixpoint ax_starts_clear (fuel : nat) (e : ax_entry) : bool :=
  match ax_clears e with
  | ClearsFirst => true
  | SetsOnly => false
  | ClearsVia e' => match fuel with O => false | S f => ax_starts_clear f e' end
  end.

(** ** The context's [noerr.notpresent] flag

    While it is set, the page-table step functions return
    ADDRXLAT_ERR_NOTPRESENT without recording a message.  It is switched on
    only by [lowest_mapped] / [highest_mapped] (src/addrxlat/step.c) around
    their table scan:
        status = internal_launch(step, *addr);
        if (status != ADDRXLAT_OK) return status;
        savednoerr = ctx->noerr.notpresent; ctx->noerr.notpresent = 1;
        status = ..._mapped_tbl(step, addr, limit);
        ctx->noerr.notpresent = savednoerr;
        return status;
    [early_set = true] is the variant that sets the flag before the launch
    (seeded as C16-c1); [flag] is the flag at entry, the result is the status
    and the flag at return. *)
Definition scan_mapped (early_set : bool) (flag : bool) (launch_st tbl_st : Z) : Z * bool :=
  if early_set then
    let saved := flag in
    if negb (launch_st =? ADDRXLAT_OK) then (launch_st, true)      (* returns with the flag still set *)
    else (tbl_st, saved)
  else
    if negb (launch_st =? ADDRXLAT_OK) then (launch_st, flag)
    else let saved := flag in (tbl_st, saved).

(** any sequence of scans (what an entry point such as addrxlat_sys_os_init performs) *)
Fixpoint scans (early_set : bool) (flag : bool) (l : list (Z * Z)) : bool :=
  match l with
  | [] => flag
  | (ls, ts) :: r => scans early_set (snd (scan_mapped early_set flag ls ts)) r
  end.

(** a page-table step that meets a non-present entry: status and "a message was recorded" *)
Definition step_not_present (flag : bool) : Z * bool := (ADDRXLAT_ERR_NOTPRESENT, negb flag).
