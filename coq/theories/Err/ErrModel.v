(** Model of src/errmsg.h: [err_init], [err_clear], [err_str], [err_vadd].

    Memory is explicit: the inline buffer [buf[bufsz]] (the flexible array at
    the end of [kdump_errmsg_t]), the optional heap block [dyn], and the
    pointer [str] as (region, offset).  Bytes are [N]; offsets and lengths are
    [nat] (list positions; [int]/[size_t] overflow is outside the model, see
    design.d/C16.md).  Every byte access is bounds-checked: an access outside
    the object gives the outcome [Fault (OOB_read r i)] / [Fault (OOB_write r
    i)] ([i] = size of the object, i.e. the first index that does not exist),
    pointer arithmetic below the start of an object gives [PtrUnder], and a
    [memmove] from the block that [realloc] has just released gives [Stale].

    [realloc] takes its answer from the caller ([alloc_ok]); the new block
    keeps [min old new] bytes and the rest is arbitrary ([junk]).  The VLA
    [lbuf] of the fallback path starts as arbitrary bytes too.

    [vsnprintf] is a section variable ([vsnprintf f size] = bytes stored at
    the destination, return value); ErrProofs assumes C99 behaviour
    ([c99] below).  [lbuf_extra] is the number of bytes by which [lbuf] is
    larger than [bufsz]: 0 in the pinned tree, [sizeof(delim)] = 2 after
    fixes/13-errmsg-lbuf-overread.patch. *)
From Coq Require Import NArith ZArith List Bool Arith.
Import ListNotations.

Inductive region := RBuf | RDyn | RLbuf.

Inductive fault :=
| OOB_read (r : region) (i : nat)
| OOB_write (r : region) (i : nat)
| PtrUnder (r : region)
| Stale.

Inductive res (A : Type) := Ok (a : A) | Fault (f : fault).
Arguments Ok {A}. Arguments Fault {A}.

Record est := { e_buf : list N; e_dyn : option (list N); e_str : option (region * nat) }.

(** bounds-checked block read / write *)
Definition rd (m : list N) (off len : nat) : option (list N) :=
  if off + len <=? length m then Some (firstn len (skipn off m)) else None.

Definition wr (m : list N) (off : nat) (bs : list N) : option (list N) :=
  if off + length bs <=? length m
  then Some (firstn off m ++ bs ++ skipn (off + length bs) m) else None.

(** the C string that starts at the head of [m]: bytes before the first NUL;
    [None] when the object ends before a NUL is met *)
Fixpoint cstr (m : list N) : option (list N) :=
  match m with
  | [] => None
  | b :: m' => if (b =? 0)%N then Some []
               else match cstr m' with Some t => Some (b :: t) | None => None end
  end.

Definition cstr_at (m : list N) (off : nat) : option (list N) := cstr (skipn off m).

(** checked pointer subtraction [p - k] inside an object *)
Definition bsub (a k : nat) : option nat := if k <=? a then Some (a - k) else None.

Definition mem (s : est) (r : region) : option (list N) :=
  match r with RBuf => Some (e_buf s) | RDyn => e_dyn s | RLbuf => None end.

Definition set_mem (s : est) (r : region) (m : list N) : est :=
  match r with
  | RBuf => {| e_buf := m; e_dyn := e_dyn s; e_str := e_str s |}
  | _ => {| e_buf := e_buf s; e_dyn := Some m; e_str := e_str s |}
  end.

Definition err_init (buf0 : list N) : est :=
  {| e_buf := buf0; e_dyn := None; e_str := None |}.

Definition err_clear (s : est) : est :=
  {| e_buf := e_buf s; e_dyn := e_dyn s; e_str := None |}.

(** [err_str]: [None] = NULL pointer; [Some None] = pointer to something that
    is not NUL-terminated inside its object *)
Definition err_str (s : est) : option (option (list N)) :=
  match e_str s with
  | None => None
  | Some (r, off) =>
      Some (match mem s r with Some m => cstr_at m off | None => None end)
  end.

(** C99 [vsnprintf] of a formatted text without NUL bytes *)
Definition c99 (text : list N) (size : nat) : list N * Z :=
  (match size with O => [] | S k => firstn k text ++ [0%N] end, Z.of_nat (length text)).

Definition ch_lt : N := 60.   (* '<' *)
Definition ch_gt : N := 62.   (* '>' *)
Definition delim : list N := [58; 32]%N.   (* ": " *)
Definition failure_text : list N :=
  [40;98;97;100;32;102;111;114;109;97;116;32;115;116;114;105;110;103;41]%N.
  (* "(bad format string)" *)

Section ErrVadd.
Variable F : Type.
Variable vsnprintf : F -> nat -> list N * Z.
Variable failure : F.
Variable junk : nat -> N.
Variable lbuf_extra : nat.

Definition junkblk (n : nat) : list N := map junk (seq 0 n).

(** "Add delimiter (or its part) if needed" and [err->str = msg - msglen] *)
Definition vadd_fin (s : est) (r : region) (off msglen remain dlen : nat) : res est :=
  match mem s r with
  | None => Fault Stale
  | Some m =>
      let wdel :=
        if dlen =? 0 then Ok m
        else
          let remain := if dlen <? remain then dlen else remain in
          match bsub off remain with
          | None => Fault (PtrUnder r)
          | Some p =>
              match wr m p (skipn (2 - remain) delim) with
              | None => Fault (OOB_write r (length m))
              | Some m' => Ok m'
              end
          end in
      match wdel with
      | Fault f => Fault f
      | Ok m' =>
          match bsub off msglen with
          | None => Fault (PtrUnder r)
          | Some p =>
              let s' := set_mem s r m' in
              Ok {| e_buf := e_buf s'; e_dyn := e_dyn s'; e_str := Some (r, p) |}
          end
      end
  end.

(** everything after "Calculate required and already allocated space";
    [msglen0] is the length returned by the first [vsnprintf], [msg] = (r, off) *)
Definition vadd_body (s : est) (f : F) (alloc_ok : bool)
           (msglen0 : nat) (r : region) (off remain dlen : nat) : res est :=
  let bufsz := length (e_buf s) in
  let msglen := msglen0 + dlen in
  match mem s r with
  | None => Fault Stale
  | Some m =>
    if remain <? msglen then
      (* size_t curlen = strlen(msg); *)
      match cstr_at m off with
      | None => Fault (OOB_read r (length m))
      | Some cur =>
        let curlen := length cur in
        let newsz := 1 + curlen + msglen + 1 in
        if alloc_ok then
          (* newbuf = realloc(err->dyn, newsz) *)
          let newbuf := match e_dyn s with
                        | None => junkblk newsz
                        | Some d => firstn newsz d ++ junkblk (newsz - length d)
                        end in
          (* if (err->dyn <= msg && msg <= err->dyn + 1) msg += newbuf - err->dyn; *)
          let src := match r with
                     | RDyn => if off <=? 1 then Some newbuf else None
                     | _ => Some m
                     end in
          match src with
          | None => Fault Stale
          | Some srcm =>
            (* memmove(newbuf + msglen + 1, msg, curlen + 1); *)
            match rd srcm off (curlen + 1) with
            | None => Fault (OOB_read r (length srcm))
            | Some old =>
              match wr newbuf (msglen + 1) old with
              | None => Fault (OOB_write RDyn (length newbuf))
              | Some nb1 =>
                (* vsnprintf(newbuf + 1, msglen + 1, msgfmt, ap); *)
                match wr nb1 1 (fst (vsnprintf f (msglen + 1))) with
                | None => Fault (OOB_write RDyn (length nb1))
                | Some nb2 =>
                  vadd_fin {| e_buf := e_buf s; e_dyn := Some nb2; e_str := e_str s |}
                           RDyn (msglen + 1) msglen msglen dlen
                end
              end
            end
          end
        else if negb (remain =? 0) then
          (* char lbuf[err->bufsz (+ sizeof(delim))]; vsnprintf(lbuf, err->bufsz, ...) *)
          let lb0 := junkblk (bufsz + lbuf_extra) in
          match wr lb0 0 (fst (vsnprintf f bufsz)) with
          | None => Fault (OOB_write RLbuf (length lb0))
          | Some lb1 =>
            let cut := bufsz <=? msglen - dlen in
            let lb2o := if cut then
                          match bsub bufsz 2 with
                          | None => None
                          | Some p => wr lb1 p [ch_gt]
                          end
                        else Some lb1 in
            match lb2o with
            | None => Fault (OOB_write RLbuf (length lb1))
            | Some lb2 =>
              let msglen := if cut then bufsz - 1 + dlen else msglen in
              (* memcpy(msg - remain, lbuf + msglen - remain, remain); *)
              match bsub msglen remain with
              | None => Fault (PtrUnder RLbuf)
              | Some q =>
                match rd lb2 q remain with
                | None => Fault (OOB_read RLbuf (length lb2))
                | Some chunk =>
                  match bsub off remain with
                  | None => Fault (PtrUnder r)
                  | Some p =>
                    match wr m p chunk with
                    | None => Fault (OOB_write r (length m))
                    | Some m1 =>
                      (* *(msg - remain) = '<'; *)
                      match wr m1 p [ch_lt] with
                      | None => Fault (OOB_write r (length m1))
                      | Some m2 => vadd_fin (set_mem s r m2) r off remain (remain - 1) dlen
                      end
                    end
                  end
                end
              end
            end
          end
        else
          (* msglen = 0; *msg = '<'; *)
          match wr m off [ch_lt] with
          | None => Fault (OOB_write r (length m))
          | Some m1 => vadd_fin (set_mem s r m1) r off 0 remain dlen
          end
      end
    else
      (* vsnprintf(msg - msglen, msglen + 1, msgfmt, ap); *)
      match bsub off msglen with
      | None => Fault (PtrUnder r)
      | Some p =>
        match wr m p (fst (vsnprintf f (msglen + 1))) with
        | None => Fault (OOB_write r (length m))
        | Some m1 => vadd_fin (set_mem s r m1) r off msglen remain dlen
        end
      end
  end.

Definition err_vadd (s : est) (f0 : F) (alloc_ok : bool) : res est :=
  let bufsz := length (e_buf s) in
  (* msglen = vsnprintf(NULL, 0, msgfmt, aq); if (msglen < 0) { ... } *)
  let r0 := snd (vsnprintf f0 0) in
  let f := if (r0 <? 0)%Z then failure else f0 in
  let msglen0 := if (r0 <? 0)%Z then 19 else Z.to_nat r0 in
  (* msg = err->str; if (!msg || !*msg) { restart at the end of buf } else { ... } *)
  let fresh :=
    match bsub bufsz 1 with
    | None => Fault (PtrUnder RBuf)
    | Some p =>
      match wr (e_buf s) p [0%N] with
      | None => Fault (OOB_write RBuf bufsz)
      | Some b1 =>
          vadd_body {| e_buf := b1; e_dyn := e_dyn s; e_str := e_str s |}
                    f alloc_ok msglen0 RBuf p p 0
      end
    end in
  match e_str s with
  | None => fresh
  | Some (r, off) =>
      match mem s r with
      | None => Fault Stale
      | Some m =>
          match rd m off 1 with
          | Some [b] =>
              if (b =? 0)%N then fresh
              else
                (* remain = msg - err->buf; if (remain >= err->bufsz) remain = msg - err->dyn; *)
                vadd_body s f alloc_ok msglen0 r off off 2
          | _ => Fault (OOB_read r (length m))
          end
      end
  end.

Inductive op := OpAdd (f : F) (alloc_ok : bool) | OpClear.

Definition step (s : est) (o : op) : res est :=
  match o with
  | OpAdd f ok => err_vadd s f ok
  | OpClear => Ok (err_clear s)
  end.

Fixpoint run (s : est) (ops : list op) : res est :=
  match ops with
  | [] => Ok s
  | o :: ops' => match step s o with Ok s' => run s' ops' | Fault f => Fault f end
  end.

(** the trace the correspondence check compares: state after every op *)
Fixpoint run_trace (s : est) (ops : list op) : list (res est) :=
  match ops with
  | [] => []
  | o :: ops' => match step s o with
                 | Ok s' => Ok s' :: run_trace s' ops'
                 | Fault f => [Fault f]
                 end
  end.

End ErrVadd.

(** Executable instance for the correspondence check: a format is either a
    formatted text or a format string on which [vsnprintf] fails. *)
Definition vs_inst (f : option (list N)) (size : nat) : list N * Z :=
  match f with
  | Some text => c99 text size
  | None => ([], (-1)%Z)
  end.

Definition junk_inst (i : nat) : N := 238.

Definition run_inst (lbuf_extra : nat) (buf0 : list N) (ops : list (op (option (list N))))
  : list (res est) :=
  run_trace (option (list N)) vs_inst (Some failure_text) junk_inst lbuf_extra
            (err_init buf0) ops.
