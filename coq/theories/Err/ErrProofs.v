(** Proofs about the model of errmsg.h (C16). *)
From Coq Require Import NArith ZArith List Bool Arith Lia.
From KdV Require Import Err.ErrModel Err.ErrSpec.
Import ListNotations.

(** * Lists, blocks, C strings *)

Definition nonul (t : list N) : Prop := Forall (fun b => b <> 0%N) t.

Lemma nonul_app a b : nonul a -> nonul b -> nonul (a ++ b).
Proof. intros; apply Forall_app; auto. Qed.

Lemma nonul_app_inv a b : nonul (a ++ b) -> nonul a /\ nonul b.
Proof. intro H; apply Forall_app in H; auto. Qed.

Lemma nonul_skipn n t : nonul t -> nonul (skipn n t).
Proof.
  intro H. rewrite <- (firstn_skipn n t) in H. apply nonul_app_inv in H. tauto.
Qed.

Lemma nonul_firstn n t : nonul t -> nonul (firstn n t).
Proof.
  intro H. rewrite <- (firstn_skipn n t) in H. apply nonul_app_inv in H. tauto.
Qed.

Lemma nonul_tl t : nonul t -> nonul (tl t).
Proof. destruct t; simpl; auto. intro H; inversion H; auto. Qed.

Lemma nonul_delim : nonul delim.
Proof. repeat constructor; discriminate. Qed.

Lemma cstr_app t rest : nonul t -> cstr (t ++ 0%N :: rest) = Some t.
Proof.
  induction t as [|b t IH]; intro H; simpl; auto.
  inversion H as [|? ? Hb Ht]; subst.
  destruct (N.eqb_spec b 0); [contradiction|]. rewrite IH; auto.
Qed.

Lemma cstr_inv m : forall t, cstr m = Some t -> nonul t /\ exists rest, m = t ++ 0%N :: rest.
Proof.
  induction m as [|b m IH]; simpl; intros t H; [discriminate|].
  destruct (N.eqb_spec b 0).
  - inversion H; subst. split; [constructor|]. exists m; reflexivity.
  - destruct (cstr m) as [t'|] eqn:E; [|discriminate]. inversion H; subst.
    destruct (IH t' eq_refl) as [Hn [rest Hr]]. split; [constructor; auto|].
    exists rest. simpl. now rewrite Hr.
Qed.

Lemma skipn_app_len {A} (a b : list A) n : n = length a -> skipn n (a ++ b) = b.
Proof.
  intros ->. rewrite skipn_app, skipn_all, Nat.sub_diag. reflexivity.
Qed.

Lemma firstn_app_len {A} (a b : list A) n : n = length a -> firstn n (a ++ b) = a.
Proof.
  intros ->. rewrite firstn_app, firstn_all, Nat.sub_diag. simpl. apply app_nil_r.
Qed.

Lemma skipn_app_len2 {A} (a b c : list A) n :
  n = length a + length b -> skipn n (a ++ b ++ c) = c.
Proof.
  intros ->. rewrite app_assoc. apply skipn_app_len. now rewrite app_length.
Qed.

Lemma wr_mid a b c bs off :
  off = length a -> length b = length bs -> wr (a ++ b ++ c) off bs = Some (a ++ bs ++ c).
Proof.
  intros -> Hl. unfold wr. rewrite !app_length.
  destruct (Nat.leb_spec (length a + length bs) (length a + (length b + length c))); [|lia].
  rewrite firstn_app_len by reflexivity.
  rewrite skipn_app_len2 by lia. reflexivity.
Qed.

Lemma rd_mid a b c off len :
  off = length a -> len = length b -> rd (a ++ b ++ c) off len = Some b.
Proof.
  intros -> ->. unfold rd. rewrite !app_length.
  destruct (Nat.leb_spec (length a + length b) (length a + (length b + length c))); [|lia].
  rewrite skipn_app_len by reflexivity. rewrite firstn_app_len by reflexivity. reflexivity.
Qed.

Lemma cstr_at_mid a t rest off :
  off = length a -> nonul t -> cstr_at (a ++ t ++ 0%N :: rest) off = Some t.
Proof.
  intros -> H. unfold cstr_at. rewrite skipn_app_len by reflexivity. now apply cstr_app.
Qed.

Lemma wr_length m off bs m' : wr m off bs = Some m' -> length m' = length m.
Proof.
  unfold wr. destruct (Nat.leb_spec (off + length bs) (length m)) as [Hle|Hle]; [|discriminate].
  intro Hs; inversion Hs; subst. rewrite !app_length, firstn_length, skipn_length. lia.
Qed.

Lemma split_tail {A} (pre : list A) n :
  n <= length pre -> exists p g, pre = p ++ g /\ length g = n /\ length p = length pre - n.
Proof.
  intro H. exists (firstn (length pre - n) pre), (skipn (length pre - n) pre).
  rewrite firstn_skipn, skipn_length, firstn_length. repeat split; lia.
Qed.

Lemma split_head {A} (l : list A) n :
  n <= length l -> exists a b, l = a ++ b /\ length a = n.
Proof.
  intro H. exists (firstn n l), (skipn n l). rewrite firstn_skipn, firstn_length. split; auto; lia.
Qed.

Lemma bsub_ok a k : k <= a -> bsub a k = Some (a - k).
Proof. intro H. unfold bsub. destruct (Nat.leb_spec k a); [reflexivity|lia]. Qed.

Lemma junkblk_length junk n : length (junkblk junk n) = n.
Proof. unfold junkblk. now rewrite map_length, seq_length. Qed.

Definition lastn {A} (n : nat) (l : list A) : list A := skipn (length l - n) l.

Lemma lastn_length {A} n (l : list A) : n <= length l -> length (lastn n l) = n.
Proof. intro H. unfold lastn. rewrite skipn_length. lia. Qed.

Lemma lastn_app_le {A} n (a b : list A) : n <= length b -> lastn n (a ++ b) = lastn n b.
Proof.
  intro H. unfold lastn. rewrite app_length, skipn_app.
  rewrite skipn_all2 by lia. simpl. f_equal. lia.
Qed.

Lemma lastn_app_ge {A} n (a b : list A) :
  length b <= n -> lastn n (a ++ b) = lastn (n - length b) a ++ b.
Proof.
  intros H1. unfold lastn. rewrite app_length, skipn_app.
  replace (length a + length b - n - length a) with 0 by lia. simpl.
  f_equal. f_equal. lia.
Qed.

Lemma lastn_nil {A} (l : list A) : lastn 0 l = [].
Proof. unfold lastn. rewrite Nat.sub_0_r. apply skipn_all. Qed.

(** * What one [err_vadd] does, abstractly *)

(** The visible state: the text at [str], the room before it, whether it
    lives in the dynamic buffer.  A NULL [str] and an empty text are the same
    to [err_vadd]. *)
Definition view (s : est) : list N * nat * bool :=
  match e_str s with
  | None => ([], 0, false)
  | Some (r, off) =>
      (match err_str s with Some (Some t) => t | _ => [] end, off,
       match r with RDyn => true | _ => false end)
  end.

Definition cur (s : est) : list N := fst (fst (view s)).

(** the message after the '>' cut of the fallback path *)
Definition cut_msg (bufsz : nat) (text : list N) : list N :=
  if bufsz <=? length text then firstn (bufsz - 2) text ++ [ch_gt] else text.

(** after the fresh/non-fresh decision: [dlen] is 0 or 2 *)
Definition step_core (bufsz : nat) (t : list N) (room : nat) (dyn : bool) (dlen : nat)
           (text : list N) (ok : bool) : list N * nat * bool :=
  let full := text ++ firstn dlen delim in
  let msglen := length full in
  if msglen <=? room then (full ++ t, room - msglen, dyn)
  else if ok then (full ++ t, 1, true)
  else if room =? 0 then (ch_lt :: tl t, 0, dyn)
  else (ch_lt :: tl (lastn room (cut_msg bufsz text ++ firstn dlen delim)) ++ t, 0, dyn).

Definition step_abs (bufsz : nat) (v : list N * nat * bool) (text : list N) (ok : bool)
  : list N * nat * bool :=
  let '(t, room, dyn) := v in
  match t with
  | [] => step_core bufsz [] (bufsz - 1) false 0 text ok
  | _ => step_core bufsz t room dyn 2 text ok
  end.

(** * Well-formed states *)

Definition holds (m : list N) (off : nat) (t : list N) : Prop :=
  exists pre rest, m = pre ++ t ++ 0%N :: rest /\ length pre = off /\ nonul t.

Definition wf (s : est) : Prop :=
  2 <= length (e_buf s) /\
  match e_str s with
  | None => True
  | Some (RBuf, off) => exists t, holds (e_buf s) off t
  | Some (RDyn, off) => exists d t, e_dyn s = Some d /\ holds d off t /\ off <= 1
  | Some (RLbuf, _) => False
  end.

Lemma holds_cstr m off t : holds m off t -> cstr_at m off = Some t.
Proof. intros (pre & rest & -> & <- & Hn). now apply cstr_at_mid. Qed.

Section Proofs.
Variable F : Type.
Variable vsnprintf : F -> nat -> list N * Z.
Variable failure : F.
Variable junk : nat -> N.
Variable lbuf_extra : nat.
Hypothesis lbuf_extra_ge : 1 <= lbuf_extra.

Definition formats (f : F) (text : list N) : Prop :=
  nonul text /\ forall n, vsnprintf f n = c99 text n.

Definition bad_format (f : F) : Prop := (snd (vsnprintf f 0) < 0)%Z.

Hypothesis failure_formats : formats failure failure_text.

Notation vadd_fin := (vadd_fin).
Notation vadd_body := (vadd_body F vsnprintf junk lbuf_extra).
Notation err_vadd := (err_vadd F vsnprintf failure junk lbuf_extra).

Lemma vs_big f text n : formats f text -> length text <= n ->
  fst (vsnprintf f (S n)) = text ++ [0%N].
Proof.
  intros [_ H] Hl. rewrite H. simpl. now rewrite firstn_all2.
Qed.

(** the result of [set_mem] followed by setting [str], as seen by [view] and [wf] *)
Lemma finish_state s r m' p t :
  2 <= length (e_buf s) -> (r = RBuf \/ r = RDyn) ->
  (r = RBuf -> length m' = length (e_buf s)) ->
  holds m' p t -> (r = RDyn -> p <= 1) ->
  let s1 := set_mem s r m' in
  let s' := {| e_buf := e_buf s1; e_dyn := e_dyn s1; e_str := Some (r, p) |} in
  wf s' /\ length (e_buf s') = length (e_buf s) /\
  view s' = (t, p, match r with RDyn => true | _ => false end).
Proof.
  intros Hb Hr Hlen Hh Hp. pose proof (holds_cstr _ _ _ Hh) as Hc.
  destruct Hr as [-> | ->]; simpl.
  - split; [|split].
    + unfold wf; simpl. split; [rewrite Hlen; auto|]. now exists t.
    + now apply Hlen.
    + unfold view, err_str; simpl. now rewrite Hc.
  - split; [|split].
    + unfold wf; simpl. split; auto. exists m', t. auto.
    + reflexivity.
    + unfold view, err_str; simpl. now rewrite Hc.
Qed.

(** [vadd_fin] when the delimiter is not needed *)
Lemma vadd_fin_nodelim s r m off msglen remain :
  mem s r = Some m -> msglen <= off ->
  vadd_fin s r off msglen remain 0 =
  Ok (let s1 := set_mem s r m in
      {| e_buf := e_buf s1; e_dyn := e_dyn s1; e_str := Some (r, off - msglen) |}).
Proof.
  intros Hm Hle. unfold ErrModel.vadd_fin. rewrite Hm. simpl.
  now rewrite bsub_ok by assumption.
Qed.

(** [vadd_fin] when the delimiter (or a part of it) is written over the
    bytes [g] just before [msg] *)
Lemma vadd_fin_delim s r off msglen remain a g c :
  mem s r = Some (a ++ g ++ c) -> length a + length g = off ->
  length g = Nat.min remain 2 -> msglen <= off ->
  vadd_fin s r off msglen remain 2 =
  Ok (let s1 := set_mem s r (a ++ skipn (2 - length g) delim ++ c) in
      {| e_buf := e_buf s1; e_dyn := e_dyn s1; e_str := Some (r, off - msglen) |}).
Proof.
  intros Hm Hoff Hg Hle. unfold ErrModel.vadd_fin. rewrite Hm.
  cbn [Nat.eqb].
  set (rm := if 2 <? remain then 2 else remain).
  assert (Hrm : rm = length g).
  { unfold rm. destruct (Nat.ltb_spec 2 remain); lia. }
  clearbody rm. subst rm. rewrite bsub_ok by lia.
  replace (off - length g) with (length a) by lia.
  rewrite (wr_mid a g c) ; [| reflexivity |].
  - rewrite bsub_ok by assumption. reflexivity.
  - rewrite skipn_length. change (length delim) with 2. lia.
Qed.

Lemma set_mem_idem s r m1 m2 : (r = RBuf \/ r = RDyn) ->
  set_mem (set_mem s r m1) r m2 = set_mem s r m2.
Proof. intros [-> | ->]; reflexivity. Qed.

Lemma mem_set_mem s r m1 : (r = RBuf \/ r = RDyn) -> mem (set_mem s r m1) r = Some m1.
Proof. intros [-> | ->]; reflexivity. Qed.

Lemma finish_gen s r t' m1 m2 p v :
  2 <= length (e_buf s) -> (r = RBuf \/ r = RDyn) ->
  (r = RBuf -> length m2 = length (e_buf s)) ->
  holds m2 p t' -> (r = RDyn -> p <= 1) ->
  v = (t', p, match r with RDyn => true | _ => false end) ->
  exists s',
    Ok (let s1 := set_mem (set_mem s r m1) r m2 in
        {| e_buf := e_buf s1; e_dyn := e_dyn s1; e_str := Some (r, p) |}) = Ok s' /\
    wf s' /\ length (e_buf s') = length (e_buf s) /\ view s' = v.
Proof.
  intros Hb Hr Hl Hh Hp ->. eexists; split; [reflexivity|].
  rewrite set_mem_idem by assumption.
  now apply finish_state.
Qed.

Lemma finish_dyn b d t' p v :
  2 <= length b -> holds d p t' -> p <= 1 -> v = (t', p, true) ->
  exists s',
    Ok {| e_buf := b; e_dyn := Some d; e_str := Some (RDyn, p) |} = Ok s' /\
    wf s' /\ length (e_buf s') = length b /\ view s' = v.
Proof.
  intros Hb Hh Hp ->. eexists; split; [reflexivity|].
  pose proof (holds_cstr _ _ _ Hh) as Hc.
  split; [|split].
  - unfold wf; simpl. split; auto. exists d, t'. auto.
  - reflexivity.
  - unfold view, err_str; simpl. now rewrite Hc.
Qed.

Lemma vadd_fin_nodelim_dyn b d st off msglen remain :
  msglen <= off ->
  vadd_fin {| e_buf := b; e_dyn := Some d; e_str := st |} RDyn off msglen remain 0 =
  Ok {| e_buf := b; e_dyn := Some d; e_str := Some (RDyn, off - msglen) |}.
Proof.
  intro H. now rewrite (vadd_fin_nodelim _ RDyn d) by auto.
Qed.

Lemma vadd_fin_delim_dyn b d st off msglen remain a g c :
  d = a ++ g ++ c -> length a + length g = off ->
  length g = Nat.min remain 2 -> msglen <= off ->
  vadd_fin {| e_buf := b; e_dyn := Some d; e_str := st |} RDyn off msglen remain 2 =
  Ok {| e_buf := b; e_dyn := Some (a ++ skipn (2 - length g) delim ++ c);
        e_str := Some (RDyn, off - msglen) |}.
Proof.
  intros -> H1 H2 H3. now rewrite (vadd_fin_delim _ RDyn _ _ _ a g c) by auto.
Qed.

Lemma firstn_app_ge {A} (a b : list A) n :
  length a <= n -> firstn n (a ++ b) = a ++ firstn (n - length a) b.
Proof. intro H. rewrite firstn_app. now rewrite firstn_all2. Qed.

Ltac lens := repeat (progress (rewrite ?app_length; cbn [length]));
             change (length delim) with 2 in *.
Ltac lnorm := repeat (rewrite <- app_assoc || rewrite <- app_comm_cons); cbn [app].

Lemma cut_msg_nonul bufsz text : nonul text -> nonul (cut_msg bufsz text).
Proof.
  intro H. unfold cut_msg. destruct (bufsz <=? length text); auto.
  apply nonul_app; [now apply nonul_firstn|]. repeat constructor; discriminate.
Qed.

Lemma cut_msg_length bufsz text : 2 <= bufsz ->
  length (cut_msg bufsz text) = Nat.min (length text) (bufsz - 1).
Proof.
  intro H. unfold cut_msg. destruct (Nat.leb_spec bufsz (length text)).
  - rewrite app_length, firstn_length. simpl. lia.
  - lia.
Qed.

(** the VLA after [vsnprintf(lbuf, bufsz, ...)] and the '>' store *)
Lemma lbuf_shape f text bufsz :
  formats f text -> 2 <= bufsz ->
  exists lb1,
    wr (junkblk junk (bufsz + lbuf_extra)) 0 (fst (vsnprintf f bufsz)) = Some lb1 /\
    exists lb2,
      (if bufsz <=? length text
       then match bsub bufsz 2 with None => None | Some p => wr lb1 p [ch_gt] end
       else Some lb1) = Some lb2 /\
      exists J, lb2 = cut_msg bufsz text ++ 0%N :: J /\ lbuf_extra <= length J.
Proof.
  intros [Hn Hv] Hb. rewrite Hv. destruct bufsz as [|b]; [lia|]. cbn [c99 fst].
  set (tk := firstn b text).
  assert (Htk : length tk = Nat.min b (length text)) by apply firstn_length.
  pose proof (junkblk_length junk (S b + lbuf_extra)) as Hjl.
  destruct (split_head (junkblk junk (S b + lbuf_extra)) (length (tk ++ [0%N])))
    as (g & J & Hj & Hg); [lens; lia|].
  replace (junkblk junk (S b + lbuf_extra)) with ([] ++ g ++ J) by (symmetry; exact Hj).
  rewrite (wr_mid [] g J) by auto. cbn [app].
  assert (HJ : length J = b + lbuf_extra - length tk).
  { rewrite Hj, app_length, Hg in Hjl. revert Hjl. lens. lia. }
  eexists; split; [reflexivity|].
  unfold cut_msg. destruct (Nat.leb_spec (S b) (length text)) as [Hcut|Hnc].
  - rewrite bsub_ok by lia.
    destruct (split_tail tk 1) as (a & z & Haz & Hz & Ha); [lia|].
    destruct z as [|z0 [|]]; try discriminate.
    assert (E : (tk ++ [0%N]) ++ J = a ++ [z0] ++ (0%N :: J)) by (rewrite Haz; now lnorm).
    rewrite E, (wr_mid a [z0] _) by (simpl; lia).
    eexists; split; [reflexivity|]. exists J. split.
    + replace (S b - 2) with (length a) by lia.
      assert (Ea : firstn (length a) text = a).
      { transitivity (firstn (length a) (firstn b text)).
        - rewrite firstn_firstn. f_equal. lia.
        - unfold tk in Haz. rewrite Haz. now apply firstn_app_len. }
      rewrite Ea. now lnorm.
    + lia.
  - eexists; split; [reflexivity|]. exists J. split.
    + unfold tk. rewrite firstn_all2 by lia. now lnorm.
    + lia.
Qed.

Section Body.
Variables (s : est) (f : F) (text : list N) (r : region) (off dlen : nat).
Variables (m pre t rest : list N).
Hypothesis Hf : formats f text.
Hypothesis Hb : 2 <= length (e_buf s).
Hypothesis Hm : mem s r = Some m.
Hypothesis Hr : r = RBuf \/ r = RDyn.
Hypothesis Hmeq : m = pre ++ t ++ 0%N :: rest.
Hypothesis Hpre : length pre = off.
Hypothesis Hnt : nonul t.
Hypothesis Hdyn : r = RDyn -> off <= 1.
Hypothesis Hdl : dlen = 0 /\ t = [] \/ dlen = 2 /\ t <> [].
Hypothesis Hfresh : dlen = 0 -> 1 <= off.

Let bufsz := length (e_buf s).
Let dynb := match r with RDyn => true | _ => false end.

Definition body_goal (ok : bool) : Prop :=
  exists s', vadd_body s f ok (length text) r off off dlen = Ok s' /\ wf s' /\
    length (e_buf s') = bufsz /\
    view s' = step_core bufsz t off dynb dlen text ok.

Lemma Hlenm : r = RBuf -> length m = bufsz.
Proof. intros ->. simpl in Hm. inversion Hm. reflexivity. Qed.

Lemma full_length : length (text ++ firstn dlen delim) = length text + dlen.
Proof.
  rewrite app_length. destruct Hdl as [[-> _]|[-> _]]; reflexivity.
Qed.

(** common ending: the state has been computed, check it against [step_core] *)
Lemma finish t' m1 m2 p v :
  (r = RBuf -> length m2 = bufsz) ->
  holds m2 p t' -> (r = RDyn -> p <= 1) ->
  v = (t', p, dynb) ->
  exists s',
    Ok (let s1 := set_mem (set_mem s r m1) r m2 in
        {| e_buf := e_buf s1; e_dyn := e_dyn s1; e_str := Some (r, p) |}) = Ok s' /\
    wf s' /\ length (e_buf s') = bufsz /\ view s' = v.
Proof.
  intros Hl Hh Hp Hv. apply (finish_gen s r t'); auto.
Qed.

Lemma branch_fits ok : length text + dlen <= off -> body_goal ok.
Proof.
  intro Hfit. unfold body_goal, ErrModel.vadd_body. rewrite Hm.
  destruct (Nat.ltb_spec off (length text + dlen)) as [Hlt|_]; [lia|].
  rewrite bsub_ok by assumption.
  replace (length text + dlen + 1) with (S (length text + dlen)) by lia.
  rewrite (vs_big f text) by (auto; lia).
  unfold step_core. rewrite full_length.
  destruct (Nat.leb_spec (length text + dlen) off) as [_|Hlt]; [|lia].
  destruct (split_tail pre (length text + dlen)) as (p & g & Hpg & Hg & Hp); [lia|].
  destruct Hdl as [[-> ->]|[-> Hne]].
  - (* no delimiter: the NUL of vsnprintf lands on the NUL at msg *)
    assert (Em : m = p ++ (g ++ [0%N]) ++ rest) by (rewrite Hmeq, Hpg; now lnorm).
    rewrite Em, (wr_mid p (g ++ [0%N]) rest) by (rewrite ?app_length; simpl; lia).
    rewrite (vadd_fin_nodelim _ _ _ _ _ _ (mem_set_mem _ _ _ Hr)) by lia.
    apply (finish text).
    + intro Hrb. rewrite <- (Hlenm Hrb), Em. lens. lia.
    + exists p, rest. split; [now lnorm|]. split; [lia|apply Hf].
    + intro Hd. specialize (Hdyn Hd). lia.
    + simpl. now rewrite !app_nil_r, Nat.add_0_r.
  - (* delimiter: the NUL of vsnprintf lands on the first delimiter byte *)
    destruct (split_head g (length text)) as (g1 & g2 & Hg12 & Hg1); [lia|].
    assert (Hg2 : length g2 = 2) by (rewrite Hg12, app_length in Hg; lia).
    destruct g2 as [|x [|y [|]]]; try discriminate.
    assert (Em : m = p ++ (g1 ++ [x]) ++ ([y] ++ t ++ 0%N :: rest))
      by (rewrite Hmeq, Hpg, Hg12; now lnorm).
    rewrite Em, (wr_mid p (g1 ++ [x]) _) by (rewrite ?app_length; simpl; lia).
    rewrite (vadd_fin_delim _ _ _ _ _ (p ++ text) [0%N; y] (t ++ 0%N :: rest)).
    + change (skipn (2 - length [0%N; y]) delim) with delim.
      apply (finish (text ++ delim ++ t)).
      * intro Hrb. rewrite <- (Hlenm Hrb), Em. lens. lia.
      * exists p, rest. split; [now lnorm|]. split; [lia|].
        apply nonul_app; [apply Hf|]. apply nonul_app; [apply nonul_delim|assumption].
      * intro Hd. specialize (Hdyn Hd). lia.
      * cbn [firstn]. now lnorm.
    + rewrite mem_set_mem by assumption. f_equal. now lnorm.
    + rewrite app_length. simpl. lia.
    + simpl. lia.
    + lia.
Qed.

Lemma cstr_m : cstr_at m off = Some t.
Proof. rewrite Hmeq. now apply cstr_at_mid. Qed.

Lemma branch_grow : off < length text + dlen -> body_goal true.
Proof.
  intro Hlt. unfold body_goal, ErrModel.vadd_body. rewrite Hm.
  destruct (Nat.ltb_spec off (length text + dlen)) as [_|Hge]; [|lia].
  rewrite cstr_m.
  set (msglen := length text + dlen).
  set (newsz := 1 + length t + msglen + 1).
  set (newbuf := match e_dyn s with
                 | None => junkblk junk newsz
                 | Some d => firstn newsz d ++ junkblk junk (newsz - length d)
                 end).
  assert (Hnl : length newbuf = newsz).
  { unfold newbuf. destruct (e_dyn s) as [d|].
    - rewrite app_length, firstn_length, junkblk_length. lia.
    - apply junkblk_length. }
  (* the memmove source *)
  assert (Hsrc : exists srcm X,
             match r with
             | RDyn => if off <=? 1 then Some newbuf else None
             | _ => Some m
             end = Some srcm /\ srcm = pre ++ (t ++ [0%N]) ++ X).
  { destruct Hr as [-> | ->].
    - exists m, rest. split; [reflexivity|]. rewrite Hmeq. now lnorm.
    - specialize (Hdyn eq_refl).
      destruct (Nat.leb_spec off 1) as [_|Hgt]; [|lia].
      simpl in Hm. unfold newbuf. rewrite Hm.
      exists (firstn newsz m ++ junkblk junk (newsz - length m)).
      assert (Em : m = (pre ++ t ++ [0%N]) ++ rest) by (rewrite Hmeq; now lnorm).
      eexists. split; [reflexivity|].
      rewrite Em at 1. rewrite firstn_app_ge by (lens; unfold newsz, msglen; lia).
      lnorm. reflexivity. }
  destruct Hsrc as (srcm & X & -> & Hsrcm).
  rewrite Hsrcm, (rd_mid pre (t ++ [0%N]) X) by (lens; lia).
  destruct (split_head newbuf (msglen + 1)) as (hd & tl' & Hnb & Hhd); [lia|].
  assert (Htl : length tl' = length (t ++ [0%N])).
  { rewrite Hnb, app_length in Hnl. lens. unfold newsz in Hnl. lia. }
  replace newbuf with (hd ++ tl' ++ []) by (rewrite app_nil_r; auto).
  rewrite (wr_mid hd tl' []) by (auto; lia).
  replace (msglen + 1) with (S msglen) by lia.
  rewrite (vs_big f text) by (auto; unfold msglen; lia).
  destruct hd as [|j hd']; [simpl in Hhd; lia|]. simpl in Hhd.
  unfold step_core. rewrite full_length. fold msglen.
  destruct (Nat.leb_spec msglen off) as [Hle|_]; [lia|].
  destruct Hdl as [[Hd0 Ht0]|[Hd2 Hne]].
  - (* no old text: the moved string is the single NUL *)
    assert (Hh' : length hd' = length text) by (unfold msglen in Hhd; lia).
    subst t dlen. cbn [app].
    assert (E : j :: hd' ++ [0%N] = [j] ++ (hd' ++ [0%N]) ++ []) by now lnorm.
    rewrite E, (wr_mid [j] (hd' ++ [0%N]) []) by (lens; lia).
    rewrite vadd_fin_nodelim_dyn by lia.
    replace (S msglen - msglen) with 1 by lia.
    apply (finish_dyn _ _ text); auto.
    + exists [j], []. split; [now lnorm|]. split; [reflexivity|apply Hf].
    + simpl. now rewrite !app_nil_r.
  - subst dlen.
    assert (Hh' : length hd' = length text + 2) by (unfold msglen in Hhd; lia).
    destruct (split_head hd' (length text)) as (g1 & g2 & Hg12 & Hg1); [lia|].
    assert (Hg2 : length g2 = 2) by (rewrite Hg12, app_length in Hh'; lia).
    destruct g2 as [|x [|y [|]]]; try discriminate.
    assert (E : (j :: hd') ++ (t ++ [0%N]) ++ [] = [j] ++ (g1 ++ [x]) ++ ([y] ++ t ++ [0%N]))
      by (rewrite Hg12; now lnorm).
    rewrite E, (wr_mid [j] (g1 ++ [x]) _) by (lens; lia).
    rewrite (vadd_fin_delim_dyn _ _ _ _ _ _ ([j] ++ text) [0%N; y] (t ++ [0%N])).
    + change (skipn (2 - length [0%N; y]) delim) with delim.
      replace (S msglen - msglen) with 1 by lia.
      apply (finish_dyn _ _ (text ++ delim ++ t)); auto.
      * exists [j], []. split; [now lnorm|]. split; [reflexivity|].
        apply nonul_app; [apply Hf|]. apply nonul_app; [apply nonul_delim|assumption].
      * cbn [firstn]. now lnorm.
    + now lnorm.
    + lens. unfold msglen. lia.
    + unfold msglen. simpl. lia.
    + lia.
Qed.

Lemma branch_noroom : off = 0 -> body_goal false.
Proof.
  intro H0. unfold body_goal, ErrModel.vadd_body. rewrite Hm.
  destruct Hdl as [[Hd0 _]|[Hd2 Hne]]; [specialize (Hfresh Hd0); lia|].
  unfold step_core. rewrite full_length. rewrite Hd2.
  destruct (Nat.ltb_spec off (length text + 2)) as [_|Hge]; [|lia].
  rewrite cstr_m. rewrite H0. cbn [Nat.eqb negb].
  destruct pre; [|simpl in Hpre; lia].
  destruct t as [|b t1]; [contradiction|].
  assert (Em : m = [] ++ [b] ++ (t1 ++ 0%N :: rest)) by (rewrite Hmeq; now lnorm).
  rewrite Em, (wr_mid [] [b] _) by reflexivity.
  rewrite (vadd_fin_delim _ _ _ _ _ [] [] ([] ++ [ch_lt] ++ t1 ++ 0%N :: rest)).
  - destruct (Nat.leb_spec (length text + 2) 0) as [Hle|_]; [lia|].
    change (skipn (2 - length (@nil N)) delim) with (@nil N).
    change (0 - 0) with 0. change (0 =? 0) with true. cbv iota.
    apply (finish (ch_lt :: t1)).
    + intro Hrb. rewrite <- (Hlenm Hrb), Em. lens. lia.
    + exists [], rest. split; [now lnorm|]. split; [reflexivity|].
      constructor; [discriminate|]. now inversion Hnt.
    + lia.
    + reflexivity.
  - now rewrite mem_set_mem.
  - reflexivity.
  - reflexivity.
  - lia.
Qed.

Lemma off_le_bufsz : off <= bufsz - 1.
Proof.
  destruct Hr as [Hrb | Hrd].
  - pose proof (Hlenm Hrb) as Hl. rewrite Hmeq in Hl. revert Hl. lens. lia.
  - specialize (Hdyn Hrd). unfold bufsz. lia.
Qed.

Lemma branch_fallback : 1 <= off -> off < length text + dlen -> body_goal false.
Proof.
  intros H1 Hlt. unfold body_goal, ErrModel.vadd_body. rewrite Hm.
  destruct (Nat.ltb_spec off (length text + dlen)) as [_|Hge]; [|lia].
  rewrite cstr_m.
  destruct (Nat.eqb_spec off 0) as [|_]; [lia|]. cbn [negb].
  fold bufsz.
  destruct (lbuf_shape f text bufsz Hf Hb) as (lb1 & -> & lb2 & Hlb2 & J & HJ & HJl).
  rewrite Nat.add_sub, Hlb2.
  pose proof (cut_msg_length bufsz text Hb) as Hcl.
  pose proof (cut_msg_nonul bufsz text (proj1 Hf)) as Hcn.
  pose proof off_le_bufsz as Hob.
  set (t' := cut_msg bufsz text) in *.
  set (msglen' := if bufsz <=? length text then bufsz - 1 + dlen else length text + dlen).
  assert (Hml : msglen' = length t' + dlen).
  { unfold msglen'. destruct (Nat.leb_spec bufsz (length text)); lia. }
  assert (Hdl2 : dlen <= 2) by (destruct Hdl as [[-> _]|[-> _]]; lia).
  assert (Hoff' : off <= msglen').
  { unfold msglen'. destruct (Nat.leb_spec bufsz (length text)); lia. }
  rewrite bsub_ok by assumption.
  unfold rd.
  destruct (Nat.leb_spec (msglen' - off + off) (length lb2)) as [_|Hbad];
    [|rewrite HJ in Hbad; revert Hbad; lens; lia].
  rewrite bsub_ok by lia. rewrite Nat.sub_diag.
  set (chunk := firstn off (skipn (msglen' - off) lb2)).
  assert (Hchl : length chunk = off).
  { unfold chunk. rewrite firstn_length, skipn_length, HJ. lens. lia. }
  assert (Em : m = [] ++ pre ++ (t ++ 0%N :: rest)) by (rewrite Hmeq; now lnorm).
  rewrite Em, (wr_mid [] pre _) by (auto; lia).
  destruct chunk as [|c0 chunk'] eqn:Ech; [simpl in Hchl; lia|].
  assert (E2 : [] ++ (c0 :: chunk') ++ t ++ 0%N :: rest
               = [] ++ [c0] ++ (chunk' ++ t ++ 0%N :: rest)) by now lnorm.
  rewrite E2, (wr_mid [] [c0] _) by reflexivity.
  unfold step_core. rewrite full_length.
  destruct (Nat.leb_spec (length text + dlen) off) as [Hle|_]; [lia|].
  destruct (Nat.eqb_spec off 0) as [|_]; [lia|].
  fold t'.
  destruct Hdl as [[Hd0 Ht0]|[Hd2 Hne]].
  - (* no delimiter *)
    subst dlen t.
    rewrite (vadd_fin_nodelim _ _ _ _ _ _ (mem_set_mem _ _ _ Hr)) by lia.
    rewrite Nat.sub_diag.
    assert (Hchunk : c0 :: chunk' = lastn off t').
    { rewrite <- Ech. unfold chunk, lastn. rewrite HJ, Hml, Nat.add_0_r.
      rewrite skipn_app. replace (length t' - off - length t') with 0 by lia.
      cbn [skipn]. rewrite firstn_app_len; [reflexivity|]. rewrite skipn_length. lia. }
    apply (finish (ch_lt :: chunk')).
    + intro Hrb. rewrite <- (Hlenm Hrb), Em. simpl in Hchl. lens. lia.
    + exists [], rest. split; [now lnorm|]. split; [reflexivity|].
      constructor; [discriminate|].
      assert (Hn : nonul (c0 :: chunk')) by (rewrite Hchunk; now apply nonul_skipn).
      now inversion Hn.
    + lia.
    + cbn [firstn]. rewrite !app_nil_r, <- Hchunk. reflexivity.
  - (* delimiter: the last min (off - 1) 2 bytes are overwritten *)
    subst dlen.
    destruct J as [|j0 J']; [simpl in HJl; lia|].
    assert (Hcases : off = 1 \/ off = 2 \/ 3 <= off) by lia.
    destruct Hcases as [Ho | [Ho | Ho]].
    + (* only the marker fits *)
      assert (chunk' = []) by (destruct chunk'; [auto|simpl in Hchl; lia]). subst chunk'.
      rewrite (vadd_fin_delim _ _ _ _ _ [ch_lt] [] (t ++ 0%N :: rest)).
      * change (skipn (2 - length (@nil N)) delim) with (@nil N). rewrite Nat.sub_diag.
        apply (finish (ch_lt :: t)).
        -- intro Hrb. rewrite <- (Hlenm Hrb), Em. lens. lia.
        -- exists [], rest. split; [now lnorm|]. split; [reflexivity|].
           constructor; [discriminate|assumption].
        -- lia.
        -- rewrite Ho. rewrite lastn_app_le by (simpl; lia). reflexivity.
      * rewrite mem_set_mem by assumption. f_equal.
      * simpl. lia.
      * simpl. lia.
      * lia.
    + (* marker and the blank *)
      destruct chunk' as [|c1 [|]]; try (simpl in Hchl; lia).
      rewrite (vadd_fin_delim _ _ _ _ _ [ch_lt] [c1] (t ++ 0%N :: rest)).
      * change (skipn (2 - length [c1]) delim) with [32%N]. rewrite Nat.sub_diag.
        apply (finish (ch_lt :: 32%N :: t)).
        -- intro Hrb. rewrite <- (Hlenm Hrb), Em. lens. lia.
        -- exists [], rest. split; [now lnorm|]. split; [reflexivity|].
           constructor; [discriminate|]. constructor; [discriminate|assumption].
        -- lia.
        -- rewrite Ho. rewrite lastn_app_le by (simpl; lia). reflexivity.
      * rewrite mem_set_mem by assumption. f_equal.
      * simpl. lia.
      * simpl. lia.
      * lia.
    + (* marker, tail of the message, full delimiter *)
      assert (Hchunk : c0 :: chunk' = lastn (off - 2) t' ++ [0%N; j0]).
      { rewrite <- Ech. unfold chunk, lastn. rewrite HJ, Hml.
        rewrite skipn_app. replace (length t' + 2 - off - length t') with 0 by lia.
        cbn [skipn].
        replace (length t' + 2 - off) with (length t' - (off - 2)) by lia.
        replace (0%N :: j0 :: J') with ([0%N; j0] ++ J') by reflexivity.
        rewrite app_assoc. apply firstn_app_len. rewrite app_length, skipn_length. simpl. lia. }
      assert (Hll : length (lastn (off - 2) t') = off - 2) by (apply lastn_length; lia).
      destruct (lastn (off - 2) t') as [|l0 lt] eqn:El; [simpl in Hll; lia|].
      simpl in Hchunk. injection Hchunk as Hc0 Hchunk'.
      rewrite Hchunk'.
      rewrite (vadd_fin_delim _ _ _ _ _ (ch_lt :: lt) [0%N; j0] (t ++ 0%N :: rest)).
      * change (2 - length [0%N; j0]) with 0. cbn [skipn]. rewrite Nat.sub_diag.
        apply (finish (ch_lt :: lt ++ delim ++ t)).
        -- intro Hrb. rewrite <- (Hlenm Hrb), Em. simpl in Hll. lens. lia.
        -- exists [], rest. split; [now lnorm|]. split; [reflexivity|].
           constructor; [discriminate|].
           assert (Hn : nonul (l0 :: lt)) by (rewrite <- El; now apply nonul_skipn).
           inversion Hn; subst. apply nonul_app; auto. apply nonul_app; [apply nonul_delim|auto].
        -- lia.
        -- change (firstn 2 delim) with delim. rewrite lastn_app_ge by (simpl; lia).
           change (length delim) with 2. rewrite El. lnorm. cbn [tl]. now lnorm.
      * rewrite mem_set_mem by assumption. f_equal. now lnorm.
      * simpl in Hll. lens. lia.
      * simpl. lia.
      * lia.
Qed.

Lemma body_all ok : body_goal ok.
Proof.
  destruct (le_lt_dec (length text + dlen) off) as [Hfit|Hlt].
  - now apply branch_fits.
  - destruct ok.
    + now apply branch_grow.
    + destruct (Nat.eq_dec off 0) as [H0|H0].
      * now apply branch_noroom.
      * apply branch_fallback; lia.
Qed.

End Body.

Lemma rd_one pre b rest off :
  off = length pre -> rd (pre ++ b :: rest) off 1 = Some [b].
Proof.
  intros ->. change (pre ++ b :: rest) with (pre ++ [b] ++ rest). now apply rd_mid.
Qed.

(** one [err_vadd] with a well-behaved format: never a fault, the state
    stays well-formed, and the visible state moves as [step_abs] says *)
Lemma err_vadd_ok s f text ok :
  wf s -> formats f text ->
  exists s', err_vadd s f ok = Ok s' /\ wf s' /\
    length (e_buf s') = length (e_buf s) /\
    view s' = step_abs (length (e_buf s)) (view s) text ok.
Proof.
  intros [Hb Hw] Hf. unfold ErrModel.err_vadd.
  rewrite (proj2 Hf 0). cbn [c99 snd].
  destruct (Z.ltb_spec (Z.of_nat (length text)) 0) as [Hneg|_]; [lia|].
  rewrite Nat2Z.id.
  (* the "restart at the end of buf" continuation *)
  assert (Hfresh : forall v, fst (fst v) = [] ->
    exists s',
      match bsub (length (e_buf s)) 1 with
      | None => Fault (PtrUnder RBuf)
      | Some p =>
          match wr (e_buf s) p [0%N] with
          | None => Fault (OOB_write RBuf (length (e_buf s)))
          | Some b1 =>
              vadd_body {| e_buf := b1; e_dyn := e_dyn s; e_str := e_str s |}
                        f ok (length text) RBuf p p 0
          end
      end = Ok s' /\ wf s' /\ length (e_buf s') = length (e_buf s) /\
      view s' = step_abs (length (e_buf s)) v text ok).
  { intros [[vt vr] vd] Hvt. simpl in Hvt. subst vt. cbn [step_abs].
    rewrite bsub_ok by lia.
    destruct (split_tail (e_buf s) 1) as (p & z & Hpz & Hz & Hp); [lia|].
    destruct z as [|z0 [|]]; try discriminate.
    assert (Eb : e_buf s = p ++ [z0] ++ []) by (rewrite Hpz; reflexivity).
    set (bufsz := length (e_buf s)) in *.
    rewrite Eb. rewrite (wr_mid p [z0] []) by (auto; lia).
    set (s1 := {| e_buf := p ++ [0%N] ++ []; e_dyn := e_dyn s; e_str := e_str s |}).
    assert (Hl1 : length (e_buf s1) = bufsz).
    { unfold bufsz. rewrite Eb. unfold s1. simpl. now rewrite !app_length. }
    destruct (body_all s1 f text RBuf (bufsz - 1) 0 (e_buf s1) p [] []) with (ok := ok)
      as (s' & Hs' & Hwf' & Hlen' & Hview'); auto.
    - lia.
    - constructor.
    - discriminate.
    - intros _. lia.
    - exists s'. rewrite Hl1 in *. auto. }
  destruct (e_str s) as [[r off]|] eqn:Estr.
  2:{ replace (view s) with (@nil N, 0, false) by (unfold view; now rewrite Estr).
      apply (Hfresh ([], 0, false)). reflexivity. }
  assert (Hreg : exists m t, mem s r = Some m /\ holds m off t /\ (r = RBuf \/ r = RDyn)
                          /\ (r = RDyn -> off <= 1)).
  { destruct r.
    - destruct Hw as (t & Hh). exists (e_buf s), t. repeat split; auto. discriminate.
    - destruct Hw as (d & t & Hd & Hh & Hle). exists d, t. simpl. repeat split; auto.
    - contradiction. }
  destruct Hreg as (m & t & Hm & Hh & Hr & Hdyn).
  rewrite Hm.
  assert (Hview : view s = (t, off, match r with RDyn => true | _ => false end)).
  { unfold view, err_str. rewrite Estr, Hm, (holds_cstr _ _ _ Hh). reflexivity. }
  destruct Hh as (pre & rest & Hmeq & Hpre & Hnt).
  destruct t as [|b t1].
  - (* "" is treated like NULL *)
    rewrite Hmeq. cbn [app]. rewrite rd_one by auto. cbn [N.eqb].
    rewrite Hview. apply Hfresh. reflexivity.
  - rewrite Hmeq. cbn [app]. rewrite rd_one by auto.
    inversion Hnt as [|? ? Hb0 Hnt1]; subst.
    destruct (N.eqb_spec b 0) as [|_]; [contradiction|].
    destruct (body_all s f text r (length pre) 2 (pre ++ (b :: t1) ++ 0%N :: rest) pre (b :: t1) rest)
      with (ok := ok) as (s' & Hs' & Hwf' & Hlen' & Hview'); auto.
    + right. split; [reflexivity|discriminate].
    + discriminate.
    + exists s'. rewrite Hview. auto.
Qed.

(** a format string on which [vsnprintf] fails is replaced by "(bad format string)" *)
Lemma err_vadd_bad s f ok :
  bad_format f -> err_vadd s f ok = err_vadd s failure ok.
Proof.
  intro Hbad. unfold bad_format in Hbad. unfold ErrModel.err_vadd.
  destruct (Z.ltb_spec (snd (vsnprintf f 0)) 0) as [_|Hge]; [|lia].
  rewrite (proj2 failure_formats 0). cbn [c99 snd].
  destruct (Z.ltb_spec (Z.of_nat (length failure_text)) 0) as [Hneg|_]; [lia|].
  reflexivity.
Qed.

(** * Consequences for the visible text *)

Lemma step_abs_cases bufsz t room dyn text ok :
  let t' := fst (fst (step_abs bufsz (t, room, dyn) text ok)) in
  t' = chain_step t text \/
  (ok = false /\ ((exists px, t' = ch_lt :: px ++ t) \/ (t <> [] /\ t' = ch_lt :: tl t))).
Proof.
  cbn zeta. unfold step_abs.
  assert (Hcore : forall t room dyn dlen,
             (dlen = 0 /\ t = [] \/ dlen = 2 /\ t <> []) ->
             let t' := fst (fst (step_core bufsz t room dyn dlen text ok)) in
             t' = chain_step t text \/
             (ok = false /\ ((exists px, t' = ch_lt :: px ++ t) \/ (t <> [] /\ t' = ch_lt :: tl t)))).
  { clear. intros t room dyn dlen Hdl. cbn zeta. unfold step_core.
    assert (Hfull : (text ++ firstn dlen delim) ++ t = chain_step t text).
    { destruct Hdl as [[-> ->]|[-> Hne]].
      - simpl. now rewrite !app_nil_r.
      - destruct t; [contradiction|]. unfold chain_step. change (firstn 2 delim) with sep.
        now rewrite <- app_assoc. }
    destruct (_ <=? room); [left; exact Hfull|].
    destruct ok; [left; exact Hfull|].
    right. split; [reflexivity|].
    destruct (room =? 0).
    - destruct Hdl as [[-> ->]|[-> Hne]].
      + left. exists []. reflexivity.
      + right. split; auto.
    - left. eexists. cbn [fst]. reflexivity. }
  destruct t as [|b t1].
  - apply Hcore. left; auto.
  - apply Hcore. right; split; [auto|discriminate].
Qed.

Lemma list_eqb_refl a : list_eqb a a = true.
Proof. induction a; simpl; auto. now rewrite N.eqb_refl. Qed.

Lemma list_eqb_eq a : forall b, list_eqb a b = true -> a = b.
Proof.
  induction a as [|x a IH]; intros [|y b]; simpl; try discriminate; auto.
  intro H. apply andb_true_iff in H as [Hx Hab]. apply N.eqb_eq in Hx. subst. f_equal; auto.
Qed.

Lemma keeps_old_app px old : keeps_old old (px ++ old) = true.
Proof.
  unfold keeps_old. rewrite app_length.
  destruct (Nat.leb_spec (length old) (length px + length old)); [|lia].
  replace (length px + length old - length old) with (length px) by lia.
  rewrite skipn_app_len by reflexivity. apply list_eqb_refl.
Qed.

Lemma step_abs_add_spec bufsz t room dyn text ok :
  add_spec ok t text (fst (fst (step_abs bufsz (t, room, dyn) text ok))) = true.
Proof.
  destruct (step_abs_cases bufsz t room dyn text ok) as [H | (Hok & [(px & H) | (Hne & H)])];
    cbn zeta in H; rewrite H; unfold add_spec.
  - now rewrite list_eqb_refl.
  - subst ok. apply orb_true_iff; right. cbn [negb andb]. unfold marked.
    apply orb_true_iff; left.
    change (ch_lt :: px ++ t) with ((ch_lt :: px) ++ t). rewrite keeps_old_app. reflexivity.
  - subst ok. apply orb_true_iff; right. cbn [negb andb]. unfold marked.
    apply orb_true_iff; right. destruct t; [contradiction|]. apply list_eqb_refl.
Qed.

(** * Histories *)

(** what an op means: the text its format produces *)
Inductive aop := AAdd (text : list N) (ok : bool) | AClear.

Definition matches (o : op F) (a : aop) : Prop :=
  match o, a with
  | OpAdd _ f ok, AAdd text ok' =>
      ok = ok' /\ (formats f text \/ (bad_format f /\ text = failure_text))
  | OpClear _, AClear => True
  | _, _ => False
  end.

Definition astep (bufsz : nat) (v : list N * nat * bool) (a : aop) : list N * nat * bool :=
  match a with
  | AAdd text ok => step_abs bufsz v text ok
  | AClear => ([], 0, false)
  end.

Lemma wf_clear s : wf s -> wf (err_clear s).
Proof. intros [Hb _]. split; simpl; auto. Qed.

Notation step := (step F vsnprintf failure junk lbuf_extra).
Notation run := (run F vsnprintf failure junk lbuf_extra).

Lemma step_ok s o a :
  wf s -> matches o a ->
  exists s', step s o = Ok s' /\ wf s' /\ length (e_buf s') = length (e_buf s) /\
             view s' = astep (length (e_buf s)) (view s) a.
Proof.
  intros Hw Hm. destruct o as [f ok|], a as [text ok'|]; simpl in Hm; try contradiction.
  - destruct Hm as [<- [Hf | [Hbad ->]]]; simpl.
    + now apply err_vadd_ok.
    + rewrite err_vadd_bad by assumption. now apply err_vadd_ok.
  - exists (err_clear s). simpl. repeat split; auto. now apply wf_clear.
Qed.

Lemma run_ok ops : forall s aops,
  wf s -> Forall2 matches ops aops ->
  exists s', run s ops = Ok s' /\ wf s' /\ length (e_buf s') = length (e_buf s) /\
             view s' = fold_left (astep (length (e_buf s))) aops (view s).
Proof.
  induction ops as [|o ops IH]; intros s aops Hw Hall; inversion Hall; subst.
  - exists s. simpl. auto.
  - destruct (step_ok s o y Hw H1) as (s1 & Hs1 & Hw1 & Hl1 & Hv1).
    destruct (IH s1 l' Hw1 H3) as (s' & Hs' & Hw' & Hl' & Hv').
    exists s'. cbn [ErrModel.run fold_left]. fold step. rewrite Hs1.
    split; [exact Hs'|]. split; [exact Hw'|]. split; [congruence|].
    rewrite Hv', Hv1, Hl1. reflexivity.
Qed.

(** the chain the documentation promises, over adds and clears *)
Fixpoint chain (old : list N) (aops : list aop) : list N :=
  match aops with
  | [] => old
  | AAdd text _ :: rest => chain (chain_step old text) rest
  | AClear :: rest => chain [] rest
  end.

Definition mem_ok (a : aop) : Prop := match a with AAdd _ ok => ok = true | AClear => True end.

Lemma step_abs_ok bufsz v text :
  fst (fst (step_abs bufsz v text true)) = chain_step (fst (fst v)) text.
Proof.
  destruct v as [[t room] dyn].
  destruct (step_abs_cases bufsz t room dyn text true) as [H|[H _]]; [exact H|discriminate].
Qed.

Lemma fold_chain bufsz aops : forall v,
  Forall mem_ok aops ->
  fst (fst (fold_left (astep bufsz) aops v)) = chain (fst (fst v)) aops.
Proof.
  induction aops as [|a aops IH]; intros v Hall; [reflexivity|].
  inversion Hall; subst. cbn [fold_left]. rewrite IH by assumption.
  destruct a as [text ok|]; simpl in *.
  - subst ok. now rewrite step_abs_ok.
  - reflexivity.
Qed.

Lemma fold_render newer : forall older,
  fold_left chain_step newer (render older) = render (rev newer ++ older).
Proof.
  induction newer as [|m newer IH]; intro older; [reflexivity|].
  cbn [fold_left rev]. change (chain_step (render older) m) with (render (m :: older)).
  rewrite IH, <- app_assoc. reflexivity.
Qed.

Lemma chain_adds texts old :
  chain old (map (fun t => AAdd t true) texts) = fold_left chain_step texts old.
Proof.
  revert old. induction texts as [|t texts IH]; intro old; [reflexivity|].
  simpl. apply IH.
Qed.

Lemma intercalate_nonempty m msgs :
  Forall (fun m => m <> []) (m :: msgs) -> intercalate (m :: msgs) <> [].
Proof.
  intro H. inversion H as [|? ? Hm _]; subst.
  destruct msgs; simpl; [assumption|]. destruct m; [contradiction|discriminate].
Qed.

Lemma render_intercalate msgs :
  Forall (fun m => m <> []) msgs -> render msgs = intercalate msgs.
Proof.
  induction msgs as [|m msgs IH]; intro H; [reflexivity|].
  inversion H as [|? ? Hm Hrest]; subst. cbn [render]. rewrite IH by assumption.
  destruct msgs as [|m2 msgs]; [reflexivity|].
  change (intercalate (m :: m2 :: msgs)) with (m ++ sep ++ intercalate (m2 :: msgs)).
  pose proof (intercalate_nonempty m2 msgs Hrest) as Hne.
  destruct (intercalate (m2 :: msgs)); [contradiction|reflexivity].
Qed.

(** * The statements used by Properties_C16.v *)

(** [str] is NULL, or points into a live buffer with a NUL after it inside
    that buffer *)
Definition terminated (s : est) : Prop :=
  match e_str s with
  | None => True
  | Some (r, off) =>
      exists m t, mem s r = Some m /\ cstr_at m off = Some t /\ off + length t < length m
  end.

Lemma wf_terminated s : wf s -> terminated s.
Proof.
  intros [_ Hw]. unfold terminated. destruct (e_str s) as [[r off]|]; [|exact I].
  destruct r.
  - destruct Hw as (t & Hh). exists (e_buf s), t. split; [reflexivity|].
    split; [now apply holds_cstr|]. destruct Hh as (pre & rest & -> & <- & _). lens. lia.
  - destruct Hw as (d & t & Hd & Hh & _). exists d, t. split; [exact Hd|].
    split; [now apply holds_cstr|]. destruct Hh as (pre & rest & -> & <- & _). lens. lia.
  - contradiction.
Qed.

Lemma wf_init buf0 : 2 <= length buf0 -> wf (err_init buf0).
Proof. intro H. split; simpl; auto. Qed.

Lemma history_safe s ops aops :
  wf s -> Forall2 matches ops aops ->
  exists s', run s ops = Ok s' /\ terminated s' /\ length (e_buf s') = length (e_buf s).
Proof.
  intros Hw Hm. destruct (run_ok ops s aops Hw Hm) as (s' & Hr & Hw' & Hl & _).
  exists s'. split; [exact Hr|]. split; [now apply wf_terminated|exact Hl].
Qed.

Lemma history_chain s ops aops :
  wf s -> Forall2 matches ops aops -> Forall mem_ok aops ->
  exists s', run s ops = Ok s' /\ cur s' = chain (cur s) aops.
Proof.
  intros Hw Hm Hok. destruct (run_ok ops s aops Hw Hm) as (s' & Hr & _ & _ & Hv).
  exists s'. split; [exact Hr|]. unfold cur. rewrite Hv. now apply fold_chain.
Qed.

Lemma cur_init buf0 : cur (err_init buf0) = [].
Proof. reflexivity. Qed.

Lemma history_render buf0 ops texts :
  2 <= length buf0 ->
  Forall2 matches ops (map (fun t => AAdd t true) texts) ->
  exists s', run (err_init buf0) ops = Ok s' /\ cur s' = render (rev texts) /\
             (Forall (fun m => m <> []) texts -> cur s' = intercalate (rev texts)).
Proof.
  intros Hb Hm.
  destruct (history_chain (err_init buf0) ops _ (wf_init _ Hb) Hm) as (s' & Hr & Hc).
  { apply Forall_forall. intros a Ha. apply in_map_iff in Ha as (t & <- & _). reflexivity. }
  exists s'. split; [exact Hr|].
  rewrite cur_init, chain_adds in Hc.
  change (@nil N) with (render []) in Hc. rewrite fold_render, app_nil_r in Hc.
  split; [exact Hc|]. intro Hne. rewrite Hc. apply render_intercalate.
  now apply Forall_rev.
Qed.

Lemma add_exact s f text ok :
  wf s -> matches (OpAdd F f ok) (AAdd text ok) ->
  exists s', err_vadd s f ok = Ok s' /\ wf s' /\
    view s' = step_abs (length (e_buf s)) (view s) text ok.
Proof.
  intros Hw Hm. destruct (step_ok s _ _ Hw Hm) as (s' & Hs & Hw' & _ & Hv).
  exists s'. auto.
Qed.

Lemma add_prepend_only s f text ok :
  wf s -> matches (OpAdd F f ok) (AAdd text ok) ->
  exists s', err_vadd s f ok = Ok s' /\
    ((exists prefix, cur s' = prefix ++ cur s) \/
     (cur s <> [] /\ cur s' = ch_lt :: tl (cur s))).
Proof.
  intros Hw Hm. destruct (add_exact s f text ok Hw Hm) as (s' & Hs & _ & Hv).
  exists s'. split; [exact Hs|]. unfold cur. rewrite Hv.
  destruct (view s) as [[t room] dyn]. cbn [fst].
  destruct (step_abs_cases (length (e_buf s)) t room dyn text ok)
    as [H | (_ & [(px & H) | (Hne & H)])]; cbn zeta in H; rewrite H.
  - left. unfold chain_step. destruct t.
    + exists text. now rewrite app_nil_r.
    + exists (text ++ sep). now rewrite <- app_assoc.
  - left. exists (ch_lt :: px). reflexivity.
  - right. auto.
Qed.

Lemma add_truncation_marked s f text ok :
  wf s -> matches (OpAdd F f ok) (AAdd text ok) ->
  exists s', err_vadd s f ok = Ok s' /\
    add_spec ok (cur s) text (cur s') = true /\
    (cur s' = chain_step (cur s) text \/
     (ok = false /\ hd_error (cur s') = Some ch_lt)).
Proof.
  intros Hw Hm. destruct (add_exact s f text ok Hw Hm) as (s' & Hs & _ & Hv).
  exists s'. split; [exact Hs|]. unfold cur. rewrite Hv.
  destruct (view s) as [[t room] dyn]. cbn [fst].
  split; [apply step_abs_add_spec|].
  destruct (step_abs_cases (length (e_buf s)) t room dyn text ok)
    as [H | (Hok & [(px & H) | (Hne & H)])]; cbn zeta in H; rewrite H.
  - now left.
  - right. split; [exact Hok|reflexivity].
  - right. split; [exact Hok|reflexivity].
Qed.

(** no truncation when the message fits before the text, whatever realloc would say *)
Lemma add_fits_exact s f text ok :
  wf s -> matches (OpAdd F f ok) (AAdd text ok) ->
  (cur s = [] /\ length text <= length (e_buf s) - 1 \/
   cur s <> [] /\ length text + 2 <= snd (fst (view s))) ->
  exists s', err_vadd s f ok = Ok s' /\ cur s' = chain_step (cur s) text.
Proof.
  intros Hw Hm Hroom. destruct (add_exact s f text ok Hw Hm) as (s' & Hs & _ & Hv).
  exists s'. split; [exact Hs|]. unfold cur in *. rewrite Hv.
  destruct (view s) as [[t room] dyn]. cbn [fst snd] in *.
  unfold step_abs, step_core. destruct Hroom as [[-> Hl]|[Hne Hl]].
  - cbn [firstn]. rewrite app_nil_r.
    destruct (Nat.leb_spec (length text) (length (e_buf s) - 1)); [|lia].
    simpl. now rewrite app_nil_r.
  - destruct t as [|b t1]; [contradiction|].
    change (firstn 2 delim) with delim. rewrite app_length. change (length delim) with 2.
    destruct (Nat.leb_spec (length text + 2) room); [|lia].
    simpl. now rewrite <- app_assoc.
Qed.

Lemma clear_empty s :
  wf s -> err_str (err_clear s) = None /\ wf (err_clear s) /\ cur (err_clear s) = [].
Proof. intro Hw. split; [reflexivity|]. split; [now apply wf_clear|reflexivity]. Qed.

(** after a clear nothing of the old text can come back *)
Lemma clear_then_add s f text ok :
  wf s -> matches (OpAdd F f ok) (AAdd text ok) ->
  (ok = true \/ length text <= length (e_buf s) - 1) ->
  exists s', err_vadd (err_clear s) f ok = Ok s' /\ cur s' = text.
Proof.
  intros Hw Hm Hroom.
  destruct (add_exact (err_clear s) f text ok (wf_clear _ Hw) Hm) as (s' & Hs & _ & Hv).
  exists s'. split; [exact Hs|]. unfold cur. rewrite Hv.
  change (view (err_clear s)) with (@nil N, 0, false).
  change (length (e_buf (err_clear s))) with (length (e_buf s)).
  unfold step_abs, step_core. cbn [firstn]. rewrite app_nil_r.
  destruct (Nat.leb_spec (length text) (length (e_buf s) - 1)).
  - simpl. now rewrite app_nil_r.
  - destruct Hroom as [-> | Hl]; [|lia]. simpl. now rewrite app_nil_r.
Qed.

(** a non-empty message always leaves a non-empty string, whatever the allocator does *)
Lemma add_nonempty s f text ok :
  wf s -> matches (OpAdd F f ok) (AAdd text ok) ->
  text <> [] \/ cur s <> [] ->
  exists s', err_vadd s f ok = Ok s' /\ cur s' <> [].
Proof.
  intros Hw Hm Hne. destruct (add_exact s f text ok Hw Hm) as (s' & Hs & _ & Hv).
  exists s'. split; [exact Hs|]. unfold cur in *. rewrite Hv.
  destruct (view s) as [[t room] dyn]. cbn [fst] in *.
  destruct (step_abs_cases (length (e_buf s)) t room dyn text ok)
    as [H | (_ & [(px & H) | (_ & H)])]; cbn zeta in H; rewrite H; try discriminate.
  unfold chain_step. destruct t.
  - destruct Hne; auto.
  - destruct text; discriminate.
Qed.

End Proofs.
