(** Specification of the error message chain (C16), written from the
    documentation of [kdump_get_err] / [kdump_err] and the property text:
    the error string is the chain of messages added while the failure
    propagated, newest first, separated by ": "; when memory for a long chain
    cannot be obtained it degrades to a marked truncation that preserves the
    oldest text. *)
From Coq Require Import NArith List Bool Arith.
Import ListNotations.

Definition sep : list N := [58; 32]%N.      (* ": " *)
Definition mark : N := 60.                  (* '<' *)

(** messages joined by [sep] *)
Fixpoint intercalate (msgs : list (list N)) : list N :=
  match msgs with
  | [] => []
  | [m] => m
  | m :: rest => m ++ sep ++ intercalate rest
  end.

(** one prepend: nothing to separate from when there is no text yet *)
Definition chain_step (old msg : list N) : list N :=
  match old with [] => msg | _ => msg ++ sep ++ old end.

(** the chain of a history of messages, newest first *)
Fixpoint render (newest_first : list (list N)) : list N :=
  match newest_first with
  | [] => []
  | m :: older => chain_step (render older) m
  end.

Fixpoint list_eqb (a b : list N) : bool :=
  match a, b with
  | [], [] => true
  | x :: a', y :: b' => (x =? y)%N && list_eqb a' b'
  | _, _ => false
  end.

(** [new = prefix ++ old] for some prefix *)
Definition keeps_old (old new : list N) : bool :=
  (length old <=? length new) && list_eqb (skipn (length new - length old) new) old.

(** a marked truncation: the old text is kept and the new text starts with
    the marker, or (no room at all) the marker replaces the first byte of the
    old text *)
Definition marked (old new : list N) : bool :=
  (keeps_old old new && match new with b :: _ => (b =? mark)%N | [] => false end)
  || match old with _ :: tl => list_eqb new (mark :: tl) | [] => false end.

(** what one add may do to the visible string; [alloc_ok] = memory for a
    longer chain could be obtained *)
Definition add_spec (alloc_ok : bool) (old msg new : list N) : bool :=
  list_eqb new (chain_step old msg) || (negb alloc_ok && marked old new).

