(** Specification of callback layering (C17), from the documentation of
    [addrxlat_ctx_add_cb]: a hook that a layer leaves untouched behaves
    exactly as the previously installed implementation would — the first
    implementation at or below the top of the stack, invoked with its own
    record (hence its own private data). *)
From Coq Require Import List.
From KdV Require Import Cb.CbModel.
Import ListNotations.

Section Spec.
Variables P A R : Type.

Fixpoint invoke_spec (s : stack P A R) (h : hook) (arg : A) : option R :=
  match s with
  | [] => None
  | l :: rest =>
      match l_hook P A R l h with
      | Some f => Some (f (l_priv P A R l) arg)
      | None => invoke_spec rest h arg
      end
  end.

(** the context's own record at the bottom implements every hook *)
Definition base_complete (s : stack P A R) : Prop :=
  exists upper base, s = upper ++ [base] /\ forall h, l_hook P A R base h <> None.

End Spec.
