(** Callback layers and the read cache together (C17): histories that
    interleave translations (reads through the context's 4-slot read cache,
    Hist/ReadCache.v) with [addrxlat_ctx_add_cb] / [addrxlat_ctx_del_cb].

    The cache's page source is the [get_page] hook, invoked the way
    [get_cache_buf] invokes it ([ctx->cb->get_page(ctx->cb, &slot->buffer)]),
    i.e. through whatever layers are installed at that moment.
    [addrxlat_ctx_add_cb] and [addrxlat_ctx_del_cb] change [ctx->cb] and the
    record list only; they do not touch [ctx->cache] (transcribed from the two
    functions).  No proofs in this file. *)
From Coq Require Import NArith List Bool Arith.
From KdV Require Import Base.Wrap64 Cb.CbModel Hist.ReadCache.
Import ListNotations.

Section CbCache.
Variable P : Type.

(** hook arguments and results: get_page maps (address space, address) to a
    region (start, size, bytes) or failure; read_caps returns the mask of the
    address spaces the implementation can read directly *)
Definition PA : Type := (N * N)%type.
Inductive hres := HPage (r : option (N * N * list byte)) | HCaps (mask : N).
Definition PR : Type := hres.

Definition lstack := stack P PA PR.

Inductive hop :=
| HAdd (priv : P)              (* cb = addrxlat_ctx_add_cb(ctx); cb->priv = priv; nothing overridden *)
| HAddCaps (priv : P) (mask : N)   (* ... and cb->read_caps = an implementation returning mask *)
| HDel (pos : nat)             (* addrxlat_ctx_del_cb(ctx, record at position pos) *)
| HRead (a_as a n : N)         (* a translation step that reads n bytes at (a_as, a) *)
| HBury (a_as a : N).          (* bury_cache_buffer *)

(** ctx->cb->get_page(ctx->cb, buf) *)
Definition gp (s : lstack) (a_as a : N) : option (N * N * list byte) :=
  match invoke P PA PR true s HGetPage (a_as, a) (S (length s)) with
  | Done _ (HPage r) => r
  | _ => None
  end.

(** ctx->cb->read_caps(ctx->cb): asked by read32 / read64 for every single read *)
Definition caps (s : lstack) : N :=
  match invoke P PA PR true s HReadCaps (0%N, 0%N) (S (length s)) with
  | Done _ (HCaps m) => m
  | _ => 0%N
  end.

(** read32/read64: if (read_caps & ADDRXLAT_CAPS(addr->as)) read directly, else
    convert the address to a readable space first (internal_op).  The model
    has the two physical address spaces 0 (KPHYSADDR) and 1 (MACHPHYSADDR)
    with identity maps between them, which is what harness/cb_drv.c installs:
    the address is unchanged and the space becomes the other one if that is
    readable; [None] = "No way to translate" *)
Definition eff_as (mask a_as : N) : option N :=
  if N.testbit mask a_as then Some a_as
  else
    let other := (1 - a_as)%N in
    if (a_as <=? 1)%N && N.testbit mask other then Some other else None.

Definition caps_layer (p : P) (mask : N) : layer P PA PR :=
  {| l_priv := p;
     l_hook := fun h => match h with
                        | HReadCaps => Some (fun _ _ => HCaps mask)
                        | _ => None
                        end |}.

Record hstate := { h_stack : lstack; h_cache : cache }.

Definition hstep (st : hstate) (o : hop) : hstate * list event * option rres :=
  match o with
  | HAdd p => ({| h_stack := add_cb P PA PR p (h_stack st); h_cache := h_cache st |}, [], None)
  | HAddCaps p m => ({| h_stack := caps_layer p m :: h_stack st; h_cache := h_cache st |}, [], None)
  | HDel i => ({| h_stack := del_cb P PA PR i (h_stack st); h_cache := h_cache st |}, [], None)
  | HRead a_as a n =>
      match eff_as (caps (h_stack st)) a_as with
      | None => (st, [], Some RFail)
      | Some as' =>
          let '(c', ev, r) := read (gp (h_stack st)) (h_cache st) as' a n in
          ({| h_stack := h_stack st; h_cache := c' |}, ev, Some r)
      end
  | HBury a_as a =>
      ({| h_stack := h_stack st; h_cache := bury (h_cache st) a_as a |}, [], None)
  end.

Fixpoint hrun (st : hstate) (ops : list hop) : hstate * list event * list rres :=
  match ops with
  | [] => (st, [], [])
  | o :: ops' =>
      let '(st1, ev1, r1) := hstep st o in
      let '(st2, ev2, rs) := hrun st1 ops' in
      (st2, ev1 ++ ev2, match r1 with Some r => r :: rs | None => rs end)
  end.

(** the same history without the layer operations, for a context whose
    read capabilities are [mask] throughout *)
Fixpoint erase (mask : N) (ops : list hop) : list op :=
  match ops with
  | [] => []
  | HRead a_as a n :: r =>
      match eff_as mask a_as with
      | Some as' => ORead as' a n [] :: erase mask r
      | None => erase mask r
      end
  | HBury a_as a :: r => OBury a_as a :: erase mask r
  | _ :: r => erase mask r
  end.

(** only pass-through layers are added, deletions only of layers that were
    added on top of the initial stack, every read is of a space that can be
    read or converted under [mask] *)
Fixpoint dels_ok (mask : N) (depth : nat) (ops : list hop) : bool :=
  match ops with
  | [] => true
  | HAdd _ :: r => dels_ok mask (S depth) r
  | HAddCaps _ _ :: _ => false
  | HDel i :: r => Nat.ltb i depth && dels_ok mask (depth - 1) r
  | HRead a_as _ _ :: r =>
      match eff_as mask a_as with Some _ => dels_ok mask depth r | None => false end
  | HBury _ _ :: r => dels_ok mask depth r
  end.

End CbCache.

(** The page source of the correspondence run (what the base layer of
    harness/cb_drv.c serves; the check compares the two on probe addresses
    before it runs the histories): 0x100-byte regions, every region whose
    number is 3 mod 8 fails, the byte at address [a] of space [as] is
    (a*13 + as*3 + 1) mod 256 — so the same address read through another
    address space gives different bytes.  Defined here — not borrowed from another
    engine — so that it changes only together with the driver. *)
Fixpoint cb_bytes (v : N) (n : nat) : list byte :=
  match n with
  | O => []
  | S n' => v :: cb_bytes ((v + 13) mod 256)%N n'
  end.

Definition cb_page_source (a_as a : N) : option (N * N * list byte) :=
  if (W <=? a)%N then None
  else
    let blk := (a / 0x100)%N in
    if (blk mod 8 =? 3)%N then None
    else Some ((blk * 0x100)%N, 0x100%N,
               cb_bytes ((blk * 0x100 * 13 + a_as * 3 + 1) mod 256)%N 256).
