(** Callback layers and the read cache together (C17): histories that
    interleave translations (reads through the context's 4-slot read cache,
    Hist/ReadCache.v) with [addrxlat_ctx_add_cb] / [addrxlat_ctx_del_cb].

    The cache's page source is the [get_page] hook, invoked the way
    [get_cache_buf] invokes it ([ctx->cb->get_page(ctx->cb, &slot->buffer)]),
    i.e. through whatever layers are installed at that moment.
    [addrxlat_ctx_add_cb] and [addrxlat_ctx_del_cb] change [ctx->cb] and the
    record list only; they do not touch [ctx->cache] (transcribed from the two
    functions).  No proofs in this file. *)
From Coq Require Import NArith List Bool Arith.
From KdV Require Import Base.Wrap64 Cb.CbModel Hist.ReadCache.
Import ListNotations.

Section CbCache.
Variable P : Type.

(** the get_page hook: address space and address in, region (start, size,
    bytes) or failure out *)
Definition PA : Type := (N * N)%type.
Definition PR : Type := option (N * N * list byte).

Definition lstack := stack P PA PR.

Inductive hop :=
| HAdd (priv : P)              (* cb = addrxlat_ctx_add_cb(ctx); cb->priv = priv; nothing overridden *)
| HDel (pos : nat)             (* addrxlat_ctx_del_cb(ctx, record at position pos) *)
| HRead (a_as a n : N)         (* a translation step that reads n bytes at (a_as, a) *)
| HBury (a_as a : N).          (* bury_cache_buffer *)

(** ctx->cb->get_page(ctx->cb, buf) *)
Definition gp (s : lstack) (a_as a : N) : PR :=
  match invoke P PA PR true s HGetPage (a_as, a) (S (length s)) with
  | Done _ r => r
  | _ => None
  end.

Record hstate := { h_stack : lstack; h_cache : cache }.

Definition hstep (st : hstate) (o : hop) : hstate * list event * option rres :=
  match o with
  | HAdd p => ({| h_stack := add_cb P PA PR p (h_stack st); h_cache := h_cache st |}, [], None)
  | HDel i => ({| h_stack := del_cb P PA PR i (h_stack st); h_cache := h_cache st |}, [], None)
  | HRead a_as a n =>
      let '(c', ev, r) := read (gp (h_stack st)) (h_cache st) a_as a n in
      ({| h_stack := h_stack st; h_cache := c' |}, ev, Some r)
  | HBury a_as a =>
      ({| h_stack := h_stack st; h_cache := bury (h_cache st) a_as a |}, [], None)
  end.

Fixpoint hrun (st : hstate) (ops : list hop) : hstate * list event * list rres :=
  match ops with
  | [] => (st, [], [])
  | o :: ops' =>
      let '(st1, ev1, r1) := hstep st o in
      let '(st2, ev2, rs) := hrun st1 ops' in
      (st2, ev1 ++ ev2, match r1 with Some r => r :: rs | None => rs end)
  end.

(** the same history without the layer operations *)
Fixpoint erase (ops : list hop) : list op :=
  match ops with
  | [] => []
  | HRead a_as a n :: r => ORead a_as a n [] :: erase r
  | HBury a_as a :: r => OBury a_as a :: erase r
  | _ :: r => erase r
  end.

(** deletions only of layers that were added on top of the initial stack *)
Fixpoint dels_ok (depth : nat) (ops : list hop) : bool :=
  match ops with
  | [] => true
  | HAdd _ :: r => dels_ok (S depth) r
  | HDel i :: r => Nat.ltb i depth && dels_ok (depth - 1) r
  | _ :: r => dels_ok depth r
  end.

End CbCache.

(** The page source of the correspondence run (what the base layer of
    harness/cb_drv.c serves; the check compares the two on probe addresses
    before it runs the histories): 0x100-byte regions, every region whose
    number is 3 mod 8 fails, the byte at address [a] of space [as] is
    (a*13 + as*3 + 1) mod 256.  Defined here — not borrowed from another
    engine — so that it changes only together with the driver. *)
Fixpoint cb_bytes (v : N) (n : nat) : list byte :=
  match n with
  | O => []
  | S n' => v :: cb_bytes ((v + 13) mod 256)%N n'
  end.

Definition cb_page_source (a_as a : N) : option (N * N * list byte) :=
  if (W <=? a)%N then None
  else
    let blk := (a / 0x100)%N in
    if (blk mod 8 =? 3)%N then None
    else Some ((blk * 0x100)%N, 0x100%N,
               cb_bytes ((blk * 0x100 * 13 + a_as * 3 + 1) mod 256)%N 256).
