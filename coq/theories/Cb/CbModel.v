(** Model of the callback layers of an address translation context
    (src/addrxlat/ctx.c: [addrxlat_ctx_add_cb], [addrxlat_ctx_del_cb], the
    seven [next_*_cb] default hooks, and the way the library invokes a hook:
    [ctx->cb->hook(ctx->cb, ...)]).

    A context is the list of its callback records, [ctx->cb] first, the
    embedded [ctx->def_cb] last; a pointer to a record is its position in the
    list ([cb->next] = position + 1, NULL past the end).  A hook slot holds
    [Some implementation] or [None] = the [next_<hook>_cb] function that
    [addrxlat_ctx_add_cb] installs.  An implementation gets what the C
    function gets: the record it is called with — of which it can read
    [priv] — and the hook's arguments.

    [next_<hook>_cb(cb, args)] is [cb->next-><hook>(X, args)]:
      X = [cb->next] for get_page and read_caps,
      X = [cb]       for reg_value, sym_value, sym_sizeof, sym_offsetof and
                     num_value in the pinned tree ([repaired = false]),
      X = [cb->next] for all seven after fixes/03-next-cb-pass-next.patch. *)
From Coq Require Import List Bool Arith.
Import ListNotations.

Inductive hook :=
| HGetPage | HReadCaps | HRegValue | HSymValue | HSymSizeof | HSymOffsetof | HNumValue.

Definition all_hooks : list hook :=
  [HGetPage; HReadCaps; HRegValue; HSymValue; HSymSizeof; HSymOffsetof; HNumValue].

(** does [next_<hook>_cb] pass [cb->next] (true) or [cb] (false)? — transcribed
    from the seven functions *)
Definition passes_next (repaired : bool) (h : hook) : bool :=
  match h with
  | HGetPage => true            (* return cb->next->get_page(cb->next, buf); *)
  | HReadCaps => true           (* return cb->next->read_caps(cb->next); *)
  | HRegValue => repaired       (* return cb->next->reg_value(cb, name, val); *)
  | HSymValue => repaired       (* return cb->next->sym_value(cb, name, val); *)
  | HSymSizeof => repaired      (* return cb->next->sym_sizeof(cb, name, val); *)
  | HSymOffsetof => repaired    (* return cb->next->sym_offsetof(cb, obj, elem, val); *)
  | HNumValue => repaired       (* return cb->next->num_value(cb, name, val); *)
  end.

Section Cb.
Variables P A R : Type.    (* private data, hook arguments, hook results *)

Definition impl := P -> A -> R.

Record layer := { l_priv : P; l_hook : hook -> option impl }.

Definition stack := list layer.

Inductive outcome := Done (r : R) | NullDeref | OutOfFuel.

Variable repaired : bool.

(** call the function in slot [h] of record [slot] with [cb] = record [passed] *)
Fixpoint call (s : stack) (h : hook) (arg : A) (fuel slot passed : nat) : outcome :=
  match fuel with
  | O => OutOfFuel
  | S fuel' =>
      match nth_error s slot, nth_error s passed with
      | Some ls, Some lp =>
          match l_hook ls h with
          | Some f => Done (f (l_priv lp) arg)
          | None =>
              (* next_<h>_cb(cb = passed): cb->next-><h>(cb->next or cb, ...) *)
              let nx := S passed in
              call s h arg fuel' nx (if passes_next repaired h then nx else passed)
          end
      | _, _ => NullDeref
      end
  end.

(** the library's own invocation: ctx->cb->hook(ctx->cb, ...) *)
Definition invoke (s : stack) (h : hook) (arg : A) (fuel : nat) : outcome :=
  call s h arg fuel 0 0.

(** ** Invocation sites inside the two libraries

    Every in-library call of a hook fetches the top record ([ctx->cb] in
    libaddrxlat, [addrxlat_ctx_get_cb(ctx->xlatctx)] in libkdumpfile) and
    calls the function in its slot.  What it passes as [cb] is transcribed per
    site: [PassSame] = the record whose slot is called, [PassOther p] = some
    other record (position [p] in the stack), e.g. the dump object's own
    record [ctx->xlatcb]. *)
Inductive site_arg := PassSame | PassOther (pos : nat).

Definition invoke_site (s : stack) (h : hook) (arg : A) (fuel : nat) (sa : site_arg) : outcome :=
  call s h arg fuel 0 (match sa with PassSame => 0 | PassOther p => p end).

(** addrxlat_ctx_add_cb: a new record in front, priv = NULL, all hooks default *)
Definition add_cb (null : P) (s : stack) : stack :=
  {| l_priv := null; l_hook := fun _ => None |} :: s.

(** addrxlat_ctx_del_cb(ctx, cb) with cb = the record at position [i]:
    unlink it (nothing happens if it is not in the list) *)
Fixpoint del_cb (i : nat) (s : stack) : stack :=
  match s, i with
  | [], _ => []
  | _ :: rest, O => rest
  | l :: rest, S i' => l :: del_cb i' rest
  end.

Definition hook_eqb (a b : hook) : bool :=
  match a, b with
  | HGetPage, HGetPage | HReadCaps, HReadCaps | HRegValue, HRegValue
  | HSymValue, HSymValue | HSymSizeof, HSymSizeof | HSymOffsetof, HSymOffsetof
  | HNumValue, HNumValue => true
  | _, _ => false
  end.

(** the application overrides a hook / sets priv of the record at position [i] *)
Fixpoint set_hook (i : nat) (h : hook) (f : impl) (s : stack) : stack :=
  match s, i with
  | [], _ => []
  | l :: rest, O =>
      {| l_priv := l_priv l;
         l_hook := fun h' => if hook_eqb h' h then Some f else l_hook l h' |} :: rest
  | l :: rest, S i' => l :: set_hook i' h f rest
  end.

Fixpoint set_priv (i : nat) (p : P) (s : stack) : stack :=
  match s, i with
  | [], _ => []
  | l :: rest, O => {| l_priv := p; l_hook := l_hook l |} :: rest
  | l :: rest, S i' => l :: set_priv i' p rest
  end.

End Cb.

(** the call sites of this tree (file:function, hook, what is passed):
      addrxlat/ctx.c:read_page        ctx->cb->get_page(ctx->cb, ...)
      addrxlat/ctx.c:do_read32, do_read64, addrxlat_ctx_read... (3 sites)
                                       ctx->cb->read_caps(ctx->cb)
      addrxlat/x86_64.c (2 sites)      ctl->ctx->cb->read_caps(ctl->ctx->cb)
      addrxlat/ctx.c:get_reg           ctx->cb->reg_value(ctx->cb, ...)
      addrxlat/ctx.c:get_symval        ctx->cb->sym_value(ctx->cb, ...)
      addrxlat/ctx.c:get_sizeof        ctx->cb->sym_sizeof(ctx->cb, ...)
      addrxlat/ctx.c:get_offsetof      ctx->cb->sym_offsetof(ctx->cb, ...)
      addrxlat/ctx.c:get_number        ctx->cb->num_value(ctx->cb, ...)
      kdumpfile/util.c:get_symbol_val  cb = addrxlat_ctx_get_cb(ctx->xlatctx); cb->sym_value(cb, ...)
    The check scans the sources for "->hook(" calls and compares with this table. *)
Definition library_sites : list (hook * site_arg) :=
  [ (HGetPage, PassSame);
    (HReadCaps, PassSame); (HReadCaps, PassSame); (HReadCaps, PassSame);
    (HReadCaps, PassSame); (HReadCaps, PassSame);
    (HRegValue, PassSame);
    (HSymValue, PassSame); (HSymValue, PassSame);
    (HSymSizeof, PassSame);
    (HSymOffsetof, PassSame);
    (HNumValue, PassSame) ].
