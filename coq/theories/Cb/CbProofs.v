(** Proofs about the callback layers (C17). *)
From Coq Require Import List Bool Arith Lia.
From KdV Require Import Cb.CbModel Cb.CbSpec.
Import ListNotations.

Section Proofs.
Variables P A R : Type.

Notation stack := (stack P A R).
Notation layer := (layer P A R).
Notation call := (call P A R).
Notation invoke := (invoke P A R).
Notation invoke_spec := (invoke_spec P A R).
Notation base_complete := (base_complete P A R).
Notation l_hook := (l_hook P A R).
Notation l_priv := (l_priv P A R).

Definition of_spec (o : option R) : outcome R :=
  match o with Some r => Done R r | None => NullDeref R end.

Lemma skipn_nth_error (s : stack) : forall i l,
  nth_error s i = Some l -> skipn i s = l :: skipn (S i) s.
Proof.
  induction s as [|x s IH]; intros [|i] l H; simpl in *; try discriminate.
  - now inversion H.
  - now apply IH.
Qed.

(** when the default hook passes [cb->next], calling slot [i] with record [i]
    runs the first implementation at or below [i] with its own record *)
Lemma call_spec repaired (s : stack) h arg :
  passes_next repaired h = true ->
  forall fuel i, length s - i < fuel ->
  call repaired s h arg fuel i i = of_spec (invoke_spec (skipn i s) h arg).
Proof.
  intro Hp. induction fuel as [|fuel IH]; intros i Hf; [lia|].
  cbn [CbModel.call]. destruct (nth_error s i) as [l|] eqn:Hn.
  - rewrite (skipn_nth_error s i l Hn). cbn [CbSpec.invoke_spec].
    destruct (l_hook l h) as [f|]; [reflexivity|].
    rewrite Hp. apply IH.
    assert (i < length s) by (apply nth_error_Some; congruence). lia.
  - apply nth_error_None in Hn. rewrite skipn_all2 by assumption. reflexivity.
Qed.

Lemma spec_some (s : stack) h arg :
  base_complete s -> exists r, invoke_spec s h arg = Some r.
Proof.
  intros (upper & base & -> & Hb). induction upper as [|l upper IH]; simpl.
  - destruct (l_hook base h) as [f|] eqn:E; [eauto|]. exfalso. exact (Hb h E).
  - destruct (l_hook l h); eauto.
Qed.

(** every hook, any depth, any override pattern: the library's invocation
    reaches the first implementation at or below the top and hands it its own
    record *)
Lemma passthrough (s : stack) h arg fuel :
  base_complete s -> length s < fuel ->
  exists r, invoke true s h arg fuel = Done R r /\ invoke_spec s h arg = Some r.
Proof.
  intros Hb Hf. destruct (spec_some s h arg Hb) as (r & Hr). exists r. split; [|exact Hr].
  unfold CbModel.invoke. rewrite call_spec; [|destruct h; reflexivity|lia].
  cbn [skipn]. now rewrite Hr.
Qed.

(** the two hooks that were right in the pinned tree *)
Lemma passthrough_pinned_ok (s : stack) h arg fuel :
  h = HGetPage \/ h = HReadCaps ->
  base_complete s -> length s < fuel ->
  exists r, invoke false s h arg fuel = Done R r /\ invoke_spec s h arg = Some r.
Proof.
  intros Hh Hb Hf. destruct (spec_some s h arg Hb) as (r & Hr). exists r. split; [|exact Hr].
  unfold CbModel.invoke. rewrite call_spec; [|destruct Hh as [-> | ->]; reflexivity|lia].
  cbn [skipn]. now rewrite Hr.
Qed.

(** a layer that leaves a hook untouched changes nothing for that hook *)
Lemma untouched_hook_changes_nothing (s : stack) (l : layer) h arg fuel :
  l_hook l h = None -> base_complete s -> length s < fuel ->
  invoke true (l :: s) h arg (S fuel) = invoke true s h arg fuel /\
  invoke_spec (l :: s) h arg = invoke_spec s h arg.
Proof.
  intros Hl Hb Hf. split.
  - unfold CbModel.invoke. rewrite !call_spec; try (destruct h; reflexivity); try (simpl; lia).
    cbn [skipn CbSpec.invoke_spec]. now rewrite Hl.
  - simpl. now rewrite Hl.
Qed.

Lemma add_cb_changes_nothing (s : stack) null h arg fuel :
  base_complete s -> length s < fuel ->
  invoke true (add_cb P A R null s) h arg (S fuel) = invoke true s h arg fuel.
Proof.
  intros Hb Hf. now apply untouched_hook_changes_nothing.
Qed.

(** removing the layer restores the previous state *)
Lemma add_del_restores (s : stack) null : del_cb P A R 0 (add_cb P A R null s) = s.
Proof. reflexivity. Qed.

Lemma del_cb_middle (upper lower : stack) (l : layer) :
  del_cb P A R (length upper) (upper ++ l :: lower) = upper ++ lower.
Proof. induction upper as [|u upper IH]; simpl; [reflexivity|now rewrite IH]. Qed.

Lemma base_complete_cons (s : stack) (l : layer) : base_complete s -> base_complete (l :: s).
Proof. intros (upper & base & -> & Hb). exists (l :: upper), base. split; auto. Qed.

(** ** Invocation sites *)

Notation invoke_site := (invoke_site P A R).

Lemma site_same_is_invoke repaired (s : stack) h arg fuel :
  invoke_site repaired s h arg fuel PassSame = invoke repaired s h arg fuel.
Proof. reflexivity. Qed.

Definition empty_layer (p : P) : layer := {| CbModel.l_priv := p; CbModel.l_hook := fun _ => None |}.

(** stacking any number of layers that override nothing (whatever their
    private data) on a context does not change what any in-library call site
    obtains: the same implementation, called with its own record *)
Lemma empty_layers_change_nothing (privs : list P) : forall (s : stack) h arg fuel,
  base_complete s -> length s < fuel ->
  invoke_site true (map empty_layer privs ++ s) h arg (length privs + fuel) PassSame
  = invoke_site true s h arg fuel PassSame /\
  exists r, invoke_site true s h arg fuel PassSame = Done R r /\ invoke_spec s h arg = Some r.
Proof.
  induction privs as [|p privs IH]; intros s h arg fuel Hb Hf.
  - split; [reflexivity|]. rewrite site_same_is_invoke. now apply passthrough.
  - destruct (IH s h arg fuel Hb Hf) as [IH1 IH2]. split; [|exact IH2].
    rewrite !site_same_is_invoke in *. cbn [map app length Nat.add].
    rewrite <- IH1.
    apply (untouched_hook_changes_nothing (map empty_layer privs ++ s) (empty_layer p) h arg).
    + reflexivity.
    + clear - Hb. induction privs as [|q privs IHp]; [exact Hb|]. now apply base_complete_cons.
    + rewrite app_length, map_length. lia.
Qed.

Lemma library_sites_pass_same : Forall (fun hs => snd hs = PassSame) library_sites.
Proof. repeat constructor. Qed.

End Proofs.

(** * The pinned default hooks (DESIGN item 3) *)

Definition demo_base : layer nat unit (nat * nat) :=
  {| l_priv := 0; l_hook := fun _ => Some (fun p _ => (0, p)) |}.
Definition demo_impl (k : nat) : layer nat unit (nat * nat) :=
  {| l_priv := k; l_hook := fun _ => Some (fun p _ => (k, p)) |}.
Definition demo_empty (k : nat) : layer nat unit (nat * nat) :=
  {| l_priv := k; l_hook := fun _ => None |}.

Lemma demo_base_complete s : base_complete nat unit (nat * nat) (s ++ [demo_base]).
Proof. exists s, demo_base. split; [reflexivity|]. intros h. discriminate. Qed.

(** one pass-through layer: the lower implementation sees the upper layer's priv *)
Lemma pinned_wrong_priv :
  invoke nat unit (nat * nat) false [demo_empty 2; demo_impl 1; demo_base] HRegValue tt 8
    = Done _ (1, 2) /\
  invoke_spec nat unit (nat * nat) [demo_empty 2; demo_impl 1; demo_base] HRegValue tt
    = Some (1, 1).
Proof. split; reflexivity. Qed.

(** two pass-through layers: the default hook calls itself forever *)
Lemma pinned_diverges fuel :
  invoke nat unit (nat * nat) false [demo_empty 3; demo_empty 2; demo_impl 1; demo_base]
         HSymValue tt fuel = OutOfFuel _.
Proof.
  unfold invoke.
  assert (H : forall f, call nat unit (nat * nat) false
                [demo_empty 3; demo_empty 2; demo_impl 1; demo_base] HSymValue tt f 1 0
              = OutOfFuel _).
  { induction f as [|f IH]; [reflexivity|]. cbn [call nth_error demo_empty l_hook passes_next].
    exact IH. }
  destruct fuel as [|fuel]; [reflexivity|].
  cbn [call nth_error demo_empty l_hook passes_next]. apply H.
Qed.

(** a call site that hands the top function some other record (here: the
    dump object's own record at position 1, below one empty layer) makes the
    pass-through default continue *below* that record: the dump object's
    implementation is skipped and the context's default answers *)
Lemma site_other_record_wrong :
  invoke_site nat unit (nat * nat) true [demo_empty 2; demo_impl 1; demo_base] HSymValue tt 8
              (PassOther 1) = Done _ (0, 0) /\
  invoke_site nat unit (nat * nat) true [demo_impl 1; demo_base] HSymValue tt 8 (PassOther 0)
    = Done _ (1, 1).
Proof. split; reflexivity. Qed.
