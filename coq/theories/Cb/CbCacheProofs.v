(** Layers do not disturb the read cache (C17). *)
From Coq Require Import NArith List Bool Arith Lia.
From KdV Require Import Base.Wrap64 Cb.CbModel Cb.CbSpec Cb.CbProofs Cb.CbCache
     Hist.ReadCache Hist.ReadCacheProofs.
Import ListNotations.

Section Proofs.
Variable P : Type.

Notation lstack := (lstack P).
Notation gp := (gp P).
Notation empty := (empty_layer P PA PR).

Lemma invoke_empty_layers (privs : list P) (s0 : lstack) h arg :
  base_complete P PA PR s0 ->
  invoke P PA PR true (map empty privs ++ s0) h arg (S (length (map empty privs ++ s0)))
  = invoke P PA PR true s0 h arg (S (length s0)).
Proof.
  intro Hb.
  destruct (empty_layers_change_nothing P PA PR privs s0 h arg (S (length s0)) Hb
              ltac:(lia)) as [H _].
  unfold invoke_site in H. fold (invoke P PA PR true (map empty privs ++ s0) h arg) in H.
  rewrite app_length, map_length.
  replace (S (length privs + length s0)) with (length privs + S (length s0)) by lia.
  unfold invoke. rewrite H. reflexivity.
Qed.

Lemma gp_empty_layers (privs : list P) (s0 : lstack) a_as a :
  base_complete P PA PR s0 -> gp (map empty privs ++ s0) a_as a = gp s0 a_as a.
Proof. intro Hb. unfold CbCache.gp. now rewrite invoke_empty_layers. Qed.

Lemma caps_empty_layers (privs : list P) (s0 : lstack) :
  base_complete P PA PR s0 -> caps P (map empty privs ++ s0) = caps P s0.
Proof. intro Hb. unfold CbCache.caps. now rewrite invoke_empty_layers. Qed.

(** [read] looks at the page source only at the requested address *)
Lemma read_ext g1 g2 c a_as a n :
  g1 a_as a = g2 a_as a -> read g1 c a_as a n = read g2 c a_as a n.
Proof.
  intro H. unfold read, get_cache_buf, get_cache_buf_re. now rewrite H.
Qed.

Lemma del_added (privs : list P) (s0 : lstack) i :
  i < length privs ->
  exists privs', del_cb P PA PR i (map empty privs ++ s0) = map empty privs' ++ s0 /\
                 length privs' = length privs - 1.
Proof.
  revert i. induction privs as [|p privs IH]; intros i Hi; [simpl in Hi; lia|].
  destruct i as [|i].
  - exists privs. simpl. split; [reflexivity|lia].
  - destruct (IH i ltac:(simpl in Hi; lia)) as (privs' & Hd & Hl).
    exists (p :: privs'). simpl. rewrite Hd. split; [reflexivity|]. simpl. simpl in Hi. lia.
Qed.

(** a history with pass-through layers added and deleted at any time has the
    events, the answers and the final cache of the same history without them,
    run over the base stack alone *)
Lemma hrun_erase (s0 : lstack) : base_complete P PA PR s0 ->
  forall ops privs c,
  dels_ok P (caps P s0) (length privs) ops = true ->
  let '(st', ev, rs) := hrun P {| h_stack := map empty privs ++ s0; h_cache := c |} ops in
  h_cache P st' = final (gp s0) c (erase P (caps P s0) ops) /\
  ev = snd (run (gp s0) c (erase P (caps P s0) ops)) /\
  map (fun r => OutR r) rs =
    filter (fun o => match o with OutR _ => true | _ => false end)
           (map fst (fst (run (gp s0) c (erase P (caps P s0) ops)))).
Proof.
  intro Hb. induction ops as [|o ops IH]; intros privs c Hd.
  - simpl. auto.
  - destruct o as [p | p m | i | a_as a n | a_as a]; cbn [hrun hstep erase dels_ok h_stack h_cache] in *.
    + specialize (IH (p :: privs) c Hd). cbn [map app] in IH.
      change (add_cb P PA PR p (map empty privs ++ s0)) with (empty p :: map empty privs ++ s0).
      destruct (hrun P _ ops) as [[st' ev] rs]. exact IH.
    + discriminate.
    + apply andb_true_iff in Hd as [Hi Hd]. apply Nat.ltb_lt in Hi.
      destruct (del_added privs s0 i Hi) as (privs' & Hdel & Hl). rewrite Hdel.
      rewrite <- Hl in Hd. specialize (IH privs' c Hd).
      destruct (hrun P _ ops) as [[st' ev] rs]. exact IH.
    + rewrite (caps_empty_layers privs s0 Hb).
      destruct (eff_as (caps P s0) a_as) as [as'|]; [|discriminate].
      rewrite (read_ext (gp (map empty privs ++ s0)) (gp s0)) by (now apply gp_empty_layers).
      destruct (read (gp s0) c as' a n) as [[c' ev1] r] eqn:Er.
      specialize (IH privs c' Hd).
      destruct (hrun P _ ops) as [[st' ev] rs]. destruct IH as (IH1 & IH2 & IH3).
      rewrite final_cons. cbn [run].
      rewrite (run_op_flat_read (gp s0) c as' a n), Er. cbn [fst snd].
      destruct (run (gp s0) c' (erase P (caps P s0) ops)) as [tr ev2] eqn:Erun. cbn [fst snd] in *.
      repeat split; [exact IH1|now rewrite IH2|]. cbn [map filter]. now rewrite IH3.
    + specialize (IH privs (bury c a_as a) Hd).
      destruct (hrun P _ ops) as [[st' ev] rs]. destruct IH as (IH1 & IH2 & IH3).
      rewrite final_cons. cbn [run run_op fst snd].
      destruct (run (gp s0) (bury c a_as a) (erase P (caps P s0) ops)) as [tr ev2] eqn:Erun.
      cbn [fst snd] in *.
      repeat split; [exact IH1|exact IH2|exact IH3].
Qed.

Lemma erase_flat m ops : forallb flat_op (erase P m ops) = true.
Proof.
  induction ops as [|[p|p k|i|x y z|x y] ops IH]; simpl; auto.
  destruct (eff_as m x); simpl; auto.
Qed.

(** every page obtained is put exactly once: along the history the gotten
    pages are the put pages plus those the slots hold, and the final
    [cleanup_cache] (context destruction) puts exactly those *)
(** the base page source hands out well-formed regions (as Hist/ReadCacheProofs assumes) *)
Definition regions_ok (g : N -> N -> option (N * N * list byte)) : Prop :=
  (forall a_as a b s d, g a_as a = Some (b, s, d) ->
     (b <= a < b + s)%N /\ N.of_nat (length d) = s /\ (b + s <= W)%N) /\
  (forall a_as a b s d a', g a_as a = Some (b, s, d) -> (b <= a' < b + s)%N ->
     g a_as a' = Some (b, s, d)).

Lemma layers_pages_balanced (s0 : lstack) ops :
  base_complete P PA PR s0 -> regions_ok (gp s0) -> dels_ok P (caps P s0) 0 ops = true ->
  let '(st', ev, _) := hrun P {| h_stack := s0; h_cache := init_cache |} ops in
  forall f : page -> nat,
    msum f (gots ev) = (msum f (puts ev) + msum f (live (h_cache P st')))%nat /\
    msum f (gots (ev ++ cleanup_events (h_cache P st'))) =
    msum f (puts (ev ++ cleanup_events (h_cache P st'))).
Proof.
  intros Hb [Hg1 Hg2] Hd. pose proof (hrun_erase s0 Hb ops [] init_cache Hd) as H. cbn [map app] in H.
  destruct (hrun P _ ops) as [[st' ev] rs]. destruct H as (Hc & Hev & _).
  intro f. rewrite Hc, Hev.
  destruct (readcache_pages_balanced (gp s0) Hg1 Hg2 (erase P (caps P s0) ops) (erase_flat _ ops)) as (H1 & H2 & _).
  split; [apply H1|apply H2].
Qed.

(** read capabilities are those of the implementation that is on top of
    the chain at the moment of the read *)
Lemma caps_spec (s : lstack) : base_complete P PA PR s ->
  caps P s = match invoke_spec P PA PR s HReadCaps (0%N, 0%N) with
             | Some (HCaps m) => m
             | _ => 0%N
             end.
Proof.
  intro Hb. unfold CbCache.caps.
  destruct (passthrough P PA PR s HReadCaps (0%N, 0%N) (S (length s)) Hb ltac:(lia)) as (r & Hr & Hs).
  now rewrite Hr, Hs.
Qed.

Lemma read_uses_current_caps (st : hstate P) a_as a n :
  base_complete P PA PR (h_stack P st) ->
  hstep P st (HRead P a_as a n) =
  match eff_as (match invoke_spec P PA PR (h_stack P st) HReadCaps (0%N, 0%N) with
                | Some (HCaps m) => m | _ => 0%N end) a_as with
  | None => (st, [], Some RFail)
  | Some as' =>
      let '(c', ev, r) := read (gp (h_stack P st)) (h_cache P st) as' a n in
      ({| h_stack := h_stack P st; h_cache := c' |}, ev, Some r)
  end.
Proof. intro Hb. cbn [hstep]. now rewrite caps_spec. Qed.

(** a layer that overrides read_caps is in charge exactly while it is
    installed: pushing it and deleting it again restores the stack, hence the
    capabilities every later read is performed with *)
Lemma caps_layer_add_del (st : hstate P) p m :
  fst (fst (hstep P (fst (fst (hstep P st (HAddCaps P p m)))) (HDel P 0))) = st.
Proof. destruct st. reflexivity. Qed.

Lemma caps_layer_in_charge (s : lstack) p m : caps P (caps_layer P p m :: s) = m.
Proof. reflexivity. Qed.

End Proofs.
