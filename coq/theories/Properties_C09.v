(** C09 -- placeholder while the tie is brought up; replaced by the real statements. *)
From Coq Require Import NArith ZArith List Bool.
From KdV Require Import Base.Wrap64 Map.MapModel Sys.ChainInterp Sys.SysSpec.
Import ListNotations.
Local Open Scope N_scope.
Example C09_nonvacuous : MAX_OP_DEPTH = 16%nat.
Proof. vm_compute; reflexivity. Qed.
