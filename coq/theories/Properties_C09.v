(** C09 -- address-space conversion terminates and lands where the caller can
    use it.  Statements only; every proof is [exact <lemma>].

    Model: Sys/ChainInterp.v.  Section [Interp]: [addrxlat_op],
    [addrxlat_fulladdr_conv], [do_op], the chain tables, the in-flight list,
    read32/read64 with their nested [addrxlat_op], [addrxlat_walk] for the
    method kinds none / custom / linear / lookup / memory array / PFN page
    table / page table of *any* format (the format's first step, next-step
    transition and PTE size are parameters [ff], [fn], [fp]; Sys/StepGlue.v
    instantiates them with the walk agent's Xlat/Step.v), over a memory
    function.  Section [Cached]: the same with the 4-slot read cache of ctx.c
    (Hist/ReadCache.v) threaded through every read, byte order, and a
    get-page callback that may re-enter the library.  [lim] is the recursion
    depth limit ([Some MAX_OP_DEPTH] = the tree, [None] = before fix 30).
    Spec: Sys/SysSpec.v ([conv]).

    All statements hold for every translation system [s], every page-table
    format ([ff], [fn], [fp]), every memory / get-page callback, every
    capability mask and read-capability mask, every source address in every
    address space, every in-flight history and every amount of fuel. *)
From Coq Require Import NArith ZArith List Bool.
From KdV Require Import Base.Wrap64 Map.MapModel Sys.ChainInterp Sys.SysSpec Sys.SysEnv
     Sys.SysProofs Sys.CacheProofs Sys.StepGlue.
From KdV Require Xlat.Step Hist.ReadCache Hist.ReadCacheProofs.
Import ListNotations.
Local Open Scope N_scope.

(** an address already in a usable space is passed through unchanged: the
    operation is invoked once, on that very address, and its status returned *)
Theorem C09_passthrough : forall ff fn fp wf lim osys rcaps mem fuel opret caps a,
  in_caps caps (fa_as a) ->
  addrxlat_op lim osys rcaps mem ff fn fp wf fuel opret caps a = Done (opret a) [a].
Proof. exact addrxlat_op_passthrough. Qed.
Print Assumptions C09_passthrough.

(** the operation is only ever invoked on an address in one of the address
    spaces the caller declared usable *)
Theorem C09_result_in_caps : forall ff fn fp wf lim osys rcaps mem fuel opret caps a st calls,
  addrxlat_op lim osys rcaps mem ff fn fp wf fuel opret caps a = Done st calls ->
  forall x, In x calls -> in_caps caps (fa_as x).
Proof. exact addrxlat_op_in_caps. Qed.
Print Assumptions C09_result_in_caps.

(** ... and that address is a composition of the translation methods the
    system's maps select: of read-nesting depth at most the fuel and of at
    most two methods in a row *)
Theorem C09_is_composition : forall ff fn fp wf lim s rcaps mem fuel opret caps a st calls,
  addrxlat_op lim (Some s) rcaps mem ff fn fp wf fuel opret caps a = Done st calls ->
  forall x, In x calls ->
    convB s rcaps mem ff fn fp wf fuel 2 caps a x /\ conv s rcaps mem ff fn fp wf caps a x.
Proof. exact addrxlat_op_composition. Qed.
Print Assumptions C09_is_composition.

(** without a translation system nothing but pass-through happens *)
Theorem C09_no_system : forall ff fn fp wf lim rcaps mem fuel opret caps a st calls,
  addrxlat_op lim None rcaps mem ff fn fp wf fuel opret caps a = Done st calls ->
  forall x, In x calls -> x = a /\ in_caps caps (fa_as a).
Proof. exact addrxlat_op_nosys. Qed.
Print Assumptions C09_no_system.

(** either the call fails with a (non-zero) status and the operation was not
    invoked, or the operation was invoked exactly once and its status is
    returned; in particular: at most once, exactly once on success *)
Theorem C09_callback_once : forall ff fn fp wf lim osys rcaps mem fuel opret caps a st calls,
  addrxlat_op lim osys rcaps mem ff fn fp wf fuel opret caps a = Done st calls ->
  ((calls = [] /\ st <> ST_OK) \/ (exists x, calls = [x] /\ st = opret x)) /\
  (length calls <= 1)%nat /\ (st = ST_OK -> length calls = 1%nat).
Proof.
  exact (fun ff fn fp wf lim osys rcaps mem fuel opret caps a st calls H =>
           conj (addrxlat_op_callback ff fn fp wf lim osys rcaps mem fuel opret caps a st calls H)
                (addrxlat_op_once ff fn fp wf lim osys rcaps mem fuel opret caps a st calls H)).
Qed.
Print Assumptions C09_callback_once.

(** the in-flight list never holds a duplicate and (with the limit) never
    more than [n] records: the interpreter that asserts this at the entry of
    every (nested) [addrxlat_op] is the interpreter *)
Theorem C09_inflight_nodup : forall ff fn fp wf lim osys rcaps mem fuel caps a,
  op_core_chk ff fn fp wf lim osys rcaps mem fuel [] caps a
  = op_core lim osys rcaps mem ff fn fp wf fuel [] caps a.
Proof.
  exact (fun ff fn fp wf lim osys rcaps mem fuel caps a =>
           op_core_invariant ff fn fp wf lim osys rcaps mem fuel [] caps a (infl_ok_nil lim)).
Qed.
Print Assumptions C09_inflight_nodup.

Theorem C09_nested_calls_see_invariant :
  forall ff fn fp wf lim osys rcaps mem nested nested' infl caps a,
  infl_ok lim infl ->
  (forall i fa, infl_ok lim i -> nested i fa = nested' i fa) ->
  op_body lim osys rcaps mem ff fn fp wf nested infl caps a
  = op_body lim osys rcaps mem ff fn fp wf nested' infl caps a.
Proof. exact op_body_nested_ok. Qed.
Print Assumptions C09_nested_calls_see_invariant.

(** a translation that is already in flight is refused with
    ADDRXLAT_ERR_NOMETH instead of recursing ... *)
Theorem C09_guard_reports_nometh : forall ff fn fp wf lim s rcaps mem fuel infl caps a c,
  caps_has caps (fa_as a) = Some false -> N.land caps 7 <> 0 ->
  choose_chain caps (fa_as a) = Some c ->
  In (fa_addr a, fa_as a, c) infl ->
  op_core lim (Some s) rcaps mem ff fn fp wf fuel infl caps a = Err ST_NOMETH.
Proof. exact guard_reports_nometh. Qed.
Print Assumptions C09_guard_reports_nometh.

(** ... and so is any translation once [n] translations are in flight *)
Theorem C09_limit_reports_nometh : forall ff fn fp wf n s rcaps mem fuel infl caps a c,
  caps_has caps (fa_as a) = Some false -> N.land caps 7 <> 0 ->
  choose_chain caps (fa_as a) = Some c ->
  (n <= length infl)%nat ->
  op_core (Some n) (Some s) rcaps mem ff fn fp wf fuel infl caps a = Err ST_NOMETH.
Proof. exact limit_reports_nometh. Qed.
Print Assumptions C09_limit_reports_nometh.

(** Termination with a bound that depends on the library only: with the
    depth limit [n], fuel [n + 1] (= nesting depth) is enough for every
    system, format, memory, capability mask and address, and more fuel gives
    the same result. *)
Theorem C09_depth_bounded : forall ff fn fp wf n osys rcaps mem fuel opret caps a,
  (n + 1 <= fuel)%nat ->
  addrxlat_op (Some n) osys rcaps mem ff fn fp wf fuel opret caps a <> NoFuel /\
  addrxlat_op (Some n) osys rcaps mem ff fn fp wf fuel opret caps a =
  addrxlat_op (Some n) osys rcaps mem ff fn fp wf (n + 1) opret caps a.
Proof. exact addrxlat_op_depth_bounded. Qed.
Print Assumptions C09_depth_bounded.

(** addrxlat_fulladdr_conv: on success the address is in the requested space
    (which then is a real one) and is a conversion of the original; on failure
    -- e.g. for the target ADDRXLAT_NOADDR -- it is untouched *)
Theorem C09_fulladdr_conv : forall ff fn fp wf lim s rcaps mem fuel fa as_ st fa',
  fulladdr_conv lim (Some s) rcaps mem ff fn fp wf fuel fa as_ = Conv st fa' ->
  (st = ST_OK /\ fa_as fa' = as_ /\ (0 <= as_ < 64)%Z /\
   conv s rcaps mem ff fn fp wf (caps_of as_) fa fa')
  \/ (st <> ST_OK /\ fa' = fa).
Proof. exact fulladdr_conv_spec. Qed.
Print Assumptions C09_fulladdr_conv.

(** the map lookup used by the interpreter is C10's [map_search] *)
Theorem C09_uses_C10_search : forall m addr, xmap_search m addr = map_search m addr.
Proof. exact xmap_search_eq. Qed.
Print Assumptions C09_uses_C10_search.

(** ** The read cache of ctx.c *)

(** For a get-page callback that does not re-enter the library (it answers
    with a region containing the requested address, is a function of the
    region, and fails only with a non-zero status), translation results do
    not depend on the cache contents: from any two caches satisfying the
    cache's invariant the outcome is the same, ... *)
Theorem C09_readcache_irrelevant :
  forall lim osys rcaps gp big ff fn fp wf,
  (forall a_as a b s d, gp_region gp a_as a = Some (b, s, d) ->
     b <= a < b + s /\ N.of_nat (length d) = s /\ b + s <= W) ->
  (forall a_as a b s d a', gp_region gp a_as a = Some (b, s, d) -> b <= a' < b + s ->
     gp_region gp a_as a' = Some (b, s, d)) ->
  (forall a_as a st, gp a_as a = inl st -> st <> ST_OK) ->
  forall fuel opret caps fa c1 c2,
  ReadCacheProofs.inv (gp_region gp) c1 -> ReadCacheProofs.inv (gp_region gp) c2 ->
  fst (addrxlat_op_c lim osys rcaps gp big (fun _ => None) ff fn fp wf fuel opret caps fa c1) =
  fst (addrxlat_op_c lim osys rcaps gp big (fun _ => None) ff fn fp wf fuel opret caps fa c2).
Proof. exact readcache_irrelevant. Qed.
Print Assumptions C09_readcache_irrelevant.

(** ... namely the outcome of the interpreter that reads memory directly
    ([mem_of gp big]: no cache), and the invariant is kept -- so every theorem
    above holds for the interpreter with the cache, for whole sequences of
    calls on one context *)
Theorem C09_readcache_transparent :
  forall lim osys rcaps gp big ff fn fp wf,
  (forall a_as a b s d, gp_region gp a_as a = Some (b, s, d) ->
     b <= a < b + s /\ N.of_nat (length d) = s /\ b + s <= W) ->
  (forall a_as a b s d a', gp_region gp a_as a = Some (b, s, d) -> b <= a' < b + s ->
     gp_region gp a_as a' = Some (b, s, d)) ->
  (forall a_as a st, gp a_as a = inl st -> st <> ST_OK) ->
  forall fuel opret qs c,
  ReadCacheProofs.inv (gp_region gp) c ->
  run_calls lim osys rcaps gp big ff fn fp wf fuel opret qs c =
  List.map (fun q => addrxlat_op lim osys rcaps (mem_of gp big) ff fn fp wf fuel opret (fst q) (snd q)) qs.
Proof. exact run_calls_ok. Qed.
Print Assumptions C09_readcache_transparent.

(** the "Infinite read recursion" guard of get_cache_buf: a read that lands
    in a slot whose fill is in progress is refused with ADDRXLAT_ERR_NODATA,
    the cache is untouched and the callback is not called again *)
Theorem C09_read_guard_reports_nodata :
  forall gp big backing nested infl c fa sz i,
  N.land (fa_addr fa) (sz - 1) = 0 -> fa_addr fa < W ->
  ReadCache.find_slot c (Z.to_N (fa_as fa)) (fa_addr fa) = Some i ->
  ReadCache.ptr (ReadCache.get_slot c i) = None ->
  do_read_c gp big backing nested infl c fa sz = (RErr ST_NODATA, c).
Proof. exact read_guard. Qed.
Print Assumptions C09_read_guard_reports_nodata.

(** A re-entrant get-page callback never makes the library recurse without
    bound: whatever the callback (which spaces it serves by converting
    through the library, what it answers, how it fails), whatever the cache
    holds, with the depth limit [n] fuel [n + 1] is enough -- callback
    re-entries and translations together nest at most [n] deep, and the run
    ends with the operation called, a status, or a situation undefined in C.
    (What such a callback may do to the *contents* of the cache is the open
    finding C04-readcache-reentrant; results then depend on the cache.) *)
Theorem C09_reentrant_callback_bounded :
  forall osys rcaps gp big backing ff fn fp wf n fuel caps fa c,
  (n + 1 <= fuel)%nat ->
  fst (addrxlat_op_c (Some n) osys rcaps gp big backing ff fn fp wf fuel (fun _ => ST_OK) caps fa c)
  <> NoFuel.
Proof.
  exact (fun osys rcaps gp big backing ff fn fp wf n fuel caps fa c H =>
           addrxlat_op_c_bounded osys rcaps gp big backing ff fn fp wf n fuel (fun _ => ST_OK) caps fa c H).
Qed.
Print Assumptions C09_reentrant_callback_bounded.

(** ** The judge *)

(** the executable judge that evaluates the property on runs of the real
    library (engine "sysop-spec") is exact: it accepts a run iff the run is
    as the property demands, the composition clause being "a conversion of
    read-nesting depth at most [d] and at most [len] methods in a row" *)
Theorem C09_judge_complete : forall s rcaps mem ff fn fp wf d len caps opret a st calls depth,
  judge s rcaps mem ff fn fp wf d len caps opret a st calls depth = 0 <->
  run_ok s rcaps mem ff fn fp wf d len caps opret a st calls depth.
Proof. exact judge_exact. Qed.
Print Assumptions C09_judge_complete.

(** the enumeration behind it lists exactly the conversions of its measure *)
Theorem C09_conv_all_exact : forall s rcaps mem ff fn fp wf len d caps a b,
  In b (conv_all s rcaps mem ff fn fp wf d len caps a) <-> convB s rcaps mem ff fn fp wf d len caps a b.
Proof. exact conv_all_exact. Qed.
Print Assumptions C09_conv_all_exact.

(** every run of the model is accepted by the judge *)
Theorem C09_model_passes_judge :
  forall lim s rcaps mem ff fn fp wf fuel opret caps a st calls depth,
  addrxlat_op lim (Some s) rcaps mem ff fn fp wf fuel (fun _ => opret) caps a = Done st calls ->
  (depth <= MAX_OP_DEPTH)%nat ->
  judge s rcaps mem ff fn fp wf fuel 2 caps opret a st calls depth = 0.
Proof. exact model_passes_judge. Qed.
Print Assumptions C09_model_passes_judge.

(** ** The formats of Xlat/Step.v as parameters *)

(** every next-step function of Step.v reads once, at [step->base], and does
    with the value what [step_next] does: instantiating the format
    parameters with [step_first] / [step_next] / [step_ptesz] loses nothing *)
Theorem C09_step_formats_one_read : forall rm tgt mask pf s,
  (forall a x, rm a x <> Step.RdErr Step.OK) ->
  Step.next_step_pgt rm tgt mask pf s =
  match step_ptesz pf with
  | None => step_next tgt mask pf s 0
  | Some _ =>
      match rm (Step.s_as s) (Step.s_base s) with
      | Step.RdOk v => step_next tgt mask pf s v
      | Step.RdErr e => (e, s)
      end
  end.
Proof. exact next_step_one_read. Qed.
Print Assumptions C09_step_formats_one_read.

(** ** Witnesses *)

Definition nofmt_first : Step.aspace -> N -> Step.pform -> N -> Step.status * Step.step :=
  fun _ _ _ a => (Step.NOTIMPL, Step.init_step a).
Definition nofmt_next : Step.aspace -> N -> Step.pform -> Step.step -> N -> Step.status * Step.step :=
  fun _ _ _ s _ => (Step.NOTIMPL, s).
Definition nofmt_ptesz : Step.pform -> option N := fun _ => None.

(** Defect 30 before the fix ([lim = None]): a memory array whose base lies in
    the address space it translates yields a new address at every level, the
    in-flight check never fires, and 3000 levels of recursion are not enough;
    under the limit the same system ends with ADDRXLAT_ERR_NOMETH. *)
Definition d30_sys : sys :=
  {| s_map := fun i => if i =? MAP_KV_PHYS
                       then Some [ {| endoff := MAXA; MapModel.meth := 8%Z |} ] else None;
     s_meth := repeat MNone 8 ++ [MMemarr AS_MACHPHYS (FA 0x1000 AS_KV) 3 24 8] |}.
Definition d30_mem : Z -> N -> N -> option (Z * N) := fun _ _ _ => Some (ST_OK, 0).

Example C09_pinned_tree_recursion_witness :
  op_core None (Some d30_sys) 2 d30_mem nofmt_first nofmt_next nofmt_ptesz 0 3000 [] 2 (FA 0x1238 AS_KV)
  = OutOfFuel /\
  addrxlat_op (Some MAX_OP_DEPTH) (Some d30_sys) 2 d30_mem nofmt_first nofmt_next nofmt_ptesz 0 17
              (fun _ => ST_OK) 2 (FA 0x1238 AS_KV)
  = Done ST_NOMETH [].
Proof. split; vm_compute; reflexivity. Qed.

(** non-vacuity: an x86-64 page table (Step.v's format, 4 levels, present +
    accessed + dirty entries) whose root is a kernel virtual address readable
    only through the direct mapping of the same system, run through the
    interpreter *with* the read cache on little-endian memory: nesting depth
    2, success, the operation invoked once, and the judge accepts the run *)
Definition nv_sys : sys :=
  {| s_map := fun i =>
       if i =? MAP_KV_PHYS
       then Some [ {| endoff := 0x7fffffffffff; MapModel.meth := 0%Z |};
                   {| endoff := 0xffff07ffffffffff; MapModel.meth := (-1)%Z |};
                   {| endoff := 0x77ffffffffff; MapModel.meth := 2%Z |} ]     (* direct map *)
       else None;
     s_meth := [ MPgtF Step.KPHYSADDR Step.KVADDR 0xffff880000100000 0
                       {| Step.pte_format := Step.PTE_X86_64; Step.fieldsz := [12; 9; 9; 9; 9] |};
                 MNone; MLinear AS_KPHYS 0x780000000000 ] |}.
Definition nv_gp := env_gp [(0, 0x100000); (0, 0x101000); (0, 0x102000); (0, 0x103000)]
                          [ (0, 0x100000, 0x101063); (0, 0x101000, 0x102063);
                            (0, 0x102000, 0x103063); (0, 0x103018, 0x55063) ] [] ST_NODATA.
Definition nv_big := env_big [].

Example C09_nonvacuous :
  let '(r, d, _) := op_depth (Some MAX_OP_DEPTH) (Some nv_sys) 1 nv_gp nv_big (fun _ => None)
                             step_first step_next step_ptesz 8 20 0 (fun _ => ST_OK) 1
                             (FA 0x3abc AS_KV) ReadCache.init_cache in
  (r, d) = (Done ST_OK [FA 0x55abc AS_KPHYS], 2%nat) /\
  judge nv_sys 1 (mem_of nv_gp nv_big) step_first step_next step_ptesz 8 3 2 1 ST_OK
        (FA 0x3abc AS_KV) ST_OK [FA 0x55abc AS_KPHYS] 2 = 0.
Proof. vm_compute. split; reflexivity. Qed.
