(** C09 -- address-space conversion terminates and lands where the caller can
    use it.  Statements only; every proof is [exact <lemma>].

    Model: Sys/ChainInterp.v ([addrxlat_op], [addrxlat_fulladdr_conv],
    [do_op], the chain tables, the in-flight list, read32/read64 with their
    nested [addrxlat_op], [addrxlat_walk] for the method kinds none / custom /
    linear / PFN page table / lookup / memory array), with the recursion
    depth limit of fixes/30-op-depth-limit.patch as parameter [lim]
    ([Some MAX_OP_DEPTH] = the repaired tree, [None] = the pinned tree).
    Spec: Sys/SysSpec.v ([conv]: a finite composition of the methods the maps
    select, ending in a usable address space).

    All statements hold for every translation system [s] (any maps, any
    assignment of methods to slots), every memory [mem] (any get-page
    behaviour, including failures with any status), every capability mask
    and read-capability mask, every source address in every address space,
    every in-flight history and every amount of fuel. *)
From Coq Require Import NArith ZArith List Bool.
From KdV Require Import Base.Wrap64 Map.MapModel Sys.ChainInterp Sys.SysSpec Sys.SysEnv Sys.SysProofs.
Import ListNotations.
Local Open Scope N_scope.

(** an address already in a usable space is passed through unchanged: the
    operation is invoked once, on that very address, and its status returned
    (no fuel, no system, no memory needed) *)
Theorem C09_passthrough : forall lim osys rcaps mem fuel opret caps a,
  in_caps caps (fa_as a) ->
  addrxlat_op lim osys rcaps mem fuel opret caps a = Done (opret a) [a].
Proof. exact addrxlat_op_passthrough. Qed.
Print Assumptions C09_passthrough.

(** the operation is only ever invoked on an address in one of the address
    spaces the caller declared usable *)
Theorem C09_result_in_caps : forall lim osys rcaps mem fuel opret caps a st calls,
  addrxlat_op lim osys rcaps mem fuel opret caps a = Done st calls ->
  forall x, In x calls -> in_caps caps (fa_as x).
Proof. exact addrxlat_op_in_caps. Qed.
Print Assumptions C09_result_in_caps.

(** ... and that address is a composition of the translation methods the
    system's maps select (memory consulted by a method being read at an
    address that is itself converted to a readable space) *)
Theorem C09_is_composition : forall lim s rcaps mem fuel opret caps a st calls,
  addrxlat_op lim (Some s) rcaps mem fuel opret caps a = Done st calls ->
  forall x, In x calls -> conv s rcaps mem caps a x.
Proof. exact addrxlat_op_composition. Qed.
Print Assumptions C09_is_composition.

(** without a translation system nothing but pass-through happens *)
Theorem C09_no_system : forall lim rcaps mem fuel opret caps a st calls,
  addrxlat_op lim None rcaps mem fuel opret caps a = Done st calls ->
  forall x, In x calls -> x = a /\ in_caps caps (fa_as a).
Proof. exact addrxlat_op_nosys. Qed.
Print Assumptions C09_no_system.

(** either the call fails with a (non-zero) status and the operation was not
    invoked, or the operation was invoked exactly once and its status is
    returned; in particular: at most once, exactly once on success *)
Theorem C09_callback_once : forall lim osys rcaps mem fuel opret caps a st calls,
  addrxlat_op lim osys rcaps mem fuel opret caps a = Done st calls ->
  ((calls = [] /\ st <> ST_OK) \/ (exists x, calls = [x] /\ st = opret x)) /\
  (length calls <= 1)%nat /\ (st = ST_OK -> length calls = 1%nat).
Proof.
  exact (fun lim osys rcaps mem fuel opret caps a st calls H =>
           conj (addrxlat_op_callback lim osys rcaps mem fuel opret caps a st calls H)
                (addrxlat_op_once lim osys rcaps mem fuel opret caps a st calls H)).
Qed.
Print Assumptions C09_callback_once.

(** the in-flight list never holds a duplicate and (with the limit) never
    more than [n] records: the interpreter that asserts this at the entry of
    every (nested) [addrxlat_op] -- answering [UB] if the assertion fails --
    is the interpreter *)
Theorem C09_inflight_nodup : forall lim osys rcaps mem fuel caps a,
  op_core_chk lim osys rcaps mem fuel [] caps a = op_core lim osys rcaps mem fuel [] caps a.
Proof.
  exact (fun lim osys rcaps mem fuel caps a =>
           op_core_invariant lim osys rcaps mem fuel [] caps a (infl_ok_nil lim)).
Qed.
Print Assumptions C09_inflight_nodup.

(** ... and [op_body] consults nested calls only on lists satisfying the invariant *)
Theorem C09_nested_calls_see_invariant : forall lim osys rcaps mem nested nested' infl caps a,
  infl_ok lim infl ->
  (forall i fa, infl_ok lim i -> nested i fa = nested' i fa) ->
  op_body lim osys rcaps mem nested infl caps a = op_body lim osys rcaps mem nested' infl caps a.
Proof. exact op_body_nested_ok. Qed.
Print Assumptions C09_nested_calls_see_invariant.

(** a translation that is already in flight (same address, address space and
    chain) is refused with ADDRXLAT_ERR_NOMETH instead of recursing ... *)
Theorem C09_guard_reports_nometh : forall lim s rcaps mem fuel infl caps a c,
  caps_has caps (fa_as a) = Some false -> N.land caps 7 <> 0 ->
  choose_chain caps (fa_as a) = Some c ->
  In (fa_addr a, fa_as a, c) infl ->
  op_core lim (Some s) rcaps mem fuel infl caps a = Err ST_NOMETH.
Proof. exact guard_reports_nometh. Qed.
Print Assumptions C09_guard_reports_nometh.

(** ... and so is any translation once [n] translations are in flight *)
Theorem C09_limit_reports_nometh : forall n s rcaps mem fuel infl caps a c,
  caps_has caps (fa_as a) = Some false -> N.land caps 7 <> 0 ->
  choose_chain caps (fa_as a) = Some c ->
  (n <= length infl)%nat ->
  op_core (Some n) (Some s) rcaps mem fuel infl caps a = Err ST_NOMETH.
Proof. exact limit_reports_nometh. Qed.
Print Assumptions C09_limit_reports_nometh.

(** Termination with a bound that depends on the library only.  Fuel counts
    the nesting depth of [addrxlat_op] (one unit per record pushed on the
    in-flight list).  With the depth limit [n], fuel [n + 1] is enough for
    every system, memory, capability mask and address -- the run never asks
    for more -- and any larger amount gives the same result. *)
Theorem C09_depth_bounded : forall n osys rcaps mem fuel opret caps a,
  (n + 1 <= fuel)%nat ->
  addrxlat_op (Some n) osys rcaps mem fuel opret caps a <> NoFuel /\
  addrxlat_op (Some n) osys rcaps mem fuel opret caps a =
  addrxlat_op (Some n) osys rcaps mem (n + 1) opret caps a.
Proof. exact addrxlat_op_depth_bounded. Qed.
Print Assumptions C09_depth_bounded.

(** addrxlat_fulladdr_conv: on success the address is in the requested space
    and is a conversion of the original; on failure it is untouched *)
Theorem C09_fulladdr_conv : forall lim s rcaps mem fuel fa as_ st fa',
  fulladdr_conv lim (Some s) rcaps mem fuel fa as_ = Conv st fa' ->
  (st = ST_OK /\ fa_as fa' = as_ /\ conv s rcaps mem (N.shiftl 1 (Z.to_N as_)) fa fa')
  \/ (st <> ST_OK /\ fa' = fa).
Proof. exact fulladdr_conv_spec. Qed.
Print Assumptions C09_fulladdr_conv.

(** the map lookup used by the interpreter is C10's [map_search] *)
Theorem C09_uses_C10_search : forall m addr, xmap_search m addr = map_search m addr.
Proof. exact xmap_search_eq. Qed.
Print Assumptions C09_uses_C10_search.

(** the executable judge that evaluates the property on runs of the real
    library (engine "sysop-spec") only accepts runs that are as the property
    demands *)
Theorem C09_judge_sound : forall s rcaps mem d len caps opret a st calls depth,
  judge s rcaps mem d len caps opret a st calls depth = 0 ->
  (depth <= MAX_OP_DEPTH)%nat /\
  ((calls = [] /\ st <> ST_OK /\ ~ in_caps caps (fa_as a)) \/
   (exists x, calls = [x] /\ st = opret /\ in_caps caps (fa_as x) /\
              conv s rcaps mem caps a x /\ (in_caps caps (fa_as a) -> x = a))).
Proof. exact judge_sound. Qed.
Print Assumptions C09_judge_sound.

(** Defect 30 on the pinned tree (no depth limit, [lim = None]): a memory
    array whose base lies in the address space it translates (KVADDR, shift 3,
    element size 24) yields a new address at every level, the in-flight check
    never fires, and 3000 levels of recursion are not enough.  (In the 64-bit
    model the recursion is finite by pigeonhole -- at most 15 * 2^64 keys --
    which is no bound for a program with a finite stack.)  The same system
    under the limit of the repaired tree ends with ADDRXLAT_ERR_NOMETH. *)
Definition d30_sys : sys :=
  {| s_map := fun i => if i =? MAP_KV_PHYS
                       then Some [ {| endoff := MAXA; MapModel.meth := 8%Z |} ] else None;
     s_meth := repeat MNone 8 ++ [MMemarr AS_MACHPHYS (FA 0x1000 AS_KV) 3 24 8] |}.
Definition d30_mem : Z -> N -> N -> Z * N := fun _ _ _ => (ST_OK, 0).

Example C09_pinned_tree_recursion_witness :
  op_core None (Some d30_sys) 2 d30_mem 3000 [] 2 (FA 0x1238 AS_KV) = OutOfFuel /\
  addrxlat_op (Some MAX_OP_DEPTH) (Some d30_sys) 2 d30_mem 17 (fun _ => ST_OK) 2 (FA 0x1238 AS_KV)
  = Done ST_NOMETH [].
Proof. split; vm_compute; reflexivity. Qed.

(** non-vacuity: a system in which a kernel virtual address is converted
    through a one-level PFN64 page table whose root is itself a kernel virtual
    address (readable only through the direct mapping set up in the same
    system): the run nests one [addrxlat_op], succeeds, invokes the operation
    once, and the judge accepts it *)
Definition nv_sys : sys :=
  {| s_map := fun i =>
       if i =? MAP_KV_PHYS
       then Some [ {| endoff := 0xffff; MapModel.meth := 0%Z |};            (* page table *)
                   {| endoff := MAXA - 0x10000; MapModel.meth := 2%Z |} ]   (* direct map *)
       else None;
     s_meth := [ MPgt AS_KPHYS (FA 0x100000 AS_KV) true 0 [12; 4]; MNone;
                 MLinear AS_KPHYS 0xffffffffffff0000 ] |}.
Definition nv_mem : Z -> N -> N -> Z * N :=
  env_mem [(AS_KPHYS, 0xf0000)] [(AS_KPHYS, 0xf0018, 0x55)] ST_NODATA.

Example C09_nonvacuous :
  op_depth 20 0 (Some MAX_OP_DEPTH) (Some nv_sys) 1 nv_mem (fun _ => ST_OK) 1 (FA 0x3abc AS_KV)
  = (Done ST_OK [FA 0x55abc AS_KPHYS], 2%nat) /\
  judge nv_sys 1 nv_mem 3 2 1 ST_OK (FA 0x3abc AS_KV) ST_OK [FA 0x55abc AS_KPHYS] 2 = 0 /\
  in_caps 1 AS_KPHYS.
Proof. split; [vm_compute; reflexivity|split; [vm_compute; reflexivity|]]. vm_compute; split; [split; [discriminate|reflexivity]|reflexivity]. Qed.
