(** C05 — clones of one dump can be used from different threads at the same
    time.  Statements only; every proof is [exact <lemma>].

    Model: [Conc/Protocol.v] (atomic steps of the page-read protocol over an
    abstract cache), [Conc/Interleave.v] (all interleavings of N threads,
    every replacement policy), [Conc/LockOrder.v] (lock acquisition order).

    PARTIAL BY DESIGN: the property is proved for the sequentially consistent
    interleaving of the atomic steps listed in [Protocol.v] (what the source
    does under [cache_lock] is one step; what it does without the lock is
    split into its load and its store).  Compiler and hardware memory-model
    effects below that granularity are not modelled.

    [put_locked = false] is the pinned source (defect #17: [--refcnt] in
    [cache_put_entry] without [cache_lock]); [put_locked = true] the repaired
    one.  [joined s = true] records that some GetEntry handed out another
    thread's in-flight entry (defect #34). *)
From Coq Require Import NArith List Bool Arith.
From KdV Require Import Conc.Protocol Conc.Interleave Conc.LockOrder
  Conc.ConcInv Conc.ConcSafety Conc.ConcLock Conc.ConcMain Conc.LockOrderProofs
  Conc.ApiLock Conc.ApiLockProofs.
Import ListNotations.

(** 1. The pinned source is NOT safe under all schedules: a two-thread
    schedule without any shared in-flight entry ends quiescent with an entry
    pinned for ever (refcnt = 2^32 - 1) ... *)
Theorem C05_safe_all_schedules_refuted :
  exists fill cap progs sched,
    joined (run false fill sched (init cap progs)) = false /\
    ~ safe_state fill (run false fill sched (init cap progs)).
Proof. exact unsafe_pinned. Qed.
Print Assumptions C05_safe_all_schedules_refuted.

Theorem C05_safe_all_schedules_refuted_lost_update_pins :
  let s := run false wfill sched_lost_update (init 2 [[5]; [5]]%N) in
  joined s = false /\ stale s = false /\ quiescent s = true /\
  map (slot_refcnt (cch s)) [0; 1] = [4294967295; 0]%N /\
  all_unpinned (cch s) = false.
Proof. exact lost_update_pins. Qed.
Print Assumptions C05_safe_all_schedules_refuted_lost_update_pins.

(** ... and another one in which the entry is reclaimed while a thread still
    uses it: the read of key 5 returns the bytes of key 6 *)
Theorem C05_safe_all_schedules_refuted_evicted_while_used :
  let s := run false wfill sched_evicted (init 1 [[5; 6]; [5]]%N) in
  joined s = false /\ stale s = false /\ quiescent s = true /\
  wfill 5 = Some 105%N /\
  map results (thr s) =
    [ [(6, RBytes (Filled 106)); (5, RBytes (Filled 105))];
      [(5, RBytes (Filled 106))] ]%N.
Proof. exact evicted_while_used. Qed.
Print Assumptions C05_safe_all_schedules_refuted_evicted_while_used.

(** the pinned decrement changes the bookkeeping while nobody holds the lock *)
Theorem C05_bookkeeping_under_lock_refuted :
  exists fill cap progs sched t victim s',
    let s := run false fill sched (init cap progs) in
    step false fill (t, victim) s = Some s' /\ lck s = None /\
    book (cch s') <> book (cch s).
Proof. exact bookkeeping_unlocked_pinned. Qed.
Print Assumptions C05_bookkeeping_under_lock_refuted.

(** 2. Even with the repaired put a read can return wrong bytes when a
    thread is handed another thread's in-flight entry (defect #34) *)
Theorem C05_safe_shared_inflight_refuted :
  exists fill cap progs sched,
    ~ safe_state fill (run true fill sched (init cap progs)).
Proof. exact unsafe_shared_inflight. Qed.
Print Assumptions C05_safe_shared_inflight_refuted.

Theorem C05_safe_shared_inflight_refuted_garbage :
  let s := run true wfill sched_shared_inflight (init 2 [[5]; [5]]%N) in
  joined s = true /\ stale s = false /\ quiescent s = true /\
  wfill 5 = Some 105%N /\
  map results (thr s) = [ [(5, RBytes Garbage)]; [(5, RBytes (Filled 105))] ]%N.
Proof. exact shared_inflight_garbage. Qed.
Print Assumptions C05_safe_shared_inflight_refuted_garbage.

(** 3. The strongest true statement: repaired put, any number of threads
    (below 2^32, the width of the counter), any capacity (0 included), any
    programs, any [fill], any schedule and replacement policy in which no
    GetEntry handed out another thread's in-flight entry.  In the final
    state [s] of the schedule — hence, every prefix of such a schedule being
    such a schedule, in every state along it:
    (a) a completed read returned [Filled (fill k)], or BUSY, or the error
        when [fill k] fails;
    (b) a GetEntry step from [s] that reports BUSY sees at least [cap]
        entries referenced or in flight, and at least that many threads
        hold a reference at that moment;
    (c) every refcnt equals the number of threads holding the entry; the
        entry a thread holds exists, carries the key the thread is reading
        and, if valid, the right bytes (so it was not reclaimed, re-keyed or
        rewritten);
    (d) when all threads have finished every refcnt is 0 and nothing is in
        flight;
    and no stale handle was ever used. *)
Theorem C05_safe_all_schedules_except_shared_inflight :
  forall (fill : N -> option value) (cap : nat) (progs : list (list N)) (sched : list choice),
    (N.of_nat (length progs) < M32)%N ->
    let s := run true fill sched (init cap progs) in
    joined s = false ->
    stale s = false /\
    (forall t th k r, nth_error (thr s) t = Some th -> In (k, r) (results th) ->
       match r with
       | RBytes b => exists v, fill k = Some v /\ b = Filled v
       | RBusy => True
       | RFail => fill k = None
       end) /\
    (forall t victim s', busy_step fill true t victim s s' ->
       cap <= inuse (cch s) /\ inuse (cch s) <= holding fill (thr s)) /\
    (forall e, slot_refcnt (cch s) e = N.of_nat (holders fill (thr s) e)) /\
    (forall t th e k rest,
       nth_error (thr s) t = Some th -> holds fill th = Some e -> todo th = k :: rest ->
       exists a, slot (cch s) e = Some a /\ key a = k /\
         (st a = Valid -> exists v, fill k = Some v /\ buf a = Filled v)) /\
    (quiescent s = true -> all_unpinned (cch s) = true /\ no_inflight (cch s) = true).
Proof. exact safe_except_shared_inflight. Qed.
Print Assumptions C05_safe_all_schedules_except_shared_inflight.

(** (c), step form: along such schedules no step of one thread reclaims,
    re-keys, revalidates or rewrites (key, state, buffer contents) an entry
    that another thread holds a reference to *)
Theorem C05_held_entries_untouched :
  forall (fill : N -> option value) cap progs sched t victim s',
    (N.of_nat (length progs) < M32)%N ->
    let s := run true fill sched (init cap progs) in
    step true fill (t, victim) s = Some s' -> joined s' = false ->
    forall t' th' e, t' <> t -> nth_error (thr s) t' = Some th' ->
      holds fill th' = Some e -> vslot (cch s') e = vslot (cch s) e.
Proof. exact held_entries_untouched. Qed.
Print Assumptions C05_held_entries_untouched.

(** shared cache bookkeeping (key, state, refcnt of every slot) only changes
    in steps of the thread that holds [cache_lock] (repaired protocol, all
    schedules, joined or not) *)
Theorem C05_bookkeeping_under_lock :
  forall (fill : N -> option value) cap progs sched t victim s',
    let s := run true fill sched (init cap progs) in
    step true fill (t, victim) s = Some s' ->
    lck s = Some t \/ book (cch s') = book (cch s).
Proof. exact bookkeeping_under_lock. Qed.
Print Assumptions C05_bookkeeping_under_lock.

(** 4. Nothing blocks except lock acquisition (there is no condition wait to
    lose a wake-up on: BUSY instead of blocking), for both variants and all
    schedules: an unfinished thread not at a Lock is enabled, one at a Lock
    is enabled iff the mutex is free; and unless all threads have finished
    some thread is enabled *)
Theorem C05_no_lost_wakeup :
  forall (pl : bool) (fill : N -> option value) cap progs sched,
    let s := run pl fill sched (init cap progs) in
    (forall t th, nth_error (thr s) t = Some th -> finished th = false ->
       (at_lock th = false -> enabled pl fill t s) /\
       (at_lock th = true -> (enabled pl fill t s <-> lck s = None))) /\
    (quiescent s = false -> exists t, enabled pl fill t s).
Proof. exact no_lost_wakeup. Qed.
Print Assumptions C05_no_lost_wakeup.

(** 5. Deadlock freedom from a rank on locks, in general ... *)
Theorem C05_deadlock_free_ranked :
  forall (rank : lock -> nat) (progs : list program) (sched : list nat),
    (forall p, In p progs -> ordered rank p = true) ->
    let s := lrun sched (linit progs) in
    lfinished s = true \/ exists t, lstep t s <> None.
Proof. exact ranked_deadlock_free. Qed.
Print Assumptions C05_deadlock_free_ranked.

(** ... and for the library with the REPAIRED LKCD order: any number of
    threads, each running any sequence of entry points *)
Theorem C05_deadlock_free :
  forall (tprogs : list (list program)) (sched : list nat),
    (forall tp p, In tp tprogs -> In p tp -> In p entry_points_repaired) ->
    let s := lrun sched (linit (map (@concat lop) tprogs)) in
    lfinished s = true \/ exists t, lstep t s <> None.
Proof. exact deadlock_free_repaired. Qed.
Print Assumptions C05_deadlock_free.

(** the acquisition graph of rank-respecting programs has no cycle *)
Theorem C05_acquisition_graph_acyclic :
  forall (rank : lock -> nat) (progs : list program),
    (forall p, In p progs -> ordered rank p = true) ->
    forall a, ~ path (acquisition_edges progs) a a.
Proof. exact ranked_acyclic. Qed.
Print Assumptions C05_acquisition_graph_acyclic.

(** the PINNED LKCD order (defect #18) deadlocks two threads *)
Theorem C05_deadlock_free_lkcd_refuted :
  exists sched, deadlocked (lrun sched (linit [prog_read_lkcd; prog_revalidate_pinned])).
Proof. exact deadlock_lkcd_pinned. Qed.
Print Assumptions C05_deadlock_free_lkcd_refuted.

(** every trace a thread of the repaired protocol can produce is accepted by
    the per-thread automaton the tie runs on the real library's events *)
Theorem C05_model_traces_accepted :
  forall (fill : N -> option value) cap progs sched t th,
    nth_error (thr (run true fill sched (init cap progs))) t = Some th ->
    (exists a, auto_run CL astate0 (trace th) = AOk a) /\
    (todo th = [] -> thread_trace_ok CL (trace th) = None).
Proof. exact model_traces_accepted. Qed.
Print Assumptions C05_model_traces_accepted.

(** 7. The lock class of every public entry point ([Conc/ApiLock.v]: the
    table [api_table], ids shared with the C driver).  Writers are exclusive:
    any number of threads, each running any sequence of entry points; in
    every reachable state, while one thread holds [shared->lock] in write
    mode (is inside the write section of a ReqWrite / ReqWriteAfterRead entry
    point) no other thread holds it in any mode, and hence no other thread
    holds any lock, i.e. is inside any entry point's locked section *)
Theorem C05_writers_exclusive :
  forall (tprogs : list (list program)) (sched : list nat),
    (forall tp p, In tp tprogs -> In p tp -> In p api_entry_points) ->
    let s := lrun sched (linit (map (@concat lop) tprogs)) in
    forall t th t' th',
      nth_error s t = Some th -> holds_ex shared_lock (lheld th) = true ->
      t' <> t -> nth_error s t' = Some th' ->
      holds_any shared_lock (lheld th') = false /\ lheld th' = [].
Proof. exact writers_exclusive. Qed.
Print Assumptions C05_writers_exclusive.

(** the rwlock semantics alone, for ANY programs: a lock one thread holds
    exclusively is held by no other thread in any mode *)
Theorem C05_rw_exclusive :
  forall (progs : list program) (sched : list nat) l t th t' th',
    t <> t' ->
    nth_error (lrun sched (linit progs)) t = Some th ->
    nth_error (lrun sched (linit progs)) t' = Some th' ->
    holds_ex l (lheld th) = true -> holds_any l (lheld th') = false.
Proof. exact rw_exclusive. Qed.
Print Assumptions C05_rw_exclusive.

(** the entry points of the table never deadlock either *)
Theorem C05_api_deadlock_free :
  forall (tprogs : list (list program)) (sched : list nat),
    (forall tp p, In tp tprogs -> In p tp -> In p api_entry_points) ->
    let s := lrun sched (linit (map (@concat lop) tprogs)) in
    lfinished s = true \/ exists t, lstep t s <> None.
Proof. exact api_deadlock_free. Qed.
Print Assumptions C05_api_deadlock_free.

(** every id of the table has a model program, it is one of the entry points
    the theorems above quantify over, and its events satisfy the check the
    tie applies to the real call's events *)
Theorem C05_api_table_consistent :
  forall id r, api_req id = Some r ->
    exists p, api_prog id = Some p /\ In p api_entry_points /\
              api_call_ok SL r (events_of_prog p) = true.
Proof. exact api_table_consistent. Qed.
Print Assumptions C05_api_table_consistent.

(** the seeded variant (kdump_set_sub_attr, id 21, taking the lock as a
    reader): rejected by the check, and a reader and this "writer" are inside
    their sections at the same time *)
Theorem C05_api_reader_variant_refuted :
  api_req 21 = Some ReqWrite /\
  api_call_ok SL ReqWrite (events_of_prog prog_set_sub_attr_seeded) = false /\
  exists sched,
    map lheld (lrun sched (linit [prog_reader; prog_set_sub_attr_seeded]))
    = [[(shared_lock, Sh)]; [(shared_lock, Sh)]].
Proof. exact api_reader_variant. Qed.
Print Assumptions C05_api_reader_variant_refuted.

(** 6. Non-vacuity: 3 threads, 2 slots; one BUSY, one failing fill, two
    sequential (not joined) misses on key 5; quiescent, nothing pinned *)
Example C05_nonvacuous :
  let s := run true wfill sched_nonvacuous (init 2 [[5; 9]; [6; 5]; [7]]%N) in
  joined s = false /\ stale s = false /\ quiescent s = true /\
  all_unpinned (cch s) = true /\ no_inflight (cch s) = true /\
  map results (thr s) =
    [ [(9, RFail); (5, RBytes (Filled 105))];
      [(5, RBytes (Filled 105)); (6, RBytes (Filled 106))];
      [(7, RBusy)] ]%N /\
  map (fun th => thread_trace_ok CL (trace th)) (thr s) = [None; None; None].
Proof. vm_compute. repeat split. Qed.

(** a fill failing while another thread has joined the same in-flight entry *)
Example C05_nonvacuous_joined_failing_fill :
  let s := run true wfill (T 0 3 ++ T 1 3 ++ T 0 6 ++ T 1 6) (init 2 [[9]; [9]]%N) in
  joined s = true /\ stale s = false /\ quiescent s = true /\
  cch s = [None; None] /\
  map results (thr s) = [ [(9, RFail)]; [(9, RFail)] ]%N.
Proof. vm_compute. repeat split. Qed.

(** the per-call check: relocking inside a call is accepted; a read lock in
    a ReqWrite call, no lock, or an unbalanced call are rejected; a writer
    state of the table's programs is reachable *)
Example C05_nonvacuous_api :
  api_call_ok 7 ReqRead [EvRdLock 7; EvLock 1; EvUnlock 1; EvRwUnlock 7; EvRdLock 7; EvRwUnlock 7] = true /\
  api_call_ok 7 ReqWrite [EvWrLock 7; EvRwUnlock 7; EvWrLock 7; EvRwUnlock 7] = true /\
  api_call_ok 7 ReqWriteAfterRead [EvRdLock 7; EvRwUnlock 7; EvWrLock 7; EvRwUnlock 7] = true /\
  api_call_ok 7 ReqWrite [EvWrLock 7; EvRwUnlock 7; EvRdLock 7; EvRwUnlock 7] = false /\
  api_call_ok 7 ReqWrite [EvLock 1; EvUnlock 1] = false /\
  api_call_ok 7 ReqRead [EvRdLock 7] = false /\
  map lheld (lrun [0; 0; 0; 1] (linit [prog_clone; prog_read_generic]))
    = [[(shared_lock, Ex)]; []].
Proof. vm_compute. repeat split. Qed.

(** the lock-order checks on the transcribed entry points *)
Example C05_nonvacuous_lock_order :
  forallb (ordered lib_rank) entry_points_repaired = true /\
  acyclicb (acquisition_edges entry_points_repaired) = true /\
  ordered lib_rank prog_revalidate_pinned = false /\
  acyclicb (acquisition_edges entry_points_pinned) = false.
Proof. vm_compute. repeat split. Qed.
