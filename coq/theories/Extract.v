(** The only file with Extraction commands.  [ExtrOcamlBasic] only: [N], [Z],
    [positive], [nat] stay the extracted inductive types.  One OCaml module per
    Coq file ([Separate Extraction]), written into the current directory. *)
From Coq Require Import Extraction ExtrOcamlBasic.
From KdV Require Import Base.Wrap64 Map.MapModel Map.MapSpec.

Extraction Language OCaml.
Separate Extraction
  nat Wrap64.W
  MapModel.run MapModel.map_set MapModel.map_search MapModel.set_delta
  MapSpec.denote MapSpec.tilesb MapSpec.total MapSpec.set_spec.
