(** C13 — the attribute tree behaves like a typed hierarchical dictionary.
    (statements are added as the proofs are completed) *)
From Coq Require Import NArith ZArith List Bool.
From KdV Require Import Base.Wrap64 Attr.AttrBase Attr.AttrTree Attr.AttrSpec.
Import ListNotations.
Local Open Scope N_scope.

Example C13_nonvacuous_tree :
  let t := ANode [] TDir true false VNone
             [ANode [97] TDir false false VNone [ANode [98] TNum false false VNone []]] in
  let s := afinal [OSet 0 (Some (false, [[97]; [98]])) TNum (VNum 7)] (ainit t) in
  get_at (O, [[97]; [98]]) s = (KDUMP_OK, TNum, VNum 7) /\
  get_at (O, [[97]]) s = (KDUMP_OK, TDir, VNone).
Proof. vm_compute. split; reflexivity. Qed.
