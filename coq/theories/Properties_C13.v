(** C13 — the attribute tree behaves like a typed hierarchical dictionary.
    Statements only; every proof is [exact <lemma>].

    Model: Attr/AttrTree.v (attributes without set/clear hooks; keys with hooks
    are C14's subject); spec: Attr/AttrSpec.v ([d_*] on [path -> option entry],
    [dl_*] on association lists — the form the correspondence check replays);
    proofs: Attr/AttrProofs.v.  The hash table is abstracted to path
    resolution in the tree model; Attr/AttrHash.v models [keycmp] and the bucket
    chains and shows that the two agree for every hash function.
    Attr/AttrChain.v models the clones as a LIST of dictionaries (own hash
    table each, fallback pointer, owner_dict walking the whole chain) — the
    tree model above keeps them as contexts over the original dictionary.
    The model follows the library with fixes 57..59 applied. *)
From Coq Require Import NArith ZArith List Bool.
From KdV Require Import Base.Wrap64 Attr.AttrBase Attr.AttrTree Attr.AttrSpec Attr.AttrProofs
  Attr.AttrHash Attr.AttrHashProofs Attr.AttrChain Attr.AttrChainProofs
  Attr.AttrChainVal Attr.AttrChainValProofs.
Import ListNotations.
Local Open Scope N_scope.

(** Every history of sets (by path), clears (NIL) and refused sets, with
    arbitrary keys, types and values, on ANY tree (also one where a directory
    without a value has children with values, as [addrxlat] in a new context),
    has the same statuses and the same resulting dictionary as on the
    dictionary: [d_set] (the key holds the value and is persistent; the
    directories above it get a value, from the parent upwards until one has
    one already), [d_clear] (the key and its whole subtree have none, whether
    or not the key itself had a value), unchanged when refused. *)
Theorem C13_refines_dictionary : forall ops n,
  fst (ttrace ops n) = fst (dtrace ops (dict_of n)) /\
  deq (dict_of (snd (ttrace ops n))) (snd (dtrace ops (dict_of n))).
Proof. exact history_refines. Qed.
Print Assumptions C13_refines_dictionary.

(** The hash table.  [keycmp] answers 0 exactly when the attribute's template
    keys, from itself upwards, are the components of the key (last first) and
    the next ancestor has [dir]'s template — for every key made of dot-free
    components that does not start with a dot. *)
Theorem C13_keycmp_exact : forall comps ch dt,
  valid comps ->
  (keycmp ch dt (join_with DOT comps) = true <-> matches (rev comps) ch dt).
Proof. exact keycmp_exact. Qed.
Print Assumptions C13_keycmp_exact.

(** For EVERY hash function (any assignment of paths to buckets, any collisions)
    and any table order: looking a key up below [dir] returns the attribute
    whose path is [dir] followed by the key's components if the table holds it,
    and nothing otherwise — the lookup is path resolution, which is what
    [Attr/AttrTree.v] uses. *)
Theorem C13_lookup_any_hash : forall hash tmpl,
  (forall a b, tmpl a = tmpl b -> a = b) ->
  forall table dir key,
  no_leading_dot key ->
  lookup_hash hash tmpl table dir key =
  if in_dec (list_eq_dec (list_eq_dec N.eq_dec)) (dir ++ split_on DOT key) table
  then Some (dir ++ split_on DOT key) else None.
Proof. exact lookup_hash_key. Qed.
Print Assumptions C13_lookup_any_hash.

(** reading by path is [d_get] of that dictionary ... *)
Theorem C13_get_by_path : forall q s, get_at (O, q) s = d_get q (dict_of (base s)).
Proof. exact get_at_dict. Qed.
Print Assumptions C13_get_by_path.

(** ... a reference (or sub-reference) reads the attribute it addresses ... *)
Theorem C13_get_by_reference : forall c slot a s d,
  ctx_dict c s = Some d -> nth_error (refs s) slot = Some (Some a) ->
  astep (ORefGet c slot) s = (let '(st, ty, v) := get_at a s in AValue st ty v, s).
Proof. exact ref_get_is_get. Qed.
Print Assumptions C13_get_by_reference.

(** ... and so does an iterator position *)
Theorem C13_get_by_iterator : forall dir i n ch s,
  addr_node dir s = Some n -> nth_error (akids n) i = Some ch ->
  iter_out dir (Some i) s =
  let '(st2, ty, v) := get_at (fst dir, snd dir ++ [akey ch]) s in
  AIter KDUMP_OK (Some (akey ch)) st2 ty v.
Proof. exact iter_pos_is_get. Qed.
Print Assumptions C13_get_by_iterator.

(** what the dictionary operations mean: a value that was set is returned
    unchanged until the key is set again or cleared *)
Theorem C13_set_then_get : forall p v d e,
  d p = Some e ->
  d_get p (d_set p v d) = (KDUMP_OK, e_ty e, match e_ty e with TDir => e_val e | _ => v end).
Proof. exact d_get_set_same. Qed.
Print Assumptions C13_set_then_get.

Theorem C13_set_elsewhere : forall p q v d,
  prefix q p = false -> d_get q (d_set p v d) = d_get q d.
Proof. exact d_get_set_other. Qed.
Print Assumptions C13_set_elsewhere.

(** a set never takes anything from an ancestor: type, value and persistence
    stay, and it has a value afterwards if it had one or the walk reached it *)
Theorem C13_set_ancestors : forall p q v d e,
  strict_prefix q p = true -> d q = Some e ->
  d_set p v d q = Some {| e_ty := e_ty e; e_set := e_set e || inst_reach d q p;
                          e_persist := e_persist e; e_val := e_val e |}.
Proof. exact d_get_set_ancestor. Qed.
Print Assumptions C13_set_ancestors.

(** a set whose post-set hook fails (set_attr marks the ancestors and stores the
    value before the hook runs): the state is the state after the successful
    set — the value is in place AND the directories above it are marked, so
    every law about sets (C13_refines_dictionary, C13_set_ancestors,
    C13_set_then_get) holds for it; only the status is the hook's *)
Theorem C13_failed_hook_set_is_a_set : forall st c k ty v s,
  snd (astep_hookfail st c k ty v s) = snd (astep (OSet c k ty v) s) /\
  (fst (astep (OSet c k ty v) s) = AStatus KDUMP_OK -> fst (astep_hookfail st c k ty v s) = AStatus st) /\
  (fst (astep (OSet c k ty v) s) <> AStatus KDUMP_OK ->
   fst (astep_hookfail st c k ty v s) = fst (astep (OSet c k ty v) s)).
Proof. exact hookfail_state. Qed.
Print Assumptions C13_failed_hook_set_is_a_set.

Theorem C13_failed_hook_set_spec : forall st p ty v l,
  snd (dl_check_set_hookfail st p ty v l) = snd (dl_check_set p ty v l) /\
  fst (dl_check_set_hookfail st p ty v l) =
  (if status_eqb (fst (dl_check_set p ty v l)) KDUMP_OK then st else fst (dl_check_set p ty v l)).
Proof. exact hookfail_spec. Qed.
Print Assumptions C13_failed_hook_set_spec.

Theorem C13_clear_elsewhere : forall p q d,
  prefix p q = false -> d_get q (d_clear p d) = d_get q d.
Proof. exact d_get_clear_other. Qed.
Print Assumptions C13_clear_elsewhere.

(** clearing an attribute of the tree makes it and its whole subtree report no
    value, and nothing else changes *)
Theorem C13_clear_subtree : forall p n m,
  node_at p n = Some m ->
  let n' := fst (update_at p clear_node false n) in
  (forall q, prefix p q = true -> fst (fst (d_get q (dict_of n'))) <> KDUMP_OK) /\
  (forall q, prefix p q = false -> d_get q (dict_of n') = d_get q (dict_of n)).
Proof. exact tree_clear_subtree. Qed.
Print Assumptions C13_clear_subtree.

(** a set with the wrong type is refused with KDUMP_ERR_INVALID and has no effect *)
Theorem C13_type_mismatch_no_effect : forall p ty v n m,
  node_at p n = Some m -> ty <> TNil -> atype_eqb ty (aty m) = false ->
  tset p ty v n = (ERR_INVALID, n).
Proof. exact type_mismatch. Qed.
Print Assumptions C13_type_mismatch_no_effect.

(** iterating a directory from start to end yields exactly its set children,
    in sibling order, each exactly once *)
Theorem C13_iter_each_set_child_once : forall kids,
  map (fun j => nth_error kids j) (listing kids) = map Some (filter aisset kids) /\
  NoDup (listing kids).
Proof. exact (fun kids => conj (listing_spec kids) (iter_from_nodup _ kids O)). Qed.
Print Assumptions C13_iter_each_set_child_once.

(** The same for an iteration interleaved with arbitrary sets and clears: call
    number j (start, next, next, ...) sees the children in state [ks j].  Every
    position yielded holds, at that time, a child with a value; every sibling
    between the previous position and the yielded one had no value at that
    time; positions only move forward, so nothing is yielded twice; and when
    the iteration ends no later sibling has a value.  Hence every sibling that
    has a value when the iterator passes it is yielded exactly once. *)
Theorem C13_iter_interleaved : forall fuel ks j start k p,
  nth_error (iter_run fuel ks j start) k = Some p ->
  let s := call_start start (iter_run fuel ks j start) k in
  (s <= p)%nat /\ set_at (ks (j + k)%nat) p = true /\
  forall i, (s <= i < p)%nat -> set_at (ks (j + k)%nat) i = false.
Proof. exact iter_run_spec. Qed.
Print Assumptions C13_iter_interleaved.

Theorem C13_iter_interleaved_once : forall fuel ks j start, NoDup (iter_run fuel ks j start).
Proof. exact iter_run_nodup. Qed.
Print Assumptions C13_iter_interleaved_once.

Theorem C13_iter_interleaved_end : forall fuel ks j start,
  (length (iter_run fuel ks j start) < fuel)%nat ->
  let ps := iter_run fuel ks j start in
  forall i, (call_start start ps (length ps) <= i)%nat -> set_at (ks (j + length ps)%nat) i = false.
Proof. exact iter_run_end. Qed.
Print Assumptions C13_iter_interleaved_end.

(** the step to the next position depends only on the siblings after the current
    one: clearing (or setting) the child the iterator stands on, or any earlier
    one, does not end or otherwise change the iteration *)
Theorem C13_iter_next_ignores_current : forall l l' s,
  (forall i, (s <= i)%nat -> set_at l i = set_at l' i) -> length l = length l' ->
  first_set l s = first_set l' s.
Proof. exact first_set_ext. Qed.
Print Assumptions C13_iter_next_ignores_current.

(** opening another file in the same context (clear_volatile_attrs): attributes
    set by the application keep their values; an attribute that still has a
    value had it before, and it or an attribute below it was set by the
    application *)
Theorem C13_reopen_keeps_persistent_only : forall q n m,
  node_at q n = Some m ->
  let d' := dict_of (fst (clear_volatile n)) in
  (apersist m = true -> d_get q d' = d_get q (dict_of n)) /\
  (fst (fst (d_get q d')) = KDUMP_OK ->
   d_get q d' = d_get q (dict_of n) /\ exists x, desc m x /\ apersist x = true).
Proof. exact reopen_keeps. Qed.
Print Assumptions C13_reopen_keeps_persistent_only.

(** a clone that shares the dictionary is indistinguishable from the context it
    was made from *)
Theorem C13_clone_shared_sees_same : forall s c0 c1,
  ctx_dict c1 s = ctx_dict c0 s -> ctx_dict c0 s <> None ->
  forall k ty v,
  astep (OGet c1 k) s = astep (OGet c0 k) s /\
  astep (OSet c1 k ty v) s = astep (OSet c0 k ty v) s /\
  (forall isl, astep (OIterStart c1 isl k) s = astep (OIterStart c0 isl k) s) /\
  (forall sl, astep (ORef c1 sl k) s = astep (ORef c0 sl k) s).
Proof. exact clone_shared_same. Qed.
Print Assumptions C13_clone_shared_sees_same.

(** through a KDUMP_CLONE_XLAT clone, every key outside [addrxlat] (the
    documented per-clone item) is the original dictionary's attribute: get and
    set act exactly as through the original context.
    _partial: the root directory itself is not covered — the clone's own root
    is an unset directory that lists only [addrxlat] (open finding). *)
Theorem C13_clones_see_same_except_documented_partial : forall s k ov c0 c1 p0 rest ty v,
  ctx_dict c0 s = Some O -> ctx_dict c1 s = Some (S k) ->
  nth_error (overlays s) k = Some (Some ov) -> overlay_ok ov -> p0 <> s_addrxlat ->
  astep (OGet c1 (Some (false, p0 :: rest))) s = astep (OGet c0 (Some (false, p0 :: rest))) s /\
  astep (OSet c1 (Some (false, p0 :: rest)) ty v) s = astep (OSet c0 (Some (false, p0 :: rest)) ty v) s.
Proof. exact clone_xlat_same. Qed.
Print Assumptions C13_clones_see_same_except_documented_partial.

(** the clone operation creates exactly that: the same dictionary, or a new one
    holding only a copy of [addrxlat]; sets keep it so *)
Theorem C13_clone_creates : forall s from xlat r s',
  astep (OClone from xlat) s = (r, s') -> r <> ABad ->
  base s' = base s /\
  (xlat = false -> overlays s' = overlays s /\ ctx_dict (length (ctxs s)) s' = ctx_dict from s) /\
  (xlat = true -> exists ov, overlays s' = overlays s ++ [Some ov] /\ overlay_ok ov /\
                  ctx_dict (length (ctxs s)) s' = Some (S (length (overlays s)))).
Proof. exact clone_creates. Qed.
Print Assumptions C13_clone_creates.

(** the private copy made for a KDUMP_CLONE_XLAT clone keeps value and flags of
    every attribute that has a value: what the application set is persistent in
    the clone too, so opening a dump through the clone keeps it *)
Theorem C13_clone_preserves_persist : forall n,
  akey (clone_node n) = akey n /\ aty (clone_node n) = aty n /\
  aisset (clone_node n) = aisset n /\
  (aisset n = true -> apersist (clone_node n) = apersist n /\ aval_of (clone_node n) = aval_of n) /\
  (aisset n = false -> apersist (clone_node n) = false).
Proof. exact clone_node_flags. Qed.
Print Assumptions C13_clone_preserves_persist.

Theorem C13_clone_then_reopen_keeps : forall n,
  aisset n = true -> apersist n = true ->
  entry_of (fst (clear_volatile (clone_node n))) =
  {| e_ty := aty n; e_set := true; e_persist := true; e_val := aval_of n |}.
Proof. exact clone_then_reopen_keeps. Qed.
Print Assumptions C13_clone_then_reopen_keeps.

Theorem C13_overlay_stays : forall p f inst ov,
  keeps_key f -> keeps_kid_keys f -> overlay_ok ov -> overlay_ok (fst (update_at p f inst ov)).
Proof. exact update_at_overlay_ok. Qed.
Print Assumptions C13_overlay_stays.

(** ---- the chain of dictionaries behind clones (Attr/AttrChain.v) ----
    Each dictionary has its own hash table and a fallback pointer; an attribute
    records both the table it is hashed in and the dictionary whose tree links
    it.  [chain s i] is dictionary i followed by its fallbacks. *)
Local Close Scope N_scope.

(** lookup through ANY level, for EVERY hash function: the C lookup (bucket
    walk with keycmp in each table, then the fallback) returns the attribute
    with that path in the first dictionary of the chain that has one — the
    dictionary semantics of the chain — and nothing else *)
Theorem C13_chain_lookup : forall (hash : bytes -> N) (tmpl : cpath -> N),
  (forall a b, tmpl a = tmpl b -> a = b) ->
  forall s i dir key, no_leading_dot key ->
  lookup_chain hash tmpl s i dir key =
  match first_owner s (chain s i) (dir ++ split_on DOT key) with
  | Some k => Some (k, dir ++ split_on DOT key)
  | None => None
  end.
Proof. exact chain_lookup. Qed.
Print Assumptions C13_chain_lookup.

(** owner_dict (as repaired by 34936d6: walk the WHOLE chain) finds the
    dictionary of the parent directory wherever it is on the chain *)
Theorem C13_chain_owner : forall s i a,
  In (a_table a) (chain s i) -> owner_dict s i a = a_table a.
Proof. exact owner_dict_spec. Qed.
Print Assumptions C13_chain_owner.

(** creation through ANY level [i] below a directory reachable from it is
    visible through EVERY level [i'] that resolves the parent directory to the
    same attribute, and keeps the state well-formed (hashed where linked) *)
Theorem C13_chain_create_visible : forall s i parent c i',
  inv s -> In parent (attrs s) -> In (a_table parent) (chain s i) ->
  first_owner s (chain s i') (a_path parent) = Some (a_table parent) ->
  first_owner (create s i parent c) (chain (create s i parent c) i') (a_path parent ++ [c])
  = Some (a_table parent).
Proof. exact create_visible. Qed.
Print Assumptions C13_chain_create_visible.

Theorem C13_chain_create_wellformed : forall s i parent c,
  inv s -> In parent (attrs s) -> In (a_table parent) (chain s i) -> inv (create s i parent c).
Proof. exact create_inv. Qed.
Print Assumptions C13_chain_create_wellformed.

(** freeing ANY dictionary of a well-formed state (a leaf or one in the middle):
    no remaining attribute is hashed in it, no attribute has its table entry in
    a dead dictionary, the state stays well-formed *)
Theorem C13_chain_free_safe : forall s k,
  inv s ->
  (forall a, In a (attrs (free_dict s k)) -> a_table a <> k) /\
  (forall a, ~ dangling (free_dict s k) a) /\
  inv (free_dict s k).
Proof. exact free_safe. Qed.
Print Assumptions C13_chain_free_safe.

(** ... and well-formedness is what it takes: an attribute hashed in another
    dictionary than the one linking it (what owner_dict did before 34936d6 for
    chains longer than two) dangles once that dictionary is freed *)
Theorem C13_chain_misplaced_dangles : forall s k a,
  In a (attrs s) -> a_table a = k -> a_tree a <> k ->
  (exists d, dict_at s k = Some d) -> dangling (free_dict s k) a.
Proof. exact misplaced_dangles. Qed.
Print Assumptions C13_chain_misplaced_dangles.

(** cloning with KDUMP_CLONE_XLAT keeps the state well-formed; the statements
    above are not vacuous: a chain of three dictionaries is well-formed *)
Theorem C13_chain_clone_wellformed : forall s i priv,
  inv s -> (forall p q c, In p priv -> p = q ++ [c] -> In q priv) -> inv (clone_xlat s i priv).
Proof. exact clone_inv. Qed.
Print Assumptions C13_chain_clone_wellformed.

(** the operations that the correspondence check replays against the real hash
    tables (engine attr-chain) keep every state well-formed: clones of both
    kinds with reference counts, creation of a whole path through any level,
    removal of a subtree, dropping references until dictionaries are freed —
    and after any release nothing dangles.  [invb] is what the check evaluates
    on every replayed state. *)
Theorem C13_chain_ops_wellformed :
  (forall s k, inv s -> inv (clone_shared s k)) /\
  (forall s i priv, inv s -> (forall p q c, In p priv -> p = q ++ [c] -> In q priv) ->
                    inv (clone_xlat_ref s i priv)) /\
  (forall todo s i done, inv s -> inv (create_path s i done todo)) /\
  (forall s i p strict, inv s -> inv (remove_below s i p strict)) /\
  (forall fuel s k, inv s -> inv (release fuel s k)) /\
  (forall fuel s k a, inv s -> ~ dangling (release fuel s k) a).
Proof.
  exact (conj clone_shared_inv (conj clone_xlat_ref_inv (conj create_path_inv
        (conj remove_below_inv (conj release_inv release_no_dangling))))).
Qed.
Print Assumptions C13_chain_ops_wellformed.

Theorem C13_chain_invb_sound : forall s, invb s = true -> inv s.
Proof. exact invb_sound. Qed.
Print Assumptions C13_chain_invb_sound.

(** ---- values through the levels (Attr/AttrChainVal.v) ----
    A value belongs to the attribute (dictionary, path) that a level's lookup
    ends at; [vowner s i p] is that attribute for level i. *)

(** a set (or a clear: v = None) through level i is seen through EXACTLY the
    levels whose lookup of the key ends at the same attribute; every other
    level keeps what it saw; no other key changes through any level *)
Theorem C13_chain_set_seen_by_sharers_only : forall s i p v k i',
  vowner s i p = Some k ->
  vget (vset s i p v) i' p =
  match vowner s i' p with
  | Some k' => if Nat.eqb k' k then v else vget s i' p
  | None => None
  end.
Proof. exact vget_vset. Qed.
Print Assumptions C13_chain_set_seen_by_sharers_only.

Theorem C13_chain_set_other_keys : forall s i p v i' p',
  p' <> p -> vget (vset s i p v) i' p' = vget s i' p'.
Proof. exact vget_vset_other. Qed.
Print Assumptions C13_chain_set_other_keys.

(** a KDUMP_CLONE_XLAT clone of level i (new level n = number of dictionaries):
    the old levels see what they saw; the new level shows for EVERY key the
    value level i shows (private copies carry the values, the rest falls
    through); from then on the clone's lookup of a private path ends in its own
    dictionary and of any other path where level i's ends — so, with the theorem
    above, sets of private keys are per clone and sets of all other keys are
    seen through both *)
Theorem C13_chain_clone_values : forall s i priv,
  dwf (cs s) -> i < length (dicts (cs s)) ->
  (forall a, In a (attrs (cs s)) -> a_table a < length (dicts (cs s))) ->
  let n := length (dicts (cs s)) in
  let s' := vclone_xlat s i priv in
  (forall i' p, i' < n -> vget s' i' p = vget s i' p) /\
  (forall p, vget s' n p = vget s i p) /\
  (forall p, vowner s' n p = if in_dec cpath_eq_dec p priv then Some n else vowner s i p).
Proof. exact vclone_values. Qed.
Print Assumptions C13_chain_clone_values.

(** the hypotheses hold along the replayed histories: [dwfb] and [invb] are
    evaluated on every state; a clone keeps [dwf] *)
Theorem C13_chain_clone_hyps :
  (forall c, dwfb c = true -> dwf c) /\
  (forall c, inv c -> forall a, In a (attrs c) -> a_table a < length (dicts c)) /\
  (forall c i priv, dwf c -> i < length (dicts c) -> dwf (clone_xlat_ref c i priv)).
Proof. exact (conj dwfb_sound (conj inv_tables_lt dwf_clone)). Qed.
Print Assumptions C13_chain_clone_hyps.

Theorem C13_chain_values_nonvacuous :
  map (fun i => vget (vset v_chain3 2 [nm_xlat] (Some 7%N)) i [nm_xlat]) [0; 1; 2]%nat = [None; None; Some 7%N] /\
  map (fun i => vget (vset v_chain3 2 [nm_linux] (Some 9%N)) i [nm_linux]) [0; 1; 2]%nat = [Some 9%N; Some 9%N; Some 9%N].
Proof. exact (conj v_chain3_private v_chain3_shared). Qed.
Print Assumptions C13_chain_values_nonvacuous.

Theorem C13_chain_nonvacuous : inv s_chain3 /\ chain s_chain3 2 = [2; 1; 0]%nat.
Proof. exact (conj s_chain3_inv chain3_walk). Qed.
Print Assumptions C13_chain_nonvacuous.
Local Open Scope N_scope.

(** the association-list dictionary that the correspondence check replays is
    this dictionary: one checked set is [d_step], and the list the check starts
    from is the dictionary of the initial tree *)
Theorem C13_executable_spec_step : forall p ty v l,
  fst (dl_check_set p ty v l) = fst (d_step p ty v (dl_dict l)) /\
  deq (dl_dict (snd (dl_check_set p ty v l))) (snd (d_step p ty v (dl_dict l))).
Proof. exact dl_check_set_step. Qed.
Print Assumptions C13_executable_spec_step.

Theorem C13_executable_spec_init : forall n, uniq n -> forall pre q,
  dl_find (pre ++ q) (flatten pre n) = option_map entry_of (node_at q n).
Proof. exact flatten_dict. Qed.
Print Assumptions C13_executable_spec_init.

Theorem C13_uniq_decidable : forall n, uniqb n = true -> uniq n.
Proof. exact uniqb_sound. Qed.
Print Assumptions C13_uniq_decidable.

(** ** the hypotheses are satisfiable on non-trivial instances *)
Definition ex_tree : anode :=
  ANode [] TDir true false VNone
    [ANode [97] TDir true false VNone
       [ANode [98] TNum false false VNone []; ANode [99] TStr true false (VStr [120]) []];
     ANode [100] TNum true true (VNum 5) []].

Example C13_nonvacuous_history :
  let '(sts, n') := ttrace [([[97]; [98]], TNum, VNum 7); ([[97]; [98]], TStr, VStr []);
                            ([[97]], TNil, VNone); ([[122]], TNum, VNum 1)] ex_tree in
  sts = [KDUMP_OK; ERR_INVALID; KDUMP_OK; ERR_NOKEY] /\
  d_get [[97]; [98]] (dict_of n') = (ERR_NODATA, TNil, VNone) /\
  d_get [[100]] (dict_of n') = (KDUMP_OK, TNum, VNum 5).
Proof. vm_compute. repeat split. Qed.

Example C13_nonvacuous_uniq : uniqb ex_tree = true.
Proof. vm_compute. reflexivity. Qed.

(* a directory without a value above a directory with one (addrxlat / addrxlat.force in a
   new context): a set below stops at the set directory, a clear of the unset one clears all *)
Definition ex_open : anode :=
  ANode [] TDir true false VNone
    [ANode [97] TDir false false VNone
       [ANode [102] TDir true false VNone [ANode [120] TNum false false VNone []]]].

Example C13_nonvacuous_unset_ancestor :
  let '(sts, n') := ttrace [([[97]; [102]; [120]], TNum, VNum 40)] ex_open in
  d_get [[97]; [102]; [120]] (dict_of n') = (KDUMP_OK, TNum, VNum 40) /\
  d_get [[97]] (dict_of n') = (ERR_NODATA, TNil, VNone) /\
  let '(sts2, n2) := ttrace [([[97]], TNil, VNone)] n' in
  sts2 = [KDUMP_OK] /\ d_get [[97]; [102]; [120]] (dict_of n2) = (ERR_NODATA, TNil, VNone) /\
  d_get [[97]; [102]] (dict_of n2) = (ERR_NODATA, TNil, VNone).
Proof. vm_compute. repeat split. Qed.

Example C13_nonvacuous_keycmp :
  (* attribute "K428" below dir (template 7): the key "K42" does not match, "K428" does *)
  keycmp [([75;52;50;56], 1); ([108], 7); ([], 0)] 7 [75;52;50] = false /\
  keycmp [([75;52;50;56], 1); ([108], 7); ([], 0)] 7 [75;52;50;56] = true /\
  keycmp [([98], 2); ([97], 1); ([108], 7); ([], 0)] 7 [97;46;98] = true.
Proof. vm_compute. repeat split. Qed.

Example C13_nonvacuous_iter_reopen :
  listing (akids ex_tree) = [0%nat; 1%nat] /\
  d_get [[97]; [99]] (dict_of (fst (clear_volatile ex_tree))) = (ERR_NODATA, TNil, VNone) /\
  d_get [[100]] (dict_of (fst (clear_volatile ex_tree))) = (KDUMP_OK, TNum, VNum 5).
Proof. vm_compute. repeat split. Qed.

(* three children with values; the one the iterator stands on is cleared before every "next":
   all three are still yielded *)
Example C13_nonvacuous_iter_interleaved :
  let a s := ANode [97] TNum s false (VNum 1) [] in
  let b s := ANode [98] TNum s false (VNum 2) [] in
  let c s := ANode [99] TNum s false (VNum 3) [] in
  let ks j := match j with
              | O => [a true; b true; c true]
              | S O => [a false; b true; c true]
              | S (S O) => [a false; b false; c true]
              | _ => [a false; b false; c false]
              end in
  iter_run 4 ks 0 0 = [0%nat; 1%nat; 2%nat].
Proof. vm_compute. reflexivity. Qed.
