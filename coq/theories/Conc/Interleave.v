(** C05 — interleaving semantics of N threads running the read protocol of
    [Protocol.v] on one shared cache.  Definitions only; executable.

    A schedule is a list of choices [(t, victim)]: thread [t] performs its
    next atomic step; [victim] is the oracle's answer should that step have
    to reclaim a buffer (ignored otherwise), so a schedule also fixes the
    replacement policy.  [step] returns [None] when the choice is not a
    transition: [t] is not a thread, [t] has finished, [t]'s next step is a
    [Lock] while the mutex is held (the thread is BLOCKED), or the oracle
    names a slot that may not be reclaimed.  [run] skips such choices
    (stutters), so [run] is total and every list of choices is a schedule;
    reachability is existence of a schedule. *)
From Coq Require Import NArith List Bool Arith.
From KdV Require Import Conc.Protocol.
Import ListNotations.

Record state := mkState {
  cch : cache;                (* shared: the page cache *)
  lck : option nat;           (* shared: holder of cache_lock *)
  thr : list thread;          (* per-thread local state *)
  joined : bool;              (* ghost: some GetEntry returned another
                                 thread's in-flight entry (defect #34) *)
  stale : bool                (* ghost: some step went through a handle
                                 whose entry no longer exists *)
}.

Definition choice := (nat * nat)%type.

Section Sem.
Variable put_locked : bool.
Variable fill : N -> option value.

Definition step (ch : choice) (s : state) : option state :=
  let '(t, victim) := ch in
  match nth_error (thr s) t with
  | None => None
  | Some th =>
    match todo th with
    | [] => None
    | k :: rest =>
      match tstep put_locked fill t victim (cch s) (lck s) th k rest with
      | None => None
      | Some (c', l', th', j, stl) =>
          Some (mkState c' l' (set_nth (thr s) t th') (joined s || j) (stale s || stl))
      end
    end
  end.

Fixpoint run (sched : list choice) (s : state) : state :=
  match sched with
  | [] => s
  | ch :: sched' =>
      match step ch s with
      | Some s' => run sched' s'
      | None => run sched' s
      end
  end.

Definition init (cap : nat) (progs : list (list N)) : state :=
  mkState (repeat None cap) None (map init_thread progs) false false.

Definition reachable (cap : nat) (progs : list (list N)) (s : state) : Prop :=
  exists sched, run sched (init cap progs) = s.

Definition finished (th : thread) : bool :=
  match todo th with [] => true | _ :: _ => false end.

Definition quiescent (s : state) : bool := forallb finished (thr s).

(** thread [t] can take a step (for some oracle answer) *)
Definition enabled (t : nat) (s : state) : Prop :=
  exists victim, step (t, victim) s <> None.

(** the next step of thread [t] is a mutex acquisition *)
Definition at_lock (th : thread) : bool :=
  match pc th with PLock1 | PLock2 | PLock3 => true | _ => false end.

End Sem.

(** observations used in the statements *)

Definition slot_refcnt (c : cache) (e : nat) : N :=
  match slot c e with Some ent => refcnt ent | None => 0%N end.

Definition no_inflight (c : cache) : bool :=
  forallb (fun o => match o with
                    | Some ent => match st ent with Valid => true | InFlight => false end
                    | None => true
                    end) c.

Definition all_unpinned (c : cache) : bool :=
  forallb (fun o => match o with
                    | Some ent => N.eqb (refcnt ent) 0
                    | None => true
                    end) c.

(** the cache without buffer contents: the bookkeeping that [cache_lock]
    protects *)
Definition book (c : cache) : list (option (N * est * N)) :=
  map (option_map (fun ent => (key ent, st ent, refcnt ent))) c.
