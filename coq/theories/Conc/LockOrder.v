(** C05 — lock acquisition order: a model of threads that only take and
    release locks (mutexes and reader/writer locks; readers do not exclude
    readers), the rank discipline that rules out deadlock, the acquisition
    graph, and the library's entry points transcribed as acquisition
    programs.  Definitions only; executable.

    PARTIAL BY DESIGN: a thread is the sequence of its lock operations; the
    data it touches is not modelled here ([Protocol.v] does that for the
    read path), and writer preference of the platform's rwlock (a waiting
    writer that blocks new readers) is not modelled — no entry point nests
    [shared->lock], so it cannot create a cycle here. *)
From Coq Require Import List Bool Arith.
From KdV Require Import Conc.Protocol.
Import ListNotations.

Definition lock := nat.

Inductive lop :=
| Acq (l : lock) | Rel (l : lock)                     (* mutex_lock / mutex_unlock *)
| AcqRd (l : lock) | AcqWr (l : lock) | RelRw (l : lock).  (* rwlock_* *)

Definition program := list lop.

Inductive mode := Ex | Sh.
Definition held := list (lock * mode).

Record lthread := mkLT { lprog : program; lheld : held }.
Definition lstate := list lthread.

Definition is_ex (m : mode) : bool := match m with Ex => true | Sh => false end.

Definition holds_any (l : lock) (h : held) : bool :=
  existsb (fun lm => Nat.eqb (fst lm) l) h.
Definition holds_ex (l : lock) (h : held) : bool :=
  existsb (fun lm => Nat.eqb (fst lm) l && is_ex (snd lm)) h.

Fixpoint release (l : lock) (h : held) : held :=
  match h with
  | [] => []
  | lm :: h' => if Nat.eqb (fst lm) l then h' else lm :: release l h'
  end.

(** nobody (the caller included: the mutexes are not recursive) holds [l] in
    a mode that conflicts with [m] *)
Definition free_for (m : mode) (l : lock) (s : lstate) : bool :=
  forallb (fun th => negb (match m with
                           | Ex => holds_any l (lheld th)
                           | Sh => holds_ex l (lheld th)
                           end)) s.

(** one step of thread [t]; [None]: no such thread, finished, or BLOCKED *)
Definition lstep (t : nat) (s : lstate) : option lstate :=
  match nth_error s t with
  | None => None
  | Some th =>
    match lprog th with
    | [] => None
    | Acq l :: p | AcqWr l :: p =>
        if free_for Ex l s then Some (set_nth s t (mkLT p ((l, Ex) :: lheld th))) else None
    | AcqRd l :: p =>
        if free_for Sh l s then Some (set_nth s t (mkLT p ((l, Sh) :: lheld th))) else None
    | Rel l :: p | RelRw l :: p =>
        Some (set_nth s t (mkLT p (release l (lheld th))))
    end
  end.

(** schedules stutter on choices that are not transitions, as in [Interleave] *)
Fixpoint lrun (sched : list nat) (s : lstate) : lstate :=
  match sched with
  | [] => s
  | t :: sched' => match lstep t s with
                   | Some s' => lrun sched' s'
                   | None => lrun sched' s
                   end
  end.

Definition linit (progs : list program) : lstate := map (fun p => mkLT p []) progs.

Definition lfinished (s : lstate) : bool :=
  forallb (fun th => match lprog th with [] => true | _ :: _ => false end) s.

(** no thread can ever move again although some thread has not finished *)
Definition deadlocked (s : lstate) : Prop :=
  lfinished s = false /\ forall t, lstep t s = None.

(** * The rank discipline *)

Section Rank.
Variable rank : lock -> nat.

(** every acquisition has a rank above everything held, every release
    releases something held, nothing is held at the end *)
Fixpoint ordered_from (h : held) (p : program) : bool :=
  match p with
  | [] => match h with [] => true | _ :: _ => false end
  | Acq l :: p' | AcqWr l :: p' =>
      forallb (fun lm => rank (fst lm) <? rank l) h && ordered_from ((l, Ex) :: h) p'
  | AcqRd l :: p' =>
      forallb (fun lm => rank (fst lm) <? rank l) h && ordered_from ((l, Sh) :: h) p'
  | Rel l :: p' | RelRw l :: p' =>
      holds_any l h && ordered_from (release l h) p'
  end.

Definition ordered (p : program) : bool := ordered_from [] p.

End Rank.

(** * The acquisition graph: an edge (a, b) when b is acquired while a is held *)

Fixpoint edges_from (h : held) (p : program) : list (lock * lock) :=
  match p with
  | [] => []
  | Acq l :: p' | AcqWr l :: p' =>
      map (fun lm => (fst lm, l)) h ++ edges_from ((l, Ex) :: h) p'
  | AcqRd l :: p' =>
      map (fun lm => (fst lm, l)) h ++ edges_from ((l, Sh) :: h) p'
  | Rel l :: p' | RelRw l :: p' => edges_from (release l h) p'
  end.

Definition acquisition_edges (progs : list program) : list (lock * lock) :=
  flat_map (edges_from []) progs.

Definition succs (es : list (lock * lock)) (a : lock) : list lock :=
  map snd (filter (fun e => Nat.eqb (fst e) a) es).

Fixpoint reach (es : list (lock * lock)) (fuel : nat) (frontier : list lock) : list lock :=
  match fuel with
  | O => []
  | S f => let nxt := nodup Nat.eq_dec (flat_map (succs es) frontier) in
           nxt ++ reach es f nxt
  end.

Definition acyclicb (es : list (lock * lock)) : bool :=
  let ns := nodup Nat.eq_dec (map fst es ++ map snd es) in
  forallb (fun a => negb (existsb (Nat.eqb a) (reach es (length ns) [a]))) ns.

Inductive path (es : list (lock * lock)) : lock -> lock -> Prop :=
| path_edge : forall a b, In (a, b) es -> path es a b
| path_step : forall a b c, In (a, b) es -> path es b c -> path es a c.

(** * The library's locks and entry points *)

Definition shared_lock : lock := 0.        (* shared->lock, rwlock *)
Definition cache_lock : lock := 1.         (* shared->cache_lock *)
Definition pfn_block_mutex : lock := 2.    (* lkcd_priv.pfn_block_mutex *)

Definition crit (l : lock) : program := [Acq l; Rel l].

(** kdump_read on ELF / diskdump / sadump / devmem ...: read.c kdump_read
    takes the shared lock for reading; cache_get_page brackets
    cache_get_entry, the format's read_page brackets its fcache access,
    cache_get_page brackets insert/discard; the repaired cache_put_page
    brackets the decrement. *)
Definition prog_read_generic : program :=
  [AcqRd shared_lock] ++ crit cache_lock ++ crit cache_lock ++ crit cache_lock
  ++ crit cache_lock ++ [RelRw shared_lock].

(** kdump_read on LKCD: lkcd_read_page calls get_page_desc (which takes
    pfn_block_mutex) while holding cache_lock (lkcd.c 763-767) *)
Definition prog_read_lkcd : program :=
  [AcqRd shared_lock] ++ crit cache_lock
  ++ [Acq cache_lock; Acq pfn_block_mutex; Rel pfn_block_mutex; Rel cache_lock]
  ++ crit cache_lock ++ crit cache_lock ++ crit cache_lock ++ [RelRw shared_lock].

(** attribute read that triggers lkcd_max_pfn_revalidate, PINNED source
    (lkcd.c 693-735): pfn_block_mutex first, cache_lock nested *)
Definition prog_revalidate_pinned : program :=
  [AcqRd shared_lock; Acq pfn_block_mutex; Acq cache_lock; Rel cache_lock;
   Rel pfn_block_mutex; RelRw shared_lock].

(** the same entry point REPAIRED (defect #18): cache_lock first *)
Definition prog_revalidate_repaired : program :=
  [AcqRd shared_lock; Acq cache_lock; Acq pfn_block_mutex; Rel pfn_block_mutex;
   Rel cache_lock; RelRw shared_lock].

(** kdump_get_attr / kdump_set_attr without revalidation *)
Definition prog_get_attr : program := [AcqRd shared_lock; RelRw shared_lock].
Definition prog_set_attr : program := [AcqWr shared_lock; RelRw shared_lock].

Definition entry_points_repaired : list program :=
  [prog_read_generic; prog_read_lkcd; prog_revalidate_repaired; prog_get_attr; prog_set_attr].

Definition entry_points_pinned : list program :=
  [prog_read_generic; prog_read_lkcd; prog_revalidate_pinned; prog_get_attr; prog_set_attr].

(** rank = the lock's number: shared_lock < cache_lock < pfn_block_mutex *)
Definition lib_rank (l : lock) : nat := l.
