(** C05 — proofs about the interleaving semantics: the invariant of
    [ConcInv.v] is preserved by every step of the repaired protocol. *)
From Coq Require Import NArith List Bool Arith Lia.
From KdV Require Import Conc.Protocol Conc.Interleave Conc.ConcLemmas Conc.ConcInv.
Import ListNotations.

Section Proofs.
Variable fill : N -> option value.

Notation Inv := (Inv fill).
Notation holds := (holds fill).
Notation holdsb := (holdsb fill).
Notation holders := (holders fill).
Notation thread_ok := (thread_ok fill).
Notation hview := (hview fill).
Notation result_ok := (result_ok fill).

Lemma vslot_some : forall c e k s b, vslot c e = Some (k, s, b) ->
  exists a, slot c e = Some a /\ key a = k /\ st a = s /\ buf a = b.
Proof.
  intros c e k s b H. unfold vslot in H. destruct (slot c e) as [a|]; [|discriminate].
  inversion H; subst. exists a. repeat split.
Qed.

Lemma vslot_of_slot : forall c e a, slot c e = Some a -> vslot c e = Some (key a, st a, buf a).
Proof. intros c e a H. unfold vslot. now rewrite H. Qed.

Lemma holders_lt : forall ts t th e,
  nth_error ts t = Some th -> holdsb th e = false -> holders ts e < length ts.
Proof.
  induction ts as [|x ts IH]; intros t th e H Hh; [destruct t; discriminate|].
  destruct t; cbn [nth_error ConcInv.holders length] in *.
  - inversion H; subst. rewrite Hh. cbn [b2n].
    pose proof (holders_le_length fill ts e). lia.
  - specialize (IH _ _ _ H Hh). unfold b2n. destruct (ConcInv.holdsb fill x e); lia.
Qed.

Lemma thread_ok_done : forall c rest k r rs tr,
  Forall result_ok rs -> result_ok (k, r) ->
  thread_ok c (mkThread PLock1 rest None 0%N Garbage ((k, r) :: rs) tr).
Proof.
  intros c rest k r rs tr HR Hr. split; cbn [results todo pc].
  - constructor; assumption.
  - destruct rest; [reflexivity|exact I].
Qed.

Lemma holds_done : forall rest rs tr,
  holds (mkThread PLock1 rest None 0%N Garbage rs tr) = None.
Proof. intros. unfold ConcInv.holds. cbn [todo pc]. destruct rest; reflexivity. Qed.

Lemma dec32_one : dec32 1 = 0%N.
Proof. reflexivity. Qed.

(** the step of the repaired protocol preserves the invariant *)
Lemma tstep_inv : forall s t victim th k rest c' l' th' stl,
  Inv s -> nth_error (thr s) t = Some th -> todo th = k :: rest ->
  tstep true fill t victim (cch s) (lck s) th k rest = Some (c', l', th', false, stl) ->
  stl = false /\ Inv (mkState c' l' (set_nth (thr s) t th') false false) /\
  untouched fill s t c'.
Proof.
  intros s t victim th k rest c' l' th' stl I Ht Htodo Hstep.
  pose proof (inv_thr _ _ I _ _ Ht) as [HR HT].
  destruct th as [p td cu rg gt rs tr]. cbn [todo] in Htodo. subst td.
  cbn [results] in HR. cbn [todo pc cur got] in HT.
  unfold tstep in Hstep. cbn [pc cur reg got] in Hstep.
  destruct p.
  - (* PLock1 *)
    destruct (lck s); [discriminate|]. inversion Hstep; subst; clear Hstep.
    split; [reflexivity|].
    eapply inv_local; [exact I|exact Ht|reflexivity|]. split; [exact HR|exact Logic.I].
  - (* PGet *)
    destruct (cache_get (cch s) k victim) as [[[c'' oe] j]|] eqn:G; [|discriminate].
    inversion Hstep; subst; clear Hstep. split; [reflexivity|].
    apply cache_get_cases in G.
    destruct G as [(e & a & Hs & Hk & Hst & -> & -> & _)
                  |[Hj|[(NK & Hfull & -> & -> & _)
                  |(NK & _ & f & b & Hf & Hrc & _ & -> & -> & _)]]].
    + (* hit *)
      pose proof (slot_some_lt _ _ _ Hs) as Hlt.
      eapply inv_update; [exact I|exact Ht|exact Hlt| | | | | |].
      * eapply key_uniq_set_same; [apply (inv_keys _ _ I)|exact Hs|reflexivity].
      * intros a0 E; inversion E; subst. intros _. cbn [key buf set_refcnt].
        apply (inv_valid _ _ I e a Hs Hst).
      * intros a0 E; inversion E; subst. intros E2. cbn [st set_refcnt] in E2. congruence.
      * intros e'. unfold ConcInv.holdsb, ConcInv.holds. unfold th_set; cbn [todo pc cur].
        destruct (Nat.eq_dec e e') as [<-|Hne].
        -- rewrite slot_refcnt_set_eq by assumption. cbn [refcnt set_refcnt].
           rewrite Nat.eqb_refl. unfold slot_refcnt at 1. rewrite Hs.
           pose proof (inv_ref _ _ I e) as R. unfold slot_refcnt in R. rewrite Hs in R.
           assert (Hh : holdsb (mkThread PGet (k :: rest) cu rg gt rs tr) e = false) by reflexivity.
           pose proof (holders_lt _ _ _ _ Ht Hh) as L.
           pose proof (inv_small _ _ I) as Sm.
           rewrite inc32_small by lia. cbn [b2n]. lia.
        -- rewrite slot_refcnt_set_neq by assumption.
           apply Nat.eqb_neq in Hne. rewrite Hne. reflexivity.
      * split; [exact HR|]. unfold th_set; cbn [todo pc cur got results trace pc_ok].
        unfold ConcInv.hview, ConcInv.holds. cbn [todo pc cur].
        rewrite vslot_set_eq by assumption. cbn [key st buf set_refcnt].
        rewrite Hk. eauto.
      * left. rewrite vslot_set_eq by assumption. cbn [key st buf set_refcnt].
        symmetry. now apply vslot_of_slot.
    + discriminate.
    + (* busy *)
      eapply inv_local; [exact I|exact Ht|reflexivity|]. split; [exact HR|exact Logic.I].
    + (* new in-flight entry in a free or reclaimed buffer *)
      eapply inv_update; [exact I|exact Ht|exact Hf| | | | | |].
      * apply key_uniq_set_new; [apply (inv_keys _ _ I)|exact Hf|exact NK].
      * intros a0 E; inversion E; subst. intros E2. discriminate.
      * intros a0 E; inversion E; subst. intros _. reflexivity.
      * intros e'. unfold ConcInv.holdsb, ConcInv.holds. unfold th_set; cbn [todo pc cur].
        destruct (Nat.eq_dec f e') as [<-|Hne].
        -- rewrite slot_refcnt_set_eq by assumption. cbn [refcnt].
           rewrite Nat.eqb_refl, Hrc. reflexivity.
        -- rewrite slot_refcnt_set_neq by assumption.
           apply Nat.eqb_neq in Hne. rewrite Hne. reflexivity.
      * split; [exact HR|]. unfold th_set; cbn [todo pc cur got results trace pc_ok].
        unfold ConcInv.hview, ConcInv.holds. cbn [todo pc cur].
        rewrite vslot_set_eq by assumption. cbn [key st buf]. eauto.
      * right. rewrite Hrc. reflexivity.
  - (* PUnlock1 *)
    destruct cu as [e|]; inversion Hstep; subst; clear Hstep; (split; [reflexivity|]).
    + eapply inv_local; [exact I|exact Ht|reflexivity|]. split; [exact HR|exact HT].
    + eapply inv_local; [exact I|exact Ht| |].
      * unfold th_done. cbn [results trace]. now rewrite holds_done.
      * apply thread_ok_done; [exact HR|exact Logic.I].
  - (* PCheck *)
    destruct HT as (s0 & b0 & HV).
    unfold ConcInv.hview, ConcInv.holds in HV. cbn [todo pc cur] in HV.
    destruct cu as [e|]; [|discriminate].
    apply vslot_some in HV. destruct HV as (a & Hs & Hk & Hst & Hb).
    unfold cur_entry in Hstep. cbn [cur] in Hstep. rewrite Hs in Hstep.
    inversion Hstep; subst; clear Hstep. split; [reflexivity|].
    eapply inv_local; [exact I|exact Ht| |].
    + unfold th_set, ConcInv.holds. cbn [todo pc cur]. destruct (st a); reflexivity.
    + split; [exact HR|]. unfold th_set; cbn [todo pc cur got].
      destruct (st a) eqn:Hst; cbn [pc_ok];
        unfold ConcInv.hview, ConcInv.holds; cbn [todo pc cur];
        rewrite (vslot_of_slot _ _ _ Hs), Hst.
      * destruct (inv_valid _ _ I e a Hs Hst) as (v & Hv & Hbv).
        exists v. rewrite Hbv. split; [exact Hv|reflexivity].
      * eauto.
  - (* PBeginFill *)
    destruct HT as (b0 & HV).
    unfold ConcInv.hview, ConcInv.holds in HV. cbn [todo pc cur] in HV.
    destruct cu as [e|]; [|discriminate].
    apply vslot_some in HV. destruct HV as (a & Hs & Hk & Hst & Hb).
    unfold upd_cur in Hstep. cbn [cur] in Hstep. rewrite Hs in Hstep.
    inversion Hstep; subst; clear Hstep. split; [reflexivity|].
    pose proof (slot_some_lt _ _ _ Hs) as Hlt.
    pose proof (inv_infl _ _ I e a Hs Hst) as Hone.
    eapply inv_update; [exact I|exact Ht|exact Hlt| | | | | |].
    * eapply key_uniq_set_same; [apply (inv_keys _ _ I)|exact Hs|reflexivity].
    * intros a0 E; inversion E; subst. intros E2. cbn [st set_buf] in E2. congruence.
    * intros a0 E; inversion E; subst. intros _. exact Hone.
    * intros e'. unfold ConcInv.holdsb, ConcInv.holds. unfold th_set; cbn [todo pc cur].
      destruct (Nat.eq_dec e e') as [<-|Hne].
      -- rewrite slot_refcnt_set_eq by assumption. cbn [refcnt set_buf].
         unfold slot_refcnt. now rewrite Hs.
      -- now rewrite slot_refcnt_set_neq by assumption.
    * split; [exact HR|]. unfold th_set; cbn [todo pc cur got results trace pc_ok].
      unfold ConcInv.hview, ConcInv.holds. cbn [todo pc cur].
      rewrite vslot_set_eq by assumption. cbn [key st buf set_buf]. rewrite Hst. eauto.
    * right. unfold slot_refcnt. rewrite Hs, Hone.
      unfold ConcInv.holdsb, ConcInv.holds. cbn [todo pc cur]. now rewrite Nat.eqb_refl.
  - (* PEndFill *)
    destruct HT as (b0 & HV).
    unfold ConcInv.hview, ConcInv.holds in HV. cbn [todo pc cur] in HV.
    destruct cu as [e|]; [|discriminate].
    pose proof HV as HV0.
    apply vslot_some in HV. destruct HV as (a & Hs & Hk & Hst & Hb).
    destruct (fill k) as [v|] eqn:Hfill.
    + unfold upd_cur in Hstep. cbn [cur] in Hstep. rewrite Hs in Hstep.
      inversion Hstep; subst; clear Hstep. split; [reflexivity|].
      pose proof (slot_some_lt _ _ _ Hs) as Hlt.
      pose proof (inv_infl _ _ I e a Hs Hst) as Hone.
      eapply inv_update; [exact I|exact Ht|exact Hlt| | | | | |].
      * eapply key_uniq_set_same; [apply (inv_keys _ _ I)|exact Hs|reflexivity].
      * intros a0 E; inversion E; subst. intros E2. cbn [st set_buf] in E2. congruence.
      * intros a0 E; inversion E; subst. intros _. exact Hone.
      * intros e'. unfold ConcInv.holdsb, ConcInv.holds. unfold th_set; cbn [todo pc cur].
        destruct (Nat.eq_dec e e') as [<-|Hne].
        -- rewrite slot_refcnt_set_eq by assumption. cbn [refcnt set_buf].
           unfold slot_refcnt. now rewrite Hs.
        -- now rewrite slot_refcnt_set_neq by assumption.
      * split; [exact HR|]. unfold th_set; cbn [todo pc cur got results trace pc_ok].
        unfold ConcInv.hview, ConcInv.holds. cbn [todo pc cur].
        rewrite vslot_set_eq by assumption. cbn [key st buf set_buf]. rewrite Hst.
        eexists. split; [reflexivity|]. intros v' Hv'. congruence.
      * right. unfold slot_refcnt. rewrite Hs, Hone.
        unfold ConcInv.holdsb, ConcInv.holds. cbn [todo pc cur]. now rewrite Nat.eqb_refl.
    + inversion Hstep; subst; clear Hstep. split; [reflexivity|].
      eapply inv_local; [exact I|exact Ht|reflexivity|].
      split; [exact HR|]. unfold th_set; cbn [todo pc cur got results trace pc_ok].
      exists (buf a). split; [exact HV0|]. intros v Hv. congruence.
  - (* PLock2 *)
    destruct (lck s); [discriminate|]. inversion Hstep; subst; clear Hstep.
    split; [reflexivity|].
    eapply inv_local; [exact I|exact Ht|reflexivity|]. split; [exact HR|exact HT].
  - (* PInsDis *)
    destruct HT as (b0 & HV & Hfilled).
    unfold ConcInv.hview, ConcInv.holds in HV. cbn [todo pc cur] in HV.
    destruct cu as [e|]; [|discriminate].
    apply vslot_some in HV. destruct HV as (a & Hs & Hk & Hst & Hb).
    pose proof (slot_some_lt _ _ _ Hs) as Hlt.
    pose proof (inv_infl _ _ I e a Hs Hst) as Hone.
    unfold upd_cur in Hstep. cbn [cur] in Hstep. rewrite Hs in Hstep.
    destruct (fill k) as [v|] eqn:Hfill.
    + inversion Hstep; subst; clear Hstep. split; [reflexivity|].
      unfold do_insert.
      eapply inv_update; [exact I|exact Ht|exact Hlt| | | | | |].
      * eapply key_uniq_set_same; [apply (inv_keys _ _ I)|exact Hs|reflexivity].
      * intros a0 E; inversion E; subst. intros _. cbn [key buf set_st].
        exists v. split; [exact Hfill|]. now apply Hfilled.
      * intros a0 E; inversion E; subst. intros E2. cbn [st set_st] in E2. discriminate.
      * intros e'. unfold ConcInv.holdsb, ConcInv.holds. unfold th_set; cbn [todo pc cur].
        rewrite Hfill.
        destruct (Nat.eq_dec e e') as [<-|Hne].
        -- rewrite slot_refcnt_set_eq by assumption. cbn [refcnt set_st].
           unfold slot_refcnt. now rewrite Hs.
        -- now rewrite slot_refcnt_set_neq by assumption.
      * split; [exact HR|]. unfold th_set; cbn [todo pc cur got results trace pc_ok]. rewrite Hfill.
        unfold ConcInv.hview, ConcInv.holds. cbn [todo pc cur]. rewrite Hfill.
        rewrite vslot_set_eq by assumption. cbn [key st buf set_st].
        rewrite (Hfilled v eq_refl). reflexivity.
      * right. unfold slot_refcnt. rewrite Hs, Hone.
        unfold ConcInv.holdsb, ConcInv.holds. cbn [todo pc cur]. now rewrite Nat.eqb_refl.
    + unfold do_discard in Hstep. rewrite Hone, dec32_one, Hst in Hstep. cbn in Hstep.
      inversion Hstep; subst; clear Hstep. split; [reflexivity|].
      eapply inv_update; [exact I|exact Ht|exact Hlt| | | | | |].
      * apply key_uniq_set_none. apply (inv_keys _ _ I).
      * intros a0 E; discriminate.
      * intros a0 E; discriminate.
      * intros e'. unfold ConcInv.holdsb, ConcInv.holds. unfold th_set; cbn [todo pc cur].
        rewrite Hfill.
        destruct (Nat.eq_dec e e') as [<-|Hne].
        -- rewrite slot_refcnt_set_eq by assumption. rewrite Nat.eqb_refl.
           unfold slot_refcnt. rewrite Hs, Hone. reflexivity.
        -- rewrite slot_refcnt_set_neq by assumption.
           apply Nat.eqb_neq in Hne. rewrite Hne. reflexivity.
      * split; [exact HR|]. unfold th_set; cbn [todo pc cur got results trace pc_ok]. now rewrite Hfill.
      * right. unfold slot_refcnt. rewrite Hs, Hone.
        unfold ConcInv.holdsb, ConcInv.holds. cbn [todo pc cur]. now rewrite Nat.eqb_refl.
  - (* PUnlock2 *)
    destruct (fill k) as [v|] eqn:Hfill; inversion Hstep; subst; clear Hstep;
      (split; [reflexivity|]).
    + eapply inv_local; [exact I|exact Ht| |].
      * unfold th_set, ConcInv.holds. cbn [todo pc cur]. now rewrite Hfill.
      * split; [exact HR|]. unfold th_set; cbn [todo pc cur got results trace pc_ok].
        exists v. split; [exact Hfill|].
        unfold ConcInv.hview, ConcInv.holds in *. cbn [todo pc cur] in *.
        cbn [pc_ok] in HT. rewrite Hfill in HT. exact HT.
    + eapply inv_local; [exact I|exact Ht| |].
      * unfold th_done. cbn [results trace]. rewrite holds_done.
        unfold ConcInv.holds. cbn [todo pc cur]. now rewrite Hfill.
      * apply thread_ok_done; [exact HR|exact Hfill].
  - (* PUse *)
    destruct HT as (v & Hfill & HV).
    unfold ConcInv.hview, ConcInv.holds in HV. cbn [todo pc cur] in HV.
    destruct cu as [e|]; [|discriminate].
    pose proof HV as HV0.
    apply vslot_some in HV. destruct HV as (a & Hs & Hk & Hst & Hb).
    unfold cur_entry in Hstep. cbn [cur] in Hstep. rewrite Hs in Hstep.
    inversion Hstep; subst; clear Hstep. split; [reflexivity|].
    eapply inv_local; [exact I|exact Ht|reflexivity|].
    split; [exact HR|]. unfold th_set; cbn [todo pc cur got results trace pc_ok].
    exists v. repeat split; assumption.
  - (* PPutLoad *) destruct HT.
  - (* PPutStore *) destruct HT.
  - (* PLock3 *)
    destruct (lck s); [discriminate|]. inversion Hstep; subst; clear Hstep.
    split; [reflexivity|].
    eapply inv_local; [exact I|exact Ht|reflexivity|]. split; [exact HR|exact HT].
  - (* PPut *)
    destruct HT as (v & Hfill & HV & Hg).
    unfold ConcInv.hview, ConcInv.holds in HV. cbn [todo pc cur] in HV.
    destruct cu as [e|]; [|discriminate].
    apply vslot_some in HV. destruct HV as (a & Hs & Hk & Hst & Hb).
    pose proof (slot_some_lt _ _ _ Hs) as Hlt.
    unfold upd_cur in Hstep. cbn [cur] in Hstep. rewrite Hs in Hstep.
    inversion Hstep; subst; clear Hstep. split; [reflexivity|].
    unfold do_put.
    assert (Hh : holdsb (mkThread PPut (key a :: rest) (Some e) rg (Filled v) rs tr) e = true).
    { unfold ConcInv.holdsb, ConcInv.holds. cbn [todo pc cur]. apply Nat.eqb_refl. }
    pose proof (holders_ge1 _ _ _ _ _ Ht Hh) as G1.
    pose proof (holders_le_length fill (thr s) e) as G2.
    pose proof (inv_small _ _ I) as Sm.
    pose proof (inv_ref _ _ I e) as R. unfold slot_refcnt in R. rewrite Hs in R.
    eapply inv_update; [exact I|exact Ht|exact Hlt| | | | | |].
    * eapply key_uniq_set_same; [apply (inv_keys _ _ I)|exact Hs|reflexivity].
    * intros a0 E; inversion E; subst. intros _. cbn [key buf set_refcnt].
      apply (inv_valid _ _ I e a Hs Hst).
    * intros a0 E; inversion E; subst. intros E2. cbn [st set_refcnt] in E2. congruence.
    * intros e'. unfold ConcInv.holdsb, ConcInv.holds. unfold th_set; cbn [todo pc cur].
      destruct (Nat.eq_dec e e') as [<-|Hne].
      -- rewrite slot_refcnt_set_eq by assumption. cbn [refcnt set_refcnt].
         rewrite Nat.eqb_refl. unfold slot_refcnt. rewrite Hs.
         rewrite dec32_pos by lia. cbn [b2n]. lia.
      -- rewrite slot_refcnt_set_neq by assumption.
         apply Nat.eqb_neq in Hne. rewrite Hne. reflexivity.
    * split; [exact HR|]. unfold th_set; cbn [todo pc cur got results trace pc_ok]. eauto.
    * left. rewrite vslot_set_eq by assumption. cbn [key st buf set_refcnt].
      symmetry. now apply vslot_of_slot.
  - (* PUnlock3 *)
    inversion Hstep; subst; clear Hstep. split; [reflexivity|].
    eapply inv_local; [exact I|exact Ht| |].
    + unfold th_done. cbn [results trace]. now rewrite holds_done.
    + apply thread_ok_done; [exact HR|]. exact HT.
Qed.

End Proofs.
