(** C05 — consequences of the invariant along every schedule of the
    repaired protocol: results, BUSY only when full, references pin
    entries, quiescence. *)
From Coq Require Import NArith List Bool Arith Lia.
From KdV Require Import Conc.Protocol Conc.Interleave Conc.ConcLemmas Conc.ConcInv
  Conc.ConcProofs.
Import ListNotations.

Section Safety.
Variable fill : N -> option value.

Notation Inv := (Inv fill).
Notation holds := (holds fill).
Notation holdsb := (holdsb fill).
Notation holders := (holders fill).

(** * generic facts about [step] / [run] *)

Lemma step_inversion : forall pl t victim s s',
  step pl fill (t, victim) s = Some s' ->
  exists th k rest c' l' th' j stl,
    nth_error (thr s) t = Some th /\ todo th = k :: rest /\
    tstep pl fill t victim (cch s) (lck s) th k rest = Some (c', l', th', j, stl) /\
    s' = mkState c' l' (set_nth (thr s) t th') (joined s || j) (stale s || stl).
Proof.
  intros pl t victim s s' H. unfold step in H.
  destruct (nth_error (thr s) t) as [th|] eqn:Ht; [|discriminate].
  destruct (todo th) as [|k rest] eqn:Htd; [discriminate|].
  destruct (tstep pl fill t victim (cch s) (lck s) th k rest)
    as [[[[[c' l'] th'] j] stl]|] eqn:Hs; [|discriminate].
  inversion H; subst. exists th, k, rest, c', l', th', j, stl. repeat split; assumption.
Qed.

Lemma run_ind : forall pl (P : state -> Prop),
  (forall ch s s', P s -> step pl fill ch s = Some s' -> P s') ->
  forall sched s, P s -> P (run pl fill sched s).
Proof.
  intros pl P Hstep sched. induction sched as [|ch sched IH]; intros s Hs; [exact Hs|].
  cbn [run]. destruct (step pl fill ch s) as [s'|] eqn:E.
  - apply IH. eapply Hstep; eauto.
  - now apply IH.
Qed.

Lemma run_app : forall pl a b s,
  run pl fill (a ++ b) s = run pl fill b (run pl fill a s).
Proof.
  intros pl a. induction a as [|ch a IH]; intros b s; [reflexivity|].
  cbn [app run]. destruct (step pl fill ch s); apply IH.
Qed.

(** [joined] is sticky *)
Lemma joined_step : forall pl ch s s',
  step pl fill ch s = Some s' -> joined s' = false -> joined s = false.
Proof.
  intros pl [t v] s s' H Hj. apply step_inversion in H.
  destruct H as (th & k & rest & c' & l' & th' & j & stl & _ & _ & _ & ->).
  cbn [joined] in Hj. now apply orb_false_elim in Hj.
Qed.

Lemma joined_run_prefix : forall pl a b s,
  joined (run pl fill (a ++ b) s) = false -> joined (run pl fill a s) = false.
Proof.
  intros pl a b s. rewrite run_app. generalize (run pl fill a s) as s1.
  induction b as [|ch b IH]; intros s1 H; [exact H|].
  cbn [run] in H. destruct (step pl fill ch s1) as [s2|] eqn:E.
  - eapply joined_step; eauto.
  - now apply IH.
Qed.

(** * the invariant holds initially and along unjoined schedules *)

Lemma slot_repeat_none : forall n e, slot (repeat None n) e = None.
Proof.
  intros n e. unfold slot. destruct (nth_error (repeat None n) e) as [o|] eqn:E; [|reflexivity].
  apply nth_error_In in E. now apply repeat_spec in E.
Qed.

Lemma holders_init : forall progs e, holders (map init_thread progs) e = 0.
Proof.
  induction progs as [|p progs IH]; intros e; [reflexivity|].
  cbn [map ConcInv.holders]. rewrite IH.
  unfold ConcInv.holdsb, ConcInv.holds, init_thread. cbn [todo pc]. now destruct p.
Qed.

Lemma inv_init : forall cap progs,
  (N.of_nat (length progs) < M32)%N -> Inv (init cap progs).
Proof.
  intros cap progs Hsm. constructor; cbn [init cch thr stale].
  - reflexivity.
  - intros e1 e2 a b H. now rewrite slot_repeat_none in H.
  - intros e a H. now rewrite slot_repeat_none in H.
  - intros e a H. now rewrite slot_repeat_none in H.
  - intros e. unfold slot_refcnt. now rewrite slot_repeat_none, holders_init.
  - intros t th H. apply nth_error_In in H. apply in_map_iff in H.
    destruct H as (p & <- & _). split; cbn [init_thread results todo pc].
    + constructor.
    + destruct p; [reflexivity|exact I].
  - now rewrite map_length.
Qed.

Lemma step_inv : forall ch s s',
  (joined s = false -> Inv s) -> step true fill ch s = Some s' ->
  joined s' = false -> Inv s'.
Proof.
  intros [t v] s s' HI H Hj. pose proof (joined_step _ _ _ _ H Hj) as Hj0.
  specialize (HI Hj0). apply step_inversion in H.
  destruct H as (th & k & rest & c' & l' & th' & j & stl & Ht & Htd & Hts & ->).
  cbn [joined] in Hj. rewrite Hj0 in Hj. cbn [orb] in Hj. subst j.
  destruct (tstep_inv fill _ _ _ _ _ _ _ _ _ _ HI Ht Htd Hts) as (-> & HI' & _).
  rewrite Hj0, (inv_stale _ _ HI). exact HI'.
Qed.

(** a step of one thread does not reclaim, re-key, revalidate or rewrite an
    entry that another thread holds *)
Lemma step_untouched : forall t v s s',
  Inv s -> step true fill (t, v) s = Some s' -> joined s' = false ->
  untouched fill s t (cch s').
Proof.
  intros t v s s' HI H Hj. pose proof (joined_step _ _ _ _ H Hj) as Hj0.
  apply step_inversion in H.
  destruct H as (th & k & rest & c' & l' & th' & j & stl & Ht & Htd & Hts & ->).
  cbn [joined] in Hj. rewrite Hj0 in Hj. cbn [orb] in Hj. subst j.
  destruct (tstep_inv fill _ _ _ _ _ _ _ _ _ _ HI Ht Htd Hts) as (_ & _ & U).
  exact U.
Qed.

Theorem inv_run : forall cap progs sched,
  (N.of_nat (length progs) < M32)%N ->
  joined (run true fill sched (init cap progs)) = false ->
  Inv (run true fill sched (init cap progs)).
Proof.
  intros cap progs sched Hsm.
  apply (run_ind true (fun s => joined s = false -> Inv s)).
  - intros ch s s' HI H Hj. eapply step_inv; eauto.
  - intros _. now apply inv_init.
Qed.

(** * (a) results *)

Lemma inv_results : forall s t th k r,
  Inv s -> nth_error (thr s) t = Some th -> In (k, r) (results th) ->
  match r with
  | RBytes b => exists v, fill k = Some v /\ b = Filled v
  | RBusy => True
  | RFail => fill k = None
  end.
Proof.
  intros s t th k r HI Ht Hin. destruct (inv_thr _ _ HI _ _ Ht) as [HR _].
  rewrite Forall_forall in HR. exact (HR _ Hin).
Qed.

(** * (c) a held reference pins key, state and contents *)

Lemma inv_holder_view : forall s t th e k rest,
  Inv s -> nth_error (thr s) t = Some th -> holds th = Some e -> todo th = k :: rest ->
  exists a, slot (cch s) e = Some a /\ key a = k /\
    (st a = Valid -> exists v, fill k = Some v /\ buf a = Filled v).
Proof.
  intros s t th e k rest HI Ht Hh Htd. destruct (inv_thr _ _ HI _ _ Ht) as [_ HT].
  rewrite Htd in HT. unfold ConcInv.hview in HT. rewrite Hh in HT.
  assert (A : exists s0 b, vslot (cch s) e = Some (k, s0, b)).
  { unfold ConcInv.holds in Hh. rewrite Htd in Hh.
    destruct (pc th); cbn [pc_ok] in HT; try discriminate.
    - destruct (cur th); [exact HT|discriminate].
    - exact HT.
    - destruct HT as (b & H). eauto.
    - destruct HT as (b & H). eauto.
    - destruct HT as (b & H & _). eauto.
    - destruct HT as (b & H & _). eauto.
    - destruct (fill k); [eauto|discriminate].
    - destruct HT as (v & _ & H). eauto.
    - destruct HT.
    - destruct HT.
    - destruct HT as (v & _ & H & _). eauto.
    - destruct HT as (v & _ & H & _). eauto. }
  destruct A as (s0 & b & HV). apply vslot_some in HV.
  destruct HV as (a & Hs & Hk & Hst & Hb). exists a. repeat split; try assumption.
  intros Hv. destruct (inv_valid _ _ HI e a Hs Hv) as (v & Hf & Hbv).
  exists v. split; [congruence|assumption].
Qed.

(** * (d) quiescence *)

Lemma holders_quiescent : forall ts e,
  forallb finished ts = true -> holders ts e = 0.
Proof.
  induction ts as [|th ts IH]; intros e H; [reflexivity|].
  cbn [forallb] in H. apply andb_prop in H. destruct H as [H1 H2].
  cbn [ConcInv.holders]. rewrite (IH e H2).
  unfold ConcInv.holdsb, ConcInv.holds. unfold finished in H1.
  destruct (todo th); [reflexivity|discriminate].
Qed.

Lemma inv_quiescent : forall s,
  Inv s -> quiescent s = true ->
  all_unpinned (cch s) = true /\ no_inflight (cch s) = true.
Proof.
  intros s HI Hq. unfold quiescent in Hq.
  assert (Z : forall e a, slot (cch s) e = Some a -> refcnt a = 0%N).
  { intros e a Hs. pose proof (inv_ref _ _ HI e) as R.
    unfold slot_refcnt in R. rewrite Hs, holders_quiescent in R by assumption. exact R. }
  split; apply forallb_forall; intros o Hin; destruct o as [a|]; try reflexivity;
    apply In_nth_error in Hin; destruct Hin as [e He];
    assert (Hs : slot (cch s) e = Some a) by (unfold slot; now rewrite He).
  - rewrite (Z _ _ Hs). reflexivity.
  - destruct (st a) eqn:Hst; [reflexivity|].
    pose proof (inv_infl _ _ HI e a Hs Hst) as H1. rewrite (Z _ _ Hs) in H1. discriminate.
Qed.

(** * (b) BUSY only while at least [cap] references are held *)

(** number of threads that hold a reference *)
Definition holding (ts : list thread) : nat :=
  length (filter (fun th => match holds th with Some _ => true | None => false end) ts).

Definition held_below (ts : list thread) (n : nat) : nat :=
  length (filter (fun th => match holds th with Some e => e <? n | None => false end) ts).

Lemma held_below_S : forall ts n, held_below ts (S n) = held_below ts n + holders ts n.
Proof.
  induction ts as [|th ts IH]; intros n; [reflexivity|].
  unfold held_below in *. cbn [filter ConcInv.holders]. unfold ConcInv.holdsb.
  specialize (IH n).
  destruct (holds th) as [e|]; [|cbn [b2n]; lia].
  destruct (Nat.eqb e n) eqn:E1; [apply Nat.eqb_eq in E1|apply Nat.eqb_neq in E1].
  - subst e. replace (n <? S n) with true by (symmetry; apply Nat.ltb_lt; lia).
    replace (n <? n) with false by (symmetry; apply Nat.ltb_ge; lia).
    cbn [length b2n]. lia.
  - destruct (e <? n) eqn:E2; [apply Nat.ltb_lt in E2|apply Nat.ltb_ge in E2].
    + replace (e <? S n) with true by (symmetry; apply Nat.ltb_lt; lia).
      cbn [length b2n]. lia.
    + replace (e <? S n) with false by (symmetry; apply Nat.ltb_ge; lia).
      cbn [b2n]. lia.
Qed.

Lemma held_below_le_holding : forall ts n, held_below ts n <= holding ts.
Proof.
  induction ts as [|th ts IH]; intros n; [apply Nat.le_refl|].
  unfold held_below, holding in *. cbn [filter]. specialize (IH n).
  destruct (holds th) as [e|]; [|exact IH].
  destruct (e <? n); cbn [length]; lia.
Qed.

Lemma firstn_S_nth : forall A (l : list A) n a,
  nth_error l n = Some a -> firstn (S n) l = firstn n l ++ [a].
Proof.
  intros A l; induction l as [|b l IH]; intros n a H; [destruct n; discriminate|].
  destruct n; cbn [nth_error] in H.
  - inversion H; subst. reflexivity.
  - cbn [firstn app]. f_equal. change (firstn (S n) l = firstn n l ++ [a]). now apply IH.
Qed.

Lemma inuse_le_holding : forall s, Inv s -> inuse (cch s) <= holding (thr s).
Proof.
  intros s HI.
  assert (A : forall n, n <= length (cch s) ->
            length (filter inuseb (firstn n (cch s))) <= held_below (thr s) n).
  { induction n as [|n IH]; intros Hn; [cbn; lia|].
    destruct (nth_error (cch s) n) as [o|] eqn:En;
      [|apply nth_error_None in En; lia].
    rewrite (firstn_S_nth _ _ _ _ En), filter_app, app_length, held_below_S.
    specialize (IH ltac:(lia)). cbn [filter].
    destruct (inuseb o) eqn:Eu; cbn [length]; [|lia].
    assert (1 <= holders (thr s) n); [|lia].
    destruct o as [a|]; cbn [inuseb] in Eu; [|discriminate].
    assert (Hs : slot (cch s) n = Some a) by (unfold slot; now rewrite En).
    pose proof (inv_ref _ _ HI n) as R. unfold slot_refcnt in R. rewrite Hs in R.
    destruct (st a) eqn:Hst.
    - apply negb_true_iff, N.eqb_neq in Eu. lia.
    - pose proof (inv_infl _ _ HI n a Hs Hst). lia. }
  specialize (A (length (cch s)) (Nat.le_refl _)). rewrite firstn_all in A.
  unfold inuse. pose proof (held_below_le_holding (thr s) (length (cch s))). lia.
Qed.

Lemma length_bump : forall c e, length (bump c e) = length c.
Proof.
  intros c e. unfold bump. destruct (slot c e); [apply length_set_nth|reflexivity].
Qed.

Lemma length_cache_get : forall c k v c' oe j,
  cache_get c k v = Some (c', oe, j) -> length c' = length c.
Proof.
  intros c k v c' oe j G. unfold cache_get in G.
  destruct (find_idx (is_valid_key k) c); [inversion G; apply length_bump|].
  destruct (find_idx (is_inflight_key k) c); [inversion G; apply length_bump|].
  destruct (length c <=? inuse c); [inversion G; reflexivity|].
  destruct (find_idx is_free c); [inversion G; apply length_set_nth|].
  destruct (slot c v); [|discriminate].
  destruct (evictable (Some e)); [inversion G; apply length_set_nth|discriminate].
Qed.

Lemma length_cch_step : forall pl ch s s',
  step pl fill ch s = Some s' -> length (cch s') = length (cch s).
Proof.
  intros pl [t v] s s' H. apply step_inversion in H.
  destruct H as (th & k & rest & c' & l' & th' & j & stl & Ht & Htd & Hts & ->).
  cbn [cch]. unfold tstep in Hts.
  assert (U : forall f c1 b1, upd_cur (cch s) th f = (c1, b1) -> length c1 = length (cch s)).
  { intros f c1 b1 E. unfold upd_cur in E. destruct (cur th); [|now inversion E].
    destruct (slot (cch s) n); inversion E; subst; [apply length_set_nth|reflexivity]. }
  destruct (pc th).
  - destruct (lck s); inversion Hts; subst; reflexivity.
  - destruct (cache_get (cch s) k v) as [[[c1 oe] j1]|] eqn:G; [|discriminate].
    inversion Hts; subst. eapply length_cache_get; eauto.
  - destruct (cur th); inversion Hts; subst; reflexivity.
  - destruct (cur_entry (cch s) th); inversion Hts; subst; reflexivity.
  - destruct (upd_cur (cch s) th _) eqn:E; inversion Hts; subst. eapply U; eauto.
  - destruct (fill k).
    + destruct (upd_cur (cch s) th _) eqn:E; inversion Hts; subst. eapply U; eauto.
    + inversion Hts; subst; reflexivity.
  - destruct (lck s); inversion Hts; subst; reflexivity.
  - destruct (fill k); destruct (upd_cur (cch s) th _) eqn:E; inversion Hts; subst;
      eapply U; eauto.
  - destruct (fill k); inversion Hts; subst; reflexivity.
  - destruct (cur_entry (cch s) th); inversion Hts; subst; reflexivity.
  - destruct (cur_entry (cch s) th); inversion Hts; subst; reflexivity.
  - destruct (upd_cur (cch s) th _) eqn:E; inversion Hts; subst. eapply U; eauto.
  - destruct (lck s); inversion Hts; subst; reflexivity.
  - destruct (upd_cur (cch s) th _) eqn:E; inversion Hts; subst. eapply U; eauto.
  - inversion Hts; subst; reflexivity.
Qed.

Lemma length_cch_run : forall pl cap progs sched,
  length (cch (run pl fill sched (init cap progs))) = cap.
Proof.
  intros pl cap progs sched.
  apply (run_ind pl (fun s => length (cch s) = cap)).
  - intros ch s s' H E. rewrite <- H. eapply length_cch_step; eauto.
  - cbn [init cch]. apply repeat_length.
Qed.

(** the GetEntry step of thread [t] from state [s] reported BUSY *)
Definition busy_step (pl : bool) (t victim : nat) (s s' : state) : Prop :=
  step pl fill (t, victim) s = Some s' /\
  exists th th', nth_error (thr s) t = Some th /\ pc th = PGet /\
                 nth_error (thr s') t = Some th' /\ cur th' = None.

Lemma busy_step_full : forall pl t victim s s',
  busy_step pl t victim s s' -> length (cch s) <= inuse (cch s).
Proof.
  intros pl t victim s s' [H (th & th' & Ht & Hpc & Ht' & Hcur)].
  apply step_inversion in H.
  destruct H as (th0 & k & rest & c' & l' & th1 & j & stl & Ht0 & Htd & Hts & ->).
  rewrite Ht in Ht0. inversion Ht0; subst th0; clear Ht0.
  cbn [thr] in Ht'. rewrite nth_error_set_nth_eq in Ht' by (eapply nth_error_lt; eauto).
  inversion Ht'; subst th1; clear Ht'.
  unfold tstep in Hts. rewrite Hpc in Hts.
  destruct (cache_get (cch s) k victim) as [[[c1 oe] j1]|] eqn:G; [|discriminate].
  inversion Hts; subst. cbn [cur th_set] in Hcur. subst oe.
  unfold cache_get in G.
  destruct (find_idx (is_valid_key k) (cch s)); [discriminate|].
  destruct (find_idx (is_inflight_key k) (cch s)); [discriminate|].
  destruct (length (cch s) <=? inuse (cch s)) eqn:E; [now apply Nat.leb_le in E|].
  destruct (find_idx is_free (cch s)); [discriminate|].
  destruct (slot (cch s) victim); [|discriminate].
  destruct (evictable (Some e)); discriminate.
Qed.

End Safety.
