(** C05 — the inductive invariant of the repaired read protocol
    ([put_locked = true]) along schedules in which no GetEntry handed out
    another thread's in-flight entry ([joined = false]).

    Ghost "holders": which entry a thread holds a reference to is computed
    from its program counter ([holds]); the invariant says
      - refcnt e = number of threads holding e            ([ref_inv]),
      - at most one entry per key                         ([key_uniq]),
      - a valid entry's buffer is [Filled (fill key)]     ([valid_filled]),
      - an in-flight entry has refcnt 1 (its one filler)  ([inflight_one]),
      - per thread: the entry it holds carries the key it is reading and is
        in the state its program counter expects          ([thread_ok]),
      - no stale handle was ever used. *)
From Coq Require Import NArith List Bool Arith Lia.
From KdV Require Import Conc.Protocol Conc.Interleave Conc.ConcLemmas.
Import ListNotations.

Section Inv.
Variable fill : N -> option value.

Definition vslot (c : cache) (e : nat) : option (N * est * bufc) :=
  match slot c e with Some a => Some (key a, st a, buf a) | None => None end.

(** the entry a thread holds a counted reference to *)
Definition holds (th : thread) : option nat :=
  match todo th with
  | [] => None
  | k :: _ =>
    match pc th with
    | PLock1 | PGet | PUnlock3 => None
    | PUnlock2 => match fill k with Some _ => cur th | None => None end
    | _ => cur th
    end
  end.

Definition holdsb (th : thread) (e : nat) : bool :=
  match holds th with Some e' => Nat.eqb e' e | None => false end.

Definition b2n (b : bool) : nat := if b then 1 else 0.

Fixpoint holders (ts : list thread) (e : nat) : nat :=
  match ts with
  | [] => 0
  | th :: ts' => b2n (holdsb th e) + holders ts' e
  end.

Definition hview (c : cache) (th : thread) : option (N * est * bufc) :=
  match holds th with Some e => vslot c e | None => None end.

Definition pc_ok (k : N) (p : pcs) (cu : option nat) (g : bufc)
           (vw : option (N * est * bufc)) : Prop :=
  match p with
  | PLock1 | PGet => True
  | PUnlock1 => match cu with
                | None => True
                | Some _ => exists s b, vw = Some (k, s, b)
                end
  | PCheck => exists s b, vw = Some (k, s, b)
  | PBeginFill | PEndFill => exists b, vw = Some (k, InFlight, b)
  | PLock2 | PInsDis =>
      exists b, vw = Some (k, InFlight, b) /\ forall v, fill k = Some v -> b = Filled v
  | PUnlock2 => match fill k with
                | Some v => vw = Some (k, Valid, Filled v)
                | None => True
                end
  | PUse => exists v, fill k = Some v /\ vw = Some (k, Valid, Filled v)
  | PLock3 | PPut =>
      exists v, fill k = Some v /\ vw = Some (k, Valid, Filled v) /\ g = Filled v
  | PUnlock3 => exists v, fill k = Some v /\ g = Filled v
  | PPutLoad | PPutStore => False
  end.

(** what a completed read may have returned *)
Definition result_ok (kr : N * result) : Prop :=
  match snd kr with
  | RBytes b => exists v, fill (fst kr) = Some v /\ b = Filled v
  | RBusy => True
  | RFail => fill (fst kr) = None
  end.

Definition thread_ok (c : cache) (th : thread) : Prop :=
  Forall result_ok (results th) /\
  match todo th with
  | [] => pc th = PLock1
  | k :: _ => pc_ok k (pc th) (cur th) (got th) (hview c th)
  end.

Definition cache_all (P : entry -> Prop) (c : cache) : Prop :=
  forall e a, slot c e = Some a -> P a.

Definition key_uniq (c : cache) : Prop :=
  forall e1 e2 a b, slot c e1 = Some a -> slot c e2 = Some b -> key a = key b -> e1 = e2.

Definition P_valid_filled (a : entry) : Prop :=
  st a = Valid -> exists v, fill (key a) = Some v /\ buf a = Filled v.
Definition P_inflight_one (a : entry) : Prop :=
  st a = InFlight -> refcnt a = 1%N.

Definition ref_inv (c : cache) (ts : list thread) : Prop :=
  forall e, slot_refcnt c e = N.of_nat (holders ts e).

Record Inv (s : state) : Prop := mkInv {
  inv_stale : stale s = false;
  inv_keys : key_uniq (cch s);
  inv_valid : cache_all P_valid_filled (cch s);
  inv_infl : cache_all P_inflight_one (cch s);
  inv_ref : ref_inv (cch s) (thr s);
  inv_thr : forall t th, nth_error (thr s) t = Some th -> thread_ok (cch s) th;
  inv_small : (N.of_nat (length (thr s)) < M32)%N
}.

(** * holders *)

Lemma holders_set_nth : forall ts t th th' e,
  nth_error ts t = Some th ->
  holders (set_nth ts t th') e + b2n (holdsb th e) = holders ts e + b2n (holdsb th' e).
Proof.
  induction ts as [|x ts IH]; intros t th th' e H; [destruct t; discriminate|].
  destruct t; cbn [nth_error set_nth holders] in *.
  - inversion H; subst. lia.
  - specialize (IH _ _ th' e H). lia.
Qed.

Lemma holders_le_length : forall ts e, holders ts e <= length ts.
Proof.
  induction ts as [|x ts IH]; intros e; cbn [holders length]; [lia|].
  specialize (IH e). unfold b2n. destruct (holdsb x e); lia.
Qed.

Lemma holders_ge1 : forall ts t th e,
  nth_error ts t = Some th -> holdsb th e = true -> 1 <= holders ts e.
Proof.
  induction ts as [|x ts IH]; intros t th e H Hh; [destruct t; discriminate|].
  destruct t; cbn [nth_error holders] in *.
  - inversion H; subst. rewrite Hh. cbn [b2n]. lia.
  - specialize (IH _ _ _ H Hh). lia.
Qed.

Definition idle_thread : thread := init_thread [].

Lemma holdsb_idle : forall e, holdsb idle_thread e = false.
Proof. reflexivity. Qed.

(** the acting thread accounts for the whole reference count of [e]:
    nobody else holds [e] *)
Lemma sole_holder : forall c ts t th e,
  ref_inv c ts -> nth_error ts t = Some th ->
  slot_refcnt c e = N.of_nat (b2n (holdsb th e)) ->
  forall t' th', t' <> t -> nth_error ts t' = Some th' -> holdsb th' e = false.
Proof.
  intros c ts t th e HR Ht Hrc t' th' Hne Ht'.
  destruct (holdsb th' e) eqn:Hh; [|reflexivity]. exfalso.
  pose proof (holders_set_nth ts t th idle_thread e Ht) as E.
  rewrite holdsb_idle in E. cbn [b2n] in E.
  assert (Ht2 : nth_error (set_nth ts t idle_thread) t' = Some th')
    by (rewrite nth_error_set_nth_neq; [assumption|lia]).
  pose proof (holders_ge1 _ _ _ _ Ht2 Hh) as G.
  specialize (HR e). rewrite HR in Hrc. lia.
Qed.

(** * frame *)

Lemma thread_ok_frame : forall c c' th,
  hview c' th = hview c th -> thread_ok c th -> thread_ok c' th.
Proof.
  intros c c' th H [HR HT]. split; [exact HR|].
  destruct (todo th); [exact HT|]. now rewrite H.
Qed.

Lemma vslot_set_neq : forall c e e' x, e <> e' -> vslot (set_nth c e x) e' = vslot c e'.
Proof. intros. unfold vslot. now rewrite slot_set_nth_neq. Qed.

Lemma vslot_set_eq : forall c e x, e < length c ->
  vslot (set_nth c e x) e =
  match x with Some a => Some (key a, st a, buf a) | None => None end.
Proof. intros. unfold vslot. now rewrite slot_set_nth_eq. Qed.

Lemma hview_set_other : forall c e x th,
  holdsb th e = false -> hview (set_nth c e x) th = hview c th.
Proof.
  intros c e x th H. unfold hview, holdsb in *.
  destruct (holds th) as [e'|]; [|reflexivity].
  apply vslot_set_neq. apply Nat.eqb_neq in H. lia.
Qed.

Lemma hview_set_same : forall c e x th,
  vslot (set_nth c e x) e = vslot c e -> hview (set_nth c e x) th = hview c th.
Proof.
  intros c e x th H. unfold hview.
  destruct (holds th) as [e'|]; [|reflexivity].
  destruct (Nat.eq_dec e e') as [->|Hne]; [exact H|now apply vslot_set_neq].
Qed.

(** * pointwise cache invariants under an update *)

Lemma cache_all_set : forall P c e x,
  cache_all P c -> (forall a, x = Some a -> P a) -> cache_all P (set_nth c e x).
Proof.
  intros P c e x HC HX e' a Hs.
  destruct (Nat.eq_dec e e') as [->|Hne].
  - destruct (Nat.lt_ge_cases e' (length c)) as [Hlt|Hge].
    + rewrite slot_set_nth_eq in Hs by assumption. now apply HX.
    + unfold slot in Hs. destruct (nth_error (set_nth c e' x) e') eqn:E; [|discriminate].
      apply nth_error_lt in E. rewrite length_set_nth in E. lia.
  - rewrite slot_set_nth_neq in Hs by assumption. eapply HC; eauto.
Qed.

Lemma key_uniq_set_same : forall c e a a',
  key_uniq c -> slot c e = Some a -> key a' = key a ->
  key_uniq (set_nth c e (Some a')).
Proof.
  intros c e a a' HK Hs Hk e1 e2 x y H1 H2 Hxy.
  pose proof (slot_some_lt _ _ _ Hs) as Hlt.
  destruct (Nat.eq_dec e e1) as [<-|N1]; destruct (Nat.eq_dec e e2) as [<-|N2];
    try reflexivity.
  - rewrite slot_set_nth_eq in H1 by assumption. rewrite slot_set_nth_neq in H2 by assumption.
    inversion H1; subst. eapply HK; eauto. congruence.
  - rewrite slot_set_nth_neq in H1 by assumption. rewrite slot_set_nth_eq in H2 by assumption.
    inversion H2; subst. eapply HK; eauto. congruence.
  - rewrite slot_set_nth_neq in H1, H2 by assumption. eapply HK; eauto.
Qed.

Lemma key_uniq_set_none : forall c e, key_uniq c -> key_uniq (set_nth c e None).
Proof.
  intros c e HK e1 e2 x y H1 H2 Hxy.
  assert (A : forall e' z, slot (set_nth c e None) e' = Some z -> slot c e' = Some z).
  { intros e' z Hz. destruct (Nat.eq_dec e e') as [<-|Hne].
    - destruct (Nat.lt_ge_cases e (length c)) as [Hlt|Hge].
      + rewrite slot_set_nth_eq in Hz by assumption. discriminate.
      + apply slot_some_lt in Hz. rewrite length_set_nth in Hz. lia.
    - now rewrite slot_set_nth_neq in Hz by assumption. }
  eapply HK; eauto.
Qed.

Lemma key_uniq_set_new : forall c e a,
  key_uniq c -> e < length c -> no_key c (key a) -> key_uniq (set_nth c e (Some a)).
Proof.
  intros c e a HK Hlt NK e1 e2 x y H1 H2 Hxy.
  destruct (Nat.eq_dec e e1) as [<-|N1]; destruct (Nat.eq_dec e e2) as [<-|N2];
    try reflexivity.
  - rewrite slot_set_nth_eq in H1 by assumption. rewrite slot_set_nth_neq in H2 by assumption.
    inversion H1; subst. exfalso. eapply NK; eauto.
  - rewrite slot_set_nth_neq in H1 by assumption. rewrite slot_set_nth_eq in H2 by assumption.
    inversion H2; subst. exfalso. eapply NK; eauto.
  - rewrite slot_set_nth_neq in H1, H2 by assumption. eapply HK; eauto.
Qed.

(** a step of thread [t] leading to cache [c'] leaves every entry that
    ANOTHER thread holds exactly as it was: same key, state and contents *)
Definition untouched (s : state) (t : nat) (c' : cache) : Prop :=
  forall t' th' e, t' <> t -> nth_error (thr s) t' = Some th' -> holds th' = Some e ->
    vslot c' e = vslot (cch s) e.

(** * the two preservation skeletons *)

(** a step that leaves the cache alone and does not change what the acting
    thread holds *)
Lemma inv_local : forall s t th th' l',
  Inv s -> nth_error (thr s) t = Some th ->
  holds th' = holds th -> thread_ok (cch s) th' ->
  Inv (mkState (cch s) l' (set_nth (thr s) t th') false false) /\
  untouched s t (cch s).
Proof.
  intros s t th th' l' I Ht Hh Hok. split; [|intros t' th'' e _ _ _; reflexivity].
  destruct I as [I1 I2 I3 I4 I5 I6 I7].
  constructor; cbn [cch thr stale]; try assumption; try reflexivity.
  - intros e. pose proof (holders_set_nth _ _ _ th' e Ht) as E.
    unfold holdsb in E. rewrite Hh in E. rewrite (I5 e). lia.
  - intros t' th'' H. destruct (Nat.eq_dec t t') as [<-|Hne].
    + rewrite nth_error_set_nth_eq in H by (eapply nth_error_lt; eauto).
      inversion H; subst. exact Hok.
    + rewrite nth_error_set_nth_neq in H by assumption. eapply I6; eauto.
  - now rewrite length_set_nth.
Qed.

(** a step that rewrites slot [e] *)
Lemma inv_update : forall s t th th' l' e x,
  Inv s -> nth_error (thr s) t = Some th -> e < length (cch s) ->
  key_uniq (set_nth (cch s) e x) ->
  (forall a, x = Some a -> P_valid_filled a) ->
  (forall a, x = Some a -> P_inflight_one a) ->
  (forall e', (slot_refcnt (set_nth (cch s) e x) e' + N.of_nat (b2n (holdsb th e'))
               = slot_refcnt (cch s) e' + N.of_nat (b2n (holdsb th' e')))%N) ->
  thread_ok (set_nth (cch s) e x) th' ->
  (vslot (set_nth (cch s) e x) e = vslot (cch s) e \/
   slot_refcnt (cch s) e = N.of_nat (b2n (holdsb th e))) ->
  Inv (mkState (set_nth (cch s) e x) l' (set_nth (thr s) t th') false false) /\
  untouched s t (set_nth (cch s) e x).
Proof.
  intros s t th th' l' e x I Ht Hlt HK HV HF HRC Hok Hoth.
  destruct I as [I1 I2 I3 I4 I5 I6 I7]. split.
  2:{ intros t' th'' e' Hne Hn Hh.
      destruct (Nat.eq_dec e e') as [<-|Hne']; [|now apply vslot_set_neq].
      destruct Hoth as [Hsame|Hsole]; [exact Hsame|].
      pose proof (sole_holder (cch s) (thr s) t th e I5 Ht Hsole t' th'' Hne Hn) as Hf.
      unfold holdsb in Hf. rewrite Hh, Nat.eqb_refl in Hf. discriminate. }
  constructor; cbn [cch thr stale]; try reflexivity.
  - exact HK.
  - apply cache_all_set; assumption.
  - apply cache_all_set; assumption.
  - intros e'. pose proof (holders_set_nth _ _ _ th' e' Ht) as E.
    specialize (HRC e'). rewrite (I5 e') in HRC. lia.
  - intros t' th'' H. destruct (Nat.eq_dec t t') as [<-|Hne].
    + rewrite nth_error_set_nth_eq in H by (eapply nth_error_lt; eauto).
      inversion H; subst. exact Hok.
    + rewrite nth_error_set_nth_neq in H by assumption.
      apply thread_ok_frame with (c := cch s); [|eapply I6; eauto].
      destruct Hoth as [Hsame|Hsole].
      * now apply hview_set_same.
      * apply hview_set_other.
        eapply (sole_holder (cch s) (thr s) t th e I5 Ht Hsole t'); [lia|exact H].
  - now rewrite length_set_nth.
Qed.

End Inv.
