(** C05 — writers of [shared->lock] are exclusive; the entry-point table is
    consistent with the model programs; the seeded reader variant is not. *)
From Coq Require Import NArith List Bool Arith Lia.
From KdV Require Import Conc.Protocol Conc.ConcLemmas Conc.LockOrder Conc.LockOrderProofs
  Conc.ApiLock.
Import ListNotations.

(** * exclusivity of the rwlock semantics (any programs) *)

Definition excl (s : lstate) : Prop :=
  forall l t th t' th', t <> t' ->
    nth_error s t = Some th -> nth_error s t' = Some th' ->
    holds_ex l (lheld th) = true -> holds_any l (lheld th') = false.

Lemma existsb_release : forall f l h,
  existsb f (release l h) = true -> existsb f h = true.
Proof.
  intros f l h; induction h as [|lm h IH]; intros H; [exact H|].
  cbn [release] in H. cbn [existsb]. destruct (Nat.eqb (fst lm) l).
  - rewrite H. apply orb_true_r.
  - cbn [existsb] in H. apply orb_prop in H. destruct H as [H|H].
    + now rewrite H.
    + rewrite (IH H). apply orb_true_r.
Qed.

Lemma ex_any : forall l h, holds_ex l h = true -> holds_any l h = true.
Proof. exact (holds_ex_any (fun _ => 0)). Qed.

Lemma lstep_shape : forall t s s',
  lstep t s = Some s' ->
  exists th op p,
    nth_error s t = Some th /\ lprog th = op :: p /\
    s' = set_nth s t (mkLT p (apply_op op (lheld th))) /\
    match op with
    | Acq l | AcqWr l => free_for Ex l s = true
    | AcqRd l => free_for Sh l s = true
    | _ => True
    end.
Proof.
  intros t s s' H. unfold lstep in H.
  destruct (nth_error s t) as [th|] eqn:Ht; [|discriminate].
  destruct (lprog th) as [|op p] eqn:Hp; [discriminate|].
  exists th, op, p. split; [reflexivity|]. split; [exact Hp|].
  destruct op; try (destruct (free_for _ l s) eqn:Hf; [|discriminate]);
    inversion H; subst; split; try reflexivity; exact I.
Qed.

Lemma free_for_nth : forall m l s t th,
  free_for m l s = true -> nth_error s t = Some th ->
  match m with
  | Ex => holds_any l (lheld th)
  | Sh => holds_ex l (lheld th)
  end = false.
Proof.
  intros m l s t th Hf Hn. unfold free_for in Hf. rewrite forallb_forall in Hf.
  specialize (Hf th (nth_error_In _ _ Hn)). now apply negb_true_iff in Hf.
Qed.

Lemma excl_step : forall t s s', excl s -> lstep t s = Some s' -> excl s'.
Proof.
  intros t0 s s' HE H. apply lstep_shape in H.
  destruct H as (th0 & op & p & Ht0 & Hp & -> & Hfree).
  pose proof (nth_error_lt _ _ _ _ Ht0) as Hlt.
  intros l t th t' th' Hne Hn Hn' Hex.
  destruct (Nat.eq_dec t0 t) as [<-|N1]; destruct (Nat.eq_dec t0 t') as [<-|N2];
    try congruence.
  - (* the stepping thread is the exclusive holder *)
    rewrite nth_error_set_nth_eq in Hn by assumption. inversion Hn; subst th; clear Hn.
    rewrite nth_error_set_nth_neq in Hn' by assumption. cbn [lheld] in Hex.
    assert (Old : holds_ex l (lheld th0) = true -> holds_any l (lheld th') = false)
      by (intros X; eapply (HE l t0 th0 t' th'); eauto).
    destruct op as [l0|l0|l0|l0|l0]; cbn [apply_op] in Hex.
    + unfold holds_ex in Hex. cbn [existsb fst snd is_ex] in Hex.
      destruct (Nat.eqb l0 l) eqn:E; [apply Nat.eqb_eq in E; subst l0|now apply Old].
      apply (free_for_nth Ex l s t' th' Hfree Hn').
    + apply Old. unfold holds_ex in *. eapply existsb_release; eauto.
    + unfold holds_ex in Hex. cbn [existsb fst snd is_ex] in Hex.
      rewrite andb_false_r in Hex. now apply Old.
    + unfold holds_ex in Hex. cbn [existsb fst snd is_ex] in Hex.
      destruct (Nat.eqb l0 l) eqn:E; [apply Nat.eqb_eq in E; subst l0|now apply Old].
      apply (free_for_nth Ex l s t' th' Hfree Hn').
    + apply Old. unfold holds_ex in *. eapply existsb_release; eauto.
  - (* the stepping thread is the other one *)
    rewrite nth_error_set_nth_neq in Hn by assumption.
    rewrite nth_error_set_nth_eq in Hn' by assumption. inversion Hn'; subst th'; clear Hn'.
    cbn [lheld].
    pose proof (HE l t th t0 th0 Hne Hn Ht0 Hex) as Old.
    pose proof (ex_any _ _ Hex) as Hany.
    destruct op as [l0|l0|l0|l0|l0]; cbn [apply_op].
    + unfold holds_any. cbn [existsb fst]. fold (holds_any l (lheld th0)). rewrite Old.
      destruct (Nat.eqb l0 l) eqn:E; [apply Nat.eqb_eq in E; subst l0|reflexivity].
      pose proof (free_for_nth Ex l s t th Hfree Hn) as F. cbn in F. congruence.
    + destruct (holds_any l (release l0 (lheld th0))) eqn:E; [|reflexivity].
      unfold holds_any in E. apply existsb_release in E.
      change (holds_any l (lheld th0) = true) in E. congruence.
    + unfold holds_any. cbn [existsb fst]. fold (holds_any l (lheld th0)). rewrite Old.
      destruct (Nat.eqb l0 l) eqn:E; [apply Nat.eqb_eq in E; subst l0|reflexivity].
      pose proof (free_for_nth Sh l s t th Hfree Hn) as F. cbn in F. congruence.
    + unfold holds_any. cbn [existsb fst]. fold (holds_any l (lheld th0)). rewrite Old.
      destruct (Nat.eqb l0 l) eqn:E; [apply Nat.eqb_eq in E; subst l0|reflexivity].
      pose proof (free_for_nth Ex l s t th Hfree Hn) as F. cbn in F. congruence.
    + destruct (holds_any l (release l0 (lheld th0))) eqn:E; [|reflexivity].
      unfold holds_any in E. apply existsb_release in E.
      change (holds_any l (lheld th0) = true) in E. congruence.
  - rewrite nth_error_set_nth_neq in Hn, Hn' by assumption.
    exact (HE l t th t' th' Hne Hn Hn' Hex).
Qed.

Lemma excl_init : forall progs, excl (linit progs).
Proof.
  intros progs l t th t' th' _ Hn _ Hex. apply nth_error_In in Hn.
  unfold linit in Hn. apply in_map_iff in Hn. destruct Hn as (p & <- & _). discriminate Hex.
Qed.

Lemma lrun_ind : forall (P : lstate -> Prop),
  (forall t s s', P s -> lstep t s = Some s' -> P s') ->
  forall sched s, P s -> P (lrun sched s).
Proof.
  intros P Hs sched. induction sched as [|t sched IH]; intros s H; [exact H|].
  cbn [lrun]. destruct (lstep t s) eqn:E; apply IH; [eapply Hs; eauto|exact H].
Qed.

(** in every reachable state of ANY programs: a lock held exclusively by one
    thread is not held in any mode by another *)
Theorem rw_exclusive : forall progs sched, excl (lrun sched (linit progs)).
Proof.
  intros progs sched. apply lrun_ind; [intros; eapply excl_step; eauto|apply excl_init].
Qed.

(** * locked sections lie inside a section of [shared->lock] *)

Definition cinv (s : lstate) : Prop :=
  forall t th, nth_error s t = Some th -> covered_from (lheld th) (lprog th) = true.

Lemma covered_head : forall h p, covered_from h p = true ->
  h = [] \/ holds_any shared_lock h = true.
Proof.
  intros h p H. destruct h; [now left|right].
  destruct p; cbn [covered_from] in H; apply andb_prop in H; tauto.
Qed.

Lemma covered_app : forall p1 p2 h,
  covered_from h p1 = true -> covered_from [] p2 = true -> covered_from h (p1 ++ p2) = true.
Proof.
  induction p1 as [|op p1 IH]; intros p2 h H1 H2.
  - cbn [covered_from] in H1. apply andb_prop in H1. destruct H1 as [_ H1].
    destruct h; [exact H2|discriminate].
  - cbn [app covered_from] in *. apply andb_prop in H1. destruct H1 as [Ha Hb].
    rewrite Ha. cbn [andb]. now apply IH.
Qed.

Lemma covered_concat : forall ps,
  (forall p, In p ps -> covered_from [] p = true) -> covered_from [] (concat ps) = true.
Proof.
  induction ps as [|p ps IH]; intros H; [reflexivity|].
  cbn [concat]. apply covered_app; [apply H; now left|]. apply IH. intros q Hq. apply H. now right.
Qed.

Lemma cinv_step : forall t s s', cinv s -> lstep t s = Some s' -> cinv s'.
Proof.
  intros t0 s s' HC H. apply lstep_shape in H.
  destruct H as (th0 & op & p & Ht0 & Hp & -> & _).
  pose proof (nth_error_lt _ _ _ _ Ht0) as Hlt.
  intros t th Hn. destruct (Nat.eq_dec t0 t) as [<-|Hne].
  - rewrite nth_error_set_nth_eq in Hn by assumption. inversion Hn; subst th.
    cbn [lheld lprog]. pose proof (HC _ _ Ht0) as C. rewrite Hp in C.
    cbn [covered_from] in C. apply andb_prop in C. tauto.
  - rewrite nth_error_set_nth_neq in Hn by assumption. eapply HC; eauto.
Qed.

Lemma api_entry_points_covered :
  forall p, In p api_entry_points -> covered_from [] p = true.
Proof.
  assert (F : forallb (covered_from []) api_entry_points = true) by (vm_compute; reflexivity).
  rewrite forallb_forall in F. exact F.
Qed.

Lemma api_entry_points_ordered :
  forall p, In p api_entry_points -> ordered lib_rank p = true.
Proof.
  assert (F : forallb (ordered lib_rank) api_entry_points = true) by (vm_compute; reflexivity).
  rewrite forallb_forall in F. exact F.
Qed.

(** any number of threads, each running any sequence of entry points: while
    one thread holds [shared->lock] in write mode, every other thread holds
    no lock at all, i.e. is outside every entry point's locked section *)
Theorem writers_exclusive : forall (tprogs : list (list program)) sched,
  (forall tp p, In tp tprogs -> In p tp -> In p api_entry_points) ->
  let s := lrun sched (linit (map (@concat lop) tprogs)) in
  forall t th t' th',
    nth_error s t = Some th -> holds_ex shared_lock (lheld th) = true ->
    t' <> t -> nth_error s t' = Some th' ->
    holds_any shared_lock (lheld th') = false /\ lheld th' = [].
Proof.
  intros tprogs sched H s t th t' th' Hn Hex Hne Hn'.
  assert (E : holds_any shared_lock (lheld th') = false).
  { eapply (rw_exclusive _ sched shared_lock t th t' th'); eauto. }
  split; [exact E|].
  assert (C : cinv s).
  { apply lrun_ind; [intros; eapply cinv_step; eauto|].
    intros i x Hi. apply nth_error_In in Hi. unfold linit in Hi.
    apply in_map_iff in Hi. destruct Hi as (q & <- & Hq). cbn [lheld lprog].
    apply in_map_iff in Hq. destruct Hq as (tp & <- & Htp).
    apply covered_concat. intros p Hp. apply api_entry_points_covered. eapply H; eauto. }
  destruct (covered_head _ _ (C _ _ Hn')) as [Z|Z]; [exact Z|congruence].
Qed.

(** and they never deadlock (instance of the rank theorem) *)
Theorem api_deadlock_free : forall (tprogs : list (list program)) sched,
  (forall tp p, In tp tprogs -> In p tp -> In p api_entry_points) ->
  let s := lrun sched (linit (map (@concat lop) tprogs)) in
  lfinished s = true \/ exists t, lstep t s <> None.
Proof.
  intros tprogs sched H. apply ranked_deadlock_free with (rank := lib_rank).
  intros q Hq. apply in_map_iff in Hq. destruct Hq as (tp & <- & Htp).
  apply ordered_concat. intros p Hp. apply api_entry_points_ordered. eapply H; eauto.
Qed.

(** * the table agrees with the model programs *)

Lemma lookupN_in : forall A id (t : list (N * A)) a,
  lookupN id t = Some a -> In (id, a) t.
Proof.
  intros A id t; induction t as [|[i x] t IH]; intros a H; [discriminate|].
  cbn [lookupN] in H. destruct (N.eqb i id) eqn:E.
  - apply N.eqb_eq in E. inversion H; subst. now left.
  - right. now apply IH.
Qed.

Theorem api_table_consistent : forall id r,
  api_req id = Some r ->
  exists p, api_prog id = Some p /\ In p api_entry_points /\
            api_call_ok SL r (events_of_prog p) = true.
Proof.
  intros id r H. unfold api_req, api_prog in *.
  destruct (lookupN id api_table) as [[r0 p]|] eqn:L; [|discriminate].
  cbn [option_map fst snd] in *. inversion H; subst r0. exists p.
  split; [reflexivity|]. apply lookupN_in in L. split.
  - unfold api_entry_points. apply in_or_app. left.
    apply in_map_iff. exists (id, (r, p)). split; [reflexivity|exact L].
  - assert (F : forallb (fun e => api_call_ok SL (fst (snd e)) (events_of_prog (snd (snd e))))
                        api_table = true) by (vm_compute; reflexivity).
    rewrite forallb_forall in F. exact (F _ L).
Qed.

(** * the seeded reader variant of kdump_set_sub_attr *)

Theorem api_reader_variant :
  api_req 21 = Some ReqWrite /\
  api_call_ok SL ReqWrite (events_of_prog prog_set_sub_attr_seeded) = false /\
  exists sched,
    map lheld (lrun sched (linit [prog_reader; prog_set_sub_attr_seeded]))
    = [[(shared_lock, Sh)]; [(shared_lock, Sh)]].
Proof.
  split; [reflexivity|]. split; [vm_compute; reflexivity|].
  exists [0; 1]. vm_compute. reflexivity.
Qed.

(** a call that relocks in the middle is accepted; a read lock taken by a
    ReqWrite call, a missing lock and an unbalanced call are rejected *)
Example api_call_ok_examples :
  api_call_ok 7 ReqRead [EvRdLock 7; EvLock 1; EvUnlock 1; EvRwUnlock 7; EvRdLock 7; EvRwUnlock 7] = true /\
  api_call_ok 7 ReqWrite [EvWrLock 7; EvRwUnlock 7; EvWrLock 7; EvRwUnlock 7] = true /\
  api_call_ok 7 ReqWriteAfterRead [EvRdLock 7; EvRwUnlock 7; EvWrLock 7; EvRwUnlock 7] = true /\
  api_call_ok 7 ReqWrite [EvRdLock 7; EvRwUnlock 7] = false /\
  api_call_ok 7 ReqWrite [EvWrLock 7; EvRwUnlock 7; EvRdLock 7; EvRwUnlock 7] = false /\
  api_call_ok 7 ReqWrite [EvLock 1; EvUnlock 1] = false /\
  api_call_ok 7 ReqRead [] = false /\
  api_call_ok 7 ReqRead [EvRdLock 7] = false /\
  api_call_ok 7 ReqWriteAfterRead [EvRdLock 7; EvRwUnlock 7] = false.
Proof. vm_compute. repeat split. Qed.
