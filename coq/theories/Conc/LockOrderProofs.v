(** C05 — deadlock freedom from a rank function on locks. *)
From Coq Require Import List Bool Arith Lia.
From KdV Require Import Conc.Protocol Conc.ConcLemmas Conc.LockOrder.
Import ListNotations.

Section Ranked.
Variable rank : lock -> nat.

Definition linv (s : lstate) : Prop :=
  forall t th, nth_error s t = Some th -> ordered_from rank (lheld th) (lprog th) = true.

Lemma linv_init : forall progs,
  (forall p, In p progs -> ordered rank p = true) -> linv (linit progs).
Proof.
  intros progs H t th Hn. apply nth_error_In in Hn. unfold linit in Hn.
  apply in_map_iff in Hn. destruct Hn as (p & <- & Hp). cbn [lheld lprog]. now apply H.
Qed.

Lemma linv_step : forall t s s', linv s -> lstep t s = Some s' -> linv s'.
Proof.
  intros t s s' HI H. unfold lstep in H.
  destruct (nth_error s t) as [th|] eqn:Ht; [|discriminate].
  pose proof (HI _ _ Ht) as Ho. pose proof (nth_error_lt _ _ _ _ Ht) as Hlt.
  assert (K : forall th', ordered_from rank (lheld th') (lprog th') = true ->
                          linv (set_nth s t th')).
  { intros th' Ho' t' th'' Hn. destruct (Nat.eq_dec t t') as [<-|Hne].
    - rewrite nth_error_set_nth_eq in Hn by assumption. now inversion Hn; subst.
    - rewrite nth_error_set_nth_neq in Hn by assumption. eapply HI; eauto. }
  destruct (lprog th) as [|op p] eqn:Hp; [discriminate|].
  cbn [ordered_from] in Ho.
  destruct op; try (destruct (free_for _ l s); [|discriminate]);
    inversion H; subst; apply K; cbn [lheld lprog];
    apply andb_prop in Ho; tauto.
Qed.

Lemma linv_run : forall sched s, linv s -> linv (lrun sched s).
Proof.
  induction sched as [|t sched IH]; intros s HI; [exact HI|].
  cbn [lrun]. destruct (lstep t s) eqn:E; apply IH; [eapply linv_step; eauto|exact HI].
Qed.

(** the lock a thread is waiting for, if its next operation is an acquisition *)
Definition want (th : lthread) : option lock :=
  match lprog th with
  | Acq l :: _ | AcqWr l :: _ | AcqRd l :: _ => Some l
  | _ => None
  end.

Definition want_rank (th : lthread) : nat :=
  match want th with Some l => rank l | None => 0 end.

Definition bound (s : lstate) : nat := list_max (map want_rank s).

Lemma want_rank_le_bound : forall s t th,
  nth_error s t = Some th -> want_rank th <= bound s.
Proof.
  intros s t th Hn. unfold bound.
  pose proof (proj1 (list_max_le (map want_rank s) (list_max (map want_rank s))) (Nat.le_refl _)) as F.
  rewrite Forall_forall in F. apply F. apply in_map. eapply nth_error_In; eauto.
Qed.

Lemma forallb_false_nth : forall A (f : A -> bool) l,
  forallb f l = false -> exists i x, nth_error l i = Some x /\ f x = false.
Proof.
  intros A f l; induction l as [|a l IH]; intros H; [discriminate|].
  cbn [forallb] in H. destruct (f a) eqn:E.
  - destruct (IH H) as (i & x & Hn & Hx). exists (S i), x. split; assumption.
  - exists 0, a. split; [reflexivity|assumption].
Qed.

Lemma held_rank_lt : forall h l l',
  forallb (fun lm => rank (fst lm) <? rank l') h = true ->
  holds_any l h = true -> rank l < rank l'.
Proof.
  intros h l l' HF HE. unfold holds_any in HE. apply existsb_exists in HE.
  destruct HE as (lm & Hin & Heq). apply Nat.eqb_eq in Heq. subst l.
  rewrite forallb_forall in HF. specialize (HF _ Hin). now apply Nat.ltb_lt in HF.
Qed.

Lemma holds_ex_any : forall l h, holds_ex l h = true -> holds_any l h = true.
Proof.
  intros l h H. unfold holds_ex, holds_any in *. apply existsb_exists in H.
  destruct H as (lm & Hin & Hb). apply andb_prop in Hb. apply existsb_exists.
  exists lm. tauto.
Qed.

(** a thread that holds something has not finished, and its next operation
    is a release (enabled) or an acquisition of higher rank than all it holds *)
Lemma holder_moves_or_wants_higher : forall s t th l,
  linv s -> nth_error s t = Some th -> holds_any l (lheld th) = true ->
  lstep t s <> None \/ exists l', want th = Some l' /\ rank l < rank l'.
Proof.
  intros s t th l HI Hn Hh. pose proof (HI _ _ Hn) as Ho.
  unfold lstep, want. rewrite Hn.
  destruct (lprog th) as [|op p] eqn:Hp; cbn [ordered_from] in Ho.
  - destruct (lheld th); [discriminate Hh|discriminate Ho].
  - destruct op; try (left; discriminate);
      apply andb_prop in Ho; destruct Ho as [Ho _];
      right; exists l0; (split; [reflexivity|]); eapply held_rank_lt; eauto.
Qed.

Lemma blocked_holder : forall m l s,
  free_for m l s = false ->
  exists t' th', nth_error s t' = Some th' /\ holds_any l (lheld th') = true.
Proof.
  intros m l s Hf. unfold free_for in Hf. apply forallb_false_nth in Hf.
  destruct Hf as (t' & th' & Hn' & Hx). apply negb_false_iff in Hx.
  exists t', th'. split; [exact Hn'|]. destruct m; [exact Hx|now apply holds_ex_any].
Qed.

Lemma progress_aux : forall s, linv s ->
  forall n t th, nth_error s t = Some th -> lprog th <> [] ->
    bound s - want_rank th = n -> exists t', lstep t' s <> None.
Proof.
  intros s HI n. induction n as [n IH] using lt_wf_ind. intros t th Hn Hne Hm.
  assert (Wait : forall m l, want th = Some l -> free_for m l s = false ->
                 exists t', lstep t' s <> None).
  { intros m l Hw Hf. destruct (blocked_holder _ _ _ Hf) as (t' & th' & Hn' & Hh).
    destruct (holder_moves_or_wants_higher _ _ _ _ HI Hn' Hh) as [Hmove|(l' & Hw' & Hlt)].
    - exists t'. exact Hmove.
    - pose proof (want_rank_le_bound _ _ _ Hn') as Hb'.
      pose proof (want_rank_le_bound _ _ _ Hn) as Hb.
      unfold want_rank in Hm, Hb, Hb'. rewrite Hw in Hm, Hb. rewrite Hw' in Hb'.
      apply (IH (bound s - rank l')) with (t := t') (th := th').
      + lia.
      + exact Hn'.
      + unfold want in Hw'. destruct (lprog th'); [discriminate|discriminate].
      + unfold want_rank. now rewrite Hw'. }
  destruct (lprog th) as [|op p] eqn:Hp; [congruence|].
  destruct op as [l|l|l|l|l].
  - destruct (free_for Ex l s) eqn:Hf.
    + exists t. unfold lstep. rewrite Hn, Hp, Hf. discriminate.
    + apply (Wait Ex l); [unfold want; now rewrite Hp|exact Hf].
  - exists t. unfold lstep. rewrite Hn, Hp. discriminate.
  - destruct (free_for Sh l s) eqn:Hf.
    + exists t. unfold lstep. rewrite Hn, Hp, Hf. discriminate.
    + apply (Wait Sh l); [unfold want; now rewrite Hp|exact Hf].
  - destruct (free_for Ex l s) eqn:Hf.
    + exists t. unfold lstep. rewrite Hn, Hp, Hf. discriminate.
    + apply (Wait Ex l); [unfold want; now rewrite Hp|exact Hf].
  - exists t. unfold lstep. rewrite Hn, Hp. discriminate.
Qed.

Theorem linv_progress : forall s,
  linv s -> lfinished s = false -> exists t, lstep t s <> None.
Proof.
  intros s HI Hf. unfold lfinished in Hf. apply forallb_false_nth in Hf.
  destruct Hf as (t & th & Hn & Hx).
  apply (progress_aux s HI (bound s - want_rank th) t th Hn); [|reflexivity].
  destruct (lprog th); [discriminate|discriminate].
Qed.

(** the general theorem: programs that respect a rank never deadlock *)
Theorem ranked_deadlock_free : forall progs sched,
  (forall p, In p progs -> ordered rank p = true) ->
  let s := lrun sched (linit progs) in
  lfinished s = true \/ exists t, lstep t s <> None.
Proof.
  intros progs sched H s.
  assert (HI : linv s) by (apply linv_run, linv_init, H).
  destruct (lfinished s) eqn:E; [left; reflexivity|right; now apply linv_progress].
Qed.

(** sequences of rank-respecting, balanced entry points respect the rank *)
Lemma ordered_from_app : forall p1 p2 h,
  ordered_from rank h p1 = true -> ordered rank p2 = true ->
  ordered_from rank h (p1 ++ p2) = true.
Proof.
  induction p1 as [|op p1 IH]; intros p2 h H1 H2.
  - cbn [ordered_from] in H1. destruct h; [exact H2|discriminate].
  - cbn [app ordered_from] in *.
    destruct op; apply andb_prop in H1; destruct H1 as [Ha Hb];
      apply andb_true_intro; (split; [exact Ha|]); now apply IH.
Qed.

Lemma ordered_concat : forall ps,
  (forall p, In p ps -> ordered rank p = true) -> ordered rank (concat ps) = true.
Proof.
  induction ps as [|p ps IH]; intros H; [reflexivity|].
  cbn [concat]. apply ordered_from_app.
  - apply H. now left.
  - apply IH. intros q Hq. apply H. now right.
Qed.

(** the acquisition graph of rank-respecting programs has no cycle *)
Lemma edges_from_ranked : forall p h a b,
  ordered_from rank h p = true -> In (a, b) (edges_from h p) -> rank a < rank b.
Proof.
  induction p as [|op p IH]; intros h a b Ho Hin; [destruct Hin|].
  cbn [ordered_from edges_from] in *.
  destruct op; apply andb_prop in Ho; destruct Ho as [Ha Hb];
    try (apply in_app_or in Hin; destruct Hin as [Hin|Hin];
         [apply in_map_iff in Hin; destruct Hin as (lm & E & Hlm); inversion E; subst;
          rewrite forallb_forall in Ha; specialize (Ha _ Hlm); now apply Nat.ltb_lt in Ha
         |eapply IH; eauto]);
    eapply IH; eauto.
Qed.

Lemma path_ranked : forall es,
  (forall a b, In (a, b) es -> rank a < rank b) ->
  forall a b, path es a b -> rank a < rank b.
Proof.
  intros es H a b P. induction P as [a b Hin|a b c Hin P IH].
  - now apply H.
  - specialize (H _ _ Hin). lia.
Qed.

Theorem ranked_acyclic : forall progs,
  (forall p, In p progs -> ordered rank p = true) ->
  forall a, ~ path (acquisition_edges progs) a a.
Proof.
  intros progs H a P.
  assert (R : forall x y, In (x, y) (acquisition_edges progs) -> rank x < rank y).
  { intros x y Hin. unfold acquisition_edges in Hin. apply in_flat_map in Hin.
    destruct Hin as (p & Hp & Hin). eapply edges_from_ranked; [apply (H _ Hp)|exact Hin]. }
  pose proof (path_ranked _ R _ _ P). lia.
Qed.

End Ranked.

(** * The library's entry points *)

Lemma entry_points_repaired_ordered :
  forall p, In p entry_points_repaired -> ordered lib_rank p = true.
Proof.
  intros p H. cbn [entry_points_repaired In] in H.
  repeat destruct H as [<-|H]; try reflexivity. destruct H.
Qed.

(** any number of threads, each running any sequence of (repaired) entry
    points: in every reachable state all threads have finished or some
    thread can take a step *)
Theorem deadlock_free_repaired : forall (tprogs : list (list program)) sched,
  (forall tp p, In tp tprogs -> In p tp -> In p entry_points_repaired) ->
  let s := lrun sched (linit (map (@concat lop) tprogs)) in
  lfinished s = true \/ exists t, lstep t s <> None.
Proof.
  intros tprogs sched H. apply ranked_deadlock_free with (rank := lib_rank).
  intros q Hq. apply in_map_iff in Hq. destruct Hq as (tp & <- & Htp).
  apply ordered_concat. intros p Hp. apply entry_points_repaired_ordered. eapply H; eauto.
Qed.

(** the pinned LKCD order deadlocks: T0 = kdump_read on LKCD holds
    cache_lock and wants pfn_block_mutex, T1 = max_pfn revalidation holds
    pfn_block_mutex and wants cache_lock *)
Definition abba_sched : list nat := [0; 0; 0; 0; 1; 1; 0].

Theorem deadlock_lkcd_pinned :
  exists sched, deadlocked (lrun sched (linit [prog_read_lkcd; prog_revalidate_pinned])).
Proof.
  exists abba_sched. split; [vm_compute; reflexivity|].
  intros t. destruct t as [|[|t]]; [vm_compute; reflexivity|vm_compute; reflexivity|].
  set (s := lrun abba_sched _). vm_compute in s. subst s.
  unfold lstep. cbn [nth_error]. now destruct t.
Qed.

Example acyclicb_repaired : acyclicb (acquisition_edges entry_points_repaired) = true.
Proof. vm_compute. reflexivity. Qed.

Example acyclicb_pinned : acyclicb (acquisition_edges entry_points_pinned) = false.
Proof. vm_compute. reflexivity. Qed.

Example entry_points_pinned_not_ordered :
  ordered lib_rank prog_revalidate_pinned = false.
Proof. vm_compute. reflexivity. Qed.
