(** C05 — basic lemmas about the list helpers, the 32-bit counter and the
    cache operations of [Protocol.v]. *)
From Coq Require Import NArith List Bool Arith Lia.
From KdV Require Import Conc.Protocol Conc.Interleave.
Import ListNotations.

(** * set_nth / nth_error *)

Lemma length_set_nth : forall A (l : list A) n x, length (set_nth l n x) = length l.
Proof.
  intros A l; induction l as [|a l IH]; intros n x; [reflexivity|].
  destruct n; cbn [set_nth length]; [reflexivity|]. now rewrite IH.
Qed.

Lemma nth_error_set_nth_eq : forall A (l : list A) n x,
  n < length l -> nth_error (set_nth l n x) n = Some x.
Proof.
  intros A l; induction l as [|a l IH]; intros n x Hn; cbn [length] in Hn; [lia|].
  destruct n; cbn [set_nth nth_error]; [reflexivity|]. apply IH; lia.
Qed.

Lemma nth_error_set_nth_neq : forall A (l : list A) n m x,
  n <> m -> nth_error (set_nth l n x) m = nth_error l m.
Proof.
  intros A l; induction l as [|a l IH]; intros n m x Hnm; [reflexivity|].
  destruct n, m; cbn [set_nth nth_error]; try reflexivity; try lia.
  apply IH; lia.
Qed.

Lemma nth_error_lt : forall A (l : list A) n a, nth_error l n = Some a -> n < length l.
Proof. intros A l n a H. apply nth_error_Some. congruence. Qed.

Lemma set_nth_same : forall A (l : list A) n a,
  nth_error l n = Some a -> set_nth l n a = l.
Proof.
  intros A l; induction l as [|b l IH]; intros n a H; [reflexivity|].
  destruct n; cbn [set_nth nth_error] in *; [congruence|]. now rewrite IH.
Qed.

(** * slot *)

Lemma slot_some_lt : forall c e a, slot c e = Some a -> e < length c.
Proof.
  intros c e a H. unfold slot in H. destruct (nth_error c e) eqn:E; [|discriminate].
  eapply nth_error_lt; eauto.
Qed.

Lemma slot_set_nth_eq : forall c e x, e < length c -> slot (set_nth c e x) e = x.
Proof. intros c e x H. unfold slot. now rewrite nth_error_set_nth_eq. Qed.

Lemma slot_set_nth_neq : forall c e e' x, e <> e' -> slot (set_nth c e x) e' = slot c e'.
Proof. intros c e e' x H. unfold slot. now rewrite nth_error_set_nth_neq. Qed.

Lemma slot_refcnt_set_eq : forall c e x, e < length c ->
  slot_refcnt (set_nth c e x) e = match x with Some a => refcnt a | None => 0%N end.
Proof. intros. unfold slot_refcnt. now rewrite slot_set_nth_eq. Qed.

Lemma slot_refcnt_set_neq : forall c e e' x, e <> e' ->
  slot_refcnt (set_nth c e x) e' = slot_refcnt c e'.
Proof. intros. unfold slot_refcnt. now rewrite slot_set_nth_neq. Qed.

(** * find_idx *)

Lemma find_idx_some : forall A (p : A -> bool) l i,
  find_idx p l = Some i -> exists a, nth_error l i = Some a /\ p a = true.
Proof.
  intros A p l; induction l as [|a l IH]; intros i H; cbn [find_idx] in H; [discriminate|].
  destruct (p a) eqn:E.
  - inversion H; subst. exists a; split; [reflexivity|exact E].
  - destruct (find_idx p l) as [j|] eqn:F; cbn [option_map] in H; [|discriminate].
    inversion H; subst. cbn [nth_error]. now apply IH.
Qed.

Lemma find_idx_none : forall A (p : A -> bool) l,
  find_idx p l = None -> forall i a, nth_error l i = Some a -> p a = false.
Proof.
  intros A p l; induction l as [|b l IH]; intros H i a Hn.
  - destruct i; discriminate.
  - cbn [find_idx] in H. destruct (p b) eqn:E; [discriminate|].
    destruct (find_idx p l) eqn:F; [discriminate|].
    destruct i; cbn [nth_error] in Hn; [congruence|]. eapply IH; eauto.
Qed.

(** * the 32-bit counter *)

Lemma M32_val : M32 = 4294967296%N. Proof. reflexivity. Qed.

Lemma inc32_small : forall x, (x + 1 < M32)%N -> inc32 x = (x + 1)%N.
Proof. intros x H. unfold inc32. now apply N.mod_small. Qed.

Lemma dec32_pos : forall x, (0 < x)%N -> (x < M32)%N -> dec32 x = (x - 1)%N.
Proof.
  intros x H0 H1. unfold dec32. symmetry.
  apply N.mod_unique with (q := 1%N); rewrite M32_val in *; lia.
Qed.

(** * counting: fewer in-use slots than slots means some slot is not in use *)

Lemma not_inuse_exists : forall c,
  length (filter inuseb c) < length c ->
  exists e o, nth_error c e = Some o /\ inuseb o = false.
Proof.
  induction c as [|o c IH]; cbn [filter length]; intros H; [lia|].
  destruct (inuseb o) eqn:E.
  - cbn [length] in H. destruct IH as (e & o' & Hn & Hu); [lia|].
    exists (S e), o'. split; assumption.
  - exists 0, o. split; [reflexivity|assumption].
Qed.

(** * what [cache_get] does, by cases *)

Definition no_key (c : cache) (k : N) : Prop :=
  forall e a, slot c e = Some a -> key a <> k.

Lemma no_key_of_finds : forall c k,
  find_idx (is_valid_key k) c = None -> find_idx (is_inflight_key k) c = None ->
  no_key c k.
Proof.
  intros c k H1 H2 e a Hs Hk. unfold slot in Hs.
  destruct (nth_error c e) as [o|] eqn:En; [|discriminate]. subst o.
  pose proof (find_idx_none _ _ _ H1 _ _ En) as P1.
  pose proof (find_idx_none _ _ _ H2 _ _ En) as P2.
  cbn [is_valid_key is_inflight_key] in P1, P2.
  apply N.eqb_eq in Hk. rewrite Hk in P1, P2. destruct (st a); discriminate.
Qed.

Lemma cache_get_cases : forall c k victim c' oe j,
  cache_get c k victim = Some (c', oe, j) ->
  (exists e a, slot c e = Some a /\ key a = k /\ st a = Valid /\
     c' = set_nth c e (Some (set_refcnt a (inc32 (refcnt a)))) /\ oe = Some e /\ j = false)
  \/ j = true
  \/ (no_key c k /\ length c <= inuse c /\ c' = c /\ oe = None /\ j = false)
  \/ (no_key c k /\ inuse c < length c /\ exists f b, f < length c /\ slot_refcnt c f = 0%N /\
        (forall a, slot c f = Some a -> st a = Valid) /\
        c' = set_nth c f (Some (mkEntry k InFlight 1 b)) /\ oe = Some f /\ j = false).
Proof.
  intros c k victim c' oe j H. unfold cache_get in H.
  destruct (find_idx (is_valid_key k) c) as [e|] eqn:F1.
  { left. apply find_idx_some in F1. destruct F1 as (o & Hn & Hp).
    destruct o as [a|]; cbn [is_valid_key] in Hp; [|discriminate].
    apply andb_prop in Hp. destruct Hp as [Hk Hs]. apply N.eqb_eq in Hk.
    assert (Hsl : slot c e = Some a) by (unfold slot; now rewrite Hn).
    unfold bump in H. rewrite Hsl in H. inversion H; subst.
    exists e, a. repeat split; try reflexivity; try assumption.
    destruct (st a); [reflexivity|discriminate]. }
  destruct (find_idx (is_inflight_key k) c) as [e|] eqn:F2.
  { right; left. inversion H; reflexivity. }
  pose proof (no_key_of_finds _ _ F1 F2) as NK.
  destruct (length c <=? inuse c) eqn:Hle.
  { right; right; left. inversion H; subst. apply Nat.leb_le in Hle. repeat split; assumption. }
  apply Nat.leb_gt in Hle.
  right; right; right. split; [exact NK|]. split; [exact Hle|].
  destruct (find_idx is_free c) as [f|] eqn:F3.
  - apply find_idx_some in F3. destruct F3 as (o & Hn & Hp).
    destruct o; cbn [is_free] in Hp; [discriminate|].
    assert (Hsl : slot c f = None) by (unfold slot; now rewrite Hn).
    inversion H; subst. exists f, Garbage.
    split; [eapply nth_error_lt; eauto|].
    split; [unfold slot_refcnt; now rewrite Hsl|].
    split; [intros a Ha; congruence|]. repeat split.
  - destruct (slot c victim) as [a|] eqn:Hsl; [|discriminate].
    cbn [evictable] in H. destruct (st a) eqn:Hst; [|discriminate].
    destruct (N.eqb (refcnt a) 0) eqn:Hr; [|discriminate]. apply N.eqb_eq in Hr.
    inversion H; subst. exists victim, (buf a).
    split; [eapply slot_some_lt; eauto|].
    split; [unfold slot_refcnt; now rewrite Hsl|].
    split; [intros a' Ha'; congruence|]. repeat split.
Qed.

(** [cache_get] is enabled for a suitable oracle answer *)
Lemma cache_get_enabled : forall c k, exists victim, cache_get c k victim <> None.
Proof.
  intros c k. unfold cache_get.
  destruct (find_idx (is_valid_key k) c); [exists 0; discriminate|].
  destruct (find_idx (is_inflight_key k) c); [exists 0; discriminate|].
  destruct (length c <=? inuse c) eqn:Hle; [exists 0; discriminate|].
  apply Nat.leb_gt in Hle.
  destruct (find_idx is_free c) eqn:F3; [exists 0; discriminate|].
  destruct (not_inuse_exists c Hle) as (e & o & Hn & Hu).
  pose proof (find_idx_none _ _ _ F3 _ _ Hn) as Hf.
  destruct o as [a|]; cbn [is_free] in Hf; [|discriminate].
  exists e. unfold slot. rewrite Hn. cbn [evictable]. cbn [inuseb] in Hu.
  destruct (st a); [|discriminate].
  destruct (N.eqb (refcnt a) 0); [discriminate|discriminate].
Qed.
