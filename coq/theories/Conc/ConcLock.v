(** C05 — the mutex discipline of the read protocol: mutual exclusion,
    "nothing blocks except lock acquisition", progress, "bookkeeping only
    under the lock", and acceptance of every model trace by the per-thread
    automaton used in the tie. *)
From Coq Require Import NArith List Bool Arith Lia.
From KdV Require Import Conc.Protocol Conc.Interleave Conc.ConcLemmas Conc.ConcInv
  Conc.ConcProofs Conc.ConcSafety.
Import ListNotations.

Section Lock.
Variable fill : N -> option value.

(** the thread is between a Lock and the matching Unlock *)
Definition inlockb (th : thread) : bool :=
  match todo th with
  | [] => false
  | _ :: _ =>
    match pc th with
    | PGet | PUnlock1 | PInsDis | PUnlock2 | PPut | PUnlock3 => true
    | _ => false
    end
  end.

Definition split_put (p : pcs) : bool :=
  match p with PPutLoad | PPutStore => true | _ => false end.

Record lock_inv (pl : bool) (s : state) : Prop := mkLockInv {
  li_holder : forall t th, nth_error (thr s) t = Some th ->
                (inlockb th = true <-> lck s = Some t);
  li_range : forall t, lck s = Some t -> t < length (thr s);
  li_put : pl = true -> forall t th, nth_error (thr s) t = Some th ->
             split_put (pc th) = false
}.

Ltac crunch H :=
  repeat match type of H with
  | match ?x with _ => _ end = Some _ => destruct x eqn:?; try discriminate
  end.

Lemma tstep_lock : forall pl t v c l th k rest c' l' th' j stl,
  todo th = k :: rest ->
  tstep pl fill t v c l th k rest = Some (c', l', th', j, stl) ->
  ((l = None /\ l' = Some t /\ inlockb th = false /\ inlockb th' = true) \/
   (l' = None /\ inlockb th = true /\ inlockb th' = false) \/
   (l' = l /\ inlockb th' = inlockb th)) /\
  (pl = true -> split_put (pc th) = false -> split_put (pc th') = false).
Proof.
  intros pl t v c l th k rest c' l' th' j stl Htd H.
  destruct th as [p td cu rg gt rs tr]. cbn [todo] in Htd. subst td.
  unfold tstep in H. cbn [pc cur reg got] in H. unfold inlockb. cbn [todo pc].
  destruct p; crunch H; inversion H; subst; clear H;
    unfold th_set, th_done; cbn [todo pc];
    (split; [|try (intros; reflexivity)]);
    try (left; repeat split; reflexivity);
    try (right; left; repeat split; try reflexivity; destruct rest; reflexivity);
    try (right; right; repeat split; reflexivity).
  all: try (intros ->; intros _; reflexivity).
  all: try (intros _ Hc; discriminate Hc).
  all: try (right; right; split; [reflexivity|];
            try destruct (st e); try destruct pl; try destruct rest; reflexivity).
  all: try (intros _ _; destruct (st e); reflexivity).
Qed.

Lemma lock_inv_init : forall pl cap progs, lock_inv pl (init cap progs).
Proof.
  intros pl cap progs. constructor; cbn [init thr lck].
  - intros t th H. apply nth_error_In in H. apply in_map_iff in H.
    destruct H as (p & <- & _). unfold inlockb, init_thread. cbn [todo pc].
    split; [destruct p; discriminate|discriminate].
  - discriminate.
  - intros _ t th H. apply nth_error_In in H. apply in_map_iff in H.
    destruct H as (p & <- & _). reflexivity.
Qed.

Lemma lock_inv_step : forall pl ch s s',
  lock_inv pl s -> step pl fill ch s = Some s' -> lock_inv pl s'.
Proof.
  intros pl [t v] s s' [L1 L2 L3] H. apply step_inversion in H.
  destruct H as (th & k & rest & c' & l' & th' & j & stl & Ht & Htd & Hts & ->).
  destruct (tstep_lock _ _ _ _ _ _ _ _ _ _ _ _ _ Htd Hts) as [HL HP].
  pose proof (nth_error_lt _ _ _ _ Ht) as Hlt.
  pose proof (L1 _ _ Ht) as Lt.
  constructor; cbn [thr lck].
  - intros t' th'' Hn. destruct (Nat.eq_dec t t') as [<-|Hne].
    + rewrite nth_error_set_nth_eq in Hn by assumption. inversion Hn; subst th''.
      destruct HL as [(E1 & E2 & E3 & E4)|[(E1 & E2 & E3)|(E1 & E2)]].
      * rewrite E2, E4. tauto.
      * rewrite E1, E3. split; discriminate.
      * rewrite E1, E2. exact Lt.
    + rewrite nth_error_set_nth_neq in Hn by assumption.
      pose proof (L1 _ _ Hn) as Lt'.
      destruct HL as [(E1 & E2 & E3 & E4)|[(E1 & E2 & E3)|(E1 & E2)]].
      * rewrite E2. rewrite E1 in Lt'. split; intros X.
        -- apply Lt' in X. discriminate.
        -- inversion X. lia.
      * rewrite E1. split; intros X; [|discriminate].
        apply Lt' in X. apply Lt in E2. rewrite E2 in X. inversion X. lia.
      * rewrite E1. exact Lt'.
  - intros t0 Hl. rewrite length_set_nth.
    destruct HL as [(E1 & E2 & E3 & E4)|[(E1 & E2 & E3)|(E1 & E2)]].
    + rewrite E2 in Hl. inversion Hl; subst. exact Hlt.
    + rewrite E1 in Hl. discriminate.
    + rewrite E1 in Hl. now apply L2.
  - intros Hpl t' th'' Hn. destruct (Nat.eq_dec t t') as [<-|Hne].
    + rewrite nth_error_set_nth_eq in Hn by assumption. inversion Hn; subst th''.
      apply HP; [exact Hpl|]. eapply L3; eauto.
    + rewrite nth_error_set_nth_neq in Hn by assumption. eapply L3; eauto.
Qed.

Theorem lock_inv_run : forall pl cap progs sched,
  lock_inv pl (run pl fill sched (init cap progs)).
Proof.
  intros pl cap progs sched. apply (run_ind fill pl (lock_inv pl)).
  - intros ch s s' HI H. eapply lock_inv_step; eauto.
  - apply lock_inv_init.
Qed.

(** mutual exclusion *)
Lemma mutex : forall pl s t1 t2 th1 th2,
  lock_inv pl s -> nth_error (thr s) t1 = Some th1 -> nth_error (thr s) t2 = Some th2 ->
  inlockb th1 = true -> inlockb th2 = true -> t1 = t2.
Proof.
  intros pl s t1 t2 th1 th2 [L1 _ _] H1 H2 I1 I2.
  apply (L1 _ _ H1) in I1. apply (L1 _ _ H2) in I2. congruence.
Qed.

(** * nothing blocks except lock acquisition *)

Lemma step_enabled_nonlock : forall pl s t th,
  nth_error (thr s) t = Some th -> finished th = false -> at_lock th = false ->
  enabled pl fill t s.
Proof.
  intros pl s t th Ht Hf Hl. unfold enabled, step. rewrite Ht.
  unfold finished in Hf. destruct (todo th) as [|k rest] eqn:Htd; [discriminate|].
  unfold at_lock in Hl. unfold tstep.
  destruct (pc th) eqn:Hpc; try discriminate.
  - destruct (cache_get_enabled (cch s) k) as [v Hv]. exists v.
    destruct (cache_get (cch s) k v) as [[[c1 oe] j1]|]; [discriminate|congruence].
  - exists 0. destruct (cur th); discriminate.
  - exists 0. destruct (cur_entry (cch s) th); discriminate.
  - exists 0. destruct (upd_cur (cch s) th _); discriminate.
  - exists 0. destruct (fill k); [destruct (upd_cur (cch s) th _)|]; discriminate.
  - exists 0. destruct (fill k); destruct (upd_cur (cch s) th _); discriminate.
  - exists 0. destruct (fill k); discriminate.
  - exists 0. destruct (cur_entry (cch s) th); discriminate.
  - exists 0. destruct (cur_entry (cch s) th); discriminate.
  - exists 0. destruct (upd_cur (cch s) th _); discriminate.
  - exists 0. destruct (upd_cur (cch s) th _); discriminate.
  - exists 0. discriminate.
Qed.

Lemma step_enabled_lock : forall pl s t th,
  nth_error (thr s) t = Some th -> finished th = false -> at_lock th = true ->
  (enabled pl fill t s <-> lck s = None).
Proof.
  intros pl s t th Ht Hf Hl. unfold enabled, step. rewrite Ht.
  unfold finished in Hf. destruct (todo th) as [|k rest] eqn:Htd; [discriminate|].
  unfold at_lock in Hl. unfold tstep.
  destruct (pc th) eqn:Hpc; try discriminate;
    (split; [intros [v Hv]; destruct (lck s); [exfalso; now apply Hv|reflexivity]
            |intros ->; exists 0; discriminate]).
Qed.

Lemma not_quiescent_unfinished : forall ts,
  forallb finished ts = false -> exists t th, nth_error ts t = Some th /\ finished th = false.
Proof.
  induction ts as [|x ts IH]; intros H; [discriminate|].
  cbn [forallb] in H. destruct (finished x) eqn:E.
  - cbn [andb] in H. destruct (IH H) as (t & th & Ht & Hf). exists (S t), th. split; assumption.
  - exists 0, x. split; [reflexivity|assumption].
Qed.

Lemma progress_of_lock_inv : forall pl s,
  lock_inv pl s -> quiescent s = false -> exists t, enabled pl fill t s.
Proof.
  intros pl s [L1 L2 _] Hq. destruct (lck s) as [t0|] eqn:Hl.
  - pose proof (L2 _ eq_refl) as Hlt. apply nth_error_Some in Hlt.
    destruct (nth_error (thr s) t0) as [th0|] eqn:Ht0; [|congruence].
    pose proof (proj2 (L1 _ _ Ht0) eq_refl) as Hin. exists t0.
    apply step_enabled_nonlock with (th := th0); [assumption| |];
      unfold inlockb in Hin; unfold finished, at_lock;
      destruct (todo th0); try discriminate; [reflexivity|].
    destruct (pc th0); try discriminate; reflexivity.
  - apply not_quiescent_unfinished in Hq. destruct Hq as (t & th & Ht & Hf).
    exists t. destruct (at_lock th) eqn:Ha.
    + apply (step_enabled_lock pl s t th Ht Hf Ha). exact Hl.
    + eapply step_enabled_nonlock; eauto.
Qed.

(** * bookkeeping is only touched under the lock *)

Lemma map_set_nth : forall A B (f : A -> B) l n x,
  map f (set_nth l n x) = set_nth (map f l) n (f x).
Proof.
  intros A B f l; induction l as [|a l IH]; intros n x; [reflexivity|].
  destruct n; cbn [set_nth map]; [reflexivity|]. now rewrite IH.
Qed.

Lemma book_set_buf : forall c e a b,
  slot c e = Some a -> book (set_nth c e (Some (set_buf a b))) = book c.
Proof.
  intros c e a b Hs. unfold book. rewrite map_set_nth. apply set_nth_same.
  rewrite nth_error_map. unfold slot in Hs.
  destruct (nth_error c e) as [o|]; [|discriminate]. subst o. reflexivity.
Qed.

Lemma upd_cur_buf_book : forall c th b c1 b1,
  upd_cur c th (fun ent => Some (set_buf ent b)) = (c1, b1) -> book c1 = book c.
Proof.
  intros c th b c1 b1 E. unfold upd_cur in E. destruct (cur th) as [e|]; [|now inversion E].
  destruct (slot c e) as [a|] eqn:Hs; inversion E; subst; [|reflexivity].
  now apply book_set_buf.
Qed.

Lemma step_book : forall s t v s',
  lock_inv true s -> step true fill (t, v) s = Some s' ->
  lck s = Some t \/ book (cch s') = book (cch s).
Proof.
  intros s t v s' [L1 _ L3] H. apply step_inversion in H.
  destruct H as (th & k & rest & c' & l' & th' & j & stl & Ht & Htd & Hts & ->).
  cbn [cch]. pose proof (L1 _ _ Ht) as Lt. pose proof (L3 eq_refl _ _ Ht) as Lp.
  unfold inlockb in Lt. rewrite Htd in Lt. unfold tstep in Hts.
  destruct (pc th); try (left; now apply Lt); try discriminate; right.
  - destruct (lck s); inversion Hts; reflexivity.
  - destruct (cur_entry (cch s) th); inversion Hts; reflexivity.
  - destruct (upd_cur (cch s) th _) eqn:E; inversion Hts; subst.
    eapply upd_cur_buf_book; eauto.
  - destruct (fill k); [|inversion Hts; reflexivity].
    destruct (upd_cur (cch s) th _) eqn:E; inversion Hts; subst.
    eapply upd_cur_buf_book; eauto.
  - destruct (lck s); inversion Hts; reflexivity.
  - destruct (cur_entry (cch s) th); inversion Hts; reflexivity.
  - destruct (lck s); inversion Hts; reflexivity.
Qed.

(** * every model trace is accepted by the per-thread automaton *)

Lemma auto_run_app : forall cl evs evs' a,
  auto_run cl a (evs ++ evs') =
  match auto_run cl a evs with
  | AOk a' => auto_run cl a' evs'
  | ABad v => ABad v
  end.
Proof.
  intros cl evs; induction evs as [|ev evs IH]; intros evs' a; [reflexivity|].
  cbn [app auto_run]. destruct (auto_step cl a ev); [apply IH|reflexivity].
Qed.

Definition expected (th : thread) : astate :=
  mkAstate (if inlockb th then [CL] else []) []
           (match holds fill th with Some e => [(CID, N.of_nat e)] | None => [] end).

Definition needs_cur (p : pcs) : bool :=
  match p with PLock1 | PGet | PUnlock1 | PUnlock3 => false | _ => true end.

Record tr_inv (th : thread) : Prop := mkTrInv {
  ti_run : auto_run CL astate0 (trace th) = AOk (expected th);
  ti_cur : todo th <> [] -> needs_cur (pc th) = true -> cur th <> None;
  ti_put : split_put (pc th) = false
}.

Lemma ref_eqb_refl : forall x, ref_eqb x x = true.
Proof. intros [a b]. unfold ref_eqb. cbn [fst snd]. now rewrite !N.eqb_refl. Qed.

Lemma expected_done : forall rest rs tr,
  expected (mkThread PLock1 rest None 0%N Garbage rs tr) = astate0.
Proof.
  intros. unfold expected, inlockb. rewrite holds_done. cbn [todo pc].
  now destruct rest.
Qed.

Ltac fin :=
  constructor; cbn [todo pc cur trace results needs_cur split_put];
  [ | first [intros _ _; discriminate | intros _ Hx; discriminate Hx] | reflexivity ].

Lemma tstep_trace : forall t v c l th k rest c' l' th' j stl,
  tr_inv th -> todo th = k :: rest ->
  tstep true fill t v c l th k rest = Some (c', l', th', j, stl) ->
  tr_inv th'.
Proof.
  intros t v c l th k rest c' l' th' j stl [T1 T2 T3] Htd H.
  destruct th as [p td cu rg gt rs tr]. cbn [todo] in Htd. subst td.
  cbn [trace] in T1. cbn [todo pc cur] in T2. cbn [pc] in T3.
  specialize (T2 ltac:(discriminate)).
  unfold tstep in H. cbn [pc cur reg got] in H.
  unfold expected, inlockb, ConcInv.holds in T1. cbn [todo pc cur] in T1.
  destruct p; try discriminate T3; cbn [needs_cur] in T2;
    try (destruct cu as [e|]; [clear T2|exfalso; now apply T2]).
  - (* PLock1 *)
    crunch H; inversion H; subst; clear H. unfold th_set. fin.
    rewrite auto_run_app, T1. reflexivity.
  - (* PGet *)
    crunch H; inversion H; subst; clear H. unfold th_set. fin.
    rewrite auto_run_app, T1. unfold expected, inlockb, ConcInv.holds. cbn [todo pc cur].
    match goal with |- context [option_map N.of_nat ?o] => destruct o end; reflexivity.
  - (* PUnlock1 *)
    destruct cu as [e|]; inversion H; subst; clear H.
    + unfold th_set. fin. rewrite auto_run_app, T1. reflexivity.
    + unfold th_done. fin. rewrite auto_run_app, T1, expected_done. reflexivity.
  - (* PCheck *)
    crunch H; inversion H; subst; clear H; unfold th_set;
      try match goal with |- context [st ?x] => destruct (st x) end;
      (fin; rewrite app_nil_r, T1; reflexivity).
  - (* PBeginFill *)
    crunch H; inversion H; subst; clear H; unfold th_set;
      (fin; rewrite app_nil_r, T1; reflexivity).
  - (* PEndFill *)
    crunch H; inversion H; subst; clear H; unfold th_set;
      (fin; rewrite app_nil_r, T1; reflexivity).
  - (* PLock2 *)
    crunch H; inversion H; subst; clear H. unfold th_set. fin.
    rewrite auto_run_app, T1. reflexivity.
  - (* PInsDis *)
    destruct (fill k) eqn:Hfill; crunch H; inversion H; subst; clear H;
      unfold th_set;
      (fin; rewrite auto_run_app, T1; unfold expected, inlockb, ConcInv.holds;
       cbn [todo pc cur cur_id auto_run auto_step a_locks a_refs a_rw existsb CL N.eqb orb];
       rewrite Hfill;
       cbn [existsb remove_one_ref]; rewrite ref_eqb_refl; reflexivity).
  - (* PUnlock2 *)
    destruct (fill k) eqn:Hfill; inversion H; subst; clear H.
    + unfold th_set. fin. rewrite auto_run_app, T1. reflexivity.
    + unfold th_done. fin. rewrite auto_run_app, T1, expected_done. reflexivity.
  - (* PUse *)
    crunch H; inversion H; subst; clear H; unfold th_set;
      (fin; rewrite app_nil_r, T1; reflexivity).
  - (* PLock3 *)
    crunch H; inversion H; subst; clear H. unfold th_set. fin.
    rewrite auto_run_app, T1. reflexivity.
  - (* PPut *)
    crunch H; inversion H; subst; clear H; unfold th_set;
      (fin; rewrite auto_run_app, T1; unfold expected, inlockb, ConcInv.holds;
       cbn [todo pc cur cur_id auto_run auto_step a_locks a_refs a_rw existsb CL N.eqb orb
            remove_one_ref];
       rewrite ref_eqb_refl; reflexivity).
  - (* PUnlock3 *)
    inversion H; subst; clear H. unfold th_done. fin.
    rewrite auto_run_app, T1, expected_done. reflexivity.
Qed.

Lemma tr_inv_run : forall cap progs sched t th,
  nth_error (thr (run true fill sched (init cap progs))) t = Some th -> tr_inv th.
Proof.
  intros cap progs sched.
  apply (run_ind fill true (fun s => forall t th, nth_error (thr s) t = Some th -> tr_inv th)).
  - intros [t0 v] s s' HI H t th Hn. apply step_inversion in H.
    destruct H as (th0 & k & rest & c' & l' & th' & j & stl & Ht & Htd & Hts & ->).
    cbn [thr] in Hn. destruct (Nat.eq_dec t0 t) as [<-|Hne].
    + rewrite nth_error_set_nth_eq in Hn by (eapply nth_error_lt; eauto).
      inversion Hn; subst th. eapply tstep_trace; eauto.
    + rewrite nth_error_set_nth_neq in Hn by assumption. eauto.
  - intros t th Hn. cbn [init thr] in Hn. apply nth_error_In in Hn.
    apply in_map_iff in Hn. destruct Hn as (p & <- & _).
    constructor; cbn [init_thread trace todo pc cur]; try reflexivity; try discriminate.
    unfold expected, inlockb, ConcInv.holds. cbn [init_thread todo pc]. now destruct p.
Qed.

(** the trace of a thread of the repaired protocol is accepted: never a
    violation on any prefix, and nothing is left held once the thread has
    finished *)
Theorem model_traces_accepted : forall cap progs sched t th,
  nth_error (thr (run true fill sched (init cap progs))) t = Some th ->
  (exists a, auto_run CL astate0 (trace th) = AOk a) /\
  (todo th = [] -> thread_trace_ok CL (trace th) = None).
Proof.
  intros cap progs sched t th Hn. destruct (tr_inv_run _ _ _ _ _ Hn) as [T1 _ _].
  split; [eauto|]. intros Htd. unfold thread_trace_ok. rewrite T1.
  unfold expected, inlockb, ConcInv.holds. rewrite Htd. reflexivity.
Qed.

End Lock.
