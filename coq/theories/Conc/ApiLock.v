(** C05 — the lock class every public entry point must take on
    [shared->lock], as a table shared with the C driver (same ids), the
    executable check of ONE bracketed call's own events against its
    requirement, and each entry point's lock program in the rwlock semantics
    of [LockOrder.v].  Definitions only; executable.

    Modes read off the source (grep rwlock_rdlock / rwlock_wrlock):
    read.c kdump_read 216, kdump_read_string 296: rdlock;
    attr.c kdump_get_attr 1178 (kdump_get_typed_attr goes through it),
    kdump_attr_ref 1298, kdump_sub_attr_ref 1317, kdump_attr_ref_get 1353,
    kdump_attr_iter_start 1451, kdump_attr_ref_iter_start 1469,
    kdump_attr_iter_next 1482: rdlock;
    the bitmap operations (diskdump.c, elfdump.c, sadump.c *_get_bits /
    *_find_set / *_find_clear): rdlock;
    vmcoreinfo.c kdump_vmcoreinfo_raw 296, _line 353, _symbol 370: rdlock;
    context.c kdump_get_addrxlat 343: rdlock;
    attr.c kdump_set_attr 1256, kdump_attr_ref_set 1381,
    kdump_set_sub_attr 1398: wrlock;
    context.c kdump_clone 234-249 rdlock ... unlock, 251-291 wrlock ...
    unlock; kdump_free 303: wrlock.
    open.c kdump_open_fdset and kdump_set_filenames set attributes (and so
    run the open hooks, which themselves do [rwlock_unlock; ...;
    rwlock_wrlock] assuming a held write lock, open.c 491-525) but take NO
    lock at entry in the pinned source; the requirement stays ReqWrite — the
    tie reports the difference. *)
From Coq Require Import NArith List Bool Arith.
From KdV Require Import Conc.Protocol Conc.LockOrder.
Import ListNotations.

Inductive req := ReqRead | ReqWrite | ReqWriteAfterRead.

(** * lock programs of the entry points *)

Definition prog_reader : program := [AcqRd shared_lock; RelRw shared_lock].
Definition prog_writer : program := [AcqWr shared_lock; RelRw shared_lock].

(** kdump_clone: a read section (copy of the per-context data), then a
    write section (linking the clone into the shared list) *)
Definition prog_clone : program :=
  [AcqRd shared_lock; RelRw shared_lock; AcqWr shared_lock; RelRw shared_lock].

(** what the open entry points must do: a write section; the open hooks
    drop and re-take the write lock inside it *)
Definition prog_open : program :=
  [AcqWr shared_lock; RelRw shared_lock; AcqWr shared_lock; RelRw shared_lock].

(** a read that reaches the page cache and, through address translation
    set-up (vtop_init), drops and re-takes the read lock *)
Definition prog_read_relock : program :=
  [AcqRd shared_lock; RelRw shared_lock; AcqRd shared_lock] ++ crit cache_lock
  ++ crit cache_lock ++ crit cache_lock ++ crit cache_lock ++ [RelRw shared_lock].

(** * the table: id (shared with the C driver), requirement, model program *)

Definition api_table : list (N * (req * program)) :=
  [ (0,  (ReqRead, prog_read_generic));     (* kdump_read *)
    (1,  (ReqRead, prog_read_generic));     (* kdump_read_string *)
    (2,  (ReqRead, prog_reader));           (* kdump_get_attr *)
    (3,  (ReqRead, prog_reader));           (* kdump_get_typed_attr *)
    (4,  (ReqRead, prog_reader));           (* kdump_attr_ref *)
    (5,  (ReqRead, prog_reader));           (* kdump_sub_attr_ref *)
    (6,  (ReqRead, prog_reader));           (* kdump_attr_ref_get *)
    (7,  (ReqRead, prog_reader));           (* kdump_attr_iter_start *)
    (8,  (ReqRead, prog_reader));           (* kdump_attr_ref_iter_start *)
    (9,  (ReqRead, prog_reader));           (* kdump_attr_iter_next *)
    (10, (ReqRead, prog_reader));           (* kdump_bmp_get_bits *)
    (11, (ReqRead, prog_reader));           (* kdump_bmp_find_set *)
    (12, (ReqRead, prog_reader));           (* kdump_bmp_find_clear *)
    (13, (ReqRead, prog_reader));           (* kdump_vmcoreinfo_raw *)
    (14, (ReqRead, prog_reader));           (* kdump_vmcoreinfo_line *)
    (15, (ReqRead, prog_reader));           (* kdump_vmcoreinfo_symbol *)
    (16, (ReqRead, prog_reader));           (* kdump_get_addrxlat *)
    (20, (ReqWrite, prog_writer));          (* kdump_set_attr *)
    (21, (ReqWrite, prog_writer));          (* kdump_set_sub_attr *)
    (22, (ReqWrite, prog_writer));          (* kdump_attr_ref_set *)
    (23, (ReqWriteAfterRead, prog_clone));  (* kdump_clone *)
    (24, (ReqWrite, prog_writer));          (* kdump_free *)
    (25, (ReqWrite, prog_open));            (* kdump_open_fdset *)
    (26, (ReqWrite, prog_open))             (* kdump_set_filenames *)
  ]%N.

Fixpoint lookupN {A} (id : N) (t : list (N * A)) : option A :=
  match t with
  | [] => None
  | (i, a) :: t' => if N.eqb i id then Some a else lookupN id t'
  end.

Definition api_req (id : N) : option req := option_map fst (lookupN id api_table).
Definition api_prog (id : N) : option program := option_map snd (lookupN id api_table).

(** every program a thread may run: the table's, plus the format-specific
    shapes of the read and attribute paths of [LockOrder.v] *)
Definition api_entry_points : list program :=
  map (fun e => snd (snd e)) api_table
  ++ [prog_read_lkcd; prog_revalidate_repaired; prog_read_relock].

(** * one bracketed call against its requirement *)

Definition is_rd (l : N) (ev : event) : bool :=
  match ev with EvRdLock l' => N.eqb l' l | _ => false end.
Definition is_wr (l : N) (ev : event) : bool :=
  match ev with EvWrLock l' => N.eqb l' l | _ => false end.
Definition is_un (l : N) (ev : event) : bool :=
  match ev with EvRwUnlock l' => N.eqb l' l | _ => false end.

(** Only the number and mode of the acquisitions of [shared_lock] inside
    the call and the final balance matter (an unlock/relock in the middle is
    accepted):
    ReqRead: at least one acquisition (either mode), as many releases;
    ReqWrite: at least one acquisition, EVERY acquisition is a write lock,
      as many releases;
    ReqWriteAfterRead: at least one write acquisition, as many releases as
      acquisitions. *)
Definition api_call_ok (shared : N) (r : req) (evs : list event) : bool :=
  let nrd := length (filter (is_rd shared) evs) in
  let nwr := length (filter (is_wr shared) evs) in
  let nun := length (filter (is_un shared) evs) in
  match r with
  | ReqRead => (1 <=? nrd + nwr) && (nrd + nwr =? nun)
  | ReqWrite => (1 <=? nwr) && (nrd =? 0) && (nwr =? nun)
  | ReqWriteAfterRead => (1 <=? nwr) && (nrd + nwr =? nun)
  end.

(** the events a lock program emits *)
Definition event_of_lop (op : lop) : event :=
  match op with
  | Acq l => EvLock (N.of_nat l)
  | Rel l => EvUnlock (N.of_nat l)
  | AcqRd l => EvRdLock (N.of_nat l)
  | AcqWr l => EvWrLock (N.of_nat l)
  | RelRw l => EvRwUnlock (N.of_nat l)
  end.

Definition events_of_prog (p : program) : list event := map event_of_lop p.

(** id of [shared->lock] in these events *)
Definition SL : N := N.of_nat shared_lock.

(** * "inside a locked section implies holding shared->lock" *)

Definition apply_op (op : lop) (h : held) : held :=
  match op with
  | Acq l | AcqWr l => (l, Ex) :: h
  | AcqRd l => (l, Sh) :: h
  | Rel l | RelRw l => release l h
  end.

(** along the program, whenever anything is held [shared_lock] is held, and
    nothing is held at the end *)
Fixpoint covered_from (h : held) (p : program) : bool :=
  match h with [] => true | _ :: _ => holds_any shared_lock h end &&
  match p with
  | [] => match h with [] => true | _ :: _ => false end
  | op :: p' => covered_from (apply_op op h) p'
  end.

(** the seeded variant of kdump_set_sub_attr: a reader where a writer is
    required *)
Definition prog_set_sub_attr_seeded : program := [AcqRd shared_lock; RelRw shared_lock].
