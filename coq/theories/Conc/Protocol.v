(** C05 — model of the page-read protocol that threads run on clones of one
    dump context (read.c [cache_get_page] / [read_locked] / [cache_put_page],
    cache.c [cache_get_entry] / [cache_insert] / [cache_discard] /
    [cache_put_entry]).  Definitions only; executable.

    PARTIAL BY DESIGN.  The unit of interleaving is the *atomic step* listed
    below.  Steps the source performs while holding [cache_lock] are atomic;
    a step the source performs WITHOUT [cache_lock] is split into its load
    and its store ([PPutLoad]/[PPutStore]; [PCheck] is a single load,
    [PBeginFill]/[PEndFill] are the first and the last store of a fill).
    Compiler and hardware memory-model effects below this granularity (torn
    or reordered accesses, speculative stores) are NOT modelled: the model is
    sequentially consistent at step granularity.

    Shared state is an ABSTRACT cache, not cache.c's rings: [cap] buffer
    slots, each empty or carrying one entry
      { key; st = Valid | InFlight; refcnt (C [unsigned], wraps mod 2^32);
        buf = Filled v | Garbage }.
    A slot index identifies the entry *and* its buffer (read.c captures
    [entry->data] right after [cache_get_entry]; a stale handle therefore
    reads whatever the buffer holds now).  Ghost entries, the precious/probed
    split and the replacement policy are abstracted: when a buffer must be
    reclaimed the victim is ANY valid entry with refcnt = 0, named by the
    schedule (oracle), so every theorem quantifies over every policy.

    One read of key [k] is the step sequence (exactly the source's brackets)
      Lock; GetEntry; Unlock; CheckValid; BeginFill; EndFill;
      Lock; Insert|Discard; Unlock; Use;
      then  PutLoad; PutStore              when [put_locked = false]
                                            (pinned source, defect #17)
      or    Lock; Put; Unlock              when [put_locked = true]
                                            (repaired read.c cache_put_page).
    A fill is TWO atomic steps: [BeginFill] turns the buffer into [Garbage]
    (decompressors use the destination as scratch), [EndFill] stores
    [Filled v] when [fill k = Some v]; [fill k = None] is a failing
    read_page: buffer stays garbage and the entry is discarded. *)
From Coq Require Import NArith List Bool Arith.
Import ListNotations.

(** * Values, buffers, entries *)

Definition value := N.
Inductive bufc := Filled (v : value) | Garbage.
Inductive est := Valid | InFlight.
Record entry := mkEntry { key : N; st : est; refcnt : N; buf : bufc }.
Definition cache := list (option entry).

(** C [unsigned] arithmetic on the reference counter *)
Definition M32 : N := 4294967296.
Definition inc32 (x : N) : N := ((x + 1) mod M32)%N.
Definition dec32 (x : N) : N := ((x + (M32 - 1)) mod M32)%N.

(** * Small list helpers *)

Fixpoint set_nth {A} (l : list A) (n : nat) (x : A) : list A :=
  match l, n with
  | [], _ => []
  | _ :: l', O => x :: l'
  | a :: l', S n' => a :: set_nth l' n' x
  end.

Fixpoint find_idx {A} (p : A -> bool) (l : list A) : option nat :=
  match l with
  | [] => None
  | a :: l' => if p a then Some O else option_map S (find_idx p l')
  end.

Definition slot (c : cache) (e : nat) : option entry :=
  match nth_error c e with Some o => o | None => None end.

(** * The cache operations (each runs under [cache_lock] in the source) *)

Definition is_valid_key (k : N) (o : option entry) : bool :=
  match o with
  | Some ent => N.eqb (key ent) k && match st ent with Valid => true | InFlight => false end
  | None => false
  end.

Definition is_inflight_key (k : N) (o : option entry) : bool :=
  match o with
  | Some ent => N.eqb (key ent) k && match st ent with Valid => false | InFlight => true end
  | None => false
  end.

Definition is_free (o : option entry) : bool :=
  match o with None => true | Some _ => false end.

(** counted by [cache_get_entry_noref]:
    (nprec - nzprec) + (nprobe - nzprobe) + ninflight *)
Definition inuseb (o : option entry) : bool :=
  match o with
  | Some ent => match st ent with
                | InFlight => true
                | Valid => negb (N.eqb (refcnt ent) 0)
                end
  | None => false
  end.

Definition evictable (o : option entry) : bool :=
  match o with
  | Some ent => match st ent with
                | Valid => N.eqb (refcnt ent) 0
                | InFlight => false
                end
  | None => false
  end.

Definition inuse (c : cache) : nat := length (filter inuseb c).

Definition set_refcnt (ent : entry) (r : N) : entry :=
  mkEntry (key ent) (st ent) r (buf ent).
Definition set_st (ent : entry) (s : est) : entry :=
  mkEntry (key ent) s (refcnt ent) (buf ent).
Definition set_buf (ent : entry) (b : bufc) : entry :=
  mkEntry (key ent) (st ent) (refcnt ent) b.

(** [++entry->refcnt] *)
Definition bump (c : cache) (e : nat) : cache :=
  match slot c e with
  | Some ent => set_nth c e (Some (set_refcnt ent (inc32 (refcnt ent))))
  | None => c
  end.

(** [cache_get_entry].  Result: new cache, the entry handed out ([None] =
    NULL = the caller reports BUSY), and whether the entry handed out was
    ANOTHER caller's in-flight entry (defect #34: [get_inflight_entry]
    returns it unfilled).  The function result is [None] only when a buffer
    must be reclaimed and [victim] does not name a valid entry with
    refcnt = 0 (that schedule component is then not a transition).
    A free buffer has unspecified contents: [Garbage]; a reclaimed buffer
    still holds the victim's bytes. *)
Definition cache_get (c : cache) (k : N) (victim : nat)
  : option (cache * option nat * bool) :=
  match find_idx (is_valid_key k) c with
  | Some e => Some (bump c e, Some e, false)
  | None =>
    match find_idx (is_inflight_key k) c with
    | Some e => Some (bump c e, Some e, true)
    | None =>
      if length c <=? inuse c then Some (c, None, false)
      else
        match find_idx is_free c with
        | Some f => Some (set_nth c f (Some (mkEntry k InFlight 1 Garbage)), Some f, false)
        | None =>
          match slot c victim with
          | Some ent =>
              if evictable (Some ent)
              then Some (set_nth c victim (Some (mkEntry k InFlight 1 (buf ent))),
                         Some victim, false)
              else None
          | None => None
          end
        end
    end
  end.

(** [cache_insert]: [if (cache_entry_valid(entry)) return;] else make it valid *)
Definition do_insert (ent : entry) : option entry := Some (set_st ent Valid).

(** [cache_discard]: [if (--entry->refcnt) return; if (valid) return;] else
    the in-flight entry is removed and its buffer becomes free *)
Definition do_discard (ent : entry) : option entry :=
  let r := dec32 (refcnt ent) in
  if negb (N.eqb r 0) then Some (set_refcnt ent r)
  else match st ent with
       | Valid => Some (set_refcnt ent r)
       | InFlight => None
       end.

(** [cache_put_entry]: [--entry->refcnt] *)
Definition do_put (ent : entry) : option entry :=
  Some (set_refcnt ent (dec32 (refcnt ent))).

(** * Events (what the instrumented library reports per thread) *)

Inductive event :=
| EvLock (l : N) | EvUnlock (l : N)
| EvRdLock (l : N) | EvWrLock (l : N) | EvRwUnlock (l : N)
| EvGet (cch : N) (ent : option N)
| EvInsert (cch : N) (ent : N)
| EvDiscard (cch : N) (ent : N)
| EvPut (cch : N) (ent : N).

(** lock id of [cache_lock] and cache id of the page cache in model traces *)
Definition CL : N := 0.
Definition CID : N := 0.

(** * Threads *)

Inductive pcs :=
| PLock1 | PGet | PUnlock1 | PCheck | PBeginFill | PEndFill
| PLock2 | PInsDis | PUnlock2 | PUse
| PPutLoad | PPutStore
| PLock3 | PPut | PUnlock3.

Inductive result := RBytes (b : bufc) | RBusy | RFail.

(** [todo]: keys still to be read (head = the read in progress); [cur]: the
    entry pointer returned by GetEntry; [reg]: the register of the split
    [--refcnt]; [got]: the bytes copied out by Use; [results]: completed
    reads, most recent first; [trace]: ghost, the events emitted so far. *)
Record thread := mkThread {
  pc : pcs; todo : list N; cur : option nat; reg : N; got : bufc;
  results : list (N * result); trace : list event }.

Definition th_set (th : thread) (p : pcs) (c : option nat) (r : N) (g : bufc)
           (evs : list event) : thread :=
  mkThread p (todo th) c r g (results th) (trace th ++ evs).

Definition th_done (th : thread) (rest : list N) (k : N) (res : result)
           (evs : list event) : thread :=
  mkThread PLock1 rest None 0%N Garbage ((k, res) :: results th) (trace th ++ evs).

Definition init_thread (keys : list N) : thread :=
  mkThread PLock1 keys None 0%N Garbage [] [].

Definition cur_entry (c : cache) (th : thread) : option entry :=
  match cur th with Some e => slot c e | None => None end.

Definition cur_id (th : thread) : N :=
  match cur th with Some e => N.of_nat e | None => 0%N end.

(** apply [f] to the entry [cur] points to; the flag says the handle was
    stale (no entry there any more) — a use after free in the source *)
Definition upd_cur (c : cache) (th : thread) (f : entry -> option entry)
  : cache * bool :=
  match cur th with
  | Some e => match slot c e with
              | Some ent => (set_nth c e (f ent), false)
              | None => (c, true)
              end
  | None => (c, true)
  end.

Section Model.

(** [false]: pinned source (the decrement in [cache_put_entry] runs without
    [cache_lock]); [true]: repaired source *)
Variable put_locked : bool.
(** the format's read_page for key [k], a pure function of the file *)
Variable fill : N -> option value.

(** One atomic step of thread [t] (record [th], current key [k], remaining
    keys [rest]) on cache [c] with lock holder [l].  Result: new cache, new
    lock holder, new thread record, "joined another thread's in-flight
    entry", "used a stale handle".  [None]: the step is not enabled (blocked
    on the mutex, or the eviction oracle is not admissible). *)
Definition tstep (t victim : nat) (c : cache) (l : option nat) (th : thread)
           (k : N) (rest : list N)
  : option (cache * option nat * thread * bool * bool) :=
  let stay := fun p evs => th_set th p (cur th) (reg th) (got th) evs in
  let acquire := fun p =>
    match l with
    | None => Some (c, Some t, stay p [EvLock CL], false, false)
    | Some _ => None
    end in
  match pc th with
  | PLock1 => acquire PGet
  | PGet =>
      match cache_get c k victim with
      | None => None
      | Some (c', oe, j) =>
          Some (c', l,
                th_set th PUnlock1 oe (reg th) (got th)
                       [EvGet CID (option_map N.of_nat oe)], j, false)
      end
  | PUnlock1 =>
      match cur th with
      | None => Some (c, None, th_done th rest k RBusy [EvUnlock CL], false, false)
      | Some _ => Some (c, None, stay PCheck [EvUnlock CL], false, false)
      end
  | PCheck =>                       (* cache_entry_valid(entry), no lock *)
      match cur_entry c th with
      | Some ent =>
          Some (c, l, stay (match st ent with Valid => PUse | InFlight => PBeginFill end) [],
                false, false)
      | None => Some (c, l, stay PBeginFill [], false, true)
      end
  | PBeginFill =>                   (* fn(pio) starts writing entry->data *)
      let '(c', stl) := upd_cur c th (fun ent => Some (set_buf ent Garbage)) in
      Some (c', l, stay PEndFill [], false, stl)
  | PEndFill =>                     (* fn(pio) returns *)
      match fill k with
      | Some v =>
          let '(c', stl) := upd_cur c th (fun ent => Some (set_buf ent (Filled v))) in
          Some (c', l, stay PLock2 [], false, stl)
      | None => Some (c, l, stay PLock2 [], false, false)
      end
  | PLock2 => acquire PInsDis
  | PInsDis =>
      match fill k with
      | Some _ =>
          let '(c', stl) := upd_cur c th do_insert in
          Some (c', l, stay PUnlock2 [EvInsert CID (cur_id th)], false, stl)
      | None =>
          let '(c', stl) := upd_cur c th do_discard in
          Some (c', l, stay PUnlock2 [EvDiscard CID (cur_id th)], false, stl)
      end
  | PUnlock2 =>
      match fill k with
      | Some _ => Some (c, None, stay PUse [EvUnlock CL], false, false)
      | None => Some (c, None, th_done th rest k RFail [EvUnlock CL], false, false)
      end
  | PUse =>                         (* memcpy from entry->data, no lock *)
      let nxt := if put_locked then PLock3 else PPutLoad in
      match cur_entry c th with
      | Some ent => Some (c, l, th_set th nxt (cur th) (reg th) (buf ent) [], false, false)
      | None => Some (c, l, th_set th nxt (cur th) (reg th) Garbage [], false, true)
      end
  | PPutLoad =>                     (* r := entry->refcnt, no lock *)
      match cur_entry c th with
      | Some ent => Some (c, l, th_set th PPutStore (cur th) (refcnt ent) (got th) [], false, false)
      | None => Some (c, l, th_set th PPutStore (cur th) 0%N (got th) [], false, true)
      end
  | PPutStore =>                    (* entry->refcnt := r - 1, no lock *)
      let '(c', stl) := upd_cur c th (fun ent => Some (set_refcnt ent (dec32 (reg th)))) in
      Some (c', l, th_done th rest k (RBytes (got th)) [EvPut CID (cur_id th)], false, stl)
  | PLock3 => acquire PPut
  | PPut =>
      let '(c', stl) := upd_cur c th do_put in
      Some (c', l, stay PUnlock3 [EvPut CID (cur_id th)], false, stl)
  | PUnlock3 =>
      Some (c, None, th_done th rest k (RBytes (got th)) [EvUnlock CL], false, false)
  end.

End Model.

(** * Per-thread acceptance automaton (extracted; used by the tie)

    Walks ONE thread's event list.  State: the multiset of mutexes held, the
    multiset of rwlock holds, the multiset of (cache, entry) references held.
    Reports the first violation:
    - [CacheOpWithoutLock kind cache]: a cache event while the thread does
      not hold [cache_lock] (kind 0 = get, 1 = insert, 2 = discard, 3 = put);
    - [InsertUnheld], [PutUnheld]: insert / put / discard of a reference the
      thread does not hold;
    - [UnlockUnheld l]: unlock of a lock the thread does not hold;
    - [LeftHeld]: at the end of the list locks or references are still held. *)

Inductive violation :=
| CacheOpWithoutLock (kind : N) (cch : N)
| InsertUnheld (cch : N) (ent : N)
| PutUnheld (cch : N) (ent : N)
| UnlockUnheld (l : N)
| LeftHeld.

Record astate := mkAstate {
  a_locks : list N; a_rw : list N; a_refs : list (N * N) }.

Inductive ares := AOk (a : astate) | ABad (v : violation).

Fixpoint remove_one_N (x : N) (l : list N) : option (list N) :=
  match l with
  | [] => None
  | y :: l' => if N.eqb x y then Some l'
               else option_map (cons y) (remove_one_N x l')
  end.

Definition ref_eqb (a b : N * N) : bool :=
  N.eqb (fst a) (fst b) && N.eqb (snd a) (snd b).

Fixpoint remove_one_ref (x : N * N) (l : list (N * N)) : option (list (N * N)) :=
  match l with
  | [] => None
  | y :: l' => if ref_eqb x y then Some l'
               else option_map (cons y) (remove_one_ref x l')
  end.

Definition KGET : N := 0.
Definition KINSERT : N := 1.
Definition KDISCARD : N := 2.
Definition KPUT : N := 3.

Definition auto_step (cache_lock : N) (a : astate) (ev : event) : ares :=
  let locked := existsb (N.eqb cache_lock) (a_locks a) in
  match ev with
  | EvLock l => AOk (mkAstate (l :: a_locks a) (a_rw a) (a_refs a))
  | EvUnlock l =>
      match remove_one_N l (a_locks a) with
      | Some ls => AOk (mkAstate ls (a_rw a) (a_refs a))
      | None => ABad (UnlockUnheld l)
      end
  | EvRdLock l | EvWrLock l => AOk (mkAstate (a_locks a) (l :: a_rw a) (a_refs a))
  | EvRwUnlock l =>
      match remove_one_N l (a_rw a) with
      | Some ls => AOk (mkAstate (a_locks a) ls (a_refs a))
      | None => ABad (UnlockUnheld l)
      end
  | EvGet cc oe =>
      if locked then
        AOk (mkAstate (a_locks a) (a_rw a)
                      (match oe with Some e => (cc, e) :: a_refs a | None => a_refs a end))
      else ABad (CacheOpWithoutLock KGET cc)
  | EvInsert cc e =>
      if locked then
        if existsb (ref_eqb (cc, e)) (a_refs a) then AOk a
        else ABad (InsertUnheld cc e)
      else ABad (CacheOpWithoutLock KINSERT cc)
  | EvDiscard cc e =>
      if locked then
        match remove_one_ref (cc, e) (a_refs a) with
        | Some rs => AOk (mkAstate (a_locks a) (a_rw a) rs)
        | None => ABad (PutUnheld cc e)
        end
      else ABad (CacheOpWithoutLock KDISCARD cc)
  | EvPut cc e =>
      if locked then
        match remove_one_ref (cc, e) (a_refs a) with
        | Some rs => AOk (mkAstate (a_locks a) (a_rw a) rs)
        | None => ABad (PutUnheld cc e)
        end
      else ABad (CacheOpWithoutLock KPUT cc)
  end.

Fixpoint auto_run (cache_lock : N) (a : astate) (evs : list event) : ares :=
  match evs with
  | [] => AOk a
  | ev :: evs' =>
      match auto_step cache_lock a ev with
      | AOk a' => auto_run cache_lock a' evs'
      | ABad v => ABad v
      end
  end.

Definition astate0 : astate := mkAstate [] [] [].

Definition thread_trace_ok (cache_lock : N) (evs : list event) : option violation :=
  match auto_run cache_lock astate0 evs with
  | ABad v => Some v
  | AOk a =>
      match a_locks a, a_rw a, a_refs a with
      | [], [], [] => None
      | _, _, _ => Some LeftHeld
      end
  end.
