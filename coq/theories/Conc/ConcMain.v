(** C05 — the main theorems assembled, and the concrete witnesses. *)
From Coq Require Import NArith List Bool Arith Lia.
From KdV Require Import Conc.Protocol Conc.Interleave Conc.ConcLemmas Conc.ConcInv
  Conc.ConcProofs Conc.ConcSafety Conc.ConcLock.
Import ListNotations.

(** what the property demands of a state: no use of a dangling handle, every
    completed read returned the right bytes / BUSY / the format's error, and
    once all threads have finished nothing is pinned or in flight *)
Definition safe_state (fill : N -> option value) (s : state) : Prop :=
  stale s = false /\
  (forall t th, nth_error (thr s) t = Some th -> Forall (result_ok fill) (results th)) /\
  (quiescent s = true -> all_unpinned (cch s) = true /\ no_inflight (cch s) = true).

(** * Theorem 3: the repaired protocol, schedules without a shared in-flight entry *)

Theorem safe_except_shared_inflight :
  forall (fill : N -> option value) (cap : nat) (progs : list (list N)) (sched : list choice),
    (N.of_nat (length progs) < M32)%N ->
    let s := run true fill sched (init cap progs) in
    joined s = false ->
    stale s = false /\
    (* (a) every completed read *)
    (forall t th k r, nth_error (thr s) t = Some th -> In (k, r) (results th) ->
       match r with
       | RBytes b => exists v, fill k = Some v /\ b = Filled v
       | RBusy => True
       | RFail => fill k = None
       end) /\
    (* (b) a GetEntry step from [s] that reports BUSY *)
    (forall t victim s', busy_step fill true t victim s s' ->
       cap <= inuse (cch s) /\ inuse (cch s) <= holding fill (thr s)) /\
    (* (c) references pin entries *)
    (forall e, slot_refcnt (cch s) e = N.of_nat (holders fill (thr s) e)) /\
    (forall t th e k rest,
       nth_error (thr s) t = Some th -> holds fill th = Some e -> todo th = k :: rest ->
       exists a, slot (cch s) e = Some a /\ key a = k /\
         (st a = Valid -> exists v, fill k = Some v /\ buf a = Filled v)) /\
    (* (d) quiescence *)
    (quiescent s = true -> all_unpinned (cch s) = true /\ no_inflight (cch s) = true).
Proof.
  intros fill cap progs sched Hsm s Hj.
  pose proof (inv_run fill cap progs sched Hsm Hj) as HI. fold s in HI.
  split; [exact (inv_stale fill _ HI)|].
  split; [intros t th k r; apply (inv_results fill s t th k r HI)|].
  split.
  { intros t victim s' Hb. split.
    - pose proof (busy_step_full fill _ _ _ _ _ Hb) as F.
      unfold s in F at 1. now rewrite length_cch_run in F.
    - exact (inuse_le_holding fill _ HI). }
  split; [exact (inv_ref fill _ HI)|].
  split; [intros t th e k rest; apply (inv_holder_view fill s t th e k rest HI)|].
  exact (inv_quiescent fill _ HI).
Qed.

Corollary safe_state_except_shared_inflight :
  forall fill cap progs sched,
    (N.of_nat (length progs) < M32)%N ->
    joined (run true fill sched (init cap progs)) = false ->
    safe_state fill (run true fill sched (init cap progs)).
Proof.
  intros fill cap progs sched Hsm Hj.
  pose proof (inv_run fill cap progs sched Hsm Hj) as HI.
  split; [exact (inv_stale fill _ HI)|]. split.
  - intros t th Ht. exact (proj1 (inv_thr fill _ HI _ _ Ht)).
  - exact (inv_quiescent fill _ HI).
Qed.

(** no step of one thread disturbs an entry another thread holds *)
Theorem held_entries_untouched :
  forall (fill : N -> option value) cap progs sched t victim s',
    (N.of_nat (length progs) < M32)%N ->
    let s := run true fill sched (init cap progs) in
    step true fill (t, victim) s = Some s' -> joined s' = false ->
    forall t' th' e, t' <> t -> nth_error (thr s) t' = Some th' ->
      holds fill th' = Some e -> vslot (cch s') e = vslot (cch s) e.
Proof.
  intros fill cap progs sched t victim s' Hsm s H Hj.
  assert (Hj0 : joined s = false) by (eapply joined_step; eauto).
  pose proof (inv_run fill cap progs sched Hsm Hj0) as HI.
  exact (step_untouched fill t victim s s' HI H Hj).
Qed.

(** * Theorem 4: nothing blocks except lock acquisition; progress *)

Theorem no_lost_wakeup :
  forall (pl : bool) (fill : N -> option value) cap progs sched,
    let s := run pl fill sched (init cap progs) in
    (forall t th, nth_error (thr s) t = Some th -> finished th = false ->
       (at_lock th = false -> enabled pl fill t s) /\
       (at_lock th = true -> (enabled pl fill t s <-> lck s = None))) /\
    (quiescent s = false -> exists t, enabled pl fill t s).
Proof.
  intros pl fill cap progs sched s. split.
  - intros t th Ht Hf. split; intros Ha.
    + eapply step_enabled_nonlock; eauto.
    + eapply step_enabled_lock; eauto.
  - apply progress_of_lock_inv, lock_inv_run.
Qed.

(** * Bookkeeping only under the lock (repaired protocol) *)

Theorem bookkeeping_under_lock :
  forall (fill : N -> option value) cap progs sched t victim s',
    let s := run true fill sched (init cap progs) in
    step true fill (t, victim) s = Some s' ->
    lck s = Some t \/ book (cch s') = book (cch s).
Proof.
  intros fill cap progs sched t victim s' s H.
  eapply step_book; [apply lock_inv_run|exact H].
Qed.

(** * Witnesses *)

Definition wfill (k : N) : option value :=
  if N.eqb k 9 then None else Some (k + 100)%N.

Definition T (t n : nat) : list choice := repeat (t, 0) n.

(** pinned source, lost update: T0 reads 5 up to PutLoad (r = 1); T1 hits the
    entry (refcnt 2); T0 PutStore (refcnt 0 although T1 holds it); T1
    finishes: its PutLoad reads 0 and its PutStore writes 2^32 - 1 *)
Definition sched_lost_update : list choice := T 0 11 ++ T 1 3 ++ T 0 1 ++ T 1 4.

Lemma lost_update_pins :
  let s := run false wfill sched_lost_update (init 2 [[5]; [5]]%N) in
  joined s = false /\ stale s = false /\ quiescent s = true /\
  map (slot_refcnt (cch s)) [0; 1] = [4294967295; 0]%N /\
  all_unpinned (cch s) = false.
Proof. vm_compute. repeat split. Qed.

(** pinned source, entry evicted while in use: as above, then T0 reads key 6
    with cap = 1 and reclaims the buffer T1 is about to copy from *)
Definition sched_evicted : list choice :=
  T 0 11 ++ T 1 3 ++ T 0 1 ++ T 1 1 ++ T 0 6 ++ T 1 1 ++ T 0 6 ++ T 1 2.

Lemma evicted_while_used :
  let s := run false wfill sched_evicted (init 1 [[5; 6]; [5]]%N) in
  joined s = false /\ stale s = false /\ quiescent s = true /\
  wfill 5 = Some 105%N /\
  map results (thr s) =
    [ [(6, RBytes (Filled 106)); (5, RBytes (Filled 105))];
      [(5, RBytes (Filled 106))] ]%N.
Proof. vm_compute. repeat split. Qed.

Lemma unsafe_pinned :
  exists fill cap progs sched,
    joined (run false fill sched (init cap progs)) = false /\
    ~ safe_state fill (run false fill sched (init cap progs)).
Proof.
  exists wfill, 2, [[5]; [5]]%N, sched_lost_update. split; [vm_compute; reflexivity|].
  intros (_ & _ & H). destruct lost_update_pins as (_ & _ & Hq & _ & Hp).
  specialize (H Hq). destruct H as [H _]. rewrite Hp in H. discriminate H.
Qed.

(** pinned source: the decrement changes the bookkeeping without the lock *)
Lemma bookkeeping_unlocked_pinned :
  exists fill cap progs sched t victim s',
    let s := run false fill sched (init cap progs) in
    step false fill (t, victim) s = Some s' /\ lck s = None /\
    book (cch s') <> book (cch s).
Proof.
  exists wfill, 2, [[5]]%N, (T 0 11), 0, 0.
  eexists. split; [vm_compute; reflexivity|]. split; [vm_compute; reflexivity|].
  vm_compute. discriminate.
Qed.

(** repaired put, defect #34: T1 joins T0's in-flight entry, sees it not
    valid, and starts its own fill after T0 has inserted: T0 copies garbage *)
Definition sched_shared_inflight : list choice :=
  T 0 3 ++ T 1 3 ++ T 1 1 ++ T 0 6 ++ T 1 1 ++ T 0 1 ++ T 0 3 ++ T 1 8.

Lemma shared_inflight_garbage :
  let s := run true wfill sched_shared_inflight (init 2 [[5]; [5]]%N) in
  joined s = true /\ stale s = false /\ quiescent s = true /\
  wfill 5 = Some 105%N /\
  map results (thr s) = [ [(5, RBytes Garbage)]; [(5, RBytes (Filled 105))] ]%N.
Proof. vm_compute. repeat split. Qed.

Lemma unsafe_shared_inflight :
  exists fill cap progs sched,
    ~ safe_state fill (run true fill sched (init cap progs)).
Proof.
  exists wfill, 2, [[5]; [5]]%N, sched_shared_inflight.
  intros (_ & H & _).
  set (s := run true wfill sched_shared_inflight (init 2 [[5]; [5]]%N)) in *.
  destruct (nth_error (thr s) 0) as [th|] eqn:Hn; [|vm_compute in Hn; discriminate Hn].
  specialize (H 0 th Hn). vm_compute in Hn. inversion Hn; subst th; clear Hn.
  cbn [results] in H. inversion H as [|x l Hx Hl]; subst.
  destruct Hx as (v & _ & Hv). discriminate Hv.
Qed.

(** repaired put, a fill failing while another thread has joined the same
    in-flight entry: both report the error, the entry is removed by the last
    discard, nothing stays pinned *)
Lemma joined_failing_fill :
  let s := run true wfill (T 0 3 ++ T 1 3 ++ T 0 6 ++ T 1 6) (init 2 [[9]; [9]]%N) in
  joined s = true /\ stale s = false /\ quiescent s = true /\
  cch s = [None; None] /\
  map results (thr s) = [ [(9, RFail)]; [(9, RFail)] ]%N.
Proof. vm_compute. repeat split. Qed.

(** non-vacuity: 3 threads, 2 slots: T0 and T1 pin both slots, T2 is refused
    (BUSY); T0 then reads key 9 whose fill fails (reclaiming the buffer of
    key 5, then discarding); T1 then misses on key 5 again — a second,
    sequential miss on the same key, not joined.  All traces are accepted. *)
Definition sched_nonvacuous : list choice :=
  T 0 3 ++ T 1 3 ++ T 2 3 ++ T 0 10 ++ T 1 10 ++ T 0 9 ++ T 1 13.

Lemma nonvacuous :
  let s := run true wfill sched_nonvacuous (init 2 [[5; 9]; [6; 5]; [7]]%N) in
  joined s = false /\ stale s = false /\ quiescent s = true /\
  all_unpinned (cch s) = true /\ no_inflight (cch s) = true /\
  map results (thr s) =
    [ [(9, RFail); (5, RBytes (Filled 105))];
      [(5, RBytes (Filled 105)); (6, RBytes (Filled 106))];
      [(7, RBusy)] ]%N /\
  map (fun th => thread_trace_ok CL (trace th)) (thr s) = [None; None; None].
Proof. vm_compute. repeat split. Qed.

(** the pinned put is rejected by the automaton: the decrement is a cache
    operation outside the lock *)
Lemma pinned_trace_rejected :
  let s := run false wfill (T 0 12) (init 2 [[5]]%N) in
  quiescent s = true /\
  map (fun th => thread_trace_ok CL (trace th)) (thr s) = [Some (CacheOpWithoutLock KPUT CID)].
Proof. vm_compute. repeat split. Qed.
