(** C06 — placeholder while the tie is brought up; replaced by the real statements. *)
From Coq Require Import NArith List Bool.
From KdV Require Import Cache.CacheList Cache.CacheSpec.
Import ListNotations.

Example C06_nonvacuous : invb (init 2) = true.
Proof. vm_compute; reflexivity. Qed.
