(** C06 — the page cache never loses, duplicates or recycles a buffer that is
    in use.  Statements only; every proof is [exact <lemma>].

    Model: [Cache/CacheList.v] (list level, [fixed = true]: cache.c with
    fixes/01-cache-reclaim-keeps-buffers-contiguous.patch).  Spec:
    [Cache/CacheSpec.v] ([Inv], [step_ok]).  Histories are sequences of
    [Get k | Insert e | Discard e | Put e | Flush] that follow the client
    protocol ([legal]: insert/discard through a pending handle, put through
    a plain handle, flush with no handle outstanding).  No bound on capacity,
    keys, number of handles or length of the history. *)
From Coq Require Import NArith List Bool Arith Permutation.
From KdV Require Import Cache.CacheList Cache.CacheSpec Cache.CacheMain Cache.CacheJudge
  Cache.CacheRing Cache.RingLinked Cache.RingRefines.
Import ListNotations.

(** a fresh cache of any positive capacity satisfies the invariant *)
Theorem C06_init_invariant : forall c, 0 < c -> Inv (init c).
Proof. exact init_Inv. Qed.
Print Assumptions C06_init_invariant.

(** every legal operation on a state satisfying the invariant succeeds (no
    [Fault]: no unset [cache_search] member is used, no NULL buffer is handed
    out, no reference count underflows), re-establishes the invariant and
    meets the per-operation specification *)
Theorem C06_step : forall s o, Inv s -> legal s o ->
  exists s' r ev, step true s o = Ok (s', r, ev) /\ Inv s' /\ step_ok s o r ev s'.
Proof. exact step_sound. Qed.
Print Assumptions C06_step.

(** ... hence along every legal history from every state satisfying the
    invariant (induction over the operation list): the run ends in a state
    satisfying the invariant, and every step of its trace started legally in
    an invariant state, ended in one, and met [step_ok] *)
Theorem C06_all_histories : forall ops s, Inv s -> legal_hist true s ops ->
  (exists s', run true s ops = Ok s' /\ Inv s') /\
  Forall (fun x => match x with
                   | (s0, o, Ok (s1, r, ev)) =>
                       Inv s0 /\ legal s0 o /\ Inv s1 /\ step_ok s0 o r ev s1
                   | (_, _, Fault _) => False
                   end) (trace true s ops).
Proof. exact history_sound. Qed.
Print Assumptions C06_all_histories.

(** no [Undef] (or any other fault of the model) is reachable from a fresh cache *)
Theorem C06_no_undef : forall c ops, 0 < c -> legal_hist true (init c) ops ->
  forall f, run true (init c) ops <> Fault f.
Proof. exact no_fault. Qed.
Print Assumptions C06_no_undef.

(** "keeps exactly [capacity] data buffers, hands each buffer to at most one
    key at a time": the entries owning a buffer are the cached and in-flight
    entries plus the last free unused entries, exactly [cap] of them, without
    repetition; every buffer index below [cap] is owned by exactly one entry *)
Theorem C06_buffers_conserved : forall s, Inv s ->
  exists em fu, unused s = em ++ fu /\
    let owners := cached s ++ fu in
    NoDup owners /\ length owners = cap s /\
    (forall e, In e owners <-> data s e <> None) /\
    (forall t, t < cap s -> exists e, In e owners /\ data s e = Some t /\
                                      forall e', data s e' = Some t -> e' = e) /\
    (forall e t, data s e = Some t -> t < cap s).
Proof. exact buffers_conserved. Qed.
Print Assumptions C06_buffers_conserved.

(** "never evicts or rewrites an entry while a caller still holds a reference
    to it": an entry that is referenced before and after a step keeps its
    key and its buffer, stays cached or in flight, a committed one stays
    committed with the same buffer contents; whatever is passed to the
    cleanup callback (evicted) had reference count zero *)
Theorem C06_no_evict_while_referenced : forall s o s' r ev,
  Inv s -> legal s o -> step true s o = Ok (s', r, ev) ->
  keeps_referenced s s' /\ (forall v n, In (v, n) ev -> n = 0 /\ ref s v = 0).
Proof. exact no_evict_while_referenced. Qed.
Print Assumptions C06_no_evict_while_referenced.

(** "returns on a hit the data that was inserted for that key": the entry
    returned as valid was cached for exactly this key, still has the buffer
    it was committed with, and that buffer holds the data inserted for the key *)
Theorem C06_hit_returns_inserted : forall s k s' e ev,
  Inv s -> step true s (Get k) = Ok (s', REntry e true, ev) ->
  In e (prec s ++ probe s) /\ key s e = k /\ key s' e = k /\ data s' e = data s e /\
  exists t, data s' e = Some t /\ content s' t = Some k /\ content s t = Some k.
Proof. exact hit_returns_inserted. Qed.
Print Assumptions C06_hit_returns_inserted.

(** what [content t = Some k] means: in either variant of the model the
    ghost changes only when a caller commits a filled buffer (to the entry's
    key) or is handed the buffer for filling (to "unknown") *)
Theorem C06_content_provenance : forall f s o s' r ev, step f s o = Ok (s', r, ev) ->
  forall t, content s' t = content s t \/
    (exists e, o = Insert e /\ data s e = Some t /\ content s' t = Some (key s e)) \/
    (exists k e, o = Get k /\ r = REntry e false /\ data s' e = Some t /\ content s' t = None).
Proof. exact content_changes. Qed.
Print Assumptions C06_content_provenance.

(** a lookup that returns a non-valid entry hands out an in-flight entry for
    the key with a buffer that no referenced entry owned *)
Theorem C06_miss_buffer_exclusive : forall s k s' e ev,
  Inv s -> step true s (Get k) = Ok (s', REntry e false, ev) ->
  In e (infl s') /\ key s' e = k /\
  exists t, data s' e = Some t /\ forall x, data s x = Some t -> x = e \/ ref s x = 0.
Proof. exact miss_buffer_exclusive. Qed.
Print Assumptions C06_miss_buffer_exclusive.

(** "refuses a lookup (busy) only when every buffer is referenced or being
    filled" (in-flight entries are referenced by their fillers, [I_infl_ref]);
    a refused lookup changes nothing; a cached or in-flight key is never refused *)
Theorem C06_busy_only_when_full : forall s k s' ev,
  Inv s -> step true s (Get k) = Ok (s', RBusy, ev) ->
  same_cache s s' /\ all_buffers_busy s /\ forall e, In e (cached s) -> key s e <> k.
Proof. exact busy_only_when_full. Qed.
Print Assumptions C06_busy_only_when_full.

(** ... and conversely, for a key that is neither cached nor in flight the
    lookup is refused exactly when every buffer is referenced *)
Theorem C06_busy_iff_full : forall s k, Inv s -> (forall e, In e (cached s) -> key s e <> k) ->
  (do_get true s k = Ok (s, RBusy, []) <-> all_buffers_busy s) /\
  (forall s' ev, do_get true s k = Ok (s', RBusy, ev) -> all_buffers_busy s).
Proof. exact busy_iff. Qed.
Print Assumptions C06_busy_iff_full.

(** "its partition counters always add up" (list level; the pointer level is
    [C06_ring_wellformed] below): the five partition sizes are the ring
    length, ring + in-flight list are the [2*cap] entries, cached + in-flight
    entries never exceed the capacity, ring and in-flight list are
    duplicate-free, disjoint and contain exactly the entries [0 .. 2*cap-1] *)
Theorem C06_counters_add_up : forall s, Inv s ->
  length (prec s) + length (gprec s) + length (unused s) + length (gprobe s) +
    length (probe s) = length (ring s) /\
  length (ring s) + length (infl s) = 2 * cap s /\
  length (prec s) + length (probe s) + length (infl s) <= cap s /\
  NoDup (ring s ++ infl s) /\
  (forall e, In e (ring s ++ infl s) <-> e < 2 * cap s).
Proof. exact counters_add_up. Qed.
Print Assumptions C06_counters_add_up.

(** Pointer level.  [CacheRing.v] transcribes cache.c over the [next]/[prev]
    members, [split], the four counters and the in-flight head (every helper:
    add_entry_after/before, remove_entry, add_inflight, reuse_cached_entry,
    evict_probe/prec, reclaim_data with the repaired walk, get_missed_entry,
    get_ghost_or_missed_entry, cache_insert, cache_discard, cache_flush,
    cache_alloc).  [R r s]: the main ring of [r], read in next order so that
    [split] comes last, is [prec s ++ gprec s ++ unused s ++ rev (gprobe s) ++
    rev (probe s)], both rings are well-formed circular doubly linked lists
    ([linked]) over disjoint entries, the counters are the partition lengths,
    the in-flight ring read from [inflight] is [infl s], everything else agrees.

    Simulation: from related states every legal operation succeeds on both
    levels with the same result and the same cleanup calls, and ends in
    related states (and the list-level invariant holds again). *)
Theorem C06_ring_refines_lists : forall r s o, R r s -> Inv s -> legal s o ->
  exists s' r' x ev, step true s o = Ok (s', x, ev) /\ rstep r o = ROk (r', x, ev) /\
                     R r' s' /\ Inv s'.
Proof. exact ring_refines. Qed.
Print Assumptions C06_ring_refines_lists.

Theorem C06_ring_refines_histories : forall ops r s, R r s -> Inv s -> legal_hist true s ops ->
  exists r' s', rrun r ops = ROk r' /\ run true s ops = Ok s' /\ R r' s' /\ Inv s'.
Proof. exact ring_refines_history. Qed.
Print Assumptions C06_ring_refines_histories.

(** the relation [R] is the abstraction function "walk next from
    ce[split].next: nprec entries = prec, then ngprec = gprec, then the unused
    ones, then ngprobe (reversed) = gprobe, then nprobe (reversed) = probe;
    walk next from inflight: ninflight entries = infl" *)
Theorem C06_ring_abstraction : forall r s, R r s -> Inv s ->
  abs_lists r = (prec s, gprec s, unused s, gprobe s, probe s, infl s).
Proof. exact R_abs. Qed.
Print Assumptions C06_ring_abstraction.

(** "its circular list stays well-formed", for every legal history from a
    fresh cache, at pointer level: the pointer-level run succeeds (no unset
    cache_search member, no counter underflow), its final state represents
    the list-level final state, and ([ring_wf]) the entries reached from
    ce[split].next form a well-formed circular doubly linked list ending in
    [split], the entries reached from [inflight] another one, the two are
    disjoint and together are exactly the [2*cap] entries, and the counters
    fit: nprec+ngprec+nprobe+ngprobe <= ring length = 2*cap - ninflight,
    nprec+nprobe+ninflight <= cap *)
Theorem C06_ring_wellformed : forall c ops, 0 < c -> legal_hist true (init c) ops ->
  exists r' s', rrun (rinit c) ops = ROk r' /\ run true (init c) ops = Ok s' /\
                R r' s' /\ Inv s' /\ ring_wf r' /\
                abs_lists r' = (prec s', gprec s', unused s', gprobe s', probe s', infl s').
Proof. exact ring_wellformed_history. Qed.
Print Assumptions C06_ring_wellformed.

(** re-sizing (def_realloc_caches behind the cache.size and page-size
    attribute hooks: cache_alloc of a new cache, cache_free of the old one):
    both levels hand the same cached entries to the cleanup callback, all
    unreferenced when no handle is outstanding, and start again from a fresh,
    related, invariant state; so [C06_all_histories] / [C06_ring_refines_histories]
    apply to every segment of a history with re-sizes *)
Theorem C06_realloc : forall r s c, R r s -> Inv s -> 0 < c ->
  snd (r_do_realloc r c) = snd (do_realloc s c) /\
  R (fst (r_do_realloc r c)) (fst (do_realloc s c)) /\ Inv (fst (do_realloc s c)) /\
  (forall v n, pend s = [] -> plain s = [] -> In (v, n) (snd (do_realloc s c)) -> n = 0).
Proof. exact realloc_refines. Qed.
Print Assumptions C06_realloc.

(** what [linked] says pointwise: on the elements of a well-formed ring
    [next] and [prev] are inverse bijections, and following [next] from any
    element visits every element exactly once and comes back (one cycle) *)
Theorem C06_linked_inverse_one_cycle : forall nx pv l x, linked nx pv l -> In x l ->
  (pv (nx x) = x /\ nx (pv x) = x /\ In (nx x) l /\ In (pv x) l) /\
  (exists l1 l2, l = l1 ++ x :: l2 /\
     walk nx (length l) x = x :: l2 ++ l1 /\ chase nx (length l) x = x).
Proof. exact (fun nx pv l x H Hi => conj (linked_inverse nx pv l x H Hi) (linked_one_cycle nx pv l x H Hi)). Qed.
Print Assumptions C06_linked_inverse_one_cycle.

(** the three pointer primitives on their own: on a well-formed ring they
    perform exactly the list edits (remove / insert next to) *)
Theorem C06_ring_primitives : forall nx pv l1 x l2,
  linked nx pv (l1 ++ x :: l2) ->
  (l1 ++ l2 <> [] ->
   linked (fst (remove_entry nx pv x)) (snd (remove_entry nx pv x)) (l1 ++ l2)) /\
  (forall e, ~ In e (l1 ++ x :: l2) ->
   linked (fst (add_entry_after nx pv e x)) (snd (add_entry_after nx pv e x))
          (l1 ++ x :: e :: l2) /\
   linked (fst (add_entry_before nx pv e x)) (snd (add_entry_before nx pv e x))
          (l1 ++ e :: x :: l2)).
Proof.
  exact (fun nx pv l1 x l2 H =>
    conj (remove_entry_linked nx pv l1 x l2 H)
         (fun e Hn => conj (add_entry_after_linked nx pv l1 x l2 e H Hn)
                           (add_entry_before_linked nx pv l1 x l2 e H Hn))).
Qed.
Print Assumptions C06_ring_primitives.

(** the pinned (unrepaired) reclaim_data does not satisfy the property: two
    legal histories at capacity 2 on which the faithful model of the pinned
    code uses [cs.zprec] unset / hands out a NULL buffer (both replayed on
    the real library: DESIGN.md section 10 item 27) *)
Theorem C06_pinned_code_refuted :
  (legal_hist false (init 2) pinned_hist_undef /\
   run false (init 2) pinned_hist_undef = Fault UnsetZprec) /\
  (legal_hist false (init 2) pinned_hist_null /\
   run false (init 2) pinned_hist_null = Fault NullBuffer).
Proof. split; [exact pinned_undef|exact pinned_null]. Qed.
Print Assumptions C06_pinned_code_refuted.

(** the executable judge applied to the implementation's state dumps cannot
    raise a false alarm *)
Theorem C06_judge_sound_state : forall s, Inv s -> invb s = true.
Proof. exact invb_sound. Qed.
Print Assumptions C06_judge_sound_state.

Theorem C06_judge_sound_step : forall s o r ev s',
  Inv s -> step_ok s o r ev s' -> step_okb s o r ev s' = true.
Proof. exact step_okb_sound. Qed.
Print Assumptions C06_judge_sound_step.

(** ... and misses nothing: on a state whose per-entry fields are trivial
    outside the entry array (every dump is), passing all clauses implies [Inv] *)
Theorem C06_judge_complete_state : forall s, scoped s -> invb s = true -> Inv s.
Proof. exact invb_complete. Qed.
Print Assumptions C06_judge_complete_state.

Theorem C06_judge_complete_step : forall s o r ev s',
  scoped s -> frame_outside s s' -> step_okb s o r ev s' = true -> step_ok s o r ev s'.
Proof. exact step_okb_complete. Qed.
Print Assumptions C06_judge_complete_step.

(** non-vacuity: the two witness histories are legal for the repaired code
    as well and run to completion (with evictions, ghost hits, a discard and
    shared in-flight use of buffers on the way) *)
Example C06_nonvacuous :
  Inv (init 2) /\
  legal_hist true (init 2) pinned_hist_undef /\ legal_hist true (init 2) pinned_hist_null /\
  runs_ok (run true (init 2) pinned_hist_undef) /\ runs_ok (run true (init 2) pinned_hist_null).
Proof.
  split; [exact (init_Inv 2 (le_S 1 1 (le_n 1)))|].
  split; [vm_compute; tauto|]. split; [vm_compute; tauto|]. exact repaired_on_witnesses.
Qed.
