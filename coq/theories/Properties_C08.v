(** C08 — OS-level translation shortcuts never contradict the page tables.
    Statements only; every proof is [exact <lemma>].

    Models: Sys/LayoutModel.v (sys.c layout tables and actions), Sys/ScanModel.v
    (step.c scanning primitives), over Map/MapModel.v (C10) and Xlat/Step.v (C02). *)
From Coq Require Import NArith ZArith List Bool Lia.
From KdV Require Import Base.Wrap64 Map.MapModel Map.MapSpec Xlat.Step Xlat.ArchSpec
  Sys.LayoutModel Sys.LayoutSpec Sys.LayoutProofs.
Import ListNotations.
Local Open Scope N_scope.

(** * Layout tables *)

(** [SYS_ACT_DIRECT] on a region [first, last] (for every translation system
    state, every region that lies inside the address space and uses the direct
    method; [-INT64_MIN] is excluded): the direct method is linear with some
    offset [d], the reverse direct method linear with [-d]; they are inverse
    bijections mod 2^64, the direct one maps [first, last] onto
    [0, last - first] and the reverse one maps it back. *)
Theorem C08_direct_rdirect_inverse : forall s r s',
  wf_sys s -> wf_region r -> r_meth r = METH_DIRECT -> r_first r <> 2^63 ->
  act_direct s r = (L_OK, s') ->
  exists d, sm (get_meth s' METH_DIRECT) = {| m_kind := KLinear d; m_target := KPHYSADDR |} /\
            sm (get_meth s' METH_RDIRECT) = {| m_kind := KLinear (- d)%Z; m_target := KVADDR |} /\
    (forall p, p < 2^64 -> lin d (lin (- d) p) = p) /\
    (forall v, v < 2^64 -> lin (- d) (lin d v) = v) /\
    (forall v, r_first r <= v <= r_last r -> lin d v = v - r_first r /\ lin d v <= r_last r - r_first r) /\
    (forall p, p <= r_last r - r_first r ->
               lin (- d) p = r_first r + p /\ r_first r <= lin (- d) p <= r_last r).
Proof. exact direct_rdirect_inverse. Qed.
Print Assumptions C08_direct_rdirect_inverse.

(** ... it succeeds, and the KPHYS -> DIRECT map sends exactly [0, last - first]
    to the reverse direct method *)
Theorem C08_act_direct_maps : forall s r,
  wf_sys s -> wf_region r -> r_meth r = METH_DIRECT -> r_first r <> 2^63 ->
  exists s', act_direct s r = (L_OK, s') /\ wf_sys s' /\
    get_meth s' METH_DIRECT = mk_linear KPHYSADDR (neg_u64 (r_first r)) /\
    get_meth s' METH_RDIRECT = mk_linear KVADDR (- neg_u64 (r_first r))%Z /\
    (forall j, j <> METH_DIRECT -> j <> METH_RDIRECT -> get_meth s' j = get_meth s j) /\
    (forall k, k <> MAP_KPHYS_DIRECT -> get_map s' k = get_map s k) /\
    (forall x, mdenote (get_map s' MAP_KPHYS_DIRECT) x =
               if x <=? r_last r - r_first r then Z.of_nat METH_RDIRECT
               else mdenote (get_map s MAP_KPHYS_DIRECT) x).
Proof. exact act_direct_spec. Qed.
Print Assumptions C08_act_direct_maps.

(** [sys_set_layout] sends exactly the regions of the table to their methods
    (a later region overrides an earlier one), leaves every address outside
    them as it was, and leaves the other maps alone (the KPHYS -> DIRECT map is
    the business of the direct regions, see above); by C10's [set_pointwise] *)
Theorem C08_set_layout_regions : forall idx, idx <> MAP_KPHYS_DIRECT ->
  forall layout s, wf_sys s -> Forall plain_region layout ->
  exists s', sys_set_layout s idx layout = (L_OK, s') /\ wf_sys s' /\
    (forall x, mdenote (get_map s' idx) x = layout_denote (mdenote (get_map s idx)) layout x) /\
    (forall k, k <> idx -> k <> MAP_KPHYS_DIRECT -> get_map s' k = get_map s k).
Proof. exact sys_set_layout_denote. Qed.
Print Assumptions C08_set_layout_regions.

(** the hypotheses are satisfiable: the x86-64 Linux 2.6.31 direct mapping *)
Example C08_nonvacuous_layout :
  let r := {| r_first := 0xffff880000000000; r_last := 0xffffc7ffffffffff;
              r_meth := METH_DIRECT; r_act := ACT_DIRECT |} in
  wf_sys sys_new /\ plain_region r /\
  exists s', sys_set_layout sys_new MAP_KV_PHYS [r] = (L_OK, s') /\
    lin_off (get_meth s' METH_DIRECT) = 0x780000000000%Z /\
    lin_off (get_meth s' METH_RDIRECT) = (- 0x780000000000)%Z /\
    mdenote (get_map s' MAP_KV_PHYS) 0xffff880000001000 = Z.of_nat METH_DIRECT /\
    mdenote (get_map s' MAP_KPHYS_DIRECT) 0x3fffffffffff = Z.of_nat METH_RDIRECT /\
    mdenote (get_map s' MAP_KPHYS_DIRECT) 0x400000000000 = NONE.
Proof.
  split; [exact wf_sys_new|]. split.
  - repeat split; cbn; try lia; try discriminate. unfold METH_DIRECT, METH_NUM. lia.
  - eexists. split; [vm_compute; reflexivity|]. vm_compute. repeat split.
Qed.
