(** C08 — OS-level translation shortcuts never contradict the page tables.
    Statements only; every proof is [exact <lemma>].

    Models: Sys/LayoutModel.v (sys.c layout tables and actions), Sys/ScanModel.v
    (step.c scanning primitives), over Map/MapModel.v (C10) and Xlat/Step.v (C02). *)
From Coq Require Import NArith ZArith List Bool Lia.
From KdV Require Import Base.Wrap64 Map.MapModel Map.MapSpec Xlat.Step Xlat.ArchSpec
  Sys.LayoutModel Sys.LayoutSpec Sys.LayoutProofs Sys.LayoutArchModel Sys.LayoutArchProofs Sys.ReinitProofs Sys.ScanModel Sys.ScanProofs Sys.LinuxX86Model Sys.LinuxX86Proofs Sys.LinuxX86Region Sys.LinuxRvA64Model Sys.LinuxRvA64Proofs Sys.LinuxRvA64Region Xlat.FmtRiscvPfn Xlat.WalkProofs Xlat.FmtX86 Xlat.FmtA64.
Import ListNotations.
Local Open Scope N_scope.

(** * Layout tables *)

(** [SYS_ACT_DIRECT] on a region [first, last] (for every translation system
    state, every region that lies inside the address space and uses the direct
    method; [-INT64_MIN] is excluded): the direct method is linear with some
    offset [d], the reverse direct method linear with [-d]; they are inverse
    bijections mod 2^64, the direct one maps [first, last] onto
    [0, last - first] and the reverse one maps it back. *)
Theorem C08_direct_rdirect_inverse : forall s r s',
  wf_sys s -> wf_region r -> r_meth r = METH_DIRECT -> r_first r <> 2^63 ->
  act_direct s r = (L_OK, s') ->
  exists d, sm (get_meth s' METH_DIRECT) = {| m_kind := KLinear d; m_target := KPHYSADDR |} /\
            sm (get_meth s' METH_RDIRECT) = {| m_kind := KLinear (- d)%Z; m_target := KVADDR |} /\
    (forall p, p < 2^64 -> lin d (lin (- d) p) = p) /\
    (forall v, v < 2^64 -> lin (- d) (lin d v) = v) /\
    (forall v, r_first r <= v <= r_last r -> lin d v = v - r_first r /\ lin d v <= r_last r - r_first r) /\
    (forall p, p <= r_last r - r_first r ->
               lin (- d) p = r_first r + p /\ r_first r <= lin (- d) p <= r_last r).
Proof. exact direct_rdirect_inverse. Qed.
Print Assumptions C08_direct_rdirect_inverse.

(** ... it succeeds, and the KPHYS -> DIRECT map sends exactly [0, last - first]
    to the reverse direct method *)
Theorem C08_act_direct_maps : forall s r,
  wf_sys s -> wf_region r -> r_meth r = METH_DIRECT -> r_first r <> 2^63 ->
  exists s', act_direct s r = (L_OK, s') /\ wf_sys s' /\
    get_meth s' METH_DIRECT = mk_linear KPHYSADDR (neg_u64 (r_first r)) /\
    get_meth s' METH_RDIRECT = mk_linear KVADDR (- neg_u64 (r_first r))%Z /\
    (forall j, j <> METH_DIRECT -> j <> METH_RDIRECT -> get_meth s' j = get_meth s j) /\
    (forall k, k <> MAP_KPHYS_DIRECT -> get_map s' k = get_map s k) /\
    (forall x, mdenote (get_map s' MAP_KPHYS_DIRECT) x =
               if x <=? r_last r - r_first r then Z.of_nat METH_RDIRECT
               else mdenote (get_map s MAP_KPHYS_DIRECT) x).
Proof. exact act_direct_spec. Qed.
Print Assumptions C08_act_direct_maps.

(** [sys_set_layout] sends exactly the regions of the table to their methods
    (a later region overrides an earlier one), leaves every address outside
    them as it was, and leaves the other maps alone (the KPHYS -> DIRECT map is
    the business of the direct regions, see above); by C10's [set_pointwise] *)
Theorem C08_set_layout_regions : forall idx, idx <> MAP_KPHYS_DIRECT ->
  forall layout s, wf_sys s -> Forall plain_region layout ->
  exists s', sys_set_layout s idx layout = (L_OK, s') /\ wf_sys s' /\
    (forall x, mdenote (get_map s' idx) x = layout_denote (mdenote (get_map s idx)) layout x) /\
    (forall k, k <> idx -> k <> MAP_KPHYS_DIRECT -> get_map s' k = get_map s k).
Proof. exact sys_set_layout_denote. Qed.
Print Assumptions C08_set_layout_regions.

(** * Other architectures, layout level (partial: the decisions that feed these
      layouts — scans, symbol look-ups — are covered by the property-level tie only)

    ia32 Linux with VMALLOC_START = [vs] found through vmap_area_list / vmlist:
    after the temporary layout, the final map and [set_linux_directmap], the
    forward map sends exactly [0xc0000000, vs - 1] to the direct method, the rest
    below 4G to the page tables; the reverse map accepts exactly
    [0, vs - 1 - 0xc0000000] *)
Theorem C08_ia32_layout_partial : forall s vs,
  wf_sys s -> get_map s MAP_KPHYS_DIRECT = None ->
  IA32_LINUX_DIRECTMAP < vs -> vs <= 2^32 ->
  exists s', ia32_linux_maps s (Some vs) = (L_OK, s') /\
    get_meth s' METH_DIRECT = mk_linear KPHYSADDR (neg_u64 IA32_LINUX_DIRECTMAP) /\
    get_meth s' METH_RDIRECT = mk_linear KVADDR (- neg_u64 IA32_LINUX_DIRECTMAP)%Z /\
    (forall x, mdenote (get_map s' MAP_KV_PHYS) x = ia32_fwd_spec vs x) /\
    (forall p, mdenote (get_map s' MAP_KPHYS_DIRECT) p = ia32_rev_spec vs p).
Proof. exact ia32_layout. Qed.
Print Assumptions C08_ia32_layout_partial.

(** ... i.e. the reverse map's domain is exactly the image of the forward
    direct region under the direct method *)
Theorem C08_ia32_reverse_domain_is_image_partial : forall vs,
  IA32_LINUX_DIRECTMAP < vs -> vs <= 2^32 ->
  forall p, ia32_rev_spec vs p = Z.of_nat METH_RDIRECT <->
            exists v, ia32_fwd_spec vs v = Z.of_nat METH_DIRECT /\ lin (neg_u64 IA32_LINUX_DIRECTMAP) v = p.
Proof. exact ia32_rev_is_image. Qed.
Print Assumptions C08_ia32_reverse_domain_is_image_partial.

(** without the vmalloc symbols this fails (known finding C08-ia32-rdirect-untrimmed):
    the reverse map accepts a physical address although the forward map has no
    direct region at all *)
Theorem C08_ia32_layout_nosym_refuted :
  exists s', ia32_linux_maps sys_new None = (L_OK, s') /\
    exists p, mdenote (get_map s' MAP_KPHYS_DIRECT) p = Z.of_nat METH_RDIRECT /\
              forall v, mdenote (get_map s' MAP_KV_PHYS) v <> Z.of_nat METH_DIRECT.
Proof. exact ia32_layout_nosym_refuted. Qed.
Print Assumptions C08_ia32_layout_nosym_refuted.

(** arm [map_direct] = the tail of riscv64 / aarch64 [add_linux_linear_map]:
    a region [first, last] with virtual-to-physical offset [off] whose image
    does not wrap: forward region -> direct (linear [off]), its image
    [first + off, last + off] -> reverse direct (linear [-off]); the two are
    inverse, the reverse region is exactly the image of the forward one *)
Theorem C08_linear_directmap_layout_partial : forall s first last off,
  wf_sys s -> first <= last -> last < 2^64 ->
  (0 <= Z.of_N first + off)%Z -> (Z.of_N last + off < 2^64)%Z ->
  (- 2^63 < off < 2^63)%Z ->
  exists s', map_direct s first last off = (L_OK, s') /\
    get_meth s' METH_DIRECT = mk_linear KPHYSADDR off /\
    get_meth s' METH_RDIRECT = mk_linear KVADDR (- off)%Z /\
    (forall x, mdenote (get_map s' MAP_KV_PHYS) x =
               if (first <=? x) && (x <=? last) then Z.of_nat METH_DIRECT else mdenote (get_map s MAP_KV_PHYS) x) /\
    (forall p, mdenote (get_map s' MAP_KPHYS_DIRECT) p =
               if (lin off first <=? p) && (p <=? lin off last) then Z.of_nat METH_RDIRECT
               else mdenote (get_map s MAP_KPHYS_DIRECT) p) /\
    (forall v, first <= v <= last -> lin off first <= lin off v <= lin off last /\ lin (- off) (lin off v) = v) /\
    (forall p, lin off first <= p <= lin off last -> first <= lin (- off) p <= last /\ lin off (lin (- off) p) = p).
Proof. exact map_direct_layout. Qed.
Print Assumptions C08_linear_directmap_layout_partial.

(** * Re-initialisation of a used translation system

    [addrxlat_sys_os_init] calls [sys_cleanup], which drops the maps but KEEPS
    [sys->meth[]].  Partial: proved for [sys_set_physmaps] (every [sys_<arch>]
    calls it; [act_ident_kphys] / [act_ident_machphys] reset their methods
    unconditionally): on a cleaned-up used system it gives the same status, the
    same five maps and the same MACHPHYS <-> KPHYS methods as on a fresh one.
    For whole initialisations the models start from a fresh system; that the
    library's result on a used object (histories Xen PV -> bare metal -> Xen PV
    -> ...) equals the model's on a fresh one is checked by the [os] tie. *)
Theorem C08_reinit_physmaps_equals_fresh_partial : forall s mx,
  length (meths s) = METH_NUM ->
  let a := sys_set_physmaps (sys_cleanup s) mx in
  let b := sys_set_physmaps sys_new mx in
  fst a = fst b /\ (forall k, get_map (snd a) k = get_map (snd b) k) /\
  (fst a = L_OK ->
   get_meth (snd a) METH_MACHPHYS_KPHYS = get_meth (snd b) METH_MACHPHYS_KPHYS /\
   get_meth (snd a) METH_KPHYS_MACHPHYS = get_meth (snd b) METH_KPHYS_MACHPHYS).
Proof. exact reinit_physmaps_equals_fresh. Qed.
Print Assumptions C08_reinit_physmaps_equals_fresh_partial.

(** * Scanning primitives

    For every PTE format whose next-step function simulates its architectural
    decoder (C02's [sim], proved there for eleven formats; huge-page
    directories, i.e. Linux ppc64, excluded), over the architectural walk
    [arch_levels] of the table tree: "mapped" = the walk succeeds, "unmapped" =
    the walk reports not-present.  The scan covers the addresses the root table
    spans (those that agree with the start above the translated bits).  The
    statements are about the statuses [OK] and [NOTPRESENT]; any other status
    (a read error, an invalid entry) is passed on by the C code and says
    nothing about the tree. *)

(** [lowest_mapped] answers the least mapped address of the range: the answer
    is mapped (and the returned step holds its translation), every address
    between the page-aligned start and the answer is unmapped; and when it
    answers "not present", no address of the range is mapped *)
Theorem C08_scan_lowest_mapped_least :
  forall readmem af tgt mask pf ras root,
  (forall va, sim readmem af tgt mask pf va) ->
  (forall a x, readmem a x <> RdErr OK) ->
  all_lt64 (fieldsz pf) = true -> total (fieldsz pf) <= 64 -> (2 <= length (fieldsz pf) <= 8)%nat ->
  (forall l e va a b sh, af_decode af tgt (fieldsz pf) l e va <> DHugeDir a b sh) ->
  (forall l e va va', af_decode af tgt (fieldsz pf) l e va = af_decode af tgt (fieldsz pf) l e va') ->
  (forall j, (j < length (fieldsz pf))%nat -> 1 <= nth j (fieldsz pf) 0) ->
  forall limit lf addr0 st s' r,
  pte_size (pte_format pf) = Some (af_ptesz af) -> addr0 < 2^64 ->
  lowest_mapped readmem {| m_kind := KPgt ras root mask pf; m_target := tgt |} pf lf addr0 limit = (st, s', r) ->
  let start := addr0 / 2^(nth 0 (fieldsz pf) 0) * 2^(nth 0 (fieldsz pf) 0) in
  let walk a := arch_levels readmem af tgt mask (fieldsz pf) a (length (fieldsz pf) - 1) ras root in
  (st = OK ->
     start <= r /\ r <= limit /\ r < 2^64 /\ r / 2^(total (fieldsz pf)) = addr0 / 2^(total (fieldsz pf)) /\
     s_as s' = tgt /\ walk r = (OK, Some (tgt, s_base s')) /\
     forall a, start <= a -> a < r -> walk a = (NOTPRESENT, None)) /\
  (st = NOTPRESENT ->
     forall a, start <= a -> a <= limit -> a / 2^(total (fieldsz pf)) = addr0 / 2^(total (fieldsz pf)) ->
               walk a = (NOTPRESENT, None)).
Proof. exact lowest_mapped_least. Qed.
Print Assumptions C08_scan_lowest_mapped_least.

(** all four primitives: [lowest_mapped] the least mapped address of
    [start, limit], [lowest_unmapped] the least unmapped one, [highest_mapped]
    the greatest mapped address of [limit, start], and [highest_linear] the end
    of the last of the consecutive mapped runs whose first address is mapped
    with the offset asked for ([lin_runs], Sys/ScanProofs.v: from [from] on,
    take the least mapped address [n]; if it is mapped with offset [off], take
    the least unmapped address [u] after it, the answer becomes [u - 1], go on
    from [u]; else, or when nothing more is mapped, the answer stands — "assume
    that the whole range is linear", only run heads are tested) *)
Theorem C08_scan_specs :
  forall readmem af tgt mask pf ras root,
  (forall va, sim readmem af tgt mask pf va) ->
  (forall a x, readmem a x <> RdErr OK) ->
  all_lt64 (fieldsz pf) = true -> total (fieldsz pf) <= 64 -> (2 <= length (fieldsz pf) <= 8)%nat ->
  (forall l e va a b sh, af_decode af tgt (fieldsz pf) l e va <> DHugeDir a b sh) ->
  (forall l e va va', af_decode af tgt (fieldsz pf) l e va = af_decode af tgt (fieldsz pf) l e va') ->
  (forall j, (j < length (fieldsz pf))%nat -> 1 <= nth j (fieldsz pf) 0) ->
  forall limit kv2kphys off,
  pte_size (pte_format pf) = Some (af_ptesz af) ->
  forall lf fuel addr0, addr0 < 2^64 ->
  let m := {| m_kind := KPgt ras root mask pf; m_target := tgt |} in
  let lo_start := addr0 / 2^(nth 0 (fieldsz pf) 0) * 2^(nth 0 (fieldsz pf) 0) in
  let hi_start := lo_start + (2^(nth 0 (fieldsz pf) 0) - 1) in
  let same_span a := a / 2^(total (fieldsz pf)) = addr0 / 2^(total (fieldsz pf)) in
  let walk a := arch_levels readmem af tgt mask (fieldsz pf) a (length (fieldsz pf) - 1) ras root in
  let Mapped a := exists p, walk a = (OK, Some (tgt, p)) in
  let Unmapped a := walk a = (NOTPRESENT, None) in
  (forall st s' r, lowest_mapped readmem m pf lf addr0 limit = (st, s', r) ->
     (st = OK -> lo_start <= r /\ r <= limit /\ r < 2^64 /\ same_span r /\
                 s_as s' = tgt /\ walk r = (OK, Some (tgt, s_base s')) /\
                 forall a, lo_start <= a -> a < r -> Unmapped a) /\
     (st = NOTPRESENT -> forall a, lo_start <= a -> a <= limit -> same_span a -> Unmapped a)) /\
  (forall st s' r, lowest_unmapped readmem m pf lf addr0 limit = (st, s', r) ->
     (st = OK -> lo_start <= r /\ r <= limit /\ r < 2^64 /\ same_span r /\ Unmapped r /\
                 forall a, lo_start <= a -> a < r -> Mapped a) /\
     (st = NOTPRESENT -> forall a, lo_start <= a -> a <= limit -> same_span a -> Mapped a)) /\
  (forall st s' r, highest_mapped readmem m pf lf addr0 limit = (st, s', r) ->
     (st = OK -> limit <= r /\ r <= hi_start /\ same_span r /\
                 s_as s' = tgt /\ walk r = (OK, Some (tgt, s_base s')) /\
                 forall a, r < a -> a <= hi_start -> Unmapped a) /\
     (st = NOTPRESENT -> forall a, limit <= a -> a <= hi_start -> same_span a -> Unmapped a)) /\
  (forall e, highest_linear readmem m pf kv2kphys fuel lf addr0 limit off = (OK, e) ->
     lin_runs readmem af tgt mask pf ras root limit kv2kphys off addr0 addr0 NOTPRESENT e).
Proof. exact scan_specs. Qed.
Print Assumptions C08_scan_specs.

(** the instance the x86-64 set-up uses: on a tree that maps, in [base, limit],
    exactly one run [base, top_] of whole pages, an [OK] answer of
    [highest_linear] is the end of the run, and the first address of the run was
    found mapped with the offset asked for *)
Theorem C08_scan_highest_linear_single_run_x86_64 :
  forall readmem tgt mask pf ras root limit kv2kphys off fuel lf base top_ e,
  pte_format pf = PTE_X86_64 -> x86_64_form (fieldsz pf) ->
  (forall a x, readmem a x <> RdErr OK) ->
  base mod 2^12 = 0 -> (top_ + 1) mod 2^12 = 0 ->
  base <= top_ -> top_ < limit -> limit < 2^64 ->
  (top_ + 1) / 2^(total (fieldsz pf)) = base / 2^(total (fieldsz pf)) ->
  let walk a := arch_levels readmem af_x86_64 tgt mask (fieldsz pf) a (length (fieldsz pf) - 1) ras root in
  (forall a, base <= a -> a <= top_ -> exists p, walk a = (OK, Some (tgt, p))) ->
  (forall a, top_ < a -> a <= limit -> walk a = (NOTPRESENT, None)) ->
  highest_linear readmem {| m_kind := KPgt ras root mask pf; m_target := tgt |} pf kv2kphys fuel lf base limit off
    = (OK, e) ->
  e = top_ /\ exists p, kv2kphys base = (OK, p) /\ wsub p base = off.
Proof. exact x86_64_highest_linear_single_run. Qed.
Print Assumptions C08_scan_highest_linear_single_run_x86_64.

(** * x86-64 Linux set-up decisions ([kv2kphys img s a] is what the page tables
      of the image, plus machphys -> kphys, say about [a] in state [s]) *)

(** A canonical image ([canonical_dm], Sys/LinuxX86Region.v): the kernel page
    table of [s] is an x86-64 one (4- or 5-level) whose reads do not fail with
    [OK]; in the window [first0, end_] that [linux_directmap_by_pgt] looks at
    ([dm_window]: the 2.6.0 or 2.6.11 location when the page tables map it to
    physical 0, else the 2.6.31 / 5-level window) the table tree, walked
    architecturally, maps exactly one run [base, top_] of whole pages
    ([base = first0] for the two fixed locations).

    On such an image, whenever the scans answer, they have found the whole run:
    the region is exactly [base, top_], and [base] was found at physical 0. *)
Theorem C08_x86_64_linux_finds_region :
  forall img hl_fuel s ras root mask pf tgt base top_ first last,
  canonical_dm img s ras root mask pf tgt base top_ ->
  linux_directmap_by_pgt img hl_fuel s = (OK, (first, last)) ->
  first = base /\ last = top_ /\
  exists p, kv2kphys img s base = (OK, p) /\ wsub p base = wsub 0 base.
Proof. exact directmap_by_pgt_finds. Qed.
Print Assumptions C08_x86_64_linux_finds_region.

(** ... and when the run is mapped linearly (every address of it that
    translates has the same virtual-to-physical offset), [linux_directmap]
    installs exactly the run: MAP_KV_PHYS sends [base, top_] to the direct
    method, MAP_KPHYS_DIRECT sends [0, top_ - base] to the reverse direct
    method, the direct method sends every address of the run to the physical
    address the page tables give it, and the reverse method sends it back *)
Theorem C08_x86_64_linux_agree :
  forall img hl_fuel s ras root mask pf tgt base top_ first last,
  wf_sys s ->
  canonical_dm img s ras root mask pf tgt base top_ ->
  (exists off, forall a p, base <= a -> a <= top_ -> kv2kphys img s a = (OK, p) -> wsub p a = off) ->
  linux_directmap_by_pgt img hl_fuel s = (OK, (first, last)) ->
  first = base /\ last = top_ /\
  exists s', linux_directmap img hl_fuel s = (O_ST OK, s') /\
    get_meth s' METH_DIRECT = mk_linear KPHYSADDR (neg_u64 base) /\
    get_meth s' METH_RDIRECT = mk_linear KVADDR (- neg_u64 base)%Z /\
    (forall x, mdenote (get_map s' MAP_KV_PHYS) x =
               if (base <=? x) && (x <=? top_) then Z.of_nat METH_DIRECT
               else mdenote (get_map s MAP_KV_PHYS) x) /\
    (forall x, mdenote (get_map s' MAP_KPHYS_DIRECT) x =
               if x <=? top_ - base then Z.of_nat METH_RDIRECT else NONE) /\
    (forall a p, base <= a -> a <= top_ -> p < 2^64 -> kv2kphys img s a = (OK, p) ->
       lin (neg_u64 base) a = p /\ lin (- neg_u64 base) p = a).
Proof. exact linux_directmap_agrees. Qed.
Print Assumptions C08_x86_64_linux_agree.

(** The decision-level statements the above rests on (they do not need the
    image to be canonical): *)

(** whenever [linux_directmap_by_pgt] finds a region, the offset [-first] was
    seen in the page tables: at [first] itself (fixed old locations), or at the
    first mapped address the scan found *)
Theorem C08_x86_64_linux_directmap_witness : forall img hl_fuel s first last,
  linux_directmap_by_pgt img hl_fuel s = (OK, (first, last)) ->
  (first = DM_START_2_6_0 /\ vtop_pgt img s first = (OK, 0)) \/
  (first = DM_START_2_6_11 /\ vtop_pgt img s first = (OK, 0)) \/
  (exists st n p limit, s_lowest_mapped img s first limit = (OK, st, n) /\
                        kv2kphys img s n = (OK, p) /\ wsub p n = wsub 0 first).
Proof. exact directmap_by_pgt_witness. Qed.
Print Assumptions C08_x86_64_linux_directmap_witness.

(** the offset installed for a region found through the page tables, [-first],
    IS the page tables' offset: some address [n] ([first] itself at the fixed
    locations, else the lowest mapped address from [first] on) is sent by the page
    tables to [n - first], i.e. where the direct method sends it.  So a direct map
    whose first mapped page is not physical frame 0 is never installed as a
    region starting at that page (seeded C08-e1); with C08_x86_64_linux_finds_region
    [n] is [first] on a canonical image *)
Theorem C08_x86_64_linux_directmap_offset_is_pgt : forall img hl_fuel s first last,
  linux_directmap_by_pgt img hl_fuel s = (OK, (first, last)) ->
  first < 2^64 ->
  (vtop_pgt img s first = (OK, 0) -> kv2kphys img s first = (OK, 0)) ->
  exists n p, kv2kphys img s n = (OK, p) /\ wsub p n = wsub 0 first /\
              (n < 2^64 -> p < 2^64 -> lin (neg_u64 first) n = p).
Proof. exact directmap_offset_is_pgt. Qed.
Print Assumptions C08_x86_64_linux_directmap_offset_is_pgt.

(** on an image that is linear on a set [inside] of addresses (containing the
    start of the region and what the scan looked at), every address of the set
    that the page tables map is sent by the direct method ([off = -first]) to
    the physical address the page tables give it *)
Theorem C08_x86_64_linux_agree_partial : forall img hl_fuel s first last inside,
  linux_directmap_by_pgt img hl_fuel s = (OK, (first, last)) ->
  first < 2^64 ->
  linear_on img s inside ->
  inside first = true ->
  (vtop_pgt img s first = (OK, 0) -> kv2kphys img s first = (OK, 0)) ->
  (forall st n limit, s_lowest_mapped img s first limit = (OK, st, n) -> inside n = true /\ n < 2^64) ->
  forall a p, inside a = true -> a < 2^64 -> p < 2^64 -> kv2kphys img s a = (OK, p) ->
  lin (neg_u64 first) a = p.
Proof. exact directmap_by_pgt_agrees. Qed.
Print Assumptions C08_x86_64_linux_agree_partial.

(** [linux_directmap] installs that region: MAP_KV_PHYS sends exactly
    [first, last] to the direct method (linear, [off = -first]), MAP_KPHYS_DIRECT
    sends exactly [0, last - first] to the reverse direct method ([off = first]) *)
Theorem C08_x86_64_linux_directmap_installs : forall img hl_fuel s first last,
  wf_sys s -> first <= last -> last < 2^64 -> first <> 2^63 ->
  linux_directmap_by_pgt img hl_fuel s = (OK, (first, last)) ->
  exists s', linux_directmap img hl_fuel s = (O_ST OK, s') /\
    get_meth s' METH_DIRECT = mk_linear KPHYSADDR (neg_u64 first) /\
    get_meth s' METH_RDIRECT = mk_linear KVADDR (- neg_u64 first)%Z /\
    (forall x, mdenote (get_map s' MAP_KV_PHYS) x =
               if (first <=? x) && (x <=? last) then Z.of_nat METH_DIRECT
               else mdenote (get_map s MAP_KV_PHYS) x) /\
    (forall x, mdenote (get_map s' MAP_KPHYS_DIRECT) x =
               if x <=? last - first then Z.of_nat METH_RDIRECT else NONE).
Proof. exact linux_directmap_installs. Qed.
Print Assumptions C08_x86_64_linux_directmap_installs.

(** the kernel text offset is [phys_base - __START_KERNEL_map] when the option
    is given, else the offset the page tables give at [_stext] / [_text] / the
    lowest mapped address of the text window *)
Theorem C08_x86_64_linux_ktext_offset : forall img s s',
  sym_stext img <> CbErr OK -> sym_text img <> CbErr OK ->
  linux_ktext_meth img s = (OK, s') ->
  exists off, s' = set_ktext_offset s off /\
    (match i_phys_base img with
     | Some pb => off = wsub pb LINUX_KTEXT_START
     | None => exists v p, off = wsub p v /\
                 (vtop_pgt img s v = (OK, p) \/
                  exists st, s_lowest_mapped img s LINUX_KTEXT_START LINUX_KTEXT_END = (OK, st, v) /\
                             fulladdr_conv img s (s_as st, s_base st) KPHYSADDR = (OK, p))
     end).
Proof. exact ktext_meth_offset. Qed.
Print Assumptions C08_x86_64_linux_ktext_offset.

(** ... so where the text mappings have one offset, the method agrees with them *)
Theorem C08_x86_64_linux_ktext_agree_partial : forall koff a p v q,
  a < 2^64 -> p < 2^64 -> wsub p a = koff -> wsub q v = koff ->
  lin (s64 (wsub q v)) a = p.
Proof. exact ktext_linear_agrees. Qed.
Print Assumptions C08_x86_64_linux_ktext_agree_partial.

(** the kernel text region found by [linux_ktext_extents].  In general it is
    NOT a subset of what the page tables map linearly ([highest_linear] tests
    run heads only and the region spans the gaps between runs); on a canonical
    image — one run [base, top_] of whole pages in the text window, ending below
    the no-KASLR limit — it is exactly the run, [base] translates with the
    offset the kernel-text method has ... *)
Theorem C08_x86_64_linux_ktext_finds_region : forall img hl_fuel s ras root mask pf tgt base top_ low high,
  pgt_meth s = {| m_kind := KPgt ras root mask pf; m_target := tgt |} ->
  pte_format pf = PTE_X86_64 -> x86_64_form (fieldsz pf) ->
  (forall a x, rd img s a x <> RdErr OK) ->
  LINUX_KTEXT_START <= base -> base <= top_ -> top_ < LINUX_KTEXT_END_NOKASLR ->
  base mod 2^12 = 0 -> (top_ + 1) mod 2^12 = 0 ->
  (forall a, LINUX_KTEXT_START <= a -> a < base -> x86_unmapped (rd img s) tgt mask pf ras root a) ->
  (forall a, base <= a -> a <= top_ -> x86_mapped (rd img s) tgt mask pf ras root a) ->
  (forall a, top_ < a -> a <= LINUX_KTEXT_END_NOKASLR -> x86_unmapped (rd img s) tgt mask pf ras root a) ->
  linux_ktext_extents img hl_fuel s = (OK, (low, high)) ->
  low = base /\ high = top_ /\
  exists p, kv2kphys img s base = (OK, p) /\
            wsub p base = Z.to_N (lin_off (get_meth s METH_KTEXT) mod 2^64)%Z.
Proof. exact ktext_extents_finds. Qed.
Print Assumptions C08_x86_64_linux_ktext_finds_region.

(** ... and where the run is mapped with one offset, the kernel-text method
    agrees with the page tables on every address of the region *)
Theorem C08_x86_64_linux_ktext_agree : forall img hl_fuel s ras root mask pf tgt base top_ low high,
  pgt_meth s = {| m_kind := KPgt ras root mask pf; m_target := tgt |} ->
  pte_format pf = PTE_X86_64 -> x86_64_form (fieldsz pf) ->
  (forall a x, rd img s a x <> RdErr OK) ->
  LINUX_KTEXT_START <= base -> base <= top_ -> top_ < LINUX_KTEXT_END_NOKASLR ->
  base mod 2^12 = 0 -> (top_ + 1) mod 2^12 = 0 ->
  (forall a, LINUX_KTEXT_START <= a -> a < base -> x86_unmapped (rd img s) tgt mask pf ras root a) ->
  (forall a, base <= a -> a <= top_ -> x86_mapped (rd img s) tgt mask pf ras root a) ->
  (forall a, top_ < a -> a <= LINUX_KTEXT_END_NOKASLR -> x86_unmapped (rd img s) tgt mask pf ras root a) ->
  (exists off, forall a p, base <= a -> a <= top_ -> kv2kphys img s a = (OK, p) -> wsub p a = off) ->
  linux_ktext_extents img hl_fuel s = (OK, (low, high)) ->
  low = base /\ high = top_ /\
  forall a p, base <= a -> a <= top_ -> p < 2^64 -> kv2kphys img s a = (OK, p) ->
              lin (lin_off (get_meth s METH_KTEXT)) a = p.
Proof. exact ktext_extents_agree. Qed.
Print Assumptions C08_x86_64_linux_ktext_agree.

(** * riscv64 and aarch64 Linux set-up decisions (models Sys/LinuxRvA64Model.v,
      compared with riscv64.c / aarch64.c on every synthesised image)

    Partial: decision level.  What a successful [add_linux_linear_map] has seen
    in the page tables; the meaning of the scans' answers is C08_scan_specs, the
    maps [install_linear] sets are C08_linear_directmap_layout_partial. *)

(** riscv64: the region starts at the lowest address the kernel page table maps
    at or above PAGE_OFFSET, the direct method gets the offset the page table
    gives that address, the region ends where [highest_linear] with that offset
    says, the reverse region is the image of the forward one *)
Theorem C08_riscv64_linux_linear_witness_partial : forall img hl_fuel s s',
  num_PAGE_OFFSET img <> CbErr OK ->
  rv_add_linux_linear_map img hl_fuel s = (O_ST OK, s') ->
  exists po st first last,
    num_PAGE_OFFSET img = CbOk po /\
    s_lowest_mapped img s po MAXA = (OK, st, first) /\
    s_highest_linear img hl_fuel s first MAXA (wsub (s_base st) first) = (OK, last) /\
    install_linear s first last (wsub (s_base st) first)
      (wadd first (wsub (s_base st) first)) (wadd last (wsub (s_base st) first)) = (O_ST OK, s').
Proof. exact rv_linear_map_witness. Qed.
Print Assumptions C08_riscv64_linux_linear_witness_partial.

(** aarch64: the region is [lowest mapped, highest mapped] in the half of the
    kernel range that [linux_page_offset] chooses, both ends have the same
    virtual-to-physical offset, which the direct method gets; the reverse
    region is [phys(first), phys(last)] *)
Theorem C08_aarch64_linux_linear_witness_partial : forall img vb s s',
  a64_add_linux_linear_map img vb s = (O_ST OK, s') ->
  exists po st first st2 last,
    a64_linux_page_offset img vb = (OK, po) /\
    s_lowest_mapped img s po (N.lor po (ADDR_MASK (vb - 1))) = (OK, st, first) /\
    s_highest_mapped img s (N.lor po (ADDR_MASK (vb - 1))) first = (OK, st2, last) /\
    wsub (s_base st2) (s_base st) = wsub last first /\
    install_linear s first last (wsub (s_base st) first) (s_base st) (s_base st2) = (O_ST OK, s').
Proof. exact a64_linear_map_witness. Qed.
Print Assumptions C08_aarch64_linux_linear_witness_partial.

(** aarch64's self-check: a direct region is installed only when the lowest and
    the highest mapped address of the scanned half have the same
    virtual-to-physical offset.  So for ANY image (canonical or not) whose kernel
    page table uses an AArch64 descriptor format with one of C02's level layouts:
    the direct method that [add_linux_linear_map] installs agrees with the
    architectural walk of the page tables at both ends of its region *)
Theorem C08_aarch64_linear_map_checked : forall img v s ras root mask pf tgt vb s',
  pgt_meth s = {| m_kind := KPgt ras root mask pf; m_target := tgt |} ->
  pte_format pf = a64_fmt v -> a64_form v (fieldsz pf) ->
  (forall a x, rd img s a x <> RdErr OK) ->
  wf_sys s -> vb <= 64 ->
  a64_add_linux_linear_map img vb s = (O_ST OK, s') ->
  let walk a := arch_levels (rd img s) (af_aarch64 v) tgt mask (fieldsz pf) a (length (fieldsz pf) - 1) ras root in
  exists first last p1 p2 d,
    first <= last /\
    get_meth s' METH_DIRECT = mk_linear KPHYSADDR d /\
    walk first = (OK, Some (tgt, p1)) /\ walk last = (OK, Some (tgt, p2)) /\
    lin d first = p1 /\ lin d last = p2.
Proof. exact aarch64_linear_map_checked. Qed.
Print Assumptions C08_aarch64_linear_map_checked.

(** riscv64 and aarch64 "find the whole region", in the style of
    C08_x86_64_linux_finds_region / _agree ([rv_walk] / [a64_walk] = the
    architectural walk of the kernel page table, Sys/LinuxRvA64Region.v).

    riscv64: the offset of the whole region is taken from the first mapped
    address at or above PAGE_OFFSET, so the statement needs — explicitly — that
    NOTHING is mapped between PAGE_OFFSET and the linear base [base]; further
    that [base, top_] is one run of whole pages mapped linearly, the page after
    it is unmapped, and what is mapped behind it (the kernel image) does not
    continue with the same offset.  Then a successful [add_linux_linear_map]
    installs exactly [base, top_] with the offset the page tables give [base],
    [base] translates (KV -> KPHYS) with that offset, and the direct method sends
    every address of the run where the page tables send it. *)
Theorem C08_riscv64_linux_agree : forall img hl_fuel s ras root mask pf tgt po base top_ p1 s',
  pgt_meth s = {| m_kind := KPgt ras root mask pf; m_target := tgt |} ->
  pte_format pf = PTE_RISCV64 -> riscv64_form (fieldsz pf) ->
  (forall a x, rd img s a x <> RdErr OK) ->
  wf_sys s ->
  num_PAGE_OFFSET img = CbOk po -> po < 2^64 ->
  let walk := rv_walk img s ras root mask pf tgt in
  let Mp a := exists p, walk a = (OK, Some (tgt, p)) in
  let Up a := walk a = (NOTPRESENT, None) in
  let pd a := a / 2^12 * 2^12 in
  pd po <= base -> (forall a, pd po <= a -> a < base -> Up a) ->
  pd base = base -> pd (top_ + 1) = top_ + 1 -> base <= top_ -> top_ < MAXA ->
  (top_ + 1) / 2^(total (fieldsz pf)) = base / 2^(total (fieldsz pf)) ->
  (forall a, base <= a -> a <= top_ -> Mp a) -> Up (top_ + 1) ->
  walk base = (OK, Some (tgt, p1)) ->
  (forall a p, base <= a -> a <= top_ -> walk a = (OK, Some (tgt, p)) -> wsub p a = wsub p1 base) ->
  ((forall a, top_ < a -> a <= MAXA -> a / 2^(total (fieldsz pf)) = base / 2^(total (fieldsz pf)) -> Up a) \/
   (exists n2, top_ < n2 /\ Mp n2 /\ (forall a, top_ < a -> a < n2 -> Up a) /\
               forall p, kv2kphys img s n2 = (OK, p) -> wsub p n2 <> wsub p1 base)) ->
  rv_add_linux_linear_map img hl_fuel s = (O_ST OK, s') ->
  install_linear s base top_ (wsub p1 base) (wadd base (wsub p1 base)) (wadd top_ (wsub p1 base)) = (O_ST OK, s') /\
  get_meth s' METH_DIRECT = mk_linear KPHYSADDR (s64 (wsub p1 base)) /\
  (exists p, kv2kphys img s base = (OK, p) /\ wsub p base = wsub p1 base) /\
  (forall a p, base <= a -> a <= top_ -> walk a = (OK, Some (tgt, p)) -> lin (s64 (wsub p1 base)) a = p).
Proof. exact riscv64_linux_agree. Qed.
Print Assumptions C08_riscv64_linux_agree.

(** aarch64: in the half of the kernel range that [linux_page_offset] selects
    exactly one run [base, top_] is mapped, linearly.  Then the region installed
    is exactly [base, top_] (reverse region [phys(base), phys(top_)]), and the
    direct method agrees with the page tables on every address of the run *)
Theorem C08_aarch64_linux_agree : forall img v s ras root mask pf tgt vb po base top_ p1 s',
  pgt_meth s = {| m_kind := KPgt ras root mask pf; m_target := tgt |} ->
  pte_format pf = a64_fmt v -> a64_form v (fieldsz pf) ->
  (forall a x, rd img s a x <> RdErr OK) ->
  wf_sys s -> vb <= 64 ->
  a64_linux_page_offset img vb = (OK, po) ->
  let last0 := N.lor po (ADDR_MASK (vb - 1)) in
  po < 2^64 -> last0 < 2^64 ->
  let walk := a64_walk v img s ras root mask pf tgt in
  let Mp a := exists p, walk a = (OK, Some (tgt, p)) in
  let Up a := walk a = (NOTPRESENT, None) in
  page_down pf po <= base -> (forall a, page_down pf po <= a -> a < base -> Up a) ->
  base <= top_ -> top_ <= page_up pf last0 -> (forall a, top_ < a -> a <= page_up pf last0 -> Up a) ->
  (forall a, base <= a -> a <= top_ -> Mp a) ->
  walk base = (OK, Some (tgt, p1)) ->
  (forall a p, base <= a -> a <= top_ -> walk a = (OK, Some (tgt, p)) -> wsub p a = wsub p1 base) ->
  a64_add_linux_linear_map img vb s = (O_ST OK, s') ->
  exists p2,
    walk top_ = (OK, Some (tgt, p2)) /\
    install_linear s base top_ (wsub p1 base) p1 p2 = (O_ST OK, s') /\
    get_meth s' METH_DIRECT = mk_linear KPHYSADDR (s64 (wsub p1 base)) /\
    (forall a p, base <= a -> a <= top_ -> walk a = (OK, Some (tgt, p)) -> lin (s64 (wsub p1 base)) a = p).
Proof. exact aarch64_linux_agree. Qed.
Print Assumptions C08_aarch64_linux_agree.

(** the hypotheses are satisfiable: the x86-64 Linux 2.6.31 direct mapping *)
Example C08_nonvacuous_layout :
  let r := {| r_first := 0xffff880000000000; r_last := 0xffffc7ffffffffff;
              r_meth := METH_DIRECT; r_act := ACT_DIRECT |} in
  wf_sys sys_new /\ plain_region r /\
  exists s', sys_set_layout sys_new MAP_KV_PHYS [r] = (L_OK, s') /\
    lin_off (get_meth s' METH_DIRECT) = 0x780000000000%Z /\
    lin_off (get_meth s' METH_RDIRECT) = (- 0x780000000000)%Z /\
    mdenote (get_map s' MAP_KV_PHYS) 0xffff880000001000 = Z.of_nat METH_DIRECT /\
    mdenote (get_map s' MAP_KPHYS_DIRECT) 0x3fffffffffff = Z.of_nat METH_RDIRECT /\
    mdenote (get_map s' MAP_KPHYS_DIRECT) 0x400000000000 = NONE.
Proof.
  split; [exact wf_sys_new|]. split.
  - repeat split; cbn; try lia; try discriminate. unfold METH_DIRECT, METH_NUM. lia.
  - eexists. split; [vm_compute; reflexivity|]. vm_compute. repeat split.
Qed.

(** a small 4-level image: 4M of RAM mapped at 0xffff880000000000 with 2M pages,
    kernel text at 0xffffffff81000000 (phys_base 0), root table at physical 0x1000;
    the initialisation finds both, and the direct method agrees with the tables *)
Definition ex_raw (a : aspace) (x : N) : rdres :=
  match a with
  | MACHPHYSADDR =>
    if x =? 0x1000 + 8 * 272 then RdOk (0x2000 + 0x67) else           (* PML4[272] -> direct map PDPT *)
    if x =? 0x2000 then RdOk (0x3000 + 0x67) else                     (* PDPT[0] -> PD *)
    if x =? 0x3000 then RdOk (0x000000 + 0x1e3) else                  (* 2M pages *)
    if x =? 0x3008 then RdOk (0x200000 + 0x1e3) else
    if x =? 0x1000 + 8 * 511 then RdOk (0x4000 + 0x67) else           (* PML4[511] -> text PDPT *)
    if x =? 0x4000 + 8 * 510 then RdOk (0x5000 + 0x67) else
    if x =? 0x5000 + 8 * 8 then RdOk (0x1000000 + 0x1e3) else         (* 0xffffffff81000000 -> 0x1000000 *)
    if (0x1000 <=? x) && (x <? 0x6000) then RdOk 0 else RdErr NODATA
  | _ => RdErr NODATA
  end.
Definition ex_img : image :=
  {| i_os := OS_LINUX; i_version := None; i_phys_base := None; i_rootpgt := Some (MACHPHYSADDR, 0x1000);
     i_virt_bits := Some 48; i_xen_xlat := None; i_page_shift := None;
     sym_init_top_pgt := CbErr NODATA; sym_init_level4_pgt := CbErr NODATA;
     sym_stext := CbOk 0xffffffff81000000; sym_text := CbErr NODATA; sym_page_offset_base := CbErr NODATA;
     reg_cr3 := CbErr NODATA; reg_cr4 := CbErr NODATA; num_sme_mask := CbErr NODATA;
     num_pgtable_l5_enabled := CbErr NODATA;
     sym_swapper_pg_dir := CbErr NODATA; num_va_kernel_pa_offset := CbErr NODATA; num_PAGE_OFFSET := CbErr NODATA;
     num_VA_BITS := CbErr NODATA; num_kimage_voffset := CbErr NODATA; num_TCR_EL1_T1SZ := CbErr NODATA;
     caps_kphys := false; caps_machphys := true; caps_kv := false; raw := ex_raw |}.

Example C08_nonvacuous_x86_64_linux :
  exists s, sys_x86_64 ex_img 64 = (O_ST OK, s) /\
    lin_off (get_meth s METH_DIRECT) = 0x780000000000%Z /\
    lin_off (get_meth s METH_KTEXT) = 0x80000000%Z /\
    mdenote (get_map s MAP_KV_PHYS) 0xffff8800003fffff = Z.of_nat METH_DIRECT /\
    mdenote (get_map s MAP_KV_PHYS) 0xffff880000400000 = Z.of_nat METH_PGT /\
    mdenote (get_map s MAP_KV_PHYS) 0xffffffff81000000 = Z.of_nat METH_KTEXT /\
    xlat_via ex_img s MAP_KV_PHYS KPHYSADDR 0xffff880000212345 = (OK, 0x212345) /\
    xlat_via ex_img s MAP_HW KPHYSADDR 0xffff880000212345 = (OK, 0x212345) /\
    xlat_via ex_img s MAP_KPHYS_DIRECT KVADDR 0x212345 = (OK, 0xffff880000212345).
Proof. eexists. split; [vm_compute; reflexivity|]. vm_compute. repeat split. Qed.
