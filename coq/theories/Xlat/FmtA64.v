(** C02: [pgt_aarch64], [pgt_aarch64_lpa], [pgt_aarch64_lpa2] on one table entry
    do what the Arm ARM says ([dec_aarch64]) for the translation granules and
    level layouts of the architecture. *)
From Coq Require Import NArith ZArith List Bool Lia.
From KdV Require Import Base.Wrap64 Xlat.Step Xlat.ArchSpec Xlat.XBits Xlat.WalkProofs.
Import ListNotations.
Local Open Scope N_scope.

Definition a64_fmt (v : a64) : ptefmt :=
  match v with A64 => PTE_AARCH64 | A64_LPA => PTE_AARCH64_LPA | A64_LPA2 => PTE_AARCH64_LPA2 end.

(** the level layouts: 4K/16K/64K granules, 48-bit VA; with LPA 52-bit VA for
    64K; with LPA2 52-bit VA for 4K and 16K *)
Definition a64_form (v : a64) (fs : list N) : Prop :=
  match v with
  | A64 => fs = [12;9;9;9;9] \/ fs = [14;11;11;11;1] \/ fs = [16;13;13;6]
  | A64_LPA => fs = [16;13;13;10] \/ fs = [16;13;13;6]
  | A64_LPA2 => fs = [12;9;9;9;9] \/ fs = [12;9;9;9;9;4] \/ fs = [14;11;11;11;1] \/ fs = [14;11;11;11;5]
  end.

(** the output-address expression and the block-size limit of the C code *)
Definition a64_oa_c (v : a64) (pte : N) : N :=
  match v with
  | A64 => N.land pte (ADDR_MASK 48)
  | A64_LPA => N.lor (PTE_VAL pte 0 48) (wshl (PTE_VAL pte 12 4) 48)
  | A64_LPA2 => N.lor (PTE_VAL pte 0 50) (wshl (PTE_VAL pte 8 2) 50)
  end.
Definition a64_maxreg (v : a64) : N :=
  match v with A64 => ADDR_MASK 30 | A64_LPA => ADDR_MASK 42 | A64_LPA2 => ADDR_MASK 39 end.

Lemma next_a64 readmem tgt mask pf v : pte_format pf = a64_fmt v ->
  next_step_pgt readmem tgt mask pf = pgt_aarch64_common readmem tgt mask pf (a64_oa_c v) (a64_maxreg v).
Proof. intro H. unfold next_step_pgt. rewrite H. destruct v; reflexivity. Qed.

(** clearing the low [k] bits of the C expression gives the manual's field *)
Lemma a64_oa_ok v pte k :
  (match v with A64 => 0 | A64_LPA => 16 | A64_LPA2 => 10 end) <= k -> k <= 48 ->
  N.ldiff (a64_oa_c v pte) (N.ones k) = a64_oa v k pte.
Proof.
  intros Hk Hk'. destruct v; unfold a64_oa_c, a64_oa, ADDR_MASK.
  - now apply frame.
  - rewrite !PTE_VAL_bits.
    rewrite wshl_small by (apply bits_mul_lt; lia).
    rewrite N.lor_comm, lor_disjoint_add by apply bits_lt.
    rewrite N.add_comm. rewrite ldiff_lo_hi by lia. reflexivity.
  - rewrite !PTE_VAL_bits.
    rewrite wshl_small by (apply bits_mul_lt; lia).
    rewrite N.lor_comm, lor_disjoint_add by apply bits_lt.
    rewrite N.add_comm. rewrite ldiff_lo_hi by lia. reflexivity.
Qed.

(** what the proof needs from a layout, all by computation on the concrete lists *)
Definition a64_layout_ok (v : a64) (fs : list N) : Prop :=
  form_facts fs /\ (3 <= length fs <= 8)%nat /\
  (match v with A64 => 0 | A64_LPA => 16 | A64_LPA2 => 10 end) <= nth 0 fs 0 /\ total fs <= 52 /\
  forall l, (2 <= l)%nat -> (l < length fs)%nat ->
    lo fs l <= 48 /\
    (a64_maxreg v <? N.ones (lo fs l)) = negb (a64_block_ok v (nth 0 fs 0) (lo fs l)).

Lemma a64_layout v fs : a64_form v fs -> a64_layout_ok v fs.
Proof.
  intro Hform. unfold a64_layout_ok. destruct v; cbn [a64_form] in Hform;
  repeat (destruct Hform as [Hf | Hform]; [rewrite Hf | ]); try rewrite Hform;
  (split; [apply form_facts_of; reflexivity|]); cbn [length nth];
  (split; [lia|]); (split; [lia|]); (split; [cbn; lia|]);
  intros l H2 Hl; cbn [length] in Hl;
  do 6 (destruct l as [|l]; try lia; try (split; [cbn; lia|reflexivity])).
Qed.

Section A64.
Variable readmem : aspace -> N -> rdres.
Variable tgt : aspace.
Variable mask : N.
Variable pf : pform.
Variable va : N.
Variable v : a64.
Hypothesis Hfmt : pte_format pf = a64_fmt v.
Hypothesis Hform : a64_form v (fieldsz pf).

Notation fs := (fieldsz pf).

Lemma sim_aarch64 : sim readmem (af_aarch64 v) tgt mask pf va.
Proof.
  destruct (a64_layout v _ Hform) as (Hff & Hlen & Hg & Ht & Hblk).
  pose proof (ff_lt _ Hff) as Hlt.
  assert (Hg64 : nth 0 fs 0 < 64).
  { apply all_lt64_nth; [exact Hlt|lia]. }
  intros l s Hl1 Hl Hr Hidx Hes. unfold sim_at, rd_entry. rewrite (next_a64 _ _ _ _ v Hfmt).
  unfold pgt_aarch64_common, read_pte64, read64. cbn [af_ptesz af_aarch64 af_decode].
  change (8 * 8) with 64.
  destruct (readmem (s_as s) (s_base s)) as [x|e]; [|intro He; destruct e; try contradiction; eexists; reflexivity].
  set (pte := N.ldiff (x mod 2^64) mask).
  unfold dec_aarch64, bit, elemsz_last. rewrite !PTE_VAL_bits. step_simpl.
  rewrite (testbit_bits pte 0), (testbit_bits pte 1).
  rewrite bits_0_2.
  destruct (bits_1_cases pte 0) as [E0|E0]; rewrite E0; cbn [N.eqb negb]; [eexists; reflexivity|].
  rewrite Hr.
  assert (Hlol : lo fs l <= total fs) by apply lo_le_total.
  destruct (bits_1_cases pte 1) as [E1|E1]; rewrite E1; cbn [N.eqb N.mul N.add Pos.mul Pos.add Pos.eqb negb].
  - (* block descriptor *)
    rewrite pf_table_mask_spec by (auto; lia).
    destruct l as [|[|l]]; [lia| |].
    + cbn [Nat.eqb orb]. eexists; reflexivity.
    + cbn [Nat.eqb orb]. destruct (Hblk (S (S l)) ltac:(lia) Hl) as [H48 ->].
      destruct (a64_block_ok v (nth 0 fs 0) (lo fs (S (S l)))); cbn [negb]; [|eexists; reflexivity].
      apply (huge_leaf pf va) with (l := S (S l)); step_simpl; auto.
      apply a64_oa_ok; [|lia].
      pose proof (lo_mono fs 1 (S (S l)) ltac:(lia)) as Hm. rewrite lo_1 in Hm. lia.
  - (* table / page descriptor *)
    rewrite pf_page_mask_spec by exact Hg64.
    assert (Hg48 : nth 0 fs 0 <= 48).
    { destruct (Hblk 2%nat ltac:(lia) ltac:(lia)) as [H48 _].
      pose proof (lo_mono fs 1 2 ltac:(lia)) as Hm. rewrite lo_1 in Hm. lia. }
    rewrite a64_oa_ok by lia.
    destruct l as [|[|l]]; [lia| |]; cbn [Nat.eqb].
    + apply (page_leaf pf va); step_simpl; auto; lia.
    + eexists. split; [reflexivity|]. step_simpl. repeat split; auto.
Qed.
End A64.

Theorem aarch64_refines_arch v readmem tgt mask pf va ras root fuel :
  pte_format pf = a64_fmt v -> a64_form v (fieldsz pf) ->
  (forall a x, readmem a x <> RdErr OK) -> va < 2^64 ->
  (length (fieldsz pf) <= fuel)%nat ->
  observe (addrxlat_walk readmem {| m_kind := KPgt ras root mask pf; m_target := tgt |} fuel (init_step va))
  = arch_walk readmem (af_aarch64 v) tgt mask (fieldsz pf) va ras root.
Proof.
  intros Hfmt Hform Herr Hva Hfuel.
  destruct (a64_layout v _ Hform) as (Hff & Hlen & Hg & Ht & _).
  apply pgt_refines_arch; auto.
  - now apply sim_aarch64.
  - rewrite Hfmt. destruct v; reflexivity.
  - rewrite Hfmt. destruct v; reflexivity.
  - rewrite Hfmt. destruct v; cbn [a64_form] in Hform;
      repeat (destruct Hform as [Hf | Hform]; [rewrite Hf; cbn; lia | ]); rewrite Hform; cbn; lia.
  - cbn [af_check af_aarch64]. split; [lia|]. split; [apply Hff|]. lia.
Qed.
