(** Model of the address-translation step machine of libaddrxlat:
    src/addrxlat/step.c ([first_step_*], [next_step_*], [pgt_huge_page],
    [addrxlat_launch], [addrxlat_step], [addrxlat_walk]), the PTE fetch of
    addrxlat-priv.h ([read_pte32], [read_pte64]; ctx.c [read32]/[read64] with a
    read callback that can serve every address space directly) and the
    per-format next-step functions of x86_64.c, ia32.c, aarch64.c, arm.c,
    riscv64.c, s390x.c, ppc64.c.

    Conventions.
    - [addrxlat_step_t] is the record [step]; a C function that mutates the
      step and returns a status is a function [step -> status * step]; the
      statements are transcribed in order (a store that happens before an
      error return is visible in the returned step).
    - [addrxlat_addr_t], [addrxlat_pte_t] are [N] below 2^64; every [+], [*],
      [<<] that can wrap in C is wrapped with [w] ([Base.Wrap64]).  For 64-bit
      values [a & ~m] is [N.ldiff a m], [a & m] is [N.land a m].
    - Memory is a section variable [readmem : aspace -> N -> rdres]: the raw
      cell at an exact address, or the status the read callback returned.
      [read64]/[read32] truncate to the PTE width.
    - Undefined behaviour is an outcome, never a default: a shift by a
      negative amount or by >= the width of the type is [BADSHIFT]; an index
      outside [idx[ADDRXLAT_FIELDS_MAX + 1]] / outside the part of it that was
      initialised is [OOB].  [NOFUEL] is the model's own "loop did not end
      within the fuel" outcome ([addrxlat_walk] has no bound of its own for
      custom methods); the theorems state a fuel that suffices.
    - [first_step_pgt] has the guard of the fix "reject paging forms with more
      fields than the PTE format has levels" ([pf_max_fields]).
    - This models the tree with fixes/01 (LPA/LPA2 output-address field is 48
      resp. 50 bits wide) and fixes/02 (s390x table offset/length compare the
      two topmost bits of the next index) applied.

    No proofs in this file. *)
From Coq Require Import NArith ZArith List Bool.
From KdV Require Import Base.Wrap64.
Import ListNotations.
Local Open Scope N_scope.

(** * Types *)

(** [addrxlat_status]; [CUSTOM] carries the negative codes a custom method or
    a callback may return.  The last three are model-only outcomes. *)
Inductive status :=
| OK | NOTIMPL | NOTPRESENT | INVALID | NOMEM | NODATA | NOMETH
| CUSTOM (code : Z)
| BADSHIFT | OOB | NOFUEL.

Definition is_ok (st : status) : bool := match st with OK => true | _ => false end.

Inductive aspace := KPHYSADDR | MACHPHYSADDR | KVADDR | NOADDR.

Inductive ptefmt :=
| PTE_NONE | PTE_PFN32 | PTE_PFN64 | PTE_AARCH64 | PTE_IA32 | PTE_IA32_PAE
| PTE_X86_64 | PTE_S390X | PTE_PPC64_LINUX_RPN30 | PTE_AARCH64_LPA
| PTE_AARCH64_LPA2 | PTE_ARM | PTE_RISCV32 | PTE_RISCV64.

(** [addrxlat_paging_form_t]: [nfields] is the length of [fieldsz] *)
Record pform := { pte_format : ptefmt; fieldsz : list N }.

Record step := mkstep {
  s_as : aspace;        (* base.as *)
  s_base : N;           (* base.addr *)
  s_remain : nat;       (* remain *)
  s_elemsz : N;         (* elemsz *)
  s_idx : list N;       (* idx[], the initialised prefix *)
  s_raw : N             (* raw.pte / raw.addr *)
}.

Definition set_base (s : step) (a : aspace) (b : N) : step :=
  mkstep a b (s_remain s) (s_elemsz s) (s_idx s) (s_raw s).
Definition set_addr (s : step) (b : N) : step :=
  mkstep (s_as s) b (s_remain s) (s_elemsz s) (s_idx s) (s_raw s).
Definition set_as (s : step) (a : aspace) : step :=
  mkstep a (s_base s) (s_remain s) (s_elemsz s) (s_idx s) (s_raw s).
Definition set_remain (s : step) (r : nat) : step :=
  mkstep (s_as s) (s_base s) r (s_elemsz s) (s_idx s) (s_raw s).
Definition set_elemsz (s : step) (e : N) : step :=
  mkstep (s_as s) (s_base s) (s_remain s) e (s_idx s) (s_raw s).
Definition set_idx (s : step) (l : list N) : step :=
  mkstep (s_as s) (s_base s) (s_remain s) (s_elemsz s) l (s_raw s).
Definition set_raw (s : step) (v : N) : step :=
  mkstep (s_as s) (s_base s) (s_remain s) (s_elemsz s) (s_idx s) v.

(** the step object before a call: only [base.addr] matters to the library *)
Definition init_step (addr : N) : step := mkstep NOADDR addr 0 0 [] 0.

Inductive rdres := RdOk (v : N) | RdErr (e : status).

(** translation methods ([addrxlat_meth_t]) *)
Inductive kind :=
| KNone
| KCustom (first : step -> N -> status * step) (next : step -> status * step)
| KLinear (off : Z)
| KPgt (root_as : aspace) (root : N) (pte_mask : N) (pf : pform)
| KLookup (endoff : N) (tbl : list (N * N))
| KMemarr (base_as : aspace) (base : N) (shift elemsz valsz : N).

Record meth := { m_kind : kind; m_target : aspace }.

(** * Small helpers *)

Definition nthN (l : list N) (i : nat) : N := nth i l 0.

Fixpoint set_nth (l : list N) (i : nat) (v : N) : list N :=
  match l, i with
  | [], _ => []
  | _ :: t, O => v :: t
  | h :: t, S i' => h :: set_nth t i' v
  end.

Definition all_lt64 (l : list N) : bool := forallb (fun b => b <? 64) l.

(** [ADDR_MASK(bits)], [PTE_MASK(bits)], [TE_MASK(bits)] for a constant
    [bits < 64] *)
Definition ADDR_MASK (bits : N) : N := N.ones bits.

(** [PTE_VAL(x, shift, bits)] = [((x) >> (shift)) & PTE_MASK(bits)] *)
Definition PTE_VAL (x shift bits : N) : N := N.land (N.shiftr x shift) (N.ones bits).

(** [pteval_shift] as the element size [1 << pteval_shift(fmt)]; [None] is the
    shift by -1 for formats without a PTE size *)
Definition pte_size (f : ptefmt) : option N :=
  match f with
  | PTE_PFN32 | PTE_ARM | PTE_IA32 => Some 4
  | PTE_PFN64 | PTE_AARCH64 | PTE_AARCH64_LPA | PTE_AARCH64_LPA2 | PTE_IA32_PAE
  | PTE_X86_64 | PTE_RISCV64 | PTE_S390X | PTE_PPC64_LINUX_RPN30 => Some 8
  | PTE_NONE | PTE_RISCV32 => None
  end.

Section WithMem.

(** the read callback: raw cell at an exact address, or the error it returned *)
Variable readmem : aspace -> N -> rdres.

Definition read64 (a : aspace) (addr : N) : rdres :=
  match readmem a addr with RdOk v => RdOk (v mod 2^64) | e => e end.
Definition read32 (a : aspace) (addr : N) : rdres :=
  match readmem a addr with RdOk v => RdOk (v mod 2^32) | e => e end.

(** * step.c, paging-form helpers *)

(** [vaddr_bits] *)
Definition vaddr_bits (pf : pform) : N := fold_right N.add 0 (fieldsz pf).

(** [pf_table_span]: [ret = 1; while (level--) ret <<= pf->fieldsz[level];] *)
Fixpoint span_loop (fs : list N) (level : nat) (ret : N) : N :=
  match level with
  | O => ret
  | S l => span_loop fs l (wshl ret (nthN fs l))
  end.

(** [pf_table_mask(pf, level)]; [None]: one of the shifts is >= 64 *)
Definition pf_table_mask (pf : pform) (level : nat) : option N :=
  if all_lt64 (firstn level (fieldsz pf))
  then Some (wsub (span_loop (fieldsz pf) level 1) 1)
  else None.

(** [pf_page_mask(pf)] = [((addrxlat_addr_t)1 << pf->fieldsz[0]) - 1] *)
Definition pf_page_mask (pf : pform) : option N :=
  if nthN (fieldsz pf) 0 <? 64 then Some (wsub (wshl 1 (nthN (fieldsz pf) 0)) 1) else None.

(** [pgt_huge_page]:
      while (step->remain > 1) { --step->remain; off |= step->idx[step->remain];
                                 off <<= pgt->pf.fieldsz[step->remain - 1]; }
      step->elemsz = 1; step->idx[0] |= off; *)
Fixpoint huge_loop (fs idxs : list N) (rem : nat) (off : N) : N :=
  match rem with
  | O => off
  | S rem' =>
      match rem' with
      | O => off
      | S r'' =>
          let off := N.lor off (nthN idxs rem') in
          let off := wshl off (nthN fs r'') in
          huge_loop fs idxs rem' off
      end
  end.

Definition pgt_huge_page (pf : pform) (s : step) : status * step :=
  if negb (all_lt64 (firstn (s_remain s - 1) (fieldsz pf))) then (BADSHIFT, s) else
  let off := huge_loop (fieldsz pf) (s_idx s) (s_remain s) 0 in
  (OK, mkstep (s_as s) (s_base s) (Nat.min (s_remain s) 1) 1
              (set_nth (s_idx s) 0 (N.lor (nthN (s_idx s) 0) off)) (s_raw s)).

(** * step.c, first steps

    A first-step function initialises the state fields of the step (the API
    says they are uninitialised on entry); [s_idx] afterwards holds exactly the
    entries the function stored. *)

(** [first_step_linear] *)
Definition first_step_linear (tgt : aspace) (off : Z) (s : step) (addr : N) : status * step :=
  (OK, mkstep tgt (Z.to_N (off mod 2^64)%Z) 1 1 [addr] (s_raw s)).

(** the index loop of [first_step_pgt_generic]:
      mask = bits < 64 ? (1 << bits) - 1 : ~0; idx[i] = addr & mask; addr >>= bits;
    and finally [idx[nfields] = addr]  (all [bits < 64] is checked by the caller:
    [addr >>= bits] is undefined otherwise) *)
Fixpoint split_fields (fs : list N) (addr : N) : list N :=
  match fs with
  | [] => [addr]
  | b :: fs' => N.land addr (N.ones b) :: split_fields fs' (N.shiftr addr b)
  end.

(** [first_step_pgt_generic] *)
Definition first_step_pgt_generic (root_as : aspace) (root : N) (pf : pform)
           (s : step) (addr : N) : status * step :=
  match root_as with
  | NOADDR => (NODATA, s)
  | _ =>
    let n := length (fieldsz pf) in
    if (8 <? n)%nat then (OOB, s) else          (* fieldsz[ADDRXLAT_FIELDS_MAX] *)
    match (if (1 <? n)%nat then pte_size (pte_format pf) else Some 1) with
    | None => (BADSHIFT, s)                      (* 1 << -1 *)
    | Some esz =>
      if negb (all_lt64 (fieldsz pf)) then (BADSHIFT, s) else   (* addr >>= bits *)
      (OK, mkstep root_as root n esz (split_fields (fieldsz pf) addr) (s_raw s))
    end
  end.

(** [step_check_uaddr] *)
Definition step_check_uaddr (pf : pform) (s : step) : status * step :=
  if nthN (s_idx s) (length (fieldsz pf)) =? 0 then (OK, s) else (INVALID, s).

(** [step_check_saddr]:
      s.bit = step->idx[lvl - 1] >> (pf->fieldsz[lvl - 1] - 1);   (1-bit signed field: 0 or -1)
      signext = s.bit & (ADDRXLAT_ADDR_MAX >> vaddr_bits(pf)); *)
Definition step_check_saddr (pf : pform) (s : step) : status * step :=
  match length (fieldsz pf) with
  | O => (OOB, s)                                   (* idx[-1] *)
  | S l1 =>
    let fsz := nthN (fieldsz pf) l1 in
    if fsz =? 0 then (BADSHIFT, s) else             (* >> -1 *)
    if 64 <=? vaddr_bits pf then (BADSHIFT, s) else (* ADDR_MAX >> (>= 64) *)
    let bit := N.testbit (N.shiftr (nthN (s_idx s) l1) (fsz - 1)) 0 in
    let signext := if bit then N.shiftr MAXA (vaddr_bits pf) else 0 in
    if nthN (s_idx s) (S l1) =? signext then (OK, s) else (INVALID, s)
  end.

(** [pf_max_fields]: the number of paging levels the architecture defines, plus
    one for the page offset (the per-format step functions have per-level data
    only for those) *)
Definition pf_max_fields (f : ptefmt) : nat :=
  match f with
  | PTE_ARM | PTE_IA32 => 3
  | PTE_IA32_PAE => 4
  | PTE_PPC64_LINUX_RPN30 => 5
  | PTE_AARCH64 | PTE_AARCH64_LPA | PTE_AARCH64_LPA2 | PTE_RISCV64 | PTE_S390X | PTE_X86_64 => 6
  | PTE_NONE | PTE_PFN32 | PTE_PFN64 | PTE_RISCV32 => 8            (* ADDRXLAT_FIELDS_MAX *)
  end.

(** [first_step_pgt] *)
Definition first_step_pgt (root_as : aspace) (root : N) (pf : pform)
           (s : step) (addr : N) : status * step :=
  if (pf_max_fields (pte_format pf) <? length (fieldsz pf))%nat then (NOTIMPL, s) else   (* "Too many paging levels" *)
  match pte_format pf with
  | PTE_NONE | PTE_AARCH64 | PTE_AARCH64_LPA | PTE_AARCH64_LPA2 | PTE_ARM
  | PTE_PPC64_LINUX_RPN30 =>
      first_step_pgt_generic root_as root pf s addr
  | PTE_PFN32 | PTE_PFN64 | PTE_IA32 | PTE_IA32_PAE | PTE_S390X =>
      match first_step_pgt_generic root_as root pf s addr with
      | (OK, s') => step_check_uaddr pf s'
      | r => r
      end
  | PTE_RISCV64 | PTE_X86_64 =>
      match first_step_pgt_generic root_as root pf s addr with
      | (OK, s') => step_check_saddr pf s'
      | r => r
      end
  | PTE_RISCV32 => (NOTIMPL, s)
  end.

(** [first_step_lookup]: the first element with
    [elem->orig <= addr && addr <= elem->orig + lookup->endoff] (the sum wraps) *)
Fixpoint first_step_lookup (tgt : aspace) (endoff : N) (tbl : list (N * N))
         (s : step) (addr : N) : status * step :=
  match tbl with
  | [] => (NOTPRESENT, s)
  | (orig, dest) :: tbl' =>
      if (orig <=? addr) && (addr <=? wadd orig endoff)
      then (OK, mkstep tgt dest 1 1 [wsub addr orig] (s_raw s))
      else first_step_lookup tgt endoff tbl' s addr
  end.

(** [first_step_memarr]: [idx[0] = addr & ((1ULL << shift) - 1); idx[1] = addr >> shift] *)
Definition first_step_memarr (base_as : aspace) (base shift elemsz : N)
           (s : step) (addr : N) : status * step :=
  if 64 <=? shift then (BADSHIFT, s) else
  (OK, mkstep base_as base 2 elemsz
              [N.land addr (wsub (wshl 1 shift) 1); N.shiftr addr shift] (s_raw s)).

(** * PTE fetch (addrxlat-priv.h) *)

(** [read_pte64]: on success [step->raw.pte = pte64; *pte = pte64 & ~pte_mask] *)
Definition read_pte64 (pte_mask : N) (s : step) : status * step * N :=
  match read64 (s_as s) (s_base s) with
  | RdErr e => (e, s, 0)
  | RdOk v => (OK, set_raw s v, N.ldiff v pte_mask)
  end.

(** [read_pte32] *)
Definition read_pte32 (pte_mask : N) (s : step) : status * step * N :=
  match read32 (s_as s) (s_base s) with
  | RdErr e => (e, s, 0)
  | RdOk v => (OK, set_raw s v, N.ldiff v pte_mask)
  end.

(** * Per-format next-step functions

    Common parameters: [tgt] = [step->meth->target_as], [pte_mask], [pf]. *)
Section Formats.
Variable tgt : aspace.
Variable pte_mask : N.
Variable pf : pform.

Definition elemsz_last (s : step) : step :=
  if Nat.eqb (s_remain s) 1 then set_elemsz s 1 else s.

(** ** step.c: [next_step_pfn_common] via [next_step_pfn32]/[next_step_pfn64]
       step->base.addr = pte << meth->param.pgt.pf.fieldsz[0]; *)
Definition next_step_pfn_common (s : step) (pte : N) : status * step :=
  if pte =? 0 then (NOTPRESENT, s) else
  if 64 <=? nthN (fieldsz pf) 0 then (BADSHIFT, s) else
  (OK, elemsz_last (set_base s tgt (wshl pte (nthN (fieldsz pf) 0)))).

Definition next_step_pfn32 (s : step) : status * step :=
  match read_pte32 pte_mask s with
  | (OK, s, pte) => next_step_pfn_common s pte
  | (e, s, _) => (e, s)
  end.

Definition next_step_pfn64 (s : step) : status * step :=
  match read_pte64 pte_mask s with
  | (OK, s, pte) => next_step_pfn_common s pte
  | (e, s, _) => (e, s)
  end.

(** ** x86_64.c: [pgt_x86_64]
       PHYSADDR_MASK = ADDR_MASK(52), PAGE_MASK_1G/2M/PAGE_MASK = ADDR_MASK(30/21/12),
       _PAGE_PRESENT = bit 0, _PAGE_PSE = bit 7 *)
Definition pgt_x86_64 (s : step) : status * step :=
  match read_pte64 pte_mask s with
  | (OK, s, pte) =>
    if negb (N.testbit pte 0) then (NOTPRESENT, s) else
    let s := set_base s tgt (N.land pte (ADDR_MASK 52)) in
    if Nat.eqb (s_remain s) 3 && N.testbit pte 7 then
      pgt_huge_page pf (set_addr s (N.ldiff (s_base s) (ADDR_MASK 30)))
    else if Nat.eqb (s_remain s) 2 && N.testbit pte 7 then
      pgt_huge_page pf (set_addr s (N.ldiff (s_base s) (ADDR_MASK 21)))
    else
      (OK, elemsz_last (set_addr s (N.ldiff (s_base s) (ADDR_MASK 12))))
  | (e, s, _) => (e, s)
  end.

(** ** ia32.c: [pgt_ia32]
       pgd_pse_high(pgd) = (((pgd) >> 13) & ADDR_MASK(8)) << 32, PAGE_MASK_4M = ADDR_MASK(22) *)
Definition pgt_ia32 (s : step) : status * step :=
  match read_pte32 pte_mask s with
  | (OK, s, pte) =>
    if negb (N.testbit pte 0) then (NOTPRESENT, s) else
    let s := set_base s tgt pte in
    if Nat.eqb (s_remain s) 2 && N.testbit pte 7 then
      let b := N.ldiff (s_base s) (ADDR_MASK 22) in
      let b := N.lor b (wshl (N.land (N.shiftr pte 13) (ADDR_MASK 8)) 32) in
      pgt_huge_page pf (set_addr s b)
    else
      (OK, elemsz_last (set_addr s (N.ldiff (s_base s) (ADDR_MASK 12))))
  | (e, s, _) => (e, s)
  end.

(** ** ia32.c: [pgt_ia32_pae]   PHYSADDR_MASK_PAE = ADDR_MASK(52) *)
Definition pgt_ia32_pae (s : step) : status * step :=
  match read_pte64 pte_mask s with
  | (OK, s, pte) =>
    if negb (N.testbit pte 0) then (NOTPRESENT, s) else
    let s := set_base s tgt (N.land pte (ADDR_MASK 52)) in
    if Nat.eqb (s_remain s) 2 && N.testbit pte 7 then
      pgt_huge_page pf (set_addr s (N.ldiff (s_base s) (ADDR_MASK 21)))
    else
      (OK, elemsz_last (set_addr s (N.ldiff (s_base s) (ADDR_MASK 12))))
  | (e, s, _) => (e, s)
  end.

(** ** aarch64.c
       PTE_VALID(x) = PTE_VAL(x,0,1); PTE_TYPE(x) = PTE_VAL(x,0,2); PTE_TYPE_BLOCK = 1.
       The three functions differ in the output-address expression and in the
       maximum block size: [oa pte] and [maxreg]. *)
Definition pgt_aarch64_common (oa : N -> N) (maxreg : N) (s : step) : status * step :=
  match read_pte64 pte_mask s with
  | (OK, s, pte) =>
    if PTE_VAL pte 0 1 =? 0 then (NOTPRESENT, s) else
    let s := set_base s tgt (oa pte) in
    if PTE_VAL pte 0 2 =? 1 then
      match pf_table_mask pf (s_remain s) with
      | None => (BADSHIFT, s)
      | Some mask =>
        if Nat.eqb (s_remain s) 1 || (maxreg <? mask) then (INVALID, s) else
        pgt_huge_page pf (set_addr s (N.ldiff (s_base s) mask))
      end
    else
      match pf_page_mask pf with
      | None => (BADSHIFT, s)
      | Some pmask => (OK, elemsz_last (set_addr s (N.ldiff (s_base s) pmask)))
      end
  | (e, s, _) => (e, s)
  end.

(** [pgt_aarch64]: [pte & PA_MASK], PA_MASK = ADDR_MASK(48); MAX_REGION_MASK = ADDR_MASK(30) *)
Definition pgt_aarch64 : step -> status * step :=
  pgt_aarch64_common (fun pte => N.land pte (ADDR_MASK 48)) (ADDR_MASK 30).

(** [pgt_aarch64_lpa] (with fixes/01):
      PTE_VAL(pte, 0, 48) | (PTE_VAL(pte, 12, 4) << 48); MAX_REGION_MASK_LPA = ADDR_MASK(42) *)
Definition pgt_aarch64_lpa : step -> status * step :=
  pgt_aarch64_common
    (fun pte => N.lor (PTE_VAL pte 0 48) (wshl (PTE_VAL pte 12 4) 48)) (ADDR_MASK 42).

(** [pgt_aarch64_lpa2] (with fixes/01):
      PTE_VAL(pte, 0, 50) | (PTE_VAL(pte, 8, 2) << 50); MAX_REGION_MASK_LPA2 = ADDR_MASK(39) *)
Definition pgt_aarch64_lpa2 : step -> status * step :=
  pgt_aarch64_common
    (fun pte => N.lor (PTE_VAL pte 0 50) (wshl (PTE_VAL pte 8 2) 50)) (ADDR_MASK 39).

(** ** arm.c
       add_overlap(step, bits):
         shift = pf->fieldsz[step->remain - 1];
         step->idx[step->remain - 1] += (step->idx[step->remain] & ADDR_MASK(bits)) << shift; *)
Definition add_overlap (s : step) (bits : N) : option step :=
  let r := s_remain s in
  let shift := nthN (fieldsz pf) (r - 1) in
  if 64 <=? shift then None else
  Some (set_idx s (set_nth (s_idx s) (r - 1)
         (wadd (nthN (s_idx s) (r - 1))
               (wshl (N.land (nthN (s_idx s) r) (ADDR_MASK bits)) shift)))).

(** [pgt_arm]: PTE_TYPE = bits 1:0, PTE_SECTYPE = bit 18 *)
Definition pgt_arm (s : step) : status * step :=
  match read_pte32 pte_mask s with
  | (OK, s, pte) =>
    let type := PTE_VAL pte 0 2 in
    if type =? 0 then (NOTPRESENT, s) else
    let s := set_as s tgt in
    if (1 <? s_remain s)%nat then
      (* Level 1 descriptor *)
      if negb (type =? 1) then
        if negb (PTE_VAL pte 18 1 =? 0) then
          (* Supersection *)
          match add_overlap s 4 with
          | None => (BADSHIFT, s)
          | Some s =>
            pgt_huge_page pf (set_addr s
              (N.lor (N.lor (N.ldiff pte (ADDR_MASK 24))
                            (wshl (PTE_VAL pte 20 4) 32))
                     (wshl (PTE_VAL pte 5 4) 36)))
          end
        else
          (* Section *)
          pgt_huge_page pf (set_addr s (N.ldiff pte (ADDR_MASK 20)))
      else
        (OK, set_addr s (N.ldiff pte (ADDR_MASK 10)))
    else
      (* Level 2 descriptor *)
      if type =? 1 then
        (* Large page *)
        match add_overlap s 4 with
        | None => (BADSHIFT, s)
        | Some s => (OK, set_elemsz (set_addr s (N.ldiff pte (ADDR_MASK 16))) 1)
        end
      else
        (* Small page *)
        (OK, set_elemsz (set_addr s (N.ldiff pte (ADDR_MASK 12))) 1)
  | (e, s, _) => (e, s)
  end.

(** ** riscv64.c: [pgt_riscv64]
       PTE_VALID = bit 0, PTE_PERM = PTE_VAL(x,1,3), PTE_PPN = PTE_VAL(x,10,44),
       PAGE_SHIFT = 12, PTE_PAGE_TABLE = 0 *)
Definition pgt_riscv64 (s : step) : status * step :=
  match read_pte64 pte_mask s with
  | (OK, s, pte) =>
    if PTE_VAL pte 0 1 =? 0 then (NOTPRESENT, s) else
    let s := set_base s tgt (wshl (PTE_VAL pte 10 44) 12) in
    if (1 <? s_remain s)%nat && negb (PTE_VAL pte 1 3 =? 0) then
      match pf_table_mask pf (s_remain s) with
      | None => (BADSHIFT, s)
      | Some mask => pgt_huge_page pf (set_addr s (N.ldiff (s_base s) mask))
      end
    else if Nat.eqb (s_remain s) 1 && (PTE_VAL pte 1 3 =? 0) then (INVALID, s)
    else (OK, elemsz_last (set_addr s (N.ldiff (s_base s) (ADDR_MASK 12))))
  | (e, s, _) => (e, s)
  end.

(** ** s390x.c: [pgt_s390x]
       TE_VAL(x, shift, bits) = ((x) >> (64-(shift)-(bits))) & TE_MASK(bits)  (IBM bit numbering):
       RSTE_FC = TE_VAL(x,53,1) = bit 10, RSTE_I = TE_VAL(x,58,1) = bit 5,
       RSTE_TF = TE_VAL(x,56,2) = bits 7:6, RSTE_TT = TE_VAL(x,60,2) = bits 3:2,
       RSTE_TL = TE_VAL(x,62,2) = bits 1:0, PTE_I = TE_VAL(x,53,1) = bit 10;
       RFAA_MASK = ADDR_MASK(31), SFAA_MASK = ADDR_MASK(20), PTO_MASK = ADDR_MASK(11),
       PAGE_MASK = ADDR_MASK(12).  With fixes/02:
         pgidx = step->idx[step->remain - 1] >> (REGTBL_BITS - 2)          (REGTBL_BITS = 11) *)
Definition pgt_s390x (s : step) : status * step :=
  match read_pte64 pte_mask s with
  | (OK, s, pte) =>
    let r := s_remain s in
    if ((1 <? r)%nat && negb (PTE_VAL pte 5 1 =? 0))
       || (Nat.eqb r 1 && negb (PTE_VAL pte 10 1 =? 0)) then (NOTPRESENT, s) else
    if (2 <=? r)%nat && negb (PTE_VAL pte 2 2 =? N.of_nat (r - 2)) then (INVALID, s) else
    let s := set_base s tgt pte in
    if Nat.eqb r 3 && negb (PTE_VAL pte 10 1 =? 0) then
      pgt_huge_page pf (set_addr s (N.ldiff (s_base s) (ADDR_MASK 31)))
    else if Nat.eqb r 2 && negb (PTE_VAL pte 10 1 =? 0) then
      pgt_huge_page pf (set_addr s (N.ldiff (s_base s) (ADDR_MASK 20)))
    else
      let pgidx := N.land (N.shiftr (nthN (s_idx s) (r - 1)) 9) (N.ones 32) in  (* unsigned *)
      if (3 <=? r)%nat && ((pgidx <? PTE_VAL pte 6 2) || (PTE_VAL pte 0 2 <? pgidx))
      then (NOTPRESENT, s) else
      (OK, elemsz_last (set_addr s
             (N.ldiff (s_base s) (if Nat.eqb r 2 then ADDR_MASK 11 else ADDR_MASK 12))))
  | (e, s, _) => (e, s)
  end.

(** ** ppc64.c: [pgt_ppc64_linux_rpn30]
       PD_HUGE = 1 << 63, HUGEPD_SHIFT_MASK = 0x3f, HUGE_PTE_MASK = 3, PTE_SHIFT = 3,
       rpn_shift = 30 *)
Definition mmu_pshift : list N := [12; 14; 16; 16; 18; 20; 22; 23; 24; 26; 28; 30; 34; 36].

(** [hugepd_shift]: [mmu_psize = (hpde & 0x3f) >> 2; mmu_psize < 14 ? mmu_pshift[mmu_psize] : 0] *)
Definition hugepd_shift (hpde : N) : N :=
  nthN mmu_pshift (N.to_nat (N.shiftr (N.land hpde 63) 2)).

(** the offset loop of [huge_pd_linux]:
      off = 0; i = step->remain; while (--i) { off |= step->idx[i]; off <<= pf->fieldsz[i - 1]; } *)
Fixpoint hugepd_loop (fs idxs : list N) (i : nat) (off : N) : N :=
  match i with
  | O => off
  | S i' =>
      match i' with
      | O => off
      | S i'' => hugepd_loop fs idxs i' (wshl (N.lor off (nthN idxs i')) (nthN fs i''))
      end
  end.

(** [huge_pd_linux] *)
Definition huge_pd_linux (s : step) (pte : N) : status * step :=
  let pdshift := hugepd_shift pte in
  if pdshift =? 0 then (INVALID, s) else
  let s := set_base s KVADDR (N.lor (N.ldiff pte 63) (2^63)) in
  match s_remain s with
  | O => (OOB, s)                              (* --i wraps: idx[65535] *)
  | S _ =>
    if negb (all_lt64 (firstn (s_remain s - 1) (fieldsz pf))) then (BADSHIFT, s) else
    let off := hugepd_loop (fieldsz pf) (s_idx s) (s_remain s) 0 in
    let idx := set_nth (s_idx s) 1 (N.shiftr off pdshift) in
    let off := N.land off (wsub (wshl 1 pdshift) 1) in
    let idx := set_nth idx 0 (N.lor (nthN idx 0) off) in
    (OK, set_remain (set_idx s idx) 2)
  end.

(** [huge_page_linux]: [step->base.addr = (pte >> rpn_shift) << pf->fieldsz[0]] *)
Definition huge_page_linux (s : step) (pte rpn_shift : N) : status * step :=
  if 64 <=? nthN (fieldsz pf) 0 then (BADSHIFT, s) else
  pgt_huge_page pf (set_base s tgt (wshl (N.shiftr pte rpn_shift) (nthN (fieldsz pf) 0))).

(** [pgt_ppc64_linux] *)
Definition pgt_ppc64_linux (rpn_shift : N) (s : step) : status * step :=
  match read_pte64 pte_mask s with
  | (OK, s, pte) =>
    if pte =? 0 then (NOTPRESENT, s) else
    if (1 <? s_remain s)%nat then
      if negb (N.land pte 3 =? 0) then huge_page_linux s pte rpn_shift else
      if negb (N.testbit pte 63) then huge_pd_linux s pte else
      (* table_size = 1 << PTE_SHIFT << pf->fieldsz[step->remain - 1] *)
      let fsz := nthN (fieldsz pf) (s_remain s - 1) in
      if 64 <=? fsz then (BADSHIFT, s) else
      let table_size := wshl (wshl 1 3) fsz in
      (OK, set_base s KVADDR (N.ldiff pte (wsub table_size 1)))
    else
      if 64 <=? nthN (fieldsz pf) 0 then (BADSHIFT, s) else
      (OK, set_elemsz (set_base s tgt (wshl (N.shiftr pte rpn_shift) (nthN (fieldsz pf) 0))) 1)
  | (e, s, _) => (e, s)
  end.

Definition pgt_ppc64_linux_rpn30 : step -> status * step := pgt_ppc64_linux 30.

(** ** step.c: [next_step_pgt] *)
Definition next_step_pgt (s : step) : status * step :=
  match pte_format pf with
  | PTE_NONE => (OK, s)
  | PTE_PFN32 => next_step_pfn32 s
  | PTE_PFN64 => next_step_pfn64 s
  | PTE_AARCH64 => pgt_aarch64 s
  | PTE_AARCH64_LPA => pgt_aarch64_lpa s
  | PTE_AARCH64_LPA2 => pgt_aarch64_lpa2 s
  | PTE_ARM => pgt_arm s
  | PTE_IA32 => pgt_ia32 s
  | PTE_IA32_PAE => pgt_ia32_pae s
  | PTE_RISCV64 => pgt_riscv64 s
  | PTE_X86_64 => pgt_x86_64 s
  | PTE_S390X => pgt_s390x s
  | PTE_PPC64_LINUX_RPN30 => pgt_ppc64_linux_rpn30 s
  | PTE_RISCV32 => (NOTIMPL, s)
  end.

End Formats.

(** ** step.c: [next_step_memarr] *)
Definition next_step_memarr (tgt : aspace) (shift valsz : N) (s : step) : status * step :=
  let rd := if valsz =? 4 then Some (read32 (s_as s) (s_base s))
            else if valsz =? 8 then Some (read64 (s_as s) (s_base s)) else None in
  match rd with
  | None => (NOTIMPL, s)
  | Some (RdErr e) => (e, s)      (* step->raw.addr = <uninitialised local>: not observable *)
  | Some (RdOk v) =>
      if 64 <=? shift then (BADSHIFT, s) else
      let s := set_raw s v in
      (OK, set_elemsz (set_base s tgt (wshl v shift)) 1)
  end.

(** * step.c: [first_step], [next_step] *)
Definition first_step (m : meth) (s : step) (addr : N) : status * step :=
  match m_kind m with
  | KNone => (NOMETH, s)
  | KCustom first _ => first s addr
  | KLinear off => first_step_linear (m_target m) off s addr
  | KPgt ras root _ pf => first_step_pgt ras root pf s addr
  | KLookup endoff tbl => first_step_lookup (m_target m) endoff tbl s addr
  | KMemarr bas base shift elemsz _ => first_step_memarr bas base shift elemsz s addr
  end.

Definition next_step (m : meth) (s : step) : status * step :=
  match m_kind m with
  | KNone => (NOMETH, s)
  | KCustom _ next => next s
  | KLinear _ | KLookup _ _ => (OK, s)
  | KPgt _ _ mask pf => next_step_pgt (m_target m) mask pf s
  | KMemarr _ _ shift _ valsz => next_step_memarr (m_target m) shift valsz s
  end.

(** * step.c: [addrxlat_launch], [addrxlat_step], [addrxlat_walk] *)

Definition addrxlat_launch (m : meth) (s : step) (addr : N) : status * step :=
  first_step m s addr.

(** [--step->remain; step->base.addr += step->idx[step->remain] * step->elemsz;]
    ([OOB] when [idx[remain]] was never stored) *)
Definition advance (s : step) (r : nat) : option step :=
  if (length (s_idx s) <=? r)%nat then None else
  Some (mkstep (s_as s) (wadd (s_base s) (wmul (nthN (s_idx s) r) (s_elemsz s)))
               r (s_elemsz s) (s_idx s) (s_raw s)).

Definition addrxlat_step (m : meth) (s : step) : status * step :=
  match s_remain s with
  | O => (OK, s)
  | S r =>
    match advance s r with
    | None => (OOB, s)
    | Some s1 =>
      match r with
      | O => (OK, set_elemsz (set_as s1 (m_target m)) 0)
      | S _ => next_step m s1
      end
    end
  end.

(** the caller's loop: [while (status == OK && step.remain) status = addrxlat_step(&step);] *)
Fixpoint steps (m : meth) (fuel : nat) (s : step) : status * step :=
  match s_remain s with
  | O => (OK, s)
  | S _ =>
    match fuel with
    | O => (NOFUEL, s)
    | S fuel' =>
      match addrxlat_step m s with
      | (OK, s') => steps m fuel' s'
      | r => r
      end
    end
  end.

Definition launch_steps (m : meth) (fuel : nat) (s : step) (addr : N) : status * step :=
  match addrxlat_launch m s addr with
  | (OK, s') => steps m fuel s'
  | r => r
  end.

(** the loop of [addrxlat_walk], entered with [remain != 0]:
      while (--step->remain) { base += idx[remain] * elemsz; status = next_step(step);
                               if (status != OK) return status; }
      base.as = target_as; base.addr += idx[0] * elemsz; elemsz = 0;
    [remain == 0] at the loop head (a next-step function returned success with
    [remain = 0]) makes [--remain] wrap to 65535: [idx[65535]] *)
Fixpoint walk_loop (m : meth) (fuel : nat) (s : step) : status * step :=
  match fuel with
  | O => (NOFUEL, s)
  | S fuel' =>
    match s_remain s with
    | O => (OOB, s)
    | S r =>
      match advance s r with
      | None => (OOB, s)
      | Some s1 =>
        match r with
        | O => (OK, set_elemsz (set_as s1 (m_target m)) 0)
        | S _ =>
          match next_step m s1 with
          | (OK, s2) => walk_loop m fuel' s2
          | r => r
          end
        end
      end
    end
  end.

(** [addrxlat_walk]: the address to translate is [step->base.addr] *)
Definition addrxlat_walk (m : meth) (fuel : nat) (s : step) : status * step :=
  match first_step m s (s_base s) with
  | (OK, s') =>
    match s_remain s' with
    | O => (OK, s')
    | S _ => walk_loop m fuel s'
    end
  | r => r
  end.

End WithMem.

(** * What a caller observes: status, and on success the resulting full address *)
Definition outcome : Type := status * option (aspace * N).
Definition observe (r : status * step) : outcome :=
  match r with
  | (OK, s) => (OK, Some (s_as s, s_base s))
  | (e, _) => (e, None)
  end.
