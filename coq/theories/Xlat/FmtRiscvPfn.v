(** C02: [pgt_riscv64] (Sv39/48/57) and [next_step_pfn32/64] on one table entry
    do what [dec_riscv64] / [dec_pfn] say. *)
From Coq Require Import NArith ZArith List Bool Lia.
From KdV Require Import Base.Wrap64 Xlat.Step Xlat.ArchSpec Xlat.XBits Xlat.WalkProofs.
Import ListNotations.
Local Open Scope N_scope.

(** * RISC-V *)

Definition riscv64_form (fs : list N) : Prop :=
  fs = [12;9;9;9] \/ fs = [12;9;9;9;9] \/ fs = [12;9;9;9;9;9].

Lemma riscv64_layout fs : riscv64_form fs ->
  form_facts fs /\ (4 <= length fs <= 8)%nat /\ nth 0 fs 0 = 12 /\ total fs <= 57 /\
  1 <= nth (length fs - 1) fs 0 /\
  forall l, (1 <= l)%nat -> (l < length fs)%nat -> 12 <= lo fs l <= 48.
Proof.
  intro Hform.
  repeat (destruct Hform as [Hf | Hform]; [rewrite Hf | ]); try rewrite Hform;
  (split; [apply form_facts_of; reflexivity|]); cbn [length nth];
  (split; [lia|]); (split; [reflexivity|]); (split; [cbn; lia|]); (split; [cbn; lia|]);
  intros l H2 Hl; cbn [length] in Hl;
  do 6 (destruct l as [|l]; try lia; try (cbn; lia)).
Qed.

Section RISCV.
Variable readmem : aspace -> N -> rdres.
Variable tgt : aspace.
Variable mask : N.
Variable pf : pform.
Variable va : N.
Hypothesis Hfmt : pte_format pf = PTE_RISCV64.
Hypothesis Hform : riscv64_form (fieldsz pf).
Notation fs := (fieldsz pf).

Lemma sim_riscv64 : sim readmem af_riscv64 tgt mask pf va.
Proof.
  destruct (riscv64_layout _ Hform) as (Hff & Hlen & Hf0 & Ht & _ & Hlo).
  pose proof (ff_lt _ Hff) as Hlt.
  intros l s Hl1 Hl Hr Hidx Hes. unfold sim_at, rd_entry, next_step_pgt. rewrite Hfmt.
  unfold pgt_riscv64, read_pte64, read64. cbn [af_ptesz af_riscv64 af_decode].
  change (8 * 8) with 64.
  destruct (readmem (s_as s) (s_base s)) as [x|e]; [|intro He; destruct e; try contradiction; eexists; reflexivity].
  set (pte := N.ldiff (x mod 2^64) mask).
  unfold dec_riscv64, bit, elemsz_last, ADDR_MASK. rewrite !PTE_VAL_bits. step_simpl.
  rewrite (testbit_bits pte 0).
  destruct (bits_1_cases pte 0) as [E0|E0]; rewrite E0; cbn [N.eqb negb]; [eexists; reflexivity|].
  rewrite Hr.
  rewrite wshl_small by (apply bits_mul_lt; lia).
  destruct (Hlo l Hl1 Hl) as [Hlo1 Hlo2].
  destruct (bits 1 3 pte =? 0) eqn:Eperm; cbn [negb andb].
  - (* pointer to the next level *)
    rewrite andb_false_r.
    rewrite (shl_clear_low pte 10 44 12 12) by lia. rewrite N.sub_diag, N.add_0_r, N.sub_0_r.
    destruct l as [|[|l]]; [lia| |]; cbn [Nat.eqb andb Nat.ltb Nat.leb].
    + eexists; reflexivity.
    + eexists. split; [reflexivity|]. step_simpl. repeat split; auto.
  - (* leaf *)
    rewrite !andb_true_r.
    destruct l as [|[|l]]; [lia| |]; cbn [Nat.eqb andb Nat.ltb Nat.leb].
    + (* last level: page *)
      assert (Hl12 : lo fs 1 = 12) by (rewrite lo_1; exact Hf0).
      rewrite Hl12. change (12 - 2) with 10. change (56 - 12) with 44.
      rewrite (shl_clear_low pte 10 44 12 12) by lia. rewrite N.sub_diag, N.add_0_r, N.sub_0_r.
      apply (page_leaf pf va); step_simpl; auto; lia.
    + (* superpage *)
      rewrite pf_table_mask_spec by (auto; lia).
      apply (huge_leaf pf va) with (l := S (S l)); step_simpl; auto.
      rewrite (shl_clear_low pte 10 44 12) by lia.
      f_equal. f_equal; lia.
Qed.
End RISCV.

Theorem riscv64_refines_arch readmem tgt mask pf va ras root fuel :
  pte_format pf = PTE_RISCV64 -> riscv64_form (fieldsz pf) ->
  (forall a x, readmem a x <> RdErr OK) -> va < 2^64 ->
  (length (fieldsz pf) <= fuel)%nat ->
  observe (addrxlat_walk readmem {| m_kind := KPgt ras root mask pf; m_target := tgt |} fuel (init_step va))
  = arch_walk readmem af_riscv64 tgt mask (fieldsz pf) va ras root.
Proof.
  intros Hfmt Hform Herr Hva Hfuel.
  destruct (riscv64_layout _ Hform) as (Hff & Hlen & Hf0 & Ht & Htop & _).
  apply pgt_refines_arch; auto.
  - now apply sim_riscv64.
  - now rewrite Hfmt.
  - now rewrite Hfmt.
  - rewrite Hfmt. repeat (destruct Hform as [Hf | Hform]; [rewrite Hf; cbn; lia | ]). rewrite Hform; cbn; lia.
  - cbn [af_check af_riscv64]. split; [lia|]. split; [apply Hff|]. split; [lia|exact Htop].
Qed.

(** * Plain PFN tables: any well-formed form *)

Section PFN.
Variable readmem : aspace -> N -> rdres.
Variable tgt : aspace.
Variable mask : N.
Variable pf : pform.
Variable va : N.
Notation fs := (fieldsz pf).
Hypothesis Hwf : wf_form Unsigned fs.

Lemma sim_pfn64 : pte_format pf = PTE_PFN64 -> sim readmem af_pfn64 tgt mask pf va.
Proof.
  intro Hfmt. destruct Hwf as (Hlen & Hlt & Ht).
  assert (Hf0 : nth 0 fs 0 < 64) by (apply all_lt64_nth; [exact Hlt|lia]).
  intros l s Hl1 Hl Hr Hidx Hes. unfold sim_at, rd_entry, next_step_pgt. rewrite Hfmt.
  unfold next_step_pfn64, read_pte64, read64. cbn [af_ptesz af_pfn64 af_decode].
  change (8 * 8) with 64.
  destruct (readmem (s_as s) (s_base s)) as [x|e]; [|intro He; destruct e; try contradiction; eexists; reflexivity].
  set (pte := N.ldiff (x mod 2^64) mask).
  unfold dec_pfn, next_step_pfn_common, elemsz_last, nthN.
  destruct (pte =? 0); [eexists; reflexivity|].
  destruct (N.leb_spec 64 (nth 0 fs 0)); [lia|]. step_simpl. rewrite Hr.
  eexists. split; [reflexivity|]. rewrite wshl_mul.
  destruct l as [|[|l]]; [lia| |]; cbn [Nat.eqb]; step_simpl; repeat split; auto.
Qed.

Lemma sim_pfn32 : pte_format pf = PTE_PFN32 -> sim readmem af_pfn32 tgt mask pf va.
Proof.
  intro Hfmt. destruct Hwf as (Hlen & Hlt & Ht).
  assert (Hf0 : nth 0 fs 0 < 64) by (apply all_lt64_nth; [exact Hlt|lia]).
  intros l s Hl1 Hl Hr Hidx Hes. unfold sim_at, rd_entry, next_step_pgt. rewrite Hfmt.
  unfold next_step_pfn32, read_pte32, read32. cbn [af_ptesz af_pfn32 af_decode].
  change (8 * 4) with 32.
  destruct (readmem (s_as s) (s_base s)) as [x|e]; [|intro He; destruct e; try contradiction; eexists; reflexivity].
  set (pte := N.ldiff (x mod 2^32) mask).
  unfold dec_pfn, next_step_pfn_common, elemsz_last, nthN.
  destruct (pte =? 0); [eexists; reflexivity|].
  destruct (N.leb_spec 64 (nth 0 fs 0)); [lia|]. step_simpl. rewrite Hr.
  eexists. split; [reflexivity|]. rewrite wshl_mul.
  destruct l as [|[|l]]; [lia| |]; cbn [Nat.eqb]; step_simpl; repeat split; auto.
Qed.
End PFN.

Theorem pfn64_refines_arch readmem tgt mask pf va ras root fuel :
  pte_format pf = PTE_PFN64 -> wf_form Unsigned (fieldsz pf) ->
  (forall a x, readmem a x <> RdErr OK) -> va < 2^64 ->
  (length (fieldsz pf) <= fuel)%nat ->
  observe (addrxlat_walk readmem {| m_kind := KPgt ras root mask pf; m_target := tgt |} fuel (init_step va))
  = arch_walk readmem af_pfn64 tgt mask (fieldsz pf) va ras root.
Proof.
  intros Hfmt Hwf Herr Hva Hfuel.
  apply pgt_refines_arch; auto.
  - now apply sim_pfn64.
  - now rewrite Hfmt.
  - now rewrite Hfmt.
  - rewrite Hfmt. cbn. destruct Hwf as ((_ & H8) & _). exact H8.
Qed.

Theorem pfn32_refines_arch readmem tgt mask pf va ras root fuel :
  pte_format pf = PTE_PFN32 -> wf_form Unsigned (fieldsz pf) ->
  (forall a x, readmem a x <> RdErr OK) -> va < 2^64 ->
  (length (fieldsz pf) <= fuel)%nat ->
  observe (addrxlat_walk readmem {| m_kind := KPgt ras root mask pf; m_target := tgt |} fuel (init_step va))
  = arch_walk readmem af_pfn32 tgt mask (fieldsz pf) va ras root.
Proof.
  intros Hfmt Hwf Herr Hva Hfuel.
  apply pgt_refines_arch; auto.
  - now apply sim_pfn32.
  - now rewrite Hfmt.
  - now rewrite Hfmt.
  - rewrite Hfmt. cbn. destruct Hwf as ((_ & H8) & _). exact H8.
Qed.
