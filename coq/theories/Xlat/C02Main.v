(** C02: the per-format refinement theorems gathered into one statement about
    [spec_meth], and its corollaries. *)
From Coq Require Import NArith ZArith List Bool Lia.
From KdV Require Import Base.Wrap64 Xlat.Step Xlat.ArchSpec Xlat.XBits Xlat.WalkProofs
  Xlat.FmtX86 Xlat.FmtA64 Xlat.FmtRiscvPfn Xlat.FmtS390Arm Xlat.MethProofs.
Import ListNotations.
Local Open Scope N_scope.

(** the paging forms of each architecture (the forms [sys_*] sets up and the
    test-suite uses); plain PFN tables accept any well-formed form *)
Definition arch_form (f : ptefmt) (fs : list N) : Prop :=
  match f with
  | PTE_X86_64 => x86_64_form fs
  | PTE_IA32 => fs = [12;10;10]
  | PTE_IA32_PAE => fs = [12;9;9;2]
  | PTE_AARCH64 => a64_form A64 fs
  | PTE_AARCH64_LPA => a64_form A64_LPA fs
  | PTE_AARCH64_LPA2 => a64_form A64_LPA2 fs
  | PTE_ARM => fs = [12;8;12]
  | PTE_RISCV64 => riscv64_form fs
  | PTE_S390X => s390x_form fs
  | PTE_PFN32 | PTE_PFN64 => wf_form Unsigned fs
  | PTE_NONE | PTE_RISCV32 | PTE_PPC64_LINUX_RPN30 => False
  end.

Theorem pgt_all_refine_arch readmem tgt mask pf va ras root fuel af :
  arch_of (pte_format pf) = Some af -> arch_form (pte_format pf) (fieldsz pf) ->
  (forall a x, readmem a x <> RdErr OK) -> va < 2^64 ->
  (length (fieldsz pf) <= fuel)%nat ->
  observe (addrxlat_walk readmem {| m_kind := KPgt ras root mask pf; m_target := tgt |} fuel (init_step va))
  = arch_walk readmem af tgt mask (fieldsz pf) va ras root.
Proof.
  intros Haf Hform Herr Hva Hfuel.
  destruct (pte_format pf) eqn:Ef; cbn [arch_of arch_form] in Haf, Hform; try contradiction;
    injection Haf as <-.
  - now apply pfn32_refines_arch.
  - now apply pfn64_refines_arch.
  - now apply (aarch64_refines_arch A64).
  - now apply ia32_refines_arch.
  - now apply ia32_pae_refines_arch.
  - now apply x86_64_refines_arch.
  - now apply s390x_refines_arch.
  - now apply (aarch64_refines_arch A64_LPA).
  - now apply (aarch64_refines_arch A64_LPA2).
  - now apply arm_refines_arch.
  - now apply riscv64_refines_arch.
Qed.

(** the status of such a walk is never one of the model's "undefined
    behaviour" / "out of fuel" outcomes *)
Theorem pgt_no_ub readmem tgt mask pf va ras root fuel af :
  arch_of (pte_format pf) = Some af -> arch_form (pte_format pf) (fieldsz pf) ->
  (forall a x, readmem a x <> RdErr OK) ->
  (forall a x e, readmem a x = RdErr e -> model_only e = false) ->
  va < 2^64 -> (length (fieldsz pf) <= fuel)%nat ->
  model_only (fst (addrxlat_walk readmem {| m_kind := KPgt ras root mask pf; m_target := tgt |}
                                 fuel (init_step va))) = false.
Proof.
  intros Haf Hform Herr Hmo Hva Hfuel.
  apply (refines_no_ub readmem af tgt mask (fieldsz pf) va ras root); [exact Hmo|].
  apply pgt_all_refine_arch; assumption.
Qed.
