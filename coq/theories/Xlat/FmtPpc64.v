(** C02: [pgt_ppc64_linux_rpn30] on one directory / table entry does what the
    Linux layout says ([dec_ppc64]), for memories in which no huge-page
    directory claims a page size below the base page size. *)
From Coq Require Import NArith ZArith List Bool Lia.
From KdV Require Import Base.Wrap64 Xlat.Step Xlat.ArchSpec Xlat.XBits Xlat.WalkProofs.
Import ListNotations.
Local Open Scope N_scope.

(** every cell that has the shape of a huge-page directory entry names a page
    size that is not smaller than the base page (Linux never creates others;
    the library and the layout disagree on what they would mean) *)
Definition ppc64_mem_ok (readmem : aspace -> N -> rdres) (mask f0 : N) : Prop :=
  forall a x v, readmem a x = RdOk v ->
    let e := N.ldiff (v mod 2^64) mask in
    let sh := nth (N.to_nat (bits 2 4 e)) ppc64_mmu_pshift 0 in
    bits 0 2 e = 0 -> N.testbit e 63 = false ->          (* shaped like a huge-page directory entry *)
    sh = 0 \/ f0 <= sh.

Lemma hugepd_loop_eq fs idx : forall i off, hugepd_loop fs idx i off = huge_loop fs idx i off.
Proof.
  induction i as [|i IH]; intro off; [reflexivity|].
  destruct i as [|i']; [reflexivity|].
  cbn [hugepd_loop huge_loop]. apply IH.
Qed.

Lemma pshift_le_36 i : nth i ppc64_mmu_pshift 0 <= 36.
Proof. unfold ppc64_mmu_pshift. do 15 (destruct i as [|i]; [cbn; lia|]). cbn. lia. Qed.

Lemma set_nth_length l : forall i v, length (set_nth l i v) = length l.
Proof. induction l as [|h t IH]; intros [|i] v; cbn [set_nth length]; auto. Qed.

Lemma set_nth_same l : forall i v, (i < length l)%nat -> nthN (set_nth l i v) i = v.
Proof.
  induction l as [|h t IH]; intros [|i] v Hi; cbn [length] in Hi; try lia; cbn [set_nth]; unfold nthN; cbn [nth].
  - reflexivity.
  - apply IH. lia.
Qed.

Lemma set_nth_other l : forall i j v, i <> j -> nthN (set_nth l i v) j = nthN l j.
Proof.
  induction l as [|h t IH]; intros [|i] [|j] v Hij; cbn [set_nth]; unfold nthN; cbn [nth]; try reflexivity; try lia.
  apply IH. lia.
Qed.

Section PPC64.
Variable readmem : aspace -> N -> rdres.
Variable tgt : aspace.
Variable mask : N.
Variable pf : pform.
Variable va : N.
Hypothesis Hfmt : pte_format pf = PTE_PPC64_LINUX_RPN30.
Hypothesis Hform : fieldsz pf = [16;12;12;4].
Hypothesis Hmem : ppc64_mem_ok readmem mask 16.
Notation fs := (fieldsz pf).

(** the last-level entry, whatever the indices are *)
Lemma ppc64_leaf (s : step) x :
  s_remain s = 1%nat -> readmem (s_as s) (s_base s) = RdOk x ->
  let pte := N.ldiff (x mod 2^64) mask in
  next_step_pgt readmem tgt mask pf s =
  if pte =? 0 then (NOTPRESENT, set_raw s (x mod 2^64))
  else (OK, set_elemsz (set_base (set_raw s (x mod 2^64)) tgt (w (pte / 2^30 * 2^16))) 1).
Proof.
  intros Hr Hrd pte. unfold next_step_pgt. rewrite Hfmt.
  unfold pgt_ppc64_linux_rpn30, pgt_ppc64_linux, read_pte64, read64. rewrite Hrd. fold pte.
  destruct (pte =? 0); [reflexivity|].
  cbn [set_raw s_remain]. rewrite Hr. cbn [Nat.ltb Nat.leb]. unfold nthN. rewrite Hform. cbn [nth].
  cbn [N.leb N.compare Pos.compare Pos.compare_cont].
  rewrite wshl_mul, N.shiftr_div_pow2. reflexivity.
Qed.

Lemma sim_ppc64 : sim readmem af_ppc64_rpn30 tgt mask pf va.
Proof.
  assert (Hff : form_facts fs) by (rewrite Hform; apply form_facts_of; reflexivity).
  assert (Hlen : length fs = 4%nat) by now rewrite Hform.
  intros l s Hl1 Hl Hr Hidx Hes. unfold sim_at, rd_entry. cbn [af_ptesz af_ppc64_rpn30 af_decode].
  change (8 * 8) with 64.
  destruct (readmem (s_as s) (s_base s)) as [x|e] eqn:Erd.
  2:{ intro He. unfold next_step_pgt. rewrite Hfmt.
      unfold pgt_ppc64_linux_rpn30, pgt_ppc64_linux, read_pte64, read64. rewrite Erd.
      destruct e; try contradiction; eexists; reflexivity. }
  set (pte := N.ldiff (x mod 2^64) mask).
  assert (Hpte : pte < 2^64) by (unfold pte; apply ldiff_lt, N.mod_lt, pow2_nz).
  destruct l as [|[|l]]; [lia| |].
  - (* PTE *)
    rewrite (ppc64_leaf s x Hr Erd). fold pte. unfold dec_ppc64.
    destruct (pte =? 0); [eexists; reflexivity|].
    rewrite Hform. cbn [nth].
    eexists. split; [reflexivity|]. step_simpl. cbn [Nat.eqb]. repeat split; auto.
  - (* directory entry *)
    unfold next_step_pgt. rewrite Hfmt.
    unfold pgt_ppc64_linux_rpn30, pgt_ppc64_linux, read_pte64, read64. rewrite Erd. fold pte.
    unfold dec_ppc64, bit.
    destruct (pte =? 0); [eexists; reflexivity|].
    cbn [set_raw s_remain]. rewrite Hr.
    replace ((1 <? S (S l))%nat) with true by reflexivity.
    replace (N.land pte 3) with (bits 0 2 pte) by (change 3 with (N.ones 2); now rewrite land_ones_bits).
    destruct (bits 0 2 pte =? 0) eqn:Elow; cbn [negb].
    + destruct (N.testbit pte 63) eqn:E63; cbn [negb].
      * (* pointer to the next table *)
        unfold nthN. replace (S (S l) - 1)%nat with (S l) by lia.
        assert (Hf : nth (S l) fs 0 = 12).
        { rewrite Hform. destruct l as [|[|l]]; try reflexivity. rewrite Hlen in Hl. lia. }
        rewrite Hf. cbn [N.leb N.compare Pos.compare Pos.compare_cont].
        replace (wsub (wshl (wshl 1 3) 12) 1) with (N.ones 15) by (vm_compute; reflexivity).
        rewrite (frame_lt pte 15 64) by (auto; lia).
        eexists. split; [reflexivity|]. step_simpl. repeat split; auto.
      * (* huge-page directory *)
        unfold huge_pd_linux, hugepd_shift.
        assert (Hsh : N.shiftr (N.land pte 63) 2 = bits 2 4 pte).
        { change 63 with (N.ones 6). rewrite land_ones_bits, N.shiftr_div_pow2.
          unfold bits. change (2^0) with 1. rewrite N.div_1_r. apply (mod_div_pow2 pte 2 4). }
        rewrite Hsh. change mmu_pshift with ppc64_mmu_pshift.
        set (sh := nth (N.to_nat (bits 2 4 pte)) ppc64_mmu_pshift 0).
        change (nthN ppc64_mmu_pshift (N.to_nat (bits 2 4 pte))) with sh.
        destruct (sh =? 0) eqn:Esh; [eexists; reflexivity|].
        apply N.eqb_neq in Esh.
        assert (Hsh16 : 16 <= sh).
        { apply N.eqb_eq in Elow.
          destruct (Hmem _ _ _ Erd Elow E63) as [H0|H16]; [contradiction|exact H16]. }
        assert (Hsh36 : sh <= 36) by apply pshift_le_36.
        split; [lia|].
        step_simpl. rewrite Hr.
        rewrite all_lt64_firstn by apply Hff. cbn [negb].
        rewrite hugepd_loop_eq, Hidx.
        rewrite (huge_loop_spec fs va (ff_lt _ Hff) (S (S l)) 0 0); try lia.
        2:{ rewrite N.add_0_r. pose proof (lo_le_total fs (S (S l))). pose proof (ff_total _ Hff). lia. }
        2:{ now rewrite bits_n_0. }
        rewrite N.add_0_r, lo_1.
        assert (Hf0 : nth 0 fs 0 = 16) by now rewrite Hform.
        rewrite Hf0.
        set (X := bits 16 (lo fs (S (S l)) - 16) va).
        assert (Hroff : va mod 2^(lo fs (S (S l))) = X * 2^16 + va mod 2^16).
        { unfold X. rewrite <- !bits_0_n.
          pose proof (lo_mono fs 1 (S (S l)) ltac:(lia)) as Hm. rewrite lo_1, Hf0 in Hm.
          replace (lo fs (S (S l))) with (16 + (lo fs (S (S l)) - 16)) at 1 by lia.
          rewrite <- bits_join. reflexivity. }
        destruct (cut_above X (va mod 2^16) 16 sh ltac:(apply N.mod_lt, pow2_nz) Hsh16) as (C1 & C2 & C3).
        rewrite mask64 by lia.
        assert (Hl5 : length (split_fields fs va) = 5%nat) by (rewrite split_fields_length, Hlen; reflexivity).
        eexists. split; [reflexivity|]. step_simpl.
        rewrite !set_nth_length, Hl5.
        rewrite set_nth_other by lia. rewrite set_nth_same by (rewrite Hl5; lia).
        rewrite set_nth_same by (rewrite set_nth_length, Hl5; lia).
        rewrite set_nth_other by lia.
        rewrite split_fields_0 by lia. rewrite Hf0.
        rewrite N.shiftr_div_pow2, N.land_ones, Hroff, C1, C2, C3.
        assert (Hbase : N.lor (N.ldiff pte 63) (2^63) = bits 6 57 pte * 2^6 + 2^63).
        { assert (H63 : pte < 2^63).
          { destruct (N.lt_ge_cases pte (2^63)) as [H|H]; [exact H|].
            exfalso. assert (Hb : N.testbit pte 63 = true).
            { rewrite testbit_bits. unfold bits. rewrite N.mod_small.
              - assert (1 <= pte / 2^63) by (apply N.div_le_lower_bound; [apply pow2_nz|lia]).
                destruct (pte / 2^63); [lia|reflexivity].
              - apply N.div_lt_upper_bound; [apply pow2_nz|]. rewrite <- N.pow_add_r. exact Hpte. }
            congruence. }
          change 63 with (N.ones 6) at 1. rewrite (frame_lt pte 6 63) by (auto; lia).
          change (63 - 6) with 57.
          rewrite N.lor_comm. change (2^63) with (1 * 2^63) at 1.
          rewrite lor_disjoint_add.
          - lia.
          - apply N.lt_le_trans with (2^57 * 2^6); [|now apply N.eq_le_incl].
            apply N.mul_lt_mono_pos_r; [apply pow2_pos|apply bits_lt]. }
        rewrite Hbase.
        repeat split; auto; try lia.
        intros s2 Hr2 Hi2. unfold hugepd_leaf_sim, rd_entry. cbn [af_ptesz af_ppc64_rpn30 af_decode].
        change (8 * 8) with 64.
        destruct (readmem (s_as s2) (s_base s2)) as [x2|e2] eqn:Erd2.
        -- rewrite (ppc64_leaf s2 x2 Hr2 Erd2). unfold dec_ppc64.
           destruct (N.ldiff (x2 mod 2^64) mask =? 0); [eexists; reflexivity|].
           rewrite Hform. cbn [nth].
           eexists. split; [reflexivity|]. step_simpl. repeat split; auto.
        -- intro He. unfold next_step_pgt. rewrite Hfmt.
           unfold pgt_ppc64_linux_rpn30, pgt_ppc64_linux, read_pte64, read64. rewrite Erd2.
           destruct e2; try contradiction; eexists; reflexivity.
    + (* huge PTE *)
      unfold huge_page_linux, nthN. rewrite Hform. cbn [nth].
      cbn [N.leb N.compare Pos.compare Pos.compare_cont]. rewrite <- Hform.
      apply (huge_leaf pf va) with (l := S (S l)); step_simpl; auto.
      rewrite wshl_mul, N.shiftr_div_pow2. reflexivity.
Qed.
End PPC64.

Theorem ppc64_refines_linux readmem tgt mask pf va ras root fuel :
  pte_format pf = PTE_PPC64_LINUX_RPN30 -> fieldsz pf = [16;12;12;4] ->
  ppc64_mem_ok readmem mask 16 ->
  (forall a x, readmem a x <> RdErr OK) -> va < 2^64 ->
  (length (fieldsz pf) <= fuel)%nat ->
  observe (addrxlat_walk readmem {| m_kind := KPgt ras root mask pf; m_target := tgt |} fuel (init_step va))
  = arch_walk readmem af_ppc64_rpn30 tgt mask (fieldsz pf) va ras root.
Proof.
  intros Hfmt Hform Hmem Herr Hva Hfuel.
  apply pgt_refines_arch; auto.
  - now apply sim_ppc64.
  - now rewrite Hfmt.
  - now rewrite Hfmt.
  - rewrite Hfmt, Hform. cbn. lia.
  - rewrite Hform; wf_by_compute.
Qed.
